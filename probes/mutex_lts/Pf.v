From Coq Require Import List Arith Lia Bool.
Import ListNotations.
Require Import Mx.

Lemma upd_same f t v : upd f t v t = v.
Proof. unfold upd. now rewrite Nat.eqb_refl. Qed.
Lemma upd_other f t v x : x <> t -> upd f t v x = f x.
Proof. unfold upd. intros H. apply Nat.eqb_neq in H. now rewrite H. Qed.
Lemma inb_app x l t : inb x (l ++ [t]) = inb x l || Nat.eqb x t.
Proof. unfold inb. rewrite existsb_app. cbn. now rewrite orb_false_r. Qed.
Lemma inb_In x l : inb x l = true <-> In x l.
Proof. unfold inb. rewrite existsb_exists. split.
  - intros [y [H E]]. apply Nat.eqb_eq in E. now subst.
  - intros H. exists x. split; auto. apply Nat.eqb_refl. Qed.
Lemma neqb x t : x <> t -> Nat.eqb x t = false /\ Nat.eqb t x = false.
Proof. intros H. split; apply Nat.eqb_neq; congruence. Qed.
Lemma NoDup_snoc (l : list nat) t : NoDup l -> ~ In t l -> NoDup (l ++ [t]).
Proof. induction l as [|a l IH]; cbn; intros Hn Hi. { repeat constructor; auto. }
  inversion Hn; subst. constructor.
  - rewrite in_app_iff. cbn. intuition.
  - apply IH; auto. Qed.

Ltac ucase x t :=
  let Hne := fresh "Hne" in let Hn1 := fresh "Hn" in let Hn2 := fresh "Hn" in
  destruct (Nat.eq_dec x t) as [->|Hne];
  [ rewrite ?upd_same, ?Nat.eqb_refl in *
  | rewrite ?upd_other in * by assumption;
    destruct (neqb _ _ Hne) as [Hn1 Hn2]; rewrite ?Hn1, ?Hn2 in * ].

Ltac rwneq := repeat match goal with H : Nat.eqb _ _ = false |- _ => progress (rewrite ?H in *) end.
(* pointwise equalities *)
Ltac pw_eq Ih t :=
  let x := fresh "x" in intros x; ucase x t; cbn;
  [ rewrite ?Nat.eqb_refl; try reflexivity; try congruence
  | first [ rewrite Ih; cbn; rwneq; reflexivity
          | specialize (Ih x); cbn in Ih; rwneq; congruence ] ].
(* pointwise implications *)
Ltac pw_imp t :=
  let x := fresh "x" in let Hx := fresh "Hx" in
  intros x Hx; ucase x t; cbn in Hx; try discriminate; eauto.

Lemma wake_in f l x : inb x l = true -> wake f l x = L0.
Proof. unfold wake. now intros ->. Qed.
Lemma wake_out f l x : inb x l = false -> wake f l x = f x.
Proof. unfold wake. now intros ->. Qed.

Lemma step_inv s t a s' : Inv s -> step s t a = Some s' -> Inv s'.
Proof.
  intros I H. unfold step in H.
  destruct (pc s t) eqn:Ept; destruct a; try discriminate;
  repeat match type of H with
  | context [if lock s then _ else _] => destruct (lock s) eqn:Elk
  | context [match wlock s with _ => _ end] => destruct (wlock s) eqn:Ewl
  end; try discriminate; inversion H; subst s'; clear H.
  all: try (exact I).
  all: destruct I as [Ilk Ih Iw Iwl Ind Il3 Inl].
  all: pose proof (Ih t) as Iht; pose proof (Iw t) as Iwt; pose proof (Iwl t) as Iwlt;
       rewrite Ept in Iht, Iwt, Iwlt; cbn in Iht, Iwt, Iwlt.
  all: destruct (holder s) as [hd|] eqn:Ehd; try discriminate;
       destruct (wlock s) as [wh|] eqn:Ewh; try discriminate;
       cbn in Iht, Iwt; rewrite ?Nat.eqb_refl in *.
  all: try (apply Nat.eqb_eq in Iht; subst hd).
  all: try (apply Nat.eqb_eq in Iwt; subst wh).
  all: try (symmetry in Iht; apply Nat.eqb_eq in Iht; subst hd).
  all: try (symmetry in Iwt; apply Nat.eqb_eq in Iwt; subst wh).
  all: constructor; cbn [lock holder wlock wl pc] in *.
  all: try assumption; try reflexivity; try congruence.
  all: try solve [pw_eq Ih t]. all: try solve [pw_eq Iw t]. all: try solve [pw_eq Iwl t].
  all: try solve [pw_imp t].
  (* no-lost-wakeup conjunct *)
  all: try solve [
    intros x Hx; ucase x t; cbn in Hx; try discriminate;
    first
    [ left; apply (Il3 t); rewrite Ept; reflexivity
    | destruct (Inl x Hx) as [Hl|[u [Hu Hu3]]];
      [ first [ left; congruence | exfalso; congruence
              | right; exists t; split; [reflexivity|rewrite upd_same; reflexivity] ]
      | first [ right; exists u; split; [congruence|];
                ucase u t; [rewrite Ept in Hu3; cbn in Hu3; discriminate | assumption]
              | left; inversion Hu; subst u; rewrite Ept in Hu3; cbn in Hu3; discriminate
              | exfalso; inversion Hu; subst u; rewrite Ept in Hu3; cbn in Hu3; discriminate
              | discriminate ] ] ] ].
  (* enqueue at L3 *)
  all: try solve [ intros x; rewrite inb_app; ucase x t; cbn; rwneq;
                   [ rewrite orb_true_r; reflexivity | rewrite orb_false_r; apply Iwl ] ].
  all: try solve [ apply NoDup_snoc; auto; intros Hin; apply inb_In in Hin; rewrite Iwl, Ept in Hin; discriminate ].
  all: try solve [ constructor ].
  (* U2: nobody else can be at L3 because t owns waiter_lock *)
  all: try solve [ intros x Hx; ucase x t; cbn in Hx; try discriminate;
                   specialize (Iw x); destruct (pc s x); cbn in *; rwneq; congruence ].
  (* U3: broadcast *)
  all: try solve [
    intros x; ucase x t; cbn; rewrite ?Nat.eqb_refl; try reflexivity; try congruence;
    unfold wake; pose proof (Iwl x) as Hb; pose proof (Ih x) as Hh; pose proof (Iw x) as Hw;
    destruct (inb x (wl s)); destruct (pc s x); cbn in *; rwneq; congruence ].
  all: try solve [
    intros x Hx; ucase x t; cbn in Hx; try discriminate;
    unfold wake in Hx; pose proof (Iwl x) as Hb; pose proof (Il3 x) as Hl;
    destruct (inb x (wl s)); destruct (pc s x); cbn in *; try discriminate; auto ].
Qed.
Print Assumptions step_inv.

(* lift to all reachable states, for any number of threads and any interleaving *)
Fixpoint run (s : st) (tr : list (nat * act)) : option st :=
  match tr with [] => Some s | (t,a) :: r => match step s t a with Some s' => run s' r | None => None end end.
Lemma inv_run tr : forall s0 s, Inv s0 -> run s0 tr = Some s -> Inv s.
Proof. induction tr as [|[t a] r IH]; cbn; intros s0 s I H.
  - inversion H; subst; exact I.
  - destruct (step s0 t a) eqn:E; try discriminate. eapply IH; [eapply step_inv; eauto|exact H]. Qed.
Theorem inv_reachable tr s : run init tr = Some s -> Inv s.
Proof. apply inv_run, inv_init. Qed.
Corollary mutual_exclusion tr s t1 t2 : run init tr = Some s ->
  holds (pc s t1) = true -> holds (pc s t2) = true -> t1 = t2.
Proof. intros H H1 H2. apply inv_reachable in H. destruct H as [_ Ih _ _ _ _ _].
  rewrite Ih in H1, H2. destruct (holder s); cbn in *; try discriminate.
  apply Nat.eqb_eq in H1, H2. congruence. Qed.
Corollary no_sleeper_on_free_mutex tr s x : run init tr = Some s ->
  pc s x = Blocked -> lock s = false -> exists u, wlock s = Some u /\ pc s u = U3.
Proof. intros H Hb Hl. apply inv_reachable in H. destruct (i_nl s H x) as [E|[u [Hu H3]]].
  - now rewrite Hb. - congruence. - exists u. split; auto. destruct (pc s u); try discriminate; auto. Qed.

