From Coq Require Import List Arith Lia Bool.
Import ListNotations.

Inductive pcT := Idle | L0 | L1 | L2 | L2ok | L3 | Blocked | Holding | U1 | U2 | U3 | U4.

Record st := mk { lock : bool; holder : option nat; (* ghost *)
                  wlock : option nat; wl : list nat; pc : nat -> pcT }.
Definition upd (f : nat -> pcT) (t : nat) (v : pcT) : nat -> pcT :=
  fun x => if Nat.eqb x t then v else f x.
Definition inb (x : nat) (l : list nat) : bool := existsb (Nat.eqb x) l.
Definition wake (f : nat -> pcT) (l : list nat) : nat -> pcT :=
  fun x => if inb x l then L0 else f x.

Inductive act := CallLock | CallTry | CallUnlock | Step.

Definition step (s : st) (t : nat) (a : act) : option st :=
  match pc s t, a with
  | Idle, CallLock => Some (mk (lock s) (holder s) (wlock s) (wl s) (upd (pc s) t L0))
  | Idle, CallTry => if lock s then Some s
                     else Some (mk true (Some t) (wlock s) (wl s) (upd (pc s) t Holding))
  | L0, Step => if lock s then Some (mk (lock s) (holder s) (wlock s) (wl s) (upd (pc s) t L1))
                else Some (mk true (Some t) (wlock s) (wl s) (upd (pc s) t Holding))
  | L1, Step => match wlock s with
                | None => Some (mk (lock s) (holder s) (Some t) (wl s) (upd (pc s) t L2))
                | Some _ => None end
  | L2, Step => if lock s then Some (mk (lock s) (holder s) (wlock s) (wl s) (upd (pc s) t L3))
                else Some (mk true (Some t) (wlock s) (wl s) (upd (pc s) t L2ok))
  | L2ok, Step => Some (mk (lock s) (holder s) None (wl s) (upd (pc s) t Holding))
  | L3, Step => Some (mk (lock s) (holder s) None (wl s ++ [t]) (upd (pc s) t Blocked))
  | Holding, CallUnlock => Some (mk (lock s) (holder s) (wlock s) (wl s) (upd (pc s) t U1))
  | U1, Step => match wlock s with
                | None => Some (mk (lock s) (holder s) (Some t) (wl s) (upd (pc s) t U2))
                | Some _ => None end
  | U2, Step => Some (mk false None (wlock s) (wl s) (upd (pc s) t U3))
  | U3, Step => Some (mk (lock s) (holder s) (wlock s) [] (upd (wake (pc s) (wl s)) t U4))
  | U4, Step => Some (mk (lock s) (holder s) None (wl s) (upd (pc s) t Idle))
  | _, _ => None
  end.

Definition holds (p : pcT) : bool := match p with Holding | L2ok | U1 | U2 => true | _ => false end.
Definition inw (p : pcT) : bool := match p with L2 | L2ok | L3 | U2 | U3 | U4 => true | _ => false end.
Definition is_blocked (p : pcT) : bool := match p with Blocked => true | _ => false end.
Definition is_u3 (p : pcT) : bool := match p with U3 => true | _ => false end.
Definition is_l3 (p : pcT) : bool := match p with L3 => true | _ => false end.
Definition oeq (o : option nat) (x : nat) : bool := match o with Some y => Nat.eqb y x | None => false end.

(* all conjuncts pointwise in the thread x *)
Record Inv (s : st) : Prop := {
  i_lock : lock s = match holder s with Some _ => true | None => false end;
  i_hold : forall x, holds (pc s x) = oeq (holder s) x;
  i_w    : forall x, inw (pc s x) = oeq (wlock s) x;
  i_wl   : forall x, inb x (wl s) = is_blocked (pc s x);
  i_nd   : NoDup (wl s);
  i_l3   : forall x, is_l3 (pc s x) = true -> lock s = true;
  (* no lost wakeup: a sleeper exists only while the lock is held or a broadcast is owed *)
  i_nl   : forall x, is_blocked (pc s x) = true ->
             lock s = true \/ exists u, wlock s = Some u /\ is_u3 (pc s u) = true
}.
Definition init : st := mk false None None [] (fun _ => Idle).
Lemma inv_init : Inv init.
Proof. constructor; cbn; auto; try discriminate. constructor. Qed.
