From Coq Require Import List Arith Lia Bool.
Import ListNotations.

Definition upd {A} (f : nat -> A) (k : nat) (v : A) : nat -> A :=
  fun x => if Nat.eqb x k then v else f x.
Lemma upd_same {A} (f:nat->A) k v : upd f k v k = v.
Proof. unfold upd. now rewrite Nat.eqb_refl. Qed.
Lemma upd_other {A} (f:nat->A) k v x : x <> k -> upd f k v x = f x.
Proof. unfold upd. intros H. apply Nat.eqb_neq in H. now rewrite H. Qed.

Record wl := mk { head : option nat; tail : option nat;
                  next : nat -> option nat; prev : nat -> option nat; timed : nat -> bool }.

(* ABTI_waitlist_wait_and_unlock / wait_timedout_and_unlock : enqueue part *)
Definition enq (s : wl) (x : nat) (tm : bool) : wl :=
  let nx := upd (next s) x None in
  match head s with
  | None => mk (Some x) (Some x) nx (if tm then upd (prev s) x None else prev s) (upd (timed s) x tm)
  | Some _ =>
    match tail s with
    | Some t => mk (head s) (Some x) (upd nx t (Some x))
                   (if tm then upd (prev s) x (Some t) else prev s) (upd (timed s) x tm)
    | None => s (* unreachable *)
    end
  end.

(* ABTI_waitlist_signal *)
Definition signal (s : wl) : wl * option nat :=
  match head s with
  | None => (s, None)
  | Some x => let n := next s x in
      (mk n (match n with None => None | Some _ => tail s end) (upd (next s) x None) (prev s) (timed s), Some x)
  end.

(* timeout branch of ABTI_waitlist_wait_timedout_and_unlock when still queued *)
Definition tmo (s : wl) (x : nat) : wl :=
  match head s with
  | Some h =>
    if Nat.eqb h x then
      mk (next s x) (match next s x with None => None | Some _ => tail s end) (next s) (prev s) (timed s)
    else
      match prev s x with
      | Some p =>
        match next s x with
        | Some n => mk (head s) (tail s) (upd (next s) p (Some n)) (upd (prev s) n (Some p)) (timed s)
        | None => mk (head s) (Some p) (upd (next s) p None) (prev s) (timed s)
        end
      | None => s
      end
  | None => s
  end.

Fixpoint chain (nx : nat -> option nat) (h : option nat) (l : list nat) : Prop :=
  match l with
  | [] => h = None
  | x :: xs => h = Some x /\ chain nx (nx x) xs
  end.

Definition last_opt (l : list nat) : option nat :=
  match l with [] => None | _ => Some (last l 0) end.

Record Rep (s : wl) (l : list nat) : Prop := {
  r_nodup : NoDup l;
  r_chain : chain (next s) (head s) l;
  r_tail : tail s = last_opt l;
  r_prev : forall l1 a b l2, l = l1 ++ a :: b :: l2 -> timed s b = true -> prev s b = Some a
}.
