From Coq Require Import List Arith Lia Bool.
Import ListNotations.
Require Import Wl.

Fixpoint chainb (nx : nat -> option nat) (h : option nat) (l : list nat) : bool :=
  match l with
  | [] => match h with None => true | _ => false end
  | x :: xs => match h with Some y => Nat.eqb x y && chainb nx (nx x) xs | None => false end
  end.
Definition oeqb (a b : option nat) := match a,b with None,None => true | Some x, Some y => Nat.eqb x y | _,_ => false end.
Fixpoint prevb (s : wl) (l : list nat) : bool :=
  match l with
  | a :: ((b :: _) as r) => (if timed s b then oeqb (prev s b) (Some a) else true) && prevb s r
  | _ => true
  end.
Definition repb (s : wl) (l : list nat) : bool :=
  chainb (next s) (head s) l && oeqb (tail s) (last_opt l) && prevb s l.

Inductive op := Enq (tm : bool) | Sig | Tmo (k : nat) | Bc.
(* spec + impl in lockstep; fresh ids from a counter; Tmo k targets the k-th queued element if timed *)
Definition broadcast (s : wl) : wl := mk None None (fun _ => None) (prev s) (timed s).
Definition stepb (st : wl * list nat * nat) (o : op) : wl * list nat * nat :=
  let '(s, l, n) := st in
  match o with
  | Enq tm => (enq s n tm, l ++ [n], S n)
  | Sig => (fst (signal s), tl l, n)
  | Bc => (broadcast s, [], n)
  | Tmo k => match nth_error l k with
             | Some x => if timed s x then (tmo s x, remove Nat.eq_dec x l, n) else st
             | None => st end
  end.
Definition init : wl := mk None None (fun _ => None) (fun _ => Some 999) (fun _ => false).
(* note: prev initialised to garbage (Some 999) to mimic uninitialised p_prev of untimed nodes *)
Definition ops := [Enq true; Enq false; Sig; Bc; Tmo 0; Tmo 1; Tmo 2; Tmo 3].
Fixpoint all_ok (d : nat) (st : wl * list nat * nat) : bool :=
  let '(s,l,_) := st in
  repb s l &&
  match d with 0 => true | S d' => forallb (fun o => all_ok d' (stepb st o)) ops end.
Time Eval vm_compute in all_ok 7 (init, [], 0).
