From Coq Require Import ZArith List Lia.
Import ListNotations.
Local Open Scope Z_scope.

Inductive reg := RAX|RBX|RCX|RDX|RSI|RDI|RBP|RSP|R8|R9|R10|R11|R12|R13|R14|R15.
Definition reg_eqb (a b : reg) : bool :=
  match a,b with RAX,RAX|RBX,RBX|RCX,RCX|RDX,RDX|RSI,RSI|RDI,RDI|RBP,RBP|RSP,RSP
  |R8,R8|R9,R9|R10,R10|R11,R11|R12,R12|R13,R13|R14,R14|R15,R15 => true | _,_ => false end.

Inductive instr :=
| Pushq (r:reg) | Popq (r:reg)
| LeaRsp (d:Z)                 (* leaq d(%rsp), %rsp *)
| Stmxcsr (d:Z) | Ldmxcsr (d:Z) | Fnstcw (d:Z) | Fldcw (d:Z)   (* d(%rsp) *)
| MovRegToMem (src base:reg)   (* movq %src, (%base) *)
| MovMemToReg (base dst:reg)   (* movq (%base), %dst *)
| JmpReg (r:reg).

Record st := mk { regs : reg -> Z; mxcsr : Z; cw : Z; mem : Z -> Z; pcj : option Z }.
Definition setr (f:reg->Z) (r:reg) (v:Z) : reg->Z := fun x => if reg_eqb x r then v else f x.
Definition setm (m:Z->Z) (a v:Z) : Z->Z := fun x => if Z.eqb x a then v else m x.
Definition B32 := 4294967296.
Definition st64 (m:Z->Z) (a v:Z) := setm (setm m a (v mod B32)) (a+4) (v / B32).
Definition ld64 (m:Z->Z) (a:Z) := m a + B32 * m (a+4).

Definition exec1 (i:instr) (s:st) : st :=
  let r := regs s in
  match i with
  | Pushq x => let sp := r RSP - 8 in mk (setr r RSP sp) (mxcsr s) (cw s) (st64 (mem s) sp (r x)) (pcj s)
  | Popq x => let sp := r RSP in mk (setr (setr r x (ld64 (mem s) sp)) RSP (sp+8)) (mxcsr s) (cw s) (mem s) (pcj s)
  | LeaRsp d => mk (setr r RSP (r RSP + d)) (mxcsr s) (cw s) (mem s) (pcj s)
  | Stmxcsr d => mk r (mxcsr s) (cw s) (setm (mem s) (r RSP + d) (mxcsr s)) (pcj s)
  | Ldmxcsr d => mk r (mem s (r RSP + d)) (cw s) (mem s) (pcj s)
  | Fnstcw d => mk r (mxcsr s) (cw s) (setm (mem s) (r RSP + d) (cw s)) (pcj s)
  | Fldcw d => mk r (mxcsr s) (mem s (r RSP + d)) (mem s) (pcj s)
  | MovRegToMem a b => mk r (mxcsr s) (cw s) (st64 (mem s) (r b) (r a)) (pcj s)
  | MovMemToReg b d => mk (setr r d (ld64 (mem s) (r b))) (mxcsr s) (cw s) (mem s) (pcj s)
  | JmpReg x => mk r (mxcsr s) (cw s) (mem s) (Some (r x))
  end.
Definition exec (p:list instr) (s:st) : st := fold_left (fun s i => exec1 i s) p s.

(* as the translator would emit for switch_fcontext *)
Definition save_half : list instr :=
  [Pushq RBP; Pushq RBX; Pushq R15; Pushq R14; Pushq R13; Pushq R12; LeaRsp (-8);
   Stmxcsr 0; Fnstcw 4; MovRegToMem RSP RSI].
Definition restore_half : list instr :=
  [MovMemToReg RDI RSP; Ldmxcsr 0; Fldcw 4; LeaRsp 8; Popq R12; Popq R13; Popq R14; Popq R15;
   Popq RBX; Popq RBP; Popq R8; JmpReg R8].
