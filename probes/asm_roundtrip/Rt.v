From Coq Require Import ZArith List Lia.
Import ListNotations.
Require Import X86.
Local Open Scope Z_scope.

Definition wf64 (v:Z) := 0 <= v < B32*B32.
Lemma comb v : wf64 v -> v mod B32 + B32 * (v / B32) = v.
Proof. unfold wf64, B32. intros H. pose proof (Z.div_mod v 4294967296 ltac:(lia)). lia. Qed.
Lemma setm_same m a v : setm m a v a = v.
Proof. unfold setm. now rewrite Z.eqb_refl. Qed.
Lemma setm_other m a v x : x <> a -> setm m a v x = m x.
Proof. unfold setm. intros H. apply Z.eqb_neq in H. now rewrite H. Qed.
Definition agree (m1 m2 : Z -> Z) (lo n : Z) := forall a, lo <= a < lo + n -> m1 a = m2 a.

Lemma setm_eq m a v x : x = a -> setm m a v x = v.
Proof. intros ->. apply setm_same. Qed.
Ltac rd := repeat first [ rewrite setm_eq by lia | rewrite setm_other by lia ].

Theorem switch_roundtrip :
  forall s0 s2 ctx,
    (forall r, wf64 (regs s0 r)) ->
    regs s0 RSI = ctx ->
    let sp := regs s0 RSP in
    56 <= sp ->
    (ctx + 8 <= sp - 56 \/ sp + 8 <= ctx) ->
    let s1 := exec save_half s0 in
    regs s2 RDI = ctx ->
    agree (mem s1) (mem s2) (sp - 56) 56 ->
    agree (mem s0) (mem s2) sp 8 ->
    agree (mem s1) (mem s2) ctx 8 ->
    let s3 := exec restore_half s2 in
    regs s3 RBX = regs s0 RBX /\ regs s3 RBP = regs s0 RBP /\
    regs s3 R12 = regs s0 R12 /\ regs s3 R13 = regs s0 R13 /\
    regs s3 R14 = regs s0 R14 /\ regs s3 R15 = regs s0 R15 /\
    mxcsr s3 = mxcsr s0 /\ cw s3 = cw s0 /\
    regs s3 RSP = sp + 8 /\ pcj s3 = Some (ld64 (mem s0) sp).
Proof.
  intros s0 s2 ctx Hwf Hsi sp Hsp56 Hdisj s1 Hdi Hfr Hret Hctx s3.
  pose proof (Hwf RSP) as HwfSP. fold sp in HwfSP.
  pose proof (Hwf RBX) as W1. pose proof (Hwf RBP) as W2. pose proof (Hwf R12) as W3.
  pose proof (Hwf R13) as W4. pose proof (Hwf R14) as W5. pose proof (Hwf R15) as W6.
  assert (Wsp : wf64 (sp - 56)) by (unfold wf64, B32 in *; lia).
  (* memory of s1, cell by cell *)
  assert (M : forall a, mem s1 a =
     mem (exec save_half s0) a) by reflexivity.
  unfold agree in *.
  subst s3. unfold restore_half, exec. cbn [fold_left exec1 regs mem mxcsr cw pcj setr reg_eqb].
  rewrite Hdi.
  assert (Hsp : ld64 (mem s2) ctx = sp - 56).
  { unfold ld64. rewrite <- (Hctx ctx), <- (Hctx (ctx+4)) by lia.
    subst s1. unfold save_half, exec. cbn [fold_left exec1 regs mem mxcsr cw pcj setr reg_eqb].
    rewrite Hsi. fold sp. unfold st64.
    replace (sp - 8 - 8 - 8 - 8 - 8 - 8 + -8) with (sp - 56) by lia.
    rd. apply comb; assumption. }
  rewrite Hsp.
  (* every cell read below is in the frame: move to s1 and compute *)
  unfold ld64.
  repeat match goal with |- context [mem s2 ?a] =>
    first [ rewrite <- (Hfr a) by lia | rewrite <- (Hret a) by lia ] end.
  subst s1. unfold save_half, exec. cbn [fold_left exec1 regs mem mxcsr cw pcj setr reg_eqb].
  fold sp. unfold st64. rewrite Hsi.
  repeat split; rd; try (apply comb; assumption); try lia; try reflexivity.
  repeat f_equal; lia.
Qed.
Print Assumptions switch_roundtrip.
