From Coq Require Import List ZArith Bool.
From Coq Require Import ExtrOcamlBasic.
From ABT Require Import Conc.Mutex Conc.CondMutex.
Extraction Language OCaml.
Extraction "../ocaml/extracted/c05.ml"
  Z.add Z.mul Z.opp Z.sub Z.div Z.modulo Z.eqb Z.of_nat
  CondMutex.cstep CondMutex.cinit CondMutex.creplay
  CondMutex.inclk CondMutex.cqueued CondMutex.credited CondMutex.waiting
  Mutex.holds Mutex.queued.
