(* C15 -- Descriptors and stacks are exclusively owned, conserved; any stack
   size works.  Only statements here; proofs live in DS/*Proofs*.v.

   Models: DS/MemPool.v (abti_mem_pool.h + mem_pool.c, field level, several local
   pools, page-allocation failure as an input), DS/SyncLifo.v (the tagged-pointer
   LIFO as an LTS, one step per atomic access), DS/StackGeom.v (address
   arithmetic of ythread_create / ABTI_mem_free_thread / ABTI_mem_init).
   [MemPool.run], [StackGeom.free_thread] are the code with fixes/F5-partial-bucket.patch
   and fixes/F1-stack-roundup.patch applied; [run_buggy], [free_thread_buggy] are
   the unpatched expressions, kept for the refutations. *)
From Coq Require Import List ZArith Bool Lia Permutation.
From ABT Require Import Common.ListAux DS.SyncLifo DS.SyncLifoProofs DS.MemPool DS.MemPoolProofs
     DS.MemPoolProofs2 DS.MemPoolProofs3 DS.MemPoolProofs4 DS.StackGeom DS.StackGeomProofs.
Import ListNotations.
Local Open Scope Z_scope.

(* ------------------------------------------------------------------ memory pool *)

(* In every state reachable by any sequence of init / alloc / free / destroy
   operations on any number of local pools (any interleaving of the streams at
   operation granularity), any bucket size N >= 1, any page capacity S >= 1 and
   any pattern of page-allocation failures, no block is in two places:
   the blocks held by the client, all local free chains, all buckets on the
   global LIFO, the partial bucket and the uncarved remainders of all pages
   form a duplicate-free list. *)
Theorem C15_exclusive : forall N S budget np ops s rs,
  1 <= N -> 1 <= S ->
  run (init_state N S budget np) ops = Some (s, rs) -> NoDup (all_blocks s).
Proof. intros N S budget np ops s rs HN HS Hr. exact (exclusive_gen rem_fixed rem_fixed_le N S budget np ops s rs HN HS Hr). Qed.
Print Assumptions C15_exclusive.

(* ... and this safety part also holds for the unpatched remaining-count
   expression of mem_pool_return_partial_bucket (finding F5 loses blocks but
   never hands one out twice). *)
Theorem C15_exclusive_unpatched : forall N S budget np ops s rs,
  1 <= N -> 1 <= S ->
  run_buggy (init_state N S budget np) ops = Some (s, rs) -> NoDup (all_blocks s).
Proof. intros N S budget np ops s rs HN HS Hr. exact (exclusive_gen rem_buggy rem_buggy_le N S budget np ops s rs HN HS Hr). Qed.
Print Assumptions C15_exclusive_unpatched.

(* Nothing is lost: every block of every page allocated so far is somewhere in
   that list; together with C15_exclusive the list is a permutation of all
   block ids 1 .. npages * S. *)
Theorem C15_conserved : forall N S budget np ops s rs,
  1 <= N -> 1 <= S ->
  run (init_state N S budget np) ops = Some (s, rs) ->
  Permutation (all_blocks s) (zrange 1 (total_blocks (st_g s) + 1)).
Proof.
  intros N S budget np ops s rs HN HS Hr. apply NoDup_Permutation.
  - exact (C15_exclusive N S budget np ops s rs HN HS Hr).
  - apply zrange_nodup.
  - intros b. rewrite zrange_in. split.
    + intros Hb. pose proof (all_blocks_valid rem_fixed rem_fixed_le N S budget np ops s rs b HN HS Hr Hb). lia.
    + intros Hb. apply (conserved_gen rem_fixed rem_fixed_le (fun _ _ _ => eq_refl) N S budget np ops s rs b HN HS Hr). lia.
Qed.
Print Assumptions C15_conserved.

(* Finding F5: with the unpatched expression (operands swapped) conservation
   fails.  Buckets of 4, three local pools; pool 0 allocates one block, pool 1
   two; both are destroyed: partial buckets of 3 and 2 blocks are merged, the
   count of the one remaining block is stored as -1 and the block is lost. *)
Definition f5_witness : list op :=
  [OInit 0; OInit 1; OInit 2; OAlloc 0; OAlloc 1; OAlloc 1; ODestroy 0; ODestroy 1]%nat.
Theorem C15_conserved_refuted :
  exists N S budget np ops s rs b,
    1 <= N /\ 1 <= S /\ run_buggy (init_state N S budget np) ops = Some (s, rs) /\
    1 <= b <= total_blocks (st_g s) /\ ~ In b (all_blocks s).
Proof.
  exists 4, 6, (-1), 3%nat, f5_witness.
  destruct (run_buggy (init_state 4 6 (-1) 3) f5_witness) as [[s rs]|] eqn:E; [|vm_compute in E; discriminate].
  exists s, rs, 1. split; [lia|]. split; [lia|]. split; [reflexivity|].
  assert (Hs : total_blocks (st_g s) = 12 /\ all_blocks s = [7; 8; 4; 12; 11; 10; 9; 3; 2; 6; 5]).
  { vm_compute in E. inversion E; subst. vm_compute. auto. }
  destruct Hs as (-> & ->). split; [lia|]. cbn. intuition lia.
Qed.
Print Assumptions C15_conserved_refuted.

(* the same run on the patched model keeps block 1 (non-vacuity of C15_conserved) *)
Example C15_conserved_example :
  match run (init_state 4 6 (-1) 3) f5_witness with
  | Some (s, _) => all_blocks s = [7; 8; 4; 12; 11; 10; 9; 3; 2; 6; 5; 1] /\
                   h_info (g_hp (st_g s) (g_partial (st_g s))) = 1
  | None => False
  end.
Proof. vm_compute. split; reflexivity. Qed.

(* ABTI_mem_pool_destroy_global_pool hands every page that was allocated to
   ABTU_free_largepage exactly once. *)
Theorem C15_pages_freed_once : forall N S budget np ops s rs,
  1 <= N -> 1 <= S ->
  run (init_state N S budget np) ops = Some (s, rs) ->
  NoDup (destroy_global (st_g s)) /\
  (forall p, In p (destroy_global (st_g s)) <-> 1 <= p <= g_npages (st_g s)).
Proof. intros N S budget np ops s rs HN HS Hr. exact (destroy_global_exact rem_fixed rem_fixed_le N S budget np ops s rs HN HS Hr). Qed.
Print Assumptions C15_pages_freed_once.

(* A client that respects the calling convention (initialised pool, frees only
   what it holds) is never refused; in particular the carving loop of
   take_bucket terminates within its bound. *)
Theorem C15_pool_no_stuck : forall N S budget np ops s rs o,
  1 <= N -> 1 <= S ->
  run (init_state N S budget np) ops = Some (s, rs) ->
  client_ok s o -> step s o <> None.
Proof. intros N S budget np ops s rs o HN HS Hr Hc. exact (no_stuck rem_fixed rem_fixed_le N S budget np ops s rs o HN HS Hr Hc). Qed.
Print Assumptions C15_pool_no_stuck.

(* ------------------------------------------------------------------ tagged LIFO *)

(* In every interleaving of any number of threads pushing elements they hold and
   popping (one step per atomic access; ptr and tag are loaded separately, the
   CAS is weak; owners overwrite the link word of elements they hold and pass
   elements to each other; tags unbounded): the p_next chain from top is exactly
   the abstract stack, it has no duplicates, every element is in the stack xor
   held by exactly one thread (none handed out twice, none lost), and the
   successful CASes, in order, replay on a sequential stack (each pop returns
   the top, pop-empty only when empty). *)
Theorem C15_lifo_no_aba : forall nxt0 own0 acts s,
  SyncLifo.run (SyncLifo.init nxt0 own0) acts = Some s ->
  lchain (nxt s) (top s) (abs s) /\ NoDup (abs s) /\
  (forall e, In e (abs s) <-> owner s e = None) /\
  replay [] (rev (hist s)) = Some (abs s).
Proof. exact lifo_no_aba. Qed.
Print Assumptions C15_lifo_no_aba.

(* the decisive step: a pop whose CAS is about to succeed read a successor that
   is still the successor *)
Theorem C15_lifo_cas_not_stale : forall nxt0 own0 acts s x p t n,
  SyncLifo.run (SyncLifo.init nxt0 own0) acts = Some s -> pcs s x = PopC p t n ->
  top s = p -> tag s = t -> exists l, abs s = p :: l /\ lchain (nxt s) n l.
Proof. exact pop_cas_not_stale. Qed.
Print Assumptions C15_lifo_cas_not_stale.

(* without the tag increment the structure breaks (so the theorem above is
   about the tag, not about luck) *)
Theorem C15_lifo_needs_tag :
  exists acts s, SyncLifo.run_gen 0 aba_init acts = Some s /\
    top s = 2 /\ owner s 2 = Some 2 /\ ~ lchain (nxt s) (top s) (abs s).
Proof. exact aba_without_tag. Qed.
Print Assumptions C15_lifo_needs_tag.

(* ------------------------------------------------------------------ stacks *)

(* For every provenance chosen by ythread_create (default / sized / no stack /
   user stack, on a stream or on an external thread), every size and every
   allocator answer: the descriptor lies in the memory obtained; the recorded
   and reported stack size is the requested one; the usable range is the
   user's range, or lies in the obtained memory below the descriptor and has
   the requested length; and ABTI_mem_free_thread releases exactly the pointer
   that was obtained, to where it came from. *)
Theorem C15_stack_size : forall sz_y default on_es a ptr,
  0 < sz_y -> 0 < default -> attr_ok a -> 0 < ptr ->
  let r := ythread_create_req sz_y default on_es a in
  let y := ythread_create_mem default on_es a ptr in
  let lo := fst (owned sz_y default r ptr) in
  let hi := snd (owned sz_y default r ptr) in
  lo <= ym_desc y /\ ym_desc y + sz_y <= hi /\
  ym_stacksize y = requested default a /\ snd (get_attr y) = requested default a /\
  match user_stack a with
  | Some (ulo, uhi) => usable y = (ulo, uhi) /\ fst (get_attr y) = ulo
  | None =>
      if requested default a =? 0 then ym_stacktop y = 0 /\ fst (get_attr y) = 0
      else lo <= fst (usable y) /\ snd (usable y) <= ym_desc y /\
           snd (usable y) - fst (usable y) = requested default a /\
           fst (get_attr y) = fst (usable y)
  end /\
  free_thread y = undo r ptr.
Proof.
  intros sz_y default on_es a ptr H1 H2 H3 H4.
  exact (stack_size_gen sz_y default H1 H2 free_size_fixed on_es a ptr (fun _ => eq_refl) H3 H4).
Qed.
Print Assumptions C15_stack_size.

(* Finding F1: the unpatched free path hands free() a pointer that malloc never
   returned whenever the size is not a multiple of 64 ... *)
Theorem C15_stack_size_refuted :
  exists sz_y default on_es a ptr,
    0 < sz_y /\ 0 < default /\ attr_ok a /\ 0 < ptr /\
    free_thread_buggy (ythread_create_mem default on_es a ptr)
    <> undo (ythread_create_req sz_y default on_es a) ptr.
Proof. exact stack_size_refuted. Qed.
Print Assumptions C15_stack_size_refuted.
(* ... and exactly then *)
Theorem C15_stack_free_unpatched_iff : forall stacksize ptr,
  0 <= stacksize ->
  (free_thread_buggy (alloc_malloc_desc_stack stacksize ptr) = RelFree ptr <-> stacksize mod 64 = 0).
Proof. exact free_buggy_malloc_iff. Qed.
Print Assumptions C15_stack_free_unpatched_iff.

Example C15_stack_size_example :
  free_thread (ythread_create_mem 16384 true (Attr 0 20008) 4096) = RelFree 4096 /\
  usable (ythread_create_mem 16384 true (Attr 0 20008) 4096) = (4120, 24128) /\
  free_thread_buggy (ythread_create_mem 16384 true (Attr 0 20008) 4096) = RelFree 4120.
Proof. vm_compute. repeat split; reflexivity. Qed.

(* Alignment: descriptors are cache-line aligned when the allocator's answer is
   (posix_memalign(64, .) / a pool block, see C15_pool_block_aligned); the first
   frame of a fresh ULT satisfies the SysV rule (rsp + 8) mod 16 = 0, lies at
   most 23 bytes (16 for an 8-byte aligned top, as ABT_thread_attr_set_stack
   demands) below the stack top and inside any stack of at least 24 bytes. *)
Theorem C15_alignment : forall default on_es a ptr top lo,
  (ptr mod 64 = 0 -> ym_desc (ythread_create_mem default on_es a ptr) mod 64 = 0) /\
  (entry_rsp top + 8) mod 16 = 0 /\ top - 24 < entry_rsp top <= top - 8 /\
  (top mod 8 = 0 -> top - 16 <= entry_rsp top) /\
  (24 <= top - lo -> lo <= entry_rsp top).
Proof.
  intros. split; [apply desc_aligned|]. pose proof (entry_frame_aligned top) as (A & B & C).
  repeat split; auto; try lia; apply entry_frame_inside.
Qed.
Print Assumptions C15_alignment.

Theorem C15_pool_block_aligned : forall sz_y default mem slot,
  mem mod 64 = 0 -> default mod 64 = 0 ->
  (mem + slot * stack_header_size sz_y default + default) mod 64 = 0 /\
  (mem + slot * desc_elem sz_y + 0) mod 64 = 0.
Proof.
  intros. split; apply pool_block_aligned; auto; try apply stack_header_size_mod.
  apply roundup_mod. unfold CL; lia.
Qed.
Print Assumptions C15_pool_block_aligned.

(* The byte-level page bookkeeping of take_bucket computes the slot numbers used
   by DS/MemPool.v; slots lie inside the page below the page descriptor and do
   not overlap; a stack slot holds stack + descriptor. *)
Theorem C15_carving_bytes : forall page_size sz_page hs c,
  0 < hs -> 0 <= page_size - sz_page -> 0 <= c <= page_slots page_size sz_page hs ->
  extra_size page_size sz_page hs c / hs = page_slots page_size sz_page hs - c /\
  (hs <= extra_size page_size sz_page hs c <-> 1 <= page_slots page_size sz_page hs - c) /\
  (forall k, 0 <= k < page_slots page_size sz_page hs ->
             0 <= k * hs /\ (k + 1) * hs <= page_size - sz_page).
Proof.
  intros. split; [apply carve_bytes_provided; auto|]. split; [apply carve_bytes_more; auto|].
  intros. apply slot_inside; auto.
Qed.
Print Assumptions C15_carving_bytes.

(* distinct blocks of one page occupy disjoint address ranges (distinct pages are
   distinct allocations), so C15_exclusive means: no two live work units share
   descriptor or stack bytes *)
Theorem C15_slots_disjoint : forall hs k1 k2,
  0 < hs -> k1 <> k2 -> (k1 + 1) * hs <= k2 * hs \/ (k2 + 1) * hs <= k1 * hs.
Proof. intros. nia. Qed.
Print Assumptions C15_slots_disjoint.

Theorem C15_stack_slot : forall sz_y default,
  0 <= sz_y -> 0 <= default ->
  default + sz_y <= stack_header_size sz_y default /\ stack_header_size sz_y default mod 64 = 0.
Proof. intros. split; [apply stack_header_size_ge; auto|apply stack_header_size_mod]. Qed.
Print Assumptions C15_stack_slot.
