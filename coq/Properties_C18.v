(* C18 -- A failed allocation makes the call fail cleanly and leaves the runtime
   intact.  Only statements here; proofs live in Fault/LadderProofs.v, the
   ladders of the Argobots routines in Fault/Routines.v. *)
From Coq Require Import List String ZArith Bool.
From ABT Require Import Fault.Ladder Fault.LadderProofs Fault.Routines.
Import ListNotations.
Local Open Scope string_scope.
Local Open Scope list_scope.

(* Generic: ANY ladder accepted by the checker (any length, nested calls to any
   depth), run from ANY state satisfying its precondition, under ANY fault
   oracle (any failure position, any number of failures, failures inside
   nested calls, failures that are tolerated by fall-backs before the fatal
   one):
   - the clean-up code never releases something it does not hold;
   - on error: everything acquired has been released (leaked = [], i.e. the
     ledger equals the initial ledger), no resource of a pre-existing object was
     released, every field of every pre-existing object has its previous value,
     the output handle is not set (NULL or untouched), the runtime caches (pool
     pages, unit-map elements) only grew, and some acquisition did fail;
   - on success the caches only grew. *)
Theorem C18_ladder_atomic : forall (p : spec) (orc : nat -> bool) (s : st),
  wf p = true -> Ksat (sp_K p) (objs s) -> hst s <> HSet ->
  match exec_r orc (sp_r p) s with
  | RErr s' leaked =>
      leaked = [] /\ pre s' = pre s /\ (forall f, get (objs s') f = get (objs s) f) /\
      hst s' <> HSet /\ (exists c, cache s' = c ++ cache s) /\ (exists i, orc i = true)
  | ROk fp s' => exists c, cache s' = c ++ cache s
  | RStuck => False
  end.
Proof. exact ladder_atomic. Qed.
Print Assumptions C18_ladder_atomic.

(* Without failure the routine succeeds, has the effect on the pre-existing
   objects that the checker computed (a1), and sets its handle if it has one. *)
Theorem C18_ladder_commits : forall (p : spec) (s : st) a1 pd1 cm1,
  chk_r (sp_K p) (sp_r p) [] false false = Some (a1, pd1, cm1) ->
  Ksat (sp_K p) (objs s) -> hst s <> HSet ->
  exists fp s', exec_r (fun _ => false) (sp_r p) s = ROk fp s' /\
                R a1 (objs s) (objs s') /\ (cm1 = true -> hst s' = HSet) /\
                (cm1 = false -> hst s' <> HSet) /\ (pd1 = false -> pre s' = pre s).
Proof. exact ladder_commits. Qed.
Print Assumptions C18_ladder_commits.

(* A retry after a failed run behaves like a first run: it succeeds and its
   effect on every pre-existing field and on the handle is that of a run from
   the original state. *)
Theorem C18_ladder_retry : forall (p : spec) (orc : nat -> bool) (s s' : st) lk,
  wf p = true -> Ksat (sp_K p) (objs s) -> hst s <> HSet ->
  exec_r orc (sp_r p) s = RErr s' lk ->
  exists fp1 s1 fp2 s2,
    exec_r (fun _ => false) (sp_r p) s = ROk fp1 s1 /\
    exec_r (fun _ => false) (sp_r p) s' = ROk fp2 s2 /\
    (forall f, get (objs s2) f = get (objs s1) f) /\
    (hst s2 = HSet <-> hst s1 = HSet) /\ pre s' = pre s.
Proof. exact ladder_retry. Qed.
Print Assumptions C18_ladder_retry.

(* Every routine ladder of Routines.v (ABT_init in both page modes, stream
   creation in 6 contexts, set_main_sched in 4, scheduler / pool / config
   creation, ULT creation with the four stack provenances, migration data, key
   tables, unit maps, tasklets, revive into a user pool, synchronisation
   objects, timers) is accepted by the checker. *)
Theorem C18_routines_wellformed : all_wf scenarios = true.
Proof. vm_compute. reflexivity. Qed.
Print Assumptions C18_routines_wellformed.

(* hence each of them is atomic under every fault oracle *)
Theorem C18_routines_atomic : forall c orc s,
  In c scenarios -> Ksat (sp_K (sc_spec c)) (objs s) -> hst s <> HSet ->
  match exec_r orc (sp_r (sc_spec c)) s with
  | RErr s' leaked =>
      leaked = [] /\ pre s' = pre s /\ (forall f, get (objs s') f = get (objs s) f) /\ hst s' <> HSet
  | ROk _ _ => True
  | RStuck => False
  end.
Proof.
  intros c orc s Hin HK Hh.
  assert (Hwf : wf (sc_spec c) = true).
  { pose proof C18_routines_wellformed as H. unfold all_wf in H.
    rewrite forallb_forall in H. apply H. exact Hin. }
  pose proof (ladder_atomic (sc_spec c) orc s Hwf HK Hh) as HA.
  destruct (exec_r orc (sp_r (sc_spec c)) s); [exact I|tauto|exact HA].
Qed.
Print Assumptions C18_routines_atomic.

(* ------------------------------------------------------------- findings *)
(* ABT_pool_add_sched on a user-defined pool with an automatic scheduler: when
   the unit cannot be created (2nd acquisition) the key-table destructor of
   the abandoned ULT frees the caller's scheduler.  Witness: fail the 2nd
   attempt; the pre-existing resource "sched" is gone. *)
Definition add_sched_user := nth 0 refuted_scenarios (S0 "" (R0 []) false).
Theorem C18_pool_add_sched_user_refuted :
  exists orc s',
    let s := init_st (sp_K (sc_spec add_sched_user)) (sc_pre add_sched_user) false in
    Ksat (sp_K (sc_spec add_sched_user)) (objs s) /\
    exec_r orc (sp_r (sc_spec add_sched_user)) s = RErr s' [] /\
    pre s = ["sched"] /\ pre s' = [].
Proof.
  exists (oracle_of [2]). eexists. cbn zeta. split.
  - intros f v H. cbn in H. destruct (String.eqb f "sched.used") eqn:E; [|discriminate].
    injection H as <-. cbn. rewrite E. reflexivity.
  - vm_compute. repeat split.
Qed.
Print Assumptions C18_pool_add_sched_user_refuted.

(* ... with fixes/pool-add-sched-keeps-sched.patch and
   fixes/pool-push-threads-atomic.patch the two ladders are accepted *)
Theorem C18_fixed_ladders_wellformed : all_wf fixed_scenarios = true.
Proof. vm_compute. reflexivity. Qed.
Print Assumptions C18_fixed_ladders_wellformed.

(* ABT_thread_create_many: the 2nd ULT cannot be created -> the 1st stays
   (leaked = its stack) and a handle has already been written. *)
Definition create_many := nth 1 refuted_scenarios (S0 "" (R0 []) false).
Theorem C18_thread_create_many_refuted :
  exists orc s' lk,
    exec_r orc (sp_r (sc_spec create_many)) (init_st [] [] false) = RErr s' lk /\
    lk <> [] /\ hst s' = HSet.
Proof.
  exists (oracle_of [2]). eexists. eexists. split; [vm_compute; reflexivity|].
  split; [discriminate|reflexivity].
Qed.
Print Assumptions C18_thread_create_many_refuted.

(* ABT_pool_push_threads to a user-defined pool: the 2nd unit cannot be
   created -> the 1st work unit stays re-associated with the new pool. *)
Definition push_threads := nth 2 refuted_scenarios (S0 "" (R0 []) false).
Theorem C18_pool_push_threads_refuted :
  exists orc s' lk,
    exec_r orc (sp_r (sc_spec push_threads)) (init_st [] [] false) = RErr s' lk /\
    get (objs s') "thr0.pool" <> get (objs (init_st [] [] false)) "thr0.pool".
Proof.
  exists (oracle_of [3]). eexists. eexists. split; [vm_compute; reflexivity|].
  vm_compute. discriminate.
Qed.
Print Assumptions C18_pool_push_threads_refuted.

(* ------------------------------------------------------------ non-vacuity *)
(* ABT_xstream_create(ABT_SCHED_NULL): 13 acquisition attempts; failing the
   11th (the mutex of the stream context, after 10 successful acquisitions in
   three nested routines) unwinds everything. *)
Example C18_example_xstream_create :
  let c := nth 2 scenarios (S0 "" (R0 []) false) in
  sc_name c = "xstream_create" /\ n_ops c = 13 /\ wf (sc_spec c) = true /\
  (exists s', exec_r (oracle_of [11]) (sp_r (sc_spec c)) (init_st [] [] false) = RErr s' [] /\
              nid s' = 10 /\ hst s' = HNull /\ get (objs s') "global.num_xstreams" = 0%Z) /\
  (exists fp s', exec_r (oracle_of []) (sp_r (sc_spec c)) (init_st [] [] false) = ROk fp s' /\
                 List.length fp = 13 /\ hst s' = HSet /\ get (objs s') "global.num_xstreams" = 1%Z).
Proof.
  vm_compute. repeat split; try reflexivity; eexists; repeat split; try eexists; repeat split.
Qed.

(* the checker is not trivially true: dropping one release, or releasing at
   the wrong stage, is rejected (the DESIGN mutants, on the model) *)
Example C18_example_checker_rejects :
  wf (mkSpec [] (Routine [mal "a" "=64" ret; SStage 1; mal "b" "=64" gf; SStage 2; mal "c" "=64" gf]
                         [(3, [UFree "b"]); (1, [UFree "a"])])) = false   (* `>= 2` written `> 2` *)
  /\ wf (mkSpec [] (Routine [mal "a" "=64" ret; SStage 1; mal "b" "=64" gf; SStage 2; mal "c" "=64" gf]
                            [(2, [UFree "b"]); (1, [UFree "a"])])) = true
  /\ wf (mkSpec [] (R0 [mal "a" "=64" ret; mal "b" "=64" ret])) = false   (* missing free *)
  /\ wf (mkSpec [] (R0 [mal "a" "=64" ret; mal "b" "=64" (cl [UFree "a"; UFree "a"])])) = false (* double free *)
  /\ wf (mkSpec [] (R0 [mal "a" "=64" ret; SCommit; mal "b" "=64" (cl [UFree "a"])])) = false  (* handle set early *)
  /\ wf (mkSpec [] (R0 [SAdd "n" 1; mal "a" "=64" ret])) = false            (* count not restored *)
  /\ wf (mkSpec [] (R0 [SAdd "n" 1; mal "a" "=64" (cl [UAdd "n" (-1)])])) = true.
Proof. vm_compute. repeat split. Qed.
