(* C02 — A ULT never runs on two streams at once; its context survives every
   switch.  Only statements here; proofs live in Asm/FctxProofs.v (half a) and
   Conc/ (half b). *)

(* ================================================================== *)
(* (a) MACHINE CONTEXT — x86-64 fcontext assembly (translator based)   *)
(* ================================================================== *)
(* Asm/FctxGen.v is regenerated from /repo's current
   src/arch/fcontext/fcontext_x86_64_sysv_elf_gas.S on every run; the theorems
   below are about those generated instruction lists under the semantics of
   Asm/X86.v.  Vocabulary (Asm/FctxSpec.v): ctx_of s0 = the caller's
   callee-saved registers rbx rbp r12-r15, MXCSR, x87 CW, RSP-after-return and
   return address at the first instruction of a primitive; saved_ctx m ctx v =
   memory m holds context v behind the fcontext_t cell ctx (layout of the .S
   header comment); abi_ret hi = what a called C function may do (SysV ABI);
   exits = complete execution of a routine with every callq answered by such a
   callee; lv = first hand-over of control (jump or callee entry). *)
From Coq Require Import ZArith List Lia.
From ABT Require Import Asm.X86 Asm.FctxSpec Asm.FctxGen Asm.FctxProofs Asm.FctxExamples Asm.FctxProgress.
Import ListNotations.
Local Open Scope Z_scope.

Module C02a.

(* --- C02_roundtrip_<save>_<restore> -----------------------------------
   Roundtrip S rold preS T rnew preT  (FctxSpec):
     for every state s0 of ULT A at the first instruction of save primitive S
     with preS (64-bit register values, 56 bytes of stack, cell disjoint from
     the frame, the next context's stack disjoint from A's frame/cell),
     if control leaves A in s1 (jump into the next context / entry of the
     callback), and s2 is ANY later state whose memory agrees with s1 on A's
     64-byte frame and 8-byte cell (frame-preserving execution), and some
     context executes restore primitive T to completion from s2 with its
     p_new_ctx register pointing at A's cell (preT: the restorer's own frame
     and cell do not overlap A's; for _with_call restorers there are 8 bytes
     below A's frame and the frame is below the stack top hi),
     then control arrives at A's return address with rbx, rbp, r12-r15, MXCSR,
     x87 CW and RSP exactly those of s0 (RSP = s0's RSP + 8: the primitive
     "returned"). *)
Theorem C02_roundtrip_switch_switch :
  Roundtrip switch_fcontext RSI (save_pre RSI) switch_fcontext RDI restore_pre_switch.
Proof. exact (roundtrip_generic _ _ _ _ _ _ save_switch restore_switch). Qed.
Print Assumptions C02_roundtrip_switch_switch.
Theorem C02_roundtrip_switch_jump :
  Roundtrip switch_fcontext RSI (save_pre RSI) jump_fcontext RDI restore_pre_jump.
Proof. exact (roundtrip_generic _ _ _ _ _ _ save_switch restore_jump). Qed.
Print Assumptions C02_roundtrip_switch_jump.
Theorem C02_roundtrip_switch_switch_with_call :
  Roundtrip switch_fcontext RSI (save_pre RSI) switch_with_call_fcontext RDX restore_pre_swc.
Proof. exact (roundtrip_generic _ _ _ _ _ _ save_switch restore_switch_with_call). Qed.
Print Assumptions C02_roundtrip_switch_switch_with_call.
Theorem C02_roundtrip_switch_jump_with_call :
  Roundtrip switch_fcontext RSI (save_pre RSI) jump_with_call_fcontext RDX restore_pre_jwc.
Proof. exact (roundtrip_generic _ _ _ _ _ _ save_switch restore_jump_with_call). Qed.
Print Assumptions C02_roundtrip_switch_jump_with_call.

Theorem C02_roundtrip_switch_with_call_switch :
  Roundtrip switch_with_call_fcontext RCX save_pre_swc switch_fcontext RDI restore_pre_switch.
Proof. exact (roundtrip_generic _ _ _ _ _ _ save_switch_with_call restore_switch). Qed.
Print Assumptions C02_roundtrip_switch_with_call_switch.
Theorem C02_roundtrip_switch_with_call_jump :
  Roundtrip switch_with_call_fcontext RCX save_pre_swc jump_fcontext RDI restore_pre_jump.
Proof. exact (roundtrip_generic _ _ _ _ _ _ save_switch_with_call restore_jump). Qed.
Print Assumptions C02_roundtrip_switch_with_call_jump.
Theorem C02_roundtrip_switch_with_call_switch_with_call :
  Roundtrip switch_with_call_fcontext RCX save_pre_swc switch_with_call_fcontext RDX restore_pre_swc.
Proof. exact (roundtrip_generic _ _ _ _ _ _ save_switch_with_call restore_switch_with_call). Qed.
Print Assumptions C02_roundtrip_switch_with_call_switch_with_call.
Theorem C02_roundtrip_switch_with_call_jump_with_call :
  Roundtrip switch_with_call_fcontext RCX save_pre_swc jump_with_call_fcontext RDX restore_pre_jwc.
Proof. exact (roundtrip_generic _ _ _ _ _ _ save_switch_with_call restore_jump_with_call). Qed.
Print Assumptions C02_roundtrip_switch_with_call_jump_with_call.

Theorem C02_roundtrip_init_and_switch_switch :
  Roundtrip init_and_switch_fcontext RCX (save_pre RCX) switch_fcontext RDI restore_pre_switch.
Proof. exact (roundtrip_generic _ _ _ _ _ _ save_init_and_switch restore_switch). Qed.
Print Assumptions C02_roundtrip_init_and_switch_switch.
Theorem C02_roundtrip_init_and_switch_jump :
  Roundtrip init_and_switch_fcontext RCX (save_pre RCX) jump_fcontext RDI restore_pre_jump.
Proof. exact (roundtrip_generic _ _ _ _ _ _ save_init_and_switch restore_jump). Qed.
Print Assumptions C02_roundtrip_init_and_switch_jump.
Theorem C02_roundtrip_init_and_switch_switch_with_call :
  Roundtrip init_and_switch_fcontext RCX (save_pre RCX) switch_with_call_fcontext RDX restore_pre_swc.
Proof. exact (roundtrip_generic _ _ _ _ _ _ save_init_and_switch restore_switch_with_call). Qed.
Print Assumptions C02_roundtrip_init_and_switch_switch_with_call.
Theorem C02_roundtrip_init_and_switch_jump_with_call :
  Roundtrip init_and_switch_fcontext RCX (save_pre RCX) jump_with_call_fcontext RDX restore_pre_jwc.
Proof. exact (roundtrip_generic _ _ _ _ _ _ save_init_and_switch restore_jump_with_call). Qed.
Print Assumptions C02_roundtrip_init_and_switch_jump_with_call.

Theorem C02_roundtrip_init_and_switch_with_call_switch :
  Roundtrip init_and_switch_with_call_fcontext R9 save_pre_iswc switch_fcontext RDI restore_pre_switch.
Proof. exact (roundtrip_generic _ _ _ _ _ _ save_init_and_switch_with_call restore_switch). Qed.
Print Assumptions C02_roundtrip_init_and_switch_with_call_switch.
Theorem C02_roundtrip_init_and_switch_with_call_jump :
  Roundtrip init_and_switch_with_call_fcontext R9 save_pre_iswc jump_fcontext RDI restore_pre_jump.
Proof. exact (roundtrip_generic _ _ _ _ _ _ save_init_and_switch_with_call restore_jump). Qed.
Print Assumptions C02_roundtrip_init_and_switch_with_call_jump.
Theorem C02_roundtrip_init_and_switch_with_call_switch_with_call :
  Roundtrip init_and_switch_with_call_fcontext R9 save_pre_iswc switch_with_call_fcontext RDX restore_pre_swc.
Proof. exact (roundtrip_generic _ _ _ _ _ _ save_init_and_switch_with_call restore_switch_with_call). Qed.
Print Assumptions C02_roundtrip_init_and_switch_with_call_switch_with_call.
Theorem C02_roundtrip_init_and_switch_with_call_jump_with_call :
  Roundtrip init_and_switch_with_call_fcontext R9 save_pre_iswc jump_with_call_fcontext RDX restore_pre_jwc.
Proof. exact (roundtrip_generic _ _ _ _ _ _ save_init_and_switch_with_call restore_jump_with_call). Qed.
Print Assumptions C02_roundtrip_init_and_switch_with_call_jump_with_call.

(* --- C02_save_before_callback -----------------------------------------
   The _with_call save primitives can hand control over only by entering the
   callback f_cb (never by a jump), and at that instant — return address
   pushed on the NEXT context's stack, f_cb's first instruction about to run,
   so before anything f_cb does, e.g. pushing A back to a pool or storing
   BLOCKED — A's complete context (all six callee-saved registers, MXCSR, CW,
   return address) is in memory behind *p_old_ctx, f_cb is the function passed
   in RSI and receives cb_arg (RDI) unchanged. *)
Theorem C02_save_before_callback :
  (forall ra s0, save_pre_swc s0 ->
     lv ra switch_with_call_fcontext s0 (fun _ _ => False)
        (fun f sc _ => f = rsi (regs s0) /\ rdi (regs sc) = rdi (regs s0) /\
                       saved_ctx (mem sc) (rcx (regs s0)) (ctx_of s0))) /\
  (forall ra s0, save_pre_iswc s0 ->
     lv ra init_and_switch_with_call_fcontext s0 (fun _ _ => False)
        (fun f sc _ => f = rsi (regs s0) /\ rdi (regs sc) = rdi (regs s0) /\
                       saved_ctx (mem sc) (r9 (regs s0)) (ctx_of s0))).
Proof. split; intros; [apply save_swc_core|apply save_iswc_core]; assumption. Qed.
Print Assumptions C02_save_before_callback.

(* The same, as the literal instruction order of the two routines: the list is
   pre ++ [movq %rsp,(p_old_ctx)] ++ post with the pushes of rbx, rbp, r12-r15,
   stmxcsr and fnstcw all in pre (and no control transfer there), and post
   reaching its callq without writing memory again (FctxProofs.order_ok). *)
Theorem C02_save_before_callback_order :
  order_ok switch_with_call_fcontext RCX = true /\ order_ok init_and_switch_with_call_fcontext R9 = true.
Proof. split; [exact order_swc|exact order_iswc]. Qed.
Print Assumptions C02_save_before_callback_order.

(* --- C02_entry_alignment -----------------------------------------------
   SysV AMD64 ABI 3.2.2: at a function's entry point RSP + 8 is a multiple of
   16.  abi_entry_rsp top s :=  RSP mod 16 = 8  /\  top - 24 < RSP <= top - 8,
   so the (never used) return-address slot [RSP, RSP+8) and everything below
   lie inside a stack whose top is p_stacktop, for EVERY p_stacktop >= 16
   (aligned or not; the stack base is C15's business).
   Fresh ULT: all four init_* routines enter f_thread (the function passed)
   with p_new_ctx in RDI and such an RSP; the two _with_call ones first enter
   f_cb (cb_arg in RDI) with such an RSP and, for every ABI-conforming
   behaviour of f_cb, then f_thread likewise. *)
Theorem C02_entry_alignment :
  (forall ra s0, (forall r, wf64 (getr (regs s0) r)) -> 16 <= rdx (regs s0) ->
     lv ra init_and_jump_fcontext s0
        (fun t s1 => t = rsi (regs s0) /\ rdi (regs s1) = rdi (regs s0) /\ abi_entry_rsp (rdx (regs s0)) s1)
        (fun _ _ _ => False)) /\
  (forall ra s0, (forall r, wf64 (getr (regs s0) r)) -> 56 <= rsp (regs s0) -> 16 <= rdx (regs s0) ->
     lv ra init_and_switch_fcontext s0
        (fun t s1 => t = rsi (regs s0) /\ rdi (regs s1) = rdi (regs s0) /\ abi_entry_rsp (rdx (regs s0)) s1)
        (fun _ _ _ => False)) /\
  (forall hi ra s0, (forall r, wf64 (getr (regs s0) r)) -> 16 <= r8 (regs s0) ->
     lv ra init_and_jump_with_call_fcontext s0 (fun _ _ => False)
        (fun f sc k => f = rsi (regs s0) /\ rdi (regs sc) = rdi (regs s0) /\ abi_entry_rsp (r8 (regs s0)) sc /\
           then_thread hi ra sc k (fun t s1 =>
             t = rcx (regs s0) /\ rdi (regs s1) = rdx (regs s0) /\ abi_entry_rsp (r8 (regs s0)) s1))) /\
  (forall hi ra s0, (forall r, wf64 (getr (regs s0) r)) -> 56 <= rsp (regs s0) -> 16 <= r8 (regs s0) ->
     lv ra init_and_switch_with_call_fcontext s0 (fun _ _ => False)
        (fun f sc k => f = rsi (regs s0) /\ rdi (regs sc) = rdi (regs s0) /\ abi_entry_rsp (r8 (regs s0)) sc /\
           then_thread hi ra sc k (fun t s1 =>
             t = rcx (regs s0) /\ rdi (regs s1) = rdx (regs s0) /\ abi_entry_rsp (r8 (regs s0)) s1))).
Proof.
  split; [|split; [|split]]; intros.
  - apply entry_init_and_jump; assumption.
  - apply entry_init_and_switch; assumption.
  - apply entry_init_and_jump_with_call; assumption.
  - apply entry_init_and_switch_with_call; assumption.
Qed.
Print Assumptions C02_entry_alignment.

(* Started target: the callback of switch_with_call / jump_with_call is entered
   on the target's stack 8 bytes below the target's saved frame (RSP = the
   target's RSP-after-return - 72); if the target was suspended in an
   ABI-conforming call of its save primitive (RSP-after-return multiple of 16)
   the callback's entry is ABI-aligned too. *)
Theorem C02_entry_alignment_callback_on_started :
  (forall ra s2 v, wf64 (rdx (regs s2)) -> saved_ctx (mem s2) (rdx (regs s2)) v -> 8 <= c_rsp v - 64 ->
     lv ra jump_with_call_fcontext s2 (fun _ _ => False)
        (fun f sc _ => f = rsi (regs s2) /\ rdi (regs sc) = rdi (regs s2) /\ rsp (regs sc) = c_rsp v - 72 /\
                       (c_rsp v mod 16 = 0 -> rsp (regs sc) mod 16 = 8))) /\
  (forall ra s2 v, wf64 (rdx (regs s2)) -> saved_ctx (mem s2) (rdx (regs s2)) v -> 8 <= c_rsp v - 64 ->
     restorer_saves RCX v (rdx (regs s2)) s2 ->
     lv ra switch_with_call_fcontext s2 (fun _ _ => False)
        (fun f sc _ => f = rsi (regs s2) /\ rdi (regs sc) = rdi (regs s2) /\ rsp (regs sc) = c_rsp v - 72 /\
                       (c_rsp v mod 16 = 0 -> rsp (regs sc) mod 16 = 8))).
Proof. split; intros; [apply cb_entry_jwc|apply cb_entry_swc]; assumption. Qed.
Print Assumptions C02_entry_alignment_callback_on_started.

(* --- C02_progress ---------------------------------------------------------
   The theorems above are about executions that do not get STUCK (memory access
   at an address that is not a multiple of 4: outside the cell model).  With
   8-byte aligned stack pointers and context pointers (al8; ctx_ptr_ok m c: the
   cell c is aligned and holds an aligned frame pointer with the frame below
   2^64) no complete execution of any of the nine routines — every callq
   answered by any ABI-conforming callee — gets stuck or runs off its end. *)
Theorem C02_progress :
  (forall hi ra s0, let f := regs s0 in
     save_pre RSI s0 -> al8 (rsp f) -> al8 (rsi f) -> ctx_ptr_ok (mem s0) (rdi f) ->
     disj (rdi f) 8 (rsp f - 56) 64 -> disj (rdi f) 8 (rsi f) 8 ->
     ~ stuck_exec (abi_ret hi) ra switch_fcontext s0) /\
  (forall hi ra s0, let f := regs s0 in
     wf64 (rdi f) -> ctx_ptr_ok (mem s0) (rdi f) ->
     ~ stuck_exec (abi_ret hi) ra jump_fcontext s0) /\
  (forall hi ra s0, let f := regs s0 in
     save_pre RCX s0 -> al8 (rsp f) -> al8 (rcx f) ->
     ~ stuck_exec (abi_ret hi) ra init_and_switch_fcontext s0) /\
  (forall hi ra s0, ~ stuck_exec (abi_ret hi) ra init_and_jump_fcontext s0) /\
  (forall hi ra s0, let f := regs s0 in
     save_pre_swc s0 -> al8 (rsp f) -> al8 (rcx f) -> ctx_ptr_ok (mem s0) (rdx f) -> 8 <= ld64 (mem s0) (rdx f) ->
     ~ stuck_exec (abi_ret hi) ra switch_with_call_fcontext s0) /\
  (forall hi ra s0, let f := regs s0 in
     wf64 (rdx f) -> ctx_ptr_ok (mem s0) (rdx f) -> 8 <= ld64 (mem s0) (rdx f) ->
     ~ stuck_exec (abi_ret hi) ra jump_with_call_fcontext s0) /\
  (forall hi ra s0, let f := regs s0 in
     save_pre_iswc s0 -> al8 (rsp f) -> al8 (r9 f) ->
     ~ stuck_exec (abi_ret hi) ra init_and_switch_with_call_fcontext s0) /\
  (forall hi ra s0, let f := regs s0 in
     wf64 (r8 f) -> 16 <= r8 f ->
     ~ stuck_exec (abi_ret hi) ra init_and_jump_with_call_fcontext s0) /\
  (forall ra s0, let f := regs s0 in
     (forall r, wf64 (getr f r)) -> al8 (rsp f) -> 8 <= rsp f -> rsp f + 8 < B64 ->
     ctx_ptr_ok (mem s0) (rdx f) -> 8 <= ld64 (mem s0) (rdx f) -> disj (rdx f) 8 (rsp f - 8) 8 ->
     ~ stuck_exec (peek_callee (rsp f - 8)) ra peek_fcontext s0).
Proof.
  repeat split.
  - by_np progress_switch.
  - by_np progress_jump.
  - by_np progress_init_and_switch.
  - by_np progress_init_and_jump.
  - by_np progress_switch_with_call.
  - by_np progress_jump_with_call.
  - by_np progress_init_and_switch_with_call.
  - by_np progress_init_and_jump_with_call.
  - by_np progress_peek.
Qed.
Print Assumptions C02_progress.

(* --- the ninth routine --------------------------------------------------
   peek_fcontext(arg, f_peek, p_target_ctx) runs f_peek on the target's stack
   and comes back: for every callee that preserves the callee-saved registers
   and peek's own two stack words (they are on the PEEKER's stack, not on the
   one f_peek runs on), peek returns to its caller's return address with
   RSP + 8 and rbx, rbp, r12-r15 unchanged. *)
Theorem C02_peek_returns : forall ra s0 t s1,
  let f := regs s0 in
  (forall r, wf64 (getr f r)) -> 8 <= rsp f -> rsp f + 8 < B64 ->
  disj (rdx f) 8 (rsp f - 8) 8 ->
  disj (w64 (ld64 (mem s0) (rdx f) - 8)) 8 (rsp f - 8) 16 ->
  exits (peek_callee (rsp f - 8)) ra peek_fcontext s0 t s1 ->
  t = ld64 (mem s0) (rsp f) /\ rsp (regs s1) = rsp f + 8 /\
  rbx (regs s1) = rbx f /\ rbp (regs s1) = rbp f /\ r12 (regs s1) = r12 f /\
  r13 (regs s1) = r13 f /\ r14 (regs s1) = r14 f /\ r15 (regs s1) = r15 f.
Proof. exact peek_returns. Qed.
Print Assumptions C02_peek_returns.

(* --- non-vacuity ----------------------------------------------------------
   Asm/FctxExamples.v: a concrete world (ULT A with canary values in rbx, rbp,
   r12-r15, MXCSR = 0x5f80, x87 CW = 0x27f on a stack at 0x7008, cell 0x9000; a
   suspended context B; a fresh stack with the unaligned top 0x3007; a restoring
   party C; callbacks that return at once) in which every hypothesis of the
   round-trip theorems holds (ex_ok) and the computed final state carries A's
   values.  Four pairs cover each of the 4 save and 4 restore primitives once;
   C02_entry_example: with the unaligned top 0x3007 all four init_* routines
   reach f_thread (and f_cb) with RSP = 0x2ff8; C02_peek_example: peek on B. *)
Example C02_roundtrip_example_switch_switch :
  ex_ok switch_fcontext RSI (save_pre RSI) ex_s0_switch switch_fcontext RDI restore_pre_switch ex_s2_switch.
Proof. exact ex_switch_switch. Qed.
Example C02_roundtrip_example_switch_with_call_jump_with_call :
  ex_ok switch_with_call_fcontext RCX save_pre_swc ex_s0_swc jump_with_call_fcontext RDX restore_pre_jwc ex_s2_jwc.
Proof. exact ex_switch_with_call_jump_with_call. Qed.
Example C02_roundtrip_example_init_and_switch_jump :
  ex_ok init_and_switch_fcontext RCX (save_pre RCX) ex_s0_iswitch jump_fcontext RDI restore_pre_jump ex_s2_jump.
Proof. exact ex_init_and_switch_jump. Qed.
Example C02_roundtrip_example_init_and_switch_with_call_switch_with_call :
  ex_ok init_and_switch_with_call_fcontext R9 save_pre_iswc ex_s0_iswc switch_with_call_fcontext RDX restore_pre_swc ex_s2_swc.
Proof. exact ex_init_and_switch_with_call_switch_with_call. Qed.
Example C02_entry_example :
  entry_at (run_all 3 ex_ra init_and_jump_fcontext ex_s0_ijump) /\
  entry_at (run_all 3 ex_ra init_and_switch_fcontext ex_s0_iswitch) /\
  cb_at (run ex_ra init_and_jump_with_call_fcontext ex_s0_ijwc) /\
  entry_at (run_all 3 ex_ra init_and_jump_with_call_fcontext ex_s0_ijwc) /\
  cb_at (run ex_ra init_and_switch_with_call_fcontext ex_s0_iswc) /\
  entry_at (run_all 3 ex_ra init_and_switch_with_call_fcontext ex_s0_iswc).
Proof. exact ex_entry. Qed.
Example C02_peek_example :
  let f := regs ex_s0_peek in
  (forall r, wf64 (getr f r)) /\ 8 <= rsp f /\ rsp f + 8 < B64 /\
  disj (rdx f) 8 (rsp f - 8) 8 /\ disj (w64 (ld64 (mem ex_s0_peek) (rdx f) - 8)) 8 (rsp f - 8) 16 /\
  exists t s1, exits (peek_callee (rsp f - 8)) ex_ra peek_fcontext ex_s0_peek t s1 /\
               t = 4194595 /\ rsp (regs s1) = ex_spA + 8 /\ r12 (regs s1) = 1013.
Proof. exact ex_peek. Qed.

Example C02_progress_example :
  (let f := regs ex_s0_switch in
   save_pre RSI ex_s0_switch /\ al8 (rsp f) /\ al8 (rsi f) /\ ctx_ptr_ok (mem ex_s0_switch) (rdi f) /\
   disj (rdi f) 8 (rsp f - 56) 64 /\ disj (rdi f) 8 (rsi f) 8) /\
  (let f := regs ex_s0_swc in
   save_pre_swc ex_s0_swc /\ al8 (rsp f) /\ al8 (rcx f) /\ ctx_ptr_ok (mem ex_s0_swc) (rdx f) /\
   8 <= ld64 (mem ex_s0_swc) (rdx f)) /\
  (let f := regs ex_s0_iswc in save_pre_iswc ex_s0_iswc /\ al8 (rsp f) /\ al8 (r9 f)).
Proof. exact ex_progress_pre. Qed.

End C02a.
