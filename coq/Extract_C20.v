(* Extraction of the executable C20 models (no proofs are imported here, so the
   correspondence check still runs when a proof is broken). *)
From Coq Require Import List ZArith Bool.
From Coq Require Import ExtrOcamlBasic.
From ABT Require Import Cfg.Hashtable Cfg.Atoi Cfg.Affinity Cfg.EnvClamp.
Extraction Language OCaml.
Extraction "../ocaml/extracted/c20.ml"
  Z.add Z.mul Z.opp Z.sub Z.div Z.modulo Z.eqb Z.ltb Z.leb Z.of_nat Z.to_nat Z.compare
  ccreate crun cstep ht_dump ht_heap_elems
  atoi_impl atoi_int atoi_ui32 atoi_ui64
  affinity_list_create affinity_list_create_buggy
  c_env_init sane.
