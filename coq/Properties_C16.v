(* C16 — Work-unit-local storage: per-unit key->value map, exactly-once destructors.
   Only statements here; the models are DS/Ktable.v (sequential, with the block ledger) and
   Conc/KtableConc.v (interleavings of lazy creation / append / lock-free readers); the proofs
   live in DS/KtableProofs.v and Conc/KtableConcProofs.v. *)
From Coq Require Import List ZArith Bool Lia.
From ABT Require Import Common.ListAux DS.Ktable DS.KtableProofs DS.KtablePlace Conc.KtableConc Conc.KtableConcProofs.
Import ListNotations.
Local Open Scope Z_scope.

(* ------------------------------------------------------------------ table size and slot index *)
(* ABT_KEY_TABLE_SIZE, whatever its value (unset, unparsable, 0, not a power of two), yields a
   power of two; for 1 <= v <= 2^31 it is the least one >= v. *)
Theorem C16_table_size_pow2 : forall env : option Z,
  exists k, 0 <= k /\ env_key_table_size env = 2 ^ k.
Proof. exact env_size_pow2. Qed.
Print Assumptions C16_table_size_pow2.

Theorem C16_table_size_roundup : forall v, 1 <= v <= 2 ^ 31 ->
  exists k, 0 <= k <= 31 /\ env_key_table_size (Some v) = 2 ^ k /\ v <= 2 ^ k /\
            (forall j, 0 <= j < k -> 2 ^ j < v).
Proof.
  intros v Hv. unfold env_key_table_size, load_env_uint32.
  replace (Z.max 1 (Z.min U32MAX v)) with v by (unfold U32MAX; lia).
  apply roundup_pow2_least; auto.
Qed.
Print Assumptions C16_table_size_roundup.

(* id & (size - 1) is id mod size, a valid slot, for every power-of-two size (any id, collisions included) *)
Theorem C16_index_in_bounds : forall id size, (exists k, 0 <= k /\ size = 2 ^ k) ->
  Z.of_nat (get_idx id size) = id mod size /\ (get_idx id size < Z.to_nat size)%nat.
Proof. intros id size H. split; [apply get_idx_mod|apply get_idx_range]; exact H. Qed.
Print Assumptions C16_index_in_bounds.

(* ------------------------------------------------------------------ the map *)
(* Any sequence of key create/free, unit create/revive/free and set/get through any of the entry
   points, by the owner, another unit or an external thread, on any number of units and keys, for
   any ABT_KEY_TABLE_SIZE and any block-size configuration, returns operation by operation what
   the specification returns: one independent map "key id -> (destructor, value)" per live unit
   ([sstep]: a get returns the last value set for that key on that unit, 0 = NULL if none; a set
   touches exactly one (unit, key) point).  Allocation failures are excluded here (next theorem). *)
Theorem C16_map : forall cfg env ops, Forall nofail ops ->
  map erase (snd (wrun cfg (world0 env) ops)) = snd (srun sworld0 ops) /\
  Rel (fst (wrun cfg (world0 env) ops)) (fst (srun sworld0 ops)).
Proof.
  intros cfg env ops NF.
  destruct (wrun_refines cfg ops (world0 env) sworld0 (winv0 env) (rel0 env) NF) as [R E]. auto.
Qed.
Print Assumptions C16_map.

Example C16_map_example :
  (* table of size 1: every key collides; two units; a set by an external thread *)
  snd (wrun cfg64 (world0 (Some 1))
         [OUnitCreate 0 false false; OUnitCreate 1 false false; OKeyCreate 1; OKeyCreate 2;
          OSet false 0 0 11 false false; OSet true 1 1 22 false false; OSet false 0 1 33 false false;
          OGet 0 0; OGet 0 1; OGet 1 0; OGet 1 1; OSet false 0 0 44 false false; OGet 0 0; OFree 0; OFree 1])
  = [RRc 0; RRc 0; RKey 2; RKey 3; RRc 0; RRc 0; RRc 0; RVal 11; RVal 33; RVal 0; RVal 22; RRc 0; RVal 44;
     RFreed [(1, 44); (2, 33)]; RFreed [(2, 22)]].
Proof. vm_compute. reflexivity. Qed.

(* A set that fails (table or element allocation) reports ABT_ERR_MEM and changes nothing that any
   get on any unit can see; with no injected failure every set succeeds (part of C16_map). *)
Theorem C16_set_fail_clean : forall cfg env ops ext u h v fc fe w' rc,
  let w := fst (wrun cfg (world0 env) ops) in
  wstep cfg w (OSet ext u h v fc fe) = (w', RRc rc) -> rc <> 0 ->
  forall u' id, wlook w' u' id = wlook w u' id.
Proof.
  intros cfg env ops ext u h v fc fe w' rc w H Hrc.
  eapply wset_fail_clean; eauto. apply wrun_inv. apply winv0.
Qed.
Print Assumptions C16_set_fail_clean.

(* Key ids: as long as the 32-bit counter has not wrapped, the h-th key created has id 2 + h, so
   distinct handles have distinct ids and none collides with the internal ids 0 and 1: the per-id
   map above is a per-key map. *)
Theorem C16_key_ids_distinct : forall cfg env ops,
  Forall nojump ops ->
  let w := fst (wrun cfg (world0 env) ops) in
  forall h k b, nth_error (w_keys w) h = Some (k, b) ->
  KEY_ID_END + Z.of_nat h < W2 -> k_id k = KEY_ID_END + Z.of_nat h.
Proof.
  intros cfg env ops NJ w. apply (ki_ids _ (wrun_kinv cfg ops (world0 env) NJ (kinv0 env))).
Qed.
Print Assumptions C16_key_ids_distinct.

(* ------------------------------------------------------------------ destructors *)
(* When a unit is freed after any history, the destructor calls are exactly: for each key id that
   was ever set on the unit (each once: [ids] has no duplicates), the recorded destructor applied
   to the current value, if both are non-NULL.  Nothing else is called. *)
Theorem C16_dtor_once : forall cfg env ops u w' calls,
  let w := fst (wrun cfg (world0 env) ops) in
  wstep cfg w (OFree u) = (w', RFreed calls) ->
  exists ids, NoDup ids /\ (forall id, In id ids <-> wlook w u id <> None) /\
              calls = flat_map (fun id => dtor_of (wlook w u id)) ids /\
              w_dlog w' = w_dlog w ++ calls /\ (forall id, wlook w' u id = None).
Proof.
  intros cfg env ops u w' calls w H. eapply wfree_dtors; eauto. apply wrun_inv. apply winv0.
Qed.
Print Assumptions C16_dtor_once.

(* ------------------------------------------------------------------ memory blocks *)
(* After any history: no release was ever rejected (double release, release of a block that is
   not live, wrong releaser for the block's origin); no block id occurs twice in the release log;
   every released block was released by the releaser matching how it was obtained; every block
   ever obtained is either released or owned by exactly one live unit's table; and once every
   unit has been freed nothing is live. *)
Theorem C16_blocks_once : forall cfg env ops,
  let w := fst (wrun cfg (world0 env) ops) in
  let L := w_led w in
  l_bad L = [] /\ NoDup (map fst (l_rel L)) /\
  (forall b r, In (b, r) (l_rel L) -> exists k, In (b, k) (l_all L) /\ kind_ok k r = true) /\
  (forall b, In b (map fst (l_all L)) ->
     (In b (map fst (l_rel L)) /\ ~ In b (map fst (l_live L))) \/
     (~ In b (map fst (l_rel L)) /\
      exists u ot, find_unit (w_units w) u = Some ot /\ In b (map fst (oused ot)) /\
        forall u' ot', find_unit (w_units w) u' = Some ot' -> In b (map fst (oused ot')) -> u' = u)) /\
  (w_units w = [] -> l_live L = []).
Proof.
  intros cfg env ops w L. apply binv_blocks.
  apply wrun_binv; [apply winv0|apply binv0].
Qed.
Print Assumptions C16_blocks_once.

(* thread_free releases every block of the unit's table *)
Theorem C16_free_releases_all : forall cfg env ops u t w' calls,
  let w := fst (wrun cfg (world0 env) ops) in
  find_unit (w_units w) u = Some (Some t) ->
  wstep cfg w (OFree u) = (w', RFreed calls) ->
  forall b, In b (map fst (t_used t)) ->
    In b (map fst (l_rel (w_led w'))) /\ ~ In b (map fst (l_live (w_led w'))).
Proof.
  intros cfg env ops u t w' calls w E H. eapply wfree_blocks; eauto.
  - apply wrun_inv. apply winv0.
  - apply wrun_binv; [apply winv0|apply binv0].
Qed.
Print Assumptions C16_free_releases_all.

(* Placement inside the blocks (the byte accounting of ABTI_ktable_create / alloc_elem with the
   sizes of this build, [cfg64]; [PI] in DS/KtablePlace.v): after any history, in every live
   table every element lies in a block of the table's p_used_mem chain, behind the block header
   (behind the table itself in the first block), within the usable bytes of a descriptor block;
   no two elements overlap; the extra-memory cursor stays inside its block behind every element
   carved from it. *)
Theorem C16_elems_placed : forall env ops u t,
  let w := fst (wrun cfg64 (world0 env) ops) in
  find_unit (w_units w) u = Some (Some t) ->
  PI cfg64 t /\ (forall b, In b (map fst (t_used t)) -> 0 <= b < l_next (w_led w)).
Proof.
  intros env ops u t w E.
  apply (n_tabs cfg64 _ (wrun_ninv cfg64 cfg64_ok ops (world0 env) (winv0 env) (ninv0 cfg64 env)) u t E).
Qed.
Print Assumptions C16_elems_placed.

Example C16_blocks_example :
  (* 5 keys on a 16-slot (malloc'ed) table: one malloc block + two descriptor blocks (the second
     obtained by an external thread), released newest first, each by its own releaser *)
  let w := fst (wrun cfg64 (world0 (Some 16))
     [OUnitCreate 7 false false; OKeyCreate 1; OKeyCreate 1; OKeyCreate 1; OKeyCreate 1; OKeyCreate 1;
      OSet false 7 0 1 false false; OSet false 7 1 2 false false; OSet false 7 2 3 false false;
      OSet true 7 3 4 false false; OSet false 7 4 5 false false; OFree 7]) in
  l_all (w_led w) = [(0, BMalloc); (1, BDesc false); (2, BDesc true)] /\
  l_rel (w_led w) = [(2, RDesc); (1, RDesc); (0, RFree)] /\ l_live (w_led w) = [] /\ l_bad (w_led w) = [].
Proof. vm_compute. repeat split; reflexivity. Qed.

(* ------------------------------------------------------------------ concurrency *)
Section Conc.
Variable slot : Z -> nat.    (* any slot function *)
Variable fixed : bool.       (* true: the code as it is now; false: before /repo commit a54fdc8 *)

(* Under any interleaving of any number of concurrent setters/getters on one unit: at most one
   table is ever created; the word never holds anything but that table once set; at most one
   thread is inside the creation section; every thread inside set_impl works on the published
   table (no set lands in an orphan table). *)
Theorem C16_lazy_create_once : forall acts s, run slot fixed init acts = Some s ->
  (ntab s <= 1)%nat /\
  (forall n, word s = WTab n -> n = O /\ ntab s = 1%nat) /\
  (forall x y, creating (pc s x) = true -> creating (pc s y) = true -> x = y) /\
  (forall x c n, in_impl (pc s x) = Some (c, n) -> word s = WTab n).
Proof. intros acts s H. apply (create_once slot fixed). eapply inv_reachable; eauto. Qed.

(* No set is lost: the step by which a set returns success makes (key, value) what every reader
   sees, and no other step changes what readers see for any key. *)
Theorem C16_no_lost_set : forall acts s t a s',
  run slot fixed init acts = Some s -> step slot fixed s t a = Some s' ->
  (pc s' t = SRet 0 /\ exists c, set_of (pc s t) = Some c /\
     forall k, view slot s' k = if k =? c_key c then Some (c_val c) else view slot s k) \/
  (pc s' t <> SRet 0 /\ forall k, view slot s' k = view slot s k).
Proof. intros acts s t a s' H. apply (step_view slot fixed). eapply inv_reachable; eauto. Qed.

(* Concurrent append: in every reachable state every chain has pairwise distinct keys, every
   element sits in the slot of its key, the table lock has at most one holder; and every step
   leaves each chain's (key, destructor) sequence a prefix of the new one (append-only: a
   lock-free walker never loses its position). *)
Theorem C16_concurrent_append : forall acts s, run slot fixed init acts = Some s ->
  (forall n i, NoDup (map ekey (chains s n i))) /\
  (forall n i k, In k (map ekey (chains s n i)) -> slot k = i) /\
  (forall n x y, incrit n (pc s x) = true -> incrit n (pc s y) = true -> x = y) /\
  (forall t a s', step slot fixed s t a = Some s' ->
     forall n i, exists r, kd (chains s' n i) = kd (chains s n i) ++ r).
Proof.
  intros acts s H. pose proof (inv_reachable slot fixed acts s H) as I.
  split; [apply (i_nodup _ _ _ I)|]. split; [apply (i_slot _ _ _ I)|].
  split; [apply (lock_mutex slot fixed); auto|]. intros t a s'. apply (step_append_only slot fixed); auto.
Qed.

(* Lock-free readers are linearizable: the value a get returns is the value the unit holds for the
   key at the get's last step (0 if none). *)
Theorem C16_lockfree_get : forall acts s t a s' v,
  run slot fixed init acts = Some s -> step slot fixed s t a = Some s' -> pc s' t = GRet v ->
  exists k, get_of (pc s t) = Some k /\ v = match view slot s k with Some x => x | None => 0 end.
Proof. intros acts s t a s' v H. apply (step_get slot fixed). eapply inv_reachable; eauto. Qed.

(* A NULL table pointer is never dereferenced by the current code; before commit a54fdc8 it was,
   but only on the path "lost the creation race to a creator whose allocation failed". *)
Theorem C16_null_deref_needs_failed_create : forall acts s, run slot fixed init acts = Some s ->
  (fixed = true \/ cfailed s = false) -> forall x, pc s x <> Crash.
Proof. intros acts s H. apply (no_crash slot fixed). eapply inv_reachable; eauto. Qed.
End Conc.
Print Assumptions C16_lazy_create_once.
Print Assumptions C16_no_lost_set.
Print Assumptions C16_concurrent_append.
Print Assumptions C16_lockfree_get.
Print Assumptions C16_null_deref_needs_failed_create.

(* the current code, any slot function, any interleaving, any allocation failures *)
Theorem C16_no_null_deref : forall slot acts s x, run slot true init acts = Some s -> pc s x <> Crash.
Proof. intros slot acts s x H. apply (C16_null_deref_needs_failed_create slot true acts s H). auto. Qed.
Print Assumptions C16_no_null_deref.

(* The same statement was FALSE for the code before commit a54fdc8 (finding of C18/C16, repaired
   in /repo; fixes/ktable-set-null-after-failed-creator.patch): thread 1 loses the creation race
   to thread 0, whose ABTI_ktable_create fails; thread 0 stores NULL back; thread 1 leaves
   `while (p_ktable == ABTI_KTABLE_LOCKED)` with NULL and calls ABTI_ktable_set_impl(NULL).
   tools/props/c16.py (stage "race") forces exactly this schedule on the implementation on every
   run: SIGSEGV on the old code, the LTS outcome on the current code. *)
Theorem C16_loser_null_deref_refuted_before_fix :
  exists acts s x, run (fun id => Z.to_nat (Z.land id 3)) false init acts = Some s /\ pc s x = Crash.
Proof. destruct crash_reachable as (s & H1 & H2). exists crash_run, s, 1%nat. auto. Qed.
Print Assumptions C16_loser_null_deref_refuted_before_fix.

(* the same schedule on the current code: the loser retries and becomes the creator *)
Example C16_same_schedule_now :
  exists s, run (fun id => Z.to_nat (Z.land id 3)) true init crash_run = Some s /\ pc s 1%nat = SCreate c2.
Proof. exact crash_run_fixed. Qed.

(* non-vacuity of the concurrency theorems: two threads race to create the table, both sets land *)
Example C16_conc_example :
  let sl := fun id => Z.to_nat (Z.land id 0) in
  exists s, run sl false init
    [ (0, ACallSet (mkC 2 11 1)); (1, ACallSet (mkC 3 22 0)); (0, AStep true); (1, AStep true);
      (0, AStep true) (* CAS wins *); (1, AStep true) (* CAS loses *); (1, AStep true) (* spin *);
      (0, AStep true) (* create *); (0, AStep true) (* publish *); (1, AStep true) (* sees the table *);
      (0, AStep true); (1, AStep true) (* both reach the NULL head link *);
      (0, AStep true) (* lock *); (0, AStep true) (* append, unlock *);
      (1, AStep true) (* lock *); (1, AStep true) (* re-walk finds key 2, appends after it *) ]%nat = Some s /\
    ntab s = 1%nat /\ view sl s 2 = Some 11 /\ view sl s 3 = Some 22 /\
    map ekey (chains s 0 0) = [2; 3] /\ pc s 0%nat = SRet 0 /\ pc s 1%nat = SRet 0.
Proof. eexists. vm_compute. repeat split; reflexivity. Qed.
