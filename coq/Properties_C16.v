(* C16 — placeholder while the proofs are being written *)
From Coq Require Import List ZArith Bool.
From ABT Require Import DS.Ktable.
Import ListNotations.
Local Open Scope Z_scope.
Example C16_smoke : ktable_get None (mkK 0 2) = 0.
Proof. reflexivity. Qed.
