(* C14 — user-defined pools and schedulers see a consistent unit <-> work-unit
   mapping.  Only statements here; proofs live in DS/Unit*Proofs.v and
   Conc/UnitMapConcProofs.v.

   Preconditions made explicit (they are the documented requirements of
   u_create_from_thread / p_create_unit): a user unit handle has bit 0 clear
   (hence is not ABT_UNIT_NULL = 0x7) and is not the handle of ANOTHER live
   work unit.  create_unit(pool, th) MAY return the handle th already has:
   pools whose unit is the work-unit handle itself (unit = (ABT_unit)thread, as
   in test/basic/pool_user_def.c) do so when a work unit moves directly from one
   user pool to another (the only place where create_unit is called for a work
   unit that holds a live user unit); the table then holds that key twice
   between map(new) and unmap(old) - see C14_same_handle_remap /
   C14_same_handle_move.  In the statements the preconditions are the
   [tpre]/[apre]/[oracle_ok] checks whose failure ends a run with [Misuse];
   [Abort] = an ABTI_ASSERT of unit.c fires ("get() must succeed", "unmap()
   must succeed") or NULL is dereferenced; [Wrong] = a result differs from the
   finite-map specification. *)
From Coq Require Import List ZArith Bool.
From ABT Require Import DS.UnitMap DS.UnitMapProofs DS.UnitAssocProofs DS.UnitApi DS.UnitApiProofs.
From ABT Require Import Conc.UnitMapConc Conc.UnitMapConcProofs Conc.UnitMapConcLink.
Import ListNotations.
Local Open Scope Z_scope.

(* unit_get_hash_index always yields a valid index of the 256-entry table;
   handles carved from an arena aligned to 2^27 bytes hash like their offsets
   (what the harness uses to force collisions). *)
Theorem C14_hash_index : forall u base off,
  0 <= hash_index u < TABLE_SIZE /\
  (base mod 134217728 = 0 -> hash_index (base + off) = hash_index off).
Proof. intros. split; [apply hash_index_range|apply hash_index_arena]. Qed.
Print Assumptions C14_hash_index.

(* For every sequence of map (malloc succeeding or failing) / unmap / get on
   the 256-bucket table, whatever the handles (colliding buckets included), as
   long as the caller respects the preconditions: no assertion fires, a map
   fails only when its allocation failed, and every get returns the thread the
   finite map holds; the table then represents exactly that finite map. *)
Theorem C14_lookup : forall ops,
  match trun tbl_init [] ops with
  | Ok (t, m, rs) => rep t (smapR m) /\ length rs = length ops
  | Misuse => True
  | Abort => False
  | Wrong => False
  end.
Proof. exact tbl_refines_map. Qed.
Print Assumptions C14_lookup.

(* non-vacuity: three handles that collide in bucket 37 (8, 2288+..., see the
   computation), tombstone reuse, failing malloc *)
Example C14_lookup_example :
  hash_index 296 = 37 /\ hash_index 2336 = 37 /\ hash_index 4376 = 37 /\
  match trun tbl_init [] [TMap 296 16 true; TMap 2336 32 true; TUnmap 296; TMap 4376 48 false;
                          TGet 4376; TGet 2336; TUnmap 2336; TMap 296 64 false] with
  | Ok (t, m, rs) => rs = [TRmap true; TRmap true; TRunmap; TRmap true; TRget 48; TRget 32; TRunmap; TRmap true]
                     /\ nth 37 t [] = [(296, 64); (4376, 48)]
  | _ => False
  end.
Proof. vm_compute. repeat split; reflexivity. Qed.

(* Association functions of abti_unit.h (ABTI_thread_init_pool,
   ABTI_thread_set_associated_pool, ABTI_unit_set_associated_pool,
   ABTI_thread_unset_associated_pool, ABTI_unit_get_thread), any sequence, any
   mix of built-in and user pools [bi]: no assertion fires, and the call log
   replays ([replay], DS/UnitMap.v): create_unit never returns a handle that is
   still live - except, in a direct move between two user pools, the handle the
   moved work unit has in the old pool, which is then live in both pools until
   the old pool's free_unit (or, when the map fails, the new pool's) -, every
   free_unit names a live handle of that very pool (so each handle is freed
   exactly once per creation and never mentioned after its free), and the
   handles live at the end are exactly the units of the work units currently
   associated with user pools, each for exactly one pool (an association starts
   with one create_unit and ends with one free_unit). *)
Theorem C14_create_free_balanced : forall bi ops,
  match arun bi init_state ops with
  | Ok (s, rs) =>
      length rs = length ops /\
      exists f, replay (a_log s) = Some f /\ forall u, f u = user_assoc (a_thr s) u
  | Misuse => True
  | Abort => False
  | Wrong => False
  end.
Proof.
  intros bi ops. pose proof (arun_Inv bi ops init_state (UnitAssocProofs.Inv_init bi)) as H.
  destruct (arun bi init_state ops) as [[s rs]| | |]; auto.
  destruct H as [HI Hl]. split; auto. apply (Inv_log_function bi); auto.
Qed.
Print Assumptions C14_create_free_balanced.

(* ... and once every descriptor is gone every created unit has been freed and
   the table holds only tombstones (the assertion of unit_finalize_hash_table) *)
Theorem C14_all_freed : forall bi ops s rs,
  arun bi init_state ops = Ok (s, rs) -> a_thr s = [] ->
  (exists f, replay (a_log s) = Some f /\ forall u, f u = None) /\
  tbl_all_tombstones (a_tbl s) = true.
Proof.
  intros bi ops s rs E Hn. pose proof (arun_Inv bi ops init_state (UnitAssocProofs.Inv_init bi)) as H.
  rewrite E in H. destruct H as [HI _]. split.
  - apply (Inv_all_freed bi); auto.
  - apply (Inv_finalize_ok bi); auto.
Qed.
Print Assumptions C14_all_freed.

(* ABTI_unit_get_thread of the unit of a work unit returns that work unit, and
   ABTI_unit_set_associated_pool(unit) does what
   ABTI_thread_set_associated_pool(its work unit) does, in every state reachable
   by the operations above. *)
Theorem C14_get_thread : forall bi ops s rs th x,
  arun bi init_state ops = Ok (s, rs) -> zfind (a_thr s) th = Some x ->
  unit_get_thread s (t_unit x) = Some th /\
  forall p o, unit_set_associated_pool bi s (t_unit x) p o =
              match thread_set_associated_pool bi s th p o with
              | Some (s', c) => Some (s', c, if c =? ABT_SUCCESS then th else 0)
              | None => None
              end.
Proof.
  intros bi ops s rs th x E Ef. pose proof (arun_Inv bi ops init_state (UnitAssocProofs.Inv_init bi)) as H.
  rewrite E in H. destruct H as [HI _]. split.
  - apply (get_thread_correct bi); auto.
  - intros. apply unit_set_eq_thread_set; auto.
Qed.
Print Assumptions C14_get_thread.

(* non-vacuity: the five branches, a NULL create_unit, a failing malloc, on
   colliding handles; pools 0 built-in, 1 and 2 user-defined *)
Example C14_assoc_example :
  let bi := fun p => p =? 0 in
  match arun bi init_state
          [AInit 16 0 (UNIT_NULL, true); ASet 16 1 (296, true); AInit 32 2 (2336, true);
           AUSet 16 2 (4376, true); ASet 32 2 (UNIT_NULL, true); ASet 32 1 (UNIT_NULL, true);
           AUSet 32 1 (296, false); AGet 16; ASet 16 0 (UNIT_NULL, true); AUSet 16 0 (UNIT_NULL, true);
           AUnset 16; AUnset 32] with
  | Ok (s, rs) =>
      rs = [ARcode 0; ARcode 0; ARcode 0; ARcode_thread 0 16; ARcode 0; ARcode 3;
            ARcode_thread 0 32; ARthread 16; ARcode 0; ARcode_thread 0 16; ARnone; ARnone] /\
      rev (a_log s) = [CCreate 1 16 296; CCreate 2 32 2336; CCreate 2 16 4376; CFree 1 296;
                       CCreate 1 32 UNIT_NULL; CCreate 1 32 296; CFree 2 2336; CFree 2 4376; CFree 1 296]
  | _ => False
  end.
Proof. vm_compute. split; reflexivity. Qed.

(* ---- same-handle moves ---- *)

(* Table level, any table [t] representing any relation [R] (colliding buckets,
   tombstones anywhere): map(u, th) while u is ALREADY mapped to th - what the
   runtime does first when a work unit moves between two user pools that hand
   out the same handle - either fails (only when its allocation failed; table
   unchanged) or succeeds, and then: a lookup of u still yields th while the key
   is in the bucket twice, the following unmap(u) succeeds (it tombstones the
   first cell with key u, a reused tombstone, a new head cell or the old cell,
   whichever comes first) and the table represents R again. *)
Theorem C14_same_handle_remap : forall t R u th ok t' r,
  rep t R -> u <> UNIT_NULL -> R u th -> tbl_map t u th ok = (t', r) ->
  (r = true /\ tbl_get t' u = Some th /\
   exists t'', tbl_unmap t' u = Some t'' /\ rep t'' R) \/
  (r = false /\ ok = false /\ t' = t).
Proof. exact rep_remap_same. Qed.
Print Assumptions C14_same_handle_remap.

(* Association level, in every state reachable by the association functions:
   work unit th of a user pool is moved (ABTI_thread_set_associated_pool; by
   C14_get_thread ABTI_unit_set_associated_pool does the same) to ANOTHER user
   pool p whose create_unit returns the handle th already has.  The call is
   within the contract ([apre]: no Misuse), no assertion fires, and either
   - it succeeds: th keeps its handle, now for pool p; exactly one create_unit
     (pool p) and one free_unit (old pool) were logged; the handle translates
     to th; its bucket holds it in exactly one cell (plus tombstones); or
   - the table could not allocate (ABT_ERR_MEM): table and fields unchanged, p
     freed the handle at once.
   The log still replays in both cases (C14_create_free_balanced covers runs
   containing such moves). *)
Theorem C14_same_handle_move : forall bi ops s rs th x p ok,
  arun bi init_state ops = Ok (s, rs) -> zfind (a_thr s) th = Some x ->
  is_builtin_unit (t_unit x) = false -> bi p = false -> t_pool x <> p ->
  apre s (ASet th p (t_unit x, ok)) = true /\
  exists s' c, thread_set_associated_pool bi s th p (t_unit x, ok) = Some (s', c) /\
    ((c = ABT_SUCCESS /\ a_thr s' = zset (a_thr s) th (mkT (t_unit x) p) /\
      a_log s' = CFree (t_pool x) (t_unit x) :: CCreate p th (t_unit x) :: a_log s /\
      unit_get_thread s' (t_unit x) = Some th /\
      key_count (nth_bucket (a_tbl s') (slot (t_unit x))) (t_unit x) = 1%nat)
     \/ (c = ABT_ERR_MEM /\ ok = false /\ a_thr s' = a_thr s /\ a_tbl s' = a_tbl s /\
         a_log s' = CFree p (t_unit x) :: CCreate p th (t_unit x) :: a_log s)).
Proof.
  intros bi ops s rs th x p ok E Ef Hb Hbi Hnp.
  pose proof (arun_Inv bi ops init_state (UnitAssocProofs.Inv_init bi)) as H.
  rewrite E in H. destruct H as [HI _].
  destruct (same_handle_move bi s th x p ok HI Ef Hb Hbi Hnp) as [Hpre (s' & c & Es & _ & Hc)].
  split; [exact Hpre|]. exists s', c. split; [exact Es|exact Hc].
Qed.
Print Assumptions C14_same_handle_move.

(* non-vacuity: pools 0 built-in, 1 and 2 user-defined; 296, 2336, 4376 collide
   (bucket 37).  Work unit 16 gets 296 in pool 1 and moves to pool 2 with the
   same handle: map prepends a second (296,16) cell, unmap tombstones it (the
   first match), the old cell stays.  It moves back to pool 1 with a failing
   malloc: the tombstone is reused, so the move still succeeds.  Work unit 32
   gets 2336 (reusing the tombstone) and is freed, so that a tombstone precedes
   the cell of 296 - the situation in which a map that wrongly reused the live
   cell would go unnoticed -; 16 moves to pool 2 again, is looked up and
   freed.  One create_unit per association, one free_unit per end. *)
Example C14_same_handle_move_example :
  let bi := fun p => p =? 0 in
  match arun bi init_state
          [AInit 16 1 (296, true); ASet 16 2 (296, true); AGet 16; AUSet 16 1 (296, false); AGet 16;
           AInit 32 2 (2336, true); AUnset 32; ASet 16 2 (296, true); AGet 16; AUnset 16] with
  | Ok (s, rs) =>
      rs = [ARcode 0; ARcode 0; ARthread 16; ARcode_thread 0 16; ARthread 16;
            ARcode 0; ARnone; ARcode 0; ARthread 16; ARnone] /\
      rev (a_log s) = [CCreate 1 16 296; CCreate 2 16 296; CFree 1 296; CCreate 1 16 296; CFree 2 296;
                       CCreate 2 32 2336; CFree 2 2336; CCreate 2 16 296; CFree 1 296; CFree 2 296] /\
      nth 37 (a_tbl s) [] = [(UNIT_NULL, 16); (UNIT_NULL, 16)]
  | _ => False
  end /\
  (* the state in the middle of the first move, spelled out *)
  match arun bi init_state [AInit 16 1 (296, true)] with
  | Ok (s, _) =>
      match create_and_map s 2 16 (296, true) with
      | (s1, Some 296, 0) =>
          nth 37 (a_tbl s1) [] = [(296, 16); (296, 16)] /\ tbl_get (a_tbl s1) 296 = Some 16 /\
          match unmap_and_free s1 1 296 with
          | Some s2 => nth 37 (a_tbl s2) [] = [(UNIT_NULL, 16); (296, 16)] /\ tbl_get (a_tbl s2) 296 = Some 16
          | None => False
          end
      | _ => False
      end
  | _ => False
  end /\
  (* every other reuse of a live handle is still outside the contract *)
  arun bi init_state [AInit 16 1 (296, true); AInit 32 1 (296, true)] = Misuse /\
  arun bi init_state [AInit 16 1 (296, true); AInit 32 2 (2336, true); ASet 32 1 (296, true)] = Misuse /\
  arun bi init_state [AInit 16 1 (296, true); AInit 32 0 (UNIT_NULL, true); AUSet 32 2 (296, true)] = Misuse.
Proof. vm_compute. repeat split; reflexivity. Qed.

(* A failed ABTI_thread_init_pool / ABTI_thread_set_associated_pool /
   ABTI_unit_set_associated_pool (create_unit returned ABT_UNIT_NULL:
   ABT_ERR_OTHER; or the table could not allocate: ABT_ERR_MEM, the fresh unit
   is handed back with free_unit) leaves the table and the (unit, pool) fields
   of every work unit exactly as they were - in ANY state, reachable or not. *)
Theorem C14_failure_atomic : forall bi s th u p o,
  (forall s' c, thread_init_pool bi s th p o = Some (s', c) -> c <> ABT_SUCCESS ->
                failed_attempt s s' p th o c) /\
  (forall s' c, thread_set_associated_pool bi s th p o = Some (s', c) -> c <> ABT_SUCCESS ->
                failed_attempt s s' p th o c) /\
  (forall s' c r, unit_set_associated_pool bi s u p o = Some (s', c, r) -> c <> ABT_SUCCESS ->
                exists th', failed_attempt s s' p th' o c /\ r = 0).
Proof.
  intros. split; [|split]; intros.
  - eapply init_pool_failure_atomic; eauto.
  - eapply set_associated_pool_failure_atomic; eauto.
  - eapply unit_set_associated_pool_failure_atomic; eauto.
Qed.
Print Assumptions C14_failure_atomic.

Example C14_failure_atomic_example :
  let bi := fun p => p =? 0 in
  match arun bi init_state [AInit 16 1 (296, true); AInit 32 1 (2336, true)] with
  | Ok (s, _) =>
      match thread_set_associated_pool bi s 16 2 (4376, false) with
      | Some (s', c) => c = ABT_ERR_MEM /\ a_tbl s' = a_tbl s /\ a_thr s' = a_thr s /\
                        a_log s' = CFree 2 4376 :: CCreate 2 16 4376 :: a_log s
      | None => False
      end
  | _ => False
  end.
Proof. vm_compute. repeat split; reflexivity. Qed.

(* ---- public API level (DS/UnitApi.v): create / push / pop / set_associated_pool /
   migrate_to_pool / self_schedule / run_unit / free / revive over any mix of
   built-in and user pools [bi], any pop policy (the index is an input of every
   pop), any work-unit bodies (yield / migrate-self scripts) ---- *)

(* Usage contract (else the run ends with code 1 = Misuse): pools are declared,
   a descriptor is created once, ABT_pool_push(_thread) / ABT_self_schedule /
   ABT_xstream_run_unit are applied to a work unit that is not in a pool,
   ABT_thread_set_associated_pool to one that is not in a pool, free / revive to
   a terminated one, and create_unit returns NULL or a handle with bit 0 clear
   that no OTHER work unit holds (fresh, or - in a direct move between two user
   pools - the handle the moved work unit already has).  Then: no assertion of
   unit.c fires (code 2 never), and the complete call log - create_unit,
   free_unit, push and pop of every user pool - replays: each handle is created
   once per association, freed once by the pool that created it, and never
   pushed, popped or freed after its last free (nor pushed or popped in the
   middle of a same-handle move); the handles live at the end are exactly the
   units of the work units associated with user pools. *)
Theorem C14_api_balanced : forall bi pools ops,
  let '(s, rs, e) := xrun bi (xinit pools) ops in
  e <> Some 2 /\ e <> Some 3 /\
  exists f, replay (a_log (x_a s)) = Some f /\ forall u, f u = user_assoc (a_thr (x_a s)) u.
Proof.
  intros bi pools ops. pose proof (xrun_XInv bi ops (xinit pools) (XInv_init bi pools)) as H.
  destruct (xrun bi (xinit pools) ops) as [[s rs] e]. destruct H as (HI & H2 & H3).
  repeat split; auto. apply (Inv_log_function bi). apply (xi_a _ _ HI).
Qed.
Print Assumptions C14_api_balanced.

(* Whatever element its pop policy picks, a pool hands out a work unit that was
   pushed to that pool and not popped since, and the unit <-> work-unit
   translation done by the pop (ABT_unit_get_thread in the user's p_pop, or
   pool_pop_wrapper for ABT_pool_def) gives the work unit whose unit it is: no
   work unit is lost, duplicated or confused with another one. *)
Theorem C14_pop_translates : forall bi pools ops0 s rs p k s' th u,
  xrun bi (xinit pools) ops0 = (s, rs, None) ->
  xstep bi s (XPop p k) = Ok (s', XRpop th u) ->
  (th = 0 /\ u = 0 /\ zfind (x_pools s) p = Some []) \/
  (exists c f x, zfind (x_pools s) p = Some c /\ In u c /\
                 zfind (a_thr (x_a s)) th = Some f /\ t_unit f = u /\ t_pool f = p /\
                 zfind (x_thr s) th = Some x /\ x_loc x = LPool).
Proof.
  intros bi pools ops0 s rs p k s' th u E. pose proof (xrun_XInv bi ops0 (xinit pools) (XInv_init bi pools)) as H.
  rewrite E in H. destruct H as (HI & _). apply pop_result; auto.
Qed.
Print Assumptions C14_pop_translates.

(* non-vacuity: pools 0 built-in, 1 and 2 user-defined; a named work unit with
   body "yield" is created in pool 1 (unit 296), popped, asked to migrate to
   pool 2, scheduled (migration handled: unit 2336 created, 296 freed, pushed to
   pool 2), popped, run (yields: pushed back), popped, run to completion, freed *)
Example C14_api_example :
  let bi := fun p => p =? 0 in
  let '(s, rs, e) := xrun bi (xinit [0; 1; 2])
      [XCreate 16 1 true [SYield] [(296, true)]; XPop 1 0; XMigrate 16 2; XRun 16 [(2336, true)];
       XPop 2 5; XRun 16 []; XPop 2 0; XCheck 16; XRun 16 []; XFree 16] in
  e = None /\
  rs = [XRcode 0; XRpop 16 296; XRcode 0; XRrun 0 0; XRpop 16 2336; XRrun 0 1; XRpop 16 2336;
        XRcheck 2336 16; XRrun 0 2; XRcode 0] /\
  rev (a_log (x_a s)) = [CCreate 1 16 296; CPush 1 296; CPop 1 296; CCreate 2 16 2336; CFree 1 296;
                         CPush 2 2336; CPop 2 2336; CPush 2 2336; CPop 2 2336; CFree 2 2336] /\
  x_runs s = [(16, 1)].
Proof. vm_compute. repeat split; reflexivity. Qed.

(* non-vacuity with same-handle moves through the public API: pools 1 and 2 are
   user-defined and both use the handle 296 for work unit 16 ("unit = thread
   handle").  Created in pool 1, popped, pushed to pool 2 with
   ABT_pool_push_thread (create_unit of pool 2 returns 296 again: map, unmap,
   free_unit of pool 1), checked, popped from pool 2, migrated back to pool 1 at
   its next schedule (same handle again), popped, run to completion, freed.
   Counts: pool 1 two creates / two frees, pool 2 one create / one free; the
   work unit ran exactly once; a second work unit that is handed 296 while 16
   holds it is Misuse (code 1). *)
Example C14_api_same_handle_example :
  let bi := fun p => p =? 0 in
  let '(s, rs, e) := xrun bi (xinit [0; 1; 2])
      [XCreate 16 1 true [] [(296, true)]; XPop 1 0; XPushThread 2 16 [(296, true)]; XCheck 16;
       XPop 2 3; XMigrate 16 1; XRun 16 [(296, true)]; XPop 1 0; XCheck 16; XRun 16 []; XFree 16] in
  e = None /\
  rs = [XRcode 0; XRpop 16 296; XRcode 0; XRcheck 296 16; XRpop 16 296; XRcode 0; XRrun 0 0;
        XRpop 16 296; XRcheck 296 16; XRrun 0 2; XRcode 0] /\
  rev (a_log (x_a s)) = [CCreate 1 16 296; CPush 1 296; CPop 1 296; CCreate 2 16 296; CFree 1 296;
                         CPush 2 296; CPop 2 296; CCreate 1 16 296; CFree 2 296; CPush 1 296; CPop 1 296;
                         CFree 1 296] /\
  x_runs s = [(16, 1)] /\
  snd (xrun bi (xinit [0; 1; 2])
         [XCreate 16 1 true [] [(296, true)]; XCreate 32 2 true [] [(296, true)]]) = Some 1.
Proof. vm_compute. repeat split; reflexivity. Qed.

(* ---- concurrent map / unmap / get (LTS Conc/UnitMapConc.v) ---- *)

(* For every number of threads and every interleaving of the atomic steps of
   unit_map_thread / unit_unmap_thread (writers, under the bucket lock, their
   stores visible one by one) and of the lock-free
   unit_get_thread_from_user_defined_unit: a get(u) that completes, and during
   which u itself was not unmapped (its epoch is unchanged), returns exactly
   the work unit u is mapped to - whatever maps, unmaps (tombstones), tombstone
   reuses and head insertions of OTHER units, colliding or not, overlapped it. *)
Theorem C14_concurrent_lookup : forall tr s x u r e t0,
  run init tr = Some s -> pcs s x = GetDone u r e t0 -> epoch s u = e ->
  r = t0 /\ stat s u = UMapped t0.
Proof. exact concurrent_lookup. Qed.
Print Assumptions C14_concurrent_lookup.

(* ... and no assertion of unit.c fires: "unmap() must succeed" never; "get()
   must succeed" only for a get whose own unit was unmapped during the get
   (a client that looks up a unit it is freeing).  Writers of one bucket exclude
   each other. *)
Theorem C14_concurrent_no_assert : forall tr s x,
  run init tr = Some s ->
  (forall u, pcs s x <> UnmapFailed u) /\
  (forall u e, pcs s x = GetFailed u e -> (e < epoch s u)%nat) /\
  (forall y h, writer_of (pcs s x) = Some h -> writer_of (pcs s y) = Some h -> x = y).
Proof.
  intros tr s x H. destruct (concurrent_no_assert tr s x H) as [A B]. repeat split; auto.
  intros y h. eapply concurrent_mutex; eauto.
Qed.
Print Assumptions C14_concurrent_no_assert.

(* non-vacuity: handles 296, 2336, 4376 collide (bucket 37).  Thread 0 maps 296,
   thread 1 maps 2336; thread 2 starts get(296) and loads the head; meanwhile
   thread 1 unmaps 2336 (tombstone at the head cell the reader stands on),
   thread 0 maps 4376 reusing that tombstone (unit, then p_thread) and thread 1
   maps 2336 again with a fresh cell published at the head; the reader walks
   over the reused cell and still finds 296 -> 16. *)
Example C14_concurrent_lookup_example :
  match run init [(0%nat, AMapBegin 296 16); (0%nat, AMapScan true); (0%nat, AMapPublish); (0%nat, AMapRelease);
                  (1%nat, AMapBegin 2336 32); (1%nat, AMapScan true); (1%nat, AMapPublish); (1%nat, AMapRelease);
                  (2%nat, AGetBegin 296);
                  (1%nat, AUnmapBegin 2336); (1%nat, AUnmapStore);
                  (1%nat, AUnmapRelease);
                  (0%nat, AMapBegin 4376 48); (0%nat, AMapScan false);
                  (2%nat, AGetCmp);
                  (0%nat, AMapStoreThr); (0%nat, AMapRelease);
                  (1%nat, AMapBegin 2336 64); (1%nat, AMapScan true); (1%nat, AMapPublish);
                  (2%nat, AGetCmp); (2%nat, AGetLoadThr); (1%nat, AMapRelease)] with
  | Some s => pcs s 2%nat = GetDone 296 16 0 16 /\ epoch s 296 = 0%nat /\
              map cu (cells s) = [296; 4376; 2336] /\ heads s 37 = Some 2%nat
  | None => False
  end.
Proof. vm_compute. repeat split; reflexivity. Qed.

(* The two hand-written models of unit.c agree: thread 0 executing whole
   operations of the LTS one after the other yields, on all 6025
   contract-respecting sequences of length <= 5 over three colliding handles
   and a fourth one (map with succeeding / failing malloc, unmap, get), the
   results and bucket chains of the list-level functions used by C14_lookup.
   Bounded check by computation (not a theorem). *)
Example C14_models_agree_bounded : check_upto 5 = true.
Proof. exact (proj1 lts_matches_list_model_bounded). Qed.
