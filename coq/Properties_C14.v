(* C14 — user-defined pools and schedulers see a consistent unit <-> work-unit
   mapping.  Only statements here; proofs live in DS/Unit*Proofs.v and
   Conc/UnitMapConcProofs.v.

   Preconditions made explicit (they are the documented requirements of
   u_create_from_thread / p_create_unit): a user unit handle has bit 0 clear
   (hence is not ABT_UNIT_NULL = 0x7) and is not the handle of another live
   unit.  In the statements they are the [tpre]/[apre]/[oracle_ok] checks whose
   failure ends a run with [Misuse]; [Abort] = an ABTI_ASSERT of unit.c fires
   ("get() must succeed", "unmap() must succeed") or NULL is dereferenced;
   [Wrong] = a result differs from the finite-map specification. *)
From Coq Require Import List ZArith Bool.
From ABT Require Import DS.UnitMap DS.UnitMapProofs DS.UnitAssocProofs.
Import ListNotations.
Local Open Scope Z_scope.

(* unit_get_hash_index always yields a valid index of the 256-entry table;
   handles carved from an arena aligned to 2^27 bytes hash like their offsets
   (what the harness uses to force collisions). *)
Theorem C14_hash_index : forall u base off,
  0 <= hash_index u < TABLE_SIZE /\
  (base mod 134217728 = 0 -> hash_index (base + off) = hash_index off).
Proof. intros. split; [apply hash_index_range|apply hash_index_arena]. Qed.
Print Assumptions C14_hash_index.

(* For every sequence of map (malloc succeeding or failing) / unmap / get on
   the 256-bucket table, whatever the handles (colliding buckets included), as
   long as the caller respects the preconditions: no assertion fires, a map
   fails only when its allocation failed, and every get returns the thread the
   finite map holds; the table then represents exactly that finite map. *)
Theorem C14_lookup : forall ops,
  match trun tbl_init [] ops with
  | Ok (t, m, rs) => rep t (smapR m) /\ length rs = length ops
  | Misuse => True
  | Abort => False
  | Wrong => False
  end.
Proof. exact tbl_refines_map. Qed.
Print Assumptions C14_lookup.

(* non-vacuity: three handles that collide in bucket 37 (8, 2288+..., see the
   computation), tombstone reuse, failing malloc *)
Example C14_lookup_example :
  hash_index 296 = 37 /\ hash_index 2336 = 37 /\ hash_index 4376 = 37 /\
  match trun tbl_init [] [TMap 296 16 true; TMap 2336 32 true; TUnmap 296; TMap 4376 48 false;
                          TGet 4376; TGet 2336; TUnmap 2336; TMap 296 64 false] with
  | Ok (t, m, rs) => rs = [TRmap true; TRmap true; TRunmap; TRmap true; TRget 48; TRget 32; TRunmap; TRmap true]
                     /\ nth 37 t [] = [(296, 64); (4376, 48)]
  | _ => False
  end.
Proof. vm_compute. repeat split; reflexivity. Qed.

(* Association functions of abti_unit.h (ABTI_thread_init_pool,
   ABTI_thread_set_associated_pool, ABTI_unit_set_associated_pool,
   ABTI_thread_unset_associated_pool, ABTI_unit_get_thread), any sequence, any
   mix of built-in and user pools [bi]: no assertion fires, and the call log
   replays: create_unit never returns a handle that is still live, every
   free_unit names a live handle of that very pool (so each handle is freed
   exactly once per creation and never mentioned after its free), and the
   handles live at the end are exactly the units of the work units currently
   associated with user pools (an association starts with one create_unit and
   ends with one free_unit). *)
Theorem C14_create_free_balanced : forall bi ops,
  match arun bi init_state ops with
  | Ok (s, rs) =>
      length rs = length ops /\
      exists f, replay (a_log s) = Some f /\ forall u, f u = user_assoc (a_thr s) u
  | Misuse => True
  | Abort => False
  | Wrong => False
  end.
Proof.
  intros bi ops. pose proof (arun_Inv bi ops init_state (Inv_init bi)) as H.
  destruct (arun bi init_state ops) as [[s rs]| | |]; auto.
  destruct H as [HI Hl]. split; auto. apply (Inv_log_function bi); auto.
Qed.
Print Assumptions C14_create_free_balanced.

(* ... and once every descriptor is gone every created unit has been freed and
   the table holds only tombstones (the assertion of unit_finalize_hash_table) *)
Theorem C14_all_freed : forall bi ops s rs,
  arun bi init_state ops = Ok (s, rs) -> a_thr s = [] ->
  (exists f, replay (a_log s) = Some f /\ forall u, f u = None) /\
  tbl_all_tombstones (a_tbl s) = true.
Proof.
  intros bi ops s rs E Hn. pose proof (arun_Inv bi ops init_state (Inv_init bi)) as H.
  rewrite E in H. destruct H as [HI _]. split.
  - apply (Inv_all_freed bi); auto.
  - apply (Inv_finalize_ok bi); auto.
Qed.
Print Assumptions C14_all_freed.

(* ABTI_unit_get_thread of the unit of a work unit returns that work unit, and
   ABTI_unit_set_associated_pool(unit) does what
   ABTI_thread_set_associated_pool(its work unit) does, in every state reachable
   by the operations above. *)
Theorem C14_get_thread : forall bi ops s rs th x,
  arun bi init_state ops = Ok (s, rs) -> zfind (a_thr s) th = Some x ->
  unit_get_thread s (t_unit x) = Some th /\
  forall p o, unit_set_associated_pool bi s (t_unit x) p o =
              match thread_set_associated_pool bi s th p o with
              | Some (s', c) => Some (s', c, if c =? ABT_SUCCESS then th else 0)
              | None => None
              end.
Proof.
  intros bi ops s rs th x E Ef. pose proof (arun_Inv bi ops init_state (Inv_init bi)) as H.
  rewrite E in H. destruct H as [HI _]. split.
  - apply (get_thread_correct bi); auto.
  - intros. apply unit_set_eq_thread_set; auto.
Qed.
Print Assumptions C14_get_thread.

(* non-vacuity: the five branches, a NULL create_unit, a failing malloc, on
   colliding handles; pools 0 built-in, 1 and 2 user-defined *)
Example C14_assoc_example :
  let bi := fun p => p =? 0 in
  match arun bi init_state
          [AInit 16 0 (UNIT_NULL, true); ASet 16 1 (296, true); AInit 32 2 (2336, true);
           AUSet 16 2 (4376, true); ASet 32 2 (UNIT_NULL, true); ASet 32 1 (UNIT_NULL, true);
           AUSet 32 1 (296, false); AGet 16; ASet 16 0 (UNIT_NULL, true); AUSet 16 0 (UNIT_NULL, true);
           AUnset 16; AUnset 32] with
  | Ok (s, rs) =>
      rs = [ARcode 0; ARcode 0; ARcode 0; ARcode_thread 0 16; ARcode 0; ARcode 3;
            ARcode_thread 0 32; ARthread 16; ARcode 0; ARcode_thread 0 16; ARnone; ARnone] /\
      rev (a_log s) = [CCreate 1 16 296; CCreate 2 32 2336; CCreate 2 16 4376; CFree 1 296;
                       CCreate 1 32 UNIT_NULL; CCreate 1 32 296; CFree 2 2336; CFree 2 4376; CFree 1 296]
  | _ => False
  end.
Proof. vm_compute. split; reflexivity. Qed.

(* A failed ABTI_thread_init_pool / ABTI_thread_set_associated_pool /
   ABTI_unit_set_associated_pool (create_unit returned ABT_UNIT_NULL:
   ABT_ERR_OTHER; or the table could not allocate: ABT_ERR_MEM, the fresh unit
   is handed back with free_unit) leaves the table and the (unit, pool) fields
   of every work unit exactly as they were - in ANY state, reachable or not. *)
Theorem C14_failure_atomic : forall bi s th u p o,
  (forall s' c, thread_init_pool bi s th p o = Some (s', c) -> c <> ABT_SUCCESS ->
                failed_attempt s s' p th o c) /\
  (forall s' c, thread_set_associated_pool bi s th p o = Some (s', c) -> c <> ABT_SUCCESS ->
                failed_attempt s s' p th o c) /\
  (forall s' c r, unit_set_associated_pool bi s u p o = Some (s', c, r) -> c <> ABT_SUCCESS ->
                exists th', failed_attempt s s' p th' o c /\ r = 0).
Proof.
  intros. split; [|split]; intros.
  - eapply init_pool_failure_atomic; eauto.
  - eapply set_associated_pool_failure_atomic; eauto.
  - eapply unit_set_associated_pool_failure_atomic; eauto.
Qed.
Print Assumptions C14_failure_atomic.

Example C14_failure_atomic_example :
  let bi := fun p => p =? 0 in
  match arun bi init_state [AInit 16 1 (296, true); AInit 32 1 (2336, true)] with
  | Ok (s, _) =>
      match thread_set_associated_pool bi s 16 2 (4376, false) with
      | Some (s', c) => c = ABT_ERR_MEM /\ a_tbl s' = a_tbl s /\ a_thr s' = a_thr s /\
                        a_log s' = CFree 2 4376 :: CCreate 2 16 4376 :: a_log s
      | None => False
      end
  | _ => False
  end.
Proof. vm_compute. repeat split; reflexivity. Qed.

(* ---- concurrent map / unmap / get (LTS Conc/UnitMapConc.v) ---- *)
From ABT Require Import Conc.UnitMapConc Conc.UnitMapConcProofs.

(* For every number of threads and every interleaving of the atomic steps of
   unit_map_thread / unit_unmap_thread (writers, under the bucket lock, their
   stores visible one by one) and of the lock-free
   unit_get_thread_from_user_defined_unit: a get(u) that completes, and during
   which u itself was not unmapped (its epoch is unchanged), returns exactly
   the work unit u is mapped to - whatever maps, unmaps (tombstones), tombstone
   reuses and head insertions of OTHER units, colliding or not, overlapped it. *)
Theorem C14_concurrent_lookup : forall tr s x u r e t0,
  run init tr = Some s -> pcs s x = GetDone u r e t0 -> epoch s u = e ->
  r = t0 /\ stat s u = UMapped t0.
Proof. exact concurrent_lookup. Qed.
Print Assumptions C14_concurrent_lookup.

(* ... and no assertion of unit.c fires: "unmap() must succeed" never; "get()
   must succeed" only for a get whose own unit was unmapped during the get
   (a client that looks up a unit it is freeing).  Writers of one bucket exclude
   each other. *)
Theorem C14_concurrent_no_assert : forall tr s x,
  run init tr = Some s ->
  (forall u, pcs s x <> UnmapFailed u) /\
  (forall u e, pcs s x = GetFailed u e -> (e < epoch s u)%nat) /\
  (forall y h, writer_of (pcs s x) = Some h -> writer_of (pcs s y) = Some h -> x = y).
Proof.
  intros tr s x H. destruct (concurrent_no_assert tr s x H) as [A B]. repeat split; auto.
  intros y h. eapply concurrent_mutex; eauto.
Qed.
Print Assumptions C14_concurrent_no_assert.

(* non-vacuity: handles 296, 2336, 4376 collide (bucket 37).  Thread 0 maps 296,
   thread 1 maps 2336; thread 2 starts get(296) and loads the head; meanwhile
   thread 1 unmaps 2336 (tombstone at the head cell the reader stands on),
   thread 0 maps 4376 reusing that tombstone (unit, then p_thread) and thread 1
   maps 2336 again with a fresh cell published at the head; the reader walks
   over the reused cell and still finds 296 -> 16. *)
Example C14_concurrent_lookup_example :
  match run init [(0%nat, AMapBegin 296 16); (0%nat, AMapScan true); (0%nat, AMapPublish); (0%nat, AMapRelease);
                  (1%nat, AMapBegin 2336 32); (1%nat, AMapScan true); (1%nat, AMapPublish); (1%nat, AMapRelease);
                  (2%nat, AGetBegin 296);
                  (1%nat, AUnmapBegin 2336); (1%nat, AUnmapStore);
                  (1%nat, AUnmapRelease);
                  (0%nat, AMapBegin 4376 48); (0%nat, AMapScan false);
                  (2%nat, AGetCmp);
                  (0%nat, AMapStoreThr); (0%nat, AMapRelease);
                  (1%nat, AMapBegin 2336 64); (1%nat, AMapScan true); (1%nat, AMapPublish);
                  (2%nat, AGetCmp); (2%nat, AGetLoadThr); (1%nat, AMapRelease)] with
  | Some s => pcs s 2%nat = GetDone 296 16 0 16 /\ epoch s 296 = 0%nat /\
              map cu (cells s) = [296; 4376; 2336] /\ heads s 37 = Some 2%nat
  | None => False
  end.
Proof. vm_compute. repeat split; reflexivity. Qed.
