(* Work-unit life cycle on the scheduler LTS (Conc/Sched.v): statements only.
   Proofs: Conc/SchedLife.v.  C01 (function entered at most once), C02 (published only after
   its context is saved), C11 (blocking / resume protocol), C12 (observable state machine). *)
From Coq Require Import List Arith ZArith Bool.
From ABT Require Import Conc.Sched Conc.SchedDefs Conc.SchedLife.
Import ListNotations.

(* ---- runs used by the examples (unit 0: a named ULT of pool 0; unit 1: its joiner) ---- *)
Definition tr_to_run : list ev :=
  [EInit 0 0 true true; EPush 0 0 true; EPop 0 (Some 0) false; EReqLoad 0 1 false false false; EState 0 1].
Definition tr_finished : list ev := tr_to_run ++ [EStart 0; EFinish 0].
Definition tr_exit_cb : list ev :=
  tr_finished ++ [ELinkLd 0 None; EReqOr 0 0 true false false false 0; ECb 0 KExit None].
Definition tr_term : list ev := tr_exit_cb ++ [EState 0 3].
Definition tr_yield_cb : list ev := tr_to_run ++ [EStart 0; ECb 0 KYield None; EReqLoad 0 1 false false false].
Definition tr_susp_cb : list ev :=
  tr_to_run ++ [EStart 0; ECb 0 KSuspend None; EReqLoad 0 0 false false false; ENb 0 true 0 0 false].
Definition tr_blocked : list ev := tr_susp_cb ++ [EState 0 2].
Definition tr_cancel_popped : list ev :=
  [EInit 0 0 true true; EPush 0 0 true; EReqOr 0 1 false false false false 0; EPop 0 (Some 0) false].
Definition tr_cancelling : list ev := tr_cancel_popped ++ [EReqLoad 0 1 false true false].
Definition tr_joiner_blocked : list ev :=
  [EInit 0 0 true true; EAdopt 1 0 true; EReqOr 0 0 false false false false 1;
   ECb 1 KSuspendJoin None; EReqLoad 1 0 false false false; ENb 0 true 0 1 false; EState 1 2].

(* ================= the invariant ================= *)
Theorem InvLife_reachable s : reachable s -> InvLife s.
Proof. exact (SchedLife.InvLife_reachable s). Qed.
Print Assumptions InvLife_reachable.

(* the inductive strengthening and its two proof obligations *)
Theorem InvLifeI_init : InvLifeI init.
Proof. exact SchedLife.InvLifeI_init. Qed.
Print Assumptions InvLifeI_init.
Theorem InvLifeI_step s e s' : InvLifeI s -> step s e = Some s' -> InvLifeI s'.
Proof. exact (SchedLife.InvLifeI_step s e s'). Qed.
Print Assumptions InvLifeI_step.
Theorem InvLifeI_InvLife s : InvLifeI s -> InvLife s.
Proof. exact (SchedLife.InvLifeI_InvLife s). Qed.
Print Assumptions InvLifeI_InvLife.

(* ost_ok' versus SchedDefs.ost_ok *)
Theorem ost_ok'_ost_ok x o : ost_ok' x o = true -> ost_ok x o = true \/ (x = UCbS KYield 1 /\ o = 0%Z).
Proof. exact (SchedLife.ost_ok'_ost_ok x o). Qed.
Print Assumptions ost_ok'_ost_ok.
Theorem ost_ok_ost_ok' x o : ost_ok x o = true -> x <> UNone -> ost_ok' x o = true.
Proof. exact (SchedLife.ost_ok_ost_ok' x o). Qed.
Print Assumptions ost_ok_ost_ok'.

(* the statements with SchedDefs.ost_ok / allowed_transition are false: READY is stored over READY
   when a MIGRATE request is found on a popped unit *)
Theorem ost_ok_refuted : exists s u, reachable s /\ ost_ok (ust (un s u)) (ost (un s u)) = false.
Proof. exact SchedLife.ost_ok_refuted. Qed.
Print Assumptions ost_ok_refuted.
Theorem C12_transitions_refuted : exists s u v s',
  reachable s /\ step s (EState u v) = Some s' /\ allowed_transition (ost (un s u)) v = false.
Proof. exact SchedLife.C12_transitions_refuted. Qed.
Print Assumptions C12_transitions_refuted.

(* ================= C01 ================= *)
Theorem C01_at_most_once s u : reachable s ->
  starts (un s u) <= 1 /\ fins (un s u) <= starts (un s u).
Proof. exact (SchedLife.C01_at_most_once s u). Qed.
Print Assumptions C01_at_most_once.
Example C01_at_most_once_ex : exists s, run init tr_finished = Some s /\
  starts (un s 0) = 1 /\ fins (un s 0) = 1.
Proof. ex_witness. Qed.

Theorem C01_start_only_when_running s u s' : reachable s -> step s (EStart u) = Some s' ->
  ust (un s u) = URunning /\ Sched.fresh (un s u) = true /\ starts (un s' u) = 1.
Proof. exact (SchedLife.C01_start_only_when_running s u s'). Qed.
Print Assumptions C01_start_only_when_running.
Example C01_start_only_when_running_ex : exists s, run init tr_to_run = Some s /\
  exists s', step s (EStart 0) = Some s' /\ step s' (EStart 0) = None.
Proof. ex_witness. Qed.

(* ================= C12 ================= *)
Theorem C12_state_store s u v s' : step s (EState u v) = Some s' -> ost (un s' u) = v.
Proof. exact (SchedLife.C12_state_store s u v s'). Qed.
Print Assumptions C12_state_store.

Theorem C12_ost_only_by_events s e s' u : step s e = Some s' -> ost (un s' u) <> ost (un s u) ->
  (exists v, e = EState u v) \/ (exists p, e = ERevive u p) \/
  (exists p ult nmd, e = EInit u p ult nmd) \/ (exists p ult, e = EAdopt u p ult).
Proof. exact (SchedLife.C12_ost_only_by_events s e s' u). Qed.
Print Assumptions C12_ost_only_by_events.

Theorem C12_transitions s u v s' : reachable s -> step s (EState u v) = Some s' ->
  allowed_transition' (ost (un s u)) v = true.
Proof. exact (SchedLife.C12_transitions s u v s'). Qed.
Print Assumptions C12_transitions.

Theorem C12_transitions' s u v s' : reachable s -> step s (EState u v) = Some s' ->
  allowed_transition (ost (un s u)) v = true \/
  (ost (un s u) = 0%Z /\ v = 0%Z /\ ust (un s u) = UCbS KYield 1 /\ ust (un s' u) = UCbS KYield 2).
Proof. exact (SchedLife.C12_transitions' s u v s'). Qed.
Print Assumptions C12_transitions'.
Example C12_transitions_ex_yield : exists s, run init tr_yield_cb = Some s /\
  exists s', step s (EState 0 0) = Some s' /\ ost (un s 0) = 1%Z /\ ost (un s' 0) = 0%Z.
Proof. ex_witness. Qed.
Example C12_transitions_ex_block : exists s, run init tr_susp_cb = Some s /\
  exists s', step s (EState 0 2) = Some s' /\ ost (un s 0) = 1%Z.
Proof. ex_witness. Qed.
Example C12_transitions_ex_term : exists s, run init tr_exit_cb = Some s /\
  exists s', step s (EState 0 3) = Some s' /\ ost (un s 0) = 1%Z.
Proof. ex_witness. Qed.

Theorem C12_revive_only_3_0 s e s' u : reachable s -> step s e = Some s' ->
  ost (un s u) = 3%Z -> ost (un s' u) <> 3%Z ->
  (exists p, e = ERevive u p) /\ ost (un s' u) = 0%Z.
Proof. exact (SchedLife.C12_revive_only_3_0 s e s' u). Qed.
Print Assumptions C12_revive_only_3_0.
Example C12_revive_only_3_0_ex : exists s, run init tr_term = Some s /\
  exists s', step s (ERevive 0 0) = Some s' /\ ost (un s 0) = 3%Z /\ ost (un s' 0) = 0%Z.
Proof. ex_witness. Qed.

Theorem C12_create_only_init s e s' u : step s e = Some s' ->
  ust (un s u) = UNone -> ust (un s' u) <> UNone ->
  (exists p ult nmd, e = EInit u p ult nmd /\ adopted (un s' u) = false) \/
  (exists p ult, e = EAdopt u p ult /\ adopted (un s' u) = true).
Proof. exact (SchedLife.C12_create_only_init s e s' u). Qed.
Print Assumptions C12_create_only_init.
Example C12_create_only_init_ex : exists s', step init (EInit 0 0 true true) = Some s' /\
  ust (un init 0) = UNone /\ ust (un s' 0) = UCreated.
Proof. ex_witness. Qed.

Theorem C12_terminated_is_final s e s' u : reachable s -> is_term (ust (un s u)) = true ->
  step s e = Some s' ->
  is_term (ust (un s' u)) = true \/ (exists p, e = ERevive u p).
Proof. exact (SchedLife.C12_terminated_is_final s e s' u). Qed.
Print Assumptions C12_terminated_is_final.
Example C12_terminated_is_final_ex : exists s, run init tr_term = Some s /\
  is_term (ust (un s 0)) = true /\
  (exists s', step s (EFree 0) = Some s' /\ is_term (ust (un s' 0)) = true) /\
  (exists s', step s (EReqOr 0 1 false true false false 0) = Some s' /\ is_term (ust (un s' 0)) = true).
Proof. ex_witness; ex_witness. Qed.

Theorem C12_terminated_untouched s e s' u : is_term (ust (un s u)) = true ->
  step s e = Some s' ->
  ust (un s' u) = ust (un s u) \/
  (e = EFree u /\ ust (un s u) = UTerm /\ ust (un s' u) = UFreed) \/
  (exists p, e = ERevive u p).
Proof. exact (SchedLife.C12_terminated_untouched s e s' u). Qed.
Print Assumptions C12_terminated_untouched.

Theorem C12_free_once s u s' : step s (EFree u) = Some s' ->
  ust (un s u) = UTerm /\ ust (un s' u) = UFreed.
Proof. exact (SchedLife.C12_free_once s u s'). Qed.
Print Assumptions C12_free_once.
Theorem C12_free_once_freed s u : reachable s -> ust (un s u) = UFreed -> step s (EFree u) = None.
Proof. exact (SchedLife.C12_free_once_freed s u). Qed.
Print Assumptions C12_free_once_freed.
Example C12_free_once_ex : exists s, run init tr_term = Some s /\
  exists s', step s (EFree 0) = Some s' /\ ust (un s' 0) = UFreed /\ step s' (EFree 0) = None.
Proof. ex_witness. Qed.

Theorem C12_exit_no_more_slice s e s' u : reachable s -> ust (un s u) = UFinished ->
  step s e = Some s' ->
  ust (un s' u) = UFinished \/ (exists n, ust (un s' u) = UCbS KExit n) \/
  (exists n, ust (un s' u) = UCbS KResumeExitTo n) \/ (ust (un s' u) = UTerm /\ isult (un s u) = false).
Proof. exact (SchedLife.C12_exit_no_more_slice s e s' u). Qed.
Print Assumptions C12_exit_no_more_slice.
Theorem C12_exit_no_more_slice_inv s u : reachable s -> fins (un s u) = 1 -> exiting (ust (un s u)) = true.
Proof. exact (SchedLife.C12_exit_no_more_slice_inv s u). Qed.
Print Assumptions C12_exit_no_more_slice_inv.
Theorem C12_exited_has_finished s u : reachable s -> exited (ust (un s u)) = true -> fins (un s u) = 1.
Proof. exact (SchedLife.C12_exited_has_finished s u). Qed.
Print Assumptions C12_exited_has_finished.
Theorem C12_exiting_closed s e s' u : exiting (ust (un s u)) = true -> step s e = Some s' ->
  exiting (ust (un s' u)) = true \/ (exists p, e = ERevive u p).
Proof. exact (SchedLife.C12_exiting_closed s e s' u). Qed.
Print Assumptions C12_exiting_closed.
Example C12_exit_no_more_slice_ex : exists s, run init tr_finished = Some s /\
  ust (un s 0) = UFinished /\ fins (un s 0) = 1 /\
  step s (EState 0 1) = None /\ step s (EPush 0 0 true) = None /\ step s (EStart 0) = None /\
  exists s', run s [ELinkLd 0 None; EReqOr 0 0 true false false false 0; ECb 0 KExit None] = Some s' /\
             ust (un s' 0) = UCbS KExit 0.
Proof. ex_witness; ex_witness. Qed.

Theorem C12_cancel_by_next_point s u j m s' : step s (EReqLoad u 1 j true m) = Some s' ->
  ust (un s' u) = UCancelling.
Proof. exact (SchedLife.C12_cancel_by_next_point s u j m s'). Qed.
Print Assumptions C12_cancel_by_next_point.
Theorem C12_cancelling_only_term s e s' u : reachable s -> ust (un s u) = UCancelling ->
  step s e = Some s' ->
  ust (un s' u) = UCancelling \/ ust (un s' u) = UTerm.
Proof. exact (SchedLife.C12_cancelling_only_term s e s' u). Qed.
Print Assumptions C12_cancelling_only_term.
Theorem C12_cancelling_has_request s u : reachable s -> ust (un s u) = UCancelling -> rcancel (un s u) = true.
Proof. exact (SchedLife.C12_cancelling_has_request s u). Qed.
Print Assumptions C12_cancelling_has_request.
Example C12_cancel_by_next_point_ex : exists s, run init tr_cancel_popped = Some s /\
  exists s', step s (EReqLoad 0 1 false true false) = Some s' /\ ust (un s' 0) = UCancelling /\
  step s' (EState 0 1) = None /\
  exists s'', run s' [ELinkLd 0 None; EReqOr 0 0 true false true false 0; EState 0 3] = Some s'' /\
              ust (un s'' 0) = UTerm /\ starts (un s'' 0) = 0.
Proof. ex_witness; ex_witness. Qed.

(* ================= C02 ================= *)
Theorem C02_publish_only_after_save s e s' u : step s e = Some s' -> publishes e u ->
  post_save (ust (un s u)) = true.
Proof. exact (SchedLife.C02_publish_only_after_save s e s' u). Qed.
Print Assumptions C02_publish_only_after_save.
Example C02_publish_ex_push : exists s, run init (tr_yield_cb ++ [EState 0 0]) = Some s /\
  exists s', step s (EPush 0 0 true) = Some s' /\ ust (un s 0) = UCbS KYield 2.
Proof. ex_witness. Qed.
Example C02_publish_ex_ready : exists s, run init tr_yield_cb = Some s /\
  exists s', step s (EState 0 0) = Some s' /\ ust (un s 0) = UCbS KYield 1.
Proof. ex_witness. Qed.
Example C02_publish_ex_blocked : exists s, run init tr_susp_cb = Some s /\
  exists s', step s (EState 0 2) = Some s' /\ ust (un s 0) = UCbS KSuspend 2.
Proof. ex_witness. Qed.
Example C02_publish_ex_joiner : exists s, run init tr_joiner_blocked = Some s /\
  exists s', step s (ELinkSt 0 1 false) = Some s' /\ ust (un s 1) = UBlocked /\ link (un s' 0) = Some 1.
Proof. ex_witness. Qed.
(* while the unit still runs on its own stack none of these is enabled *)
Example C02_publish_ex_running : exists s, run init (tr_to_run ++ [EStart 0]) = Some s /\
  ust (un s 0) = URunning /\ step s (EPush 0 0 true) = None /\ step s (EState 0 0) = None /\
  step s (EState 0 2) = None.
Proof. ex_witness. Qed.

(* ================= C11 ================= *)
Theorem C11_blocked_only_in_callback s u s' : step s (EState u 2) = Some s' ->
  exists k n, ust (un s u) = UCbS k n /\ suspend_kind k = true.
Proof. exact (SchedLife.C11_blocked_only_in_callback s u s'). Qed.
Print Assumptions C11_blocked_only_in_callback.
Example C11_blocked_only_in_callback_ex : exists s, run init tr_susp_cb = Some s /\
  exists s', step s (EState 0 2) = Some s' /\ ust (un s' 0) = UBlocked.
Proof. ex_witness. Qed.

Theorem C11_once_per_resume s u s' : step s (EState u 0) = Some s' -> ust (un s u) = UBlocked ->
  ust (un s' u) = UResuming /\ step s' (EState u 0) = None.
Proof. exact (SchedLife.C11_once_per_resume s u s'). Qed.
Print Assumptions C11_once_per_resume.
Example C11_once_per_resume_ex : exists s, run init tr_blocked = Some s /\
  ust (un s 0) = UBlocked /\ exists s', step s (EState 0 0) = Some s' /\ ust (un s' 0) = UResuming.
Proof. ex_witness; ex_witness. Qed.

Theorem C11_run_needs_handover s u s' : step s (EState u 1) = Some s' ->
  (ust (un s u) = UChecked \/ ust (un s u) = UPopped \/ ust (un s u) = UCreated \/
   ust (un s u) = UBlocked \/ ust (un s u) = UHandoff) /\ ust (un s' u) = URunning.
Proof. exact (SchedLife.C11_run_needs_handover s u s'). Qed.
Print Assumptions C11_run_needs_handover.
Example C11_run_needs_handover_ex : exists s, run init tr_blocked = Some s /\
  exists s', step s (EState 0 1) = Some s' /\ ust (un s 0) = UBlocked /\ ust (un s' 0) = URunning.
Proof. ex_witness. Qed.
