(* List lemmas missing from the 8.16 standard library. *)
From Coq Require Import List Arith Lia Bool.
Import ListNotations.

Section L.
Context {A : Type}.

Lemma NoDup_app_iff (l1 l2 : list A) :
  NoDup (l1 ++ l2) <-> NoDup l1 /\ NoDup l2 /\ (forall x, In x l1 -> ~ In x l2).
Proof.
  induction l1 as [|a l1 IH]; cbn.
  - split; [intros H; repeat split; auto; constructor | tauto].
  - rewrite !NoDup_cons_iff, IH, in_app_iff. split.
    + intros (Hn & H1 & H2 & H3). split; [split; tauto|]. split; auto.
      intros x [->|Hx]; [tauto|auto].
    + intros ((Hn & H1) & H2 & H3). split; [|split; [auto|split; auto]].
      intros [H|H]; [tauto|]. apply (H3 a); auto.
Qed.

Lemma NoDup_snoc (l : list A) (x : A) : NoDup l -> ~ In x l -> NoDup (l ++ [x]).
Proof.
  intros H1 H2. apply NoDup_app_iff. repeat split; auto.
  - constructor; [intros []|constructor].
  - intros y Hy [->|[]]; auto.
Qed.

Lemma NoDup_snoc_iff (l : list A) (x : A) : NoDup (l ++ [x]) <-> NoDup l /\ ~ In x l.
Proof.
  rewrite NoDup_app_iff. split.
  - intros (H1 & _ & H3). split; auto. intros Hx. apply (H3 x Hx). left; auto.
  - intros (H1 & H2). repeat split; auto.
    + constructor; [intros []|constructor].
    + intros y Hy [->|[]]; auto.
Qed.

Lemma in_split_first (eqb : A -> A -> bool)
      (eqb_spec : forall x y, reflect (x = y) (eqb x y)) (x : A) (l : list A) :
  In x l -> exists l1 l2, l = l1 ++ x :: l2 /\ ~ In x l1.
Proof.
  induction l as [|a l IH]; [intros []|].
  intros Hin. destruct (eqb_spec a x) as [->|Hne].
  - exists [], l. split; auto.
  - destruct Hin as [->|Hin]; [congruence|].
    destruct (IH Hin) as (l1 & l2 & -> & Hn). exists (a :: l1), l2. split; auto.
    intros [->|H]; auto.
Qed.

Lemma last_snoc (l : list A) (x d : A) : last (l ++ [x]) d = x.
Proof. induction l as [|a l IH]; cbn; auto. destruct (l ++ [x]) eqn:E; auto.
       destruct l; discriminate. Qed.

Lemma removelast_snoc (l : list A) (x : A) : removelast (l ++ [x]) = l.
Proof. induction l as [|a l IH]; cbn; auto. rewrite IH.
       destruct (l ++ [x]) eqn:E; auto. destruct l; discriminate. Qed.

Lemma list_snoc_cases (l : list A) : l = [] \/ exists l' x, l = l' ++ [x].
Proof.
  destruct l as [|a l]; auto. right.
  exists (removelast (a :: l)), (last (a :: l) a).
  apply app_removelast_last. discriminate.
Qed.

Fixpoint upd_nth (l : list A) (i : nat) (x : A) : list A :=
  match l, i with
  | [], _ => []
  | _ :: l', O => x :: l'
  | a :: l', S i' => a :: upd_nth l' i' x
  end.

Lemma upd_nth_length l i x : length (upd_nth l i x) = length l.
Proof. revert i; induction l; destruct i; cbn; auto. Qed.

Lemma nth_upd_nth_eq l i x d : i < length l -> nth i (upd_nth l i x) d = x.
Proof. revert i; induction l; destruct i; cbn; intros; auto; try lia. apply IHl; lia. Qed.

Lemma nth_upd_nth_ne l i j x d : i <> j -> nth j (upd_nth l i x) d = nth j l d.
Proof. revert i j; induction l; destruct i, j; cbn; intros; auto; try lia. Qed.

End L.
