(* C08 — barriers release nobody early and everybody once the last waiter arrives.
   Statements only; the LTS is Conc/Barrier.v (labels = hook records of the real
   library), proofs are in Conc/BarrierProofs.v.  [run (init n0) tr] ranges over
   every interleaving of every number of callers (ULT, external thread, tasklet)
   of ABT_barrier_wait / ABT_barrier_reinit on one barrier created with
   num_waiters = n0 >= 1 (ABT_barrier_create rejects 0); reinit is taken only
   inside its documented contract (no round in progress).
   Ghost fields: [round s] = number of n-th arrivals so far, [entered s t] = value
   of [round] when t's arrival was counted, [cur s] = callers counted in the round
   being collected.
   ABT_xstream_barrier_wait is pthread_barrier_wait in this configuration (libc,
   trusted base); it has no model here and is checked by the API-level monitor of
   the harness only. *)
From Coq Require Import List ZArith Bool Arith.
From ABT Require Import Conc.Barrier Conc.BarrierProofs.
Import ListNotations.

(* ---------------- nobody is released early ---------------- *)
(* A caller that has passed the barrier (woken by the broadcast: UR/ER/EWr, or the last
   arrival itself: WB0..WR, DoneW) entered a round whose n-th arrival has already happened. *)
Theorem C08_no_early_release : forall n0 tr s t,
  1 <= n0 -> run (init n0) tr = Some s ->
  released (pc s t) = true -> entered s t < round s.
Proof. exact no_early_release. Qed.
Print Assumptions C08_no_early_release.

(* ... in particular at the moment it is woken, and at the moment its call returns. *)
Theorem C08_woken_after_nth_arrival : forall n0 tr s u x s',
  1 <= n0 -> run (init n0) tr = Some s -> step s (EWake u x) = Some s' ->
  entered s x < round s /\ released (pc s' x) = true /\ pc s u <> pc s x.
Proof. exact woken_after_nth_arrival. Qed.
Print Assumptions C08_woken_after_nth_arrival.
Theorem C08_return_after_nth_arrival : forall n0 tr s t r s',
  1 <= n0 -> run (init n0) tr = Some s -> step s (EEnd t r) = Some s' ->
  pc s t <> Done (* not the tasklet error / reinit *) -> entered s t < round s.
Proof. exact return_after_nth_arrival. Qed.
Print Assumptions C08_return_after_nth_arrival.

(* [round] really counts n-th arrivals: it changes only at the counter++ that makes
   counter = num_waiters, taken under the lock, when num_waiters distinct callers
   (the list [cur]) have been counted in this round. *)
Theorem C08_round_is_nth_arrival : forall s e s', Inv s -> step s e = Some s' ->
  round s' = round s \/
  (exists t, e = EData t 1 (n s) /\ pc s t = W1 /\ lock s = Some t /\ S (counter s) = n s /\
             round s' = S (round s) /\ counter s' = n s /\ n s' = n s /\
             length (cur s') = n s /\ NoDup (cur s') /\ In t (cur s') /\
             forall x, In x (cur s') -> entered s' x = round s).
Proof. exact round_changes_only_at_nth_arrival. Qed.
Print Assumptions C08_round_is_nth_arrival.
Theorem C08_invariant_reachable : forall n0 tr s, 1 <= n0 -> run (init n0) tr = Some s -> Inv s.
Proof. exact inv_reachable. Qed.
Print Assumptions C08_invariant_reachable.

(* ---------------- everybody is released by the n-th arrival ---------------- *)
(* When the last arrival resets the counter (after its broadcast) nobody is blocked, the
   wait list is empty, the counter is 0; the round it closes had exactly num_waiters
   distinct callers and none of them is still blocked. *)
Theorem C08_all_released : forall n0 tr s u s',
  1 <= n0 -> run (init n0) tr = Some s -> step s (EData u 1 0) = Some s' ->
  counter s' = 0 /\ bwl s' = [] /\ cur s' = [] /\ (forall x, blocked (pc s' x) = false) /\
  length (cur s) = n s /\ NoDup (cur s) /\
  (forall x, In x (cur s) -> blocked (pc s x) = false /\ S (entered s x) = round s).
Proof. exact reset_leaves_nobody_blocked. Qed.
Print Assumptions C08_all_released.

(* The broadcast cannot stop before the list is empty and is never stuck. *)
Theorem C08_broadcast_reaches_everybody : forall n0 tr s u y rest,
  1 <= n0 -> run (init n0) tr = Some s ->
  lock s = Some u -> (pc s u = WB0 \/ pc s u = WB1) -> bwl s = y :: rest ->
  step s (EWake u y) <> None /\ step s (EBcast u) = None.
Proof. exact broadcast_reaches_everybody. Qed.
Print Assumptions C08_broadcast_reaches_everybody.

(* ---------------- rounds are disjoint ---------------- *)
(* Whenever the lock is free: length bwl = counter < num_waiters, the wait list is exactly
   the list of callers counted in the current round, and all of them entered this round. *)
Theorem C08_rounds_disjoint : forall n0 tr s,
  1 <= n0 -> run (init n0) tr = Some s -> lock s = None ->
  bwl s = cur s /\ length (bwl s) = counter s /\ counter s < n s /\
  (forall x, blocked (pc s x) = true -> In x (bwl s) /\ entered s x = round s) /\
  (forall x, In x (bwl s) -> blocked (pc s x) = true).
Proof. exact lock_free_state. Qed.
Print Assumptions C08_rounds_disjoint.

(* A (re-)entering caller is counted in the round current at its counter++, which is strictly
   later than the round of every caller that has been released and is still returning. *)
Theorem C08_reentry_counts_in_next_round : forall n0 tr s t v s',
  1 <= n0 -> run (init n0) tr = Some s -> pc s t = W1 -> step s (EData t 1 v) = Some s' ->
  v = S (counter s) /\ counter s < n s /\ entered s' t = round s /\
  (forall x, released (pc s x) = true -> entered s x < entered s' t) /\
  (forall x, blocked (pc s x) = true -> entered s x = entered s' t).
Proof. exact arrival_counted_in_current_round. Qed.
Print Assumptions C08_reentry_counts_in_next_round.

Theorem C08_counter_assert_holds : forall n0 tr s t,
  1 <= n0 -> run (init n0) tr = Some s -> pc s t = W1 -> counter s < n s.
Proof. exact counter_assert_holds. Qed.
Print Assumptions C08_counter_assert_holds.
Theorem C08_lock_exclusive : forall n0 tr s t1 t2,
  1 <= n0 -> run (init n0) tr = Some s -> inl (pc s t1) = true -> inl (pc s t2) = true -> t1 = t2.
Proof. exact lock_exclusive. Qed.
Print Assumptions C08_lock_exclusive.

(* ---------------- tasklets, reinit ---------------- *)
Theorem C08_tasklet_wait_is_error : forall s t s', step s (EBegin t (OWait KT)) = Some s' ->
  ret s' t = ERR_BARRIER /\ pc s' t = Done /\
  lock s' = lock s /\ n s' = n s /\ counter s' = counter s /\ bwl s' = bwl s /\ round s' = round s /\ cur s' = cur s.
Proof. exact tasklet_wait_is_error. Qed.
Print Assumptions C08_tasklet_wait_is_error.
Theorem C08_reinit_only_when_idle : forall s t v s', step s (EData t 2 v) = Some s' ->
  lock s = None /\ counter s = 0 /\ v = arg s t /\ n s' = v /\
  lock s' = lock s /\ counter s' = 0 /\ bwl s' = bwl s /\ round s' = round s /\ cur s' = cur s.
Proof. exact reinit_store. Qed.
Print Assumptions C08_reinit_only_when_idle.

(* ---------------- non-vacuity ---------------- *)
(* A recorded history of the real library (3 waiters: ULTs 0 and 1, external thread 2, tasklet 3;
   two rounds with num_waiters = 3, reinit to 2, one more round) is a run of the LTS. *)
Definition hist_round1 : list ev :=
  [EBegin 1 (OWait KU); EAcq 1; EData 1 1 1; EEnq 1 true; ERel;
   EBegin 3 (OWait KT); EEnd 3 46%Z;
   EBegin 0 (OWait KU); EAcq 0; EData 0 1 2; EEnq 0 true; ERel;
   EBegin 2 (OWait KE); EAcq 2; EData 2 1 3; EWake 2 1].
Definition hist_round1b : list ev := [EWake 2 0; EBcast 2; EEnd 1 0%Z].
Definition hist_round2a : list ev :=
  [EData 2 1 0; EBegin 1 (OWait KU); ERel; EAcq 1; EData 1 1 1; EEnq 1 true; ERel].
Definition hist_rest : list ev :=
  [EEnd 2 0%Z; EBegin 2 (OWait KE); EAcq 2; EEnd 0 0%Z; EData 2 1 2; EBegin 0 (OWait KU); EEnq 2 false; ERel;
   EAcq 0; EData 0 1 3; EWake 0 1; EWake 0 2; EEnd 1 0%Z; EBcast 0; EData 0 1 0; ERel; EEnd 0 0%Z; EEnd 2 0%Z;
   EBegin 0 (OReinit 2); EData 0 2 2; EEnd 0 0%Z;
   EBegin 0 (OWait KU); EAcq 0; EData 0 1 1; EEnq 0 true; EBegin 1 (OWait KU); ERel; EAcq 1; EData 1 1 2;
   EWake 1 0; EBcast 1; EData 1 1 0; ERel; EEnd 1 0%Z; EEnd 0 0%Z].

Example C08_example_history :
  exists s, run (init 3) (hist_round1 ++ hist_round1b ++ hist_round2a ++ hist_rest) = Some s
    /\ lock s = None /\ counter s = 0 /\ bwl s = [] /\ n s = 2 /\ round s = 3 /\ pc s 0 = Idle /\ pc s 2 = Idle.
Proof. eexists. vm_compute. repeat split. Qed.

(* no_early_release: in the middle of the first broadcast caller 1 is released (entered round 0, round = 1)
   while caller 0 of the same round is still blocked in the list *)
Example C08_example_released :
  exists s, run (init 3) hist_round1 = Some s
    /\ released (pc s 1) = true /\ entered s 1 = 0 /\ round s = 1
    /\ blocked (pc s 0) = true /\ entered s 0 = 0 /\ bwl s = [0] /\ counter s = 3.
Proof. eexists. vm_compute. repeat split. Qed.

(* all_released: the reset step of the first round is enabled in a reachable state *)
Example C08_example_reset :
  exists s s', run (init 3) (hist_round1 ++ hist_round1b) = Some s /\ step s (EData 2 1 0) = Some s'
    /\ cur s = [1; 0; 2] /\ pc s 1 = Idle /\ pc s 0 = UR /\ counter s' = 0.
Proof. eexists. eexists. vm_compute. repeat split. Qed.

(* rounds_disjoint: caller 1 has re-entered and is queued for round 1 (lock free, counter = 1 = length bwl)
   while callers 0 and 2 of round 0 have been released but have not returned yet *)
Example C08_example_reentry :
  exists s, run (init 3) (hist_round1 ++ hist_round1b ++ hist_round2a) = Some s
    /\ lock s = None /\ bwl s = [1] /\ counter s = 1 /\ entered s 1 = 1 /\ round s = 1
    /\ pc s 0 = UR /\ entered s 0 = 0 /\ pc s 2 = DoneW /\ entered s 2 = 0.
Proof. eexists. vm_compute. repeat split. Qed.

(* num_waiters = 1: the caller is its own last arrival; the broadcast on the empty list logs nothing *)
Example C08_example_n1 :
  exists s, run (init 1) [EBegin 5 (OWait KE); EAcq 5; EData 5 1 1; EData 5 1 0; ERel; EEnd 5 0%Z;
                          EBegin 5 (OWait KE); EAcq 5; EData 5 1 1; EData 5 1 0; ERel; EEnd 5 0%Z] = Some s
    /\ round s = 2 /\ counter s = 0 /\ lock s = None.
Proof. eexists. vm_compute. repeat split. Qed.

(* external waiter: futex wake-up without READY (re-acquire, sleep again), and READY noticed under the lock *)
Example C08_example_external_loop :
  exists s, run (init 2) [EBegin 7 (OWait KE); EAcq 7; EData 7 1 1; EEnq 7 false; ERel; EAcq 7; ERel;
                          EBegin 8 (OWait KU); EAcq 8; EData 8 1 2; EWake 8 7; EBcast 8; EData 8 1 0; ERel;
                          EAcq 7; ERel; EEnd 7 0%Z; EEnd 8 0%Z] = Some s
    /\ round s = 1 /\ pc s 7 = Idle /\ pc s 8 = Idle.
Proof. eexists. vm_compute. repeat split. Qed.

(* what the model rejects: the three DESIGN mutants, as histories *)
Example C08_rejects_reset_after_unlock :
  run (init 1) [EBegin 5 (OWait KE); EAcq 5; EData 5 1 1; ERel] = None.
Proof. reflexivity. Qed.
Example C08_rejects_last_arrival_waiting :   (* `<=` for `<` *)
  run (init 1) [EBegin 5 (OWait KE); EAcq 5; EData 5 1 1; EEnq 5 false] = None.
Proof. reflexivity. Qed.
Example C08_rejects_broadcast_before_increment :
  run (init 2) [EBegin 1 (OWait KU); EAcq 1; EData 1 1 1; EEnq 1 true; ERel;
                EBegin 2 (OWait KU); EAcq 2; EWake 2 1] = None.
Proof. reflexivity. Qed.
