(* C20 — Configuration objects are exact maps; textual settings parse exactly
   and safely.  Only statements here; proofs live in Cfg/*Proofs.v. *)
From Coq Require Import List ZArith Bool.
From ABT Require Import Cfg.Hashtable Cfg.HashtableProofs Cfg.Atoi Cfg.AtoiProofs.
Import ListNotations.
Local Open Scope Z_scope.

(* The bucket index computed with C's truncating % and the negative fix-up is
   the mathematical modulus, hence always a valid array index. *)
Theorem C20_index_in_bounds : forall n key, 0 < n ->
  ht_index n key = key mod n /\ 0 <= ht_index n key < n.
Proof. intros; split; [apply ht_index_mod|apply ht_index_range]; assumption. Qed.
Print Assumptions C20_index_in_bounds.

(* Any sequence of set / delete / get / read on a config object created with
   any table size n > 0 and any creation argument list returns, operation by
   operation, what a total finite map Z -> option (type, value) returns;
   negative and colliding keys included (keys are arbitrary integers). *)
Theorem C20_config_map : forall (n : nat) (l : list (Z * Z * Z)) (ops : list cop),
  (0 < n)%nat ->
  match ccreate n l, screate_from (fun _ => None) l with
  | Some t, Some m => snd (crun t ops) = snd (srun m ops)
  | None, None => True
  | _, _ => False
  end.
Proof.
  intros n l ops Hn.
  pose proof (ccreate_refines l _ _ (rep_create n Hn)) as H. unfold ccreate.
  destruct (ccreate_from (ht_create n) l), (screate_from (fun _ => None) l); auto.
  apply crun_refines; assumption.
Qed.
Print Assumptions C20_config_map.

(* non-vacuity: a colliding, negative-key history on the 8-entry table *)
Example C20_config_map_example :
  snd (crun (ht_create 8) [CSet (-9) 0 5; CSet 7 1 6; CSet (-1) 2 7; CDel (-9); CGet 7; CGet (-1); CGet (-9)])
  = [RCode 0; RCode 0; RCode 0; RCode 0; RGot 1 6; RGot 2 7; RCode 53].
Proof. vm_compute. reflexivity. Qed.

(* atoi_impl = "ws* sign* digit+" with the value saturated at 2^64-1; every
   uint64 operation of the C code is modelled with an explicit wrap, so the
   equality with the mathematical value shows that none wraps. *)
Theorem C20_atoi_value : forall s,
  atoi_impl s = match spec_parse s with
                | None => AErr
                | Some (neg, n) => if n <=? U64MAX then AOk neg n false
                                   else AOk neg U64MAX true
                end.
Proof. exact atoi_impl_spec. Qed.
Print Assumptions C20_atoi_value.

Theorem C20_atoi_int    : forall s, atoi_int  s = spec_typed INT_MIN INT_MAX s.
Proof. exact atoi_int_spec. Qed.
Print Assumptions C20_atoi_int.
Theorem C20_atoi_uint32 : forall s, atoi_ui32 s = spec_typed 0 U32MAX s.
Proof. exact atoi_ui32_spec. Qed.
Print Assumptions C20_atoi_uint32.
Theorem C20_atoi_uint64 : forall s, atoi_ui64 s = spec_typed 0 U64MAX s.
Proof. exact atoi_ui64_spec. Qed.
Print Assumptions C20_atoi_uint64.

Theorem C20_atoi_stops_at_nul : forall s1 s2, atoi_impl (s1 ++ 0 :: s2) = atoi_impl s1.
Proof. intros; apply loop_stops_at_nul. Qed.
Print Assumptions C20_atoi_stops_at_nul.

Example C20_atoi_example :
  atoi_int [32; 45; 45; 43; 45; 49; 50; 51; 52; 97; 45] = Some (-1234, false) /\
  atoi_int [50;49;52;55;52;56;51;54;52;56] = Some (2147483647, true) /\
  atoi_ui64 [49;56;52;52;54;55;52;52;48;55;51;55;48;57;53;53;49;54;49;54] = Some (U64MAX, true).
Proof. vm_compute. repeat split; reflexivity. Qed.
