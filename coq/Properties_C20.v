(* C20 — Configuration objects are exact maps; textual settings parse exactly
   and safely.  Only statements here; proofs live in Cfg/*Proofs.v. *)
From Coq Require Import List ZArith Bool.
From ABT Require Import Cfg.Hashtable Cfg.HashtableProofs Cfg.Atoi Cfg.AtoiProofs.
From ABT Require Import Cfg.Affinity Cfg.AffinityProofs Cfg.EnvClamp Cfg.EnvClampProofs.
Import ListNotations.
Local Open Scope Z_scope.

(* The bucket index computed with C's truncating % and the negative fix-up is
   the mathematical modulus, hence always a valid array index. *)
Theorem C20_index_in_bounds : forall n key, 0 < n ->
  ht_index n key = key mod n /\ 0 <= ht_index n key < n.
Proof. intros; split; [apply ht_index_mod|apply ht_index_range]; assumption. Qed.
Print Assumptions C20_index_in_bounds.

(* Any sequence of set / delete / get / read on a config object created with
   any table size n > 0 and any creation argument list returns, operation by
   operation, what a total finite map Z -> option (type, value) returns;
   negative and colliding keys included (keys are arbitrary integers). *)
Theorem C20_config_map : forall (n : nat) (l : list (Z * Z * Z)) (ops : list cop),
  (0 < n)%nat ->
  match ccreate n l, screate_from (fun _ => None) l with
  | Some t, Some m => snd (crun t ops) = snd (srun m ops)
  | None, None => True
  | _, _ => False
  end.
Proof.
  intros n l ops Hn.
  pose proof (ccreate_refines l _ _ (rep_create n Hn)) as H. unfold ccreate.
  destruct (ccreate_from (ht_create n) l), (screate_from (fun _ => None) l); auto.
  apply crun_refines; assumption.
Qed.
Print Assumptions C20_config_map.

(* non-vacuity: a colliding, negative-key history on the 8-entry table *)
Example C20_config_map_example :
  snd (crun (ht_create 8) [CSet (-9) 0 5; CSet 7 1 6; CSet (-1) 2 7; CDel (-9); CGet 7; CGet (-1); CGet (-9)])
  = [RCode 0; RCode 0; RCode 0; RCode 0; RGot 1 6; RGot 2 7; RCode 53].
Proof. vm_compute. reflexivity. Qed.

(* atoi_impl = "ws* sign* digit+" with the value saturated at 2^64-1; every
   uint64 operation of the C code is modelled with an explicit wrap, so the
   equality with the mathematical value shows that none wraps. *)
Theorem C20_atoi_value : forall s,
  atoi_impl s = match spec_parse s with
                | None => AErr
                | Some (neg, n) => if n <=? U64MAX then AOk neg n false
                                   else AOk neg U64MAX true
                end.
Proof. exact atoi_impl_spec. Qed.
Print Assumptions C20_atoi_value.

Theorem C20_atoi_int    : forall s, atoi_int  s = spec_typed INT_MIN INT_MAX s.
Proof. exact atoi_int_spec. Qed.
Print Assumptions C20_atoi_int.
Theorem C20_atoi_uint32 : forall s, atoi_ui32 s = spec_typed 0 U32MAX s.
Proof. exact atoi_ui32_spec. Qed.
Print Assumptions C20_atoi_uint32.
Theorem C20_atoi_uint64 : forall s, atoi_ui64 s = spec_typed 0 U64MAX s.
Proof. exact atoi_ui64_spec. Qed.
Print Assumptions C20_atoi_uint64.

Theorem C20_atoi_stops_at_nul : forall s1 s2, atoi_impl (s1 ++ 0 :: s2) = atoi_impl s1.
Proof. intros; apply loop_stops_at_nul. Qed.
Print Assumptions C20_atoi_stops_at_nul.

Example C20_atoi_example :
  atoi_int [32; 45; 45; 43; 45; 49; 50; 51; 52; 97; 45] = Some (-1234, false) /\
  atoi_int [50;49;52;55;52;56;51;54;52;56] = Some (2147483647, true) /\
  atoi_ui64 [49;56;52;52;54;55;52;52;48;55;51;55;48;57;53;53;49;54;49;54] = Some (U64MAX, true).
Proof. vm_compute. repeat split; reflexivity. Qed.

(* ================================================================== *)
(* ABT_SET_AFFINITY parser (src/arch/abtd_affinity_parser.c).
   [affinity_list_create] is ABTD_affinity_list_create with the two-line fix of
   finding F3 (fixes/F3-consume-int-overflow.patch); [affinity_list_create_buggy]
   is the code as it stands.  A string is a list of character codes;
   [cstring s] is its prefix before the first NUL.  Results: Ok lists | Fail
   (ABT_ERR_OTHER) | Oob (a read beyond the terminating NUL) | OutOfFuel |
   IntOvf (a signed int operation overflowed). *)

(* Every index read is at most the position of the terminating NUL, and the
   fuel (length + 1 per loop) is never exhausted -- for the fixed code and for
   the code as it stands (where IntOvf = undefined behaviour ends the run). *)
Theorem C20_affinity_memory_safe : forall s,
  affinity_list_create (Some s) <> Oob /\ affinity_list_create (Some s) <> OutOfFuel /\
  affinity_list_create_buggy (Some s) <> Oob /\ affinity_list_create_buggy (Some s) <> OutOfFuel.
Proof. exact affinity_memory_safe. Qed.
Print Assumptions C20_affinity_memory_safe.

(* accepted => the string is in the documented grammar (white space explicit),
   and the result is the documented expansion, each id taken modulo 2^32 into
   the range of int (the C code computes id + stride * i in uint32_t) *)
Theorem C20_affinity_sound : forall s lists,
  affinity_list_create (Some s) = Ok lists ->
  exists v, G_affinity (cstring s) v /\ lists = map (map wrap32) v.
Proof. intros s lists. apply affinity_accepts_iff. Qed.
Print Assumptions C20_affinity_sound.

(* every string of the grammar is accepted, with that result *)
Theorem C20_affinity_complete : forall s v,
  G_affinity (cstring s) v -> affinity_list_create (Some s) = Ok (map (map wrap32) v).
Proof. exact affinity_complete. Qed.
Print Assumptions C20_affinity_complete.

(* the values carried by the grammar are the documented formulas
     <id-interval>:  id, id + stride, ..., id + stride * (num - 1)
     <interval>:     L, {L[0] + stride, L[1] + stride, ...}, ..., {L[0] + stride * (num - 1), ...}
   and when every documented id fits an int the parser returns exactly them *)
Theorem C20_affinity_expand :
  (forall id num stride,
     expand_ids id num stride = map (fun i => id + stride * Z.of_nat i) (seq 0 (Z.to_nat num))) /\
  (forall base num stride,
     expand_lists base num stride =
     map (fun i => map (fun x => x + stride * Z.of_nat i) base) (seq 0 (Z.to_nat num))) /\
  (forall s v, G_affinity (cstring s) v ->
     Forall (Forall (fun x => AF_INT_MIN <= x <= AF_INT_MAX)) v ->
     affinity_list_create (Some s) = Ok v).
Proof.
  split; [reflexivity|]. split; [reflexivity|].
  intros s v G Hfit. rewrite (affinity_complete s v G). f_equal.
  rewrite <- (map_id v) at 2. apply map_ext_Forall. eapply Forall_impl; [|exact Hfit].
  intros ids Hids. cbn. rewrite <- (map_id ids) at 2. apply map_ext_Forall.
  eapply Forall_impl; [|exact Hids]. intros x Hx. now apply wrap32_small.
Qed.
Print Assumptions C20_affinity_expand.

(* no signed int operation of the fixed code overflows, on any input *)
Theorem C20_affinity_no_overflow : forall s, affinity_list_create s <> IntOvf.
Proof. exact affinity_no_overflow. Qed.
Print Assumptions C20_affinity_no_overflow.

(* FINDING F3: the code as it stands does overflow: "99999999999" and "-2147483648" *)
Theorem C20_affinity_no_overflow_refuted :
  affinity_list_create_buggy (Some [57;57;57;57;57;57;57;57;57;57;57]) = IntOvf /\
  affinity_list_create_buggy (Some [45;50;49;52;55;52;56;51;54;52;56]) = IntOvf.
Proof. exact affinity_no_overflow_refuted. Qed.
Print Assumptions C20_affinity_no_overflow_refuted.

(* the fix changes the behaviour only on inputs where the code as it stands overflows *)
Theorem C20_affinity_fix_conservative : forall s,
  affinity_list_create_buggy s = IntOvf \/ affinity_list_create_buggy s = affinity_list_create s.
Proof. exact affinity_fix_conservative. Qed.
Print Assumptions C20_affinity_fix_conservative.

(* allocation sizes: at most length * (MAX_NUM_ELEMS - 1) id lists, each of at most that
   many ids; for strings of up to 4096 characters the uint32_t counters cannot wrap *)
Theorem C20_affinity_alloc_bounded : forall s lists,
  affinity_list_create (Some s) = Ok lists ->
  len lists <= len (cstring s) * KMAX /\
  Forall (fun ids => len ids <= len (cstring s) * KMAX) lists /\
  (len (cstring s) <= 4096 ->
   len lists < 4294967296 /\ Forall (fun ids => len ids < 4294967296) lists).
Proof. exact affinity_alloc_bounded. Qed.
Print Assumptions C20_affinity_alloc_bounded.

(* non-vacuity: "{1:2:3}:3:-2,1" with blanks, "0:3:4", a wrap-around, NULL, junk *)
Example C20_affinity_example :
  affinity_list_create (Some [32;123;49;58;50;58;51;125;58;51;58;45;50;32;44;49;10])
    = Ok [[1; 4]; [-1; 2]; [-3; 0]; [1]] /\
  (exists v, G_affinity [48;58;51;58;52] v /\ map (map wrap32) v = [[0]; [4]; [8]]) /\
  affinity_list_create (Some [50;49;52;55;52;56;51;54;52;55;58;50]) = Ok [[2147483647]; [-2147483648]] /\
  affinity_list_create None = Fail /\
  affinity_list_create (Some [49;58;50;58]) = Fail /\
  affinity_list_create (Some [57;57;57;57;57;57;57;57;57;57;57]) = Fail.
Proof.
  split; [vm_compute; reflexivity|]. split.
  - destruct (C20_affinity_sound [48;58;51;58;52] [[0]; [4]; [8]] ltac:(vm_compute; reflexivity)) as (v & G & E).
    exists v. split; [exact G|now symmetry].
  - repeat split; vm_compute; reflexivity.
Qed.

(* ================================================================== *)
(* Numeric settings of ABTD_env_init (src/arch/abtd_env.c).  [c_env_init nc pg e]
   = the fields written by ABTD_env_init when sysconf reports nc cores, the page
   size is pg and the ABT_* / ABT_ENV_* variables are e; every unsigned C
   operation wraps explicitly (wrapu).  [z_env_init] is the same computation in
   exact integers. *)

(* for EVERY environment (any strings) every setting lies in its documented
   range with its documented rounding *)
Theorem C20_env_clamped : forall nc pg e,
  let s := c_env_init nc pg e in
  1 <= max_xstreams s <= ENV_INT_MAX /\
  (is_pow2 (key_table_size s) /\ 1 <= key_table_size s <= 2 ^ 31) /\
  (is_pow2 (sys_page_size s) /\ 64 <= sys_page_size s <= 2 ^ 63) /\
  ((64 | thread_stacksize s) /\ 512 <= thread_stacksize s <= 2 ^ 63) /\
  ((64 | sched_stacksize s) /\ 512 <= sched_stacksize s <= 2 ^ 63) /\
  1 <= sched_event_freq s <= ENV_UINT32_MAX /\
  0 <= sched_sleep_nsec s <= ENV_UINT64_MAX /\
  1 <= mutex_max_handovers s <= ENV_UINT32_MAX /\
  1 <= mutex_max_wakeups s <= ENV_UINT32_MAX /\
  4096 <= huge_page_size s <= ENV_SIZE_MAX /\
  (is_pow2 (mem_page_size s) /\ 4096 <= mem_page_size s <= 2 ^ 63) /\
  ((64 | mem_sp_size s) /\ 0 <= mem_sp_size s < 2 ^ 64 /\
   (thread_stacksize s <= 2 ^ 61 - 64 -> thread_stacksize s * 4 <= mem_sp_size s <= 2 ^ 63)) /\
  ((2 | mem_max_stacks s) /\ 2 <= mem_max_stacks s <= 2 ^ 31) /\
  ((2 | mem_max_descs s) /\ 2 <= mem_max_descs s <= 2 ^ 31).
Proof. exact env_clamped. Qed.
Print Assumptions C20_env_clamped.

(* the rounding is the least power of two / least multiple above the clamped value, and the
   clamped value is the saturated parse of AtoiProofs.v or the default *)
Theorem C20_env_rounding : forall nc pg e,
  let s := c_env_init nc pg e in
  key_table_size s = 2 ^ Z.log2_up (load_env_uint32 (get_abt_env e KEY_TABLE_SIZE) 4 1 ENV_UINT32_MAX) /\
  sys_page_size s = 2 ^ Z.log2_up (load_env_size (get_abt_env e SYS_PAGE_SIZE) pg 64 ENV_SIZE_MAX) /\
  mem_page_size s =
    2 ^ Z.log2_up (64 * ((load_env_size (get_abt_env e MEM_PAGE_SIZE) 2097152 4096 ENV_SIZE_MAX + 63) / 64)) /\
  mem_max_descs s = 2 * ((load_env_uint32 (get_abt_env e MEM_MAX_NUM_DESCS) 4096 2 ENV_UINT32_MAX + 1) / 2).
Proof. exact env_rounding. Qed.
Print Assumptions C20_env_rounding.

Theorem C20_env_load_is_clamp : forall env d lo hi,
  load_env_size env d lo hi =
  match env with
  | None => clampz lo hi d
  | Some s => match spec_typed 0 U64MAX s with
              | None => clampz lo hi d
              | Some (v, _) => clampz lo hi v
              end
  end.
Proof. exact load_env_size_spec. Qed.
Print Assumptions C20_env_load_is_clamp.

(* no intermediate overflow: when the system page size is at most 2^62 (or no mprotect
   guard is requested) and the ULT stack size is below 2^62, no unsigned operation wraps *)
Theorem C20_env_no_overflow : forall nc pg e,
  (fst (env_get_stack_guard_mprotect e) = true -> sys_page_size (c_env_init nc pg e) <= 2 ^ 62) ->
  thread_stacksize (c_env_init nc pg e) < 2 ^ 62 ->
  c_env_init nc pg e = z_env_init nc pg e.
Proof. exact env_no_overflow. Qed.
Print Assumptions C20_env_no_overflow.

(* the two places where it can wrap (both need absurd values):
   ABT_THREAD_STACKSIZE=2^62: `thread_stacksize * 4` wraps to 0 and the lower bound of
   ABT_MEM_STACK_PAGE_SIZE is lost (mem_sp_size 8 MB < 4 * thread_stacksize);
   ABT_STACK_OVERFLOW_CHECK=mprotect with ABT_SYS_PAGE_SIZE=2^63: `sys_page_size * 2`
   wraps to 0 and the default stack size is not enlarged. *)
Example C20_env_overflow_witness :
  let e1 := [(false, THREAD_STACKSIZE, [52;54;49;49;54;56;54;48;49;56;52;50;55;51;56;55;57;48;52])] in
  let e2 := [(false, STACK_OVERFLOW_CHECK, [109;112;114;111;116;101;99;116]);
             (false, SYS_PAGE_SIZE, [57;50;50;51;51;55;50;48;51;54;56;53;52;55;55;53;56;48;56])] in
  thread_stacksize (c_env_init 16 4096 e1) = 4611686018427387904 /\
  mem_sp_size (c_env_init 16 4096 e1) = 8388608 /\
  mem_sp_size (c_env_init 16 4096 e1) < 4 * thread_stacksize (c_env_init 16 4096 e1) /\
  sys_page_size (c_env_init 16 4096 e2) = 9223372036854775808 /\
  thread_stacksize (c_env_init 16 4096 e2) = 16384 /\
  thread_stacksize (z_env_init 16 4096 e2) = 9223372036854775808.
Proof. vm_compute. repeat split; reflexivity. Qed.

(* non-vacuity: defaults, and a mixed environment (ABT_ENV_ alias, junk suffix, negative, huge) *)
Example C20_env_example :
  let e := [(true, KEY_TABLE_SIZE, [53]);                                    (* ABT_ENV_KEY_TABLE_SIZE=5 *)
            (false, THREAD_STACKSIZE, [50;48;48;48;56;120]);                 (* 20008x *)
            (false, MAX_NUM_XSTREAMS, [45;51]);                              (* -3 *)
            (false, MEM_MAX_NUM_DESCS, [57;57;57;57;57;57;57;57;57;57;57])]  (* 99999999999 *) in
  let s := c_env_init 16 4096 e in
  key_table_size s = 8 /\ thread_stacksize s = 20032 /\ max_xstreams s = 1 /\
  mem_max_descs s = 2147483648 /\ mem_sp_size s = 8388608 /\ mem_max_stacks s = 1024 /\
  c_env_init 16 4096 e = z_env_init 16 4096 e /\
  thread_stacksize (c_env_init 16 4096 []) = 16384.
Proof. vm_compute. repeat split; reflexivity. Qed.
