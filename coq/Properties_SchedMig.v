(* C13 — migration on the scheduler LTS (Conc/Sched.v): statements only. *)
From Coq Require Import List Arith ZArith Bool.
From ABT Require Import Conc.Sched Conc.SchedDefs Conc.SchedMig.
Import ListNotations.

(* the request bit is set only after a target was stored *)
Theorem C13_request_needs_target : forall s u ex j c m w s',
  step s (EReqOr u 2 ex j c m w) = Some s' -> exists p, migt (un s u) = Some p /\ rmig (un s' u) = true.
Proof. exact request_needs_target. Qed.
Print Assumptions C13_request_needs_target.

(* handling: the target that is read is the stored one ... *)
Theorem C13_handler_reads_stored_target : forall s u p s', step s (EMigLd u p) = Some s' ->
  migs (un s u) = 1 /\ migt (un s u) = Some p /\ migs (un s' u) = 2 /\ upool (un s' u) = upool (un s u).
Proof. exact mig_load_step. Qed.
Print Assumptions C13_handler_reads_stored_target.

(* ... the unit becomes associated with exactly that pool ... *)
Theorem C13_next_run_via_target : forall s u p k s', step s (ESetPool u p) = Some s' -> migs (un s u) = 2 ->
  ust (un s u) = UCbS k 1 -> migt (un s u) = Some p /\ upool (un s' u) = p /\ migs (un s' u) = 3.
Proof. exact mig_setpool_step. Qed.
Print Assumptions C13_next_run_via_target.

(* ... the callback is invoked only between the pool change and the clearing of the request (once per handled request) ... *)
Theorem C13_callback_per_migration : forall s u s', step s (EMigCb u) = Some s' -> migs (un s u) = 3 /\ s' = s.
Proof. exact mig_callback_step. Qed.
Print Assumptions C13_callback_per_migration.

(* ... and clearing the request ends the handling without touching the pool *)
Theorem C13_request_cleared_last : forall s u s', step s (EReqAnd u 2) = Some s' ->
  migs (un s u) = 3 /\ migs (un s' u) = 0 /\ rmig (un s' u) = false /\ upool (un s' u) = upool (un s u).
Proof. exact mig_clear_step. Qed.
Print Assumptions C13_request_cleared_last.

(* "Every acknowledged request is performed or superseded by a later performed one" is FALSE of the
   faithful model (finding F6): witness run, replayed on the implementation by the scenario family gen_f6. *)
Theorem C13_second_request_lost_refuted :
  exists s, run init f6_trace = Some s /\
            upool (un s 1) = 1 /\ rmig (un s 1) = false /\ migt (un s 1) = Some 2 /\ migs (un s 1) = 0 /\
            ust (un s 1) = UQueued.
Proof. exact second_request_lost_refuted. Qed.
Print Assumptions C13_second_request_lost_refuted.
