From Coq Require Import List ZArith Bool.
From Coq Require Import ExtrOcamlBasic.
From ABT Require Import Conc.Sched Conc.SchedStop.
Extraction Language OCaml.
Extraction "../ocaml/extracted/sched.ml"
  Z.add Z.mul Z.opp Z.sub Z.div Z.modulo Z.eqb Z.of_nat
  Sched.step Sched.init Sched.run
  SchedStop.zero_then_empty SchedStop.unit_in_hands SchedStop.unit_done SchedStop.calm.
