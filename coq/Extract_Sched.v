From Coq Require Import List ZArith Bool.
From Coq Require Import ExtrOcamlBasic.
From ABT Require Import Conc.Sched.
Extraction Language OCaml.
Extraction "../ocaml/extracted/sched.ml"
  Z.add Z.mul Z.opp Z.sub Z.div Z.modulo Z.eqb Z.of_nat
  Sched.step Sched.init Sched.run.
