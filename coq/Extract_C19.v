(* Extraction of the executable C19 models (no proofs are imported here, so the
   correspondence check still runs when a proof is broken). *)
From Coq Require Import List ZArith Bool.
From Coq Require Import ExtrOcamlBasic.
From ABT Require Import DS.Waitlist Conc.PopWait.
Extraction Language OCaml.
Extraction "../ocaml/extracted/c19.ml"
  Z.add Z.sub Z.mul Z.opp Z.div Z.modulo Z.leb Z.ltb Z.eqb Z.compare Z.of_nat
  sys_init step settle wl_walk wl_is_empty spec_step spec_out
  pw_init pw_step wsteps wstep pw_result mkcfg.
