(* C18 -- the ladders of Argobots' creating / initialising routines, written
   by hand from the C sources (file:function cited at each definition), for
   the active configuration (memory pool on, aligned allocation: ABTU_malloc
   and ABTU_calloc are posix_memalign; 1.x API: output handles are set to the
   NULL handle on entry where the code does so).

   Conventions
   - a resource name ("pool", "sched", ...) is local to one routine; the size
     class ("pool", "=64", ...) is what the correspondence check compares with
     the byte count seen by the injector ("=n": literally n bytes, otherwise a
     name from the harness' sizeof table);
   - memory taken from a memory pool is not a ledger resource; a page the pool
     has to obtain from the OS is an acquisition owned by the runtime cache;
   - fields are fields of PRE-EXISTING objects only; the state of the object
     under construction is not modelled.  *)
From Coq Require Import List String ZArith Bool Arith.
From ABT Require Import Fault.Ladder.
Import ListNotations.
Local Open Scope string_scope.
Local Open Scope list_scope.

Definition ret : fail_action := ([], false).            (* ABTI_CHECK_ERROR: plain return *)
Definition cl (us : list undo) : fail_action := (us, false).  (* explicit clean-up, return *)
Definition gf : fail_action := ([], true).              (* goto FAILED *)
Definition mal (x sz : string) (onf : fail_action) : step :=
  SAcq x sz [KMemalign] [KMemalign] Own onf.            (* ABTU_malloc / ABTU_calloc *)
Definition umal (x sz : string) (onf : fail_action) : step :=
  SAcq x sz [KMalloc] [KMalloc] Own onf.                (* libc malloc (timer.c, user callbacks) *)
Definition R0 (body : list step) : routine := Routine body [].
Definition frees (xs : list string) : list undo := map UFree xs.

Definition digit (n : nat) : string :=
  match n with
  | 0 => "0" | 1 => "1" | 2 => "2" | 3 => "3" | 4 => "4"
  | 5 => "5" | 6 => "6" | 7 => "7" | 8 => "8" | _ => "9"
  end.

(* ------------------------------------------------------------------ pools *)
(* pool/fifo.c pool_init (pool/randws.c: same shape) *)
Definition pool_init_fifo : routine := R0 [mal "data" "=64" ret].
(* pool/fifo_wait.c pool_init *)
Definition pool_init_fifo_wait : routine :=
  R0 [mal "data" "=128" ret;
      SAcq "mutex" "=0" [KMutex] [KMutex] Own (cl [UFree "data"]);
      SAcq "cond" "=0" [KCond] [KCond] Own (cl [UFree "mutex"; UFree "data"])].
(* the harness' user-defined pool: p_init allocates its queue with malloc *)
Definition pool_init_user : routine := R0 [umal "data" "user_pool_data" ret].

(* pool/pool.c pool_create: ABTU_malloc(ABTI_pool); p_init fails -> ABTU_free(p_pool) *)
Definition pool_create (init : routine) : routine :=
  R0 [mal "pool" "pool" ret; SCall "data" init (cl [UFree "pool"])].
(* pool/pool.c ABTI_pool_create_basic *)
Definition ABTI_pool_create_basic (init : routine) : routine :=
  R0 [SCall "p" (pool_create init) ret].
(* pool/pool.c ABT_pool_create_basic / ABT_pool_create *)
Definition ABT_pool_create_x (init : routine) : routine :=
  R0 [SNullOut; SCall "p" (ABTI_pool_create_basic init) ret; SCommit].

(* -------------------------------------------------------------- schedulers *)
Inductive pspec :=
| PNull                          (* ABT_POOL_NULL: created here *)
| PGiven (f : option string).    (* given; Some f: num_scheds field of a pre-existing pool *)

(* sched/basic.c sched_init (basic_wait.c, prio.c, randws.c: same shape) *)
Definition sched_init_basic : routine :=
  R0 [mal "sdata" "=64" ret; mal "spools" "=64" (cl [UFree "sdata"])].
(* the harness' user-defined scheduler: init allocates 40 bytes with malloc *)
Definition sched_init_user : routine := R0 [umal "udata" "user_sched_data" ret].

Fixpoint sc_pools (ps : list pspec) (i : nat) (created : list string) (tail : list undo)
  : list step :=
  match ps with
  | [] => []
  | PNull :: ps' =>
      let nm := String.append "pool" (digit i) in
      SCall nm (ABTI_pool_create_basic pool_init_fifo) (cl (frees created ++ tail))
            :: sc_pools ps' (S i) (created ++ [nm]) tail
  | PGiven _ :: ps' => sc_pools ps' (S i) created tail
  end.
Fixpoint sc_retains (ps : list pspec) : list step :=
  match ps with
  | [] => []
  | PGiven (Some f) :: ps' => SAdd f 1 :: sc_retains ps'
  | _ :: ps' => sc_retains ps'
  end.
(* failure of init: created pools freed, given pools released (in index order) *)
Fixpoint sc_undo (ps : list pspec) (i : nat) : list undo :=
  match ps with
  | [] => []
  | PNull :: ps' => UFree (String.append "pool" (digit i)) :: sc_undo ps' (S i)
  | PGiven (Some f) :: ps' => UAdd f (-1) :: sc_undo ps' (S i)
  | PGiven None :: ps' => sc_undo ps' (S i)
  end.
(* sched/sched.c sched_create *)
Definition sched_create (ps : list pspec) (init : routine) : routine :=
  R0 ([mal "sched" "sched" ret; mal "pool_list" "=64" (cl [UFree "sched"])]
        ++ sc_pools ps 0 [] [UFree "pool_list"; UFree "sched"]
        ++ sc_retains ps
        ++ [SCall "data" init (cl (sc_undo ps 0 ++ [UFree "pool_list"; UFree "sched"]))]).

Fixpoint scb_pools (n i : nat) (pinit : routine) (created : list string) (tail : list undo)
  : list step :=
  match n with
  | 0 => []
  | S n' =>
      let nm := String.append "p" (digit i) in
      SCall nm (ABTI_pool_create_basic pinit) (cl (frees created ++ tail))
            :: scb_pools n' (S i) pinit (created ++ [nm]) tail
  end.
Fixpoint names (n i : nat) : list string :=
  match n with 0 => [] | S n' => (String.append "p" (digit i)) :: names n' (S i) end.

(* sched/sched.c ABTI_sched_create_basic, pools == NULL: n pools of one kind,
   then sched_create on them (all given; they are fresh, their counts are not
   fields of pre-existing objects) *)
Definition sched_create_basic_nopools (n : nat) (pinit : routine) : routine :=
  R0 (scb_pools n 0 pinit [] []
        ++ [SCall "sched" (sched_create (repeat (PGiven None) n) sched_init_basic)
                  (cl (frees (names n 0)))]).

Fixpoint scbp_pools (ps : list pspec) (i : nat) (created : list string) : list step :=
  match ps with
  | [] => []
  | PNull :: ps' =>
      let nm := String.append "p" (digit i) in
      SCall nm (ABTI_pool_create_basic pool_init_fifo) (cl (frees created ++ [UFree "tmp_list"]))
            :: scbp_pools ps' (S i) (created ++ [nm])
  | PGiven _ :: ps' => scbp_pools ps' (S i) created
  end.
Fixpoint scbp_created (ps : list pspec) (i : nat) : list string :=
  match ps with
  | [] => []
  | PNull :: ps' => (String.append "p" (digit i)) :: scbp_created ps' (S i)
  | PGiven _ :: ps' => scbp_created ps' (S i)
  end.
Definition all_given (ps : list pspec) : list pspec :=
  map (fun p => match p with PNull => PGiven None | g => g end) ps.
(* sched/sched.c ABTI_sched_create_basic, pools != NULL: temporary copy of the
   pool array, missing pools created, sched_create, temporary freed *)
Definition sched_create_basic_pools (ps : list pspec) : routine :=
  R0 ([mal "tmp_list" "=64" ret]
        ++ scbp_pools ps 0 []
        ++ [SCall "sched" (sched_create (all_given ps) sched_init_basic)
                  (cl (frees (scbp_created ps 0) ++ [UFree "tmp_list"]));
            SFree "tmp_list"]).

(* sched/sched.c ABT_sched_create_basic *)
Definition ABT_sched_create_basic_x (r : routine) : routine :=
  R0 [SNullOut; SCall "s" r ret; SCommit].
(* sched/sched.c ABT_sched_create (user definition, init allocates) *)
Definition ABT_sched_create_user (ps : list pspec) : routine :=
  R0 [SNullOut; SCall "s" (sched_create ps sched_init_user) ret; SCommit].

(* ------------------------------------------------------------ work units *)
Inductive ptype := PBuiltin | PUser.
(* the user pool's p_create_unit: malloc(sizeof(unit)) ; NULL -> ABT_ERR_OTHER *)
Definition user_unit : routine := R0 [umal "u" "user_unit" ret].

Record ycfg := mkY {
  y_mem : option string;   (* Some sz: descriptor+stack from ABTU_malloc (abti_mem.h
                              ABTI_mem_alloc_ythread_malloc_desc_stack); None: memory pool *)
  y_page : option string;  (* the memory pool needs a page from the OS (size class) *)
  y_cb : bool;             (* attribute with a migration callback: mig data + key table *)
  y_ktbig : bool;          (* key table too large for a pool descriptor: ABTU_malloc *)
  y_sched : option (string * bool); (* stackable scheduler: its `used` field, automatic? *)
  y_pool : ptype;
  y_push : option string   (* size field of the target pool when the unit is pushed *)
}.

(* include/abti_unit.h ABTI_thread_init_pool / ABTI_thread_set_associated_pool
   towards a user-defined pool: p_create_unit, then unit.c unit_map_thread
   (the map element stays in the global table: cache) *)
Definition assoc_user (undo_before : list undo) : list step :=
  [SCall "unit" user_unit (cl undo_before);
   SAcq "" "=64" [KMemalign] [KMemalign] Cache (cl (UFree "unit" :: undo_before))].

(* thread.c ythread_create *)
Definition ythread_create (c : ycfg) : routine :=
  let thr_free := match y_mem c with Some _ => [UFree "thread"] | None => [] end in
  let alloc :=
      match y_mem c with
      | Some sz => [mal "thread" sz ret]
      | None => match y_page c with
                | Some pg => [SAcq "" pg [KMmap; KMemalign] [KMemalign] Cache ret]
                | None => []
                end
      end in
  (* ABTI_ktable_create when the table does not fit a descriptor *)
  let kt_after_mig := if y_cb c then (if y_ktbig c then [UFree "mig"; UFree "ktable"] else [UFree "mig"])
                      else [] in
  let cb :=
      if y_cb c then
        mal "mig" "mig_data" (cl thr_free)
            :: (if y_ktbig c then [mal "ktable" "ktable_big" (cl (UFree "mig" :: thr_free))] else [])
      else [] in
  (* sched key: table created here if there is none yet; once the key is set,
     ABTI_ktable_free runs thread_key_destructor_stackable_sched *)
  let sk :=
      match y_sched c with
      | Some _ => if y_cb c then []
                  else if y_ktbig c then [mal "ktable" "ktable_big" (cl thr_free)] else []
      | None => []
      end in
  let kt_all :=
      match y_sched c with
      | Some (used, auto) =>
          (UAssign used 0 :: (if auto then [UFreePre "sched"] else []))
            ++ (if y_cb c then kt_after_mig else if y_ktbig c then [UFree "ktable"] else [])
      | None => kt_after_mig
      end in
  let pool :=
      match y_pool c with
      | PBuiltin => []
      | PUser => assoc_user (kt_all ++ thr_free)
      end in
  let push := match y_push c with Some f => [SAdd f 1] | None => [] end in
  R0 (alloc ++ cb ++ sk ++ pool ++ push).

Definition y_plain : ycfg := mkY None None false false None PBuiltin (Some "pool.size").
(* thread.c ABT_thread_create (newthread != NULL) *)
Definition ABT_thread_create_x (c : ycfg) : routine :=
  R0 [SNullOut; SCall "t" (ythread_create c) ret; SCommit].
(* thread.c ABT_thread_create_to: no NULL on entry; handle set before the switch *)
Definition ABT_thread_create_to_x (c : ycfg) : routine :=
  R0 [SCall "t" (ythread_create c) ret; SCommit].

(* task.c task_create: descriptor from the pool, then ABTI_thread_init_pool *)
Definition task_create (pg : option string) (p : ptype) : routine :=
  R0 (match pg with Some pgs => [SAcq "" pgs [KMmap; KMemalign] [KMemalign] Cache ret] | None => [] end
        ++ match p with PBuiltin => [] | PUser => assoc_user [] end
        ++ [SAdd "pool.size" 1]).
Definition ABT_task_create_x (pg : option string) (p : ptype) : routine :=
  R0 [SNullOut; SCall "t" (task_create pg p) ret; SCommit].

(* thread.c thread_revive / ABT_thread_revive[_to], ABT_task_revive,
   ABT_thread_set_associated_pool, ABT_pool_push_thread towards a user pool:
   the unit of a pre-existing work unit is replaced *)
Definition reassoc_user (push : bool) : routine :=
  R0 (assoc_user [] ++ [SAssign "thr.pool" 2] ++ (if push then [SAdd "pool.size" 1] else [])).

(* thread.c ABTI_thread_get_mig_data (via ABT_thread_migrate_to_pool,
   ABT_thread_set_callback): calloc, then ABTI_ktable_set on the unit's table *)
Definition get_mig_data (ktbig : bool) (req : bool) : routine :=
  R0 ([mal "mig" "mig_data" ret]
        ++ (if ktbig then [mal "ktable" "ktable_big" (cl [UFree "mig"])] else [])
        ++ (if req then [SAssign "thr.request" 1] else [])).
(* ABT_thread_set_specific / ABT_self_set_specific / ABT_key_set with a table
   that does not fit a descriptor (include/abti_key.h ABTI_ktable_create) *)
Definition ktable_set_big : routine :=
  R0 [mal "ktable" "ktable_big" ret; SAssign "thr.key0" 1].

(* ----------------------------------------------------------------- streams *)
(* arch/abtd_stream.c ABTD_xstream_context_create *)
Definition xstream_context_create : routine :=
  Routine [SAcq "mutex" "=0" [KMutex] [KMutex] Own gf; SStage 1;
           SAcq "cond" "=0" [KCond] [KCond] Own gf; SStage 2;
           SAcq "thread" "=0" [KThread] [KThread] Own gf; SStage 3]
          [(2, [UFree "cond"]); (1, [UFree "mutex"])].

(* mem/malloc.c ABTI_mem_init_local: two local pools take one bucket each; the
   global pools serve them without a new page except in the scenario where the
   global stack pool was emptied first (the page then belongs to the global
   pool: cache) *)
Definition mem_init_local (pg : option string) : routine :=
  R0 (match pg with
      | Some sz => [SAcq "" sz [KMmap; KMemalign] [KMemalign] Cache ret]
      | None => []
      end).

Record xcfg := mkX {
  x_sched : option string;  (* `used` field of a pre-existing scheduler *)
  x_rank : option string;   (* explicit rank: field "rank taken" (0 = free) *)
  x_warn : bool;            (* rank >= max_xstreams: warning text (tolerated failure) *)
  x_primary : bool;         (* primary: root ULT has its own stack, no OS thread *)
  x_page : option string    (* ABTI_mem_init_local has to obtain a stack page *)
}.
(* stream.c xstream_create *)
Definition xstream_create (c : xcfg) : routine :=
  let used1 := match x_sched c with Some f => [SAssign f 1] | None => [] end in
  let used0 := match x_sched c with Some f => [UAssign f 0] | None => [] end in
  Routine
    ([mal "xstream" "xstream" ret]
       ++ match x_rank c with Some f => [SGuard f 0 gf] | None => [] end
       (* xstream_set_new_rank: list insertion, num_xstreams++ *)
       ++ [SAdd "global.num_xstreams" 1]
       ++ (if x_warn c then [SAcqOpt "warning_msg" KMemalign] else [])
       ++ [SStage 1;
           SCall "mem_local" (mem_init_local (x_page c)) gf; SStage 2]
       ++ used1
       ++ [SCall "root"
                 (ythread_create (mkY (if x_primary c then Some "sched_stack" else None) None
                                      false false None PBuiltin None)) gf;
           SStage 3;
           SCall "root_pool" (ABTI_pool_create_basic pool_init_fifo) gf; SStage 4;
           SCall "msched"
                 (ythread_create (mkY (Some "sched_stack") None false false None PBuiltin None)) gf;
           SStage 5]
       ++ (if x_primary c then [] else [SCall "ctx" xstream_context_create gf; SStage 6]))
    [(5, [UFree "msched"]); (4, [UFree "root_pool"]); (3, [UFree "root"]);
     (2, used0 ++ [UFree "mem_local"]); (1, [UAdd "global.num_xstreams" (-1)]);
     (0, [UFree "xstream"])].

(* stream.c ABT_xstream_create / _with_rank, sched == ABT_SCHED_NULL *)
Definition ABT_xstream_create_null (rank : option string) (warn : bool) (pg : option string) : routine :=
  R0 [SNullOut;
      SCall "sched" (sched_create_basic_nopools 1 pool_init_fifo) ret;
      SCall "xs" (xstream_create (mkX None rank warn false pg)) (cl [UFree "sched"]);
      SCommit].
(* stream.c ABT_xstream_create with a scheduler of the caller *)
Definition ABT_xstream_create_sched : routine :=
  R0 [SNullOut; SGuard "sched.used" 0 ret;
      SCall "xs" (xstream_create (mkX (Some "sched.used") None false false None)) ret;
      SCommit].
(* stream.c ABT_xstream_create_with_rank with a scheduler of the caller (the caller keeps it on failure) *)
Definition ABT_xstream_create_sched_rank (rank : string) : routine :=
  R0 [SNullOut; SGuard "sched.used" 0 ret;
      SCall "xs" (xstream_create (mkX (Some "sched.used") (Some rank) false false None)) ret;
      SCommit].
(* stream.c ABT_xstream_create_basic(BASIC, {pool0, NULL}) *)
Definition ABT_xstream_create_basic_x : routine :=
  R0 [SNullOut;
      SCall "sched" (sched_create_basic_pools [PGiven (Some "pool0.num_scheds"); PNull]) ret;
      SCall "xs" (xstream_create (mkX None None false false None))
            (cl [UAdd "pool0.num_scheds" (-1); UFree "sched"]);
      SCommit].

(* stream.c ABTI_xstream_create_primary *)
Definition xstream_create_primary : routine :=
  R0 [SCall "sched" (sched_create_basic_nopools 1 pool_init_fifo) ret;
      SCall "xs" (xstream_create (mkX None None false true None)) (cl [UFree "sched"])].

(* mem/malloc.c ABTI_mem_init: the external-thread local pools take one bucket
   each, which makes the global pools obtain their first pages; on failure the
   pages already obtained are returned (destroy_local_pool/destroy_global_pool) *)
Definition mem_init : routine :=
  R0 [SAcq "stack_page" "stack_page" [KMmap; KMemalign] [KMemalign] Own ret;
      SAcq "desc_page" "desc_page" [KMmap; KMemalign] [KMemalign] Own (cl [UFree "stack_page"])].

(* global.c ABT_init / init_library.  probe: default large-page mode mmap_rp is
   checked by ABTD_env_init -> ABTI_mem_check_lp_alloc -> ABTU_is_supported_
   largepage_type (one mmap/munmap); ABT_MEM_LP_ALLOC=malloc has no probe *)
Definition ABT_init_x (probe : bool) : routine :=
  (* probe = true: default mode (mmap with malloc fall-back), checked by a probe;
     probe = false: ABT_MEM_LP_ALLOC=malloc, no probe, malloc only *)
  Routine
    ([SGuard "global.set" 0 ret;
      mal "global" "global" ret; SAssign "global.set" 1; SMode (negb probe)]
       ++ (if probe then [SProbe "probe_page" KMmap] else [])
       ++ [SCall "mem" mem_init gf; SStage 1;
           SCall "xs" xstream_create_primary gf; SStage 2;
           (* the primary ULT: descriptor from the pool just created *)
           SCall "primary" (ythread_create (mkY None None false false None PBuiltin None)) gf;
           SStage 3;
           SAssign "global.initialized" 1; SCommit])
    (* stage 2: ABTI_xstream_free (returns the rank: num_xstreams--) *)
    [(2, [UFree "xs"; UAdd "global.num_xstreams" (-1)]); (1, [UFree "mem"]);
     (0, [UFree "global"; UAssign "global.set" 0])].

(* stream.c ABT_xstream_set_main_sched(self, ABT_SCHED_NULL): only the
   scheduler creation can fail (built-in pools) *)
Definition set_main_sched_null : routine :=
  R0 [SCall "sched" (sched_create_basic_nopools 1 pool_init_fifo) ret;
      SAssign "xs.main_sched" 1; SFreePre "old_main_sched"].
(* ... with a scheduler of the caller whose pools[0] is user-defined:
   xstream_update_main_sched re-associates the calling ULT *)
Definition set_main_sched_user : routine :=
  R0 ([SGuard "sched.used" 0 ret]
        ++ assoc_user []
        ++ [SAssign "thr.pool" 2; SAssign "sched.used" 1; SAssign "xs.main_sched" 1;
            SFreePre "old_main_sched"]).
(* stream.c ABT_xstream_set_main_sched_basic(self, BASIC, 1, {user pool}) *)
Definition set_main_sched_basic_user : routine :=
  let undo := [UAdd "upool.num_scheds" (-1); UFree "sched"] in
  R0 ([SCall "sched" (sched_create_basic_pools [PGiven (Some "upool.num_scheds")]) ret;
       SCall "unit" user_unit (cl undo);
       SAcq "" "=64" [KMemalign] [KMemalign] Cache (cl (UFree "unit" :: undo));
       SAssign "thr.pool" 2; SAssign "xs.main_sched" 1; SFreePre "old_main_sched"]).
(* ... of another, joined stream: the scheduler ULT is re-associated *)
Definition set_main_sched_other : routine :=
  R0 ([SGuard "sched.used" 0 ret]
        ++ assoc_user []
        ++ [SAssign "msched.pool" 2; SAssign "sched.used" 1; SAssign "xs.main_sched" 1;
            SFreePre "old_main_sched"]).

(* a `static inline` callee written out in its caller: every failure branch of
   the callee is followed by the caller's own clean-up *)
Definition inline_r (c : routine) (extra : list undo) : list step :=
  match c with
  | Routine body _ =>
      map (fun stp =>
             match stp with
             | SAcq x sz ks ksd o (us, g) => SAcq x sz ks ksd o (us ++ extra, g)
             | SGuard f v (us, g) => SGuard f v (us ++ extra, g)
             | SCall x c' (us, g) => SCall x c' (us ++ extra, g)
             | other => other
             end) body
  end.

(* pool/pool.c ABT_pool_add_sched; ABTI_ythread_create_sched / ythread_create
   are written out in place (they are static inline): when the new ULT is
   abandoned after the scheduler key was set, ABTI_ktable_free runs
   thread_key_destructor_stackable_sched, THEN the caller resets `used` *)
Definition pool_add_sched (p : ptype) (auto : bool) : routine :=
  R0 ([SGuard "sched.used" 0 ret; SAssign "sched.used" 2]
        ++ inline_r (ythread_create (mkY (Some "sched_stack") None false false
                                         (Some ("sched.used", auto)) p (Some "pool.size")))
                    [UAssign "sched.used" 0]
        ++ [SAssign "sched.ythread" 1]).
(* the same with fixes/pool-add-sched-keeps-sched.patch: the scheduler key is
   neutralised before the key table of the abandoned ULT is freed *)
Definition ythread_create_sched_fixed (p : ptype) : routine :=
  R0 ([mal "thread" "sched_stack" ret]
        ++ match p with PBuiltin => [] | PUser => assoc_user [UFree "thread"] end
        ++ [SAdd "pool.size" 1]).
Definition pool_add_sched_fixed (p : ptype) : routine :=
  R0 [SGuard "sched.used" 0 ret; SAssign "sched.used" 2;
      SCall "yt" (ythread_create_sched_fixed p) (cl [UAssign "sched.used" 0]);
      SAssign "sched.ythread" 1].

(* --------------------------------------------------- configuration objects *)
(* sched/sched_config.c ABT_sched_config_create with three keys falling into
   one bucket (util/hashtable.c: the 2nd and 3rd need a chained element) *)
Definition sched_config_create3 : routine :=
  R0 [mal "cfg" "sched_config" ret;
      mal "table" "=576" (cl [UFree "cfg"]);
      mal "e1" "=64" (cl [UFree "table"; UFree "cfg"]);
      mal "e2" "=64" (cl [UFree "e1"; UFree "table"; UFree "cfg"]);
      SCommit].
(* ABT_sched_config_set / ABT_pool_config_set of a colliding key *)
Definition config_set_collide : routine := R0 [mal "e" "=64" ret; SAssign "cfg.key9" 99].
(* pool/pool_config.c ABT_pool_config_create *)
Definition pool_config_create : routine :=
  R0 [mal "cfg" "pool_config" ret; mal "table" "=576" (cl [UFree "cfg"]); SCommit].

(* ------------------------------------------------------------ one-liners *)
Definition create1 (null_on_entry : bool) (sz : string) : routine :=
  R0 ((if null_on_entry then [SNullOut] else []) ++ [mal "obj" sz ret; SCommit]).
(* timer.c ABT_timer_create / ABT_timer_dup: libc malloc, NULL on entry *)
Definition create1_libc (sz : string) : routine := R0 [SNullOut; umal "obj" sz ret; SCommit].
(* eventual.c ABT_eventual_create(nbytes > 0), futures.c ABT_future_create(n > 0) *)
Definition create2 (sz1 sz2 : string) : routine :=
  R0 [mal "obj" sz1 ret; mal "aux" sz2 (cl [UFree "obj"]); SCommit].
(* stream_barrier.c ABT_xstream_barrier_create *)
Definition xstream_barrier_create : routine :=
  R0 [SNullOut; mal "obj" "xstream_barrier" ret;
      SAcq "b" "=0" [KBarrier] [KBarrier] Own (cl [UFree "obj"]); SCommit].

(* ------------------------------- routines that do NOT satisfy the property *)
(* thread.c ABT_thread_create_many (3 ULTs with their own stacks): no roll-back
   ("TODO: Release threads that have been already created"), and
   newthread_list[i] is written before the error check *)
Definition y_stack32k : ycfg := mkY (Some "stack32k") None false false None PBuiltin (Some "pool.size").
Definition thread_create_many3 : routine :=
  R0 [SCall "t0" (ythread_create y_stack32k) ret; SCommit;
      SCall "t1" (ythread_create y_stack32k) ret;
      SCall "t2" (ythread_create y_stack32k) ret].
(* pool/pool.c pool_push_threads_ex towards a user pool, 3 units ("FIXME: the
   following can break the intermediate mapping if an error happens") *)
Definition pool_push_threads3 : routine :=
  R0 (assoc_user [] ++ [SAssign "thr0.pool" 2]
        ++ [SCall "unit1" user_unit ret;
            SAcq "" "=64" [KMemalign] [KMemalign] Cache (cl [UFree "unit1"]); SAssign "thr1.pool" 2;
            SCall "unit2" user_unit ret;
            SAcq "" "=64" [KMemalign] [KMemalign] Cache (cl [UFree "unit2"]); SAssign "thr2.pool" 2;
            SAdd "pool.size" 3]).

(* the same with fixes/pool-push-threads-atomic.patch: all units are created and
   mapped first (nothing else is modified, so a failure rolls back completely),
   then the work units are switched over *)
Definition pool_push_threads3_fixed : routine :=
  R0 [SCall "unit0" user_unit ret;
      SAcq "" "=64" [KMemalign] [KMemalign] Cache (cl [UFree "unit0"]);
      SCall "unit1" user_unit (cl [UFree "unit0"]);
      SAcq "" "=64" [KMemalign] [KMemalign] Cache (cl [UFree "unit1"; UFree "unit0"]);
      SCall "unit2" user_unit (cl [UFree "unit0"; UFree "unit1"]);
      SAcq "" "=64" [KMemalign] [KMemalign] Cache (cl [UFree "unit2"; UFree "unit0"; UFree "unit1"]);
      SAssign "thr0.pool" 2; SAssign "thr1.pool" 2; SAssign "thr2.pool" 2; SAdd "pool.size" 3].

(* ------------------------------------------------------------ the scenarios
   name (= scenario of harness/h_c18_scen.h), precondition K, routine,
   resources of pre-existing objects the run might touch, has an output handle *)
Record scen := mkScen {
  sc_name : string; sc_spec : spec; sc_pre : list string; sc_handle : bool;
  sc_mode : bool (* the runtime was initialised with ABT_MEM_LP_ALLOC=malloc *) }.
Definition S0 (n : string) (r : routine) (h : bool) : scen := mkScen n (mkSpec [] r) [] h false.
Definition SK (n : string) (K : list (string * Z)) (r : routine) (pre : list string) (h : bool) : scen :=
  mkScen n (mkSpec K r) pre h false.
Definition SM (n : string) (r : routine) (h : bool) : scen := mkScen n (mkSpec [] r) [] h true.

Definition page_stack := Some "small_stack_page".
Definition page_desc := Some "small_desc_page".

Definition scenarios : list scen := [
  SK "init" [("global.set", 0%Z)] (ABT_init_x true) [] true;
  SK "init_malloc" [("global.set", 0%Z)] (ABT_init_x false) [] true;
  S0 "xstream_create" (ABT_xstream_create_null None false None) true;
  SK "xstream_create_sched" [("sched.used", 0%Z)] ABT_xstream_create_sched ["sched"] true;
  S0 "xstream_create_basic" ABT_xstream_create_basic_x true;
  SK "xstream_create_rank" [("rank5.taken", 0%Z)] (ABT_xstream_create_null (Some "rank5.taken") false None) [] true;
  SK "xstream_create_rank_sched" [("sched.used", 0%Z); ("rank5.taken", 0%Z)] (ABT_xstream_create_sched_rank "rank5.taken") ["sched"] true;
  SK "xstream_create_maxxs" [("rank1.taken", 0%Z)] (ABT_xstream_create_null (Some "rank1.taken") true None) [] true;
  S0 "xstream_create_populated" (ABT_xstream_create_null None false None) true;
  SM "xstream_create_refill" (ABT_xstream_create_null None false (Some "small_stack_page")) true;
  SK "set_main_sched" [] set_main_sched_null ["old_main_sched"] false;
  SK "set_main_sched_user" [("sched.used", 0%Z)] set_main_sched_user ["old_main_sched"; "sched"] false;
  SK "set_main_sched_basic_user" [] set_main_sched_basic_user ["old_main_sched"] false;
  SK "set_main_sched_other" [("sched.used", 0%Z)] set_main_sched_other ["old_main_sched"; "sched"] false;
  S0 "sched_create_basic" (ABT_sched_create_basic_x (sched_create_basic_nopools 1 pool_init_fifo)) true;
  S0 "sched_create_basic_prio" (ABT_sched_create_basic_x (sched_create_basic_nopools 3 pool_init_fifo)) true;
  S0 "sched_create_basic_wait" (ABT_sched_create_basic_x (sched_create_basic_nopools 1 pool_init_fifo_wait)) true;
  S0 "sched_create_basic_randws" (ABT_sched_create_basic_x (sched_create_basic_nopools 1 pool_init_fifo)) true;
  S0 "sched_create_basic_pools"
     (ABT_sched_create_basic_x
        (sched_create_basic_pools [PGiven (Some "pool0.num_scheds"); PNull; PGiven (Some "pool1.num_scheds")])) true;
  S0 "sched_create_user" (ABT_sched_create_user [PGiven (Some "pool0.num_scheds"); PNull]) true;
  S0 "sched_create_populated" (ABT_sched_create_basic_x (sched_create_basic_nopools 1 pool_init_fifo)) true;
  S0 "pool_create_basic_fifo" (ABT_pool_create_x pool_init_fifo) true;
  S0 "pool_create_basic_fifo_wait" (ABT_pool_create_x pool_init_fifo_wait) true;
  S0 "pool_create_basic_randws" (ABT_pool_create_x pool_init_fifo) true;
  S0 "pool_create_user" (R0 [SNullOut; SCall "p" (pool_create pool_init_user) ret; SCommit]) true;
  S0 "pool_create_old" (R0 [SNullOut; SCall "p" (pool_create pool_init_user) ret; SCommit]) true;
  S0 "pool_user_def_create" (create1 false "pool_user_def") true;
  S0 "sched_config_create" sched_config_create3 true;
  S0 "sched_config_set" config_set_collide false;
  S0 "pool_config_create" pool_config_create true;
  S0 "pool_config_set" config_set_collide false;
  SK "pool_add_sched" [("sched.used", 0%Z)] (pool_add_sched PBuiltin true) ["sched"] false;
  SK "pool_add_sched_user_noauto" [("sched.used", 0%Z)] (pool_add_sched PUser false) ["sched"] false;
  S0 "thread_create" (ABT_thread_create_x y_plain) true;
  SM "thread_create_refill" (ABT_thread_create_x (mkY None page_stack false false None PBuiltin (Some "pool.size"))) true;
  S0 "thread_create_refill_mmap" (ABT_thread_create_x (mkY None page_stack false false None PBuiltin (Some "pool.size"))) true;
  SM "thread_create_refill_leftover" (ABT_thread_create_x (mkY None page_stack false false None PBuiltin (Some "pool.size"))) true;
  S0 "thread_create_stacksize" (ABT_thread_create_x y_stack32k) true;
  S0 "thread_create_userstack" (ABT_thread_create_x y_plain) true;
  S0 "thread_create_cb" (ABT_thread_create_x (mkY None None true false None PBuiltin (Some "pool.size"))) true;
  S0 "thread_create_cb_ktbig" (ABT_thread_create_x (mkY None None true true None PBuiltin (Some "pool.size"))) true;
  S0 "thread_create_userpool" (ABT_thread_create_x (mkY None None false false None PUser (Some "pool.size"))) true;
  S0 "thread_create_userpool_cb_ktbig"
     (ABT_thread_create_x (mkY (Some "stack32k") None true true None PUser (Some "pool.size"))) true;
  S0 "thread_create_to_userpool" (ABT_thread_create_to_x (mkY None None false false None PUser None)) true;
  S0 "thread_create_on_xstream" (ABT_thread_create_x y_stack32k) true;
  S0 "thread_create_populated" (ABT_thread_create_x (mkY None None false false None PUser (Some "pool.size"))) true;
  S0 "thread_revive_userpool" (reassoc_user true) false;
  S0 "thread_revive_to_userpool" (reassoc_user false) false;
  S0 "task_create" (ABT_task_create_x None PBuiltin) true;
  SM "task_create_refill" (ABT_task_create_x page_desc PBuiltin) true;
  S0 "task_create_userpool" (ABT_task_create_x None PUser) true;
  S0 "task_revive_userpool" (reassoc_user true) false;
  S0 "thread_migrate_to_pool" (get_mig_data false true) false;
  S0 "thread_migrate_to_pool_ktbig" (get_mig_data true true) false;
  S0 "thread_set_callback" (get_mig_data false false) false;
  S0 "thread_set_specific_ktbig" ktable_set_big false;
  S0 "self_set_specific_ktbig" ktable_set_big false;
  S0 "key_set_ktbig" ktable_set_big false;
  S0 "thread_get_attr" (create1 false "thread_attr") true;
  S0 "thread_set_assoc_userpool" (reassoc_user false) false;
  S0 "pool_push_thread_userpool" (reassoc_user true) false;
  S0 "key_create" (create1 false "key") true;
  S0 "mutex_create" (create1 true "mutex") true;
  S0 "mutex_create_with_attr" (create1 true "mutex") true;
  S0 "mutex_attr_create" (create1 false "mutex_attr") true;
  S0 "cond_create" (create1 true "cond") true;
  S0 "rwlock_create" (create1 true "rwlock") true;
  S0 "barrier_create" (create1 true "barrier") true;
  S0 "xstream_barrier_create" xstream_barrier_create true;
  S0 "eventual_create" (create2 "eventual" "eventual_value") true;
  S0 "future_create" (create2 "future" "future_array") true;
  S0 "timer_create" (create1_libc "timer") true;
  S0 "timer_dup" (create1_libc "timer") true;
  S0 "thread_attr_create" (create1 true "thread_attr") true
].

(* the current code of these three does not satisfy the property (findings);
   the driver still predicts their traces *)
Definition refuted_scenarios : list scen := [
  SK "pool_add_sched_user" [("sched.used", 0%Z)] (pool_add_sched PUser true) ["sched"] false;
  S0 "thread_create_many" thread_create_many3 true;
  S0 "pool_push_threads_userpool" pool_push_threads3 false
].
(* ... and with the proposed fixes of the first and the third *)
Definition fixed_scenarios : list scen := [
  SK "pool_add_sched_user" [("sched.used", 0%Z)] (pool_add_sched_fixed PUser) ["sched"] false;
  S0 "pool_push_threads_userpool" pool_push_threads3_fixed false
].

Definition all_wf (l : list scen) : bool := forallb (fun c => wf (sc_spec c)) l.

Fixpoint find_scen (n : string) (l : list scen) : option scen :=
  match l with
  | [] => None
  | c :: l' => if String.eqb n (sc_name c) then Some c else find_scen n l'
  end.

(* ------------------------------------------------------- driver interface *)
(* run the attempts of one case: fails_per_attempt = 1-based positions of the
   failing acquisition attempts of each call; stops after the first success *)
Record att_res := mkAtt { ar_ok : bool; ar_stuck : bool; ar_trace : list (kind * string * bool);
                          ar_live : list nat; ar_h : hstate; ar_pre_gone : bool }.

Fixpoint rel_ids (base : nat) (l : list nat) : list nat :=
  match l with [] => [] | x :: l' => (x - base) :: rel_ids base l' end.

Fixpoint run_attempts (c : scen) (s : st) (fs : list (list nat)) : list att_res :=
  match fs with
  | [] => []
  | f :: fs' =>
      let s0 := begin_attempt s in
      let npre := List.length (pre s0) in
      let ncache := List.length (cache s0) in
      match exec_r (oracle_of f) (sp_r (sc_spec c)) s0 with
      | ROk fp s1 =>
          [mkAtt true false (rev (trace s1))
                 (rel_ids (nid s0) (fp ++ firstn (List.length (cache s1) - ncache) (cache s1)))
                 (hst s1) (negb (Nat.eqb (List.length (pre s1)) npre))]
      | RErr s1 lk =>
          mkAtt false false (rev (trace s1))
                (rel_ids (nid s0) (lk ++ firstn (List.length (cache s1) - ncache) (cache s1)))
                (hst s1) (negb (Nat.eqb (List.length (pre s1)) npre))
                :: run_attempts c s1 fs'
      | RStuck => [mkAtt false true [] [] HUntouched false]
      end
  end.

Definition run_case (c : scen) (fs : list (list nat)) : list att_res :=
  run_attempts c (init_st (sp_K (sc_spec c)) (sc_pre c) (sc_mode c)) fs.

(* number of acquisition attempts of the failure-free run (= number of single
   failure positions the harness must enumerate) *)
Definition n_ops (c : scen) : nat :=
  match exec_r (fun _ => false) (sp_r (sc_spec c)) (init_st (sp_K (sc_spec c)) (sc_pre c) (sc_mode c)) with
  | ROk _ s1 => ops s1
  | RErr s1 _ => ops s1
  | RStuck => 0
  end.
