(* C18 -- proofs about Fault/Ladder.v: a routine accepted by the checker is
   atomic under every fault oracle. *)
From Coq Require Import List String ZArith Bool Arith Lia.
From ABT Require Import Fault.Ladder.
Import ListNotations.
Local Open Scope string_scope.
Local Open Scope list_scope.

(* ------------------------------------------------------------ unfolding *)
Lemma exec_r_unfold : forall orc body lad s,
  exec_r orc (Routine body lad) s = exec_steps orc lad body [] 0 s.
Proof.
  intros orc body lad. cbn [exec_r].
  generalize (@nil (string * list nat)) as e. generalize 0 as stg.
  induction body as [|stp l IH]; intros stg e s; [reflexivity|].
  destruct stp; cbn [exec_steps];
    repeat match goal with
           | |- context [try_alts ?a ?b ?c ?d] => destruct (try_alts a b c d) as [? [?|]]
           | |- context [match ?o with Own => _ | Cache => _ end] => destruct o
           | |- context [if orc ?x then _ else _] => destruct (orc x)
           | |- context [unbind ?x ?e] => destruct (unbind x e)
           | |- context [Z.eqb ?a ?b] => destruct (Z.eqb a b)
           | |- context [exec_r ?a ?b ?c] => destruct (exec_r a b c)
           end; try apply IH; reflexivity.
Qed.

Lemma chk_r_unfold : forall K body lad a0 pd cm,
  chk_r K (Routine body lad) a0 pd cm = chk_steps K lad a0 body 0 (mkA [] a0 pd cm).
Proof.
  intros K body lad a0 pd cm. cbn [chk_r].
  generalize (mkA [] a0 pd cm) as t. generalize 0 as stg.
  induction body as [|stp l IH]; intros stg t; [reflexivity|].
  destruct stp; cbn [chk_steps];
    repeat match goal with
           | |- context [if ?b && ?c && ?d then _ else _] => destruct (b && c && d)
           | |- context [if ?b && ?c then _ else _] => destruct (b && c)
           | |- context [if ?b || ?c then _ else _] => destruct (b || c)
           | |- context [match ?o with Own => _ | Cache => _ end] => destruct o
           | |- context [if mem_str ?x ?l then _ else _] => destruct (mem_str x l)
           | |- context [if a_cm ?t then _ else _] => destruct (a_cm t)
           | |- context [aunbind ?x ?e] => destruct (aunbind x e)
           | |- context [chk_r ?a ?b ?c ?d ?e] => destruct (chk_r a b c d e) as [[[? ?] ?]|]
           | |- context [if chk_fail ?a ?b ?c ?d ?e ?f then _ else _] => destruct (chk_fail a b c d e f)
           end; try apply IH; reflexivity.
Qed.

(* induction over routines through their nested calls *)
Section RoutineInd.
  Variable P : routine -> Prop.
  Hypothesis H : forall body lad,
      (forall x c onf, In (SCall x c onf) body -> P c) -> P (Routine body lad).
  Lemma routine_ind' : forall r, P r.
  Proof.
    fix IH 1. intros [body lad]. apply H.
    revert body. fix IHl 1. intros [|s l] x c onf HIn.
    - destruct HIn.
    - destruct HIn as [Heq|HIn].
      + destruct s; try discriminate Heq.
        injection Heq as E1 E2 E3. rewrite <- E2. apply IH.
      + exact (IHl l x c onf HIn).
  Qed.
End RoutineInd.

(* ------------------------------------------------- fields and abstraction *)
Definition eval (v : aval) (z0 : Z) : Z :=
  match v with Rel d => (z0 + d)%Z | Abs w => w end.

(* the abstract map describes the concrete fields o relative to the
   top-level entry fields o0 *)
Definition R (a : amap) (o0 o : list (string * Z)) : Prop :=
  forall f, get o f = eval (alook a f) (get o0 f).

Definition Ksat (K : list (string * Z)) (o0 : list (string * Z)) : Prop :=
  forall f v, klook K f = Some v -> get o0 f = v.

Definition oeq (o o' : list (string * Z)) : Prop := forall f, get o f = get o' f.

Lemma R_nil : forall o, R [] o o.
Proof. intros o f. cbn. lia. Qed.

Lemma R_assign : forall a o0 o f v, R a o0 o -> R ((f, Abs v) :: a) o0 ((f, v) :: o).
Proof.
  intros a o0 o f v HR g. cbn. destruct (String.eqb g f); [reflexivity|apply HR].
Qed.

Lemma eval_aadd : forall v d z, eval (aadd v d) z = (eval v z + d)%Z.
Proof. intros [e|w] d z; cbn; lia. Qed.

Lemma R_add : forall a o0 o f d,
  R a o0 o -> R ((f, aadd (alook a f) d) :: a) o0 ((f, (get o f + d)%Z) :: o).
Proof.
  intros a o0 o f d HR g. cbn. destruct (String.eqb g f) eqn:E; [|apply HR].
  apply String.eqb_eq in E. subst g. rewrite eval_aadd, HR. reflexivity.
Qed.

Lemma R_oeq : forall a o0 o o', R a o0 o -> oeq o' o -> R a o0 o'.
Proof. intros a o0 o o' HR He f. rewrite He. apply HR. Qed.

Lemma canon_eval : forall K o0 f v, Ksat K o0 -> eval (canon K f v) (get o0 f) = eval v (get o0 f).
Proof.
  intros K o0 f [d|w] HK; cbn; [|reflexivity].
  destruct (klook K f) as [e|] eqn:E; cbn; [|reflexivity].
  rewrite (HK _ _ E). reflexivity.
Qed.

Lemma aval_eqb_eq : forall u v, aval_eqb u v = true -> u = v.
Proof.
  intros [a|a] [b|b]; cbn; intros H; try discriminate; apply Z.eqb_eq in H; subst; reflexivity.
Qed.

Lemma alook_notin : forall a f, ~ In f (map fst a) -> alook a f = Rel 0.
Proof.
  induction a as [|[g v] a IH]; intros f Hn; cbn; [reflexivity|].
  destruct (String.eqb f g) eqn:E.
  - apply String.eqb_eq in E. subst g. exfalso. apply Hn. left. reflexivity.
  - apply IH. intros Hin. apply Hn. right. exact Hin.
Qed.

Lemma restored_oeq : forall K o0 a0 a oe o,
  Ksat K o0 -> R a0 o0 oe -> R a o0 o -> restored K a0 a = true -> oeq o oe.
Proof.
  intros K o0 a0 a oe o HK H0 Ha Hr f. unfold restored in Hr.
  rewrite forallb_forall in Hr.
  destruct (in_dec string_dec f (map fst a ++ map fst a0)) as [Hin|Hnin].
  - specialize (Hr f Hin). apply aval_eqb_eq in Hr.
    rewrite Ha, H0. rewrite <- (canon_eval K o0 f (alook a f) HK).
    rewrite <- (canon_eval K o0 f (alook a0 f) HK). rewrite Hr. reflexivity.
  - rewrite Ha, H0. rewrite !alook_notin; [reflexivity| |].
    + intros Hi. apply Hnin. apply in_or_app. right. exact Hi.
    + intros Hi. apply Hnin. apply in_or_app. left. exact Hi.
Qed.

(* ----------------------------------------------------------- simulation *)
Record Sim (t : astate) (e : env) (s : st) (o0 : list (string * Z)) (se : st) : Prop := {
  sim_env : map fst e = a_live t;
  sim_R : R (a_map t) o0 (objs s);
  sim_pre : a_pd t = false -> pre s = pre se;
  sim_h0 : a_cm t = false -> hst s <> HSet;
  sim_h1 : a_cm t = true -> hst s = HSet;
  sim_cache : exists c, cache s = c ++ cache se
}.

Lemma unbind_mirror : forall x e,
  match unbind x e, aunbind x (map fst e) with
  | Some e', Some al => map fst e' = al
  | None, None => True
  | _, _ => False
  end.
Proof.
  induction e as [|[y ids] e IH]; cbn; [exact I|].
  destruct (String.eqb x y); [reflexivity|].
  destruct (unbind x e), (aunbind x (map fst e)); cbn; try exact IH.
  rewrite IH. reflexivity.
Qed.

Lemma aundo_sim : forall u t t' e s o0 se,
  Sim t e s o0 se -> aundo u t = Some t' ->
  exists e' s', run_undo u e s = Some (e', s') /\ Sim t' e' s' o0 se.
Proof.
  intros u t t' e s o0 se HS Hu. destruct HS as [He HR Hp Hh0 Hh1 Hc].
  destruct u as [x|f v|f d|p]; cbn in Hu |- *.
  - pose proof (unbind_mirror x e) as Hm. rewrite He in Hm.
    destruct (aunbind x (a_live t)) as [al|]; [|discriminate]. injection Hu as <-.
    destruct (unbind x e) as [e'|]; [|contradiction].
    exists e', s. split; [reflexivity|]. constructor; cbn; auto.
  - injection Hu as <-. exists e, (set_obj s f v). split; [reflexivity|].
    constructor; cbn; auto. apply R_assign. exact HR.
  - injection Hu as <-. exists e, (set_obj s f (get (objs s) f + d)%Z). split; [reflexivity|].
    constructor; cbn; auto. apply R_add. exact HR.
  - injection Hu as <-. exists e, (set_pre s (remove_str p (pre s))). split; [reflexivity|].
    constructor; cbn; auto. intros Hd. discriminate Hd.
Qed.

Lemma aundos_sim : forall us t t' e s o0 se,
  Sim t e s o0 se -> aundos us t = Some t' ->
  exists e' s', run_undos us e s = Some (e', s') /\ Sim t' e' s' o0 se.
Proof.
  induction us as [|u us IH]; intros t t' e s o0 se HS Hu; cbn in Hu |- *.
  - injection Hu as <-. exists e, s. split; [reflexivity|exact HS].
  - destruct (aundo u t) as [t1|] eqn:E1; [|discriminate].
    destruct (aundo_sim _ _ _ _ _ _ _ HS E1) as (e1 & s1 & Hr1 & HS1).
    rewrite Hr1. eapply IH; eauto.
Qed.

(* what a run may end with, given what the checker computed *)
Definition Good (orc : nat -> bool) (o0 : list (string * Z)) (se : st) (cr : amap * bool * bool)
           (r : res) : Prop :=
  match r with
  | ROk fp s' =>
      let '(a1, pd1, cm1) := cr in
      R a1 o0 (objs s') /\ (pd1 = false -> pre s' = pre se) /\
      (cm1 = false -> hst s' <> HSet) /\ (cm1 = true -> hst s' = HSet) /\
      (exists c, cache s' = c ++ cache se)
  | RErr s' lk =>
      lk = [] /\ oeq (objs s') (objs se) /\ pre s' = pre se /\ hst s' <> HSet /\
      (exists c, cache s' = c ++ cache se) /\ (exists i, orc i = true)
  | RStuck => False
  end.

Lemma do_fail_good : forall orc K lad a0 onf stg t e s o0 se cr,
  Ksat K o0 -> R a0 o0 (objs se) -> Sim t e s o0 se ->
  chk_fail K lad a0 onf stg t = true -> (exists i, orc i = true) ->
  Good orc o0 se cr (do_fail lad onf e stg s []).
Proof.
  intros orc K lad a0 onf stg t e s o0 se cr HK H0 HS Hc Hor. unfold chk_fail in Hc. unfold do_fail.
  destruct (aundos (fst onf ++ (if snd onf then ladder_undos stg lad else [])) t) as [t'|] eqn:E;
    [|discriminate].
  destruct (aundos_sim _ _ _ _ _ _ _ HS E) as (e' & s' & Hr & HS').
  rewrite Hr. destruct HS' as [He HR Hp Hh0 Hh1 Hcc].
  apply andb_prop in Hc. destruct Hc as [Hc Hcm]. apply andb_prop in Hc. destruct Hc as [Hc Hpd].
  apply andb_prop in Hc. destruct Hc as [Hl Hres].
  destruct (a_live t') eqn:El; [|discriminate].
  destruct e' as [|b e']; [|discriminate He]. cbn.
  apply negb_true_iff in Hpd. apply negb_true_iff in Hcm.
  repeat split; auto. eapply restored_oeq; eauto.
Qed.

Lemma try_alts_frame : forall orc sz ks s s1 r,
  try_alts orc sz ks s = (s1, r) ->
  objs s1 = objs s /\ pre s1 = pre s /\ hst s1 = hst s /\ cache s1 = cache s /\ mode s1 = mode s.
Proof.
  induction ks as [|k ks IH]; intros s s1 r H; cbn in H.
  - injection H as <- <-. repeat split.
  - destruct (orc (ops s)).
    + apply IH in H. cbn in H. exact H.
    + injection H as <- <-. cbn. repeat split.
Qed.

Lemma try_alts_none_fails : forall orc sz ks s s1,
  try_alts orc sz ks s = (s1, None) -> ks <> [] -> exists i, orc i = true.
Proof.
  induction ks as [|k ks IH]; intros s s1 H Hne; [contradiction|]. cbn in H.
  destruct (orc (ops s)) eqn:E; [eauto|discriminate].
Qed.

Lemma nonempty_ne : forall A (l : list A), nonempty l = true -> l <> [].
Proof. intros A [|x l] H; [discriminate|discriminate]. Qed.

Lemma Sim_frame : forall t e s s1 o0 se,
  Sim t e s o0 se -> objs s1 = objs s -> pre s1 = pre s -> hst s1 = hst s -> cache s1 = cache s ->
  Sim t e s1 o0 se.
Proof.
  intros t e s s1 o0 se [He HR Hp Hh0 Hh1 Hc] Eo Ep Eh Ec.
  constructor; auto; rewrite ?Eo, ?Ep, ?Eh, ?Ec; auto.
Qed.

(* the core: the list-level simulation, given the property for callees *)
Definition Pr (c : routine) : Prop :=
  forall orc K a0 pd cm cr o0 s,
    chk_r K c a0 pd cm = Some cr -> Ksat K o0 -> R a0 o0 (objs s) ->
    (cm = false -> hst s <> HSet) -> (cm = true -> hst s = HSet) ->
    Good orc o0 s cr (exec_r orc c s).

Lemma steps_sim : forall orc K lad a0 o0 se l,
  (forall x c onf, In (SCall x c onf) l -> Pr c) ->
  Ksat K o0 -> R a0 o0 (objs se) ->
  forall stg t cr e s,
    chk_steps K lad a0 l stg t = Some cr -> Sim t e s o0 se ->
    Good orc o0 se cr (exec_steps orc lad l e stg s).
Proof.
  intros orc K lad a0 o0 se l. induction l as [|stp l IH]; intros Hcal HK H0 stg t cr e s Hc HS.
  - cbn in Hc |- *. injection Hc as <-. destruct HS as [He HR Hp Hh0 Hh1 Hcc]. repeat split; auto.
  - assert (Hcal' : forall x c onf, In (SCall x c onf) l -> Pr c).
    { intros x c onf Hi. eapply Hcal. right. exact Hi. }
    specialize (IH Hcal' HK H0).
    destruct stp; cbn [chk_steps] in Hc; cbn [exec_steps].
    + (* SAcq *)
      destruct (chk_fail K lad a0 onf stg t && nonempty ks && nonempty ksd) eqn:Ec; [|discriminate].
      apply andb_prop in Ec. destruct Ec as [Ec Hn2]. apply andb_prop in Ec. destruct Ec as [Ecf Hn1].
      destruct (try_alts orc sz (if mode s then ksd else ks) s) as [s1 r] eqn:Et.
      destruct (try_alts_frame _ _ _ _ _ _ Et) as (Eo & Ep & Eh & Ecc & _).
      assert (HS1 : Sim t e s1 o0 se) by (eapply Sim_frame; eauto).
      destruct r as [id|].
      * destruct o.
        -- destruct (mem_str x (a_live t)); [discriminate|].
           eapply IH; [exact Hc|]. destruct HS1 as [He HR Hp Hh0 Hh1 Hcc].
           constructor; cbn; auto. rewrite He. reflexivity.
        -- eapply IH; [exact Hc|]. destruct HS1 as [He HR Hp Hh0 Hh1 Hcc].
           constructor; cbn; auto. destruct Hcc as [c Hcc]. exists (id :: c). rewrite Hcc. reflexivity.
      * eapply do_fail_good; eauto.
        eapply try_alts_none_fails; [exact Et|].
        destruct (mode s); apply nonempty_ne; assumption.
    + (* SProbe *)
      destruct (orc (ops s)); (eapply IH; [exact Hc|]);
        destruct HS as [He HR Hp Hh0 Hh1 Hcc]; constructor; cbn; auto.
    + (* SAcqOpt *)
      destruct (orc (ops s)); (eapply IH; [exact Hc|]);
        destruct HS as [He HR Hp Hh0 Hh1 Hcc]; constructor; cbn; auto.
    + (* SFree *)
      pose proof (unbind_mirror x e) as Hm. destruct HS as [He HR Hp Hh0 Hh1 Hcc]. rewrite He in Hm.
      destruct (aunbind x (a_live t)) as [al|]; [|discriminate].
      destruct (unbind x e) as [e'|]; [|contradiction].
      eapply IH; [exact Hc|]. constructor; cbn; auto.
    + (* SGuard *)
      destruct (chk_fail K lad a0 onf stg t && aval_eqb (canon K f (alook (a_map t) f)) (Abs v)) eqn:Ec;
        [|discriminate].
      apply andb_prop in Ec. destruct Ec as [Ecf Eg]. apply aval_eqb_eq in Eg.
      assert (Hv : get (objs s) f = v).
      { destruct HS as [_ HR _ _ _ _]. rewrite HR. rewrite <- (canon_eval K o0 f _ HK). rewrite Eg.
        reflexivity. }
      rewrite Hv, Z.eqb_refl. eapply IH; eauto.
    + (* SAssign *)
      eapply IH; [exact Hc|]. destruct HS as [He HR Hp Hh0 Hh1 Hcc]. constructor; cbn; auto.
      apply R_assign. exact HR.
    + (* SAdd *)
      eapply IH; [exact Hc|]. destruct HS as [He HR Hp Hh0 Hh1 Hcc]. constructor; cbn; auto.
      apply R_add. exact HR.
    + (* SStage *) eapply IH; eauto.
    + (* SMode *)
      eapply IH; [exact Hc|]. destruct HS as [He HR Hp Hh0 Hh1 Hcc]. constructor; cbn; auto.
    + (* SNullOut *)
      destruct (a_cm t) eqn:Ecm; [discriminate|].
      eapply IH; [exact Hc|]. destruct HS as [He HR Hp Hh0 Hh1 Hcc]. constructor; cbn; auto.
      * intros _ Hx. discriminate Hx.
      * intros Hx. rewrite Ecm in Hx. discriminate Hx.
    + (* SCommit *)
      eapply IH; [exact Hc|]. destruct HS as [He HR Hp Hh0 Hh1 Hcc]. constructor; cbn; auto.
      intros Hx. discriminate Hx.
    + (* SFreePre *)
      eapply IH; [exact Hc|]. destruct HS as [He HR Hp Hh0 Hh1 Hcc]. constructor; cbn; auto.
      intros Hx. discriminate Hx.
    + (* SCall *)
      destruct (mem_str x (a_live t) || a_cm t) eqn:Em; [discriminate|].
      apply orb_false_iff in Em. destruct Em as [_ Ecm].
      destruct (chk_r K c (a_map t) (a_pd t) (a_cm t)) as [[[a1 pd1] cm1]|] eqn:Ecr; [|discriminate].
      destruct (chk_fail K lad a0 onf stg t) eqn:Ecf; [|discriminate].
      assert (HP : Pr c) by (eapply Hcal; left; reflexivity).
      destruct HS as [He HR Hp Hh0 Hh1 Hcc].
      pose proof (HP orc K (a_map t) (a_pd t) (a_cm t) _ o0 s Ecr HK HR Hh0 Hh1) as HG.
      destruct (exec_r orc c s) as [fp s1|s1 lk|]; cbn in HG.
      * destruct HG as (HR1 & Hp1 & Hh01 & Hh11 & [c1 Hc1]).
        eapply IH; [exact Hc|]. constructor; cbn; auto.
        -- rewrite He. reflexivity.
        -- intros Hd. apply orb_false_iff in Hd. destruct Hd as [Hd1 Hd2].
           rewrite (Hp1 Hd2). apply Hp. exact Hd1.
        -- destruct Hcc as [c0 Hc0]. exists (c1 ++ c0). rewrite Hc1, Hc0, app_assoc. reflexivity.
      * destruct HG as (-> & Ho & Hpr & Hh & [c1 Hc1] & Hor).
        eapply do_fail_good; eauto. constructor; auto.
        -- eapply R_oeq; eauto.
        -- intros Hd. rewrite Hpr. apply Hp. exact Hd.
        -- intros Hd. rewrite Ecm in Hd. discriminate Hd.
        -- destruct Hcc as [c0 Hc0]. exists (c1 ++ c0). rewrite Hc1, Hc0, app_assoc. reflexivity.
      * contradiction.
Qed.

Lemma Pr_all : forall c, Pr c.
Proof.
  apply routine_ind'. intros body lad Hcal.
  intros orc K a0 pd cm cr o0 s Hc HK HR Hh0 Hh1.
  rewrite exec_r_unfold. rewrite chk_r_unfold in Hc.
  eapply steps_sim; eauto.
  constructor; cbn; auto. exists []. reflexivity.
Qed.

(* ------------------------------------------------------------- theorems *)
(* Any routine accepted by the checker, run from any state that satisfies its
   precondition K, under ANY fault oracle (any number and position of failing
   acquisitions, in the routine or in any nested call):
   - never executes an invalid release (RStuck);
   - if it returns an error: nothing it acquired is still owned (ledger =
     initial ledger), no resource of a pre-existing object was released, every
     field of every pre-existing object has its previous value, the output
     handle was not set, the runtime caches only grew, and some acquisition
     did fail (no error without a fault);
   - if it returns success: the caches only grew. *)
Theorem ladder_atomic : forall p orc s,
  wf p = true -> Ksat (sp_K p) (objs s) -> hst s <> HSet ->
  match exec_r orc (sp_r p) s with
  | RErr s' leaked =>
      leaked = [] /\ pre s' = pre s /\ oeq (objs s') (objs s) /\ hst s' <> HSet /\
      (exists c, cache s' = c ++ cache s) /\ (exists i, orc i = true)
  | ROk fp s' => exists c, cache s' = c ++ cache s
  | RStuck => False
  end.
Proof.
  intros [K r] orc s Hwf HK Hh. unfold wf in Hwf. cbn [sp_K sp_r] in *.
  destruct (chk_r K r [] false false) as [cr|] eqn:Ec; [|discriminate].
  pose proof (Pr_all r orc K [] false false cr (objs s) s Ec HK (R_nil _)) as HG.
  assert (H1 : false = false -> hst s <> HSet) by (intros _; exact Hh).
  assert (H2 : false = true -> hst s = HSet) by (intros Hx; discriminate Hx).
  specialize (HG H1 H2).
  destruct (exec_r orc r s) as [fp s'|s' lk|]; cbn in HG.
  - destruct cr as [[a1 pd1] cm1]. tauto.
  - tauto.
  - exact HG.
Qed.

(* Without any failing acquisition the routine succeeds; if it has an output
   handle (the checker saw a commit) the handle is set. *)
Theorem ladder_commits : forall p s a1 pd1 cm1,
  chk_r (sp_K p) (sp_r p) [] false false = Some (a1, pd1, cm1) ->
  Ksat (sp_K p) (objs s) -> hst s <> HSet ->
  exists fp s', exec_r (fun _ => false) (sp_r p) s = ROk fp s' /\
                R a1 (objs s) (objs s') /\ (cm1 = true -> hst s' = HSet) /\
                (cm1 = false -> hst s' <> HSet) /\ (pd1 = false -> pre s' = pre s).
Proof.
  intros [K r] s a1 pd1 cm1 Ec HK Hh. cbn [sp_K sp_r] in *.
  pose proof (Pr_all r (fun _ => false) K [] false false _ (objs s) s Ec HK (R_nil _)) as HG.
  assert (H1 : false = false -> hst s <> HSet) by (intros _; exact Hh).
  assert (H2 : false = true -> hst s = HSet) by (intros Hx; discriminate Hx).
  specialize (HG H1 H2).
  destruct (exec_r (fun _ => false) r s) as [fp s'|s' lk|]; cbn in HG.
  - exists fp, s'. split; [reflexivity|]. tauto.
  - destruct HG as (_ & _ & _ & _ & _ & [i Hi]). discriminate Hi.
  - contradiction.
Qed.

Lemma Ksat_oeq : forall K o o', Ksat K o -> oeq o' o -> Ksat K o'.
Proof. intros K o o' HK He f v Hf. rewrite He. apply HK. exact Hf. Qed.

(* A retry after a failed run behaves like a first run: it succeeds, sets the
   handle, and has the same effect on every field of every pre-existing
   object as a run from the original state. *)
Theorem ladder_retry : forall p orc s s' lk,
  wf p = true -> Ksat (sp_K p) (objs s) -> hst s <> HSet ->
  exec_r orc (sp_r p) s = RErr s' lk ->
  exists fp1 s1 fp2 s2,
    exec_r (fun _ => false) (sp_r p) s = ROk fp1 s1 /\
    exec_r (fun _ => false) (sp_r p) s' = ROk fp2 s2 /\
    oeq (objs s2) (objs s1) /\ (hst s2 = HSet <-> hst s1 = HSet) /\ pre s' = pre s.
Proof.
  intros p orc s s' lk Hwf HK Hh He.
  pose proof (ladder_atomic p orc s Hwf HK Hh) as HA. rewrite He in HA.
  destruct HA as (_ & Hpre & Ho & Hh' & _ & _).
  unfold wf in Hwf.
  destruct (chk_r (sp_K p) (sp_r p) [] false false) as [[[a1 pd1] cm1]|] eqn:Ec; [|discriminate].
  destruct (ladder_commits p s a1 pd1 cm1 Ec HK Hh) as (fp1 & s1 & E1 & R1 & C1 & N1 & _).
  destruct (ladder_commits p s' a1 pd1 cm1 Ec (Ksat_oeq _ _ _ HK Ho) Hh') as (fp2 & s2 & E2 & R2 & C2 & N2 & _).
  exists fp1, s1, fp2, s2. repeat split; auto.
  - intros f. rewrite R2, R1, Ho. reflexivity.
  - intros H2. destruct cm1; [apply C1; reflexivity|]. exfalso. apply N2; auto.
  - intros H1. destruct cm1; [apply C2; reflexivity|]. exfalso. apply N1; auto.
Qed.
