(* C18 -- allocation-failure ladders.  Model only (executable Gallina; proofs
   are in LadderProofs.v).

   A creating/initialising routine of Argobots is a straight-line list of
   steps.  Every fallible step carries the clean-up the C code performs in its
   failure branch: an explicit list of undo actions (the frees written before
   ABTI_HANDLE_ERROR / `return abt_errno`), optionally followed by `goto FAILED`,
   i.e. by the routine's init_stage ladder (`if (init_stage >= n) {...}` blocks,
   src/stream.c xstream_create, src/global.c init_library,
   src/arch/abtd_stream.c ABTD_xstream_context_create).

   The semantics runs a routine against a fault oracle (which acquisition
   attempts fail) on a state made of
     - the resource ledger: resources owned by the running invocation (its
       environment), resources handed to a cache of the runtime (memory-pool
       pages, unit-map elements: released at finalize only), and the named
       resources of pre-existing objects;
     - the abstract fields of pre-existing objects (integers: use flags,
       reference counts, list lengths, pool ids);
     - the state of the caller's output handle.  *)
From Coq Require Import List String ZArith Bool Arith.
Import ListNotations.
Local Open Scope string_scope.

(* what rtrace (test/leakcheck/rtrace.c) can make fail *)
Inductive kind := KMalloc | KRealloc | KMemalign | KMmap | KThread | KMutex | KCond | KBarrier.

Inductive owner :=
| Own     (* owned by the invocation until freed or returned as part of its result *)
| Cache.  (* given to a cache of the runtime at once (mem_pool.c pages, unit.c map elements) *)

Inductive undo :=
| UFree (x : string)            (* release everything bound to the local name x *)
| UAssign (f : string) (v : Z)  (* field of a pre-existing object := constant *)
| UAdd (f : string) (d : Z)     (* field += d (reference counts, list lengths) *)
| UFreePre (p : string).        (* releases a resource of a PRE-EXISTING object *)

(* failure branch: explicit clean-up, then `goto FAILED` (the ladder) if true *)
Definition fail_action := (list undo * bool)%type.

Inductive step :=
| SAcq (x sz : string) (ks ksd : list kind) (o : owner) (onf : fail_action)
    (* acquisition with fall-backs tried in order (ABTU_alloc_largepage): ks in
       normal mode, ksd when the large-page probe failed; sz names the size
       class for the correspondence check; the step fails when all fail *)
| SProbe (sz : string) (k : kind)
    (* ABTU_is_supported_largepage_type: acquire and release at once; a failure
       is tolerated and switches to the degraded allocation mode *)
| SAcqOpt (sz : string) (k : kind)
    (* temporary whose failure is tolerated (warning text in
       xstream_update_max_xstreams); released at once *)
| SFree (x : string)              (* success-path release of a temporary *)
| SGuard (f : string) (v : Z) (onf : fail_action)  (* ABTI_CHECK_TRUE(field == v) *)
| SAssign (f : string) (v : Z)
| SAdd (f : string) (d : Z)
| SStage (n : nat)                (* init_stage = n *)
| SMode (b : bool)                (* ABTD_env_init sets the page mode (true: malloc only) *)
| SNullOut                        (* Argobots 1.x: *out = ABT_xxx_NULL on entry *)
| SCommit                         (* *out = handle of the new object *)
| SFreePre (p : string)           (* success path releases a pre-existing resource *)
| SCall (x : string) (c : routine) (onf : fail_action)
with routine := Routine (body : list step) (ladder : list (nat * list undo)).

(* ------------------------------------------------------------------ state *)
Inductive hstate := HUntouched | HNull | HSet.

Record st := mkSt {
  ops : nat;                      (* acquisition attempts so far (oracle index) *)
  nid : nat;                      (* successful acquisitions so far (= rtrace allocid) *)
  cache : list nat;               (* ids handed to runtime caches *)
  pre : list string;              (* resources of pre-existing objects *)
  objs : list (string * Z);       (* fields of pre-existing objects, latest first *)
  mode : bool;                    (* true: large-page probe failed (malloc pages) *)
  hst : hstate;
  trace : list (kind * string * bool)  (* attempts, latest first (driver only) *)
}.

Fixpoint get (o : list (string * Z)) (f : string) : Z :=
  match o with
  | [] => 0
  | (g, v) :: o' => if String.eqb f g then v else get o' f
  end.

Definition set_obj (s : st) (f : string) (v : Z) : st :=
  mkSt (ops s) (nid s) (cache s) (pre s) ((f, v) :: objs s) (mode s) (hst s) (trace s).
Definition set_pre (s : st) (p : list string) : st :=
  mkSt (ops s) (nid s) (cache s) p (objs s) (mode s) (hst s) (trace s).
Definition set_mode (s : st) (m : bool) : st :=
  mkSt (ops s) (nid s) (cache s) (pre s) (objs s) m (hst s) (trace s).
Definition set_h (s : st) (h : hstate) : st :=
  mkSt (ops s) (nid s) (cache s) (pre s) (objs s) (mode s) h (trace s).
Definition add_cache (s : st) (id : nat) : st :=
  mkSt (ops s) (nid s) (id :: cache s) (pre s) (objs s) (mode s) (hst s) (trace s).
(* one acquisition attempt of kind k: logged; on success a fresh id is used *)
Definition attempt (s : st) (k : kind) (sz : string) (ok : bool) : st :=
  mkSt (S (ops s)) (if ok then S (nid s) else nid s) (cache s) (pre s) (objs s) (mode s) (hst s)
       ((k, sz, ok) :: trace s).

Fixpoint remove_str (p : string) (l : list string) : list string :=
  match l with
  | [] => []
  | q :: l' => if String.eqb p q then l' else q :: remove_str p l'
  end.

(* environment of one invocation: local name -> ids it stands for *)
Definition env := list (string * list nat).
Definition flat_ids (e : env) : list nat := flat_map snd e.

Fixpoint unbind (x : string) (e : env) : option env :=
  match e with
  | [] => None
  | (y, ids) :: e' =>
      if String.eqb x y then Some e'
      else match unbind x e' with Some e'' => Some ((y, ids) :: e'') | None => None end
  end.

(* fall-back chain: every try is one attempt *)
Fixpoint try_alts (orc : nat -> bool) (sz : string) (ks : list kind) (s : st) : st * option nat :=
  match ks with
  | [] => (s, None)
  | k :: ks' =>
      if orc (ops s) then try_alts orc sz ks' (attempt s k sz false)
      else (attempt s k sz true, Some (nid s))
  end.

Definition run_undo (u : undo) (e : env) (s : st) : option (env * st) :=
  match u with
  | UFree x => match unbind x e with Some e' => Some (e', s) | None => None end
  | UAssign f v => Some (e, set_obj s f v)
  | UAdd f d => Some (e, set_obj s f (get (objs s) f + d)%Z)
  | UFreePre p => Some (e, set_pre s (remove_str p (pre s)))
  end.

Fixpoint run_undos (us : list undo) (e : env) (s : st) : option (env * st) :=
  match us with
  | [] => Some (e, s)
  | u :: us' => match run_undo u e s with
                | Some (e', s') => run_undos us' e' s'
                | None => None
                end
  end.

Definition ladder_undos (stg : nat) (lad : list (nat * list undo)) : list undo :=
  flat_map (fun t => if Nat.leb (fst t) stg then snd t else []) lad.

(* result of running a routine: its footprint (ids it still owns) on success;
   on error the ids it failed to release (a leak); RStuck = the clean-up code
   released something it does not hold (double / invalid free) *)
Inductive res :=
| ROk (fp : list nat) (s : st)
| RErr (s : st) (leaked : list nat)
| RStuck.

Definition do_fail (lad : list (nat * list undo)) (onf : fail_action) (e : env) (stg : nat)
           (s : st) (leaked_in : list nat) : res :=
  match run_undos (fst onf ++ (if snd onf then ladder_undos stg lad else [])) e s with
  | Some (e', s') => RErr s' (leaked_in ++ flat_ids e')
  | None => RStuck
  end.

Fixpoint exec_r (orc : nat -> bool) (r : routine) (s : st) {struct r} : res :=
  match r with
  | Routine body lad =>
    (fix go (l : list step) (e : env) (stg : nat) (s : st) {struct l} : res :=
       match l with
       | [] => ROk (flat_ids e) s
       | stp :: l' =>
         match stp with
         | SAcq x sz ks ksd o onf =>
             match try_alts orc sz (if mode s then ksd else ks) s with
             | (s1, Some id) =>
                 match o with
                 | Own => go l' ((x, [id]) :: e) stg s1
                 | Cache => go l' e stg (add_cache s1 id)
                 end
             | (s1, None) => do_fail lad onf e stg s1 []
             end
         | SProbe sz k =>
             if orc (ops s) then go l' e stg (set_mode (attempt s k sz false) true)
             else go l' e stg (attempt s k sz true)
         | SAcqOpt sz k =>
             if orc (ops s) then go l' e stg (attempt s k sz false)
             else go l' e stg (attempt s k sz true)
         | SFree x => match unbind x e with Some e' => go l' e' stg s | None => RStuck end
         | SGuard f v onf =>
             if Z.eqb (get (objs s) f) v then go l' e stg s else do_fail lad onf e stg s []
         | SAssign f v => go l' e stg (set_obj s f v)
         | SAdd f d => go l' e stg (set_obj s f (get (objs s) f + d)%Z)
         | SStage n => go l' e n s
         | SMode b => go l' e stg (set_mode s b)
         | SNullOut => go l' e stg (set_h s HNull)
         | SCommit => go l' e stg (set_h s HSet)
         | SFreePre p => go l' e stg (set_pre s (remove_str p (pre s)))
         | SCall x c onf =>
             match exec_r orc c s with
             | ROk fp s1 => go l' ((x, fp) :: e) stg s1
             | RErr s1 lk => do_fail lad onf e stg s1 lk
             | RStuck => RStuck
             end
         end
       end) body [] 0 s
  end.

(* the same list-level function as a top-level definition (LadderProofs shows
   exec_r (Routine body lad) s = exec_steps lad body [] 0 s) *)
Fixpoint exec_steps (orc : nat -> bool) (lad : list (nat * list undo)) (l : list step) (e : env)
         (stg : nat) (s : st) {struct l} : res :=
  match l with
  | [] => ROk (flat_ids e) s
  | stp :: l' =>
    match stp with
    | SAcq x sz ks ksd o onf =>
        match try_alts orc sz (if mode s then ksd else ks) s with
        | (s1, Some id) =>
            match o with
            | Own => exec_steps orc lad l' ((x, [id]) :: e) stg s1
            | Cache => exec_steps orc lad l' e stg (add_cache s1 id)
            end
        | (s1, None) => do_fail lad onf e stg s1 []
        end
    | SProbe sz k =>
        if orc (ops s) then exec_steps orc lad l' e stg (set_mode (attempt s k sz false) true)
        else exec_steps orc lad l' e stg (attempt s k sz true)
    | SAcqOpt sz k =>
        if orc (ops s) then exec_steps orc lad l' e stg (attempt s k sz false)
        else exec_steps orc lad l' e stg (attempt s k sz true)
    | SFree x => match unbind x e with Some e' => exec_steps orc lad l' e' stg s | None => RStuck end
    | SGuard f v onf =>
        if Z.eqb (get (objs s) f) v then exec_steps orc lad l' e stg s else do_fail lad onf e stg s []
    | SAssign f v => exec_steps orc lad l' e stg (set_obj s f v)
    | SAdd f d => exec_steps orc lad l' e stg (set_obj s f (get (objs s) f + d)%Z)
    | SStage n => exec_steps orc lad l' e n s
    | SMode b => exec_steps orc lad l' e stg (set_mode s b)
    | SNullOut => exec_steps orc lad l' e stg (set_h s HNull)
    | SCommit => exec_steps orc lad l' e stg (set_h s HSet)
    | SFreePre p => exec_steps orc lad l' e stg (set_pre s (remove_str p (pre s)))
    | SCall x c onf =>
        match exec_r orc c s with
        | ROk fp s1 => exec_steps orc lad l' ((x, fp) :: e) stg s1
        | RErr s1 lk => do_fail lad onf e stg s1 lk
        | RStuck => RStuck
        end
    end
  end.

(* ------------------------------------------------- well-formedness checker *)
(* abstract value of a field: entry value + d, or a known constant *)
Inductive aval := Rel (d : Z) | Abs (v : Z).
Definition amap := list (string * aval).

Fixpoint alook (a : amap) (f : string) : aval :=
  match a with
  | [] => Rel 0
  | (g, v) :: a' => if String.eqb f g then v else alook a' f
  end.

Fixpoint klook (K : list (string * Z)) (f : string) : option Z :=
  match K with
  | [] => None
  | (g, v) :: K' => if String.eqb f g then Some v else klook K' f
  end.

Definition aadd (v : aval) (d : Z) : aval :=
  match v with Rel e => Rel (e + d) | Abs w => Abs (w + d) end.

(* K: what the caller guarantees about the entry state (field = value) *)
Definition canon (K : list (string * Z)) (f : string) (v : aval) : aval :=
  match v with
  | Abs _ => v
  | Rel d => match klook K f with Some e => Abs (e + d) | None => Rel d end
  end.

Definition aval_eqb (u v : aval) : bool :=
  match u, v with
  | Rel a, Rel b => Z.eqb a b
  | Abs a, Abs b => Z.eqb a b
  | _, _ => false
  end.

(* every field has, at a failure exit, the value it had at the routine's entry *)
Definition restored (K : list (string * Z)) (a0 a : amap) : bool :=
  forallb (fun f => aval_eqb (canon K f (alook a f)) (canon K f (alook a0 f)))
          (map fst a ++ map fst a0).

Fixpoint mem_str (x : string) (l : list string) : bool :=
  match l with [] => false | y :: l' => String.eqb x y || mem_str x l' end.

Fixpoint aunbind (x : string) (al : list string) : option (list string) :=
  match al with
  | [] => None
  | y :: al' => if String.eqb x y then Some al'
                else match aunbind x al' with Some r => Some (y :: r) | None => None end
  end.

(* abstract state at a program point: live local names (mirror of the
   environment), field values, "a pre-existing resource was released",
   "the output handle was written" *)
Record astate := mkA { a_live : list string; a_map : amap; a_pd : bool; a_cm : bool }.

Definition aundo (u : undo) (t : astate) : option astate :=
  match u with
  | UFree x => match aunbind x (a_live t) with
               | Some al => Some (mkA al (a_map t) (a_pd t) (a_cm t))
               | None => None
               end
  | UAssign f v => Some (mkA (a_live t) ((f, Abs v) :: a_map t) (a_pd t) (a_cm t))
  | UAdd f d => Some (mkA (a_live t) ((f, aadd (alook (a_map t) f) d) :: a_map t) (a_pd t) (a_cm t))
  | UFreePre p => Some (mkA (a_live t) (a_map t) true (a_cm t))
  end.

Fixpoint aundos (us : list undo) (t : astate) : option astate :=
  match us with
  | [] => Some t
  | u :: us' => match aundo u t with Some t' => aundos us' t' | None => None end
  end.

(* a failure exit is clean: nothing owned is left, every field is back, no
   pre-existing resource was released, the handle was not written *)
Definition chk_fail (K : list (string * Z)) (lad : list (nat * list undo)) (a0 : amap)
           (onf : fail_action) (stg : nat) (t : astate) : bool :=
  match aundos (fst onf ++ (if snd onf then ladder_undos stg lad else [])) t with
  | Some t' =>
      match a_live t' with [] => true | _ => false end
      && restored K a0 (a_map t') && negb (a_pd t') && negb (a_cm t')
  | None => false
  end.

Definition nonempty {A} (l : list A) : bool := match l with [] => false | _ => true end.

(* result: exit abstract map, pd, cm.  A guard must pass under K (K is the
   precondition of the scenario); its failure branch is checked all the same *)
Fixpoint chk_r (K : list (string * Z)) (r : routine) (a0 : amap) (pd cm : bool) {struct r}
  : option (amap * bool * bool) :=
  match r with
  | Routine body lad =>
    (fix go (l : list step) (stg : nat) (t : astate) {struct l}
       : option (amap * bool * bool) :=
       match l with
       | [] => Some (a_map t, a_pd t, a_cm t)
       | stp :: l' =>
         match stp with
         | SAcq x sz ks ksd o onf =>
             if chk_fail K lad a0 onf stg t && nonempty ks && nonempty ksd then
               match o with
               | Own => if mem_str x (a_live t) then None
                        else go l' stg (mkA (x :: a_live t) (a_map t) (a_pd t) (a_cm t))
               | Cache => go l' stg t
               end
             else None
         | SProbe _ _ => go l' stg t
         | SAcqOpt _ _ => go l' stg t
         | SFree x => match aunbind x (a_live t) with
                      | Some al => go l' stg (mkA al (a_map t) (a_pd t) (a_cm t))
                      | None => None
                      end
         | SGuard f v onf =>
             if chk_fail K lad a0 onf stg t && aval_eqb (canon K f (alook (a_map t) f)) (Abs v)
             then go l' stg t
             else None
         | SAssign f v => go l' stg (mkA (a_live t) ((f, Abs v) :: a_map t) (a_pd t) (a_cm t))
         | SAdd f d =>
             go l' stg (mkA (a_live t) ((f, aadd (alook (a_map t) f) d) :: a_map t) (a_pd t) (a_cm t))
         | SStage n => go l' n t
         | SMode _ => go l' stg t
         | SNullOut => if a_cm t then None else go l' stg t
         | SCommit => go l' stg (mkA (a_live t) (a_map t) (a_pd t) true)
         | SFreePre p => go l' stg (mkA (a_live t) (a_map t) true (a_cm t))
         | SCall x c onf =>
             if mem_str x (a_live t) || a_cm t then None   (* no call after the commit *)
             else match chk_r K c (a_map t) (a_pd t) (a_cm t) with
                  | Some (a1, pd1, cm1) =>
                      (* callee failed => state is the one at its entry (t) *)
                      if chk_fail K lad a0 onf stg t
                      then go l' stg (mkA (x :: a_live t) a1 (a_pd t || pd1) cm1)
                      else None
                  | None => None
                  end
         end
       end) body 0 (mkA [] a0 pd cm)
  end.

Fixpoint chk_steps (K : list (string * Z)) (lad : list (nat * list undo)) (a0 : amap)
         (l : list step) (stg : nat) (t : astate) {struct l}
  : option (amap * bool * bool) :=
  match l with
  | [] => Some (a_map t, a_pd t, a_cm t)
  | stp :: l' =>
    match stp with
    | SAcq x sz ks ksd o onf =>
        if chk_fail K lad a0 onf stg t && nonempty ks && nonempty ksd then
          match o with
          | Own => if mem_str x (a_live t) then None
                   else chk_steps K lad a0 l' stg (mkA (x :: a_live t) (a_map t) (a_pd t) (a_cm t))
          | Cache => chk_steps K lad a0 l' stg t
          end
        else None
    | SProbe _ _ => chk_steps K lad a0 l' stg t
    | SAcqOpt _ _ => chk_steps K lad a0 l' stg t
    | SFree x => match aunbind x (a_live t) with
                 | Some al => chk_steps K lad a0 l' stg (mkA al (a_map t) (a_pd t) (a_cm t))
                 | None => None
                 end
    | SGuard f v onf =>
        if chk_fail K lad a0 onf stg t && aval_eqb (canon K f (alook (a_map t) f)) (Abs v)
        then chk_steps K lad a0 l' stg t
        else None
    | SAssign f v => chk_steps K lad a0 l' stg (mkA (a_live t) ((f, Abs v) :: a_map t) (a_pd t) (a_cm t))
    | SAdd f d =>
        chk_steps K lad a0 l' stg
                  (mkA (a_live t) ((f, aadd (alook (a_map t) f) d) :: a_map t) (a_pd t) (a_cm t))
    | SStage n => chk_steps K lad a0 l' n t
    | SMode _ => chk_steps K lad a0 l' stg t
    | SNullOut => if a_cm t then None else chk_steps K lad a0 l' stg t
    | SCommit => chk_steps K lad a0 l' stg (mkA (a_live t) (a_map t) (a_pd t) true)
    | SFreePre p => chk_steps K lad a0 l' stg (mkA (a_live t) (a_map t) true (a_cm t))
    | SCall x c onf =>
        if mem_str x (a_live t) || a_cm t then None
        else match chk_r K c (a_map t) (a_pd t) (a_cm t) with
             | Some (a1, pd1, cm1) =>
                 if chk_fail K lad a0 onf stg t
                 then chk_steps K lad a0 l' stg (mkA (x :: a_live t) a1 (a_pd t || pd1) cm1)
                 else None
             | None => None
             end
    end
  end.

(* a routine together with what its caller guarantees about the entry state *)
Record spec := mkSpec { sp_K : list (string * Z); sp_r : routine }.

(* well formed: every failure exit is clean and every guard passes under K *)
Definition wf (p : spec) : bool :=
  match chk_r (sp_K p) (sp_r p) [] false false with
  | Some _ => true
  | None => false
  end.

(* ------------------------------------------------------- driver interface *)
Definition init_st (K : list (string * Z)) (pre0 : list string) (m : bool) : st :=
  mkSt 0 0 [] pre0 K m HUntouched [].

Definition oracle_of (fails : list nat) : nat -> bool :=
  fun i => existsb (Nat.eqb (S i)) fails.   (* positions are 1-based *)

(* one attempt = one call from the current state, attempt-local counters *)
Definition begin_attempt (s : st) : st :=
  mkSt 0 (nid s) (cache s) (pre s) (objs s) (mode s) HUntouched [].
