From ABT Require Import Conc.Sched.
