From Coq Require Import List ZArith Bool.
From Coq Require Import ExtrOcamlBasic.
From ABT Require Import Conc.Mutex.
Extraction Language OCaml.
Extraction "../ocaml/extracted/c04.ml"
  Z.add Z.mul Z.opp Z.sub Z.div Z.modulo Z.eqb Z.of_nat
  Mutex.step Mutex.init Mutex.replay Mutex.holds Mutex.queued.
