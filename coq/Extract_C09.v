From Coq Require Import List ZArith Bool.
From Coq Require Import ExtrOcamlBasic.
From ABT Require Import Conc.EvCommon Conc.Eventual Conc.Future.
Extraction Language OCaml.
Extraction "../ocaml/extracted/c09.ml"
  Z.add Z.mul Z.opp Z.sub Z.div Z.modulo Z.eqb Z.of_nat
  Eventual.vstep Eventual.vinit Eventual.vqueued Eventual.vinlock
  Future.fstep Future.finit Future.fqueued Future.finlock.
