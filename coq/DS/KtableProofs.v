(* Proofs about DS/Ktable.v (sequential model of the work-unit-local storage). *)
From Coq Require Import List ZArith Bool Lia.
From ABT Require Import Common.ListAux DS.Ktable.
Import ListNotations.
Local Open Scope Z_scope.

(* ------------------------------------------------------------------ index *)
Definition pow2 (n : Z) : Prop := exists k, 0 <= k /\ n = 2 ^ k.

Lemma pow2_pos n : pow2 n -> 0 < n.
Proof. intros (k & Hk & ->). apply Z.pow_pos_nonneg; lia. Qed.

Lemma get_idx_mod id size : pow2 size -> Z.of_nat (get_idx id size) = id mod size.
Proof.
  intros (k & Hk & ->). unfold get_idx.
  replace (2 ^ k - 1) with (Z.ones k) by (rewrite Z.ones_equiv; lia).
  rewrite Z.land_ones by lia.
  rewrite Z2Nat.id; auto. apply Z.mod_pos_bound. apply Z.pow_pos_nonneg; lia.
Qed.

Lemma get_idx_range id size : pow2 size -> (get_idx id size < Z.to_nat size)%nat.
Proof.
  intros H. pose proof (get_idx_mod id size H) as E. pose proof (pow2_pos _ H).
  pose proof (Z.mod_pos_bound id size ltac:(lia)). lia.
Qed.

(* ------------------------------------------------------------------ env: the table size is a power of two *)
Lemma pow2_loop_range v i fuel : i <= pow2_loop v i fuel <= i + Z.of_nat fuel.
Proof.
  revert i; induction fuel as [|f IH]; intros i; cbn [pow2_loop]; [lia|].
  destruct (Z.shiftr (v - 1) i =? 0); [lia|]. specialize (IH (i + 1)). lia.
Qed.

Lemma roundup_pow2_is_pow2 v : v <> 0 -> pow2 (roundup_pow2_uint32 v).
Proof.
  intros Hv. unfold roundup_pow2_uint32. destruct (Z.eqb_spec v 0); [congruence|].
  pose proof (pow2_loop_range v 0 31). exists (pow2_loop v 0 31). split; [lia|].
  rewrite Z.shiftl_1_l. reflexivity.
Qed.

Lemma env_size_pow2 env : pow2 (env_key_table_size env).
Proof.
  apply roundup_pow2_is_pow2. unfold load_env_uint32. lia.
Qed.

(* the loop stops at the first i with (v-1) >> i = 0, i.e. v <= 2^i *)
Lemma pow2_loop_first v i fuel :
  0 <= i -> 1 <= v -> (forall j, 0 <= j < i -> 2 ^ j < v) ->
  let r := pow2_loop v i fuel in
  (forall j, 0 <= j < r -> 2 ^ j < v) /\ (r < i + Z.of_nat fuel -> v <= 2 ^ r).
Proof.
  revert i; induction fuel as [|f IH]; intros i Hi Hv Hlt; cbn [pow2_loop]; cbv zeta.
  - split; [auto|lia].
  - destruct (Z.eqb_spec (Z.shiftr (v - 1) i) 0) as [E|E].
    + split; auto. intros _. rewrite Z.shiftr_div_pow2 in E by lia.
      assert (0 < 2 ^ i) by (apply Z.pow_pos_nonneg; lia).
      assert (v - 1 < 2 ^ i); [|lia].
      apply Z.div_small_iff in E; lia.
    + assert (2 ^ i < v).
      { rewrite Z.shiftr_div_pow2 in E by lia.
        assert (0 < 2 ^ i) by (apply Z.pow_pos_nonneg; lia).
        destruct (Z_lt_le_dec (v - 1) (2 ^ i)); [|lia].
        exfalso. apply E. apply Z.div_small. lia. }
      specialize (IH (i + 1) ltac:(lia) Hv).
      cbv zeta in IH. destruct IH as [I1 I2].
      { intros j Hj. destruct (Z.eq_dec j i); [subst; auto|apply Hlt; lia]. }
      split; auto. intros. apply I2. lia.
Qed.

(* for 1 <= v <= 2^31 the result is the least power of two >= v *)
Lemma roundup_pow2_least v : 1 <= v <= 2 ^ 31 ->
  exists k, 0 <= k <= 31 /\ roundup_pow2_uint32 v = 2 ^ k /\ v <= 2 ^ k /\ (forall j, 0 <= j < k -> 2 ^ j < v).
Proof.
  intros Hv. unfold roundup_pow2_uint32. destruct (Z.eqb_spec v 0); [lia|].
  pose proof (pow2_loop_range v 0 31) as Hr.
  destruct (pow2_loop_first v 0 31 ltac:(lia) ltac:(lia) ltac:(intros; lia)) as [H1 H2].
  exists (pow2_loop v 0 31). rewrite Z.shiftl_1_l.
  split; [lia|]. split; [reflexivity|]. split; [|exact H1].
  destruct (Z.eq_dec (pow2_loop v 0 31) 31) as [E|E].
  - rewrite E. lia.
  - apply H2. lia.
Qed.

(* ------------------------------------------------------------------ chains *)
Definition chain_find (c : list ktelem) (id : Z) : option ktelem :=
  find (fun e => e_key e =? id) c.

Lemma walk_found c id : forall pos i, chain_walk c id pos = inl i ->
  exists j e, i = (pos + j)%nat /\ nth_error c j = Some e /\ e_key e = id /\
              chain_find (firstn j c) id = None.
Proof.
  induction c as [|a c IH]; intros pos i H; cbn in H; [discriminate|].
  destruct (Z.eqb_spec (e_key a) id) as [E|E].
  - inversion H; subst. exists O, a. repeat split; auto; lia.
  - destruct (IH _ _ H) as (j & e & -> & Hn & Hk & Hf).
    exists (S j), e. repeat split; auto; try lia.
    cbn. destruct (Z.eqb_spec (e_key a) id); [congruence|auto].
Qed.

Lemma walk_tail c id : forall pos n, chain_walk c id pos = inr n ->
  n = (pos + length c)%nat /\ chain_find c id = None.
Proof.
  induction c as [|a c IH]; intros pos n H; cbn in H.
  - inversion H; subst. split; [cbn; lia|reflexivity].
  - destruct (Z.eqb_spec (e_key a) id) as [E|E]; [discriminate|].
    destruct (IH _ _ H) as [-> Hf]. split; [cbn; lia|].
    cbn. destruct (Z.eqb_spec (e_key a) id); [congruence|auto].
Qed.

Lemma chain_find_none c id : chain_find c id = None <-> ~ In id (map e_key c).
Proof.
  induction c as [|a c IH]; cbn; [tauto|].
  destruct (Z.eqb_spec (e_key a) id); [intuition congruence|]. rewrite IH. intuition.
Qed.

Lemma chain_find_some c id e : chain_find c id = Some e -> In e c /\ e_key e = id.
Proof.
  unfold chain_find. intros H. apply find_some in H. destruct H as [H1 H2].
  split; auto. apply Z.eqb_eq; auto.
Qed.

Lemma chain_find_in c id : In id (map e_key c) -> exists e, chain_find c id = Some e.
Proof.
  intros H. destruct (chain_find c id) eqn:E; eauto.
  apply chain_find_none in E. tauto.
Qed.

Lemma chain_get_find c id :
  chain_get c id = match chain_find c id with Some e => e_val e | None => 0 end.
Proof.
  induction c as [|a c IH]; cbn; auto. destruct (e_key a =? id); auto.
Qed.

Lemma chain_find_prefix c j e id :
  nth_error c j = Some e -> e_key e = id -> chain_find (firstn j c) id = None ->
  chain_find c id = Some e.
Proof.
  revert c; induction j as [|j IH]; intros [|a c] Hn Hk Hf; try discriminate.
  - cbn in *. inversion Hn; subst. destruct (Z.eqb_spec (e_key e) (e_key e)); congruence.
  - cbn in Hn. cbn in Hf |- *. destruct (e_key a =? id); [discriminate|].
    apply IH; auto.
Qed.

(* p_elem->value = value on the first element that carries the key *)
Lemma chain_find_store c j e v id id' :
  nth_error c j = Some e -> e_key e = id -> chain_find (firstn j c) id = None ->
  chain_find (chain_store c j v) id' =
  if id' =? id then Some (set_val e v) else chain_find c id'.
Proof.
  revert j; induction c as [|a c IH]; intros j Hn Hk Hf; [destruct j; discriminate|].
  destruct j as [|j].
  - cbn in Hn. inversion Hn; subst a. unfold chain_store. cbn.
    rewrite Hk. rewrite (Z.eqb_sym id id'). destruct (Z.eqb_spec id' id); auto.
  - cbn in Hn. cbn in Hf. destruct (Z.eqb_spec (e_key a) id) as [E|E]; [discriminate|].
    unfold chain_store in *. cbn [nth upd_nth]. cbn [chain_find find].
    fold (chain_find (upd_nth c j (set_val (nth j c dummy_elem) v)) id').
    fold (chain_find c id'). rewrite (IH j Hn Hk Hf).
    destruct (Z.eqb_spec (e_key a) id'); auto.
    destruct (Z.eqb_spec id' id); auto. congruence.
Qed.

Lemma chain_store_keys c j v : map e_key (chain_store c j v) = map e_key c.
Proof.
  unfold chain_store. revert j; induction c as [|a c IH]; intros [|j]; cbn; auto.
  f_equal. apply IH.
Qed.

Lemma chain_store_length c j v : length (chain_store c j v) = length c.
Proof. unfold chain_store. apply upd_nth_length. Qed.

Lemma chain_find_app c e id' :
  chain_find (c ++ [e]) id' =
  match chain_find c id' with Some x => Some x | None => if e_key e =? id' then Some e else None end.
Proof.
  induction c as [|a c IH]; cbn; auto. destruct (e_key a =? id'); auto.
Qed.

(* ------------------------------------------------------------------ tables *)
Record twf (t : ktable) : Prop := {
  wf_pow2 : pow2 (t_size t);
  wf_len  : length (t_elems t) = Z.to_nat (t_size t)
}.

(* what a table holds for a key id: (destructor, value) of the first element that
   carries it in the slot the id maps to *)
Definition tfind (ot : option ktable) (id : Z) : option (Z * Z) :=
  match ot with
  | None => None
  | Some t => match chain_find (nth_chain t (get_idx id (t_size t))) id with
              | Some e => Some (e_dtor e, e_val e)
              | None => None
              end
  end.

Lemma ktable_get_tfind ot k :
  ktable_get ot k = match tfind ot (k_id k) with Some (_, v) => v | None => 0 end.
Proof.
  destruct ot as [t|]; cbn; auto. rewrite chain_get_find.
  destruct (chain_find _ _); auto.
Qed.

Lemma nth_chain_with_eq t i c : (i < length (t_elems t))%nat -> nth_chain (with_chain t i c) i = c.
Proof. intros. unfold nth_chain, with_chain; cbn. apply nth_upd_nth_eq; auto. Qed.
Lemma nth_chain_with_ne t i j c : i <> j -> nth_chain (with_chain t i c) j = nth_chain t j.
Proof. intros. unfold nth_chain, with_chain; cbn. apply nth_upd_nth_ne; auto. Qed.

Lemma twf_with_chain t i c : twf t -> twf (with_chain t i c).
Proof. intros [H1 H2]. split; cbn; auto. rewrite upd_nth_length; auto. Qed.

(* ktable_alloc_elem touches neither the size nor the chains *)
Lemma alloc_elem_same cfg t size ext fail L L' t' r :
  ktable_alloc_elem cfg t size ext fail L = (L', t', r) ->
  t_size t' = t_size t /\ t_elems t' = t_elems t /\ (r = None -> t' = t /\ L' = L).
Proof.
  unfold ktable_alloc_elem. intros H.
  destruct (size <=? t_extra_size t).
  { inversion H; subst; cbn. repeat split; auto; discriminate. }
  destruct (size <=? c_desc cfg).
  { destruct fail. { inversion H; subst; repeat split; auto. }
    unfold l_alloc in H; cbn in H. inversion H; subst; cbn. repeat split; auto; discriminate. }
  destruct fail. { inversion H; subst; repeat split; auto. }
  unfold l_alloc in H; cbn in H. inversion H; subst; cbn. repeat split; auto; discriminate.
Qed.

Lemma alloc_elem_nofail cfg t size ext L :
  exists L' t' p, ktable_alloc_elem cfg t size ext false L = (L', t', Some p).
Proof.
  unfold ktable_alloc_elem.
  destruct (size <=? t_extra_size t); [eauto|].
  destruct (size <=? c_desc cfg); unfold l_alloc; cbn; eauto.
Qed.

(* The effect of ABTI_ktable_set_impl on what the table holds. *)
Lemma set_impl_spec cfg t k v ext fail L L' t' rc :
  twf t ->
  ktable_set_impl cfg t k v ext fail L = (L', t', rc) ->
  twf t' /\ t_size t' = t_size t /\
  (rc = 0 \/ (rc = ERR_MEM /\ fail = true)) /\
  (rc = 0 -> forall id',
      tfind (Some t') id' =
      if id' =? k_id k
      then Some (match tfind (Some t) (k_id k) with Some (d, _) => d | None => k_dtor k end, v)
      else tfind (Some t) id') /\
  (rc <> 0 -> t' = t /\ L' = L).
Proof.
  intros W H. unfold ktable_set_impl in H.
  set (idx := get_idx (k_id k) (t_size t)) in *.
  assert (Hidx : (idx < length (t_elems t))%nat).
  { rewrite (wf_len _ W). apply get_idx_range. apply (wf_pow2 _ W). }
  set (c := nth_chain t idx) in *.
  (* what a store on element j of the chain does *)
  assert (STORE : forall j e, nth_error c j = Some e -> e_key e = k_id k ->
             chain_find (firstn j c) (k_id k) = None ->
             forall id', tfind (Some (with_chain t idx (chain_store c j v))) id' =
               if id' =? k_id k
               then Some (match tfind (Some t) (k_id k) with Some (d, _) => d | None => k_dtor k end, v)
               else tfind (Some t) id').
  { intros j e Hn Hk Hf id'. cbn [tfind with_chain t_size].
    assert (Hfull : chain_find c (k_id k) = Some e) by (eapply chain_find_prefix; eauto).
    fold (with_chain t idx (chain_store c j v)).
    destruct (Z.eqb_spec id' (k_id k)) as [->|Hne].
    - fold idx. rewrite nth_chain_with_eq by auto.
      rewrite (chain_find_store c j e v (k_id k) (k_id k) Hn Hk Hf), Z.eqb_refl.
      fold c. rewrite Hfull. reflexivity.
    - destruct (Nat.eq_dec (get_idx id' (t_size t)) idx) as [Ei|Ei].
      + rewrite Ei, nth_chain_with_eq by auto.
        rewrite (chain_find_store c j e v (k_id k) id' Hn Hk Hf).
        destruct (Z.eqb_spec id' (k_id k)); [congruence|]. fold c. reflexivity.
      + rewrite nth_chain_with_ne by auto. reflexivity. }
  destruct (chain_walk c (k_id k) 0) as [i|n] eqn:E1.
  - (* found in the lock-free walk *)
    inversion H; subst L' t' rc; clear H.
    destruct (walk_found _ _ _ _ E1) as (j & e & -> & Hn & Hk & Hf). cbn [Nat.add].
    split; [apply twf_with_chain; auto|]. split; [reflexivity|]. split; [auto|].
    split; [intros _; apply (STORE j e Hn Hk Hf)|congruence].
  - destruct (walk_tail _ _ _ _ E1) as [-> Hnone]. cbn [Nat.add] in H.
    rewrite skipn_all in H. cbn [chain_walk] in H.
    destruct (ktable_alloc_elem cfg t (ktelem_bytes cfg) ext fail L) as [[L1 t1] [p|]] eqn:EA.
    + inversion H; subst L' t' rc; clear H.
      destruct (alloc_elem_same _ _ _ _ _ _ _ _ _ EA) as (Hs & He & _).
      assert (W1 : twf t1) by (destruct W; split; congruence).
      split; [apply twf_with_chain; auto|]. split; [cbn; auto|]. split; [auto|].
      split; [|congruence]. intros _ id'.
      rewrite firstn_all.
      cbn [tfind with_chain t_size]. rewrite Hs.
      fold (with_chain t1 idx (c ++ [mkE (k_dtor k) (k_id k) v p])).
      assert (Hidx1 : (idx < length (t_elems t1))%nat) by congruence.
      assert (Hc1 : forall j, nth_chain t1 j = nth_chain t j) by (intros; unfold nth_chain; congruence).
      destruct (Z.eqb_spec id' (k_id k)) as [->|Hne].
      * fold idx. rewrite nth_chain_with_eq by auto. rewrite chain_find_app.
        fold c. rewrite Hnone. cbn [e_key e_dtor e_val]. rewrite Z.eqb_refl. reflexivity.
      * destruct (Nat.eq_dec (get_idx id' (t_size t)) idx) as [Ei|Ei].
        -- rewrite Ei, nth_chain_with_eq by auto. rewrite chain_find_app. fold c.
           destruct (chain_find c id'); auto. cbn [e_key].
           destruct (Z.eqb_spec (k_id k) id'); [congruence|reflexivity].
        -- rewrite nth_chain_with_ne by auto. rewrite Hc1. reflexivity.
    + inversion H; subst L' t' rc; clear H.
      destruct (alloc_elem_same _ _ _ _ _ _ _ _ _ EA) as (Hs & He & Hsame).
      destruct (Hsame eq_refl) as [-> ->].
      split; auto. split; auto. split.
      { right. split; auto. unfold ktable_alloc_elem in EA.
        destruct (_ <=? t_extra_size t); [discriminate|].
        destruct (_ <=? c_desc cfg); destruct fail; auto; unfold l_alloc in EA; cbn in EA; discriminate. }
      split; [unfold ERR_MEM; lia|auto].
Qed.

Lemma set_impl_nofail cfg t k v ext L L' t' rc :
  twf t -> ktable_set_impl cfg t k v ext false L = (L', t', rc) -> rc = 0.
Proof.
  intros W H. destruct (set_impl_spec _ _ _ _ _ _ _ _ _ _ W H) as (_ & _ & [E|[_ E]] & _); auto.
  discriminate.
Qed.

(* ABTI_ktable_create *)
Lemma create_spec cfg gsize ext fail L L' ot :
  pow2 gsize ->
  ktable_create cfg gsize ext fail L = (L', ot) ->
  match ot with
  | Some t => twf t /\ t_size t = gsize /\ (forall id, tfind (Some t) id = None) /\ fail = false
  | None => fail = true /\ L' = L
  end.
Proof.
  intros P H. unfold ktable_create in H.
  assert (E : forall i, nth i (repeat (@nil ktelem) (Z.to_nat gsize)) [] = []).
  { intros i. destruct (Nat.lt_ge_cases i (Z.to_nat gsize)).
    - apply nth_repeat.
    - apply nth_overflow. rewrite repeat_length. lia. }
  destruct (_ <=? c_desc cfg); destruct fail; unfold l_alloc in H; cbn in H; inversion H; subst; auto.
  all: repeat split; cbn; auto; try (rewrite repeat_length; auto).
  all: intros id; unfold nth_chain; cbn; rewrite E; reflexivity.
Qed.

(* ABTI_ktable_set (and set_unsafe) on the p_keytable word *)
Definition owf (gsize : Z) (ot : option ktable) : Prop :=
  match ot with Some t => twf t /\ t_size t = gsize | None => True end.

Lemma ktable_set_spec cfg gsize ot k v ext fc fe L L' ot' rc :
  pow2 gsize -> owf gsize ot ->
  ktable_set cfg gsize ot k v ext fc fe L = (L', ot', rc) ->
  owf gsize ot' /\
  (rc = 0 \/ (rc = ERR_MEM /\ (fc = true \/ fe = true))) /\
  (rc = 0 -> forall id',
      tfind ot' id' =
      if id' =? k_id k
      then Some (match tfind ot (k_id k) with Some (d, _) => d | None => k_dtor k end, v)
      else tfind ot id') /\
  (rc <> 0 -> forall id', tfind ot' id' = tfind ot id').
Proof.
  intros P W H. unfold ktable_set in H. destruct ot as [t|].
  - destruct W as [W Hs].
    destruct (ktable_set_impl cfg t k v ext fe L) as [[L1 t1] rc1] eqn:E.
    inversion H; subst; clear H.
    destruct (set_impl_spec _ _ _ _ _ _ _ _ _ _ W E) as (W1 & Hs1 & Hrc & Hok & Hbad).
    split; [cbn; split; auto; congruence|]. split; [intuition|]. split; auto.
    intros Hr id'. destruct (Hbad Hr) as [-> _]. reflexivity.
  - destruct (ktable_create cfg gsize ext fc L) as [L1 [t|]] eqn:EC.
    + pose proof (create_spec _ _ _ _ _ _ _ P EC) as (W1 & Hs & Hemp & Hfc).
      destruct (ktable_set_impl cfg t k v ext fe L1) as [[L2 t2] rc2] eqn:E.
      inversion H; subst; clear H.
      destruct (set_impl_spec _ _ _ _ _ _ _ _ _ _ W1 E) as (W2 & Hs2 & Hrc & Hok & Hbad).
      split; [cbn; split; auto|]. split; [intuition|]. split.
      * intros Hr id'. rewrite (Hok Hr id'), !Hemp. reflexivity.
      * intros Hr id'. destruct (Hbad Hr) as [-> _]. rewrite Hemp. reflexivity.
    + pose proof (create_spec _ _ _ _ _ _ _ P EC) as (Hfc & ->).
      inversion H; subst; clear H. split; [exact I|]. split; [right; auto|].
      split; [unfold ERR_MEM; lia|auto].
Qed.

Lemma ktable_set_unsafe_eq cfg gsize ot k v ext fc fe L :
  ktable_set_unsafe cfg gsize ot k v ext fc fe L = ktable_set cfg gsize ot k v ext fc fe L.
Proof. reflexivity. Qed.
