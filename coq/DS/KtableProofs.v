(* Proofs about DS/Ktable.v (sequential model of the work-unit-local storage). *)
From Coq Require Import List ZArith Bool Lia.
From ABT Require Import Common.ListAux DS.Ktable.
Import ListNotations.
Local Open Scope Z_scope.

(* ------------------------------------------------------------------ index *)
Definition pow2 (n : Z) : Prop := exists k, 0 <= k /\ n = 2 ^ k.

Lemma pow2_pos n : pow2 n -> 0 < n.
Proof. intros (k & Hk & ->). apply Z.pow_pos_nonneg; lia. Qed.

Lemma get_idx_mod id size : pow2 size -> Z.of_nat (get_idx id size) = id mod size.
Proof.
  intros (k & Hk & ->). unfold get_idx.
  replace (2 ^ k - 1) with (Z.ones k) by (rewrite Z.ones_equiv; lia).
  rewrite Z.land_ones by lia.
  rewrite Z2Nat.id; auto. apply Z.mod_pos_bound. apply Z.pow_pos_nonneg; lia.
Qed.

Lemma get_idx_range id size : pow2 size -> (get_idx id size < Z.to_nat size)%nat.
Proof.
  intros H. pose proof (get_idx_mod id size H) as E. pose proof (pow2_pos _ H).
  pose proof (Z.mod_pos_bound id size ltac:(lia)). lia.
Qed.

(* ------------------------------------------------------------------ env: the table size is a power of two *)
Lemma pow2_loop_range v i fuel : i <= pow2_loop v i fuel <= i + Z.of_nat fuel.
Proof.
  revert i; induction fuel as [|f IH]; intros i; cbn [pow2_loop]; [lia|].
  destruct (Z.shiftr (v - 1) i =? 0); [lia|]. specialize (IH (i + 1)). lia.
Qed.

Lemma roundup_pow2_is_pow2 v : v <> 0 -> pow2 (roundup_pow2_uint32 v).
Proof.
  intros Hv. unfold roundup_pow2_uint32. destruct (Z.eqb_spec v 0); [congruence|].
  pose proof (pow2_loop_range v 0 31). exists (pow2_loop v 0 31). split; [lia|].
  rewrite Z.shiftl_1_l. reflexivity.
Qed.

Lemma env_size_pow2 env : pow2 (env_key_table_size env).
Proof.
  apply roundup_pow2_is_pow2. unfold load_env_uint32. lia.
Qed.

(* the loop stops at the first i with (v-1) >> i = 0, i.e. v <= 2^i *)
Lemma pow2_loop_first v i fuel :
  0 <= i -> 1 <= v -> (forall j, 0 <= j < i -> 2 ^ j < v) ->
  let r := pow2_loop v i fuel in
  (forall j, 0 <= j < r -> 2 ^ j < v) /\ (r < i + Z.of_nat fuel -> v <= 2 ^ r).
Proof.
  revert i; induction fuel as [|f IH]; intros i Hi Hv Hlt; cbn [pow2_loop]; cbv zeta.
  - split; [auto|lia].
  - destruct (Z.eqb_spec (Z.shiftr (v - 1) i) 0) as [E|E].
    + split; auto. intros _. rewrite Z.shiftr_div_pow2 in E by lia.
      assert (0 < 2 ^ i) by (apply Z.pow_pos_nonneg; lia).
      assert (v - 1 < 2 ^ i); [|lia].
      apply Z.div_small_iff in E; lia.
    + assert (2 ^ i < v).
      { rewrite Z.shiftr_div_pow2 in E by lia.
        assert (0 < 2 ^ i) by (apply Z.pow_pos_nonneg; lia).
        destruct (Z_lt_le_dec (v - 1) (2 ^ i)); [|lia].
        exfalso. apply E. apply Z.div_small. lia. }
      specialize (IH (i + 1) ltac:(lia) Hv).
      cbv zeta in IH. destruct IH as [I1 I2].
      { intros j Hj. destruct (Z.eq_dec j i); [subst; auto|apply Hlt; lia]. }
      split; auto. intros. apply I2. lia.
Qed.

(* for 1 <= v <= 2^31 the result is the least power of two >= v *)
Lemma roundup_pow2_least v : 1 <= v <= 2 ^ 31 ->
  exists k, 0 <= k <= 31 /\ roundup_pow2_uint32 v = 2 ^ k /\ v <= 2 ^ k /\ (forall j, 0 <= j < k -> 2 ^ j < v).
Proof.
  intros Hv. unfold roundup_pow2_uint32. destruct (Z.eqb_spec v 0); [lia|].
  pose proof (pow2_loop_range v 0 31) as Hr.
  destruct (pow2_loop_first v 0 31 ltac:(lia) ltac:(lia) ltac:(intros; lia)) as [H1 H2].
  exists (pow2_loop v 0 31). rewrite Z.shiftl_1_l.
  split; [lia|]. split; [reflexivity|]. split; [|exact H1].
  destruct (Z.eq_dec (pow2_loop v 0 31) 31) as [E|E].
  - rewrite E. lia.
  - apply H2. lia.
Qed.

(* ------------------------------------------------------------------ chains *)
Definition chain_find (c : list ktelem) (id : Z) : option ktelem :=
  find (fun e => e_key e =? id) c.

Lemma walk_found c id : forall pos i, chain_walk c id pos = inl i ->
  exists j e, i = (pos + j)%nat /\ nth_error c j = Some e /\ e_key e = id /\
              chain_find (firstn j c) id = None.
Proof.
  induction c as [|a c IH]; intros pos i H; cbn in H; [discriminate|].
  destruct (Z.eqb_spec (e_key a) id) as [E|E].
  - inversion H; subst. exists O, a. repeat split; auto; lia.
  - destruct (IH _ _ H) as (j & e & -> & Hn & Hk & Hf).
    exists (S j), e. repeat split; auto; try lia.
    cbn. destruct (Z.eqb_spec (e_key a) id); [congruence|auto].
Qed.

Lemma walk_tail c id : forall pos n, chain_walk c id pos = inr n ->
  n = (pos + length c)%nat /\ chain_find c id = None.
Proof.
  induction c as [|a c IH]; intros pos n H; cbn in H.
  - inversion H; subst. split; [cbn; lia|reflexivity].
  - destruct (Z.eqb_spec (e_key a) id) as [E|E]; [discriminate|].
    destruct (IH _ _ H) as [-> Hf]. split; [cbn; lia|].
    cbn. destruct (Z.eqb_spec (e_key a) id); [congruence|auto].
Qed.

Lemma chain_find_none c id : chain_find c id = None <-> ~ In id (map e_key c).
Proof.
  induction c as [|a c IH]; cbn; [tauto|].
  destruct (Z.eqb_spec (e_key a) id); [intuition congruence|]. rewrite IH. intuition.
Qed.

Lemma chain_find_some c id e : chain_find c id = Some e -> In e c /\ e_key e = id.
Proof.
  unfold chain_find. intros H. apply find_some in H. destruct H as [H1 H2].
  split; auto. apply Z.eqb_eq; auto.
Qed.

Lemma chain_find_in c id : In id (map e_key c) -> exists e, chain_find c id = Some e.
Proof.
  intros H. destruct (chain_find c id) eqn:E; eauto.
  apply chain_find_none in E. tauto.
Qed.

Lemma chain_get_find c id :
  chain_get c id = match chain_find c id with Some e => e_val e | None => 0 end.
Proof.
  induction c as [|a c IH]; cbn; auto. destruct (e_key a =? id); auto.
Qed.

Lemma chain_find_prefix c j e id :
  nth_error c j = Some e -> e_key e = id -> chain_find (firstn j c) id = None ->
  chain_find c id = Some e.
Proof.
  revert c; induction j as [|j IH]; intros [|a c] Hn Hk Hf; try discriminate.
  - cbn in *. inversion Hn; subst. destruct (Z.eqb_spec (e_key e) (e_key e)); congruence.
  - cbn in Hn. cbn in Hf |- *. destruct (e_key a =? id); [discriminate|].
    apply IH; auto.
Qed.

(* p_elem->value = value on the first element that carries the key *)
Lemma chain_find_store c j e v id id' :
  nth_error c j = Some e -> e_key e = id -> chain_find (firstn j c) id = None ->
  chain_find (chain_store c j v) id' =
  if id' =? id then Some (set_val e v) else chain_find c id'.
Proof.
  revert j; induction c as [|a c IH]; intros j Hn Hk Hf; [destruct j; discriminate|].
  destruct j as [|j].
  - cbn in Hn. inversion Hn; subst a. unfold chain_store. cbn.
    rewrite Hk. rewrite (Z.eqb_sym id id'). destruct (Z.eqb_spec id' id); auto.
  - cbn in Hn. cbn in Hf. destruct (Z.eqb_spec (e_key a) id) as [E|E]; [discriminate|].
    unfold chain_store in *. cbn [nth upd_nth]. cbn [chain_find find].
    fold (chain_find (upd_nth c j (set_val (nth j c dummy_elem) v)) id').
    fold (chain_find c id'). rewrite (IH j Hn Hk Hf).
    destruct (Z.eqb_spec (e_key a) id'); auto.
    destruct (Z.eqb_spec id' id); auto. congruence.
Qed.

Lemma chain_store_keys c j v : map e_key (chain_store c j v) = map e_key c.
Proof.
  unfold chain_store. revert j; induction c as [|a c IH]; intros [|j]; cbn; auto.
  f_equal. apply IH.
Qed.

Lemma chain_store_length c j v : length (chain_store c j v) = length c.
Proof. unfold chain_store. apply upd_nth_length. Qed.

Lemma chain_find_app c e id' :
  chain_find (c ++ [e]) id' =
  match chain_find c id' with Some x => Some x | None => if e_key e =? id' then Some e else None end.
Proof.
  induction c as [|a c IH]; cbn; auto. destruct (e_key a =? id'); auto.
Qed.

(* ------------------------------------------------------------------ tables *)
Record twf (t : ktable) : Prop := {
  wf_pow2 : pow2 (t_size t);
  wf_len  : length (t_elems t) = Z.to_nat (t_size t)
}.

(* what a table holds for a key id: (destructor, value) of the first element that
   carries it in the slot the id maps to *)
Definition tfind (ot : option ktable) (id : Z) : option (Z * Z) :=
  match ot with
  | None => None
  | Some t => match chain_find (nth_chain t (get_idx id (t_size t))) id with
              | Some e => Some (e_dtor e, e_val e)
              | None => None
              end
  end.

Lemma ktable_get_tfind ot k :
  ktable_get ot k = match tfind ot (k_id k) with Some (_, v) => v | None => 0 end.
Proof.
  destruct ot as [t|]; cbn; auto. rewrite chain_get_find.
  destruct (chain_find _ _); auto.
Qed.

Lemma nth_chain_with_eq t i c : (i < length (t_elems t))%nat -> nth_chain (with_chain t i c) i = c.
Proof. intros. unfold nth_chain, with_chain; cbn. apply nth_upd_nth_eq; auto. Qed.
Lemma nth_chain_with_ne t i j c : i <> j -> nth_chain (with_chain t i c) j = nth_chain t j.
Proof. intros. unfold nth_chain, with_chain; cbn. apply nth_upd_nth_ne; auto. Qed.

Lemma twf_with_chain t i c : twf t -> twf (with_chain t i c).
Proof. intros [H1 H2]. split; cbn; auto. rewrite upd_nth_length; auto. Qed.

(* ktable_alloc_elem touches neither the size nor the chains *)
Lemma alloc_elem_same cfg t size ext fail L L' t' r :
  ktable_alloc_elem cfg t size ext fail L = (L', t', r) ->
  t_size t' = t_size t /\ t_elems t' = t_elems t /\ (r = None -> t' = t /\ L' = L).
Proof.
  unfold ktable_alloc_elem. intros H.
  destruct (size <=? t_extra_size t).
  { inversion H; subst; cbn. repeat split; auto; discriminate. }
  destruct (size <=? c_desc cfg).
  { destruct fail. { inversion H; subst; repeat split; auto. }
    unfold l_alloc in H; cbn in H. inversion H; subst; cbn. repeat split; auto; discriminate. }
  destruct fail. { inversion H; subst; repeat split; auto. }
  unfold l_alloc in H; cbn in H. inversion H; subst; cbn. repeat split; auto; discriminate.
Qed.

Lemma alloc_elem_nofail cfg t size ext L :
  exists L' t' p, ktable_alloc_elem cfg t size ext false L = (L', t', Some p).
Proof.
  unfold ktable_alloc_elem.
  destruct (size <=? t_extra_size t); [eauto|].
  destruct (size <=? c_desc cfg); unfold l_alloc; cbn; eauto.
Qed.

(* The effect of ABTI_ktable_set_impl on what the table holds. *)
Lemma set_impl_spec cfg t k v ext fail L L' t' rc :
  twf t ->
  ktable_set_impl cfg t k v ext fail L = (L', t', rc) ->
  twf t' /\ t_size t' = t_size t /\
  (rc = 0 \/ (rc = ERR_MEM /\ fail = true)) /\
  (rc = 0 -> forall id',
      tfind (Some t') id' =
      if id' =? k_id k
      then Some (match tfind (Some t) (k_id k) with Some (d, _) => d | None => k_dtor k end, v)
      else tfind (Some t) id') /\
  (rc <> 0 -> t' = t /\ L' = L).
Proof.
  intros W H. unfold ktable_set_impl in H.
  set (idx := get_idx (k_id k) (t_size t)) in *.
  assert (Hidx : (idx < length (t_elems t))%nat).
  { rewrite (wf_len _ W). apply get_idx_range. apply (wf_pow2 _ W). }
  set (c := nth_chain t idx) in *.
  (* what a store on element j of the chain does *)
  assert (STORE : forall j e, nth_error c j = Some e -> e_key e = k_id k ->
             chain_find (firstn j c) (k_id k) = None ->
             forall id', tfind (Some (with_chain t idx (chain_store c j v))) id' =
               if id' =? k_id k
               then Some (match tfind (Some t) (k_id k) with Some (d, _) => d | None => k_dtor k end, v)
               else tfind (Some t) id').
  { intros j e Hn Hk Hf id'. cbn [tfind with_chain t_size].
    assert (Hfull : chain_find c (k_id k) = Some e) by (eapply chain_find_prefix; eauto).
    fold (with_chain t idx (chain_store c j v)).
    destruct (Z.eqb_spec id' (k_id k)) as [->|Hne].
    - fold idx. rewrite nth_chain_with_eq by auto.
      rewrite (chain_find_store c j e v (k_id k) (k_id k) Hn Hk Hf), Z.eqb_refl.
      fold c. rewrite Hfull. reflexivity.
    - destruct (Nat.eq_dec (get_idx id' (t_size t)) idx) as [Ei|Ei].
      + rewrite Ei, nth_chain_with_eq by auto.
        rewrite (chain_find_store c j e v (k_id k) id' Hn Hk Hf).
        destruct (Z.eqb_spec id' (k_id k)); [congruence|]. fold c. reflexivity.
      + rewrite nth_chain_with_ne by auto. reflexivity. }
  destruct (chain_walk c (k_id k) 0) as [i|n] eqn:E1.
  - (* found in the lock-free walk *)
    inversion H; subst L' t' rc; clear H.
    destruct (walk_found _ _ _ _ E1) as (j & e & -> & Hn & Hk & Hf). cbn [Nat.add].
    split; [apply twf_with_chain; auto|]. split; [reflexivity|]. split; [auto|].
    split; [intros _; apply (STORE j e Hn Hk Hf)|congruence].
  - destruct (walk_tail _ _ _ _ E1) as [-> Hnone]. cbn [Nat.add] in H.
    rewrite skipn_all in H. cbn [chain_walk] in H.
    destruct (ktable_alloc_elem cfg t (ktelem_bytes cfg) ext fail L) as [[L1 t1] [p|]] eqn:EA.
    + inversion H; subst L' t' rc; clear H.
      destruct (alloc_elem_same _ _ _ _ _ _ _ _ _ EA) as (Hs & He & _).
      assert (W1 : twf t1) by (destruct W; split; congruence).
      split; [apply twf_with_chain; auto|]. split; [cbn; auto|]. split; [auto|].
      split; [|congruence]. intros _ id'.
      rewrite firstn_all.
      cbn [tfind with_chain t_size]. rewrite Hs.
      fold (with_chain t1 idx (c ++ [mkE (k_dtor k) (k_id k) v p])).
      assert (Hidx1 : (idx < length (t_elems t1))%nat) by congruence.
      assert (Hc1 : forall j, nth_chain t1 j = nth_chain t j) by (intros; unfold nth_chain; congruence).
      destruct (Z.eqb_spec id' (k_id k)) as [->|Hne].
      * fold idx. rewrite nth_chain_with_eq by auto. rewrite chain_find_app.
        fold c. rewrite Hnone. cbn [e_key e_dtor e_val]. rewrite Z.eqb_refl. reflexivity.
      * destruct (Nat.eq_dec (get_idx id' (t_size t)) idx) as [Ei|Ei].
        -- rewrite Ei, nth_chain_with_eq by auto. rewrite chain_find_app. fold c.
           destruct (chain_find c id'); auto. cbn [e_key].
           destruct (Z.eqb_spec (k_id k) id'); [congruence|reflexivity].
        -- rewrite nth_chain_with_ne by auto. rewrite Hc1. reflexivity.
    + inversion H; subst L' t' rc; clear H.
      destruct (alloc_elem_same _ _ _ _ _ _ _ _ _ EA) as (Hs & He & Hsame).
      destruct (Hsame eq_refl) as [-> ->].
      split; auto. split; auto. split.
      { right. split; auto. unfold ktable_alloc_elem in EA.
        destruct (_ <=? t_extra_size t); [discriminate|].
        destruct (_ <=? c_desc cfg); destruct fail; auto; unfold l_alloc in EA; cbn in EA; discriminate. }
      split; [unfold ERR_MEM; lia|auto].
Qed.

Lemma set_impl_nofail cfg t k v ext L L' t' rc :
  twf t -> ktable_set_impl cfg t k v ext false L = (L', t', rc) -> rc = 0.
Proof.
  intros W H. destruct (set_impl_spec _ _ _ _ _ _ _ _ _ _ W H) as (_ & _ & [E|[_ E]] & _); auto.
  discriminate.
Qed.

(* ABTI_ktable_create *)
Lemma create_spec cfg gsize ext fail L L' ot :
  pow2 gsize ->
  ktable_create cfg gsize ext fail L = (L', ot) ->
  match ot with
  | Some t => twf t /\ t_size t = gsize /\ (forall id, tfind (Some t) id = None) /\ fail = false
  | None => fail = true /\ L' = L
  end.
Proof.
  intros P H. unfold ktable_create in H.
  assert (E : forall i, nth i (repeat (@nil ktelem) (Z.to_nat gsize)) [] = []).
  { intros i. destruct (Nat.lt_ge_cases i (Z.to_nat gsize)).
    - apply nth_repeat.
    - apply nth_overflow. rewrite repeat_length. lia. }
  destruct (_ <=? c_desc cfg); destruct fail; unfold l_alloc in H; cbn in H; inversion H; subst; auto.
  all: repeat split; cbn; auto; try (rewrite repeat_length; auto).
  all: intros id; unfold nth_chain; cbn; rewrite E; reflexivity.
Qed.

(* ABTI_ktable_set (and set_unsafe) on the p_keytable word *)
Definition owf (gsize : Z) (ot : option ktable) : Prop :=
  match ot with Some t => twf t /\ t_size t = gsize | None => True end.

Lemma ktable_set_spec cfg gsize ot k v ext fc fe L L' ot' rc :
  pow2 gsize -> owf gsize ot ->
  ktable_set cfg gsize ot k v ext fc fe L = (L', ot', rc) ->
  owf gsize ot' /\
  (rc = 0 \/ (rc = ERR_MEM /\ (fc = true \/ fe = true))) /\
  (rc = 0 -> forall id',
      tfind ot' id' =
      if id' =? k_id k
      then Some (match tfind ot (k_id k) with Some (d, _) => d | None => k_dtor k end, v)
      else tfind ot id') /\
  (rc <> 0 -> forall id', tfind ot' id' = tfind ot id').
Proof.
  intros P W H. unfold ktable_set in H. destruct ot as [t|].
  - destruct W as [W Hs].
    destruct (ktable_set_impl cfg t k v ext fe L) as [[L1 t1] rc1] eqn:E.
    inversion H; subst; clear H.
    destruct (set_impl_spec _ _ _ _ _ _ _ _ _ _ W E) as (W1 & Hs1 & Hrc & Hok & Hbad).
    split; [cbn; split; auto; congruence|]. split; [intuition|]. split; auto.
    intros Hr id'. destruct (Hbad Hr) as [-> _]. reflexivity.
  - destruct (ktable_create cfg gsize ext fc L) as [L1 [t|]] eqn:EC.
    + pose proof (create_spec _ _ _ _ _ _ _ P EC) as (W1 & Hs & Hemp & Hfc).
      destruct (ktable_set_impl cfg t k v ext fe L1) as [[L2 t2] rc2] eqn:E.
      inversion H; subst; clear H.
      destruct (set_impl_spec _ _ _ _ _ _ _ _ _ _ W1 E) as (W2 & Hs2 & Hrc & Hok & Hbad).
      split; [cbn; split; auto|]. split; [intuition|]. split.
      * intros Hr id'. rewrite (Hok Hr id'), !Hemp. reflexivity.
      * intros Hr id'. destruct (Hbad Hr) as [-> _]. rewrite Hemp. reflexivity.
    + pose proof (create_spec _ _ _ _ _ _ _ P EC) as (Hfc & ->).
      inversion H; subst; clear H. split; [exact I|]. split; [right; auto|].
      split; [unfold ERR_MEM; lia|auto].
Qed.

Lemma ktable_set_unsafe_eq cfg gsize ot k v ext fc fe L :
  ktable_set_unsafe cfg gsize ot k v ext fc fe L = ktable_set cfg gsize ot k v ext fc fe L.
Proof. reflexivity. Qed.

(* ------------------------------------------------------------------ shape invariant of a table *)
Definition chain_keys (t : ktable) (i : nat) : list Z := map e_key (nth_chain t i).
Record tgood (t : ktable) : Prop := {
  g_wf    : twf t;
  g_slot  : forall i id, In id (chain_keys t i) -> get_idx id (t_size t) = i;
  g_nodup : forall i, NoDup (chain_keys t i)
}.

Lemma tgood_with_alloc t t1 : t_size t1 = t_size t -> t_elems t1 = t_elems t -> tgood t -> tgood t1.
Proof.
  intros Hs He [W HS N]. assert (Hc : forall i, chain_keys t1 i = chain_keys t i).
  { intros; unfold chain_keys, nth_chain; congruence. }
  split.
  - destruct W; split; congruence.
  - intros i id. rewrite Hc, Hs. apply HS.
  - intros i. rewrite Hc. apply N.
Qed.

Lemma chain_keys_with t i c j :
  (i < length (t_elems t))%nat ->
  chain_keys (with_chain t i c) j = if Nat.eqb j i then map e_key c else chain_keys t j.
Proof.
  intros Hi. unfold chain_keys. destruct (Nat.eqb_spec j i) as [->|Hne].
  - rewrite nth_chain_with_eq; auto.
  - rewrite nth_chain_with_ne; auto.
Qed.

Lemma set_impl_good cfg t k v ext fail L L' t' rc :
  tgood t -> ktable_set_impl cfg t k v ext fail L = (L', t', rc) -> tgood t'.
Proof.
  intros G H. pose proof (g_wf _ G) as W. unfold ktable_set_impl in H.
  set (idx := get_idx (k_id k) (t_size t)) in *.
  assert (Hidx : (idx < length (t_elems t))%nat).
  { rewrite (wf_len _ W). apply get_idx_range. apply (wf_pow2 _ W). }
  set (c := nth_chain t idx) in *.
  assert (STORE : forall j, tgood (with_chain t idx (chain_store c j v))).
  { intros j. split.
    - apply twf_with_chain; auto.
    - intros i id. rewrite chain_keys_with by auto. cbn [with_chain t_size].
      destruct (Nat.eqb_spec i idx) as [->|]; [|apply (g_slot _ G)].
      rewrite chain_store_keys. apply (g_slot _ G idx).
    - intros i. rewrite chain_keys_with by auto.
      destruct (Nat.eqb_spec i idx) as [->|]; [|apply (g_nodup _ G)].
      rewrite chain_store_keys. apply (g_nodup _ G idx). }
  destruct (chain_walk c (k_id k) 0) as [i|n] eqn:E1.
  - inversion H; subst; apply STORE.
  - destruct (walk_tail _ _ _ _ E1) as [-> Hnone]. cbn [Nat.add] in H.
    rewrite skipn_all in H. cbn [chain_walk] in H.
    destruct (ktable_alloc_elem cfg t (ktelem_bytes cfg) ext fail L) as [[L1 t1] [p|]] eqn:EA.
    + inversion H; subst L' t' rc; clear H.
      destruct (alloc_elem_same _ _ _ _ _ _ _ _ _ EA) as (Hs & He & _).
      pose proof (tgood_with_alloc t t1 Hs He G) as G1.
      assert (Hidx1 : (idx < length (t_elems t1))%nat) by congruence.
      assert (Hc : forall i, chain_keys t1 i = chain_keys t i).
      { intros; unfold chain_keys, nth_chain; congruence. }
      rewrite firstn_all. split.
      * apply twf_with_chain. apply (g_wf _ G1).
      * intros i id. rewrite chain_keys_with by auto. cbn [with_chain t_size]. rewrite Hs.
        destruct (Nat.eqb_spec i idx) as [->|]; [|rewrite Hc; apply (g_slot _ G)].
        rewrite map_app, in_app_iff. cbn. intros [Hin|[<-|[]]]; [|reflexivity].
        apply (g_slot _ G idx). exact Hin.
      * intros i. rewrite chain_keys_with by auto.
        destruct (Nat.eqb_spec i idx) as [->|]; [|rewrite Hc; apply (g_nodup _ G)].
        rewrite map_app. cbn. apply NoDup_snoc; [apply (g_nodup _ G idx)|].
        apply chain_find_none. exact Hnone.
    + inversion H; subst L' t' rc; clear H.
      destruct (alloc_elem_same _ _ _ _ _ _ _ _ _ EA) as (Hs & He & Hsame).
      destruct (Hsame eq_refl) as [-> _]. exact G.
Qed.

Lemma create_good cfg gsize ext fail L L' t :
  pow2 gsize -> ktable_create cfg gsize ext fail L = (L', Some t) -> tgood t.
Proof.
  intros P H. pose proof (create_spec _ _ _ _ _ _ _ P H) as (W & Hs & _ & _).
  assert (E : forall i, nth_chain t i = []).
  { unfold ktable_create in H.
    assert (E : forall i, nth i (repeat (@nil ktelem) (Z.to_nat gsize)) [] = []).
    { intros i. destruct (Nat.lt_ge_cases i (Z.to_nat gsize)).
      - apply nth_repeat.
      - apply nth_overflow. rewrite repeat_length. lia. }
    destruct (_ <=? c_desc cfg); destruct fail; unfold l_alloc in H; cbn in H; inversion H; subst;
      intros i; unfold nth_chain; cbn; apply E. }
  split; auto.
  - intros i id. unfold chain_keys. rewrite E. intros [].
  - intros i. unfold chain_keys. rewrite E. constructor.
Qed.

Definition ogood (gsize : Z) (ot : option ktable) : Prop :=
  match ot with Some t => tgood t /\ t_size t = gsize | None => True end.

Lemma ogood_owf g ot : ogood g ot -> owf g ot.
Proof. destruct ot; cbn; auto. intros [G E]. split; auto. apply (g_wf _ G). Qed.

Lemma ktable_set_good cfg gsize ot k v ext fc fe L L' ot' rc :
  pow2 gsize -> ogood gsize ot ->
  ktable_set cfg gsize ot k v ext fc fe L = (L', ot', rc) -> ogood gsize ot'.
Proof.
  intros P G H. unfold ktable_set in H. destruct ot as [t|].
  - destruct G as [G Hs].
    destruct (ktable_set_impl cfg t k v ext fe L) as [[L1 t1] rc1] eqn:E.
    inversion H; subst; clear H. cbn. split; [eapply set_impl_good; eauto|].
    destruct (set_impl_spec _ _ _ _ _ _ _ _ _ _ (g_wf _ G) E) as (_ & Hs1 & _). congruence.
  - destruct (ktable_create cfg gsize ext fc L) as [L1 [t|]] eqn:EC.
    + pose proof (create_good _ _ _ _ _ _ _ P EC) as G1.
      pose proof (create_spec _ _ _ _ _ _ _ P EC) as (_ & Hs & _).
      destruct (ktable_set_impl cfg t k v ext fe L1) as [[L2 t2] rc2] eqn:E.
      inversion H; subst; clear H. cbn. split; [eapply set_impl_good; eauto|].
      destruct (set_impl_spec _ _ _ _ _ _ _ _ _ _ (g_wf _ G1) E) as (_ & Hs1 & _). congruence.
    + inversion H; subst. exact I.
Qed.

(* ------------------------------------------------------------------ destructors: exactly once *)
Definition dtor_of (x : option (Z * Z)) : list (Z * Z) :=
  match x with
  | Some (d, v) => if negb (d =? 0) && negb (v =? 0) then [(d, v)] else []
  | None => []
  end.

Lemma in_nth_concat {A} (l : list (list A)) i x : In x (nth i l []) -> In x (concat l).
Proof.
  revert i; induction l as [|c l IH]; intros [|i] H; cbn in *; try tauto;
    apply in_or_app; [left; auto|right; eauto].
Qed.

Lemma in_concat_nth {A} (l : list (list A)) x :
  In x (concat l) -> exists i, (i < length l)%nat /\ In x (nth i l []).
Proof.
  induction l as [|c l IH]; cbn; [tauto|]. intros H. apply in_app_or in H. destruct H as [H|H].
  - exists O. split; [lia|auto].
  - destruct (IH H) as (i & Hi & Hx). exists (S i). split; [lia|auto].
Qed.

(* a chain with distinct keys: looking an element's key up finds that element *)
Lemma chain_find_self c e : NoDup (map e_key c) -> In e c -> chain_find c (e_key e) = Some e.
Proof.
  induction c as [|a c IH]; cbn; [tauto|]. intros N [->|Hin].
  - rewrite Z.eqb_refl. reflexivity.
  - inversion N; subst. destruct (Z.eqb_spec (e_key a) (e_key e)) as [E|E].
    + exfalso. apply H1. rewrite E. apply in_map. exact Hin.
    + apply IH; auto.
Qed.

Lemma NoDup_concat_slots (l : list (list ktelem)) (slot : Z -> nat) (off : nat) :
  (forall i, NoDup (map e_key (nth i l []))) ->
  (forall i id, In id (map e_key (nth i l [])) -> slot id = (off + i)%nat) ->
  NoDup (map e_key (concat l)).
Proof.
  revert off; induction l as [|c l IH]; intros off N HS; cbn; [constructor|].
  rewrite map_app. apply NoDup_app_iff. split; [apply (N O)|]. split.
  - apply (IH (S off)).
    + intros i. apply (N (S i)).
    + intros i id H. rewrite (HS (S i) id H). lia.
  - intros id H1 H2. pose proof (HS O id H1) as E1.
    apply in_map_iff in H2. destruct H2 as (e & <- & He).
    destruct (in_concat_nth _ _ He) as (i & _ & Hi).
    pose proof (HS (S i) (e_key e) (in_map e_key _ _ Hi)) as E2. lia.
Qed.

Definition telems (t : ktable) : list ktelem := concat (t_elems t).

Lemma tgood_nodup t : tgood t -> NoDup (map e_key (telems t)).
Proof.
  intros G. apply (NoDup_concat_slots (t_elems t) (fun id => get_idx id (t_size t)) O).
  - intros i. apply (g_nodup _ G i).
  - intros i id H. cbn. apply (g_slot _ G i id H).
Qed.

Lemma tfind_elem t e : tgood t -> In e (telems t) -> tfind (Some t) (e_key e) = Some (e_dtor e, e_val e).
Proof.
  intros G H. destruct (in_concat_nth _ _ H) as (i & Hi & Hx).
  assert (E : get_idx (e_key e) (t_size t) = i).
  { apply (g_slot _ G). unfold chain_keys, nth_chain. apply in_map. exact Hx. }
  unfold tfind. rewrite E.
  rewrite (chain_find_self (nth_chain t i) e (g_nodup _ G i) Hx). reflexivity.
Qed.

Lemma tfind_some_elem t id x : tfind (Some t) id = Some x -> In id (map e_key (telems t)).
Proof.
  cbn. destruct (chain_find _ id) as [e|] eqn:E; [|discriminate]. intros _.
  apply chain_find_some in E. destruct E as [Hin <-]. apply in_map.
  eapply in_nth_concat. exact Hin.
Qed.

Lemma dtor_calls_spec t : tgood t ->
  let ids := map e_key (telems t) in
  NoDup ids /\ (forall id, In id ids <-> tfind (Some t) id <> None) /\
  table_dtor_calls t = flat_map (fun id => dtor_of (tfind (Some t) id)) ids.
Proof.
  intros G ids. split; [apply tgood_nodup; auto|]. split.
  - intros id. split.
    + intros H. apply in_map_iff in H. destruct H as (e & <- & He).
      rewrite (tfind_elem t e G He). discriminate.
    + intros H. destruct (tfind (Some t) id) eqn:E; [|congruence]. eapply tfind_some_elem; eauto.
  - unfold table_dtor_calls, ids.
    assert (forall l : list ktelem, (forall e, In e l -> In e (telems t)) ->
              flat_map elem_dtor_call l = flat_map (fun id => dtor_of (tfind (Some t) id)) (map e_key l)) as Hl.
    { induction l as [|e l IH]; intros Hsub; cbn [flat_map map]; auto.
      rewrite IH by (intros; apply Hsub; right; auto). f_equal.
      rewrite (tfind_elem t e G (Hsub e (or_introl eq_refl))). reflexivity. }
    transitivity (flat_map elem_dtor_call (telems t)).
    { unfold telems. clear. induction (t_elems t) as [|c l IH]; cbn; auto.
      rewrite flat_map_app, IH. reflexivity. }
    apply Hl. auto.
Qed.

(* ------------------------------------------------------------------ units as an association list *)
Lemma find_set us u t u' :
  find_unit (set_unit us u t) u' =
  if u' =? u then match find_unit us u with Some _ => Some t | None => None end else find_unit us u'.
Proof.
  induction us as [|[a x] us IH]; cbn.
  - destruct (u' =? u); auto.
  - destruct (Z.eqb_spec a u) as [Ea|Ha]; cbn.
    + subst a. destruct (Z.eqb_spec u' u) as [Eu|Eu].
      * subst u'. rewrite Z.eqb_refl; auto.
      * destruct (Z.eqb_spec u u'); [congruence|auto].
    + destruct (Z.eqb_spec a u') as [Ea|Ea].
      * subst a. destruct (Z.eqb_spec u' u); [congruence|auto].
      * apply IH.
Qed.

Lemma find_none_notin us u : find_unit us u = None <-> ~ In u (map fst us).
Proof.
  induction us as [|[a x] us IH]; cbn; [tauto|].
  destruct (Z.eqb_spec a u); [intuition congruence|]. rewrite IH. intuition.
Qed.

Lemma find_del us u u' : NoDup (map fst us) ->
  find_unit (del_unit us u) u' = if u' =? u then None else find_unit us u'.
Proof.
  induction us as [|[a x] us IH]; cbn; intros N.
  - destruct (u' =? u); auto.
  - inversion N; subst. destruct (Z.eqb_spec a u) as [Ea|Ha]; cbn.
    + subst a. destruct (Z.eqb_spec u' u) as [Eu|Eu].
      * subst u'. apply find_none_notin; auto.
      * destruct (Z.eqb_spec u u'); [congruence|auto].
    + destruct (Z.eqb_spec a u') as [Ea|Ea].
      * subst a. destruct (Z.eqb_spec u' u); [congruence|auto].
      * apply IH; auto.
Qed.

Lemma find_app us u t u' :
  find_unit (us ++ [(u, t)]) u' =
  match find_unit us u' with Some x => Some x | None => if u =? u' then Some t else None end.
Proof.
  induction us as [|[a x] us IH]; cbn; auto. destruct (a =? u'); auto.
Qed.

Lemma fst_set us u t : map fst (set_unit us u t) = map fst us.
Proof.
  induction us as [|[a x] us IH]; cbn; auto. destruct (a =? u); cbn; congruence.
Qed.

Lemma in_fst_del us u a : In a (map fst (del_unit us u)) -> In a (map fst us).
Proof.
  induction us as [|[b x] us IH]; cbn; auto. destruct (b =? u); cbn; intuition.
Qed.

Lemma nodup_del us u : NoDup (map fst us) -> NoDup (map fst (del_unit us u)).
Proof.
  induction us as [|[b x] us IH]; cbn; intros N; auto. inversion N; subst.
  destruct (b =? u); cbn; auto. constructor; auto. intros H. apply H1. eapply in_fst_del; eauto.
Qed.

(* ------------------------------------------------------------------ the specification: one map per unit *)
Definition umap := Z -> option (Z * Z).          (* key id -> (destructor, value) *)
Record sworld := mkS {
  s_keyctr : Z;
  s_keys : list (key * bool);
  s_map : Z -> option umap                      (* live unit -> its map *)
}.
Definition fupd {A} (f : Z -> A) (x : Z) (a : A) : Z -> A := fun y => if y =? x then a else f y.
Definition empty_unit : umap := fun _ => None.
(* set: the destructor recorded for an id is the one of the key that first set it *)
Definition uset (f : umap) (k : key) (v : Z) : umap :=
  fupd f (k_id k) (Some (match f (k_id k) with Some (d, _) => d | None => k_dtor k end, v)).
Definition uget (f : umap) (k : key) : Z := match f (k_id k) with Some (_, v) => v | None => 0 end.
Definition sworld0 : sworld := mkS KEY_ID_END [] (fun _ => None).

Definition sstep (s : sworld) (o : op) : sworld * res :=
  match o with
  | OKeyCreate d =>
      (mkS ((s_keyctr s + 1) mod W2) (s_keys s ++ [(mkK d (s_keyctr s), true)]) (s_map s), RKey (s_keyctr s))
  | OKeyFree h =>
      match nth_error (s_keys s) h with
      | Some (k, true) => (mkS (s_keyctr s) (upd_nth (s_keys s) h (k, false)) (s_map s), RRc 0)
      | Some (k, false) => (s, RRc ERR_INV_KEY)
      | None => (s, RInvalid)
      end
  | OKeyJump n => (mkS (n mod W2) (s_keys s) (s_map s), RRc 0)
  | OUnitCreate u ext mig =>
      match s_map s u with
      | Some _ => (s, RInvalid)
      | None => (mkS (s_keyctr s) (s_keys s)
                     (fupd (s_map s) u (Some (if mig then uset empty_unit mig_key MIGVAL else empty_unit))),
                 RRc 0)
      end
  | OSet ext u h v _ _ =>
      match nth_error (s_keys s) h, s_map s u with
      | Some (k, true), Some f => (mkS (s_keyctr s) (s_keys s) (fupd (s_map s) u (Some (uset f k v))), RRc 0)
      | Some (k, false), Some _ => (s, RRc ERR_INV_KEY)
      | _, _ => (s, RInvalid)
      end
  | OGet u h =>
      match nth_error (s_keys s) h, s_map s u with
      | Some (k, true), Some f => (s, RVal (uget f k))
      | Some (k, false), Some _ => (s, RRc ERR_INV_KEY)
      | _, _ => (s, RInvalid)
      end
  | OSelfExt h =>
      match nth_error (s_keys s) h with
      | Some (k, true) => (s, RRc ERR_INV_XSTREAM)
      | Some (k, false) => (s, RRc ERR_INV_KEY)
      | None => (s, RInvalid)
      end
  | OMigData ext u =>
      match s_map s u with
      | Some f => if uget f mig_key =? 0
                  then (mkS (s_keyctr s) (s_keys s) (fupd (s_map s) u (Some (uset f mig_key MIGVAL))), RRc 0)
                  else (s, RRc 0)
      | None => (s, RInvalid)
      end
  | ORevive u => match s_map s u with Some _ => (s, RRc 0) | None => (s, RInvalid) end
  | OFree u =>
      match s_map s u with
      | Some _ => (mkS (s_keyctr s) (s_keys s) (fupd (s_map s) u None), RFreed [])
      | None => (s, RInvalid)
      end
  end.

Fixpoint srun (s : sworld) (ops : list op) : sworld * list res :=
  match ops with
  | [] => (s, [])
  | o :: ops' => let (s', r) := sstep s o in
                 let (s'', rs) := srun s' ops' in (s'', r :: rs)
  end.

(* the order of destructor calls is not part of the specification *)
Definition erase (r : res) : res := match r with RFreed _ => RFreed [] | _ => r end.

Definition nofail (o : op) : Prop :=
  match o with OSet _ _ _ _ fc fe => fc = false /\ fe = false | _ => True end.

(* ------------------------------------------------------------------ invariant and refinement relation *)
Record WInv (w : world) : Prop := {
  wi_pow2  : pow2 (w_gsize w);
  wi_nodup : NoDup (map fst (w_units w));
  wi_good  : forall u ot, find_unit (w_units w) u = Some ot -> ogood (w_gsize w) ot
}.

Definition urel (x : option (option ktable)) (y : option umap) : Prop :=
  match x, y with
  | Some ot, Some f => forall id, tfind ot id = f id
  | None, None => True
  | _, _ => False
  end.
Record Rel (w : world) (s : sworld) : Prop := {
  r_ctr  : w_keyctr w = s_keyctr s;
  r_keys : w_keys w = s_keys s;
  r_map  : forall u, urel (find_unit (w_units w) u) (s_map s u)
}.

Lemma winv0 env : WInv (world0 env).
Proof. split; cbn; [apply env_size_pow2|constructor|discriminate]. Qed.
Lemma rel0 env : Rel (world0 env) sworld0.
Proof. split; cbn; auto. Qed.

Lemma winv_keys w c ks : WInv w -> WInv (mkW (w_gsize w) c ks (w_units w) (w_led w) (w_dlog w)).
Proof. intros [A B C]. split; auto. Qed.

Lemma winv_set w u ot ot' L c ks dl :
  WInv w -> find_unit (w_units w) u = Some ot -> ogood (w_gsize w) ot' ->
  WInv (mkW (w_gsize w) c ks (set_unit (w_units w) u ot') L dl).
Proof.
  intros [A B C] Hf G. split; cbn; auto.
  - rewrite fst_set. auto.
  - intros u' x. rewrite find_set, Hf. destruct (u' =? u); [intros E; inversion E; subst; auto|apply C].
Qed.

Lemma winv_add w u ot L c ks dl :
  WInv w -> find_unit (w_units w) u = None -> ogood (w_gsize w) ot ->
  WInv (mkW (w_gsize w) c ks (w_units w ++ [(u, ot)]) L dl).
Proof.
  intros [A B C] Hf G. split; cbn; auto.
  - rewrite map_app. cbn. apply NoDup_snoc; auto. apply find_none_notin; auto.
  - intros u' x. rewrite find_app. destruct (find_unit (w_units w) u') eqn:E.
    + intros E'; inversion E'; subst. eapply C; eauto.
    + destruct (u =? u'); [intros E'; inversion E'; subst; auto|discriminate].
Qed.

Lemma winv_del w u L c ks dl :
  WInv w -> WInv (mkW (w_gsize w) c ks (del_unit (w_units w) u) L dl).
Proof.
  intros [A B C]. split; cbn; auto.
  - apply nodup_del; auto.
  - intros u' x. rewrite find_del by auto. destruct (u' =? u); [discriminate|apply C].
Qed.

(* every step keeps the invariant (any op, any failure flags) *)
Lemma wstep_inv cfg w o : WInv w -> WInv (fst (wstep cfg w o)).
Proof.
  intros I. pose proof (wi_pow2 _ I) as P.
  destruct o as [d|h|n|u ext mig|ext u h v fc fe|u h|h|ext u|u|u]; cbn [wstep].
  - cbn [fst]. apply winv_keys; auto.
  - destruct (nth_error (w_keys w) h) as [[k [|]]|]; cbn [fst]; auto. apply winv_keys; auto.
  - cbn [fst]. apply winv_keys; auto.
  - destruct (find_unit (w_units w) u) eqn:E; cbn [fst]; auto.
    destruct mig.
    + rewrite ktable_set_unsafe_eq.
      destruct (ktable_set cfg (w_gsize w) None mig_key MIGVAL ext false false (w_led w)) as [[L' ot'] rc] eqn:ES.
      cbn [fst]. apply winv_add; auto. eapply ktable_set_good; eauto. exact Logic.I.
    + cbn [fst]. apply winv_add; auto. exact Logic.I.
  - destruct (nth_error (w_keys w) h) as [[k [|]]|]; destruct (find_unit (w_units w) u) as [ot|] eqn:E; cbn [fst]; auto.
    destruct (ktable_set cfg (w_gsize w) ot k v ext fc fe (w_led w)) as [[L' ot'] rc] eqn:ES. cbn [fst].
    eapply winv_set; eauto. eapply ktable_set_good; eauto. eapply wi_good; eauto.
  - destruct (nth_error (w_keys w) h) as [[k [|]]|]; destruct (find_unit (w_units w) u); cbn [fst]; auto.
  - destruct (nth_error (w_keys w) h) as [[k [|]]|]; cbn [fst]; auto.
  - destruct (find_unit (w_units w) u) as [ot|] eqn:E; cbn [fst]; auto.
    destruct (ktable_get ot mig_key =? 0); cbn [fst]; auto.
    destruct (ktable_set cfg (w_gsize w) ot mig_key MIGVAL ext false false (w_led w)) as [[L' ot'] rc] eqn:ES. cbn [fst].
    eapply winv_set; eauto. eapply ktable_set_good; eauto. eapply wi_good; eauto.
  - destruct (find_unit (w_units w) u); cbn [fst]; auto.
  - destruct (find_unit (w_units w) u) as [[t|]|] eqn:E; cbn [fst]; auto.
    + destruct (ktable_free t (w_led w)) as [calls L'] eqn:EF. cbn [fst]. apply winv_del; auto.
    + apply winv_del; auto.
Qed.

Lemma wrun_inv cfg ops : forall w, WInv w -> WInv (fst (wrun cfg w ops)).
Proof.
  induction ops as [|o ops IH]; intros w I; cbn; auto.
  pose proof (wstep_inv cfg w o I). destruct (wstep cfg w o) as [w' r]. cbn in H.
  specialize (IH w' H). destruct (wrun cfg w' ops). cbn in *. auto.
Qed.

Lemma urel_upd us m u ot ot' (f' : umap) :
  find_unit us u = Some ot -> (forall id, tfind ot' id = f' id) ->
  (forall u', urel (find_unit us u') (m u')) ->
  forall u', urel (find_unit (set_unit us u ot') u') (fupd m u (Some f') u').
Proof.
  intros Hf Ht R u'. rewrite find_set, Hf. unfold fupd. destruct (u' =? u); cbn; auto.
Qed.

(* one step of the model against one step of the specification *)
Lemma wstep_refines cfg w s o :
  WInv w -> Rel w s -> nofail o ->
  Rel (fst (wstep cfg w o)) (fst (sstep s o)) /\ erase (snd (wstep cfg w o)) = snd (sstep s o).
Proof.
  intros I [Rc Rk Rm] NF. pose proof (wi_pow2 _ I) as P.
  destruct o as [d|h|n|u ext mig|ext u h v fc fe|u h|h|ext u|u|u]; cbn [wstep sstep].
  - rewrite <- Rc, <- Rk. split; [split; cbn; auto|reflexivity].
  - rewrite <- Rk. destruct (nth_error (w_keys w) h) as [[k [|]]|]; cbn; (split; [split; cbn; auto|reflexivity]).
  - split; [split; cbn; auto|reflexivity].
  - pose proof (Rm u) as Ru. destruct (find_unit (w_units w) u) as [x|] eqn:E, (s_map s u) eqn:Es; cbn in Ru; try tauto.
    { split; [split; cbn; auto|reflexivity]. }
    assert (ADD : forall ot (f : umap), (forall id, tfind ot id = f id) ->
              forall u', urel (find_unit (w_units w ++ [(u, ot)]) u') (fupd (s_map s) u (Some f) u')).
    { intros ot f Hf u'. rewrite find_app. unfold fupd. specialize (Rm u').
      destruct (Z.eqb_spec u' u) as [->|Hne].
      - rewrite E, Z.eqb_refl. cbn. auto.
      - destruct (find_unit (w_units w) u'); auto. destruct (Z.eqb_spec u u'); [congruence|auto]. }
    destruct mig.
    + rewrite ktable_set_unsafe_eq.
      destruct (ktable_set cfg (w_gsize w) None mig_key MIGVAL ext false false (w_led w)) as [[L' ot'] rc] eqn:ES.
      destruct (ktable_set_spec cfg (w_gsize w) None mig_key MIGVAL ext false false (w_led w) L' ot' rc P Logic.I ES) as (_ & Hrc & Hok & _).
      assert (rc = 0) as -> by (destruct Hrc as [?|[_ [?|?]]]; auto; discriminate).
      cbn. split; [|reflexivity]. split; cbn; auto. apply ADD. intros id. rewrite (Hok eq_refl id).
      unfold uset, fupd, empty_unit. cbn. try reflexivity.
    + cbn. split; [|reflexivity]. split; cbn; auto.
  - rewrite <- Rk. pose proof (Rm u) as Ru. destruct NF as [-> ->].
    destruct (nth_error (w_keys w) h) as [[k [|]]|];
      destruct (find_unit (w_units w) u) as [ot|] eqn:E, (s_map s u) as [f|] eqn:Es; cbn in Ru; try tauto;
      try (split; [split; cbn; auto|reflexivity]).
    destruct (ktable_set cfg (w_gsize w) ot k v ext false false (w_led w)) as [[L' ot'] rc] eqn:ES.
    destruct (ktable_set_spec _ _ _ _ _ _ _ _ _ _ _ _ P (ogood_owf _ _ (wi_good _ I _ _ E)) ES) as (_ & Hrc & Hok & _).
    assert (rc = 0) as -> by (destruct Hrc as [?|[_ [?|?]]]; auto; discriminate).
    cbn. split; [|reflexivity]. split; cbn; auto.
    eapply urel_upd; eauto. intros id. rewrite (Hok eq_refl id). unfold uset, fupd.
    rewrite !Ru. reflexivity.
  - rewrite <- Rk. pose proof (Rm u) as Ru.
    destruct (nth_error (w_keys w) h) as [[k [|]]|];
      destruct (find_unit (w_units w) u) as [ot|] eqn:E, (s_map s u) as [f|] eqn:Es; cbn in Ru; try tauto;
      (split; [split; cbn; auto|]); cbn; auto.
    rewrite ktable_get_tfind, Ru. reflexivity.
  - rewrite <- Rk. destruct (nth_error (w_keys w) h) as [[k [|]]|]; cbn; (split; [split; cbn; auto|reflexivity]).
  - pose proof (Rm u) as Ru.
    destruct (find_unit (w_units w) u) as [ot|] eqn:E, (s_map s u) as [f|] eqn:Es; cbn in Ru; try tauto;
      try (split; [split; cbn; auto|reflexivity]).
    rewrite ktable_get_tfind, Ru. fold (uget f mig_key).
    destruct (uget f mig_key =? 0); [|split; [split; cbn; auto|reflexivity]].
    destruct (ktable_set cfg (w_gsize w) ot mig_key MIGVAL ext false false (w_led w)) as [[L' ot'] rc] eqn:ES.
    destruct (ktable_set_spec _ _ _ _ _ _ _ _ _ _ _ _ P (ogood_owf _ _ (wi_good _ I _ _ E)) ES) as (_ & Hrc & Hok & _).
    assert (rc = 0) as -> by (destruct Hrc as [?|[_ [?|?]]]; auto; discriminate).
    cbn. split; [|reflexivity]. split; cbn; auto.
    eapply urel_upd; eauto. intros id. rewrite (Hok eq_refl id). unfold uset, fupd.
    rewrite !Ru. reflexivity.
  - pose proof (Rm u) as Ru.
    destruct (find_unit (w_units w) u) as [ot|] eqn:E, (s_map s u) as [f|] eqn:Es; cbn in Ru; try tauto;
      (split; [split; cbn; auto|reflexivity]).
  - pose proof (Rm u) as Ru.
    assert (DEL : forall u', urel (find_unit (del_unit (w_units w) u) u') (fupd (s_map s) u None u')).
    { intros u'. rewrite find_del by apply (wi_nodup _ I). unfold fupd. destruct (u' =? u); cbn; auto. }
    destruct (find_unit (w_units w) u) as [[t|]|] eqn:E, (s_map s u) as [f|] eqn:Es; cbn in Ru; try tauto;
      cbn; (split; [split; cbn; auto|reflexivity]).
Qed.

Lemma wrun_refines cfg ops : forall w s,
  WInv w -> Rel w s -> Forall nofail ops ->
  Rel (fst (wrun cfg w ops)) (fst (srun s ops)) /\
  map erase (snd (wrun cfg w ops)) = snd (srun s ops).
Proof.
  induction ops as [|o ops IH]; intros w s I R NF; cbn; auto.
  inversion NF; subst.
  destruct (wstep_refines cfg w s o I R H1) as [R' E].
  pose proof (wstep_inv cfg w o I) as I'.
  destruct (wstep cfg w o) as [w' r], (sstep s o) as [s' r']. cbn in *.
  destruct (IH w' s' I' R' H2) as [R'' E'].
  destruct (wrun cfg w' ops), (srun s' ops). cbn in *. split; auto. congruence.
Qed.

(* ------------------------------------------------------------------ world-level corollaries *)
Definition wlook (w : world) (u id : Z) : option (Z * Z) :=
  match find_unit (w_units w) u with Some ot => tfind ot id | None => None end.

(* at thread_free every stored (destructor, value) with both non-NULL is passed to
   its destructor exactly once, and nothing else is *)
Lemma wfree_dtors cfg w u w' calls :
  WInv w -> wstep cfg w (OFree u) = (w', RFreed calls) ->
  exists ids, NoDup ids /\ (forall id, In id ids <-> wlook w u id <> None) /\
              calls = flat_map (fun id => dtor_of (wlook w u id)) ids /\
              w_dlog w' = w_dlog w ++ calls /\ (forall id, wlook w' u id = None).
Proof.
  intros I H. cbn [wstep] in H. unfold wlook.
  destruct (find_unit (w_units w) u) as [[t|]|] eqn:E.
  - destruct (ktable_free t (w_led w)) as [c L'] eqn:EF. inversion H; subst; clear H.
    unfold ktable_free in EF. inversion EF; subst; clear EF.
    destruct (wi_good _ I _ _ E) as [G _].
    destruct (dtor_calls_spec t G) as (N & Hin & Hc).
    exists (map e_key (telems t)). repeat split; auto; try apply Hin.
    cbn. intros id. rewrite find_del by apply (wi_nodup _ I). rewrite Z.eqb_refl. reflexivity.
  - inversion H; subst; clear H. exists []. repeat split; auto; try constructor; cbn; try tauto.
    + rewrite app_nil_r; auto.
    + intros id. rewrite find_del by apply (wi_nodup _ I). rewrite Z.eqb_refl. reflexivity.
  - inversion H.
Qed.

(* a set that reports an error changed nothing that any get can see *)
Lemma wset_fail_clean cfg w ext u h v fc fe w' rc :
  WInv w -> wstep cfg w (OSet ext u h v fc fe) = (w', RRc rc) -> rc <> 0 ->
  forall u' id, wlook w' u' id = wlook w u' id.
Proof.
  intros I H Hrc u' id. cbn [wstep] in H.
  destruct (nth_error (w_keys w) h) as [[k [|]]|]; destruct (find_unit (w_units w) u) as [ot|] eqn:E;
    try (inversion H; subst; reflexivity).
  destruct (ktable_set cfg (w_gsize w) ot k v ext fc fe (w_led w)) as [[L' ot'] rc'] eqn:ES.
  inversion H; subst; clear H.
  destruct (ktable_set_spec _ _ _ _ _ _ _ _ _ _ _ _ (wi_pow2 _ I) (ogood_owf _ _ (wi_good _ I _ _ E)) ES)
    as (_ & _ & _ & Hbad).
  unfold wlook. cbn [w_units]. rewrite find_set, E.
  destruct (Z.eqb_spec u' u) as [->|]; auto. rewrite E. apply Hbad; auto.
Qed.

(* key ids: without the white-box jump the h-th key has id 2 + h as long as the
   32-bit counter has not wrapped, so distinct handles have distinct ids and no
   user key collides with the internal ids 0 and 1 *)
Definition nojump (o : op) : Prop := match o with OKeyJump _ => False | _ => True end.

Definition is_key_op (o : op) : bool :=
  match o with OKeyCreate _ | OKeyFree _ | OKeyJump _ => true | _ => false end.

Lemma wstep_keys_other cfg w o : is_key_op o = false ->
  w_keys (fst (wstep cfg w o)) = w_keys w /\ w_keyctr (fst (wstep cfg w o)) = w_keyctr w.
Proof.
  destruct o; intros Hk; try discriminate; cbn [wstep];
    repeat match goal with |- context [match ?x with _ => _ end] => destruct x end; cbn; auto.
Qed.

Lemma nth_error_upd_nth_ne {A} (l : list A) i j x : i <> j -> nth_error (upd_nth l i x) j = nth_error l j.
Proof. revert i j; induction l as [|a l IH]; intros [|i] [|j] H; cbn; auto; try lia. Qed.
Lemma nth_error_upd_nth_eq {A} (l : list A) i x y : nth_error l i = Some y -> nth_error (upd_nth l i x) i = Some x.
Proof. revert i; induction l as [|a l IH]; intros [|i] H; cbn in *; try discriminate; auto. Qed.

Record KInv (w : world) : Prop := {
  ki_ctr : KEY_ID_END + Z.of_nat (length (w_keys w)) < W2 ->
           w_keyctr w = KEY_ID_END + Z.of_nat (length (w_keys w));
  ki_ids : forall h k b, nth_error (w_keys w) h = Some (k, b) ->
           KEY_ID_END + Z.of_nat h < W2 -> k_id k = KEY_ID_END + Z.of_nat h
}.

Lemma kinv0 env : KInv (world0 env).
Proof. split; cbn; auto. intros [|h]; discriminate. Qed.

Lemma wstep_kinv cfg w o : nojump o -> KInv w -> KInv (fst (wstep cfg w o)).
Proof.
  intros NJ [Hc Hk]. destruct (is_key_op o) eqn:Eo.
  - destruct o; try discriminate; cbn [wstep].
    + cbn [fst]. split; cbn [w_keys w_keyctr]; rewrite ?app_length; cbn [length].
      * intros Hb. rewrite Hc by lia. unfold KEY_ID_END, W2 in *. rewrite Z.mod_small; lia.
      * intros h k b Hn Hb. destruct (Nat.lt_ge_cases h (length (w_keys w))) as [Hl|Hl].
        -- rewrite nth_error_app1 in Hn by auto. eapply Hk; eauto.
        -- rewrite nth_error_app2 in Hn by auto.
           destruct (h - length (w_keys w))%nat eqn:Eh; cbn in Hn; [|destruct n; discriminate].
           inversion Hn; subst. cbn [k_id]. assert (h = length (w_keys w)) by lia. subst h.
           apply Hc. exact Hb.
    + destruct (nth_error (w_keys w) h) as [[k [|]]|] eqn:En; cbn [fst]; try (split; auto).
      * cbn [w_keys w_keyctr]. rewrite upd_nth_length. auto.
      * cbn [w_keys]. intros h' k' b' Hn Hb. destruct (Nat.eq_dec h h') as [<-|Hne].
        -- rewrite (nth_error_upd_nth_eq _ _ _ _ En) in Hn. inversion Hn; subst. eapply Hk; eauto.
        -- rewrite nth_error_upd_nth_ne in Hn by auto. eapply Hk; eauto.
    + destruct NJ.
  - destruct (wstep_keys_other cfg w o Eo) as [E1 E2]. split; rewrite ?E1, ?E2; auto.
Qed.

Lemma wrun_kinv cfg ops : forall w, Forall nojump ops -> KInv w -> KInv (fst (wrun cfg w ops)).
Proof.
  induction ops as [|o ops IH]; intros w NJ K; cbn; auto. inversion NJ; subst.
  pose proof (wstep_kinv cfg w o H1 K). destruct (wstep cfg w o) as [w' r]. cbn in H.
  specialize (IH w' H2 H). destruct (wrun cfg w' ops). cbn in *. auto.
Qed.

(* ------------------------------------------------------------------ the block ledger *)
Definition is_desc (k : bkind) : bool := match k with BDesc _ => true | BMalloc => false end.
Definition relr_of (mp : bool) : relr := if mp then RDesc else RFree.
Lemma kind_ok_iff k mp : kind_ok k (relr_of mp) = true <-> is_desc k = mp.
Proof. destruct k, mp; cbn; intuition congruence. Qed.

Definition oused (ot : option ktable) : list (Z * bool) :=
  match ot with Some t => t_used t | None => [] end.

Record LedInv (L : ledger) : Prop := {
  ld_bad    : l_bad L = [];
  ld_livend : NoDup (map fst (l_live L));
  ld_allnd  : NoDup (map fst (l_all L));
  ld_bound  : forall b, In b (map fst (l_all L)) -> b < l_next L;
  ld_sub    : forall x, In x (l_live L) -> In x (l_all L);
  ld_relnd  : NoDup (map fst (l_rel L));
  ld_rel    : forall b r, In (b, r) (l_rel L) ->
              ~ In b (map fst (l_live L)) /\ exists k, In (b, k) (l_all L) /\ kind_ok k r = true;
  ld_part   : forall b, In b (map fst (l_all L)) -> In b (map fst (l_live L)) \/ In b (map fst (l_rel L))
}.

Lemma ledinv0 : LedInv ledger0.
Proof. split; cbn; auto; try constructor; tauto. Qed.

Lemma in_fst {A B} (l : list (A * B)) a b : In (a, b) l -> In a (map fst l).
Proof. intros H. apply in_map_iff. exists (a, b). auto. Qed.

Lemma ledinv_alloc L k : LedInv L -> LedInv (fst (l_alloc L k)).
Proof.
  intros [B LN AN BD SB RN RL PT]. unfold l_alloc; cbn [fst].
  assert (Hfresh : ~ In (l_next L) (map fst (l_all L))) by (intros H; apply BD in H; lia).
  split; cbn [l_bad l_live l_all l_rel l_next]; auto.
  - rewrite map_app. cbn. apply NoDup_snoc; auto. intros H. apply Hfresh.
    apply in_map_iff in H. destruct H as ([b k'] & <- & H). apply SB in H. eapply in_fst; eauto.
  - rewrite map_app. cbn. apply NoDup_snoc; auto.
  - intros b. rewrite map_app, in_app_iff. cbn. intros [H|[<-|[]]]; [apply BD in H|]; lia.
  - intros x. rewrite !in_app_iff. intros [H|H]; auto.
  - intros b r H. destruct (RL b r H) as (Hn & k' & Hk & Hok). split.
    + rewrite map_app, in_app_iff. cbn. intros [H1|[<-|[]]]; auto. apply Hfresh. eapply in_fst; eauto.
    + exists k'. split; auto. apply in_or_app; auto.
  - intros b. rewrite !map_app, !in_app_iff. cbn. intros [H|[<-|[]]]; auto.
    destruct (PT b H); auto.
Qed.

Lemma live_find_in l b k : NoDup (map fst l) -> In (b, k) l -> live_find l b = Some k.
Proof.
  induction l as [|[b' k'] l IH]; cbn; intros N H; [tauto|]. inversion N; subst.
  destruct H as [H|H].
  - inversion H; subst. rewrite Z.eqb_refl. reflexivity.
  - destruct (Z.eqb_spec b' b) as [->|]; [|auto]. exfalso. apply H2. eapply in_fst; eauto.
Qed.

Lemma live_remove_in l b x : NoDup (map fst l) ->
  (In x (live_remove l b) <-> In x l /\ fst x <> b).
Proof.
  induction l as [|[b' k'] l IH]; cbn; intros N; [tauto|]. inversion N; subst.
  destruct (Z.eqb_spec b' b) as [->|Hne].
  - split.
    + intros H. split; auto. intros E. apply H1. rewrite <- E. apply in_map. exact H.
    + intros [[<-|H] Hx]; [cbn in Hx; congruence|auto].
  - cbn. rewrite IH by auto. split.
    + intros [<-|[H Hx]]; [cbn; auto|auto].
    + intros [[<-|H] Hx]; auto.
Qed.

Lemma live_remove_nodup l b : NoDup (map fst l) -> NoDup (map fst (live_remove l b)).
Proof.
  induction l as [|[b' k'] l IH]; cbn; intros N; auto. inversion N; subst.
  destruct (b' =? b); cbn; auto. constructor; auto.
  intros H. apply H1. apply in_map_iff in H. destruct H as (x & <- & H).
  apply in_map. clear - H. induction l as [|[b2 k2] l IH]; cbn in *; [tauto|].
  destruct (b2 =? b); cbn in *; intuition.
Qed.

Lemma ledinv_release L b k r :
  LedInv L -> In (b, k) (l_live L) -> kind_ok k r = true ->
  let L' := l_release L b r in
  LedInv L' /\ l_live L' = live_remove (l_live L) b /\ l_all L' = l_all L /\ l_next L' = l_next L /\
  l_rel L' = l_rel L ++ [(b, r)].
Proof.
  intros [B LN AN BD SB RN RL PT] Hin Hok. unfold l_release.
  rewrite (live_find_in _ _ _ LN Hin), Hok. cbn zeta.
  split; [|cbn; auto]. split; cbn [l_bad l_live l_all l_rel l_next]; auto.
  - apply live_remove_nodup; auto.
  - intros x H. apply SB. apply (live_remove_in _ b x LN) in H. tauto.
  - rewrite map_app. cbn. apply NoDup_snoc; auto. intros H.
    apply in_map_iff in H. destruct H as ([b' r'] & E & H). cbn in E; subst b'.
    destruct (RL b r' H) as [Hn _]. apply Hn. eapply in_fst; eauto.
  - intros b' r' H. apply in_app_or in H. destruct H as [H|[H|[]]].
    + destruct (RL b' r' H) as (Hn & k' & Hk & Ho). split; [|eauto].
      intros H'. apply Hn. apply in_map_iff in H'. destruct H' as (x & <- & Hx).
      apply (live_remove_in _ b x LN) in Hx. apply in_map. tauto.
    + inversion H; subst b' r'. split; [|exists k; auto].
      intros H'. apply in_map_iff in H'. destruct H' as (x & E & Hx).
      apply (live_remove_in _ b x LN) in Hx. tauto.
  - intros b' H. rewrite map_app, in_app_iff. cbn.
    destruct (Z.eq_dec b' b) as [->|Hne]; [auto|].
    destruct (PT b' H) as [H'|H']; auto. left.
    apply in_map_iff in H'. destruct H' as (x & <- & Hx). apply in_map.
    apply (live_remove_in _ b x LN). auto.
Qed.

(* the link between the units' p_used_mem chains and the ledger *)
Record Link (us : list (Z * option ktable)) (L : ledger) : Prop := {
  lk_nd   : forall u ot, find_unit us u = Some ot -> NoDup (map fst (oused ot));
  lk_own  : forall u ot b mp, find_unit us u = Some ot -> In (b, mp) (oused ot) ->
            exists k, In (b, k) (l_live L) /\ is_desc k = mp;
  lk_uniq : forall u1 u2 ot1 ot2 b, find_unit us u1 = Some ot1 -> find_unit us u2 = Some ot2 ->
            In b (map fst (oused ot1)) -> In b (map fst (oused ot2)) -> u1 = u2;
  lk_live : forall b, In b (map fst (l_live L)) ->
            exists u ot, find_unit us u = Some ot /\ In b (map fst (oused ot))
}.

Lemma link0 : Link [] ledger0.
Proof. split; cbn; try discriminate; tauto. Qed.

Lemma link_same us L u ot ot' :
  Link us L -> find_unit us u = Some ot -> oused ot' = oused ot -> Link (set_unit us u ot') L.
Proof.
  intros [ND OW UQ LV] Hf E.
  assert (F : forall u' x, find_unit (set_unit us u ot') u' = Some x ->
                exists x0, find_unit us u' = Some x0 /\ oused x = oused x0).
  { intros u' x. rewrite find_set, Hf. destruct (Z.eqb_spec u' u) as [->|].
    - intros H; inversion H; subst. eauto.
    - intros H; eauto. }
  split.
  - intros u' x H. destruct (F _ _ H) as (x0 & H0 & ->). eauto.
  - intros u' x b mp H. destruct (F _ _ H) as (x0 & H0 & ->). eauto.
  - intros u1 u2 x1 x2 b H1 H2. destruct (F _ _ H1) as (y1 & G1 & ->), (F _ _ H2) as (y2 & G2 & ->). eauto.
  - intros b H. destruct (LV b H) as (u' & x & Hx & Hb).
    destruct (Z.eq_dec u' u) as [->|Hne].
    + exists u, ot'. rewrite find_set, Hf, Z.eqb_refl. split; auto. rewrite E. congruence.
    + exists u', x. rewrite find_set. destruct (Z.eqb_spec u' u); [congruence|auto].
Qed.

Lemma link_push us L u ot ot' k :
  LedInv L -> Link us L -> find_unit us u = Some ot ->
  oused ot' = (l_next L, is_desc k) :: oused ot ->
  Link (set_unit us u ot') (fst (l_alloc L k)).
Proof.
  intros LI [ND OW UQ LV] Hf E.
  assert (Hfresh : forall u' x, find_unit us u' = Some x -> ~ In (l_next L) (map fst (oused x))).
  { intros u' x Hx H. apply in_map_iff in H. destruct H as ([b mp] & Eb & H). cbn in Eb; subst b.
    destruct (OW _ _ _ _ Hx H) as (k' & Hk & _). apply (ld_sub _ LI) in Hk.
    pose proof (ld_bound _ LI _ (in_fst _ _ _ Hk)). lia. }
  unfold l_alloc; cbn [fst].
  split; cbn [l_live].
  - intros u' x. rewrite find_set, Hf. destruct (Z.eqb_spec u' u) as [->|]; [|apply ND].
    intros H; inversion H; subst. rewrite E. cbn. constructor; [apply (Hfresh _ _ Hf)|eauto].
  - intros u' x b mp. rewrite find_set, Hf. destruct (Z.eqb_spec u' u) as [->|].
    + intros H; inversion H; subst. rewrite E. intros [Hb|Hb].
      * inversion Hb; subst. exists k. split; auto. apply in_or_app; right; left; auto.
      * destruct (OW _ _ _ _ Hf Hb) as (k' & Hk & Hd). exists k'. split; auto. apply in_or_app; auto.
    + intros H Hb. destruct (OW _ _ _ _ H Hb) as (k' & Hk & Hd). exists k'. split; auto. apply in_or_app; auto.
  - intros u1 u2 x1 x2 b. rewrite !find_set, Hf.
    destruct (Z.eqb_spec u1 u) as [->|N1], (Z.eqb_spec u2 u) as [->|N2]; auto.
    + intros H1 H2; inversion H1; subst. rewrite E. cbn. intros [<-|Hb] Hb2.
      * exfalso. eapply Hfresh; eauto.
      * eapply UQ; eauto.
    + intros H1 H2; inversion H2; subst. rewrite E. cbn. intros Hb1 [<-|Hb].
      * exfalso. eapply Hfresh; eauto.
      * eapply UQ; eauto.
    + apply UQ.
  - intros b. rewrite map_app, in_app_iff. cbn. intros [H|[<-|[]]].
    + destruct (LV b H) as (u' & x & Hx & Hb). destruct (Z.eq_dec u' u) as [->|Hne].
      * exists u, ot'. rewrite find_set, Hf, Z.eqb_refl. split; auto. rewrite E. cbn. right. congruence.
      * exists u', x. rewrite find_set. destruct (Z.eqb_spec u' u); [congruence|auto].
    + exists u, ot'. rewrite find_set, Hf, Z.eqb_refl. split; auto. rewrite E. cbn. auto.
Qed.

Lemma link_add us L u ot :
  Link us L -> find_unit us u = None -> oused ot = [] -> Link (us ++ [(u, ot)]) L.
Proof.
  intros [ND OW UQ LV] Hf E.
  assert (F : forall u' x, find_unit (us ++ [(u, ot)]) u' = Some x ->
                find_unit us u' = Some x \/ oused x = []).
  { intros u' x. rewrite find_app. destruct (find_unit us u'); auto.
    destruct (u =? u'); [intros H; inversion H; subst; auto|discriminate]. }
  split.
  - intros u' x H. destruct (F _ _ H) as [H0| ->]; [eauto|constructor].
  - intros u' x b mp H Hb. destruct (F _ _ H) as [H0|E0]; [eauto|rewrite E0 in Hb; destruct Hb].
  - intros u1 u2 x1 x2 b H1 H2 B1 B2.
    destruct (F _ _ H1) as [G1|E1]; [|rewrite E1 in B1; destruct B1].
    destruct (F _ _ H2) as [G2|E2]; [|rewrite E2 in B2; destruct B2]. eauto.
  - intros b H. destruct (LV b H) as (u' & x & Hx & Hb). exists u', x. rewrite find_app, Hx. auto.
Qed.

(* allocations performed by one call: each takes the next block id and pushes it on
   the caller's p_used_mem *)
Inductive Steps : ledger -> list (Z * bool) -> ledger -> list (Z * bool) -> Prop :=
| st_nil L used : Steps L used L used
| st_cons L used k L' used' :
    Steps (fst (l_alloc L k)) ((l_next L, is_desc k) :: used) L' used' -> Steps L used L' used'.

Lemma steps_one L used k : Steps L used (fst (l_alloc L k)) ((l_next L, is_desc k) :: used).
Proof. eapply st_cons. apply st_nil. Qed.

Lemma steps_trans L1 u1 L2 u2 L3 u3 : Steps L1 u1 L2 u2 -> Steps L2 u2 L3 u3 -> Steps L1 u1 L3 u3.
Proof. induction 1; auto. intros. eapply st_cons; eauto. Qed.

Lemma alloc_elem_steps cfg t size ext fail L L' t' r :
  ktable_alloc_elem cfg t size ext fail L = (L', t', r) -> Steps L (t_used t) L' (t_used t').
Proof.
  unfold ktable_alloc_elem. intros H.
  destruct (size <=? t_extra_size t); [inversion H; subst; apply st_nil|].
  destruct (size <=? c_desc cfg); destruct fail; try (inversion H; subst; apply st_nil).
  - change (let (L'0, b) := l_alloc L (BDesc ext) in
            (L'0, mkT (t_size t) (t_elems t) ((b, true) :: t_used t) (b, c_hdr cfg + size) (c_desc cfg - size),
             Some (b, c_hdr cfg))) with
      (fst (l_alloc L (BDesc ext)),
       mkT (t_size t) (t_elems t) ((l_next L, true) :: t_used t) (l_next L, c_hdr cfg + size) (c_desc cfg - size),
       Some (l_next L, c_hdr cfg)) in H.
    inversion H; subst; cbn [t_used]. apply (steps_one L (t_used t) (BDesc ext)).
  - change (let (L'0, b) := l_alloc L BMalloc in
            (L'0, mkT (t_size t) (t_elems t) ((b, false) :: t_used t) (t_extra t) (t_extra_size t),
             Some (b, c_hdr cfg))) with
      (fst (l_alloc L BMalloc),
       mkT (t_size t) (t_elems t) ((l_next L, false) :: t_used t) (t_extra t) (t_extra_size t),
       Some (l_next L, c_hdr cfg)) in H.
    inversion H; subst; cbn [t_used]. apply (steps_one L (t_used t) BMalloc).
Qed.

Lemma set_impl_steps cfg t k v ext fail L L' t' rc :
  ktable_set_impl cfg t k v ext fail L = (L', t', rc) -> Steps L (t_used t) L' (t_used t').
Proof.
  unfold ktable_set_impl. intros H.
  destruct (chain_walk _ _ 0) as [i|n]; [inversion H; subst; apply st_nil|].
  destruct (chain_walk (skipn n _) _ n) as [i|n']; [inversion H; subst; apply st_nil|].
  destruct (ktable_alloc_elem cfg t (ktelem_bytes cfg) ext fail L) as [[L1 t1] [p|]] eqn:EA;
    inversion H; subst; cbn [with_chain t_used]; eapply alloc_elem_steps; eauto.
Qed.

Lemma create_steps cfg gsize ext fail L L' ot :
  ktable_create cfg gsize ext fail L = (L', ot) -> Steps L [] L' (oused ot).
Proof.
  unfold ktable_create. intros H.
  destruct (_ <=? c_desc cfg); destruct fail; try (inversion H; subst; apply st_nil).
  - unfold l_alloc in H. cbn in H. inversion H; subst. cbn [oused t_used].
    apply (steps_one L [] (BDesc ext)).
  - unfold l_alloc in H. cbn in H. inversion H; subst. cbn [oused t_used].
    apply (steps_one L [] BMalloc).
Qed.

Lemma ktable_set_steps cfg gsize ot k v ext fc fe L L' ot' rc :
  ktable_set cfg gsize ot k v ext fc fe L = (L', ot', rc) -> Steps L (oused ot) L' (oused ot').
Proof.
  unfold ktable_set. intros H. destruct ot as [t|].
  - destruct (ktable_set_impl cfg t k v ext fe L) as [[L1 t1] rc1] eqn:E. inversion H; subst.
    cbn [oused]. eapply set_impl_steps; eauto.
  - destruct (ktable_create cfg gsize ext fc L) as [L1 [t|]] eqn:EC.
    + destruct (ktable_set_impl cfg t k v ext fe L1) as [[L2 t2] rc2] eqn:E. inversion H; subst.
      eapply steps_trans; [eapply create_steps; eauto|]. cbn [oused]. eapply set_impl_steps; eauto.
    + inversion H; subst. apply (create_steps _ _ _ _ _ _ _ EC).
Qed.

Definition dummy_tab (used : list (Z * bool)) : option ktable := Some (mkT 0 [] used NULLLOC 0).

Lemma set_set us u a b : set_unit (set_unit us u a) u b = set_unit us u b.
Proof.
  induction us as [|[c x] us IH]; cbn; auto. destruct (c =? u) eqn:Ec; cbn; rewrite Ec; congruence.
Qed.

Lemma link_steps L used L' used' : Steps L used L' used' ->
  forall us u ot ot', LedInv L -> Link us L -> find_unit us u = Some ot ->
  oused ot = used -> oused ot' = used' ->
  LedInv L' /\ Link (set_unit us u ot') L'.
Proof.
  induction 1 as [L used|L used k L' used' HS IH]; intros us u ot ot' LI LK Hf E E'.
  - split; auto. eapply link_same; eauto. congruence.
  - pose proof (link_push us L u ot (dummy_tab ((l_next L, is_desc k) :: used)) k LI LK Hf) as LK1.
    cbn [oused dummy_tab t_used] in LK1. rewrite E in LK1. specialize (LK1 eq_refl).
    pose proof (ledinv_alloc L k LI) as LI1.
    destruct (IH (set_unit us u (dummy_tab ((l_next L, is_desc k) :: used))) u
                 (dummy_tab ((l_next L, is_desc k) :: used)) ot' LI1 LK1) as [LI' LK']; auto.
    { rewrite find_set, Hf, Z.eqb_refl. reflexivity. }
    rewrite set_set in LK'. auto.
Qed.

(* the release walk of ABTI_ktable_free *)
Lemma release_chain_spec used : forall L,
  LedInv L -> NoDup (map fst used) ->
  (forall b mp, In (b, mp) used -> exists k, In (b, k) (l_live L) /\ is_desc k = mp) ->
  let L' := release_chain used L in
  LedInv L' /\
  (forall x, In x (l_live L') <-> In x (l_live L) /\ ~ In (fst x) (map fst used)) /\
  (forall b, In b (map fst used) -> In b (map fst (l_rel L'))) /\
  (forall x, In x (l_rel L) -> In x (l_rel L')).
Proof.
  unfold release_chain. induction used as [|[b mp] used IH]; intros L LI N OW; cbn [fold_left].
  - split; auto. split; [intros x; cbn; tauto|]. split; [intros b []|auto].
  - inversion N; subst. destruct (OW b mp (or_introl eq_refl)) as (k & Hk & Hd).
    cbn [fst snd]. fold (relr_of mp).
    destruct (ledinv_release L b k (relr_of mp) LI Hk (proj2 (kind_ok_iff k mp) Hd))
      as (LI1 & Hl & Ha & Hn & Hr).
    destruct (IH (l_release L b (relr_of mp)) LI1 H2) as (LI2 & Hl2 & Hr2 & Hr3).
    { intros b' mp' H'. destruct (OW b' mp' (or_intror H')) as (k' & Hk' & Hd').
      exists k'. split; auto. rewrite Hl. apply (live_remove_in _ b _ (ld_livend _ LI)). split; auto.
      cbn. intros ->. apply H1. eapply in_fst; eauto. }
    split; auto. split; [|split].
    + intros x. rewrite Hl2, Hl, (live_remove_in _ b x (ld_livend _ LI)). cbn. intuition congruence.
    + intros b' [<-|H']; auto. apply in_map_iff. exists (b, relr_of mp). split; auto.
      apply Hr3. rewrite Hr. apply in_or_app; right; left; auto.
    + intros x H. apply Hr3. rewrite Hr. apply in_or_app; auto.
Qed.

Lemma link_del us L u ot L' :
  NoDup (map fst us) -> Link us L -> find_unit us u = Some ot ->
  (forall x, In x (l_live L') <-> In x (l_live L) /\ ~ In (fst x) (map fst (oused ot))) ->
  Link (del_unit us u) L'.
Proof.
  intros N [ND OW UQ LV] Hf HL.
  assert (F : forall u' x, find_unit (del_unit us u) u' = Some x -> find_unit us u' = Some x /\ u' <> u).
  { intros u' x. rewrite find_del by auto. destruct (Z.eqb_spec u' u); [discriminate|auto]. }
  split.
  - intros u' x H. destruct (F _ _ H). eauto.
  - intros u' x b mp H Hb. destruct (F _ _ H) as [H0 Hne].
    destruct (OW _ _ _ _ H0 Hb) as (k & Hk & Hd). exists k. split; auto. apply HL. split; auto.
    cbn. intros Hin. apply Hne. eapply (UQ u' u x ot b); eauto. eapply in_fst; eauto.
  - intros u1 u2 x1 x2 b H1 H2. destruct (F _ _ H1), (F _ _ H2). eauto.
  - intros b H. apply in_map_iff in H. destruct H as (x & <- & Hx). apply HL in Hx. destruct Hx as [Hx Hn].
    destruct (LV (fst x) (in_map fst _ _ Hx)) as (u' & y & Hy & Hb).
    exists u', y. split; auto. rewrite find_del by auto.
    destruct (Z.eqb_spec u' u) as [->|]; auto. exfalso. apply Hn. congruence.
Qed.

(* ------------------------------------------------------------------ the ledger invariant along every run *)
Record BInv (w : world) : Prop := {
  bi_led  : LedInv (w_led w);
  bi_link : Link (w_units w) (w_led w)
}.

Lemma binv0 env : BInv (world0 env).
Proof. split; cbn; [apply ledinv0|apply link0]. Qed.

Lemma wstep_binv cfg w o : WInv w -> BInv w -> BInv (fst (wstep cfg w o)).
Proof.
  intros I [LI LK].
  destruct o as [d|h|n|u ext mig|ext u h v fc fe|u h|h|ext u|u|u]; cbn [wstep].
  - cbn [fst]. split; auto.
  - destruct (nth_error (w_keys w) h) as [[k [|]]|]; cbn [fst]; split; auto.
  - cbn [fst]. split; auto.
  - destruct (find_unit (w_units w) u) eqn:E; cbn [fst]; [split; auto|].
    destruct mig.
    + rewrite ktable_set_unsafe_eq.
      destruct (ktable_set cfg (w_gsize w) None mig_key MIGVAL ext false false (w_led w)) as [[L' ot'] rc] eqn:ES.
      cbn [fst]. pose proof (ktable_set_steps _ _ _ _ _ _ _ _ _ _ _ _ ES) as ST.
      pose proof (link_add (w_units w) (w_led w) u None LK E eq_refl) as LK1.
      destruct (link_steps _ _ _ _ ST (w_units w ++ [(u, None)]) u None ot' LI LK1) as [LI' LK']; auto.
      { rewrite find_app, E, Z.eqb_refl. reflexivity. }
      split; cbn [w_led w_units]; auto.
      replace (w_units w ++ [(u, ot')]) with (set_unit (w_units w ++ [(u, None)]) u ot'); auto.
      clear - E. induction (w_units w) as [|[a x] l IH]; cbn in *.
      * rewrite Z.eqb_refl. reflexivity.
      * destruct (Z.eqb_spec a u); [discriminate|]. rewrite IH; auto.
    + cbn [fst]. split; cbn [w_led w_units]; auto. apply link_add; auto.
  - destruct (nth_error (w_keys w) h) as [[k [|]]|]; destruct (find_unit (w_units w) u) as [ot|] eqn:E;
      cbn [fst]; try (split; auto; fail).
    destruct (ktable_set cfg (w_gsize w) ot k v ext fc fe (w_led w)) as [[L' ot'] rc] eqn:ES. cbn [fst].
    pose proof (ktable_set_steps _ _ _ _ _ _ _ _ _ _ _ _ ES) as ST.
    destruct (link_steps _ _ _ _ ST (w_units w) u ot ot' LI LK E eq_refl eq_refl) as [LI' LK'].
    split; auto.
  - destruct (nth_error (w_keys w) h) as [[k [|]]|]; destruct (find_unit (w_units w) u); cbn [fst]; split; auto.
  - destruct (nth_error (w_keys w) h) as [[k [|]]|]; cbn [fst]; split; auto.
  - destruct (find_unit (w_units w) u) as [ot|] eqn:E; cbn [fst]; [|split; auto].
    destruct (ktable_get ot mig_key =? 0); cbn [fst]; [|split; auto].
    destruct (ktable_set cfg (w_gsize w) ot mig_key MIGVAL ext false false (w_led w)) as [[L' ot'] rc] eqn:ES. cbn [fst].
    pose proof (ktable_set_steps _ _ _ _ _ _ _ _ _ _ _ _ ES) as ST.
    destruct (link_steps _ _ _ _ ST (w_units w) u ot ot' LI LK E eq_refl eq_refl) as [LI' LK'].
    split; auto.
  - destruct (find_unit (w_units w) u); cbn [fst]; split; auto.
  - destruct (find_unit (w_units w) u) as [[t|]|] eqn:E; cbn [fst]; [| |split; auto].
    + unfold ktable_free. cbn [fst].
      destruct (release_chain_spec (t_used t) (w_led w) LI (lk_nd _ _ LK _ _ E))
        as (LI' & HL & _ & _).
      { intros b mp Hb. apply (lk_own _ _ LK _ _ _ _ E Hb). }
      split; cbn [w_led w_units]; auto.
      eapply link_del; eauto. apply (wi_nodup _ I).
    + split; cbn [w_led w_units]; auto.
      eapply link_del; eauto; [apply (wi_nodup _ I)|]. cbn. intros x. tauto.
Qed.

Lemma wrun_binv cfg ops : forall w, WInv w -> BInv w -> BInv (fst (wrun cfg w ops)).
Proof.
  induction ops as [|o ops IH]; intros w I B; cbn; auto.
  pose proof (wstep_inv cfg w o I) as I'. pose proof (wstep_binv cfg w o I B) as B'.
  destruct (wstep cfg w o) as [w' r]. cbn in *.
  specialize (IH w' I' B'). destruct (wrun cfg w' ops). cbn in *. auto.
Qed.

(* what the invariant says about any reachable ledger *)
Lemma binv_blocks w : BInv w ->
  let L := w_led w in
  l_bad L = [] /\ NoDup (map fst (l_rel L)) /\
  (forall b r, In (b, r) (l_rel L) -> exists k, In (b, k) (l_all L) /\ kind_ok k r = true) /\
  (forall b, In b (map fst (l_all L)) ->
     (In b (map fst (l_rel L)) /\ ~ In b (map fst (l_live L))) \/
     (~ In b (map fst (l_rel L)) /\
      exists u ot, find_unit (w_units w) u = Some ot /\ In b (map fst (oused ot)) /\
        forall u' ot', find_unit (w_units w) u' = Some ot' -> In b (map fst (oused ot')) -> u' = u)) /\
  (w_units w = [] -> l_live L = []).
Proof.
  intros [LI LK] L. split; [apply (ld_bad _ LI)|]. split; [apply (ld_relnd _ LI)|]. split; [|split].
  - intros b r H. apply (ld_rel _ LI b r H).
  - intros b H. destruct (ld_part _ LI b H) as [Hl|Hr].
    + right. split.
      * intros Hr. apply in_map_iff in Hr. destruct Hr as ([b' r] & E & Hr). cbn in E; subst b'.
        destruct (ld_rel _ LI b r Hr) as [Hn _]. auto.
      * destruct (lk_live _ _ LK b Hl) as (u & ot & Hu & Hb). exists u, ot. repeat split; auto.
        intros u' ot' Hu' Hb'. eapply (lk_uniq _ _ LK); eauto.
    + left. split; auto. apply in_map_iff in Hr. destruct Hr as ([b' r] & E & Hr). cbn in E; subst b'.
      apply (ld_rel _ LI b r Hr).
  - intros E. destruct (l_live L) as [|[b k] l] eqn:El; auto. exfalso.
    destruct (lk_live _ _ LK b) as (u & ot & Hu & _).
    { fold L. rewrite El. cbn. auto. }
    rewrite E in Hu. discriminate.
Qed.

(* after thread_free of a unit all of its blocks are in the release log *)
Lemma wfree_blocks cfg w u t w' calls :
  WInv w -> BInv w -> find_unit (w_units w) u = Some (Some t) ->
  wstep cfg w (OFree u) = (w', RFreed calls) ->
  forall b, In b (map fst (t_used t)) ->
    In b (map fst (l_rel (w_led w'))) /\ ~ In b (map fst (l_live (w_led w'))).
Proof.
  intros I [LI LK] E H b Hb. cbn [wstep] in H. rewrite E in H. unfold ktable_free in H.
  inversion H; subst; clear H. cbn [w_led].
  destruct (release_chain_spec (t_used t) (w_led w) LI (lk_nd _ _ LK _ _ E)) as (LI' & HL & HR & _).
  { intros b' mp Hb'. apply (lk_own _ _ LK _ _ _ _ E Hb'). }
  split; [apply HR; auto|]. intros Hl. apply in_map_iff in Hl. destruct Hl as (x & <- & Hx).
  apply HL in Hx. tauto.
Qed.
