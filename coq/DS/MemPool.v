(* Model of the memory pool: src/include/abti_mem_pool.h (ABTI_mem_pool_alloc,
   ABTI_mem_pool_free) and src/mem/mem_pool.c (take_bucket, return_bucket,
   mem_pool_return_partial_bucket, init/destroy of local and global pools), at
   field level.

   Blocks.  An ABTI_mem_pool_header is identified by a positive integer:
   header number [slot] (0-based) of page number [p] (1-based, in allocation
   order) is  blk_id S p slot = (p-1)*S + slot + 1, where S is the number of
   headers that fit in a page, S = (page_size - sizeof(ABTI_mem_pool_page)) /
   header_size.  0 is NULL.  "p_cur = (char* )p_prev + header_size" is +1 on ids
   (same page).  The byte-level bookkeeping of a page (p_mem_extra,
   mem_extra_size) is represented by the number of headers carved so far
   ([pg_carved]); DS/StackGeom.v (lemmas carve_bytes) proves that the C expressions
   over bytes compute exactly these numbers.

   Header fields: [h_next] = p_next; [h_info] = the union bucket_info
   {lifo_elem.p_next | num_headers} as ONE word: a header pushed on bucket_lifo
   has its num_headers overwritten by the LIFO link and vice versa.
   num_headers is a size_t that the C code reads into an int and writes back
   from int expressions; the model keeps the signed value (Z).  This matters
   only for the defective remaining-count expression (finding F5), whose result
   is negative: the harness prints the field as (long).

   The two LIFOs (bucket_lifo, mem_page_lifo) are used through
   SyncLifo.seq_push / seq_pop (the single-thread behaviour of the tagged LIFO;
   SyncLifoProofs.lifo_no_aba shows that concurrent pushes/pops are
   linearisable to exactly these), including the tags.

   Operations on several local pools may come in any order (that is the
   interleaving of streams at the granularity of one local-pool operation).
   Page allocation failure is an input: [g_budget] further allocations succeed
   (negative = unlimited).
   Only model code here: no proofs. *)
From Coq Require Import List ZArith Bool.
From ABT Require Import Common.ListAux DS.SyncLifo.
Import ListNotations.
Local Open Scope Z_scope.

Record hdr := mkH { h_next : Z; h_info : Z }.
Record page := mkP {
  pg_lnext : Z;      (* lifo_elem.p_next (mem_page_lifo link) *)
  pg_enext : Z;      (* p_next_empty_page *)
  pg_carved : Z      (* headers carved so far: (p_mem_extra - mem) / header_size *)
}.

Record gpool := mkG {
  g_N : Z;                     (* num_headers_per_bucket *)
  g_S : Z;                     (* headers per page *)
  g_hp : Z -> hdr;             (* header memory *)
  g_btop : Z; g_btag : Z;      (* bucket_lifo.p_top {ptr, tag} *)
  g_ptop : Z; g_ptag : Z;      (* mem_page_lifo.p_top *)
  g_pages : Z -> page; g_npages : Z;
  g_empty : Z;                 (* p_mem_page_empty *)
  g_partial : Z;               (* partial_bucket *)
  g_budget : Z                 (* environment: page allocations that will still succeed *)
}.

Definition set_hp g hp := mkG (g_N g) (g_S g) hp (g_btop g) (g_btag g) (g_ptop g) (g_ptag g)
                              (g_pages g) (g_npages g) (g_empty g) (g_partial g) (g_budget g).
Definition set_blifo g t tg := mkG (g_N g) (g_S g) (g_hp g) t tg (g_ptop g) (g_ptag g)
                              (g_pages g) (g_npages g) (g_empty g) (g_partial g) (g_budget g).
Definition set_plifo g t tg := mkG (g_N g) (g_S g) (g_hp g) (g_btop g) (g_btag g) t tg
                              (g_pages g) (g_npages g) (g_empty g) (g_partial g) (g_budget g).
Definition set_pages g pgs := mkG (g_N g) (g_S g) (g_hp g) (g_btop g) (g_btag g) (g_ptop g) (g_ptag g)
                              pgs (g_npages g) (g_empty g) (g_partial g) (g_budget g).
Definition set_npages g n b := mkG (g_N g) (g_S g) (g_hp g) (g_btop g) (g_btag g) (g_ptop g) (g_ptag g)
                              (g_pages g) n (g_empty g) (g_partial g) b.
Definition set_empty g e := mkG (g_N g) (g_S g) (g_hp g) (g_btop g) (g_btag g) (g_ptop g) (g_ptag g)
                              (g_pages g) (g_npages g) e (g_partial g) (g_budget g).
Definition set_partial g p := mkG (g_N g) (g_S g) (g_hp g) (g_btop g) (g_btag g) (g_ptop g) (g_ptag g)
                              (g_pages g) (g_npages g) (g_empty g) p (g_budget g).
Definition set_budget g b := mkG (g_N g) (g_S g) (g_hp g) (g_btop g) (g_btag g) (g_ptop g) (g_ptag g)
                              (g_pages g) (g_npages g) (g_empty g) (g_partial g) b.

Definition set_next (hp : Z -> hdr) (b v : Z) := upd hp b (mkH v (h_info (hp b))).
Definition set_info (hp : Z -> hdr) (b v : Z) := upd hp b (mkH (h_next (hp b)) v).

Definition blk_id (S p slot : Z) : Z := (p - 1) * S + slot + 1.

(* ABTI_mem_pool_init_global_pool *)
Definition init_global (N S budget : Z) : gpool :=
  mkG N S (fun _ => mkH 0 0) 0 0 0 0 (fun _ => mkP 0 0 0) 0 0 0 budget.

(* ABTI_mem_pool_return_bucket: push &bucket->bucket_info.lifo_elem *)
Definition return_bucket (g : gpool) (b : Z) : gpool :=
  let '(w, t, tg) := seq_push (g_btop g) (g_btag g) b in
  set_blifo (set_hp g (set_info (g_hp g) b w)) t tg.

(* for (i = 1; i < n; i++) p = p->p_next;  =  [k] = n - 1 steps (none if n <= 1) *)
Fixpoint walk_next (hp : Z -> hdr) (p : Z) (k : nat) : Z :=
  match k with O => p | S k' => walk_next hp (h_next (hp p)) k' end.

(* the expression stored in new_partial_bucket->bucket_info.num_headers.
   [rem_fixed] is mem_pool.c after fixes/F5-partial-bucket.patch;
   [rem_buggy] is the expression of the unpatched file (operands swapped). *)
Definition rem_fixed (N P B : Z) : Z := (P + B) - N.
Definition rem_buggy (N P B : Z) : Z := N - (P + B).

Section Variant.
Variable remf : Z -> Z -> Z -> Z.

(* mem_pool_return_partial_bucket (whole function = one critical section of
   partial_bucket_lock) *)
Definition return_partial_gen (g : gpool) (bucket : Z) : gpool :=
  let hp := g_hp g in
  let N := g_N g in
  if g_partial g =? 0 then set_partial g bucket
  else
    let P := h_info (hp (g_partial g)) in
    let B := h_info (hp bucket) in
    if P + B <? N then
      let tail := walk_next hp (g_partial g) (Z.to_nat (P - 1)) in
      let hp1 := set_next hp tail bucket in
      let hp2 := set_info hp1 (g_partial g) (P + B) in
      set_hp g hp2
    else
      let ph := walk_next hp (g_partial g) (Z.to_nat (N - B - 1)) in
      let '(hp1, newp) :=
          if negb (P + B =? N) then
            let np := h_next (hp ph) in (set_info hp np (remf N P B), np)
          else (hp, 0) in
      let hp2 := set_next hp1 ph bucket in
      let g1 := return_bucket (set_hp g hp2) (g_partial g) in
      set_partial g1 newp.

(* ---- ABTI_mem_pool_take_bucket *)
Inductive tb_res :=
| TBOk (g : gpool) (b : Z)
| TBNoMem (g : gpool)           (* ABT_ERR_MEM *)
| TBFuel.                       (* model artefact: loop bound exhausted (proved unreachable) *)

(* pop mem_page_lifo, else ABTU_alloc_largepage *)
Definition get_page (g : gpool) : option (gpool * Z) :=
  match seq_pop (g_ptop g) (g_ptag g) (pg_lnext (g_pages g (g_ptop g))) with
  | Some (p, t, tg) => Some (set_plifo g t tg, p)
  | None =>
      if g_budget g =? 0 then None
      else
        let p := g_npages g + 1 in
        let old := g_pages g p in
        (* mem, page_size, lp_type, p_mem_extra, mem_extra_size are set; the two
           link fields keep whatever the fresh memory holds *)
        let g1 := set_pages g (upd (g_pages g) p (mkP (pg_lnext old) (pg_enext old) 0)) in
        Some (set_npages g1 p (if 0 <? g_budget g then g_budget g - 1 else g_budget g), p)
  end.

(* for (i = 1; i < num_provided; i++) { p_cur = p_prev + header_size; p_cur->p_next = p_prev; p_prev = p_cur; } *)
Fixpoint link_more (hp : Z -> hdr) (prev : Z) (k : nat) : (Z -> hdr) * Z :=
  match k with
  | O => (hp, prev)
  | S k' => let cur := prev + 1 in link_more (set_next hp cur prev) cur k'
  end.

(* "if (p_page->mem_extra_size >= header_size) push to mem_page_lifo else push to
   the list of empty pages" *)
Definition page_give_back (g2 : gpool) (p : Z) : gpool :=
  let pg2 := g_pages g2 p in
  if 1 <=? g_S g2 - pg_carved pg2 then                    (* mem_extra_size >= header_size *)
    let '(w, t, tg) := seq_push (g_ptop g2) (g_ptag g2) p in
    set_plifo (set_pages g2 (upd (g_pages g2) p (mkP w (pg_enext pg2) (pg_carved pg2)))) t tg
  else
    set_empty (set_pages g2 (upd (g_pages g2) p (mkP (pg_lnext pg2) (g_empty g2) (pg_carved pg2)))) p.

(* body of the while(1) loop after a page was obtained: take what the page can
   provide, give the page back, link the new headers in front of p_head.
   Returns (pool, num_headers, p_head). *)
Definition carve_page (g1 : gpool) (p num_headers p_head : Z) : gpool * Z * Z :=
  let pg := g_pages g1 p in
  let num_provided0 := g_S g1 - pg_carved pg in        (* mem_extra_size / header_size *)
  let num_required := g_N g1 - num_headers in
  let num_provided := if num_required <? num_provided0 then num_required else num_provided0 in
  let first := blk_id (g_S g1) p (pg_carved pg) in      (* p_mem_extra + header_offset *)
  let carved' := pg_carved pg + num_provided in
  let g2 := set_pages g1 (upd (g_pages g1) p (mkP (pg_lnext pg) (pg_enext pg) carved')) in
  let g3 := page_give_back g2 p in
  let hp1 := set_next (g_hp g3) first p_head in
  let '(hp2, head') := link_more hp1 first (Z.to_nat (num_provided - 1)) in
  (set_hp g3 hp2, num_headers + num_provided, head').

Fixpoint take_loop (fuel : nat) (g : gpool) (num_headers p_head : Z) : tb_res :=
  match fuel with
  | O => TBFuel
  | S f =>
    match get_page g with
    | None =>
        if negb (num_headers =? 0)
        then TBNoMem (return_partial_gen (set_hp g (set_info (g_hp g) p_head num_headers)) p_head)
        else TBNoMem g
    | Some (g1, p) =>
        let '(g4, nh, head') := carve_page g1 p num_headers p_head in
        if nh =? g_N g4 then TBOk (set_hp g4 (set_info (g_hp g4) head' (g_N g4))) head'
        else take_loop f g4 nh head'
    end
  end.

Definition take_bucket (g : gpool) : tb_res :=
  match seq_pop (g_btop g) (g_btag g) (h_info (g_hp g (g_btop g))) with
  | Some (b, t, tg) =>
      let g1 := set_blifo g t tg in
      TBOk (set_hp g1 (set_info (g_hp g1) b (g_N g1))) b
  | None => take_loop (Z.to_nat (g_N g)) g 0 0
  end.

(* ---- local pool: ABT_MEM_POOL_MAX_LOCAL_BUCKETS = 2, NUM_RETURN_BUCKETS = NUM_TAKE_BUCKETS = 1 *)
Record lpool := mkL { l_idx : Z; l_b0 : Z; l_b1 : Z }.
Definition lget (l : lpool) (i : Z) : Z := if i =? 0 then l_b0 l else l_b1 l.
Definition lset (l : lpool) (i v : Z) : lpool :=
  if i =? 0 then mkL (l_idx l) v (l_b1 l) else mkL (l_idx l) (l_b0 l) v.
Definition lset_idx (l : lpool) (i : Z) : lpool := mkL i (l_b0 l) (l_b1 l).

(* ABTI_mem_pool_init_local_pool *)
Definition lp_init (g : gpool) : tb_res * lpool :=
  match take_bucket g with
  | TBOk g' b => (TBOk g' b, mkL 0 b 0)
  | r => (r, mkL 0 0 0)
  end.

Inductive a_res :=
| AOk (g : gpool) (l : lpool) (b : Z)
| ANoMem (g : gpool)
| AFuel.

(* ABTI_mem_pool_alloc *)
Definition lp_alloc (g : gpool) (l : lpool) : a_res :=
  let bi := l_idx l in
  let cur := lget l bi in
  let n := h_info (g_hp g cur) in
  if n =? 1 then
    if bi =? 0 then
      match take_bucket g with
      | TBOk g' b => AOk g' (lset_idx (lset l 0 b) 0) cur
      | TBNoMem g' => ANoMem g'
      | TBFuel => AFuel
      end
    else AOk g (lset_idx l (bi - 1)) cur
  else
    let nx := h_next (g_hp g cur) in
    AOk (set_hp g (set_info (g_hp g) nx (n - 1))) (lset l bi nx) cur.

(* ABTI_mem_pool_free *)
Definition lp_free (g : gpool) (l : lpool) (b : Z) : gpool * lpool :=
  let bi := l_idx l in
  let cur := lget l bi in
  if h_info (g_hp g cur) =? g_N g then
    let '(g1, l1, bi1) :=
        if bi + 1 =? 2 then
          (return_bucket g (lget l 0), lset l 0 (lget l 1), 1)
        else (g, l, bi + 1) in
    let g2 := set_hp g1 (upd (g_hp g1) b (mkH 0 1)) in
    (g2, lset (lset_idx l1 bi1) bi1 b)
  else
    let g2 := set_hp g (upd (g_hp g) b (mkH cur (h_info (g_hp g cur) + 1))) in
    (g2, lset l bi b).

(* ABTI_mem_pool_destroy_local_pool *)
Definition lp_destroy (g : gpool) (l : lpool) : gpool :=
  let bi := l_idx l in
  let g1 := fold_left (fun g i => return_bucket g (lget l (Z.of_nat i))) (seq 0 (Z.to_nat bi)) g in
  let cur := lget l bi in
  if h_info (g_hp g1 cur) =? g_N g1 then return_bucket g1 cur
  else return_partial_gen g1 cur.

(* ABTI_mem_pool_destroy_global_pool: the pages handed to ABTU_free_largepage, in order *)
Fixpoint walk_pages (nx : Z -> Z) (p : Z) (fuel : nat) : list Z :=
  match fuel with
  | O => []
  | S f => if p =? 0 then [] else p :: walk_pages nx (nx p) f
  end.
Definition destroy_global (g : gpool) : list Z :=
  let fuel := S (Z.to_nat (g_npages g)) in
  walk_pages (fun p => pg_lnext (g_pages g p)) (g_ptop g) fuel ++
  walk_pages (fun p => pg_enext (g_pages g p)) (g_empty g) fuel.

(* ---- several local pools sharing one global pool; the client *)
Record state := mkSt {
  st_g : gpool;
  st_l : list (option lpool);     (* None = not initialised / destroyed *)
  st_alloc : list Z               (* blocks currently held by the client, newest first *)
}.

Inductive op :=
| OInit (i : nat)
| OAlloc (i : nat)
| OFree (i : nat) (b : Z)
| ODestroy (i : nat)
| OBudget (k : Z).

Inductive res :=
| RBlk (b : Z)        (* alloc: the block *)
| RNoMem              (* ABT_ERR_MEM *)
| RUnit.

Definition init_state (N S budget : Z) (npools : nat) : state :=
  mkSt (init_global N S budget) (repeat None npools) [].

Fixpoint remove1 (b : Z) (l : list Z) : list Z :=
  match l with [] => [] | x :: r => if x =? b then r else x :: remove1 b r end.

(* [None] = the client broke the calling convention (pool index out of range,
   use of an uninitialised pool, free of a block it does not hold) or the model
   ran out of fuel *)
Definition step_gen (s : state) (o : op) : option (state * res) :=
  let g := st_g s in
  match o with
  | OInit i =>
      match nth_error (st_l s) i with
      | Some None =>
          match lp_init g with
          | (TBOk g' _, l) => Some (mkSt g' (upd_nth (st_l s) i (Some l)) (st_alloc s), RUnit)
          | (TBNoMem g', _) => Some (mkSt g' (st_l s) (st_alloc s), RNoMem)
          | (TBFuel, _) => None
          end
      | _ => None
      end
  | OAlloc i =>
      match nth_error (st_l s) i with
      | Some (Some l) =>
          match lp_alloc g l with
          | AOk g' l' b => Some (mkSt g' (upd_nth (st_l s) i (Some l')) (b :: st_alloc s), RBlk b)
          | ANoMem g' => Some (mkSt g' (st_l s) (st_alloc s), RNoMem)
          | AFuel => None
          end
      | _ => None
      end
  | OFree i b =>
      match nth_error (st_l s) i with
      | Some (Some l) =>
          if existsb (Z.eqb b) (st_alloc s) then
            let '(g', l') := lp_free g l b in
            Some (mkSt g' (upd_nth (st_l s) i (Some l')) (remove1 b (st_alloc s)), RUnit)
          else None
      | _ => None
      end
  | ODestroy i =>
      match nth_error (st_l s) i with
      | Some (Some l) => Some (mkSt (lp_destroy g l) (upd_nth (st_l s) i None) (st_alloc s), RUnit)
      | _ => None
      end
  | OBudget k => Some (mkSt (set_budget g k) (st_l s) (st_alloc s), RUnit)
  end.

Fixpoint run_gen (s : state) (ops : list op) : option (state * list res) :=
  match ops with
  | [] => Some (s, [])
  | o :: r =>
      match step_gen s o with
      | Some (s', x) =>
          match run_gen s' r with Some (s'', xs) => Some (s'', x :: xs) | None => None end
      | None => None
      end
  end.

End Variant.

(* the code as it is after fixes/F5-partial-bucket.patch ... *)
Definition return_partial_bucket := return_partial_gen rem_fixed.
Definition step := step_gen rem_fixed.
Definition run := run_gen rem_fixed.
(* ... and the unpatched code, kept for the refutation and for recognising the
   known finding in the implementation *)
Definition return_partial_bucket_buggy := return_partial_gen rem_buggy.
Definition step_buggy := step_gen rem_buggy.
Definition run_buggy := run_gen rem_buggy.

(* ---- observation of a state: where is every block? (also used for the dumps) *)
Fixpoint take_chain (hp : Z -> hdr) (p : Z) (k : nat) : list Z :=
  match k with
  | O => []
  | S k' => if p =? 0 then [] else p :: take_chain hp (h_next (hp p)) k'
  end.

(* blocks of one local pool: buckets[0..idx-1] are full, buckets[idx] has
   num_headers blocks *)
Definition lp_buckets (g : gpool) (l : lpool) : list (list Z) :=
  map (fun i => take_chain (g_hp g) (lget l (Z.of_nat i)) (Z.to_nat (g_N g))) (seq 0 (Z.to_nat (l_idx l))) ++
  [take_chain (g_hp g) (lget l (l_idx l)) (Z.to_nat (h_info (g_hp g (lget l (l_idx l)))))].

Definition lifo_heads (g : gpool) (fuel : nat) : list Z :=
  walk (fun b => h_info (g_hp g b)) (g_btop g) fuel.
Definition lifo_buckets (g : gpool) (fuel : nat) : list (list Z) :=
  map (fun b => take_chain (g_hp g) b (Z.to_nat (g_N g))) (lifo_heads g fuel).

Definition partial_blocks (g : gpool) : list Z :=
  take_chain (g_hp g) (g_partial g) (Z.to_nat (h_info (g_hp g (g_partial g)))).

Definition zrange (a b : Z) : list Z := map (fun i => a + Z.of_nat i) (seq 0 (Z.to_nat (b - a))).
Definition uncarved (g : gpool) : list Z :=
  concat (map (fun p => map (blk_id (g_S g) p) (zrange (pg_carved (g_pages g p)) (g_S g)))
              (zrange 1 (g_npages g + 1))).

Definition total_blocks (g : gpool) : Z := g_npages g * g_S g.

(* every place a block can be, as one list *)
Definition all_blocks (s : state) : list Z :=
  let g := st_g s in
  let fuel := S (Z.to_nat (total_blocks g)) in
  st_alloc s ++
  concat (map (fun ol => match ol with Some l => concat (lp_buckets g l) | None => [] end) (st_l s)) ++
  concat (lifo_buckets g fuel) ++
  partial_blocks g ++
  uncarved g.

(* b has been carved out of a page *)
Definition carvedb (g : gpool) (b : Z) : bool :=
  (1 <=? b) && (b <=? total_blocks g) &&
  (((b - 1) mod g_S g) <? pg_carved (g_pages g ((b - 1) / g_S g + 1))).
