(* C07 — the specification the built-in pools are compared with: a
   double-ended queue of unit ids, a plain [list id] (head = first element).
   Definitions only.  FIFO / FIFO_WAIT always push at the tail and pop at the
   head; RANDWS chooses the ends from the ABT_pool_context flags. *)
From Coq Require Import List Arith Bool NArith.
From ABT Require Import DS.ThreadQueue DS.PoolSeq DS.Deque.
Import ListNotations.

Definition sp_push (k : kind) (ctx : N) (l : list id) (u : id) : list id :=
  if push_at_head k ctx then dq_push_head l u else dq_push_tail l u.
Definition sp_pop (k : kind) (ctx : N) (l : list id) : list id * ptr :=
  if pop_at_tail k ctx then dq_pop_tail l else dq_pop_head l.
Fixpoint sp_push_list (k : kind) (ctx : N) (l : list id) (us : list id) : list id :=
  match us with [] => l | u :: us' => sp_push_list k ctx (sp_push k ctx l u) us' end.
Fixpoint sp_pop_list (k : kind) (ctx : N) (l : list id) (max : nat) : list id * list id :=
  match max with
  | 0 => (l, [])
  | S max' =>
    match sp_pop k ctx l with
    | (l', None) => (l', [])
    | (l', Some x) => let (l'', xs) := sp_pop_list k ctx l' max' in (l'', x :: xs)
    end
  end.

(* what each public call does to the deque and what it returns *)
Definition spec_step (k : kind) (l : list id) (o : op) : list id * result :=
  match o with
  | OPushThread None _ => (l, RCode ABT_SUCCESS)
  | OPushThread (Some t) ctx => (sp_push k ctx l t, RCode ABT_SUCCESS)
  | OPushThreads ts ctx => (sp_push_list k ctx l (filter_some ts), RCode ABT_SUCCESS)
  | OPopThread ctx | OPopWaitThread ctx => let (l', t) := sp_pop k ctx l in (l', RUnit ABT_SUCCESS t)
  | OPopThreads len ctx =>
      if Nat.eqb len 0 then (l, RUnits None [])
      else let (l', xs) := sp_pop_list k ctx l len in (l', RUnits (Some (length xs)) xs)
  | OLPush None => (l, RCode ABT_ERR_INV_UNIT)
  | OLPush (Some t) => (sp_push k 0%N l t, RCode ABT_SUCCESS)
  | OLPop | OLPopWait => let (l', t) := sp_pop k 0%N l in (l', RUnit ABT_SUCCESS t)
  | OLPopTimedwait => let (l', t) := dq_pop_head l in (l', RUnit ABT_SUCCESS t)
  | OLRemove u => let (l', ok) := dq_remove l u in (l', RCode (if ok then ABT_SUCCESS else ABT_ERR_POOL))
  | OGetSize | OGetTotalSize => (l, RSize (length l))
  | OIsEmpty => (l, RBool (match l with [] => true | _ => false end))
  end.

Fixpoint spec_run (k : kind) (l : list id) (ops : list op) : list id * list result :=
  match ops with
  | [] => (l, [])
  | o :: ops' =>
    let (l', r) := spec_step k l o in
    let (l'', rs) := spec_run k l' ops' in (l'', r :: rs)
  end.

(* caller contract of the push calls: a unit that is pushed is not in the pool
   (and a batch has no duplicates) *)
Fixpoint nodupb (l : list id) : bool :=
  match l with [] => true | x :: l' => negb (memb x l') && nodupb l' end.
Definition op_legal (l : list id) (o : op) : bool :=
  match o with
  | OPushThread (Some t) _ | OLPush (Some t) => negb (memb t l)
  | OPushThreads ts _ =>
      let us := filter_some ts in nodupb us && forallb (fun u => negb (memb u l)) us
  | _ => true
  end.
Fixpoint ops_legal (k : kind) (l : list id) (ops : list op) : bool :=
  match ops with
  | [] => true
  | o :: ops' => op_legal l o && ops_legal k (fst (spec_step k l o)) ops'
  end.
