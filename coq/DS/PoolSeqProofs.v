(* C07 — the sequential pool model (DS/PoolSeq.v) refines the deque
   specification (DS/PoolSpec.v) call by call, for every kind and access. *)
From Coq Require Import List Arith Bool NArith Lia.
From ABT Require Import Common.ListAux DS.ThreadQueue DS.Deque DS.ThreadQueueProofs DS.PoolSeq DS.PoolSpec.
Import ListNotations.

(* pool-level invariant: queue represents l and the pool lock is free between
   calls *)
Record PRep (k : kind) (a : access) (l : list id) (p : pool) (h : heap) : Prop := mkPRep {
  pr_kind : p_kind p = k;
  pr_access : p_access p = a;
  pr_lock : p_lock p = false;
  pr_rep : Rep l (p_queue p) h
}.

Lemma prep_init k a g :
  (k = FIFO_WAIT \/ a <> PRIV \/ g = false) -> PRep k a [] (pool_init k a g) heap_init.
Proof.
  intros H. constructor; try reflexivity; [|apply rep_init].
  unfold pool_init. cbn [p_lock]. destruct k; auto; destruct a; cbn; auto; destruct H as [H|[H|H]]; congruence.
Qed.

Lemma dq_pop_head_eq l : dq_pop_head l = (tl l, hd_ptr l).
Proof. destruct l; reflexivity. Qed.
Lemma dq_pop_tail_eq l : dq_pop_tail l = (removelast l, last_ptr l).
Proof. destruct l; reflexivity. Qed.

Lemma q_push_ok k ctx l q h t :
  Rep l q h -> ~ In t l ->
  exists q' h', q_push k ctx q h t = Ret (q', h') /\ Rep (sp_push k ctx l t) q' h'.
Proof.
  intros R Hn. unfold q_push, sp_push. destruct (push_at_head k ctx).
  - destruct (push_head_rep l q h t R Hn) as (q' & h' & E & R'). rewrite E. cbn [of_opt]. eauto.
  - destruct (push_tail_rep l q h t R Hn) as (q' & h' & E & R'). rewrite E. cbn [of_opt]. eauto.
Qed.

Lemma q_pop_ok k ctx l q h :
  Rep l q h ->
  exists q' h', q_pop k ctx q h = Ret (q', h', snd (sp_pop k ctx l)) /\ Rep (fst (sp_pop k ctx l)) q' h'.
Proof.
  intros R. unfold q_pop, sp_pop. destruct (pop_at_tail k ctx).
  - rewrite dq_pop_tail_eq. destruct (pop_tail_rep l q h R) as (q' & h' & E & R'). rewrite E. cbn [of_opt]. eauto.
  - rewrite dq_pop_head_eq. destruct (pop_head_rep l q h R) as (q' & h' & E & R'). rewrite E. cbn [of_opt]. eauto.
Qed.

Lemma sp_pop_nil k ctx : sp_pop k ctx [] = ([], None).
Proof. unfold sp_pop. destruct (pop_at_tail k ctx); reflexivity. Qed.
Lemma sp_pop_cons k ctx x l : exists l' y, sp_pop k ctx (x :: l) = (l', Some y).
Proof. unfold sp_pop. destruct (pop_at_tail k ctx); cbn; eauto. Qed.

Lemma in_sp_push k ctx l t u : In u (sp_push k ctx l t) <-> u = t \/ In u l.
Proof.
  unfold sp_push, dq_push_head, dq_push_tail. destruct (push_at_head k ctx); cbn.
  - intuition congruence.
  - rewrite in_app_iff. cbn. intuition congruence.
Qed.

Lemma q_push_list_ok k ctx us : forall l q h,
  Rep l q h -> NoDup us -> (forall u, In u us -> ~ In u l) ->
  exists q' h', q_push_list k ctx q h us = Ret (q', h') /\ Rep (sp_push_list k ctx l us) q' h'.
Proof.
  induction us as [|t us IH]; intros l q h R Nd Dj.
  - cbn. eauto.
  - cbn [q_push_list sp_push_list]. apply NoDup_cons_iff in Nd. destruct Nd as (Nt & Nd).
    destruct (q_push_ok k ctx l q h t R) as (q1 & h1 & E & R1); [apply Dj; left; auto|].
    rewrite E. cbn [rbind fst snd]. apply IH; auto.
    intros u Hu Hin. apply in_sp_push in Hin. destruct Hin as [->|Hin]; [auto|]. apply (Dj u); auto. right; auto.
Qed.

Lemma q_pop_list_ok k ctx max : forall l q h,
  Rep l q h ->
  exists q' h', q_pop_list k ctx q h max = Ret (q', h', snd (sp_pop_list k ctx l max)) /\
                Rep (fst (sp_pop_list k ctx l max)) q' h'.
Proof.
  induction max as [|max IH]; intros l q h R.
  - cbn. eauto.
  - cbn [q_pop_list sp_pop_list].
    destruct (q_pop_ok k ctx l q h R) as (q1 & h1 & E & R1). rewrite E. cbn [rbind].
    destruct (sp_pop k ctx l) as (l1, [y|]); cbn [fst snd] in *.
    + destruct (IH l1 q1 h1 R1) as (q2 & h2 & E2 & R2). rewrite E2. cbn [rbind].
      destruct (sp_pop_list k ctx l1 max) as (l2, xs). cbn [fst snd] in *. eauto.
    + eauto.
Qed.

Ltac prep_intro :=
  match goal with
  | H : PRep _ _ _ ?p _ |- _ => let K := fresh "K" in let A := fresh "A" in let L := fresh "L" in let R := fresh "R" in
      destruct H as [K A L R]; destruct p as [pk pa pl pq]; cbn [p_kind p_access p_lock p_queue] in K, A, L, R; subst pk pa pl
  end.

Lemma is_empty_rep l q h : Rep l q h -> tq_is_empty q = match l with [] => true | _ => false end.
Proof. intros R. apply (rep_empty _ _ _ R). Qed.

Lemma pool_push_ok k a l p h t ctx :
  PRep k a l p h -> ~ In t l ->
  exists p' h', pool_push p h t ctx = Ret (p', h') /\ PRep k a (sp_push k ctx l t) p' h'.
Proof.
  intros P Hn. prep_intro.
  destruct (q_push_ok k ctx l pq h t R Hn) as (q' & h' & E & R').
  unfold pool_push; cbn [p_kind p_access p_lock p_queue is_priv lock_acquire].
  destruct k, a; cbn [is_priv set_lock p_kind p_access p_lock p_queue rbind]; rewrite E; cbn [rbind fst snd];
    eexists _, _; (split; [reflexivity|]); constructor; auto.
Qed.

Lemma pool_push_many_ok k a l p h us ctx :
  PRep k a l p h -> NoDup us -> (forall u, In u us -> ~ In u l) ->
  exists p' h', pool_push_many p h us ctx = Ret (p', h') /\ PRep k a (sp_push_list k ctx l us) p' h'.
Proof.
  intros P Nd Dj. prep_intro.
  destruct (q_push_list_ok k ctx us l pq h R Nd Dj) as (q' & h' & E & R').
  unfold pool_push_many; cbn [p_kind p_access p_lock p_queue is_priv lock_acquire].
  destruct us as [|u0 us'].
  - cbn in E. injection E as <- <-.
    destruct k, a; cbn [is_priv rbind q_push_list fst snd set_queue p_kind p_access p_lock p_queue];
      eexists _, _; (split; [reflexivity|]); constructor; auto.
  - destruct k, a; cbn [is_priv set_lock p_kind p_access p_lock p_queue rbind]; rewrite E; cbn [rbind fst snd];
      eexists _, _; (split; [reflexivity|]); constructor; auto.
Qed.

(* the lock-if-not-empty attempt used by pop_shared / pop_wait / pop_timedwait *)
Lemma spin_attempt_ok k a kq ctx l p h :
  PRep k a l p h ->
  exists p' h', spin_attempt p h kq ctx = Ret (p', h', snd (sp_pop kq ctx l)) /\
                PRep k a (fst (sp_pop kq ctx l)) p' h'.
Proof.
  intros P. prep_intro. unfold spin_attempt, tq_acquire_spinlock_if_not_empty.
  cbn [p_kind p_access p_lock p_queue]. pose proof (is_empty_rep _ _ _ R) as Ee. unfold tq_is_empty in Ee. rewrite Ee.
  destruct l as [|x l'].
  - rewrite sp_pop_nil. cbn [fst snd set_lock p_kind p_access p_lock p_queue].
    eexists _, _. split; [reflexivity|]. constructor; auto.
  - cbn [set_lock p_kind p_access p_lock p_queue].
    destruct (q_pop_ok kq ctx (x :: l') pq h R) as (q' & h' & E & R'). rewrite E. cbn [rbind].
    eexists _, _. split; [reflexivity|]. constructor; auto.
Qed.

Lemma spin_wait_loop_ok k a kq ctx n : forall l p h,
  PRep k a l p h ->
  exists p' h', spin_wait_loop n p h kq ctx = Ret (p', h', snd (sp_pop kq ctx l)) /\
                PRep k a (fst (sp_pop kq ctx l)) p' h'.
Proof.
  induction n as [|n IH]; intros l p h P.
  - cbn [spin_wait_loop]. destruct (spin_attempt_ok k a kq ctx l p h P) as (p1 & h1 & E & P1).
    rewrite E. cbn [rbind]. destruct (snd (sp_pop kq ctx l)); eauto.
  - cbn [spin_wait_loop]. destruct (spin_attempt_ok k a kq ctx l p h P) as (p1 & h1 & E & P1).
    rewrite E. cbn [rbind]. destruct l as [|x l'].
    + rewrite sp_pop_nil in *. cbn [fst snd] in *. apply IH in P1. rewrite sp_pop_nil in P1. exact P1.
    + destruct (sp_pop_cons kq ctx x l') as (l2 & y & E2). rewrite E2 in *. cbn [fst snd] in *. eauto.
Qed.

Lemma pool_pop_ok k a l p h ctx :
  PRep k a l p h ->
  exists p' h', pool_pop p h ctx = Ret (p', h', snd (sp_pop k ctx l)) /\ PRep k a (fst (sp_pop k ctx l)) p' h'.
Proof.
  intros P. prep_intro.
  assert (P0 : PRep k a l (mkPool k a false pq) h) by (constructor; auto).
  pose proof (is_empty_rep _ _ _ R) as Ee.
  destruct (q_pop_ok k ctx l pq h R) as (q' & h' & E & R').
  assert (Hs := spin_attempt_ok k a k ctx l _ h P0). unfold spin_attempt in Hs.
  unfold pool_pop; cbn [p_kind p_access p_lock p_queue].
  destruct k.
  - destruct a; cbn [is_priv]; try exact Hs.
    rewrite E. cbn [rbind]. eexists _, _. split; [reflexivity|]. constructor; auto.
  - rewrite Ee. destruct l as [|x l'].
    + cbn [negb]. rewrite sp_pop_nil. cbn [fst snd]. eexists _, _. split; [destruct a; reflexivity|]. constructor; auto.
    + cbn [negb lock_acquire p_lock rbind set_lock p_queue p_kind p_access]. rewrite E. cbn [rbind].
      eexists _, _. split; [destruct a; reflexivity|]. constructor; auto.
  - destruct a; cbn [is_priv]; try exact Hs.
    rewrite E. cbn [rbind]. eexists _, _. split; [reflexivity|]. constructor; auto.
Qed.

Lemma sp_pop_list_nil k ctx max : sp_pop_list k ctx [] max = ([], []).
Proof. destruct max; cbn; [reflexivity|]. rewrite sp_pop_nil. reflexivity. Qed.

Lemma pool_pop_many_ok k a l p h max ctx :
  PRep k a l p h ->
  exists p' h', pool_pop_many p h max ctx = Ret (p', h', snd (sp_pop_list k ctx l max)) /\
                PRep k a (fst (sp_pop_list k ctx l max)) p' h'.
Proof.
  intros P. prep_intro.
  pose proof (is_empty_rep _ _ _ R) as Ee. unfold tq_is_empty in Ee.
  destruct (q_pop_list_ok k ctx max l pq h R) as (q' & h' & E & R').
  unfold pool_pop_many, tq_acquire_spinlock_if_not_empty, tq_is_empty; cbn [p_kind p_access p_lock p_queue].
  assert (Priv : exists p' h', (r <~ q_pop_list k ctx pq h max;;
                 (let '(q0, h0, l0) := r in Ret (set_queue (mkPool k a false pq) q0, h0, l0)))
                 = Ret (p', h', snd (sp_pop_list k ctx l max)) /\ PRep k a (fst (sp_pop_list k ctx l max)) p' h').
  { rewrite E. cbn [rbind]. eexists _, _. split; [reflexivity|]. constructor; auto. }
  assert (Shared : exists p' h',
    (if negb (Nat.eqb max 0) then
       match (if q_is_empty pq then Some (false, 1) else if false then None else Some (true, 0)) with
       | None => Hang
       | Some (l0, 0) =>
           let p := set_lock (mkPool k a false pq) l0 in
           r <~ q_pop_list k ctx (p_queue p) h max ;;
           let '(q, h, l) := r in Ret (lock_release (set_queue p q), h, l)
       | Some (l0, S _) => Ret (set_lock (mkPool k a false pq) l0, h, [])
       end
     else Ret (mkPool k a false pq, h, []))
    = Ret (p', h', snd (sp_pop_list k ctx l max)) /\ PRep k a (fst (sp_pop_list k ctx l max)) p' h').
  { destruct max as [|max'].
    - cbn [Nat.eqb negb sp_pop_list fst snd]. eexists _, _. split; [reflexivity|]. constructor; auto.
    - cbn [Nat.eqb negb]. rewrite Ee. destruct l as [|x l'].
      + rewrite sp_pop_list_nil. cbn [fst snd set_lock p_kind p_access p_lock p_queue].
        eexists _, _. split; [reflexivity|]. constructor; auto.
      + cbn [set_lock p_kind p_access p_lock p_queue]. rewrite E. cbn [rbind].
        eexists _, _. split; [reflexivity|]. constructor; auto. }
  destruct k.
  - destruct a; cbn [is_priv]; first [exact Priv | exact Shared].
  - rewrite Ee. destruct max as [|max'].
    + cbn [Nat.eqb negb andb sp_pop_list fst snd]. eexists _, _. split; [destruct a; reflexivity|]. constructor; auto.
    + cbn [Nat.eqb negb andb]. destruct l as [|x l'].
      * cbn [negb]. rewrite sp_pop_list_nil. cbn [fst snd]. eexists _, _. split; [destruct a; reflexivity|]. constructor; auto.
      * cbn [negb lock_acquire p_lock rbind set_lock p_queue p_kind p_access]. rewrite E. cbn [rbind].
        eexists _, _. split; [destruct a; reflexivity|]. constructor; auto.
  - destruct a; cbn [is_priv]; first [exact Priv | exact Shared].
Qed.

Lemma pool_pop_wait_ok k a l p h ctx n :
  PRep k a l p h ->
  exists p' h', pool_pop_wait p h ctx n = Ret (p', h', snd (sp_pop k ctx l)) /\ PRep k a (fst (sp_pop k ctx l)) p' h'.
Proof.
  intros P. pose proof P as P0. destruct P as [K A L R].
  assert (Spin : exists p' h',
    (r <~ spin_attempt p h k ctx ;;
     let '(p, h, t) := r in
     match t with Some _ => Ret (p, h, t) | None => spin_wait_loop n p h k ctx end)
    = Ret (p', h', snd (sp_pop k ctx l)) /\ PRep k a (fst (sp_pop k ctx l)) p' h').
  { destruct (spin_attempt_ok k a k ctx l p h P0) as (p1 & h1 & E & P1). rewrite E. cbn [rbind].
    destruct l as [|x l'].
    - rewrite sp_pop_nil in *. cbn [fst snd] in *.
      pose proof (spin_wait_loop_ok k a k ctx n [] p1 h1 P1) as W. rewrite sp_pop_nil in W. exact W.
    - destruct (sp_pop_cons k ctx x l') as (l2 & y & E2). rewrite E2 in *. cbn [fst snd] in *. eauto. }
  unfold pool_pop_wait. rewrite K. destruct k; try exact Spin.
  unfold lock_acquire. rewrite L. cbn [rbind set_lock p_queue].
  destruct (q_pop_ok FIFO_WAIT ctx l (p_queue p) h R) as (q' & h' & E & R'). rewrite E. cbn [rbind].
  eexists _, _. split; [reflexivity|]. constructor; auto.
Qed.

Lemma pool_pop_timedwait_ok k a l p h n :
  PRep k a l p h ->
  exists p' h', pool_pop_timedwait p h n = Ret (p', h', snd (dq_pop_head l)) /\ PRep k a (fst (dq_pop_head l)) p' h'.
Proof.
  intros P. pose proof P as P0. destruct P as [K A L R].
  assert (Spin := spin_wait_loop_ok k a FIFO 0%N n l p h P0).
  unfold sp_pop in Spin. cbn [pop_at_tail] in Spin.
  unfold pool_pop_timedwait. rewrite K. destruct k; try exact Spin.
  unfold lock_acquire. rewrite L. cbn [rbind set_lock p_queue].
  destruct (q_pop_ok FIFO_WAIT 0%N l (p_queue p) h R) as (q' & h' & E & R').
  unfold sp_pop in E, R'. cbn [pop_at_tail] in E, R'. rewrite E. cbn [rbind].
  eexists _, _. split; [reflexivity|]. constructor; auto.
Qed.

Lemma pool_remove_ok k a l p h t :
  PRep k a l p h ->
  exists p' h', pool_remove p h t = Ret (p', h', snd (dq_remove l t)) /\ PRep k a (fst (dq_remove l t)) p' h'.
Proof.
  intros P. prep_intro.
  destruct (remove_rep l pq h t R) as (q' & h' & E & R').
  unfold pool_remove; cbn [p_kind p_access p_lock p_queue].
  destruct k.
  - destruct a; cbn [is_priv lock_acquire p_lock rbind set_lock p_queue p_kind p_access]; rewrite E; cbn [of_opt rbind];
      eexists _, _; (split; [reflexivity|]); constructor; auto.
  - (* FIFO_WAIT: the two unlocked pre-checks agree with the locked ones *)
    pose proof (is_empty_rep _ _ _ R) as Ee. rewrite Ee.
    destruct l as [|x l'].
    + cbn [dq_remove memb existsb fst snd]. eexists _, _. split; [destruct a; reflexivity|]. constructor; auto.
    + destruct (h_inpool h t) eqn:Ei; cbn [negb].
      * cbn [lock_acquire p_lock rbind set_lock p_queue p_kind p_access]. rewrite E. cbn [of_opt rbind].
        eexists _, _. split; [destruct a; reflexivity|]. constructor; auto.
      * assert (Hn : ~ In t (x :: l')).
        { intros Hin. apply (rep_in _ _ _ R) in Hin. congruence. }
        unfold dq_remove. destruct (memb t (x :: l')) eqn:Em; [apply memb_in in Em; tauto|].
        cbn [fst snd]. eexists _, _. split; [destruct a; reflexivity|]. constructor; auto.
  - destruct a; cbn [is_priv lock_acquire p_lock rbind set_lock p_queue p_kind p_access]; rewrite E; cbn [of_opt rbind];
      eexists _, _; (split; [reflexivity|]); constructor; auto.
Qed.

(* ------------------------------------------------------------ one public call *)
Lemma nodupb_NoDup us : nodupb us = true -> NoDup us.
Proof.
  induction us as [|u us IH]; cbn; [constructor|].
  rewrite andb_true_iff, negb_true_iff. intros (Hm & Hn). constructor; auto.
  intros Hin. apply memb_in in Hin. congruence.
Qed.

Lemma op_legal_push l t : negb (memb t l) = true -> ~ In t l.
Proof. rewrite negb_true_iff. intros E Hin. apply memb_in in Hin. congruence. Qed.

Theorem pool_step_refines wn k a l p h o :
  PRep k a l p h -> op_legal l o = true ->
  exists p' h', pool_step wn p h o = Ret (p', h', snd (spec_step k l o)) /\
                PRep k a (fst (spec_step k l o)) p' h'.
Proof.
  intros P Hl. destruct o as [[t|] ctx | ts ctx | ctx | len ctx | ctx | [u|] | | | | u | | |];
    cbn [pool_step spec_step op_legal] in *.
  - destruct (pool_push_ok k a l p h t ctx P (op_legal_push _ _ Hl)) as (p' & h' & E & P').
    rewrite E. cbn [rbind fst snd]. eauto.
  - cbn [fst snd]. eauto.
  - apply andb_true_iff in Hl. destruct Hl as (Hnd & Hdj). apply nodupb_NoDup in Hnd.
    assert (Dj : forall u, In u (filter_some ts) -> ~ In u l).
    { intros u Hu. rewrite forallb_forall in Hdj. apply op_legal_push, Hdj, Hu. }
    destruct (filter_some ts) as [|u0 us] eqn:Ef.
    + cbn [sp_push_list fst snd]. eauto.
    + destruct (pool_push_many_ok k a l p h (u0 :: us) ctx P Hnd Dj) as (p' & h' & E & P').
      rewrite E. cbn [rbind fst snd]. eauto.
  - destruct (pool_pop_ok k a l p h ctx P) as (p' & h' & E & P'). rewrite E. cbn [rbind].
    destruct (sp_pop k ctx l). cbn [fst snd] in *. eauto.
  - destruct (Nat.eqb len 0); [cbn [fst snd]; eauto|].
    destruct (pool_pop_many_ok k a l p h len ctx P) as (p' & h' & E & P'). rewrite E. cbn [rbind].
    destruct (sp_pop_list k ctx l len). cbn [fst snd] in *. eauto.
  - destruct (pool_pop_wait_ok k a l p h ctx wn P) as (p' & h' & E & P'). rewrite E. cbn [rbind].
    destruct (sp_pop k ctx l). cbn [fst snd] in *. eauto.
  - destruct (pool_push_ok k a l p h u 0%N P (op_legal_push _ _ Hl)) as (p' & h' & E & P').
    rewrite E. cbn [rbind fst snd]. eauto.
  - cbn [fst snd]. eauto.
  - destruct (pool_pop_ok k a l p h 0%N P) as (p' & h' & E & P'). rewrite E. cbn [rbind].
    destruct (sp_pop k 0%N l). cbn [fst snd] in *. eauto.
  - destruct (pool_pop_wait_ok k a l p h 0%N wn P) as (p' & h' & E & P'). rewrite E. cbn [rbind].
    destruct (sp_pop k 0%N l). cbn [fst snd] in *. eauto.
  - destruct (pool_pop_timedwait_ok k a l p h wn P) as (p' & h' & E & P'). rewrite E. cbn [rbind].
    destruct (dq_pop_head l). cbn [fst snd] in *. eauto.
  - destruct (pool_remove_ok k a l p h u P) as (p' & h' & E & P'). rewrite E. cbn [rbind].
    destruct (dq_remove l u) as (l', ok). cbn [fst snd] in *. eauto.
  - cbn [fst snd]. exists p, h. split; [|exact P]. unfold tq_get_size.
    rewrite (rep_num _ _ _ (pr_rep _ _ _ _ _ P)). reflexivity.
  - cbn [fst snd]. exists p, h. split; [|exact P]. unfold tq_get_size.
    rewrite (rep_num _ _ _ (pr_rep _ _ _ _ _ P)), Nat.add_0_r. reflexivity.
  - cbn [fst snd]. exists p, h. split; [|exact P].
    rewrite (is_empty_rep _ _ _ (pr_rep _ _ _ _ _ P)). reflexivity.
Qed.

(* ------------------------------------------------------------ call sequences *)
(* the trace of a run: results equal the specification's, and the state after
   every call represents the specification's list *)
Fixpoint trace_ok (k : kind) (a : access) (l : list id) (ops : list op)
         (tr : list (result * pool * heap)) : Prop :=
  match ops, tr with
  | [], [] => True
  | o :: ops', (r, p', h') :: tr' =>
      r = snd (spec_step k l o) /\ PRep k a (fst (spec_step k l o)) p' h' /\
      trace_ok k a (fst (spec_step k l o)) ops' tr'
  | _, _ => False
  end.

Theorem pool_run_refines wn k a ops : forall l p h,
  PRep k a l p h -> ops_legal k l ops = true ->
  exists tr, pool_run wn p h ops = (tr, Finished) /\ trace_ok k a l ops tr.
Proof.
  induction ops as [|o ops IH]; intros l p h P Hl.
  - exists []. split; reflexivity.
  - cbn [ops_legal] in Hl. apply andb_true_iff in Hl. destruct Hl as (Ho & Hl).
    destruct (pool_step_refines wn k a l p h o P Ho) as (p' & h' & E & P').
    destruct (IH _ p' h' P' Hl) as (tr & Er & T).
    exists ((snd (spec_step k l o), p', h') :: tr). cbn [pool_run]. rewrite E, Er. split; [reflexivity|].
    cbn [trace_ok]. auto.
Qed.

Lemma trace_ok_results k a ops : forall l tr,
  trace_ok k a l ops tr -> map (fun x => fst (fst x)) tr = snd (spec_run k l ops).
Proof.
  induction ops as [|o ops IH]; intros l [|[[r p'] h'] tr] T; cbn [trace_ok] in T;
    try contradiction; [reflexivity|].
  destruct T as (-> & _ & T). cbn [map fst spec_run]. destruct (spec_step k l o) as (l1, r1). cbn [fst snd] in *.
  rewrite (IH _ _ T). destruct (spec_run k l1 ops). reflexivity.
Qed.

(* what PRep says in the terms of the property text *)
Theorem prep_facts k a l p h :
  PRep k a l p h ->
  tq_abs (p_queue p) h = l /\ tq_abs_rev (p_queue p) h = rev l /\
  tq_get_size (p_queue p) = length l /\
  (tq_is_empty (p_queue p) = true <-> l = []) /\
  (forall u, h_inpool h u = true <-> In u l) /\ NoDup l /\
  (forall u, ~ In u l -> h_prev h u = None /\ h_next h u = None) /\
  p_lock p = false.
Proof.
  intros [K A L R]. repeat split; try apply R; auto.
  - apply rep_abs; auto.
  - apply rep_abs_rev; auto.
  - rewrite (is_empty_rep _ _ _ R). destruct l; [auto|discriminate].
  - intros ->. apply (is_empty_rep _ _ _ R).
Qed.

(* ------------------------------------------------------------ FIFO order *)
Lemma fifo_push k ctx l u : k <> RANDWS -> sp_push k ctx l u = l ++ [u].
Proof. intros H. unfold sp_push. destruct k; try congruence; reflexivity. Qed.
Lemma fifo_pop k ctx l : k <> RANDWS -> sp_pop k ctx l = (tl l, hd_ptr l).
Proof. intros H. unfold sp_pop. destruct k; try congruence; cbn [pop_at_tail]; apply dq_pop_head_eq. Qed.
Lemma fifo_push_list k ctx us : forall l, k <> RANDWS -> sp_push_list k ctx l us = l ++ us.
Proof.
  induction us as [|u us IH]; intros l H; cbn [sp_push_list]; [now rewrite app_nil_r|].
  rewrite fifo_push, IH by auto. rewrite <- app_assoc. reflexivity.
Qed.
Lemma fifo_pop_list k ctx n : forall l, k <> RANDWS -> sp_pop_list k ctx l n = (skipn n l, firstn n l).
Proof.
  induction n as [|n IH]; intros l H; cbn [sp_pop_list]; [reflexivity|].
  rewrite fifo_pop by auto. destruct l as [|x l]; cbn [tl hd_ptr]; [reflexivity|].
  rewrite IH by auto. reflexivity.
Qed.

(* units leave a FIFO / FIFO_WAIT pool in the order they entered, whatever the
   context flags: push a batch (or one by one), pop it back *)
Theorem fifo_order k a c1 c2 wn us p h :
  k <> RANDWS -> PRep k a [] p h -> NoDup us -> us <> [] ->
  exists tr, pool_run wn p h [OPushThreads (map Some us) c1; OPopThreads (length us) c2] = (tr, Finished) /\
             map (fun x => fst (fst x)) tr = [RCode ABT_SUCCESS; RUnits (Some (length us)) us].
Proof.
  intros Hk P Nd Hne.
  assert (Ef : filter_some (map Some us) = us) by (induction us as [|u us IH]; cbn; [auto|]; destruct us; [reflexivity|rewrite IH; [reflexivity|inversion Nd; auto|discriminate]]).
  assert (Hl : ops_legal k [] [OPushThreads (map Some us) c1; OPopThreads (length us) c2] = true).
  { cbn [ops_legal op_legal]. rewrite Ef. rewrite !andb_true_r. apply andb_true_iff. split.
    - clear -Nd. induction Nd as [|u us Hn Nd IH]; cbn; auto. rewrite IH, andb_true_r. apply negb_true_iff.
      destruct (memb u us) eqn:E; auto. apply memb_in in E. tauto.
    - apply forallb_forall. intros; reflexivity. }
  destruct (pool_run_refines wn k a _ [] p h P Hl) as (tr & E & T).
  exists tr. split; auto. rewrite (trace_ok_results _ _ _ _ _ T).
  cbn [spec_run spec_step]. rewrite Ef, fifo_push_list by auto. cbn [app fst snd].
  assert (En : Nat.eqb (length us) 0 = false) by (destruct us; [congruence|reflexivity]). rewrite En.
  rewrite fifo_pop_list by auto. rewrite firstn_all, skipn_all. reflexivity.
Qed.

(* ------------------------------------------------------------ RANDWS context flags *)
Lemma ctx_push_head_lor a b : ctx_push_head (N.lor a b) = ctx_push_head a || ctx_push_head b.
Proof.
  unfold ctx_push_head. rewrite N.land_lor_distr_l.
  destruct (N.eqb_spec (N.land a POOL_CONTEXT_PUSH_HEAD) 0) as [Ea|Ea];
  destruct (N.eqb_spec (N.land b POOL_CONTEXT_PUSH_HEAD) 0) as [Eb|Eb]; cbn [negb orb].
  - rewrite Ea, Eb. reflexivity.
  - apply negb_true_iff, N.eqb_neq. intros E. apply N.lor_eq_0_iff in E. tauto.
  - apply negb_true_iff, N.eqb_neq. intros E. apply N.lor_eq_0_iff in E. tauto.
  - apply negb_true_iff, N.eqb_neq. intros E. apply N.lor_eq_0_iff in E. tauto.
Qed.
Lemma ctx_pop_tail_lor a b : ctx_pop_tail (N.lor a b) = ctx_pop_tail a || ctx_pop_tail b.
Proof.
  unfold ctx_pop_tail. rewrite N.land_lor_distr_l.
  destruct (N.eqb_spec (N.land a POOL_CONTEXT_POP_TAIL) 0) as [Ea|Ea];
  destruct (N.eqb_spec (N.land b POOL_CONTEXT_POP_TAIL) 0) as [Eb|Eb]; cbn [negb orb].
  - rewrite Ea, Eb. reflexivity.
  - apply negb_true_iff, N.eqb_neq. intros E. apply N.lor_eq_0_iff in E. tauto.
  - apply negb_true_iff, N.eqb_neq. intros E. apply N.lor_eq_0_iff in E. tauto.
  - apply negb_true_iff, N.eqb_neq. intros E. apply N.lor_eq_0_iff in E. tauto.
Qed.

(* the named ABT_POOL_CONTEXT_* constants of abt.h *)
Definition CTX_PRIO_HIGH : N := 1.      Definition CTX_PRIO_LOW : N := 2.
Definition CTX_OWNER_PRIMARY : N := 256. Definition CTX_OWNER_SECONDARY : N := 512.
Definition CTX_OP_THREAD_CREATE : N := 4096.     Definition CTX_OP_THREAD_CREATE_TO : N := 8192.
Definition CTX_OP_THREAD_REVIVE : N := 16384.    Definition CTX_OP_THREAD_REVIVE_TO : N := 32768.
Definition CTX_OP_THREAD_YIELD : N := 65536.     Definition CTX_OP_THREAD_YIELD_TO : N := 131072.
Definition CTX_OP_THREAD_RESUME_YIELD_TO : N := 262144. Definition CTX_OP_THREAD_YIELD_LOOP : N := 524288.
Definition CTX_OP_THREAD_RESUME : N := 1048576.  Definition CTX_OP_THREAD_MIGRATE : N := 2097152.

Theorem randws_flag_table :
  map ctx_push_head [CTX_OP_THREAD_CREATE; CTX_OP_THREAD_CREATE_TO; CTX_OP_THREAD_REVIVE; CTX_OP_THREAD_REVIVE_TO]
    = [true; true; true; true] /\
  map ctx_push_head [0%N; CTX_PRIO_HIGH; CTX_PRIO_LOW; CTX_OWNER_PRIMARY; CTX_OWNER_SECONDARY; CTX_OP_THREAD_YIELD;
                     CTX_OP_THREAD_YIELD_TO; CTX_OP_THREAD_RESUME_YIELD_TO; CTX_OP_THREAD_YIELD_LOOP;
                     CTX_OP_THREAD_RESUME; CTX_OP_THREAD_MIGRATE]
    = [false; false; false; false; false; false; false; false; false; false; false] /\
  ctx_pop_tail CTX_OWNER_SECONDARY = true /\
  map ctx_pop_tail [0%N; CTX_PRIO_HIGH; CTX_PRIO_LOW; CTX_OWNER_PRIMARY; CTX_OP_THREAD_CREATE; CTX_OP_THREAD_CREATE_TO;
                    CTX_OP_THREAD_REVIVE; CTX_OP_THREAD_REVIVE_TO; CTX_OP_THREAD_YIELD; CTX_OP_THREAD_YIELD_TO;
                    CTX_OP_THREAD_RESUME_YIELD_TO; CTX_OP_THREAD_YIELD_LOOP; CTX_OP_THREAD_RESUME; CTX_OP_THREAD_MIGRATE]
    = [false; false; false; false; false; false; false; false; false; false; false; false; false; false].
Proof. vm_compute. auto. Qed.

(* RANDWS is the deque whose ends are chosen by the flags *)
Theorem randws_ends ctx l u :
  sp_push RANDWS ctx l u = (if ctx_push_head ctx then u :: l else l ++ [u]) /\
  sp_pop RANDWS ctx l = (if ctx_pop_tail ctx then (removelast l, last_ptr l) else (tl l, hd_ptr l)).
Proof.
  unfold sp_push, sp_pop. cbn [push_at_head pop_at_tail]. split.
  - destruct (ctx_push_head ctx); reflexivity.
  - destruct (ctx_pop_tail ctx); [apply dq_pop_tail_eq|apply dq_pop_head_eq].
Qed.

(* ------------------------------------------------------------ finding *)
(* A private FIFO / RANDWS pool never initialises its spinlock, yet
   pool_pop_wait and pool_pop_timedwait take it.  If the malloc'ed lock word is
   non-zero, a timed pop on a non-empty private pool never returns — while the
   specification says it returns the head. *)
Theorem priv_timed_pop_refuted :
  forall k, k <> FIFO_WAIT ->
  snd (pool_run 0 (pool_init k PRIV true) heap_init [OPushThread (Some 0) 0%N; OPopWaitThread 0%N]) = Hung /\
  snd (pool_run 0 (pool_init k PRIV true) heap_init [OPushThread (Some 0) 0%N; OLPopTimedwait]) = Hung /\
  snd (spec_run k [] [OPushThread (Some 0) 0%N; OPopWaitThread 0%N]) = [RCode 0; RUnit 0 (Some 0)].
Proof. intros [| |] H; try congruence; vm_compute; auto. Qed.
