(* C14 — API-level model: what the public calls
     ABT_thread_create / ABT_pool_push_thread / ABT_pool_push / ABT_pool_pop(_thread) /
     ABT_thread_set_associated_pool / ABT_thread_migrate_to_pool /
     ABT_self_schedule / ABT_xstream_run_unit / ABT_thread_free / ABT_thread_revive /
     ABT_thread_get_unit + ABT_unit_get_thread
   do to the unit table, the thread fields, the pools' contents and the call
   log of the user pools, on one execution stream (the caller is the primary
   ULT; no scheduler serves the pools, so a work unit runs only when an
   operation schedules it).  Built on the association functions of
   DS/UnitMap.v.  Model code only.

   * A pool's content is the list of ABT_unit handles it holds, oldest first.
     Built-in pools are FIFO (C07); a user pool hands out the element its pop
     policy chooses: the index is an input of the pop operation.
   * A user pool's pop converts the handle it chose to a work unit with
     ABT_unit_get_thread (new interface: in the user's p_pop; legacy
     ABT_pool_def: in pool_pop_wrapper) - the table lookup is part of pop.
   * The body of a work unit is a script: request a migration of itself,
     yield, ..., return.
   * create_unit results and malloc outcomes are inputs ([os], consumed in call
     order; an exhausted list answers NULL). *)
From Coq Require Import List ZArith Bool.
From ABT Require Import Common.ListAux DS.UnitMap.
Import ListNotations.
Local Open Scope Z_scope.

Definition ABT_ERR_MIGRATION_TARGET : Z := 48.

Inductive loc :=
| LPool      (* pushed to its pool, not popped yet *)
| LOut       (* popped (or migrated out) and not pushed again *)
| LTerm.     (* terminated, not freed (named work units only) *)

Inductive sact :=
| SYield              (* ABT_self_yield() *)
| SMig (p : Z).       (* ABT_thread_migrate_to_pool(self, p) *)

Record xthr := mkX {
  x_loc : loc;
  x_mig : option Z;        (* pending ABTI_THREAD_REQ_MIGRATE and its target pool *)
  x_named : bool;          (* created with a handle (freed by ABT_thread_free) *)
  x_script : list sact;    (* what is left of the body *)
}.

Record xstate := mkXS {
  x_a : astate;                     (* table, (unit, p_pool) fields, call log *)
  x_thr : list (Z * xthr);
  x_pools : list (Z * list Z);      (* declared pools and their contents *)
  x_runs : list (Z * Z)             (* completion counter per work unit *)
}.

Inductive xop :=
| XCreate (th p : Z) (named : bool) (script : list sact) (os : list (Z * bool))
| XPushThread (p th : Z) (os : list (Z * bool))
| XPushUnit (p th : Z) (os : list (Z * bool))
| XPop (p k : Z)
| XSetPool (th p : Z) (os : list (Z * bool))
| XMigrate (th p : Z)
| XRun (th : Z) (os : list (Z * bool))
| XRunUnit (th p : Z) (os : list (Z * bool))
| XFree (th : Z)
| XRevive (th p : Z) (script : list sact) (os : list (Z * bool))
| XCheck (th : Z).

Inductive xres :=
| XRcode (c : Z)
| XRpop (th u : Z)            (* popped work unit and its p_thread->unit; 0 0 = empty *)
| XRrun (c : Z) (what : Z)    (* 0 migrated (pushed to the target), 1 yielded, 2 terminated *)
| XRcheck (u th : Z).         (* ABT_thread_get_unit, then ABT_unit_get_thread of it *)

Definition next_oracle (os : list (Z * bool)) : (Z * bool) * list (Z * bool) :=
  match os with
  | [] => ((UNIT_NULL, true), [])
  | o :: os' => (o, os')
  end.

Fixpoint remove_nth {A} (l : list A) (i : nat) : list A :=
  match l, i with
  | [], _ => []
  | _ :: l', O => l'
  | a :: l', S i' => a :: remove_nth l' i'
  end.

Section Api.
Variable bi : Z -> bool.

Definition xinit (pools : list Z) : xstate :=
  mkXS init_state [] (map (fun p => (p, [])) pools) [].

Definition pool_declared (s : xstate) (p : Z) : bool :=
  match zfind (x_pools s) p with Some _ => true | None => false end.

Definition with_a (s : xstate) (a : astate) : xstate :=
  mkXS a (x_thr s) (x_pools s) (x_runs s).
Definition set_x (s : xstate) (th : Z) (x : xthr) : xstate :=
  mkXS (x_a s) (zset (x_thr s) th x) (x_pools s) (x_runs s).

(* ABTI_pool_push(p_pool, unit, ctx): p_push of the pool; user pools log it *)
Definition pool_push (s : xstate) (p u : Z) : xstate :=
  let c := match zfind (x_pools s) p with Some c => c | None => [] end in
  let a := if bi p then x_a s else add_log (x_a s) (CPush p u) in
  mkXS a (x_thr s) (zset (x_pools s) p (c ++ [u])) (x_runs s).

(* ABTI_pool_add_thread / push of p_thread->unit to p_thread->p_pool *)
Definition push_thread_unit (s : xstate) (th : Z) (x : xthr) : xstate :=
  match zfind (a_thr (x_a s)) th with
  | None => s
  | Some f => set_x (pool_push s (t_pool f) (t_unit f)) th
                    (mkX LPool (x_mig x) (x_named x) (x_script x))
  end.

(* does ABTI_thread_set_associated_pool / ABTI_unit_set_associated_pool call
   p_create_unit for this work unit and target pool?  (the built-in -> user and
   user -> other-user branches).  An oracle is consumed only then. *)
Definition set_calls_create (a : astate) (th p : Z) : bool :=
  match zfind (a_thr a) th with
  | None => false
  | Some f => negb (bi p) && (is_builtin_unit (t_unit f) || negb (t_pool f =? p))
  end.

Definition take_oracle (a : astate) (th p : Z) (os : list (Z * bool))
  : (Z * bool) * list (Z * bool) :=
  if set_calls_create a th p then next_oracle os else ((UNIT_NULL, true), os).

(* ABTI_thread_set_associated_pool with the next oracle; the oracle is
   checked against the documented requirement at the time of the call *)
Definition x_set_assoc (s : xstate) (th p : Z) (os : list (Z * bool))
  : outcome (xstate * Z * list (Z * bool)) :=
  let (o, os') := take_oracle (x_a s) th p os in
  if negb (oracle_ok (x_a s) th o) then Misuse else
  match thread_set_associated_pool bi (x_a s) th p o with
  | None => Abort
  | Some (a', c) => Ok (with_a s a', c, os')
  end.

Definition bump_runs (s : xstate) (th : Z) : xstate :=
  let n := match zfind (x_runs s) th with Some n => n | None => 0 end in
  mkXS (x_a s) (x_thr s) (x_pools s) (zset (x_runs s) th (n + 1)).

(* the work-unit function returns: ABTI_thread_terminate *)
Definition terminate (s : xstate) (th : Z) (x : xthr) : outcome xstate :=
  let s1 := bump_runs s th in
  if x_named x then Ok (set_x s1 th (mkX LTerm (x_mig x) true []))
  else
    (* unnamed: ABTI_thread_free -> ABTI_thread_unset_associated_pool *)
    match thread_unset_associated_pool (x_a s1) th with
    | None => Abort
    | Some a' => Ok (mkXS a' (zdel (x_thr s1) th) (x_pools s1) (x_runs s1))
    end.

(* the work unit runs from where its script stands until it yields or returns *)
Fixpoint run_script (s : xstate) (th : Z) (x : xthr) (script : list sact) (os : list (Z * bool))
  : outcome (xstate * Z) :=
  match script with
  | [] => match terminate s th x with
          | Ok s' => Ok (s', 2) | Misuse => Misuse | Abort => Abort | Wrong => Wrong end
  | SMig q :: rest =>
      (* ABT_thread_migrate_to_pool(self, q); the body ignores the return code *)
      match zfind (a_thr (x_a s)) th with
      | None => Abort
      | Some f =>
          if negb (pool_declared s q) then Misuse else
          let x' := if t_pool f =? q then x else mkX (x_loc x) (Some q) (x_named x) (x_script x) in
          run_script s th x' rest os
      end
  | SYield :: rest =>
      (* ythread_callback_yield_impl: handle the request, then push back *)
      let x1 := mkX (x_loc x) (x_mig x) (x_named x) rest in
      match x_mig x1 with
      | Some q =>
          match x_set_assoc s th q os with
          | Ok (s1, c, _) =>
              let x2 := if c =? ABT_SUCCESS then mkX (x_loc x1) None (x_named x1) rest else x1 in
              Ok (push_thread_unit s1 th x2, 1)
          | Misuse => Misuse | Abort => Abort | Wrong => Wrong
          end
      | None => Ok (push_thread_unit s th x1, 1)
      end
  end.

(* ABTI_ythread_schedule(p_thread): ABTI_thread_handle_request first *)
Definition schedule (s : xstate) (th : Z) (x : xthr) (os : list (Z * bool))
  : outcome (xstate * Z) :=
  match x_mig x with
  | Some q =>
      match x_set_assoc s th q os with
      | Ok (s1, c, os') =>
          if c =? ABT_SUCCESS then
            (* ABTI_THREAD_HANDLE_REQUEST_MIGRATED: push to the new pool *)
            Ok (push_thread_unit s1 th (mkX (x_loc x) None (x_named x) (x_script x)), 0)
          else
            (* migration failed: the request stays, the work unit runs *)
            run_script s1 th x (x_script x) os'
      | Misuse => Misuse | Abort => Abort | Wrong => Wrong
      end
  | None => run_script s th x (x_script x) os
  end.

Definition lift_run (r : outcome (xstate * Z)) : outcome (xstate * xres) :=
  match r with
  | Ok (s', w) => Ok (s', XRrun ABT_SUCCESS w)
  | Misuse => Misuse | Abort => Abort | Wrong => Wrong
  end.

Definition xstep (s : xstate) (op : xop) : outcome (xstate * xres) :=
  match op with
  | XCreate th p named script os =>
      if negb (pool_declared s p) || negb (thread_ptr_ok th) then Misuse else
      match zfind (a_thr (x_a s)) th, zfind (x_thr s) th with
      | None, None =>
          let (o, _) := next_oracle os in
          if negb (oracle_ok (x_a s) th o) then Misuse else
          match thread_init_pool bi (x_a s) th p o with
          | None => Abort
          | Some (a', c) =>
              if c =? ABT_SUCCESS then
                let x := mkX LOut None named script in
                Ok (push_thread_unit (set_x (with_a s a') th x) th x, XRcode c)
              else Ok (with_a s a', XRcode c)
          end
      | _, _ => Misuse
      end
  | XPushThread p th os =>
      if negb (pool_declared s p) then Misuse else
      match zfind (x_thr s) th with
      | Some x =>
          match x_loc x with
          | LOut =>
              match x_set_assoc s th p os with
              | Ok (s1, c, _) =>
                  if c =? ABT_SUCCESS then Ok (push_thread_unit s1 th x, XRcode c)
                  else Ok (s1, XRcode c)
              | Misuse => Misuse | Abort => Abort | Wrong => Wrong
              end
          | _ => Misuse
          end
      | None => Misuse
      end
  | XPushUnit p th os =>
      if negb (pool_declared s p) then Misuse else
      match zfind (x_thr s) th, zfind (a_thr (x_a s)) th with
      | Some x, Some f =>
          match x_loc x with
          | LOut =>
              let (o, _) := take_oracle (x_a s) th p os in
              if negb (oracle_ok (x_a s) th o) then Misuse else
              match unit_set_associated_pool bi (x_a s) (t_unit f) p o with
              | None => Abort
              | Some (a', c, r) =>
                  if c =? ABT_SUCCESS then
                    (* push p_thread->unit, re-read from the returned descriptor *)
                    match zfind (x_thr s) r with
                    | Some xr => Ok (push_thread_unit (with_a s a') r xr, XRcode c)
                    | None => Abort
                    end
                  else Ok (with_a s a', XRcode c)
              end
          | _ => Misuse
          end
      | _, _ => Misuse
      end
  | XPop p k =>
      match zfind (x_pools s) p with
      | None => Misuse
      | Some [] => Ok (s, XRpop 0 0)
      | Some (u0 :: c') =>
          let c := u0 :: c' in
          let i := if bi p then O else Z.to_nat (k mod Z.of_nat (length c)) in
          let u := nth i c 0 in
          let a := if bi p then x_a s else add_log (x_a s) (CPop p u) in
          match unit_get_thread a u with
          | None => Abort
          | Some th =>
              match zfind (x_thr s) th, zfind (a_thr a) th with
              | Some x, Some f =>
                  Ok (mkXS a (zset (x_thr s) th (mkX LOut (x_mig x) (x_named x) (x_script x)))
                           (zset (x_pools s) p (remove_nth c i)) (x_runs s),
                      XRpop th (t_unit f))
              | _, _ => Abort
              end
          end
      end
  | XSetPool th p os =>
      if negb (pool_declared s p) then Misuse else
      match zfind (x_thr s) th with
      | Some x =>
          match x_loc x with
          | LPool => Misuse
          | _ =>
              match x_set_assoc s th p os with
              | Ok (s1, c, _) => Ok (s1, XRcode c)
              | Misuse => Misuse | Abort => Abort | Wrong => Wrong
              end
          end
      | None => Misuse
      end
  | XMigrate th p =>
      if negb (pool_declared s p) then Misuse else
      match zfind (x_thr s) th, zfind (a_thr (x_a s)) th with
      | Some x, Some f =>
          match x_loc x with
          | LTerm => Misuse
          | _ =>
              if t_pool f =? p then Ok (s, XRcode ABT_ERR_MIGRATION_TARGET)
              else Ok (set_x s th (mkX (x_loc x) (Some p) (x_named x) (x_script x)), XRcode ABT_SUCCESS)
          end
      | _, _ => Misuse
      end
  | XRun th os =>
      match zfind (x_thr s) th with
      | Some x =>
          match x_loc x with
          | LOut => lift_run (schedule s th x os)
          | _ => Misuse
          end
      | None => Misuse
      end
  | XRunUnit th p os =>
      if negb (pool_declared s p) then Misuse else
      match zfind (x_thr s) th, zfind (a_thr (x_a s)) th with
      | Some x, Some f =>
          match x_loc x with
          | LOut =>
              let (o, os') := take_oracle (x_a s) th p os in
              if negb (oracle_ok (x_a s) th o) then Misuse else
              match unit_set_associated_pool bi (x_a s) (t_unit f) p o with
              | None => Abort
              | Some (a', c, r) =>
                  if c =? ABT_SUCCESS then
                    match zfind (x_thr s) r with
                    | Some xr => lift_run (schedule (with_a s a') r xr os')
                    | None => Abort
                    end
                  else Ok (with_a s a', XRrun c 3)
              end
          | _ => Misuse
          end
      | _, _ => Misuse
      end
  | XFree th =>
      match zfind (x_thr s) th with
      | Some x =>
          match x_loc x with
          | LTerm =>
              match thread_unset_associated_pool (x_a s) th with
              | None => Abort
              | Some a' => Ok (mkXS a' (zdel (x_thr s) th) (x_pools s) (x_runs s), XRcode ABT_SUCCESS)
              end
          | _ => Misuse
          end
      | None => Misuse
      end
  | XRevive th p script os =>
      if negb (pool_declared s p) then Misuse else
      match zfind (x_thr s) th with
      | Some x =>
          match x_loc x with
          | LTerm =>
              match x_set_assoc s th p os with
              | Ok (s1, c, _) =>
                  if c =? ABT_SUCCESS then
                    (* thread_revive stores 0 to p_thread->request *)
                    let x' := mkX LOut None (x_named x) script in
                    Ok (push_thread_unit (set_x s1 th x') th x', XRcode c)
                  else Ok (s1, XRcode c)
              | Misuse => Misuse | Abort => Abort | Wrong => Wrong
              end
          | _ => Misuse
          end
      | None => Misuse
      end
  | XCheck th =>
      match zfind (x_thr s) th, zfind (a_thr (x_a s)) th with
      | Some x, Some f =>
          match unit_get_thread (x_a s) (t_unit f) with
          | Some r => Ok (s, XRcheck (t_unit f) r)
          | None => Abort
          end
      | _, _ => Misuse
      end
  end.

(* run a sequence; stops at the first Misuse / Abort and reports what was
   produced so far (the driver prints it) *)
Fixpoint xrun (s : xstate) (ops : list xop) : xstate * list xres * option Z :=
  match ops with
  | [] => (s, [], None)
  | op :: ops' =>
      match xstep s op with
      | Ok (s', r) => let '(s'', rs, e) := xrun s' ops' in (s'', r :: rs, e)
      | Misuse => (s, [], Some 1)
      | Abort => (s, [], Some 2)
      | Wrong => (s, [], Some 3)
      end
  end.

End Api.
