(* Proofs about DS/Waitlist.v.
   Part 1: the pointer structure represents a list (Rep), and each of the five
         operations of abti_waitlist.h does to the list what a queue does.
   Part 2: the system of waiters + clock: inductive invariant over all action
         sequences; refinement to [spec_run]; verdict of the timed wait. *)
From Coq Require Import List Arith Bool ZArith Lia.
From ABT Require Import Common.ListAux DS.Waitlist.
Import ListNotations.

(* ------------------------------------------------------------------ basics *)
Lemma upd_same {A} (f : nat -> A) k v : upd f k v k = v.
Proof. unfold upd. now rewrite Nat.eqb_refl. Qed.
Lemma upd_other {A} (f : nat -> A) k v x : x <> k -> upd f k v x = f x.
Proof. unfold upd. intros H. apply Nat.eqb_neq in H. now rewrite H. Qed.

Lemma ptr_eqb_spec a b : reflect (a = b) (ptr_eqb a b).
Proof.
  destruct a as [x|], b as [y|]; cbn; try (constructor; congruence).
  destruct (Nat.eqb_spec x y); constructor; congruence.
Qed.

Lemma last_indep (l : list nat) c a b : last (c :: l) a = last (c :: l) b.
Proof.
  revert c; induction l as [|d l IH]; intros c; auto.
  change (last (d :: l) a = last (d :: l) b). apply IH.
Qed.

Lemma last_cons_shift (l : list nat) a b : last (b :: l) a = last l b.
Proof.
  revert b; induction l as [|c l IH]; intros b; auto.
  change (last (c :: l) a = last (c :: l) b). apply last_indep.
Qed.

Lemma last_in (l : list nat) a : In (last l a) (a :: l).
Proof.
  revert a; induction l as [|b l IH]; intros a; [left; auto|].
  rewrite last_cons_shift. right. apply IH.
Qed.

Lemma last_app_cons (l1 l2 : list nat) x d : last (l1 ++ x :: l2) d = last l2 x.
Proof.
  induction l1 as [|a l1 IH]; cbn [app].
  - apply last_cons_shift.
  - rewrite last_cons_shift. rewrite <- IH.
    destruct (l1 ++ x :: l2) eqn:E; [destruct l1; discriminate|].
    rewrite !last_cons_shift. reflexivity.
Qed.

Lemma remove_notin (x : nat) l : ~ In x l -> remove Nat.eq_dec x l = l.
Proof.
  induction l as [|a l IH]; cbn; auto. intros H.
  destruct (Nat.eq_dec x a); [subst; tauto|]. rewrite IH; tauto.
Qed.

Lemma remove_mid (x : nat) l1 l2 : ~ In x l1 -> ~ In x l2 ->
  remove Nat.eq_dec x (l1 ++ x :: l2) = l1 ++ l2.
Proof.
  intros H1 H2. rewrite remove_app. cbn. destruct (Nat.eq_dec x x); [|congruence].
  rewrite !remove_notin; auto.
Qed.

Lemma nat_in_split (x : nat) l : In x l -> exists l1 l2, l = l1 ++ x :: l2 /\ ~ In x l1.
Proof. apply (in_split_first Nat.eqb Nat.eqb_spec). Qed.

(* ------------------------------------------------------------------ chains *)
(* [seg nx h l e]: following p_next from pointer h visits exactly l and ends at e *)
Fixpoint seg (nx : nat -> ptr) (h : ptr) (l : list nat) (e : ptr) : Prop :=
  match l with
  | [] => h = e
  | x :: xs => h = Some x /\ seg nx (nx x) xs e
  end.

Definition chain (nx : nat -> ptr) (h : ptr) (l : list nat) : Prop := seg nx h l None.

Lemma seg_ext nx nx' l : forall h e, (forall x, In x l -> nx' x = nx x) ->
  seg nx h l e -> seg nx' h l e.
Proof.
  induction l as [|a l IH]; cbn; auto. intros h e Hx [-> H]. split; auto.
  rewrite Hx by auto. apply IH; auto.
Qed.

Lemma seg_det nx l1 : forall l2 h, seg nx h l1 None -> seg nx h l2 None -> l1 = l2.
Proof.
  induction l1 as [|a l1 IH]; intros [|b l2] h; cbn; auto; try (intros; congruence).
  - intros -> [? _]; congruence.
  - intros [-> _] ?; congruence.
  - intros [-> H1] [E H2]. inversion E; subst. f_equal. eapply IH; eauto.
Qed.

Lemma seg_snoc nx l : forall h t e, seg nx h (l ++ [t]) e <-> seg nx h l (Some t) /\ nx t = e.
Proof.
  induction l as [|a l IH]; cbn; intros h t e.
  - split; [intros [-> ->]; auto | intros [-> ->]; auto].
  - rewrite IH. tauto.
Qed.

(* unlinking x, whose predecessor is [last l1 a], from a :: l1 ++ x :: l2 *)
Lemma seg_unlink nx : forall l1 a x l2 e, NoDup (a :: l1 ++ x :: l2) ->
  seg nx (nx a) (l1 ++ x :: l2) e ->
  seg (upd nx (last l1 a) (nx x)) (upd nx (last l1 a) (nx x) a) (l1 ++ l2) e.
Proof.
  induction l1 as [|b l1 IH]; intros a x l2 e Hnd H.
  - cbn in *. destruct H as [Ha H]. rewrite upd_same.
    inversion Hnd as [|? ? Hna Hnd']; subst.
    eapply seg_ext; [|exact H]. intros y Hy. apply upd_other.
    intros ->. apply Hna. right; auto.
  - cbn [app] in *. destruct H as [Ha H]. rewrite last_cons_shift.
    inversion Hnd as [|? ? Hna Hnd']; subst.
    assert (a <> last l1 b).
    { intros E. apply Hna. pose proof (last_in l1 b) as Hl. rewrite <- E in Hl.
      destruct Hl as [->|Hl]; [left; auto|right; apply in_or_app; auto]. }
    cbn. rewrite upd_other by auto. split; auto.
Qed.

Definition last_opt (l : list nat) : ptr :=
  match l with [] => None | _ => Some (last l 0) end.

(* ------------------------------------------------------- back links (p_prev) *)
(* [pk pv tm a l]: a precedes l; every timed node of l has p_prev = its predecessor *)
Fixpoint pk (pv : nat -> ptr) (tm : nat -> bool) (a : nat) (l : list nat) : Prop :=
  match l with
  | [] => True
  | b :: r => (tm b = true -> pv b = Some a) /\ pk pv tm b r
  end.

Definition prev_ok (pv : nat -> ptr) (tm : nat -> bool) (l : list nat) : Prop :=
  match l with [] => True | a :: r => pk pv tm a r end.

Lemma pk_ext pv tm pv' tm' l : forall a,
  (forall x, In x l -> pv' x = pv x /\ tm' x = tm x) -> pk pv tm a l -> pk pv' tm' a l.
Proof.
  induction l as [|b l IH]; cbn; auto. intros a Hx [H1 H2].
  destruct (Hx b (or_introl eq_refl)) as [-> ->]. split; auto.
Qed.

Lemma pk_app pv tm l1 : forall a l2,
  pk pv tm a (l1 ++ l2) <-> pk pv tm a l1 /\ pk pv tm (last l1 a) l2.
Proof.
  induction l1 as [|b l1 IH]; cbn [app]; intros a l2.
  - cbn. tauto.
  - rewrite last_cons_shift. cbn. rewrite IH. tauto.
Qed.

Lemma pk_pred pv tm l1 a x l2 : pk pv tm a (l1 ++ x :: l2) -> tm x = true ->
  pv x = Some (last l1 a).
Proof. rewrite pk_app. cbn. tauto. Qed.

Lemma pk_unlink pv tm : forall l1 a x n r, NoDup (a :: l1 ++ x :: n :: r) ->
  pk pv tm a (l1 ++ x :: n :: r) ->
  pk (upd pv n (Some (last l1 a))) tm a (l1 ++ n :: r).
Proof.
  induction l1 as [|b l1 IH]; intros a x n r Hnd H.
  - cbn in *. destruct H as (_ & _ & H). rewrite upd_same. split; auto.
    eapply pk_ext; [|exact H]. intros y Hy. split; auto. apply upd_other.
    intros ->. inversion Hnd as [|? ? _ Hnd1]; subst. inversion Hnd1 as [|? ? _ Hnd2]; subst.
    inversion Hnd2; subst; tauto.
  - cbn [app] in *. rewrite last_cons_shift. destruct H as [Hb H].
    inversion Hnd as [|? ? Hna Hnd']; subst. cbn. split.
    + rewrite upd_other; auto. intros ->. inversion Hnd' as [|? ? Hnb _]; subst.
      apply Hnb. apply in_or_app. right. right. left; auto.
    + apply IH with (x := x); auto.
Qed.

(* the explicit form of the back-link invariant *)
Lemma prev_ok_adjacent pv tm l l1 a b l2 :
  prev_ok pv tm l -> l = l1 ++ a :: b :: l2 -> tm b = true -> pv b = Some a.
Proof.
  intros H -> Hb. destruct l1 as [|c l1]; cbn in H.
  - tauto.
  - change (pk pv tm c (l1 ++ [a] ++ b :: l2)) in H.
    rewrite app_assoc in H. apply pk_pred in H; auto.
    rewrite H. f_equal. apply (last_snoc l1 a c).
Qed.

(* ------------------------------------------------------------ representation *)
Record Rep (s : wl) (l : list nat) : Prop := {
  r_nodup : NoDup l;
  r_chain : chain (next s) (head s) l;                  (* p_head, p_next *)
  r_tail : tail s = last_opt l;                         (* p_tail = last or NULL *)
  r_prev : prev_ok (prev s) (timed s) l;                (* timed non-head: p_prev = predecessor *)
  r_ext : forall x, In x l -> timed s x = true -> ext s x = true;
  r_ready : forall x, In x l -> ready s x = false
}.

Lemma Rep_det s l1 l2 : Rep s l1 -> Rep s l2 -> l1 = l2.
Proof. intros [] []. eapply seg_det; eauto. Qed.

Lemma Rep_init nx pv tm ex rd : Rep (wl_init nx pv tm ex rd) [].
Proof. constructor; cbn; auto; try constructor; intros ? []. Qed.

Lemma Rep_nil_head s : Rep s [] -> head s = None.
Proof. intros []. auto. Qed.

Lemma Rep_cons_head s x l : Rep s (x :: l) -> head s = Some x.
Proof. intros [_ [H _] _ _ _ _]. auto. Qed.

Lemma Rep_walk s l fuel : Rep s l -> length l <= fuel -> wl_walk fuel (next s) (head s) = l.
Proof.
  intros [_ Hc _ _ _ _]. unfold chain in Hc. revert Hc. generalize (head s).
  revert fuel. induction l as [|a l IH]; intros fuel h Hc Hf; cbn in *.
  - subst. destruct fuel; auto.
  - destruct Hc as [-> Hc]. destruct fuel; [lia|]. cbn. f_equal. apply IH; auto. lia.
Qed.

(* ---- enqueue ---- *)
Lemma enq_common s l x (nx' := upd (next s) x None) :
  Rep s l -> ~ In x l ->
  match l with
  | [] => head s = None
  | _ => exists h t l', head s = Some h /\ tail s = Some t /\ l = l' ++ [t] /\
                        chain (upd nx' t (Some x)) (head s) (l ++ [x])
  end.
Proof.
  intros [Hnd Hc Ht Hp He Hr] Hx. destruct l as [|a l0]; [exact Hc|].
  assert (Hh : head s = Some a) by (destruct Hc; auto).
  destruct (list_snoc_cases (a :: l0)) as [E|(l' & t & E)]; [discriminate|].
  exists a, t, l'. split; auto. rewrite E in *.
  split. { rewrite Ht. destruct (l' ++ [t]) eqn:E2; [destruct l'; discriminate|].
           cbn [last_opt]. rewrite <- E2. now rewrite last_snoc. }
  split; auto. unfold chain in *. apply seg_snoc in Hc. destruct Hc as [Hc Hn].
  apply seg_snoc. split.
  - apply seg_snoc. split.
    + eapply seg_ext; [|exact Hc]. intros y Hy.
      apply NoDup_snoc_iff in Hnd. destruct Hnd as [_ Hnt].
      unfold nx'. rewrite !upd_other; auto.
      * intros ->. apply Hx. apply in_or_app; auto.
      * intros ->. auto.
    + apply upd_same.
  - assert (x <> t) by (intros ->; apply Hx; apply in_or_app; right; left; auto).
    rewrite upd_other by auto. apply upd_same.
Qed.

Lemma last_opt_snoc l x : last_opt (l ++ [x]) = Some x.
Proof. unfold last_opt. destruct (l ++ [x]) eqn:E; [destruct l; discriminate|].
       rewrite <- E. now rewrite last_snoc. Qed.

Lemma prev_ok_snoc pv tm pv' tm' l x :
  prev_ok pv tm l -> ~ In x l ->
  (forall y, y <> x -> pv' y = pv y /\ tm' y = tm y) ->
  (tm' x = true -> l <> [] -> pv' x = Some (last l 0)) ->
  prev_ok pv' tm' (l ++ [x]).
Proof.
  intros H Hx Hfr Hnew. destruct l as [|a r]; cbn; auto.
  cbn in H. apply pk_app. split.
  - eapply pk_ext; [|exact H]. intros y Hy. apply Hfr. intros ->. apply Hx. right; auto.
  - cbn. split; auto. intros Ht. rewrite Hnew; auto; [|discriminate].
    f_equal; try apply last_cons_shift; auto.
Qed.

Ltac enq_tail :=
  cbn; split; [intros ? ?; rewrite !upd_other by auto; auto | rewrite !upd_same; auto].

Lemma wl_enq_rep s l x e : Rep s l -> ~ In x l ->
  exists s', wl_enq s x e = Done s' /\ Rep s' (l ++ [x]) /\
             (forall y, y <> x -> ready s' y = ready s y /\ timed s' y = timed s y) /\
             ready s' x = false /\ timed s' x = false.
Proof.
  intros HR Hx. pose proof (enq_common s l x HR Hx) as Hc.
  destruct HR as [Hnd Hch Ht Hp He Hr]. unfold wl_enq.
  destruct l as [|a l0].
  - rewrite Hc. eexists; split; [reflexivity|]. split; [|enq_tail].
    constructor; cbn.
    + constructor; [intros []|constructor].
    + split; auto. apply upd_same.
    + reflexivity.
    + exact I.
    + intros y [<-|[]]. rewrite upd_same. discriminate.
    + intros y [<-|[]]. apply upd_same.
  - destruct Hc as (h & t & l' & Hh & Htl & El & Hc). rewrite Hh, Htl.
    eexists; split; [reflexivity|]. split; [|enq_tail].
    constructor; cbn [head tail next prev timed ext ready].
    + apply NoDup_snoc; auto.
    + rewrite <- Hh. exact Hc.
    + now rewrite last_opt_snoc.
    + eapply prev_ok_snoc; eauto.
      * intros y Hy. split; auto. now rewrite upd_other.
      * rewrite upd_same. discriminate.
    + intros y Hy Hty. destruct (Nat.eq_dec y x) as [->|Hne].
      * rewrite upd_same in Hty. discriminate.
      * rewrite upd_other in * by auto. apply in_app_or in Hy.
        destruct Hy as [Hy|[<-|[]]]; [auto|congruence].
    + intros y Hy. destruct (Nat.eq_dec y x) as [->|Hne]; [apply upd_same|].
      rewrite upd_other by auto. apply in_app_or in Hy.
      destruct Hy as [Hy|[<-|[]]]; [auto|congruence].
Qed.

Lemma wl_enq_timed_rep s l x : Rep s l -> ~ In x l ->
  exists s', wl_enq_timed s x = Done s' /\ Rep s' (l ++ [x]) /\
             (forall y, y <> x -> ready s' y = ready s y /\ timed s' y = timed s y) /\
             ready s' x = false /\ timed s' x = true.
Proof.
  intros HR Hx. pose proof (enq_common s l x HR Hx) as Hc.
  destruct HR as [Hnd Hch Ht Hp He Hr]. unfold wl_enq_timed.
  destruct l as [|a l0].
  - rewrite Hc. eexists; split; [reflexivity|]. split; [|enq_tail].
    constructor; cbn.
    + constructor; [intros []|constructor].
    + split; auto. apply upd_same.
    + reflexivity.
    + exact I.
    + intros y [<-|[]] _. apply upd_same.
    + intros y [<-|[]]. apply upd_same.
  - destruct Hc as (h & t & l' & Hh & Htl & El & Hc). rewrite Hh, Htl.
    eexists; split; [reflexivity|]. split; [|enq_tail].
    constructor; cbn [head tail next prev timed ext ready].
    + apply NoDup_snoc; auto.
    + rewrite <- Hh. exact Hc.
    + now rewrite last_opt_snoc.
    + eapply prev_ok_snoc; eauto.
      * intros y Hy. now rewrite !upd_other.
      * intros _ _. rewrite upd_same. rewrite Ht in Htl. unfold last_opt in Htl. congruence.
    + intros y Hy Hty. destruct (Nat.eq_dec y x) as [->|Hne]; [apply upd_same|].
      rewrite upd_other in * by auto. apply in_app_or in Hy.
      destruct Hy as [Hy|[<-|[]]]; [auto|congruence].
    + intros y Hy. destruct (Nat.eq_dec y x) as [->|Hne]; [apply upd_same|].
      rewrite upd_other by auto. apply in_app_or in Hy.
      destruct Hy as [Hy|[<-|[]]]; [auto|congruence].
Qed.

(* ---- signal ---- *)
Lemma wl_signal_rep s l : Rep s l ->
  let '(s', p) := wl_signal s in
  p = hd_error l /\ Rep s' (tl l) /\
  timed s' = timed s /\
  (forall y, ready s' y = if ptr_eqb p (Some y) then true else ready s y).
Proof.
  intros [Hnd Hc Ht Hp He Hr]. unfold wl_signal. destruct l as [|x r].
  - cbn in Hc. rewrite Hc. cbn. repeat split; auto; try constructor; auto.
  - destruct Hc as [Hh Hc]. rewrite Hh. cbn [hd_error tl]. split; auto.
    inversion Hnd as [|? ? Hnx Hnd']; subst. split; [|split; auto].
    + constructor; cbn [head tail next prev timed ext ready].
      * exact Hnd'.
      * eapply seg_ext; [|exact Hc]. intros y Hy. apply upd_other. intros ->; auto.
      * destruct r as [|b r]; cbn in Hc.
        -- now rewrite Hc.
        -- destruct Hc as [-> _]. rewrite Ht. cbn [last_opt]. f_equal; try apply last_cons_shift; auto.
      * destruct r as [|b r]; cbn in *; tauto.
      * intros y Hy. apply He. right; auto.
      * intros y Hy. rewrite upd_other; [apply Hr; right; auto|]. intros ->; auto.
    + intros y. cbn. unfold upd. rewrite Nat.eqb_sym. reflexivity.
Qed.

(* ---- broadcast ---- *)
Lemma bc_loop_spec : forall r fuel nx rd p acc,
  NoDup (p :: r) -> seg nx (nx p) r None -> length r < fuel ->
  exists nx' rd', bc_loop fuel nx rd p acc = Done (nx', rd', acc ++ p :: r) /\
                  (forall y, In y (p :: r) -> rd' y = true) /\
                  (forall y, ~ In y (p :: r) -> rd' y = rd y).
Proof.
  induction r as [|q r IH]; intros fuel nx rd p acc Hnd Hs Hf.
  - cbn in Hs. destruct fuel; [lia|]. cbn. rewrite Hs.
    do 2 eexists. split; [reflexivity|]. split.
    + intros y [<-|[]]. apply upd_same.
    + intros y Hy. apply upd_other. intros ->. apply Hy. left; auto.
  - cbn in Hs. destruct Hs as [Hq Hs]. destruct fuel; [lia|]. cbn. rewrite Hq.
    inversion Hnd as [|? ? Hnp Hnd']; subst.
    destruct (IH fuel (upd nx p None) (upd rd p true) q (acc ++ [p]) Hnd') as (nx' & rd' & E & H1 & H2).
    + assert (q <> p) by (intros ->; apply Hnp; left; auto).
      rewrite upd_other by auto. eapply seg_ext; [|exact Hs]. intros y Hy.
      apply upd_other. intros ->. apply Hnp. right; auto.
    + cbn in Hf. lia.
    + exists nx', rd'. rewrite E. rewrite <- app_assoc. split; [reflexivity|]. split.
      * intros y [<-|Hy]; [|auto]. rewrite H2 by auto. apply upd_same.
      * intros y Hy. rewrite H2 by (intros Hy'; apply Hy; right; auto).
        apply upd_other. intros ->. apply Hy. left; auto.
Qed.

Lemma wl_broadcast_rep s l fuel : Rep s l -> length l < fuel ->
  exists s', wl_broadcast fuel s = Done (s', l) /\ Rep s' [] /\
             timed s' = timed s /\
             (forall y, In y l -> ready s' y = true) /\
             (forall y, ~ In y l -> ready s' y = ready s y).
Proof.
  intros [Hnd Hc Ht Hp He Hr] Hf. unfold wl_broadcast. destruct l as [|p r].
  - cbn in Hc. rewrite Hc. exists s. split; [reflexivity|]. split; [constructor; auto|].
    split; [reflexivity|]. split; [intros ? []|auto].
  - destruct Hc as [Hh Hc]. rewrite Hh.
    destruct (bc_loop_spec r fuel (next s) (ready s) p [] Hnd Hc) as (nx' & rd' & E & H1 & H2).
    { cbn in Hf; lia. }
    rewrite E. eexists. split; [reflexivity|]. split; [|cbn; auto].
    constructor; cbn; auto; try constructor; intros ? [].
Qed.

(* ---- timeout removal ---- *)
Lemma wl_timeout_ready s x : ready s x = true -> wl_timeout s x = Done (s, false).
Proof. intros H. unfold wl_timeout. now rewrite H. Qed.

Lemma wl_timeout_queued s l x : Rep s l -> In x l -> timed s x = true ->
  exists s', wl_timeout s x = Done (s', true) /\ Rep s' (remove Nat.eq_dec x l) /\
             timed s' = timed s /\ ready s' = ready s.
Proof.
  intros [Hnd Hc Ht Hp He Hr] Hin Htm.
  pose proof (Hr x Hin) as Hrx. pose proof (He x Hin Htm) as Hex.
  unfold wl_timeout. rewrite Hrx.
  destruct (nat_in_split x l Hin) as (l1 & l2 & -> & Hn1).
  assert (Hn2 : ~ In x l2).
  { apply NoDup_remove_2 in Hnd. intros H; apply Hnd; apply in_or_app; auto. }
  rewrite remove_mid by auto.
  destruct l1 as [|a l1].
  - (* x is the head *)
    cbn [app] in *. destruct Hc as [Hh Hc]. rewrite Hh.
    destruct (ptr_eqb_spec (Some x) (Some x)) as [_|]; [|congruence].
    inversion Hnd as [|? ? _ Hnd']; subst.
    destruct l2 as [|n r]; cbn in Hc.
    + rewrite Hc, Ht. cbn [last_opt last].
      destruct (ptr_eqb_spec (Some x) (Some x)) as [_|]; [|congruence].
      eexists; split; [reflexivity|]. split; [|auto].
      constructor; cbn; auto; try constructor; intros ? [].
    + destruct Hc as [Hnx Hc]. rewrite Hnx.
      eexists; split; [reflexivity|]. split; [|auto].
      constructor; cbn [head tail next prev timed ext ready].
      * exact Hnd'.
      * split; auto.
      * rewrite Ht. cbn [last_opt]. f_equal; try apply last_cons_shift; auto.
      * cbn in Hp. cbn. tauto.
      * intros y Hy. apply He. right; auto.
      * intros y Hy. apply Hr. right; auto.
  - (* x is not the head: predecessor p = last l1 a *)
    cbn [app] in *. destruct Hc as [Hh Hc]. rewrite Hh.
    assert (a <> x) by (intros ->; apply Hn1; left; auto).
    destruct (ptr_eqb_spec (Some a) (Some x)) as [E|_]; [congruence|].
    cbn [prev_ok] in Hp. rewrite (pk_pred _ _ _ _ _ _ Hp Htm). rewrite Hex.
    pose proof (seg_unlink (next s) l1 a x l2 None Hnd Hc) as Hseg.
    assert (Hnd' : NoDup (a :: l1 ++ l2)).
    { change (NoDup ((a :: l1) ++ l2)). change (NoDup ((a :: l1) ++ x :: l2)) in Hnd.
      eapply NoDup_remove_1; eauto. }
    destruct l2 as [|n r].
    + (* x is the tail *)
      pose proof Hc as Hc'. apply seg_snoc in Hc'. destruct Hc' as [_ Hnx]. rewrite Hnx in *.
      rewrite Ht. change (a :: l1 ++ [x]) with ((a :: l1) ++ [x]). rewrite last_opt_snoc.
      destruct (ptr_eqb_spec (Some x) (Some x)) as [_|]; [|congruence].
      eexists; split; [reflexivity|]. rewrite app_nil_r in *. split; [|auto].
      constructor; cbn [head tail next prev timed ext ready].
      * exact Hnd'.
      * split; auto.
      * cbn [last_opt]. f_equal; symmetry; try apply last_cons_shift; auto.
      * cbn. apply pk_app in Hp. tauto.
      * intros y Hy. apply He. change (In y ((a :: l1) ++ [x])). apply in_or_app; auto.
      * intros y Hy. apply Hr. change (In y ((a :: l1) ++ [x])). apply in_or_app; auto.
    + pose proof Hc as Hc'. change (l1 ++ x :: n :: r) with (l1 ++ [x] ++ n :: r) in Hc'.
      assert (Hnx : next s x = Some n).
      { clear - Hc'. revert Hc'. generalize (next s a). induction l1 as [|b l1 IH]; cbn.
        - intros p (_ & H & _). auto.
        - intros p [_ H]. eauto. }
      rewrite Hnx in *.
      eexists; split; [reflexivity|]. split; [|auto].
      constructor; cbn [head tail next prev timed ext ready].
      * exact Hnd'.
      * split; auto.
      * rewrite Ht. cbn [last_opt]. f_equal.
        rewrite !last_cons_shift. rewrite !last_app_cons. rewrite ?last_cons_shift. reflexivity.
      * cbn. apply pk_unlink with (x := x); auto.
      * intros y Hy. apply He. destruct Hy as [<-|Hy]; [left; auto|right].
        apply in_app_or in Hy. apply in_or_app. destruct Hy; auto. right; right; auto.
      * intros y Hy. apply Hr. destruct Hy as [<-|Hy]; [left; auto|right].
        apply in_app_or in Hy. apply in_or_app. destruct Hy; auto. right; right; auto.
Qed.

(* ====================================================================== *)
(* Part 2: waiters + clock                                                *)
(* ====================================================================== *)
Local Open Scope Z_scope.

Definition timed_pc (p : wpc) : bool := match p with WaitT | PastT => true | _ => false end.

Definition credit (s : sys) (x : nat) : nat :=
  if waiting (pc s x) && ready (sw s) x then 1%nat else 0%nat.

(* the inductive invariant; l is the abstract queue *)
Record Inv (s : sys) (l : list nat) : Prop := {
  i_rep : Rep (sw s) l;
  i_len : (length l <= nenq s)%nat;
  (* queued = inside a wait and not yet woken *)
  i_in : forall x, In x l <-> (waiting (pc s x) = true /\ ready (sw s) x = false);
  i_timed : forall x, waiting (pc s x) = true -> timed (sw s) x = timed_pc (pc s x);
  (* the locked test is reached only after the deadline *)
  i_past : forall x, pc s x = PastT -> dl s x <= now s;
  i_tmo : forall x, pc s x = Ret TIMEDOUT -> dl s x <= now s;
  (* every SUCCESS return consumed one wake-up of that waiter; a wake-up not yet
     consumed belongs to a waiter that is still inside its wait *)
  i_count : forall x, nwake (wakes s) x = (nret SUCCESS (rets s) x + credit s x)%nat
}.

Lemma nwake_app l1 l2 x : nwake (l1 ++ l2) x = (nwake l1 x + nwake l2 x)%nat.
Proof. apply count_occ_app. Qed.

Lemma nwake_single y x : nwake [y] x = if Nat.eqb y x then 1%nat else 0%nat.
Proof. unfold nwake. cbn. destruct (Nat.eq_dec y x), (Nat.eqb_spec y x); auto; congruence. Qed.

Lemma nwake_nodup l x : NoDup l -> nwake l x = if in_b x l then 1%nat else 0%nat.
Proof.
  intros H. unfold nwake, in_b. destruct (existsb (Nat.eqb x) l) eqn:E.
  - apply existsb_exists in E. destruct E as (y & Hy & Exy). apply Nat.eqb_eq in Exy. subst y.
    apply NoDup_count_occ'; auto.
  - apply count_occ_not_In. intros Hin.
    assert (existsb (Nat.eqb x) l = true); [|congruence].
    apply existsb_exists. exists x. split; auto. apply Nat.eqb_refl.
Qed.

Lemma in_b_spec x l : reflect (In x l) (in_b x l).
Proof.
  unfold in_b. destruct (existsb (Nat.eqb x) l) eqn:E; constructor.
  - apply existsb_exists in E. destruct E as (y & Hy & Exy). apply Nat.eqb_eq in Exy. now subst.
  - intros Hin. assert (existsb (Nat.eqb x) l = true); [|congruence].
    apply existsb_exists. exists x. split; auto. apply Nat.eqb_refl.
Qed.

Lemma nret_app c r1 r2 x : nret c (r1 ++ r2) x = (nret c r1 x + nret c r2 x)%nat.
Proof. induction r1 as [|[y c'] r1 IH]; cbn; auto. rewrite IH. lia. Qed.

Lemma remove_length (x : nat) l : (length (remove Nat.eq_dec x l) <= length l)%nat.
Proof. induction l as [|a l IH]; cbn; auto. destruct (Nat.eq_dec x a); cbn; lia. Qed.

Lemma in_remove_iff (x y : nat) l : In y (remove Nat.eq_dec x l) <-> In y l /\ y <> x.
Proof. split; [apply in_remove|intros []; apply in_in_remove; auto]. Qed.

Lemma is_idle_spec p : is_idle p = true -> p = Idle.
Proof. destruct p; cbn; congruence. Qed.

(* what each action outputs, in terms of the abstract queue *)
Definition out_ok (s : sys) (l : list nat) (a : action) (o : output) : Prop :=
  o = spec_out l a /\
  match a with
  | ALockedTest x => dl s x <= now s /\ (In x l <-> ready (sw s) x = false)
  | AWakeU x | APollReady x => ready (sw s) x = true /\ ~ In x l
  | _ => True
  end.

Ltac ucase y x :=
  destruct (Nat.eq_dec y x) as [->|?];
  [rewrite ?upd_same in *|rewrite ?upd_other in * by auto].

Lemma credit_frame s s' x :
  pc s' x = pc s x -> ready (sw s') x = ready (sw s) x -> credit s' x = credit s x.
Proof. unfold credit. intros -> ->. reflexivity. Qed.

Lemma step_start s l x w' p' d' :
  Inv s l -> pc s x = Idle ->
  Rep w' (l ++ [x]) ->
  (forall y, y <> x -> ready w' y = ready (sw s) y /\ timed w' y = timed (sw s) y) ->
  ready w' x = false -> timed w' x = timed_pc p' -> waiting p' = true -> p' <> PastT ->
  (forall y, y <> x -> d' y = dl s y) ->
  Inv (mksys w' (now s) d' (upd (pc s) x p') (S (nenq s)) (wakes s) (rets s)) (l ++ [x]).
Proof.
  intros [HR Hl Hin Htm Hpa Hto Hc] Hpc HR' Hfr Hrx Htx Hw Hnp Hd.
  constructor; cbn [sw now dl pc nenq wakes rets]; auto.
  - rewrite app_length. cbn. lia.
  - intros y. rewrite in_app_iff. cbn. ucase y x.
    + intuition.
    + destruct (Hfr y n) as [-> _]. rewrite Hin. intuition congruence.
  - intros y. ucase y x; auto. destruct (Hfr y n) as [_ ->]. auto.
  - intros y. ucase y x; [congruence|]. rewrite Hd; auto.
  - intros y. ucase y x; [intros E; subst p'; discriminate|]. rewrite Hd; auto.
  - intros y. rewrite Hc. f_equal. unfold credit. cbn [sw pc]. ucase y x.
    + rewrite Hpc, Hw, Hrx. reflexivity.
    + destruct (Hfr y n) as [-> _]. reflexivity.
Qed.

Lemma step_return s l x p :
  Inv s l -> pc s x = p -> waiting p = true -> ready (sw s) x = true ->
  Inv (mksys (sw s) (now s) (dl s) (upd (pc s) x (Ret SUCCESS)) (nenq s) (wakes s)
             (rets s ++ [(x, SUCCESS)])) l /\ ~ In x l.
Proof.
  intros [HR Hl Hin Htm Hpa Hto Hc] Hpc Hw Hrx.
  assert (Hnx : ~ In x l) by (rewrite Hin; intros [_ ?]; congruence).
  split; auto.
  constructor; cbn [sw now dl pc nenq wakes rets]; auto.
  - intros y. ucase y x.
    + cbn. intuition congruence.
    + apply Hin.
  - intros y. ucase y x; [cbn; discriminate|auto].
  - intros y. ucase y x; [discriminate|auto].
  - intros y. ucase y x; [discriminate|auto].
  - intros y. rewrite Hc, nret_app. unfold credit. cbn [sw pc nret]. ucase y x.
    + rewrite Hpc, Hw, Hrx, Nat.eqb_refl. cbn. lia.
    + assert (Nat.eqb x y = false) as -> by (apply Nat.eqb_neq; auto). lia.
Qed.

Lemma step_inv s l a : Inv s l ->
  match step s a with
  | Next s' o => Inv s' (spec_step l a) /\ out_ok s l a o
  | Disabled => True
  | RFault | ROutOfFuel => False
  end.
Proof.
  intros HI. pose proof HI as [HR Hl Hin Htm Hpa Hto Hc].
  destruct a as [x e|x d| | |d|x|x|x|x|x]; cbn [step spec_step].
  - (* AStartU *)
    destruct (is_idle (pc s x)) eqn:Ei; auto. apply is_idle_spec in Ei.
    assert (Hnx : ~ In x l) by (rewrite Hin, Ei; cbn; intros [? _]; discriminate).
    destruct (wl_enq_rep _ _ x e HR Hnx) as (w' & -> & HR' & Hfr & Hrx & Htx).
    split; [|split; auto].
    eapply step_start; eauto; cbn; auto; discriminate.
  - (* AStartT *)
    destruct (is_idle (pc s x)) eqn:Ei; auto. apply is_idle_spec in Ei.
    assert (Hnx : ~ In x l) by (rewrite Hin, Ei; cbn; intros [? _]; discriminate).
    destruct (wl_enq_timed_rep _ _ x HR Hnx) as (w' & -> & HR' & Hfr & Hrx & Htx).
    split; [|split; auto].
    eapply step_start; eauto; cbn; auto; try discriminate.
    intros y Hy. now rewrite upd_other.
  - (* ASignal *)
    pose proof (wl_signal_rep _ _ HR) as Hs. destruct (wl_signal (sw s)) as [w' p].
    destruct Hs as (-> & HR' & Ht' & Hrd). split; [|split; cbn; auto].
    constructor; cbn [sw now dl pc nenq wakes rets]; auto.
    + destruct l; cbn in *; lia.
    + intros y. rewrite Hrd. destruct l as [|x r]; cbn [hd_error tl ptr_eqb].
      * apply Hin.
      * destruct (Nat.eqb_spec x y) as [->|Hne].
        -- destruct HR as [Hnd _ _ _ _ _]. inversion Hnd; subst. intuition congruence.
        -- rewrite <- Hin. cbn. intuition congruence.
    + intros y. rewrite Ht'. auto.
    + intros y. rewrite nwake_app, Hc. unfold credit. cbn [sw pc]. rewrite Hrd.
      destruct l as [|x r]; cbn [hd_error ptr_eqb].
      * cbn. lia.
      * rewrite nwake_single. destruct (Nat.eqb_spec x y) as [->|Hne]; [|lia].
        destruct (proj1 (Hin y) (or_introl eq_refl)) as [-> ->]. cbn. lia.
  - (* ABroadcast *)
    destruct (wl_broadcast_rep _ _ (S (nenq s)) HR ltac:(lia)) as (w' & -> & HR' & Ht' & Hr1 & Hr2).
    split; [|split; cbn; auto].
    constructor; cbn [sw now dl pc nenq wakes rets]; auto.
    + cbn. lia.
    + intros y. cbn. destruct (in_b_spec y l) as [Hy|Hy].
      * rewrite Hr1 by auto. intuition congruence.
      * rewrite Hr2 by auto. rewrite <- Hin. tauto.
    + intros y. rewrite Ht'. auto.
    + intros y. rewrite nwake_app, Hc. unfold credit. cbn [sw pc].
      destruct HR as [Hnd _ _ _ _ _]. rewrite (nwake_nodup _ _ Hnd).
      destruct (in_b_spec y l) as [Hy|Hy].
      * rewrite Hr1 by auto. destruct (proj1 (Hin y) Hy) as [-> ->]. cbn. lia.
      * rewrite Hr2 by auto. lia.
  - (* ATick *)
    destruct (Z.leb_spec 0 d); auto. split; [|split; auto].
    constructor; cbn [sw now dl pc nenq wakes rets]; auto.
    + intros y Hy. specialize (Hpa y Hy). lia.
    + intros y Hy. specialize (Hto y Hy). lia.
  - (* AWakeU *)
    destruct (pc s x) eqn:Ep; auto. destruct (ready (sw s) x) eqn:Er; auto.
    destruct (step_return s l x WaitU HI Ep eq_refl Er). split; auto. split; auto.
  - (* APollReady *)
    destruct (pc s x) eqn:Ep; auto. destruct (ready (sw s) x) eqn:Er; auto.
    destruct (step_return s l x WaitT HI Ep eq_refl Er). split; auto. split; auto.
  - (* APollTime *)
    destruct (pc s x) eqn:Ep; auto. destruct (Z.leb_spec (dl s x) (now s)); auto.
    split; [|split; auto].
    constructor; cbn [sw now dl pc nenq wakes rets]; auto.
    + intros y. ucase y x; [rewrite Hin, Ep; tauto|apply Hin].
    + intros y. ucase y x; [intros _; rewrite Htm; rewrite Ep; auto|auto].
    + intros y. ucase y x; auto.
    + intros y. ucase y x; [discriminate|auto].
    + intros y. rewrite Hc. f_equal. unfold credit. cbn [sw pc]. ucase y x; auto. now rewrite Ep.
  - (* ALockedTest *)
    destruct (pc s x) eqn:Ep; auto. pose proof (Hpa x Ep) as Hdl.
    destruct (ready (sw s) x) eqn:Er.
    + rewrite (wl_timeout_ready _ _ Er).
      destruct (step_return s l x PastT HI Ep eq_refl Er) as [HI' Hnx].
      rewrite remove_notin by auto. split; auto. split.
      * cbn. destruct (in_b_spec x l); tauto.
      * split; auto. rewrite Er. intuition congruence.
    + assert (Hx : In x l) by (rewrite Hin, Ep; auto).
      assert (Htx : timed (sw s) x = true) by (rewrite Htm by (rewrite Ep; auto); rewrite Ep; auto).
      destruct (wl_timeout_queued _ _ x HR Hx Htx) as (w' & -> & HR' & Ht' & Hr').
      split; [|split; [cbn; destruct (in_b_spec x l); tauto|split; auto; rewrite Er; tauto]].
      constructor; cbn [sw now dl pc nenq wakes rets]; auto.
      * pose proof (remove_length x l). lia.
      * intros y. rewrite in_remove_iff, Hr'. ucase y x.
        -- cbn. intuition congruence.
        -- rewrite Hin. tauto.
      * intros y. rewrite Ht'. ucase y x; [cbn; discriminate|auto].
      * intros y. ucase y x; [discriminate|auto].
      * intros y. ucase y x; auto.
      * intros y. rewrite Hc, nret_app. unfold credit. cbn [sw pc nret]. rewrite Hr'. ucase y x.
        -- rewrite Ep, Er, Nat.eqb_refl. cbn. lia.
        -- assert (Nat.eqb x y = false) as -> by (apply Nat.eqb_neq; auto). lia.
  - (* ARestart *)
    destruct (pc s x) eqn:Ep; auto. split; [|split; auto].
    constructor; cbn [sw now dl pc nenq wakes rets]; auto.
    + intros y. ucase y x; [rewrite Hin, Ep; cbn; tauto|apply Hin].
    + intros y. ucase y x; [cbn; discriminate|auto].
    + intros y. ucase y x; [discriminate|auto].
    + intros y. ucase y x; [discriminate|auto].
    + intros y. rewrite Hc. f_equal. unfold credit. cbn [sw pc]. ucase y x; auto. now rewrite Ep.
Qed.

(* ---------------------------------------------------------------- runs *)
Lemma Inv_init nx pv tm ex rd t0 d0 : Inv (sys_init nx pv tm ex rd t0 d0) [].
Proof.
  constructor; cbn; auto; try discriminate.
  - apply Rep_init.
  - intros x. split; [intros []|intros [? _]; discriminate].
Qed.

Lemma run_from_inv : forall acts s l outs, Inv s l ->
  match run_from s outs acts with
  | RunOk s' outs' => Inv s' (fold_left spec_step acts l) /\ outs' = outs ++ spec_outs l acts
  | RunDisabled => True
  | RunFault | RunOutOfFuel => False
  end.
Proof.
  induction acts as [|a acts IH]; intros s l outs HI; cbn [run_from fold_left spec_outs].
  - rewrite app_nil_r. auto.
  - pose proof (step_inv s l a HI) as Hs. destruct (step s a) as [s' o| | |]; auto.
    destruct Hs as [HI' [-> _]]. specialize (IH s' (spec_step l a) (outs ++ [spec_out l a]) HI').
    destruct (run_from s' (outs ++ [spec_out l a]) acts); auto.
    rewrite <- app_assoc in IH. exact IH.
Qed.

Definition reachable (s : sys) (acts : list action) : Prop :=
  exists nx pv tm ex rd t0 d0 outs, run (sys_init nx pv tm ex rd t0 d0) acts = RunOk s outs.

Lemma reachable_inv s acts : reachable s acts -> Inv s (spec_run acts).
Proof.
  intros (nx & pv & tm & ex & rd & t0 & d0 & outs & H).
  pose proof (run_from_inv acts _ _ [] (Inv_init nx pv tm ex rd t0 d0)) as Hr.
  unfold run in H. rewrite H in Hr. apply Hr.
Qed.

(* the structure facts packed in Rep, spelled out *)
Lemma Rep_explicit s l : Rep s l ->
  NoDup l /\
  head s = hd_error l /\
  tail s = last_opt l /\
  wl_walk (length l) (next s) (head s) = l /\
  (forall l1 a b l2, l = l1 ++ a :: b :: l2 -> timed s b = true -> prev s b = Some a) /\
  (forall x, In x l -> ready s x = false).
Proof.
  intros HR. pose proof HR as [Hnd Hc Ht Hp He Hr]. repeat split; auto.
  - destruct l; [apply Rep_nil_head|eapply Rep_cons_head]; eauto.
  - apply Rep_walk; auto.
  - intros. eapply prev_ok_adjacent; eauto.
Qed.

(* For every action sequence (any number of waiters, timed and untimed in any
   positions, any interleaving of enqueues, signals, broadcasts, clock ticks,
   polls and locked timeout tests) the model never dereferences NULL, never
   fails an assertion, never runs out of fuel, the pointer structure represents
   the abstract queue computed by [spec_run], and every output (node woken by
   a signal, nodes woken by a broadcast, return code of every wait) is the one
   computed from the abstract queue. *)
Theorem waitlist_refines nx pv tm ex rd t0 d0 acts :
  match run (sys_init nx pv tm ex rd t0 d0) acts with
  | RunOk s outs => Rep (sw s) (spec_run acts) /\ outs = spec_outs [] acts
  | RunDisabled => True
  | RunFault | RunOutOfFuel => False
  end.
Proof.
  pose proof (run_from_inv acts _ _ [] (Inv_init nx pv tm ex rd t0 d0)) as Hr.
  unfold run. destruct (run_from _ [] acts); auto. destruct Hr as [[HR _ _ _ _ _ _] Ho]. auto.
Qed.

(* where the removed waiter stands does not matter *)
Lemma remove_anywhere (x : nat) l1 l2 : NoDup (l1 ++ x :: l2) ->
  remove Nat.eq_dec x (l1 ++ x :: l2) = l1 ++ l2.
Proof.
  intros H. apply remove_mid.
  - apply NoDup_remove_2 in H. intros Hi; apply H; apply in_or_app; auto.
  - apply NoDup_remove_2 in H. intros Hi; apply H; apply in_or_app; auto.
Qed.

(* verdict of the timed wait, in every reachable state *)
Theorem timeout_verdict s acts x : reachable s acts ->
  let l := spec_run acts in
  (* (1) the locked test `timeout:` *)
  (forall s' o, step s (ALockedTest x) = Next s' o ->
     dl s x <= now s /\
     ((ready (sw s) x = false /\ In x l /\ o = ORet x TIMEDOUT /\
       Rep (sw s') (remove Nat.eq_dec x l) /\ wakes s' = wakes s /\
       nwake (wakes s) x = nret SUCCESS (rets s) x)
      \/
      (ready (sw s) x = true /\ ~ In x l /\ o = ORet x SUCCESS /\ sw s' = sw s /\
       nwake (wakes s) x = S (nret SUCCESS (rets s) x)))) /\
  (* (2) it is reached only after the deadline; a timed-out waiter is not queued *)
  (pc s x = PastT -> dl s x <= now s) /\
  (pc s x = Ret TIMEDOUT -> dl s x <= now s /\ ~ In x l) /\
  (* (3) only waiters inside a wait and not yet woken are queued (so only they
         can be chosen by a later signal / broadcast) *)
  (In x l <-> waiting (pc s x) = true /\ ready (sw s) x = false) /\
  (* (4) accounting: wake-ups of x = SUCCESS returns of x (+1 if x holds an
         unconsumed wake-up, which requires x to be inside a wait) *)
  nwake (wakes s) x = (nret SUCCESS (rets s) x + credit s x)%nat.
Proof.
  intros Hre l. pose proof (reachable_inv _ _ Hre) as HI. fold l in HI.
  pose proof HI as [HR Hl Hin Htm Hpa Hto Hc].
  split; [|split; [apply Hpa|split; [|split; [apply Hin|apply Hc]]]].
  - intros s' o Hst. pose proof (step_inv s l (ALockedTest x) HI) as Hs.
    rewrite Hst in Hs. destruct Hs as [HI' (Ho & Hdl & Hq)]. split; auto.
    cbn [step] in Hst. destruct (pc s x) eqn:Ep; try discriminate.
    pose proof (Hc x) as Hcx. unfold credit in Hcx. rewrite Ep in Hcx. cbn in Hcx.
    destruct (ready (sw s) x) eqn:Er; cbn in Hcx.
    + right. rewrite (wl_timeout_ready _ _ Er) in Hst. inversion Hst; subst.
      split; [auto|split; [intros Hi; apply Hq in Hi; discriminate|split; [auto|split; [auto|lia]]]].
    + left. assert (Hx : In x l) by (apply Hq; auto).
      assert (Htx : timed (sw s) x = true) by (rewrite Htm by (rewrite Ep; auto); rewrite Ep; auto).
      destruct (wl_timeout_queued _ _ x HR Hx Htx) as (w' & Ew & HR' & _ & _).
      rewrite Ew in Hst. inversion Hst; subst.
      split; [auto|split; [auto|split; [auto|split; [auto|split; [auto|lia]]]]].
  - intros Ep. split; auto. rewrite Hin, Ep. cbn. intros [? _]; discriminate.
Qed.
