(* C19 — pointer-level model of ABTI_waitlist (src/include/abti_waitlist.h) and of
   the life of its waiters under a clock (src/cond.c: ABT_cond_wait /
   ABT_cond_timedwait / ABT_cond_signal / ABT_cond_broadcast).

   Model only (executable Gallina, extracted by Extract_C19.v); proofs are in
   DS/WaitlistProofs.v.

   A node is the `ABTI_thread` the waiter enqueues: for an untimed ULT waiter it
   is the ULT's own descriptor, otherwise a dummy `ABTI_thread thread` on the
   waiter's stack.  Nodes are named by natural numbers; NULL is [None].
   All fields are total maps [nat -> _]: a node that was never written holds
   arbitrary garbage (the theorems quantify over the initial maps).  Only
   pointwise look-ups are used, never equality of maps. *)
From Coq Require Import List Arith Bool ZArith.
Import ListNotations.

Definition ptr := option nat.

Definition upd {A} (f : nat -> A) (k : nat) (v : A) : nat -> A :=
  fun x => if Nat.eqb x k then v else f x.

Definition ptr_eqb (a b : ptr) : bool :=
  match a, b with
  | None, None => true
  | Some x, Some y => Nat.eqb x y
  | _, _ => false
  end.

(* ABTI_waitlist { p_head, p_tail } + the fields of the nodes.
   next/prev  : ABTI_thread.p_next / p_prev
   ext        : ABTI_thread.type == ABTI_THREAD_TYPE_EXT (dummy node); false =
                the node is a real ULT descriptor (untimed ULT waiter)
   ready      : for a dummy node, state == ABT_THREAD_STATE_READY; for a ULT
                node, "ABTI_ythread_resume_and_push has been called"
   timed      : ghost — the node was enqueued by
                ABTI_waitlist_wait_timedout_and_unlock (there is no such field
                in C; it is which function the owner of the node is executing) *)
Record wl := mkwl {
  head : ptr; tail : ptr;
  next : nat -> ptr; prev : nat -> ptr;
  timed : nat -> bool; ext : nat -> bool; ready : nat -> bool }.

(* Fault = NULL-pointer dereference or failed ABTI_ASSERT (assert() is live in the
   configuration of /repo: error checks on).  OutOfFuel = the bounded loop ran
   out of fuel (proved never to happen). *)
Inductive outcome (A : Type) := Done (a : A) | Fault | OutOfFuel.
Arguments Done {A} a.
Arguments Fault {A}.
Arguments OutOfFuel {A}.

(* ABTI_waitlist_init *)
Definition wl_init (nx pv : nat -> ptr) (tm ex rd : nat -> bool) : wl :=
  mkwl None None nx pv tm ex rd.

(* ABTI_waitlist_wait_and_unlock, enqueue part (both branches: e = true for the
   external / non-yieldable dummy node, e = false for &p_ythread->thread):
     thread.p_next = NULL;
     if (p_head == NULL) p_head = &thread; else p_tail->p_next = &thread;
     p_tail = &thread;
   p_prev is NOT written. *)
Definition wl_enq (s : wl) (x : nat) (e : bool) : outcome wl :=
  let nx := upd (next s) x None in
  let rd := upd (ready s) x false in
  let tm := upd (timed s) x false in
  let ex := upd (ext s) x e in
  match head s with
  | None => Done (mkwl (Some x) (Some x) nx (prev s) tm ex rd)
  | Some h =>
    match tail s with
    | None => Fault                                   (* p_tail->p_next with p_tail == NULL *)
    | Some t => Done (mkwl (Some h) (Some x) (upd nx t (Some x)) (prev s) tm ex rd)
    end
  end.

(* ABTI_waitlist_wait_timedout_and_unlock, enqueue part (always a dummy node):
     thread.p_next = NULL;
     if (p_head == NULL) { p_head = &thread; thread.p_prev = NULL; }
     else { p_tail->p_next = &thread; thread.p_prev = p_tail; }
     p_tail = &thread; *)
Definition wl_enq_timed (s : wl) (x : nat) : outcome wl :=
  let nx := upd (next s) x None in
  let rd := upd (ready s) x false in
  let tm := upd (timed s) x true in
  let ex := upd (ext s) x true in
  match head s with
  | None => Done (mkwl (Some x) (Some x) nx (upd (prev s) x None) tm ex rd)
  | Some h =>
    match tail s with
    | None => Fault
    | Some t => Done (mkwl (Some h) (Some x) (upd nx t (Some x))
                           (upd (prev s) x (Some t)) tm ex rd)
    end
  end.

(* ABTI_waitlist_signal:
     p = p_head; if (p) { n = p->p_next; p->p_next = NULL; <wake p>;
                          p_head = n; if (!n) p_tail = NULL; }           *)
Definition wl_signal (s : wl) : wl * ptr :=
  match head s with
  | None => (s, None)
  | Some x =>
    let n := next s x in
    (mkwl n (match n with None => None | Some _ => tail s end)
          (upd (next s) x None) (prev s) (timed s) (ext s) (upd (ready s) x true),
     Some x)
  end.

(* ABTI_waitlist_broadcast: do { n = p->p_next; p->p_next = NULL; <wake p>; p = n; }
   while (p); p_head = p_tail = NULL.  Returns the nodes in the order woken. *)
Fixpoint bc_loop (fuel : nat) (nx : nat -> ptr) (rd : nat -> bool) (p : nat)
         (acc : list nat) : outcome ((nat -> ptr) * (nat -> bool) * list nat) :=
  match fuel with
  | O => OutOfFuel
  | S f =>
    let n := nx p in
    let nx' := upd nx p None in
    let rd' := upd rd p true in
    match n with
    | None => Done (nx', rd', acc ++ [p])
    | Some q => bc_loop f nx' rd' q (acc ++ [p])
    end
  end.

Definition wl_broadcast (fuel : nat) (s : wl) : outcome (wl * list nat) :=
  match head s with
  | None => Done (s, [])
  | Some p =>
    match bc_loop fuel (next s) (ready s) p [] with
    | Done (nx, rd, l) => Done (mkwl None None nx (prev s) (timed s) (ext s) rd, l)
    | Fault => Fault
    | OutOfFuel => OutOfFuel
    end
  end.

(* ABTI_waitlist_wait_timedout_and_unlock from the label `timeout:` (the lock is
   held).  Returns is_timedout.
     is_timedout = (thread.state != READY);
     if (is_timedout) {
       if (p_head == &thread) {
         p_head = thread.p_next;
         if (!thread.p_next) { ASSERT(p_tail == &thread); p_tail = NULL; }
       } else {
         ASSERT(thread.p_prev);
         thread.p_prev->p_next = thread.p_next;
         if (thread.p_next && thread.type == EXT) thread.p_next->p_prev = thread.p_prev;
         else { ASSERT(p_tail == &thread); p_tail = thread.p_prev; }
       } }                                                                          *)
Definition wl_timeout (s : wl) (x : nat) : outcome (wl * bool) :=
  if ready s x then Done (s, false)
  else if ptr_eqb (head s) (Some x) then
    match next s x with
    | Some n =>
      Done (mkwl (Some n) (tail s) (next s) (prev s) (timed s) (ext s) (ready s), true)
    | None =>
      if ptr_eqb (tail s) (Some x)
      then Done (mkwl None None (next s) (prev s) (timed s) (ext s) (ready s), true)
      else Fault
    end
  else
    match prev s x with
    | None => Fault                                         (* ABTI_ASSERT(thread.p_prev) *)
    | Some p =>
      let nx := upd (next s) p (next s x) in
      match next s x, ext s x with
      | Some n, true =>
        Done (mkwl (head s) (tail s) nx (upd (prev s) n (Some p))
                   (timed s) (ext s) (ready s), true)
      | _, _ =>
        if ptr_eqb (tail s) (Some x)
        then Done (mkwl (head s) (Some p) nx (prev s) (timed s) (ext s) (ready s), true)
        else Fault
      end
    end.

(* ABTI_waitlist_is_empty *)
Definition wl_is_empty (s : wl) : bool := match head s with None => true | Some _ => false end.

(* white-box dump: the chain walked from p_head (bounded) *)
Fixpoint wl_walk (fuel : nat) (nx : nat -> ptr) (p : ptr) : list nat :=
  match fuel, p with
  | S f, Some x => x :: wl_walk f nx (nx x)
  | _, _ => []
  end.

(* ------------------------------------------------------------------------ *)
(* The waiters and the clock: one step = one lock-protected section of the C
   code or one unprotected atomic read.

   pc of a waiter
     Idle    not inside a wait
     WaitU   inside ABT_cond_wait, enqueued (blocked ULT / futex sleeper)
     WaitT   inside ABT_cond_timedwait, enqueued, in the polling loop
     PastT   read cur_time >= target_time and goes to / stands at `timeout:`
     Ret c   the wait returned c                                              *)
Inductive code := SUCCESS | TIMEDOUT.
Inductive wpc := Idle | WaitU | WaitT | PastT | Ret (c : code).

Record sys := mksys {
  sw : wl;
  now : Z;                       (* ABTI_get_wtime(), monotone *)
  dl : nat -> Z;                 (* target_time of the current / last timed wait *)
  pc : nat -> wpc;
  nenq : nat;                    (* ghost: number of enqueues so far (fuel bound) *)
  wakes : list nat;              (* ghost: log of wake-ups (signal / broadcast) *)
  rets : list (nat * code) }.    (* ghost: log of returns *)

Inductive action :=
| AStartU (x : nat) (e : bool)   (* ABT_cond_wait up to the enqueue; e: dummy node *)
| AStartT (x : nat) (d : Z)      (* ABT_cond_timedwait(deadline d) up to the enqueue *)
| ASignal                        (* ABT_cond_signal by anybody *)
| ABroadcast                     (* ABT_cond_broadcast by anybody *)
| ATick (d : Z)                  (* the clock advances by d >= 0 *)
| AWakeU (x : nat)               (* untimed waiter observes it was woken and returns *)
| APollReady (x : nat)           (* timed waiter reads state == READY: "Singled", returns *)
| APollTime (x : nat)            (* timed waiter reads cur_time >= target_time *)
| ALockedTest (x : nat)          (* `timeout:` section under the lock *)
| ARestart (x : nat).            (* a returned waiter may wait again (same node address) *)

Inductive output :=
| ONone
| OWoken (p : ptr)               (* node woken by the signal (None: list was empty) *)
| OWokenAll (l : list nat)       (* nodes woken by the broadcast, in order *)
| ORet (x : nat) (c : code).     (* return code of the wait *)

Inductive result := Next (s : sys) (o : output) | Disabled | RFault | ROutOfFuel.

Definition waiting (p : wpc) : bool :=
  match p with WaitU | WaitT | PastT => true | _ => false end.

Definition is_idle (p : wpc) : bool := match p with Idle => true | _ => false end.

Definition step (s : sys) (a : action) : result :=
  match a with
  | AStartU x e =>
    if is_idle (pc s x) then
      match wl_enq (sw s) x e with
      | Done w' => Next (mksys w' (now s) (dl s) (upd (pc s) x WaitU) (S (nenq s))
                               (wakes s) (rets s)) ONone
      | Fault => RFault
      | OutOfFuel => ROutOfFuel
      end
    else Disabled
  | AStartT x d =>
    if is_idle (pc s x) then
      match wl_enq_timed (sw s) x with
      | Done w' => Next (mksys w' (now s) (upd (dl s) x d) (upd (pc s) x WaitT) (S (nenq s))
                               (wakes s) (rets s)) ONone
      | Fault => RFault
      | OutOfFuel => ROutOfFuel
      end
    else Disabled
  | ASignal =>
    let '(w', p) := wl_signal (sw s) in
    Next (mksys w' (now s) (dl s) (pc s) (nenq s)
                (wakes s ++ match p with Some x => [x] | None => [] end) (rets s))
         (OWoken p)
  | ABroadcast =>
    match wl_broadcast (S (nenq s)) (sw s) with
    | Done (w', l) => Next (mksys w' (now s) (dl s) (pc s) (nenq s) (wakes s ++ l) (rets s))
                           (OWokenAll l)
    | Fault => RFault
    | OutOfFuel => ROutOfFuel
    end
  | ATick d =>
    if (0 <=? d)%Z
    then Next (mksys (sw s) (now s + d)%Z (dl s) (pc s) (nenq s) (wakes s) (rets s)) ONone
    else Disabled
  | AWakeU x =>
    match pc s x with
    | WaitU =>
      if ready (sw s) x
      then Next (mksys (sw s) (now s) (dl s) (upd (pc s) x (Ret SUCCESS)) (nenq s) (wakes s)
                       (rets s ++ [(x, SUCCESS)])) (ORet x SUCCESS)
      else Disabled
    | _ => Disabled
    end
  | APollReady x =>
    match pc s x with
    | WaitT =>
      if ready (sw s) x
      then Next (mksys (sw s) (now s) (dl s) (upd (pc s) x (Ret SUCCESS)) (nenq s) (wakes s)
                       (rets s ++ [(x, SUCCESS)])) (ORet x SUCCESS)
      else Disabled
    | _ => Disabled
    end
  | APollTime x =>
    match pc s x with
    | WaitT =>
      if (dl s x <=? now s)%Z            (* cur_time >= target_time *)
      then Next (mksys (sw s) (now s) (dl s) (upd (pc s) x PastT) (nenq s) (wakes s) (rets s))
                ONone
      else Disabled
    | _ => Disabled
    end
  | ALockedTest x =>
    match pc s x with
    | PastT =>
      match wl_timeout (sw s) x with
      | Done (w', is_timedout) =>
        let c := if is_timedout then TIMEDOUT else SUCCESS in
        Next (mksys w' (now s) (dl s) (upd (pc s) x (Ret c)) (nenq s) (wakes s)
                    (rets s ++ [(x, c)])) (ORet x c)
      | Fault => RFault
      | OutOfFuel => ROutOfFuel
      end
    | _ => Disabled
    end
  | ARestart x =>
    match pc s x with
    | Ret _ => Next (mksys (sw s) (now s) (dl s) (upd (pc s) x Idle) (nenq s) (wakes s) (rets s))
                    ONone
    | _ => Disabled
    end
  end.

Inductive run_result := RunOk (s : sys) (outs : list output) | RunDisabled | RunFault | RunOutOfFuel.

Fixpoint run_from (s : sys) (outs : list output) (acts : list action) : run_result :=
  match acts with
  | [] => RunOk s outs
  | a :: rest =>
    match step s a with
    | Next s' o => run_from s' (outs ++ [o]) rest
    | Disabled => RunDisabled
    | RFault => RunFault
    | ROutOfFuel => RunOutOfFuel
    end
  end.

Definition run (s : sys) (acts : list action) : run_result := run_from s [] acts.

(* initial state: empty list, every waiter idle; node fields hold garbage *)
Definition sys_init (nx pv : nat -> ptr) (tm ex rd : nat -> bool) (t0 : Z) (d0 : nat -> Z) : sys :=
  mksys (wl_init nx pv tm ex rd) t0 d0 (fun _ => Idle) 0 [] [].

(* the abstract queue: what the sequence of actions does to a list of waiters *)
Definition spec_step (l : list nat) (a : action) : list nat :=
  match a with
  | AStartU x _ | AStartT x _ => l ++ [x]
  | ASignal => tl l
  | ABroadcast => []
  | ALockedTest x => remove Nat.eq_dec x l
  | _ => l
  end.

Definition spec_run (acts : list action) : list nat := fold_left spec_step acts [].

(* ghost-log counters *)
Definition nwake (l : list nat) (x : nat) : nat := count_occ Nat.eq_dec l x.
Fixpoint nret (c : code) (r : list (nat * code)) (x : nat) : nat :=
  match r with
  | [] => 0
  | (y, c') :: r' =>
    (if Nat.eqb y x then match c, c' with SUCCESS, SUCCESS | TIMEDOUT, TIMEDOUT => 1 | _, _ => 0 end
     else 0) + nret c r' x
  end.

(* ------------------------------------------------------------------------ *)
(* Deterministic "settle" used by the correspondence driver: after an action of
   the test driver every waiter that can make progress does so (lowest id
   first), until nobody can.  ids 0 .. n-1. *)
Definition progress_action (s : sys) (x : nat) : option action :=
  match pc s x with
  | WaitU => if ready (sw s) x then Some (AWakeU x) else None
  | WaitT => if ready (sw s) x then Some (APollReady x)
             else if (dl s x <=? now s)%Z then Some (APollTime x) else None
  | PastT => Some (ALockedTest x)
  | _ => None
  end.

Fixpoint first_progress (s : sys) (x : nat) (n : nat) : option action :=
  match n with
  | O => None
  | S n' => match progress_action s x with
            | Some a => Some a
            | None => first_progress s (S x) n'
            end
  end.

Fixpoint settle (fuel : nat) (n : nat) (s : sys) : result :=
  match fuel with
  | O => ROutOfFuel
  | S f =>
    match first_progress s 0 n with
    | None => Next s ONone
    | Some a =>
      match step s a with
      | Next s' _ => settle f n s'
      | r => r
      end
    end
  end.

(* expected outputs of an action sequence, computed on the abstract queue only *)
Definition in_b (x : nat) (l : list nat) : bool := existsb (Nat.eqb x) l.

Definition spec_out (l : list nat) (a : action) : output :=
  match a with
  | ASignal => OWoken (hd_error l)
  | ABroadcast => OWokenAll l
  | ALockedTest x => ORet x (if in_b x l then TIMEDOUT else SUCCESS)
  | AWakeU x | APollReady x => ORet x SUCCESS
  | _ => ONone
  end.

Fixpoint spec_outs (l : list nat) (acts : list action) : list output :=
  match acts with
  | [] => []
  | a :: r => spec_out l a :: spec_outs (spec_step l a) r
  end.
