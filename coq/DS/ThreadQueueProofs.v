(* C07 — thread_queue_t refines a [list id] deque.  Proofs for DS/ThreadQueue.v. *)
From Coq Require Import List Arith Bool Lia.
From ABT Require Import Common.ListAux DS.ThreadQueue DS.Deque.
Import ListNotations.

(* ------------------------------------------------------------ small helpers *)
Lemma upd_eq {A} (f : id -> A) k v : upd f k v k = v.
Proof. unfold upd. now rewrite Nat.eqb_refl. Qed.
Lemma upd_ne {A} (f : id -> A) k v x : x <> k -> upd f k v x = f x.
Proof. unfold upd. intros H. apply Nat.eqb_neq in H. now rewrite H. Qed.

Ltac upds :=
  repeat (cbn [h_prev h_next h_inpool set_prev set_next set_inpool detach];
          match goal with
          | |- context [upd _ ?k _ ?k] => rewrite upd_eq
          | |- context [upd _ ?k _ ?x] => rewrite (upd_ne _ k _ x) by congruence
          end);
  cbn [h_prev h_next h_inpool set_prev set_next set_inpool detach].

Definition hd_ptr (l : list id) : ptr := match l with [] => None | x :: _ => Some x end.
Definition last_ptr (l : list id) : ptr := match l with [] => None | x :: _ => Some (last l x) end.

(* the cyclic list unrolled once: first element repeated at the end *)
Definition cyc (l : list id) : list id := match l with [] => [] | x :: _ => l ++ [x] end.

(* consecutive elements of m are linked both ways *)
Fixpoint path (h : heap) (m : list id) : Prop :=
  match m with
  | a :: m' => match m' with
               | b :: _ => h_next h a = Some b /\ h_prev h b = Some a /\ path h m'
               | [] => True
               end
  | [] => True
  end.

(* Representation invariant: the pointer structure (q, h) represents the deque
   l (head first).  Circular convention of thread_queue.h: tail->next = head,
   head->prev = tail; a unit outside the queue has NULL links and
   is_in_pool = 0. *)
Record Rep (l : list id) (q : tq) (h : heap) : Prop := mkRep {
  rep_num : q_num q = length l;
  rep_empty : q_is_empty q = match l with [] => true | _ => false end;
  rep_head : q_head q = hd_ptr l;
  rep_tail : q_tail q = last_ptr l;
  rep_nodup : NoDup l;
  rep_path : path h (cyc l);
  rep_in : forall u, h_inpool h u = true <-> In u l;
  rep_clean : forall u, ~ In u l -> h_prev h u = None /\ h_next h u = None
}.

Lemma rep_init : Rep [] tq_init heap_init.
Proof.
  constructor; cbn; auto.
  - constructor.
  - intros u. split; [discriminate|tauto].
Qed.

(* any heap whose units are all outside every pool will do *)
Lemma rep_init_gen h :
  (forall u, h_inpool h u = false /\ h_prev h u = None /\ h_next h u = None) -> Rep [] tq_init h.
Proof.
  intros H. constructor; cbn; auto.
  - constructor.
  - intros u. destruct (H u) as (-> & _). split; [discriminate|tauto].
  - intros u _. destruct (H u) as (_ & -> & ->). auto.
Qed.

(* ------------------------------------------------------------ path lemmas *)
Lemma path_cons2 h a b m :
  path h (a :: b :: m) <-> h_next h a = Some b /\ h_prev h b = Some a /\ path h (b :: m).
Proof. reflexivity. Qed.
Lemma path_inv h a b m :
  path h (a :: b :: m) -> h_next h a = Some b /\ h_prev h b = Some a /\ path h (b :: m).
Proof. intros H; exact H. Qed.
Lemma path_intro h a b m :
  h_next h a = Some b -> h_prev h b = Some a -> path h (b :: m) -> path h (a :: b :: m).
Proof. intros; red; cbn; auto. Qed.
Lemma path_one h a : path h [a] <-> True.
Proof. reflexivity. Qed.
Arguments path : simpl never.

Lemma path_app_l h m1 m2 : path h (m1 ++ m2) -> path h m1.
Proof.
  revert m2. induction m1 as [|a m1 IH]; intros m2 H; [exact I|].
  destruct m1 as [|b m1]; [exact I|].
  cbn [app] in H. apply path_inv in H. destruct H as (H1 & H2 & H3).
  apply path_intro; auto. apply (IH m2). exact H3.
Qed.

Lemma path_app_r h m1 m2 : path h (m1 ++ m2) -> path h m2.
Proof.
  induction m1 as [|a m1 IH]; intros H; auto.
  apply IH. cbn [app] in H. destruct (m1 ++ m2) eqn:E; [exact I|].
  apply path_inv in H. tauto.
Qed.

Lemma path_join h m1 a m2 : path h (m1 ++ [a]) -> path h (a :: m2) -> path h (m1 ++ a :: m2).
Proof.
  induction m1 as [|b m1 IH]; intros H1 H2; auto.
  destruct m1 as [|c m1].
  - cbn [app] in *. apply path_inv in H1. apply path_intro; tauto.
  - cbn [app] in *. apply path_inv in H1. destruct H1 as (Ha & Hb & Hc).
    apply path_intro; auto.
Qed.

Lemma path_frame h h' m :
  (forall x, In x (removelast m) -> h_next h' x = h_next h x) ->
  (forall x, In x (tl m) -> h_prev h' x = h_prev h x) ->
  path h m -> path h' m.
Proof.
  induction m as [|a m IH]; intros Hn Hp H; auto.
  destruct m as [|b m]; auto.
  apply path_inv in H. destruct H as (H1 & H2 & H3).
  apply path_intro.
  - rewrite Hn; auto. cbn. auto.
  - rewrite Hp; auto. cbn. auto.
  - apply IH; auto.
    + intros x Hx. apply Hn. change (In x (a :: removelast (b :: m))). right. exact Hx.
    + intros x Hx. apply Hp. cbn [tl] in *. right. exact Hx.
Qed.

Lemma path_last_pair h m a b : path h (m ++ [a; b]) -> h_next h a = Some b /\ h_prev h b = Some a.
Proof. intros H. apply path_app_r in H. apply path_inv in H. tauto. Qed.

Lemma in_removelast {A} (l : list A) x : In x (removelast l) -> In x l.
Proof.
  induction l as [|a l IH]; cbn; auto. destruct l; [intros []|].
  intros [->|H]; auto.
Qed.

Lemma nodup_last_not_in_removelast (l : list id) d :
  NoDup l -> l <> [] -> ~ In (last l d) (removelast l).
Proof.
  intros Hnd Hne. destruct (list_snoc_cases l) as [->|(l' & x & ->)]; [congruence|].
  rewrite last_snoc, removelast_snoc. apply NoDup_snoc_iff in Hnd. tauto.
Qed.

Lemma last_in {A} (l : list A) d : l <> [] -> In (last l d) l.
Proof.
  induction l as [|a l IH]; [congruence|]. intros _. destruct l; [left; auto|].
  right. apply IH. discriminate.
Qed.

Lemma last_indep {A} (l : list A) d d' : l <> [] -> last l d = last l d'.
Proof.
  induction l as [|a l IH]; [congruence|]. intros _. destruct l; auto. apply IH. discriminate.
Qed.

Lemma last_cons {A} (a : A) l d : l <> [] -> last (a :: l) d = last l d.
Proof. destruct l; [congruence|auto]. Qed.

(* ------------------------------------------------------------ insertion *)
(* the four stores of the non-empty branch of push_head / push_tail: insert t
   between the tail y and the head x *)
Lemma insert_links h x l' t :
  let l := x :: l' in
  let y := last l x in
  NoDup l -> ~ In t l -> path h (cyc l) ->
  let h' := set_next (set_prev (set_prev (set_next h y (Some t)) x (Some t)) t (Some y)) t (Some x) in
  path h' l /\ path h' [y; t; x].
Proof.
  intros l y Hnd Hnt Hp h'.
  assert (Hyl : In y l) by (apply last_in; discriminate).
  assert (Hty : t <> y) by (intros ->; auto).
  assert (Htx : t <> x) by (intros ->; apply Hnt; left; auto).
  split.
  - unfold cyc, l in Hp. fold l in Hp. apply path_app_l in Hp.
    revert Hp. apply path_frame.
    + intros z Hz. unfold h'. upds.
      assert (z <> t) by (intros ->; apply Hnt, in_removelast; auto).
      assert (z <> y) by (intros ->; revert Hz; apply nodup_last_not_in_removelast; auto; discriminate).
      upds. reflexivity.
    + intros z Hz. unfold h'. cbn in Hz.
      assert (z <> t) by (intros ->; apply Hnt; right; auto).
      assert (z <> x) by (intros ->; inversion Hnd; auto).
      upds. reflexivity.
  - unfold h'. apply path_intro; [| |apply path_intro; [| |exact I]]; upds; reflexivity.
Qed.

Lemma split_last (l : list id) d : l <> [] -> l = removelast l ++ [last l d].
Proof. intros H. apply app_removelast_last. exact H. Qed.

Lemma push_empty_rep q h t :
  Rep [] q h ->
  Rep [t] (mkTq 1 (Some t) (Some t) false)
      (set_inpool (set_next (set_prev h t (Some t)) t (Some t)) t true).
Proof.
  intros [Rn Re Rh Rt Rnd Rp Ri Rc]. constructor; cbn [q_num q_head q_tail q_is_empty length hd_ptr last_ptr last]; auto.
  - constructor; [intros []|constructor].
  - cbn [cyc app]. apply path_intro; [| |exact I]; upds; reflexivity.
  - intros u. destruct (Nat.eq_dec u t) as [->|Hne].
    + upds. cbn. tauto.
    + upds. rewrite Ri. cbn. intuition congruence.
  - intros u Hu. assert (u <> t) by (intros ->; apply Hu; left; reflexivity). upds. apply Rc. intros [].
Qed.

(* both cyclic readings of the structure after the insertion *)
Lemma push_nonempty_paths h x l' y t :
  y = last (x :: l') x ->
  NoDup (x :: l') -> ~ In t (x :: l') -> path h (cyc (x :: l')) ->
  let h' := set_inpool (set_next (set_prev (set_prev (set_next h y (Some t)) x (Some t)) t (Some y)) t (Some x)) t true in
  path h' (cyc ((x :: l') ++ [t])) /\ path h' (cyc (t :: x :: l')).
Proof.
  intros Hy Hnd Hnt Hp h'. subst y.
  destruct (insert_links h x l' t Hnd Hnt Hp) as (P1 & P2).
  set (y := last (x :: l') x) in *.
  set (l := x :: l') in *.
  assert (Q1 : path h' l) by (revert P1; apply path_frame; intros; reflexivity).
  assert (Q2 : path h' [y; t; x]) by (revert P2; apply path_frame; intros; reflexivity).
  assert (El : l = removelast l ++ [y]) by (apply split_last; discriminate).
  split.
  - change (cyc (l ++ [t])) with ((l ++ [t]) ++ [x]). rewrite <- app_assoc. cbn [app].
    rewrite El, <- app_assoc. cbn [app]. apply path_join; [rewrite <- El; exact Q1 | exact Q2].
  - change (cyc (t :: l)) with ([t] ++ l ++ [t]).
    apply path_inv in Q2. destruct Q2 as (N1 & N2 & Q3). apply path_inv in Q3. destruct Q3 as (N3 & N4 & _).
    assert (Q4 : path h' (l ++ [t])).
    { rewrite El, <- app_assoc. cbn [app]. apply path_join; [rewrite <- El; exact Q1|].
      apply path_intro; auto. exact I. }
    unfold l at 1. cbn [app]. apply path_intro; auto.
Qed.

Theorem push_tail_rep l q h t :
  Rep l q h -> ~ In t l ->
  exists q' h', tq_push_tail q h t = Some (q', h') /\ Rep (l ++ [t]) q' h'.
Proof.
  intros R Hnt. pose proof R as R0. destruct R as [Rn Re Rh Rt Rnd Rp Ri Rc].
  unfold tq_push_tail. destruct l as [|x l'].
  - cbn in Rn. rewrite Rn. cbn [Nat.eqb bind]. eexists _, _. split; [reflexivity|].
    apply (push_empty_rep q). exact R0.
  - cbn [length] in Rn. cbn [hd_ptr] in Rh. cbn [last_ptr] in Rt.
    rewrite Rn. cbn [Nat.eqb]. rewrite Rh, Rt. cbn [store_next store_prev bind].
    eexists _, _. split; [reflexivity|].
    set (y := last (x :: l') x) in *.
    destruct (push_nonempty_paths h x l' y t eq_refl Rnd Hnt Rp) as (P1 & _).
    assert (Hyl : In y (x :: l')) by (apply last_in; discriminate).
    constructor; cbn [q_num q_head q_tail q_is_empty].
    + rewrite app_length. cbn. lia.
    + exact Re.
    + reflexivity.
    + change ((x :: l') ++ [t]) with (x :: (l' ++ [t])). cbn [last_ptr]. f_equal.
      change (x :: (l' ++ [t])) with ((x :: l') ++ [t]). now rewrite last_snoc.
    + apply NoDup_snoc; auto.
    + exact P1.
    + intros u. rewrite in_app_iff. destruct (Nat.eq_dec u t) as [->|Hne].
      * upds. cbn. tauto.
      * upds. rewrite Ri. cbn. intuition congruence.
    + intros u Hu. rewrite in_app_iff in Hu.
      assert (u <> t) by (intros ->; apply Hu; right; left; reflexivity).
      assert (u <> x) by (intros ->; apply Hu; left; left; reflexivity).
      assert (u <> y) by (intros ->; apply Hu; left; exact Hyl).
      upds. apply Rc. tauto.
Qed.

Theorem push_head_rep l q h t :
  Rep l q h -> ~ In t l ->
  exists q' h', tq_push_head q h t = Some (q', h') /\ Rep (t :: l) q' h'.
Proof.
  intros R Hnt. pose proof R as R0. destruct R as [Rn Re Rh Rt Rnd Rp Ri Rc].
  unfold tq_push_head. destruct l as [|x l'].
  - cbn in Rn. rewrite Rn. cbn [Nat.eqb bind]. eexists _, _. split; [reflexivity|].
    apply (push_empty_rep q). exact R0.
  - cbn [length] in Rn. cbn [hd_ptr] in Rh. cbn [last_ptr] in Rt.
    rewrite Rn. cbn [Nat.eqb]. rewrite Rh, Rt. cbn [store_next store_prev bind].
    eexists _, _. split; [reflexivity|].
    set (y := last (x :: l') x) in *.
    destruct (push_nonempty_paths h x l' y t eq_refl Rnd Hnt Rp) as (_ & P2).
    assert (Hyl : In y (x :: l')) by (apply last_in; discriminate).
    constructor; cbn [q_num q_head q_tail q_is_empty].
    + cbn. lia.
    + exact Re.
    + reflexivity.
    + cbn [last_ptr]. f_equal. rewrite last_cons by discriminate. apply last_indep. discriminate.
    + constructor; auto.
    + exact P2.
    + intros u. destruct (Nat.eq_dec u t) as [->|Hne].
      * upds. cbn. tauto.
      * upds. rewrite Ri. cbn. intuition congruence.
    + intros u Hu.
      assert (u <> t) by (intros ->; apply Hu; left; reflexivity).
      assert (u <> x) by (intros ->; apply Hu; right; left; reflexivity).
      assert (u <> y) by (intros ->; apply Hu; right; exact Hyl).
      upds. apply Rc. intros Hin. apply Hu. right. exact Hin.
Qed.

(* ------------------------------------------------------------ removal *)
(* the re-reads in the second unlink statement see the same values *)
Lemma unlink_eq h t p n :
  h_prev h t = Some p -> h_next h t = Some n ->
  unlink h t = Some (set_prev (set_next h p (Some n)) n (Some p)).
Proof.
  intros Hp Hn. unfold unlink. rewrite Hp, Hn. cbn [store_next bind].
  assert (E1 : h_next (set_next h p (Some n)) t = Some n).
  { destruct (Nat.eq_dec t p) as [->|Hne]; upds; auto. }
  assert (E2 : h_prev (set_next h p (Some n)) t = Some p) by (upds; auto).
  rewrite E1, E2. reflexivity.
Qed.

(* unlinking a node whose neighbours are the two ends of the remaining chain m *)
Lemma unlink_end_path h h2 x m' y t :
  y = last (x :: m') x ->
  NoDup (x :: m') -> ~ In t (x :: m') -> path h (x :: m') ->
  (forall z, z <> t -> h_next h2 z = upd (h_next h) y (Some x) z) ->
  (forall z, z <> t -> h_prev h2 z = upd (h_prev h) x (Some y) z) ->
  path h2 (cyc (x :: m')).
Proof.
  intros Hy Hnd Hnt Hp Hn2 Hp2. set (m := x :: m') in *.
  assert (Hym : In y m) by (subst y; apply last_in; discriminate).
  assert (El : m = removelast m ++ [y]) by (subst y; apply split_last; discriminate).
  change (cyc m) with (m ++ [x]). rewrite El, <- app_assoc. cbn [app].
  apply path_join.
  - rewrite <- El. revert Hp. apply path_frame.
    + intros z Hz. assert (z <> t) by (intros ->; apply Hnt, in_removelast; auto).
      assert (z <> y) by (intros ->; subst y; revert Hz; apply nodup_last_not_in_removelast; auto; discriminate).
      rewrite Hn2 by auto. now rewrite upd_ne.
    + intros z Hz. cbn [tl m] in Hz. assert (z <> t) by (intros ->; apply Hnt; right; auto).
      assert (z <> x) by (intros ->; inversion Hnd; auto).
      rewrite Hp2 by auto. now rewrite upd_ne.
  - assert (y <> t) by (intros ->; auto). assert (x <> t) by (intros ->; apply Hnt; left; auto).
    apply path_intro; [| |exact I].
    + rewrite Hn2 by auto. apply upd_eq.
    + rewrite Hp2 by auto. apply upd_eq.
Qed.

(* unlinking a node in the middle: l = (l1 ++ [p]) ++ t :: (n :: l2) *)
Lemma unlink_mid_path h h2 l1 p t n l2 :
  let l := (l1 ++ [p]) ++ t :: n :: l2 in
  NoDup l -> path h (cyc l) ->
  (forall z, z <> t -> h_next h2 z = upd (h_next h) p (Some n) z) ->
  (forall z, z <> t -> h_prev h2 z = upd (h_prev h) n (Some p) z) ->
  path h2 (cyc ((l1 ++ [p]) ++ n :: l2)).
Proof.
  intros l Hnd Hp Hn2 Hp2.
  assert (Hx : exists x r, l1 ++ [p] = x :: r) by (destruct l1; cbn; eauto).
  destruct Hx as (x & r & Ex).
  assert (C1 : cyc l = (l1 ++ [p]) ++ t :: (n :: l2) ++ [x]).
  { unfold l. rewrite Ex. cbn [app cyc]. rewrite <- app_assoc. reflexivity. }
  assert (C2 : cyc ((l1 ++ [p]) ++ n :: l2) = (l1 ++ [p]) ++ (n :: l2) ++ [x]).
  { rewrite Ex. cbn [app cyc]. rewrite <- app_assoc. reflexivity. }
  rewrite C2. rewrite C1 in Hp.
  pose proof (path_app_l _ _ _ Hp) as P1.
  pose proof (path_app_r _ _ _ Hp) as P2. apply path_inv in P2. destruct P2 as (_ & _ & P2).
  unfold l in Hnd. apply NoDup_app_iff in Hnd. destruct Hnd as (Nd1 & Nd2 & Dj).
  apply NoDup_cons_iff in Nd2. destruct Nd2 as (Nt & Nd2).
  apply NoDup_cons_iff in Nd2. destruct Nd2 as (Nn & Nd2).
  assert (Hpin : In p (l1 ++ [p])) by (apply in_app_iff; right; left; auto).
  assert (Hxin : In x (l1 ++ [p])) by (rewrite Ex; left; auto).
  assert (Htp : p <> t) by (intros ->; apply (Dj t); auto; left; auto).
  assert (Hnp : p <> n) by (intros ->; apply (Dj n); auto; right; left; auto).
  assert (Hnt : n <> t) by (intros ->; apply Nt; left; auto).
  rewrite <- app_assoc. cbn [app]. apply path_join.
  - revert P1. apply path_frame.
    + intros z Hz. rewrite removelast_snoc in Hz.
      assert (In z (l1 ++ [p])) by (apply in_app_iff; auto).
      assert (z <> t) by (intros ->; apply (Dj t); auto; left; auto).
      assert (z <> p) by (intros ->; apply NoDup_snoc_iff in Nd1; tauto).
      rewrite Hn2 by auto. now rewrite upd_ne.
    + intros z Hz. assert (In z (l1 ++ [p])) by (destruct (l1 ++ [p]); [destruct Hz|right; exact Hz]).
      assert (z <> t) by (intros ->; apply (Dj t); auto; left; auto).
      assert (z <> n) by (intros ->; apply (Dj n); auto; right; left; auto).
      rewrite Hp2 by auto. now rewrite upd_ne.
  - apply path_intro.
    + rewrite Hn2 by auto. apply upd_eq.
    + rewrite Hp2 by auto. apply upd_eq.
    + change (path h2 ((n :: l2) ++ [x])). revert P2. apply path_frame.
      * intros z Hz. rewrite removelast_snoc in Hz.
        assert (z <> t) by (intros ->; apply Nt; exact Hz).
        assert (z <> p) by (intros ->; apply (Dj p); auto; right; exact Hz).
        rewrite Hn2 by auto. now rewrite upd_ne.
      * intros z Hz. cbn [app tl] in Hz. apply in_app_iff in Hz.
        assert (z <> n).
        { intros ->. destruct Hz as [Hz|[Hz|[]]]; [auto|]. subst x. apply (Dj n); auto. right; left; auto. }
        assert (z <> t).
        { intros ->. destruct Hz as [Hz|[Hz|[]]]; [apply Nt; right; auto|]. subst x. apply (Dj t); auto. left; auto. }
        rewrite Hp2 by auto. now rewrite upd_ne.
Qed.

Lemma dq_del_split l1 t l2 : ~ In t l1 -> dq_del (l1 ++ t :: l2) t = l1 ++ l2.
Proof.
  induction l1 as [|a l1 IH]; intros H; cbn.
  - now rewrite Nat.eqb_refl.
  - destruct (Nat.eqb_spec a t) as [->|Hne]; [exfalso; apply H; left; auto|].
    rewrite IH; auto. intros Hin. apply H. right. auto.
Qed.

Lemma memb_in u l : memb u l = true <-> In u l.
Proof.
  unfold memb. rewrite existsb_exists. split.
  - intros (x & Hx & E). apply Nat.eqb_eq in E. subst. auto.
  - intros H. exists u. split; auto. apply Nat.eqb_refl.
Qed.

(* Rep of what is left after taking t out of l, given the new chain's links *)
Lemma rep_after_unlink l q h t m q' h2 :
  Rep l q h -> In t l -> NoDup m ->
  (forall u, In u m <-> In u l /\ u <> t) ->
  q_num q' = length m ->
  q_is_empty q' = match m with [] => true | _ => false end ->
  q_head q' = hd_ptr m -> q_tail q' = last_ptr m ->
  path h2 (cyc m) ->
  (forall z, z <> t -> h_inpool h2 z = h_inpool h z) ->
  h_inpool h2 t = false -> h_prev h2 t = None -> h_next h2 t = None ->
  (forall z, ~ In z l -> h_prev h2 z = h_prev h z /\ h_next h2 z = h_next h z) ->
  Rep m q' h2.
Proof.
  intros [Rn Re Rh Rt Rnd Rp Ri Rc] Ht Nm Hm En Ee Eh Et P Hi Hit Hpt Hnt Hout.
  constructor; auto.
  - intros u. rewrite Hm. destruct (Nat.eq_dec u t) as [->|Hne].
    + rewrite Hit. split; [discriminate|tauto].
    + rewrite Hi by auto. rewrite Ri. tauto.
  - intros u Hu. destruct (Nat.eq_dec u t) as [->|Hne]; [auto|].
    assert (~ In u l) by (intros Hin; apply Hu, Hm; auto).
    destruct (Hout u H) as (-> & ->). apply Rc; auto.
Qed.

Lemma rep_single_out q h t h2 :
  Rep [t] q h ->
  (forall z, z <> t -> h_inpool h2 z = h_inpool h z /\ h_prev h2 z = h_prev h z /\ h_next h2 z = h_next h z) ->
  h_inpool h2 t = false -> h_prev h2 t = None -> h_next h2 t = None ->
  Rep [] (mkTq 0 None None true) h2.
Proof.
  intros R Ho Hi Hp Hn.
  apply (rep_after_unlink [t] q h t [] _ h2 R); cbn; auto.
  - constructor.
  - intros u. split; [intros []|]. intros ([->|[]] & H). congruence.
  - exact I.
  - intros z Hz. apply Ho; auto.
  - intros z Hz. assert (z <> t) by (intros ->; apply Hz; left; auto). destruct (Ho z H) as (_ & A & B). auto.
Qed.

(* the state change common to pop_head / pop_tail / remove once the queue has
   >= 2 elements and t is the first element *)
Lemma rep_unlink_first t x m' q h h2 q' :
  Rep (t :: x :: m') q h ->
  q_num q' = S (length m') -> q_is_empty q' = false ->
  q_head q' = Some x -> q_tail q' = q_tail q ->
  (forall z, z <> t -> h_next h2 z = upd (h_next h) (last (x :: m') x) (Some x) z) ->
  (forall z, z <> t -> h_prev h2 z = upd (h_prev h) x (Some (last (x :: m') x)) z) ->
  (forall z, z <> t -> h_inpool h2 z = h_inpool h z) ->
  h_inpool h2 t = false -> h_prev h2 t = None -> h_next h2 t = None ->
  Rep (x :: m') q' h2.
Proof.
  intros R En Ee Eh Et Hn2 Hp2 Hi Hit Hpt Hnt.
  pose proof R as [Rn Re Rh Rt Rnd Rp Ri Rc].
  apply NoDup_cons_iff in Rnd. destruct Rnd as (Ntm & Ndm).
  set (y := last (x :: m') x) in *.
  assert (Hym : In y (x :: m')) by (apply last_in; discriminate).
  apply (rep_after_unlink (t :: x :: m') q h t (x :: m') q' h2 R); auto.
  - left; auto.
  - intros u. cbn [In]. split.
    + intros H. split; [right; exact H|]. intros ->. apply Ntm. exact H.
    + intros ([->|H] & Hne); [congruence|exact H].
  - rewrite Et, Rt. cbn [last_ptr]. f_equal. rewrite last_cons by discriminate. apply last_indep. discriminate.
  - apply (unlink_end_path h h2 x m' y t); auto.
    change (cyc (t :: x :: m')) with ([t] ++ (x :: m') ++ [t]) in Rp.
    apply path_app_r, path_app_l in Rp. exact Rp.
  - intros z Hz.
    assert (z <> t) by (intros ->; apply Hz; left; auto).
    assert (z <> x) by (intros ->; apply Hz; right; left; auto).
    assert (z <> y) by (intros ->; apply Hz; right; exact Hym).
    rewrite Hn2, Hp2 by auto. rewrite !upd_ne by auto. auto.
Qed.

(* ... and when t is the last element *)
Lemma rep_unlink_last t x m' q h h2 q' :
  Rep ((x :: m') ++ [t]) q h ->
  q_num q' = S (length m') -> q_is_empty q' = false ->
  q_head q' = q_head q -> q_tail q' = Some (last (x :: m') x) ->
  (forall z, z <> t -> h_next h2 z = upd (h_next h) (last (x :: m') x) (Some x) z) ->
  (forall z, z <> t -> h_prev h2 z = upd (h_prev h) x (Some (last (x :: m') x)) z) ->
  (forall z, z <> t -> h_inpool h2 z = h_inpool h z) ->
  h_inpool h2 t = false -> h_prev h2 t = None -> h_next h2 t = None ->
  Rep (x :: m') q' h2.
Proof.
  intros R En Ee Eh Et Hn2 Hp2 Hi Hit Hpt Hnt.
  pose proof R as [Rn Re Rh Rt Rnd Rp Ri Rc].
  apply NoDup_snoc_iff in Rnd. destruct Rnd as (Ndm & Ntm).
  set (y := last (x :: m') x) in *.
  assert (Hym : In y (x :: m')) by (apply last_in; discriminate).
  apply (rep_after_unlink ((x :: m') ++ [t]) q h t (x :: m') q' h2 R); auto.
  - apply in_app_iff. right. left. auto.
  - intros u. rewrite in_app_iff. cbn [In]. split.
    + intros H. split; [left; exact H|]. intros ->. apply Ntm. exact H.
    + intros ([H|[->|[]]] & Hne); [exact H|congruence].
  - rewrite Eh, Rh. reflexivity.
  - apply (unlink_end_path h h2 x m' y t); auto.
    change (cyc ((x :: m') ++ [t])) with (((x :: m') ++ [t]) ++ [x]) in Rp.
    apply path_app_l, path_app_l in Rp. exact Rp.
  - intros z Hz. rewrite in_app_iff in Hz.
    assert (z <> t) by (intros ->; apply Hz; right; left; auto).
    assert (z <> x) by (intros ->; apply Hz; left; left; auto).
    assert (z <> y) by (intros ->; apply Hz; left; exact Hym).
    rewrite Hn2, Hp2 by auto. rewrite !upd_ne by auto. auto.
Qed.

(* links of the first / last element, read off the invariant *)
Lemma rep_first_links t x m' q h :
  Rep (t :: x :: m') q h -> h_prev h t = Some (last (x :: m') x) /\ h_next h t = Some x.
Proof.
  intros [_ _ _ _ _ Rp _ _]. split.
  - change (cyc (t :: x :: m')) with ((t :: x :: m') ++ [t]) in Rp.
    rewrite (split_last (t :: x :: m') t) in Rp by discriminate.
    rewrite <- app_assoc in Rp. cbn [app] in Rp. apply path_last_pair in Rp.
    destruct Rp as (_ & Rp). rewrite Rp. f_equal. rewrite last_cons by discriminate. apply last_indep. discriminate.
  - cbn [cyc app] in Rp. apply path_inv in Rp. tauto.
Qed.

Lemma rep_last_links t x m' q h :
  Rep ((x :: m') ++ [t]) q h -> h_prev h t = Some (last (x :: m') x) /\ h_next h t = Some x.
Proof.
  intros [_ _ _ _ _ Rp _ _].
  change (cyc ((x :: m') ++ [t])) with (((x :: m') ++ [t]) ++ [x]) in Rp.
  rewrite (split_last (x :: m') x) in Rp at 1 by discriminate.
  rewrite <- !app_assoc in Rp. cbn [app] in Rp.
  pose proof (path_app_r _ _ _ Rp) as P. apply path_inv in P. destruct P as (_ & P1 & P2).
  apply path_inv in P2. tauto.
Qed.

(* ------------------------------------------------------------ pop / remove *)
Theorem pop_head_rep l q h :
  Rep l q h ->
  exists q' h', tq_pop_head q h = Some (q', h', hd_ptr l) /\ Rep (tl l) q' h'.
Proof.
  intros R. pose proof R as [Rn Re Rh Rt Rnd Rp Ri Rc]. unfold tq_pop_head.
  destruct l as [|t [|x m']].
  - cbn [length] in Rn. rewrite Rn. cbn. exists q, h. split; [reflexivity|exact R].
  - cbn [length] in Rn. cbn [hd_ptr] in Rh. rewrite Rn, Rh. cbn [Nat.ltb Nat.leb Nat.eqb bind hd_ptr tl].
    eexists _, _. split; [reflexivity|].
    apply (rep_single_out q h t); auto.
    + intros z Hz. upds. auto.
    + upds. reflexivity.
    + upds. reflexivity.
    + upds. reflexivity.
  - destruct (rep_first_links _ _ _ _ _ R) as (Hp & Hn).
    cbn [length] in Rn. cbn [hd_ptr] in Rh. rewrite Rn, Rh.
    cbn [Nat.ltb Nat.leb Nat.eqb bind hd_ptr tl]. rewrite (unlink_eq h t _ _ Hp Hn). cbn [bind pred].
    eexists _, _. split; [reflexivity|].
    set (y := last (x :: m') x) in *.
    assert (Hty : t <> y).
    { intros ->. apply NoDup_cons_iff in Rnd. destruct Rnd as (N & _). apply N. apply last_in. discriminate. }
    apply (rep_unlink_first t x m' q h); cbn [q_num q_head q_tail q_is_empty]; auto.
    + upds. exact Hn.
    + intros z Hz. upds. reflexivity.
    + intros z Hz. upds. reflexivity.
    + intros z Hz. upds. reflexivity.
    + upds. reflexivity.
    + upds. reflexivity.
    + upds. reflexivity.
Qed.

Lemma snoc_view (l : list id) : l = [] \/ (exists t, l = [t]) \/ exists x m' t, l = (x :: m') ++ [t].
Proof.
  destruct (list_snoc_cases l) as [->|(l' & t & ->)]; auto. right.
  destruct l' as [|x m']; [left; exists t; auto|right; exists x, m', t; auto].
Qed.

Theorem pop_tail_rep l q h :
  Rep l q h ->
  exists q' h', tq_pop_tail q h = Some (q', h', last_ptr l) /\ Rep (removelast l) q' h'.
Proof.
  intros R. pose proof R as [Rn Re Rh Rt Rnd Rp Ri Rc]. unfold tq_pop_tail.
  destruct (snoc_view l) as [->|[(t & ->)|(x & m' & t & ->)]].
  - cbn [length] in Rn. rewrite Rn. cbn. exists q, h. split; [reflexivity|exact R].
  - cbn [length] in Rn. cbn [last_ptr last] in Rt. rewrite Rn, Rt.
    cbn [Nat.ltb Nat.leb Nat.eqb bind last_ptr last removelast].
    eexists _, _. split; [reflexivity|].
    apply (rep_single_out q h t); auto.
    + intros z Hz. upds. auto.
    + upds. reflexivity.
    + upds. reflexivity.
    + upds. reflexivity.
  - destruct (rep_last_links _ _ _ _ _ R) as (Hp & Hn).
    assert (El : last_ptr ((x :: m') ++ [t]) = Some t).
    { change ((x :: m') ++ [t]) with (x :: (m' ++ [t])). cbn [last_ptr]. f_equal.
      change (x :: (m' ++ [t])) with ((x :: m') ++ [t]). apply last_snoc. }
    rewrite El in *. rewrite removelast_snoc.
    rewrite app_length in Rn. cbn [length] in Rn. rewrite Nat.add_1_r in Rn. rewrite Rn, Rt.
    cbn [Nat.ltb Nat.leb Nat.eqb bind]. rewrite (unlink_eq h t _ _ Hp Hn). cbn [bind pred].
    eexists _, _. split; [reflexivity|].
    set (y := last (x :: m') x) in *.
    apply NoDup_snoc_iff in Rnd. destruct Rnd as (Nd & Nt).
    assert (Htx : t <> x) by (intros ->; apply Nt; left; auto).
    apply (rep_unlink_last t x m' q h); cbn [q_num q_head q_tail q_is_empty]; auto.
    + upds. exact Hp.
    + intros z Hz. upds. reflexivity.
    + intros z Hz. upds. reflexivity.
    + intros z Hz. upds. reflexivity.
    + upds. reflexivity.
    + upds. reflexivity.
    + upds. reflexivity.
Qed.

Lemma last_app_ne {A} (l m : list A) d : m <> [] -> last (l ++ m) d = last m d.
Proof.
  intros Hm. induction l as [|a l IH]; auto.
  cbn [app]. rewrite last_cons; auto. destruct l; cbn; destruct m; congruence.
Qed.

Lemma last_ptr_app l a m : last_ptr (l ++ a :: m) = Some (last (a :: m) a).
Proof.
  destruct l as [|x l]; cbn [app last_ptr]; f_equal.
  rewrite app_comm_cons, last_app_ne by discriminate. apply last_indep. discriminate.
Qed.

Lemma cyc_app x r m : cyc ((x :: r) ++ m) = (x :: r) ++ m ++ [x].
Proof. cbn [app cyc]. rewrite <- app_assoc. reflexivity. Qed.

Lemma rep_mid_links l1 p t n l2 q h :
  Rep ((l1 ++ [p]) ++ t :: n :: l2) q h -> h_prev h t = Some p /\ h_next h t = Some n.
Proof.
  intros [_ _ _ _ _ Rp _ _].
  assert (Hx : exists x r, l1 ++ [p] = x :: r) by (destruct l1; cbn; eauto).
  destruct Hx as (x & r & Ex).
  assert (C1 : cyc ((l1 ++ [p]) ++ t :: n :: l2) = l1 ++ [p; t] ++ (n :: l2) ++ [x]).
  { rewrite Ex, cyc_app, <- Ex, <- !app_assoc. reflexivity. }
  rewrite C1 in Rp. apply path_app_r in Rp. cbn [app] in Rp.
  apply path_inv in Rp. destruct Rp as (_ & P1 & P2). apply path_inv in P2. tauto.
Qed.

Lemma ptr_eqb_some a b : ptr_eqb (Some a) (Some b) = Nat.eqb a b.
Proof. reflexivity. Qed.

(* remove of a unit that is in the queue *)
Theorem remove_in_rep l q h t :
  Rep l q h -> In t l ->
  exists q' h', tq_remove q h t = Some (q', h', true) /\ Rep (dq_del l t) q' h'.
Proof.
  intros R Hin. pose proof R as [Rn Re Rh Rt Rnd Rp Ri Rc]. unfold tq_remove.
  assert (Hip : h_inpool h t = true) by (apply Ri; exact Hin).
  rewrite Hip. cbn [negb].
  destruct (in_split _ _ Hin) as (l1 & l2 & ->).
  assert (Hn1 : ~ In t l1).
  { apply NoDup_app_iff in Rnd. destruct Rnd as (_ & _ & Dj). intros H. apply (Dj t H). left; auto. }
  rewrite dq_del_split by exact Hn1.
  destruct l1 as [|a l1'].
  - (* t is the head *)
    cbn [app] in *. destruct l2 as [|x m'].
    + cbn [length] in Rn. rewrite Rn. cbn [Nat.eqb bind].
      eexists _, _. split; [reflexivity|].
      apply (rep_single_out q h t); auto.
      * intros z Hz. upds. auto.
      * upds. reflexivity.
      * upds. reflexivity.
      * upds. reflexivity.
    + destruct (rep_first_links _ _ _ _ _ R) as (Hp & Hn).
      cbn [length] in Rn. cbn [hd_ptr] in Rh. rewrite Rn, Rh. cbn [Nat.eqb].
      rewrite (unlink_eq h t _ _ Hp Hn). cbn [bind pred]. rewrite ptr_eqb_some, Nat.eqb_refl.
      eexists _, _. split; [reflexivity|].
      set (y := last (x :: m') x) in *.
      assert (Hty : t <> y).
      { intros ->. apply NoDup_cons_iff in Rnd. destruct Rnd as (N & _). apply N. apply last_in. discriminate. }
      apply (rep_unlink_first t x m' q h); cbn [q_num q_head q_tail q_is_empty]; auto.
      * upds. exact Hn.
      * intros z Hz. upds. reflexivity.
      * intros z Hz. upds. reflexivity.
      * intros z Hz. upds. reflexivity.
      * upds. reflexivity.
      * upds. reflexivity.
      * upds. reflexivity.
  - destruct l2 as [|n l2'].
    + (* t is the tail, at least one element before it *)
      rewrite app_nil_r.
      destruct (rep_last_links _ _ _ _ _ R) as (Hp & Hn).
      assert (El : last_ptr ((a :: l1') ++ [t]) = Some t).
      { change ((a :: l1') ++ [t]) with (a :: (l1' ++ [t])). cbn [last_ptr]. f_equal.
        change (a :: (l1' ++ [t])) with ((a :: l1') ++ [t]). apply last_snoc. }
      rewrite El in Rt. cbn [app hd_ptr] in Rh.
      rewrite app_length in Rn. cbn [length] in Rn. rewrite Nat.add_1_r in Rn. rewrite Rn. cbn [Nat.eqb].
      rewrite (unlink_eq h t _ _ Hp Hn). cbn [bind pred]. rewrite Rh, Rt, !ptr_eqb_some, Nat.eqb_refl.
      apply NoDup_snoc_iff in Rnd. destruct Rnd as (Nd & Nt).
      assert (Hta : t <> a) by (intros ->; apply Nt; left; auto).
      apply Nat.eqb_neq in Hta. rewrite Hta. apply Nat.eqb_neq in Hta.
      eexists _, _. split; [reflexivity|].
      apply (rep_unlink_last t a l1' q h); cbn [q_num q_head q_tail q_is_empty]; auto.
      * upds. exact Hp.
      * intros z Hz. upds. reflexivity.
      * intros z Hz. upds. reflexivity.
      * intros z Hz. upds. reflexivity.
      * upds. reflexivity.
      * upds. reflexivity.
      * upds. reflexivity.
    + (* t strictly inside *)
      destruct (list_snoc_cases (a :: l1')) as [E|(l1 & p & E)]; [discriminate|].
      rewrite E in *. clear E a l1'.
      destruct (rep_mid_links _ _ _ _ _ _ _ R) as (Hp & Hn).
      assert (Hx : exists x r, l1 ++ [p] = x :: r) by (destruct l1; cbn; eauto).
      destruct Hx as (x & r & Ex).
      assert (Hlen : length ((l1 ++ [p]) ++ t :: n :: l2') = S (length ((l1 ++ [p]) ++ n :: l2')))
        by (rewrite !app_length; cbn [length]; lia).
      assert (Hlen2 : length ((l1 ++ [p]) ++ n :: l2') = S (S (length (l1 ++ l2'))))
        by (rewrite !app_length; cbn [length]; lia).
      rewrite Hlen, Hlen2 in Rn. rewrite Rn. cbn [Nat.eqb].
      rewrite (unlink_eq h t _ _ Hp Hn). cbn [bind pred].
      assert (Hh : q_head q = Some x) by (rewrite Rh, Ex; reflexivity).
      assert (Nd := Rnd). apply NoDup_app_iff in Nd. destruct Nd as (Nd1 & Nd2 & Dj).
      apply NoDup_cons_iff in Nd2. destruct Nd2 as (Nt2 & Nd2).
      assert (Htx : t <> x) by (intros ->; apply Hn1; rewrite Ex; left; auto).
      assert (Hlast : last_ptr ((l1 ++ [p]) ++ t :: n :: l2') = Some (last (n :: l2') n)).
      { replace ((l1 ++ [p]) ++ t :: n :: l2') with (((l1 ++ [p]) ++ [t]) ++ n :: l2')
          by (rewrite <- !app_assoc; reflexivity).
        apply last_ptr_app. }
      assert (Hlast' : last_ptr ((l1 ++ [p]) ++ n :: l2') = Some (last (n :: l2') n)).
      { apply last_ptr_app. }
      assert (Htl : t <> last (n :: l2') n).
      { intros E. apply Nt2. rewrite E. apply last_in. discriminate. }
      rewrite Hh, Rt, Hlast, !ptr_eqb_some.
      apply Nat.eqb_neq in Htx. rewrite Htx. apply Nat.eqb_neq in Htx.
      apply Nat.eqb_neq in Htl. rewrite Htl. apply Nat.eqb_neq in Htl.
      eexists _, _. split; [reflexivity|].
      assert (Hpt : p <> t) by (intros ->; apply Hn1, in_app_iff; right; left; auto).
      assert (Hnt : n <> t) by (intros ->; apply Nt2; left; auto).
      apply (rep_after_unlink _ q h t ((l1 ++ [p]) ++ n :: l2') _ _ R); cbn [q_num q_head q_tail q_is_empty]; auto.
      * apply NoDup_app_iff. split; [auto|split; [auto|]]. intros z Hz Hz'. apply (Dj z Hz). right. exact Hz'.
      * intros u. rewrite !in_app_iff. cbn [In]. split.
        -- intros [H|H]; (split; [tauto|]); intros ->.
           ++ apply Hn1. apply in_app_iff. exact H.
           ++ apply Nt2. exact H.
        -- intros ([H|[H|H]] & Hne); [left; exact H|congruence|right; exact H].
      * rewrite Re, Ex. reflexivity.
      * rewrite Ex. reflexivity.
      * apply (unlink_mid_path h _ l1 p t n l2'); auto.
        -- intros z Hz. upds. reflexivity.
        -- intros z Hz. upds. reflexivity.
      * intros z Hz. upds. reflexivity.
      * upds. reflexivity.
      * upds. reflexivity.
      * upds. reflexivity.
      * intros z Hz.
        assert (z <> t) by (intros ->; apply Hz, in_app_iff; right; left; auto).
        assert (z <> p) by (intros ->; apply Hz, in_app_iff; left; apply in_app_iff; right; left; auto).
        assert (z <> n) by (intros ->; apply Hz, in_app_iff; right; right; left; auto).
        upds. auto.
Qed.

(* remove of a unit that is not in the queue fails one of the two checks and
   writes nothing *)
Theorem remove_out_rep l q h t :
  Rep l q h -> ~ In t l -> tq_remove q h t = Some (q, h, false).
Proof.
  intros [Rn _ _ _ _ _ Ri _] Hn. unfold tq_remove.
  destruct (Nat.eqb (q_num q) 0); [reflexivity|].
  destruct (h_inpool h t) eqn:E; [|reflexivity]. exfalso. apply Hn, Ri, E.
Qed.

Theorem remove_rep l q h t :
  Rep l q h ->
  exists q' h', tq_remove q h t = Some (q', h', snd (dq_remove l t)) /\ Rep (fst (dq_remove l t)) q' h'.
Proof.
  intros R. unfold dq_remove. destruct (memb t l) eqn:E.
  - apply memb_in in E. cbn [fst snd]. apply remove_in_rep; auto.
  - assert (~ In t l) by (intros H; apply memb_in in H; congruence).
    exists q, h. cbn [fst snd]. split; [apply (remove_out_rep l); auto|exact R].
Qed.

(* ------------------------------------------------------------ abstraction *)
(* walking p_next from p_head for num_threads steps (thread_queue_print_all)
   yields exactly the represented list; walking p_prev from p_tail its reverse *)
Lemma walk_next_path h m z :
  path h (m ++ [z]) -> walk_next h (hd_ptr (m ++ [z])) (length m) = m.
Proof.
  induction m as [|a m IH]; intros P; [reflexivity|].
  cbn [app hd_ptr length walk_next]. f_equal.
  assert (E : h_next h a = hd_ptr (m ++ [z])).
  { cbn [app] in P. destruct (m ++ [z]) eqn:E'; [destruct m; discriminate|]. apply path_inv in P. cbn. tauto. }
  rewrite E. apply IH. apply (path_app_r h [a]). exact P.
Qed.

Lemma walk_prev_path h m z :
  path h (z :: m) -> walk_prev h (last_ptr (z :: m)) (length m) = rev m.
Proof.
  induction m as [|a m IH] using rev_ind; intros P; [reflexivity|].
  rewrite app_length, Nat.add_1_r, rev_unit. cbn [last_ptr].
  change (z :: m ++ [a]) with ((z :: m) ++ [a]) in *. rewrite last_snoc. cbn [walk_prev]. f_equal.
  assert (E : h_prev h a = last_ptr (z :: m)).
  { rewrite (split_last (z :: m) z) in P by discriminate. rewrite <- app_assoc in P. cbn [app] in P.
    apply path_last_pair in P. cbn [last_ptr]. tauto. }
  rewrite E. apply IH. apply (path_app_l _ _ [a]). exact P.
Qed.

Theorem rep_abs l q h : Rep l q h -> tq_abs q h = l.
Proof.
  intros [Rn _ Rh _ _ Rp _ _]. unfold tq_abs. rewrite Rn, Rh.
  destruct l as [|x l']; [reflexivity|].
  change (cyc (x :: l')) with ((x :: l') ++ [x]) in Rp.
  apply (walk_next_path h (x :: l') x) in Rp. exact Rp.
Qed.

Theorem rep_abs_rev l q h : Rep l q h -> tq_abs_rev q h = rev l.
Proof.
  intros [Rn _ _ Rt _ Rp _ _]. unfold tq_abs_rev. rewrite Rn, Rt.
  destruct l as [|x l']; [reflexivity|].
  change (cyc (x :: l')) with ((x :: l') ++ [x]) in Rp.
  set (y := last (x :: l') x).
  assert (P : path h (y :: x :: l')).
  { pose proof Rp as Q. rewrite (split_last (x :: l') x) in Q by discriminate.
    rewrite <- app_assoc in Q. cbn [app] in Q. apply path_last_pair in Q. fold y in Q.
    apply path_intro; try tauto. apply (path_app_l _ _ [x]). exact Rp. }
  pose proof (walk_prev_path h (x :: l') y P) as W.
  cbn [last_ptr] in W. rewrite last_cons in W by discriminate.
  rewrite (last_indep (x :: l') y x) in W by discriminate. exact W.
Qed.

Corollary rep_unique l l' q h : Rep l q h -> Rep l' q h -> l = l'.
Proof. intros R R'. rewrite <- (rep_abs _ _ _ R), <- (rep_abs _ _ _ R'). reflexivity. Qed.
