(* Model of src/include/abti_sync_lifo.h in the configuration of /repo
   (ABTD_ATOMIC_SUPPORT_TAGGED_PTR = 1: 128-bit CAS on {ptr, tag}).

   Elements are the addresses of ABTI_sync_lifo_element objects (Z, 0 = NULL);
   [nxt e] is the 64-bit word stored in e->p_next.  In the memory pool that
   word is a union with bucket_info.num_headers, so while an element is outside
   the LIFO its owner overwrites it with arbitrary values (action [AScribble]).

   One LTS step = one atomic access of the C code.  Note that the C code does
   NOT load {ptr, tag} atomically: ABTD_atomic_acquire_load_non_atomic_tagged_ptr
   loads ptr and then tag with two separate loads, hence two steps here.
   The CAS is a *weak* CAS: it may fail spuriously ([ASpurious]).

     ABTI_sync_lifo_push(e):  L1: p = top            (PushLP -> PushLT)
                                  t = tag            (PushLT -> PushW)
                                  e->p_next = p      (PushW  -> PushC)
                                  CAS((p,t) -> (e,t+1)) ? return : goto L1
     ABTI_sync_lifo_pop():    L1: p = top            (PopLP -> PopLT)
                                  t = tag; if (!p) return NULL   (PopLT -> PopR | Idle)
                                  n = p->p_next      (PopR -> PopC)
                                  CAS((p,t) -> (n,t+1)) ? return p : goto L1

   Ghost components (never read by the code part of a step): [owner] (which
   thread holds an element that is outside the LIFO), [abs] (the abstract stack)
   and [hist] (linearisation events, newest first).
   Only model code here: no proofs. *)
From Coq Require Import List ZArith Bool.
Import ListNotations.
Local Open Scope Z_scope.

Definition upd {B : Type} (f : Z -> B) (k : Z) (v : B) : Z -> B :=
  fun x => if x =? k then v else f x.

(* ---------- sequential behaviour (one thread alone, or the *_unsafe variants);
   used by DS/MemPool.v.  [seq_push top tag e] = (word stored in e->p_next,
   new top, new tag); [seq_pop top tag next_of_top] = None when empty, else
   (popped element, new top, new tag). *)
Definition seq_push (top tag e : Z) : Z * Z * Z := (top, e, tag + 1).
Definition seq_pop (top tag nxt_of_top : Z) : option (Z * Z * Z) :=
  if top =? 0 then None else Some (top, nxt_of_top, tag + 1).

(* ---------- concurrent LTS *)
Inductive pc :=
| Idle
| PushLP (e : Z)            (* about to load top                      *)
| PushLT (e p : Z)          (* ptr loaded; about to load tag           *)
| PushW  (e p t : Z)        (* about to store e->p_next = p            *)
| PushC  (e p t : Z)        (* about to CAS (p,t) -> (e,t+1)           *)
| PopLP
| PopLT (p : Z)
| PopR  (p t : Z)           (* p != NULL; about to read p->p_next      *)
| PopC  (p t n : Z).        (* about to CAS (p,t) -> (n,t+1)           *)

Inductive event :=
| EvPush (x e : Z)          (* successful CAS of a push by thread x    *)
| EvPop (x e : Z)           (* successful CAS of a pop                 *)
| EvPopEmpty (x : Z).       (* a pop loaded top == NULL (it will return NULL) *)

Inductive action :=
| ACallPush (e : Z)         (* thread starts ABTI_sync_lifo_push(e)    *)
| ACallPop                  (* thread starts ABTI_sync_lifo_pop()      *)
| AStep                     (* next atomic access of the running call  *)
| ASpurious                 (* the weak CAS fails although it could succeed *)
| AScribble (e v : Z)       (* owner writes the union word of an element it holds *)
| AGive (e y : Z).          (* owner hands an element it holds to thread y *)

Record state := mkS {
  top : Z; tag : Z;
  nxt : Z -> Z;
  pcs : Z -> pc;
  owner : Z -> option Z;    (* ghost *)
  abs : list Z;             (* ghost: stack contents, top first *)
  hist : list event         (* ghost: newest first *)
}.

Definition init (nxt0 : Z -> Z) (own0 : Z -> Z) : state :=
  mkS 0 0 nxt0 (fun _ => Idle) (fun e => Some (own0 e)) [] [].

Definition oeqb (o : option Z) (x : Z) : bool :=
  match o with Some y => y =? x | None => false end.

Section Step.
(* [tinc] is the amount added to the tag by a successful CAS: 1 in the code.
   Kept as a parameter so that the variant without the increment (tinc = 0)
   can be shown to be broken (SyncLifoProofs.aba_without_tag). *)
Variable tinc : Z.

Definition set_pc (s : state) (x : Z) (c : pc) : state :=
  mkS (top s) (tag s) (nxt s) (upd (pcs s) x c) (owner s) (abs s) (hist s).

Definition step_gen (s : state) (x : Z) (a : action) : option state :=
  match a, pcs s x with
  | ACallPush e, Idle =>
      if negb (e =? 0) && oeqb (owner s e) x then Some (set_pc s x (PushLP e)) else None
  | ACallPop, Idle => Some (set_pc s x PopLP)
  | AScribble e v, Idle =>
      if negb (e =? 0) && oeqb (owner s e) x
      then Some (mkS (top s) (tag s) (upd (nxt s) e v) (pcs s) (owner s) (abs s) (hist s))
      else None
  | AGive e y, Idle =>
      if negb (e =? 0) && oeqb (owner s e) x
      then Some (mkS (top s) (tag s) (nxt s) (pcs s) (upd (owner s) e (Some y)) (abs s) (hist s))
      else None
  | AStep, PushLP e => Some (set_pc s x (PushLT e (top s)))
  | AStep, PushLT e p => Some (set_pc s x (PushW e p (tag s)))
  | AStep, PushW e p t =>
      Some (mkS (top s) (tag s) (upd (nxt s) e p) (upd (pcs s) x (PushC e p t))
                (owner s) (abs s) (hist s))
  | AStep, PushC e p t =>
      if (top s =? p) && (tag s =? t)
      then Some (mkS e (t + tinc) (nxt s) (upd (pcs s) x Idle)
                     (upd (owner s) e None) (e :: abs s) (EvPush x e :: hist s))
      else Some (set_pc s x (PushLP e))
  | ASpurious, PushC e p t => Some (set_pc s x (PushLP e))
  | AStep, PopLP =>
      Some (mkS (top s) (tag s) (nxt s) (upd (pcs s) x (PopLT (top s))) (owner s) (abs s)
                (if top s =? 0 then EvPopEmpty x :: hist s else hist s))
  | AStep, PopLT p =>
      if p =? 0 then Some (set_pc s x Idle)             (* return NULL *)
      else Some (set_pc s x (PopR p (tag s)))
  | AStep, PopR p t => Some (set_pc s x (PopC p t (nxt s p)))
  | AStep, PopC p t n =>
      if (top s =? p) && (tag s =? t)
      then Some (mkS n (t + tinc) (nxt s) (upd (pcs s) x Idle)
                     (upd (owner s) p (Some x)) (tl (abs s)) (EvPop x p :: hist s))
      else Some (set_pc s x PopLP)
  | ASpurious, PopC p t n => Some (set_pc s x PopLP)
  | _, _ => None
  end.

Fixpoint run_gen (s : state) (acts : list (Z * action)) : option state :=
  match acts with
  | [] => Some s
  | (x, a) :: r => match step_gen s x a with Some s' => run_gen s' r | None => None end
  end.
End Step.

Definition step := step_gen 1.
Definition run := run_gen 1.

(* ---------- abstract stack machine replayed over the linearisation events *)
Definition replay_ev (st : list Z) (ev : event) : option (list Z) :=
  match ev with
  | EvPush _ e => if existsb (Z.eqb e) st then None else Some (e :: st)
  | EvPop _ e => match st with h :: r => if h =? e then Some r else None | [] => None end
  | EvPopEmpty _ => match st with [] => Some [] | _ => None end
  end.
Fixpoint replay (st : list Z) (evs : list event) : option (list Z) :=
  match evs with
  | [] => Some st
  | ev :: r => match replay_ev st ev with Some st' => replay st' r | None => None end
  end.

(* monitor used on the implementation's storm log: every thread-local log of
   (push e | pop e) is merged by the harness; here: multiset bookkeeping *)
Fixpoint walk (nx : Z -> Z) (p : Z) (fuel : nat) : list Z :=
  match fuel with
  | O => []
  | S f => if p =? 0 then [] else p :: walk nx (nx p) f
  end.

(* ---------- a LIFO used by one thread only (ABTI_sync_lifo_push/pop without
   contention and the *_unsafe variants behave identically): used by the
   white-box correspondence check of the header itself *)
Record slifo := mkSL { sl_top : Z; sl_tag : Z; sl_nxt : Z -> Z }.
Definition sl_init : slifo := mkSL 0 0 (fun _ => 0).
Definition sl_push (l : slifo) (e : Z) : slifo :=
  let '(w, t, tg) := seq_push (sl_top l) (sl_tag l) e in mkSL t tg (upd (sl_nxt l) e w).
Definition sl_pop (l : slifo) : slifo * Z :=
  match seq_pop (sl_top l) (sl_tag l) (sl_nxt l (sl_top l)) with
  | Some (p, t, tg) => (mkSL t tg (sl_nxt l), p)
  | None => (l, 0)
  end.
Definition sl_chain (l : slifo) (fuel : nat) : list Z := walk (sl_nxt l) (sl_top l) fuel.
