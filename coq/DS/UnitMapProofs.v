(* Proofs about DS/UnitMap.v: the 256-bucket table refines a finite map
   (C14_lookup), the association functions keep table, thread fields and call
   log consistent (C14_create_free_balanced), and fail atomically
   (C14_failure_atomic). *)
From Coq Require Import List ZArith Bool Lia Znumtheory Permutation.
From ABT Require Import Common.ListAux DS.UnitMap.
Import ListNotations.
Local Open Scope Z_scope.

(* ------------------------------------------------------------------ *)
(* hash_index                                                           *)
(* ------------------------------------------------------------------ *)

Lemma land_255 x : 0 <= x -> Z.land x 255 = x mod 256.
Proof. intros. change 255 with (Z.ones 8). rewrite Z.land_ones by lia. reflexivity. Qed.

Lemma hash_index_range u : 0 <= hash_index u < 256.
Proof.
  unfold hash_index. cbv zeta.
  change (TABLE_SIZE - 1) with 255.
  rewrite land_255.
  - apply Z.mod_pos_bound. lia.
  - apply Z.mod_pos_bound. unfold WORD. lia.
Qed.

Lemma slot_lt u : (slot u < 256)%nat.
Proof. unfold slot. pose proof (hash_index_range u). lia. Qed.

(* closed form without the intermediate wraps *)
Lemma hash_index_closed u :
  hash_index u = (u / 8 + u / 2048 + u / 524288) mod 256.
Proof.
  unfold hash_index. cbv zeta.
  change (TABLE_SIZE - 1) with 255. change (TABLE_SIZE_EXP + 3) with 11.
  change (TABLE_SIZE_EXP * 2 + 3) with 19.
  rewrite !Z.shiftr_div_pow2 by lia.
  change (2 ^ 3) with 8. change (2 ^ 11) with 2048. change (2 ^ 19) with 524288.
  rewrite land_255 by (apply Z.mod_pos_bound; unfold WORD; lia).
  assert (Hw : WORD = 256 * 72057594037927936) by reflexivity.
  set (a := u / 8). set (b := u / 2048). set (c := u / 524288).
  assert (H1 : forall x, (x mod WORD) mod 256 = x mod 256).
  { intros x. symmetry. apply Znumtheory.Zmod_div_mod; [lia|unfold WORD; lia|].
    exists 72057594037927936. rewrite Hw. lia. }
  rewrite H1.
  rewrite Z.add_mod by lia. rewrite H1. rewrite <- Z.add_mod by lia. reflexivity.
Qed.

(* Handles carved from an arena aligned to 2^27 bytes hash like their
   offsets: the harness relies on this to choose colliding handles. *)
Lemma hash_index_arena base off :
  base mod 134217728 = 0 -> hash_index (base + off) = hash_index off.
Proof.
  intros Hb. rewrite !hash_index_closed.
  apply Z.mod_divide in Hb; [|lia]. destruct Hb as [k ->].
  replace (k * 134217728 + off) with (off + (k * 16777216) * 8) at 1 by lia.
  replace (k * 134217728 + off) with (off + (k * 65536) * 2048) at 1 by lia.
  replace (k * 134217728 + off) with (off + (k * 256) * 524288) by lia.
  rewrite !Z.div_add by lia.
  replace (off / 8 + k * 16777216 + (off / 2048 + k * 65536) + (off / 524288 + k * 256))
    with (off / 8 + off / 2048 + off / 524288 + (k * 65536 + k * 256 + k) * 256) by lia.
  apply Z.mod_add. lia.
Qed.

(* ------------------------------------------------------------------ *)
(* specification map                                                    *)
(* ------------------------------------------------------------------ *)

Lemma sget_sdel m u u' : sget (sdel m u) u' = if u' =? u then None else sget m u'.
Proof.
  induction m as [|[k v] m IH]; cbn.
  - destruct (u' =? u); reflexivity.
  - destruct (Z.eqb_spec k u) as [->|Hne].
    + rewrite IH. destruct (Z.eqb_spec u' u) as [E|Hne']; auto.
      destruct (Z.eqb_spec u u'); [congruence|reflexivity].
    + cbn. rewrite IH. destruct (Z.eqb_spec k u') as [E|]; auto.
      rewrite <- E. destruct (Z.eqb_spec k u); congruence.
Qed.

Lemma sget_sset m u v u' : sget (sset m u v) u' = if u' =? u then Some v else sget m u'.
Proof.
  unfold sset. cbn. rewrite sget_sdel. rewrite (Z.eqb_sym u u').
  destruct (u' =? u); reflexivity.
Qed.

(* ------------------------------------------------------------------ *)
(* buckets                                                              *)
(* ------------------------------------------------------------------ *)

Definition nz (u : Z) : bool := negb (u =? UNIT_NULL).
Definition nzunits (b : bucket) : list Z := filter nz (map fst b).

Lemma nzunits_app b1 b2 : nzunits (b1 ++ b2) = nzunits b1 ++ nzunits b2.
Proof. unfold nzunits. rewrite map_app, filter_app. reflexivity. Qed.

Lemma in_nzunits b u : In u (nzunits b) <-> u <> UNIT_NULL /\ exists th, In (u, th) b.
Proof.
  unfold nzunits. rewrite filter_In, in_map_iff. unfold nz. split.
  - intros [[[u' th] [E H]] Hnz]. cbn in E. subst. split.
    + destruct (Z.eqb_spec u UNIT_NULL); [discriminate|auto].
    + eauto.
  - intros [Hnz [th H]]. split.
    + exists (u, th). auto.
    + destruct (Z.eqb_spec u UNIT_NULL); [contradiction|auto].
Qed.

(* decomposition of the three walks *)
Lemma bucket_reuse_some b u th b' :
  bucket_reuse b u th = Some b' ->
  exists b1 cth b2, b = b1 ++ (UNIT_NULL, cth) :: b2 /\ b' = b1 ++ (u, th) :: b2 /\
                    (forall c, In c b1 -> fst c <> UNIT_NULL).
Proof.
  revert b'. induction b as [|[cu cth] b IH]; cbn; [discriminate|]. intros b'.
  destruct (Z.eqb_spec cu UNIT_NULL) as [->|Hne].
  - intros E; inversion E; subst. exists [], cth, b. repeat split; auto; intros c [] .
  - destruct (bucket_reuse b u th) as [b''|] eqn:E; [|discriminate].
    intros E'; inversion E'; subst.
    destruct (IH _ eq_refl) as (b1 & cth' & b2 & -> & -> & Hnz).
    exists ((cu, cth) :: b1), cth', b2. repeat split; auto.
    intros c [<-|Hc]; auto.
Qed.

Lemma bucket_reuse_none b u th :
  bucket_reuse b u th = None -> forall c, In c b -> fst c <> UNIT_NULL.
Proof.
  induction b as [|[cu cth] b IH]; cbn; [intros _ c []|].
  destruct (Z.eqb_spec cu UNIT_NULL); [discriminate|].
  destruct (bucket_reuse b u th); [discriminate|]. intros _ c [<-|Hc]; auto.
Qed.

Lemma bucket_unmap_in b u th :
  In (u, th) b ->
  exists b1 cth b2, b = b1 ++ (u, cth) :: b2 /\
                    bucket_unmap b u = Some (b1 ++ (UNIT_NULL, cth) :: b2) /\
                    (forall c, In c b1 -> fst c <> u).
Proof.
  induction b as [|[cu cth] b IH]; cbn; [intros []|].
  destruct (Z.eqb_spec cu u) as [->|Hne].
  - intros _. exists [], cth, b. repeat split; auto; intros c [] .
  - intros [E|Hin]; [congruence|].
    destruct (IH Hin) as (b1 & cth' & b2 & -> & -> & Hn).
    exists ((cu, cth) :: b1), cth', b2. repeat split; auto.
    intros c [<-|Hc]; auto.
Qed.

Lemma bucket_unmap_none b u : (forall c, In c b -> fst c <> u) -> bucket_unmap b u = None.
Proof.
  induction b as [|[cu cth] b IH]; cbn; auto. intros H.
  destruct (Z.eqb_spec cu u) as [->|Hne].
  - exfalso. apply (H (u, cth)); auto.
  - rewrite IH; auto.
Qed.

Lemma bucket_get_some_in b u th : bucket_get b u = Some th -> In (u, th) b.
Proof.
  induction b as [|[cu cth] b IH]; cbn; [discriminate|].
  destruct (Z.eqb_spec cu u) as [->|Hne].
  - intros E; inversion E; auto.
  - auto.
Qed.

Lemma bucket_get_in b u th :
  u <> UNIT_NULL -> NoDup (nzunits b) -> In (u, th) b -> bucket_get b u = Some th.
Proof.
  intros Hu. induction b as [|[cu cth] b IH]; cbn; [intros _ []|].
  intros Hnd Hin. destruct (Z.eqb_spec cu u) as [->|Hne].
  - destruct Hin as [E|Hin]; [congruence|].
    exfalso. unfold nzunits in Hnd. cbn in Hnd. unfold nz at 1 in Hnd.
    destruct (Z.eqb_spec u UNIT_NULL); [contradiction|]. cbn in Hnd.
    apply NoDup_cons_iff in Hnd. apply (proj1 Hnd).
    apply in_nzunits. eauto.
  - destruct Hin as [E|Hin]; [congruence|]. apply IH; auto.
    unfold nzunits in *. cbn in Hnd. destruct (nz cu); auto.
    apply NoDup_cons_iff in Hnd. tauto.
Qed.

Lemma bucket_get_none b u : (forall th, ~ In (u, th) b) -> bucket_get b u = None.
Proof.
  induction b as [|[cu cth] b IH]; cbn; auto. intros H.
  destruct (Z.eqb_spec cu u) as [->|Hne].
  - exfalso. apply (H cth); auto.
  - apply IH. intros th Hin. apply (H th); auto.
Qed.

(* ------------------------------------------------------------------ *)
(* representation relation                                              *)
(* ------------------------------------------------------------------ *)

(* [R u th] : the abstract binding "handle u is mapped to work unit th".
   Bucket i holds exactly the bindings that hash to i, each once. *)
Definition bucket_rep (i : nat) (b : bucket) (R : Z -> Z -> Prop) : Prop :=
  NoDup (nzunits b) /\
  forall u th, u <> UNIT_NULL -> (In (u, th) b <-> R u th /\ slot u = i).

Definition rep (t : table) (R : Z -> Z -> Prop) : Prop :=
  length t = 256%nat /\ forall i, (i < 256)%nat -> bucket_rep i (nth_bucket t i) R.

Lemma rep_init : rep tbl_init (fun _ _ => False).
Proof.
  split; [reflexivity|]. intros i Hi. unfold nth_bucket, tbl_init.
  rewrite nth_repeat. split; [constructor|]. cbn. intros u th _. tauto.
Qed.

Lemma rep_ext t R R' : rep t R -> (forall u th, R u th <-> R' u th) -> rep t R'.
Proof.
  intros [Hl H] E. split; auto. intros i Hi. destruct (H i Hi) as [Hnd Hb]. split; auto.
  intros u th Hu. rewrite (Hb u th Hu), (E u th). tauto.
Qed.

Lemma rep_functional t R u th1 th2 : rep t R -> u <> UNIT_NULL -> R u th1 -> R u th2 -> th1 = th2.
Proof.
  intros [_ H] Hu H1 H2. destruct (H (slot u) (slot_lt u)) as [Hnd Hb].
  assert (I1 : In (u, th1) (nth_bucket t (slot u))) by (apply Hb; auto).
  assert (I2 : In (u, th2) (nth_bucket t (slot u))) by (apply Hb; auto).
  apply (bucket_get_in _ _ _ Hu Hnd) in I1. apply (bucket_get_in _ _ _ Hu Hnd) in I2. congruence.
Qed.

Lemma rep_get t R u th : rep t R -> u <> UNIT_NULL -> R u th -> tbl_get t u = Some th.
Proof.
  intros [_ H] Hu HR. unfold tbl_get. destruct (H (slot u) (slot_lt u)) as [Hnd Hb].
  apply bucket_get_in; auto. apply Hb; auto.
Qed.

Lemma rep_get_inv t R u th : rep t R -> u <> UNIT_NULL -> tbl_get t u = Some th -> R u th.
Proof.
  intros [_ H] Hu HR. unfold tbl_get in HR. destruct (H (slot u) (slot_lt u)) as [Hnd Hb].
  apply bucket_get_some_in in HR. apply Hb in HR; tauto.
Qed.

Lemma upd_nth_same (t : table) i : upd_nth t i (nth_bucket t i) = t.
Proof.
  unfold nth_bucket. revert i. induction t as [|a t IH]; destruct i; cbn; auto. rewrite IH. auto.
Qed.

Lemma rep_map t R R' u th ok t' r :
  rep t R -> u <> UNIT_NULL -> (forall th', ~ R u th') ->
  (forall u' th', R' u' th' <-> (u' = u /\ th' = th) \/ R u' th') ->
  tbl_map t u th ok = (t', r) ->
  (r = true /\ rep t' R') \/ (r = false /\ ok = false /\ t' = t).
Proof.
  intros [Hlen H] Hu Hm HR'. unfold tbl_map.
  destruct (bucket_map (nth_bucket t (slot u)) u th ok) as [b r0] eqn:Eb.
  intros E; inversion E; subst; clear E.
  pose proof (H (slot u) (slot_lt u)) as [Hnd Hb].
  assert (Hnotin : forall th0, ~ In (u, th0) (nth_bucket t (slot u))).
  { intros th0 Hin. apply Hb in Hin; auto. destruct Hin as [Hin _]. apply (Hm _ Hin). }
  assert (Hnu : ~ In u (nzunits (nth_bucket t (slot u)))).
  { rewrite in_nzunits. intros [_ [th0 Hin]]. apply (Hnotin th0); auto. }
  unfold bucket_map in Eb.
  assert (Hgoal : forall b',
     NoDup (nzunits b') ->
     (forall u' th', u' <> UNIT_NULL ->
        (In (u', th') b' <-> (u' = u /\ th' = th) \/ In (u', th') (nth_bucket t (slot u)))) ->
     rep (upd_nth t (slot u) b') R').
  { intros b' Hnd' Hin'. split; [rewrite upd_nth_length; auto|].
    intros i Hi. unfold nth_bucket. destruct (Nat.eq_dec (slot u) i) as [<-|Hne].
    - rewrite nth_upd_nth_eq by (rewrite Hlen; apply slot_lt).
      split; auto. intros u' th' Hu'. rewrite Hin' by auto. rewrite HR'.
      rewrite (Hb u' th' Hu'). split.
      + intros [[-> ->]|[? ?]]; auto.
      + intros [[[-> ->]|?] ?]; auto.
    - rewrite nth_upd_nth_ne by auto. destruct (H i Hi) as [Hndi Hbi]. split; auto.
      intros u' th' Hu'. fold (nth_bucket t i). rewrite (Hbi u' th' Hu'). rewrite HR'.
      split; [tauto|]. intros [[[-> ->]|?] ?]; [congruence|tauto]. }
  destruct (bucket_reuse (nth_bucket t (slot u)) u th) as [b'|] eqn:Er.
  - inversion Eb; subst. left. split; auto.
    destruct (bucket_reuse_some _ _ _ _ Er) as (b1 & cth & b2 & E1 & -> & Hnz).
    apply Hgoal.
    + rewrite E1 in Hnd, Hnu. rewrite nzunits_app in *. cbn [nzunits map filter fst nz] in *.
      unfold nzunits in *. cbn in *. unfold nz at 2. destruct (Z.eqb_spec u UNIT_NULL); [contradiction|]. cbn.
      apply NoDup_app_iff in Hnd. destruct Hnd as (N1 & N2 & N3).
      apply NoDup_app_iff. repeat split; auto.
      * constructor; auto. intros Hin. apply Hnu. apply in_or_app. auto.
      * intros x Hx [<-|Hx2]; [apply Hnu; apply in_or_app; auto|]. apply (N3 x); auto.
    + intros u' th' Hu'. rewrite E1. rewrite !in_app_iff. cbn. split.
      * intros [?|[E|?]]; [tauto| |tauto]. inversion E; auto.
      * intros [[-> ->]|[?|[E|?]]]; auto. inversion E; congruence.
  - destruct ok; inversion Eb; subst.
    + left. split; auto. apply Hgoal.
      * unfold nzunits in *. cbn. unfold nz at 1. destruct (Z.eqb_spec u UNIT_NULL); [contradiction|]. cbn.
        constructor; auto.
      * intros u' th' Hu'. cbn. split; [intros [E|?]; [inversion E|]; auto|intros [[-> ->]|?]; auto].
    + right. repeat split; auto. apply upd_nth_same.
Qed.

Lemma rep_unmap t R R' u th :
  rep t R -> u <> UNIT_NULL -> R u th ->
  (forall u' th', R' u' th' <-> R u' th' /\ u' <> u) ->
  exists t', tbl_unmap t u = Some t' /\ rep t' R'.
Proof.
  intros [Hlen H] Hu Hm HR'. unfold tbl_unmap.
  pose proof (H (slot u) (slot_lt u)) as [Hnd Hb].
  assert (Hin : In (u, th) (nth_bucket t (slot u))) by (apply Hb; auto).
  destruct (bucket_unmap_in _ _ _ Hin) as (b1 & cth & b2 & E1 & E2 & Hn1).
  rewrite E2. eexists; split; [reflexivity|].
  split; [rewrite upd_nth_length; auto|].
  intros i Hi. unfold nth_bucket. destruct (Nat.eq_dec (slot u) i) as [<-|Hne].
  - rewrite nth_upd_nth_eq by (rewrite Hlen; apply slot_lt).
    rewrite E1 in Hnd, Hb. rewrite nzunits_app in Hnd. unfold nzunits in Hnd. cbn in Hnd.
    unfold nz at 2 in Hnd. destruct (Z.eqb_spec u UNIT_NULL); [contradiction|]. cbn in Hnd.
    apply NoDup_app_iff in Hnd. destruct Hnd as (N1 & N2 & N3).
    apply NoDup_cons_iff in N2. destruct N2 as [N2a N2b].
    split.
    + rewrite nzunits_app. unfold nzunits. cbn. apply NoDup_app_iff. repeat split; auto.
      intros x Hx Hx2. apply (N3 x); auto. right; auto.
    + intros u' th' Hu'. rewrite HR'. destruct (Z.eq_dec u' u) as [->|Hneu].
      * split; [|intros [[_ ?] _]; congruence]. rewrite in_app_iff. cbn.
        intros [Hx|[E|Hx]].
        -- exfalso. apply (Hn1 _ Hx). reflexivity.
        -- inversion E; congruence.
        -- exfalso. apply N2a. change (In u (nzunits b2)). apply in_nzunits. eauto.
      * pose proof (Hb u' th' Hu') as Hb'. rewrite !in_app_iff in *. cbn in *.
        split.
        -- intros Hx. assert (Hy : In (u', th') b1 \/ (u, cth) = (u', th') \/ In (u', th') b2).
           { destruct Hx as [?|[E|?]]; [tauto|inversion E; congruence|tauto]. }
           apply Hb' in Hy. tauto.
        -- intros [[Hx ?] Hs]. assert (Hy : R u' th' /\ slot u' = slot u) by tauto.
           apply Hb' in Hy. destruct Hy as [?|[E|?]]; [tauto|inversion E; congruence|tauto].
  - rewrite nth_upd_nth_ne by auto. destruct (H i Hi) as [Hndi Hbi]. split; auto.
    intros u' th' Hu'. fold (nth_bucket t i). rewrite (Hbi u' th' Hu'). rewrite HR'.
    split; [|tauto]. intros [? ?]. repeat split; auto. congruence.
Qed.

(* ------------------------------------------------------------------ *)
(* the same-handle move: map(u) while u is mapped, then unmap(u)        *)
(* ------------------------------------------------------------------ *)
(* ABTI_thread_set_associated_pool / ABTI_unit_set_associated_pool, branch
   "associated with different custom pools", when the new pool's create_unit
   hands out the handle the work unit already has: map(u, th) runs while
   (u, th) is in the table - the bucket then holds the key u twice (in a reused
   tombstone or in a new head cell) - and unmap(u) tombstones the FIRST cell
   with key u, whichever of the two that is.  [bucket_rep] does not hold in
   between (the keys are not distinct); the argument goes through the multiset
   of non-tombstone cells. *)
Definition livec (b : bucket) : list cell := filter (fun c : cell => nz (fst c)) b.

Lemma nzunits_livec b : nzunits b = map fst (livec b).
Proof.
  unfold nzunits, livec. induction b as [|[cu cth] b IH]; cbn; auto.
  destruct (nz cu); cbn; congruence.
Qed.

Lemma livec_app b1 b2 : livec (b1 ++ b2) = livec b1 ++ livec b2.
Proof. apply filter_app. Qed.

Lemma in_livec b u th : In (u, th) (livec b) <-> u <> UNIT_NULL /\ In (u, th) b.
Proof.
  unfold livec. rewrite filter_In. cbn. unfold nz.
  destruct (Z.eqb_spec u UNIT_NULL); cbn; intuition congruence.
Qed.

Lemma livec_cons_nz u th b : u <> UNIT_NULL -> livec ((u, th) :: b) = (u, th) :: livec b.
Proof. intros H. unfold livec. cbn. unfold nz. destruct (Z.eqb_spec u UNIT_NULL); [contradiction|reflexivity]. Qed.

Lemma livec_cons_null th b : livec ((UNIT_NULL, th) :: b) = livec b.
Proof. unfold livec. cbn. unfold nz. rewrite Z.eqb_refl. reflexivity. Qed.

Lemma bucket_rep_perm i b b' R :
  Permutation (livec b) (livec b') -> bucket_rep i b R -> bucket_rep i b' R.
Proof.
  intros P [Hnd Hb]. split.
  - rewrite nzunits_livec in *. eapply Permutation_NoDup; [|exact Hnd].
    apply Permutation_map. exact P.
  - intros u th Hu. rewrite <- (Hb u th Hu). split; intros Hin.
    + assert (H : In (u, th) (livec b')) by (apply in_livec; auto).
      apply (Permutation_in _ (Permutation_sym P)) in H. apply in_livec in H. tauto.
    + assert (H : In (u, th) (livec b)) by (apply in_livec; auto).
      apply (Permutation_in _ P) in H. apply in_livec in H. tauto.
Qed.

(* a successful map adds one non-tombstone cell (u, th), whatever is there *)
Lemma bucket_map_perm b u th ok b' :
  bucket_map b u th ok = (b', true) -> u <> UNIT_NULL ->
  Permutation (livec b') ((u, th) :: livec b).
Proof.
  unfold bucket_map. intros E Hu. destruct (bucket_reuse b u th) as [b0|] eqn:Er.
  - inversion E; subst.
    destruct (bucket_reuse_some _ _ _ _ Er) as (b1 & cth & b2 & -> & -> & _).
    rewrite !livec_app, livec_cons_null, livec_cons_nz by auto.
    apply Permutation_sym, Permutation_middle.
  - destruct ok; inversion E; subst. rewrite livec_cons_nz by auto. apply Permutation_refl.
Qed.

Lemma bucket_get_first b1 u cth b2 :
  (forall c, In c b1 -> fst c <> u) -> bucket_get (b1 ++ (u, cth) :: b2) u = Some cth.
Proof.
  induction b1 as [|[cu0 cth0] b1 IH]; cbn; intros H.
  - rewrite Z.eqb_refl. reflexivity.
  - destruct (Z.eqb_spec cu0 u) as [E|_].
    + exfalso. apply (H (cu0, cth0)); auto.
    + apply IH. intros c Hc. apply H. auto.
Qed.

(* bucket level: map(u, th) on a bucket that already holds (u, th), then
   unmap(u): lookups of u give th in between, and afterwards the bucket
   represents what it represented before *)
Lemma bucket_remap_same i b R u th ok b' r :
  bucket_rep i b R -> u <> UNIT_NULL -> In (u, th) b -> bucket_map b u th ok = (b', r) ->
  (r = true /\ bucket_get b' u = Some th /\
   exists b'', bucket_unmap b' u = Some b'' /\ bucket_rep i b'' R) \/
  (r = false /\ ok = false /\ b' = b).
Proof.
  intros Hrep Hu Hin E. destruct r.
  - left. split; [reflexivity|].
    pose proof (bucket_map_perm _ _ _ _ _ E Hu) as P1.
    assert (Hin' : In (u, th) b').
    { assert (H : In (u, th) (livec b')) by (apply (Permutation_in _ (Permutation_sym P1)); left; reflexivity).
      apply in_livec in H. tauto. }
    destruct (bucket_unmap_in _ _ _ Hin') as (b1 & cth & b2 & E1 & E2 & Hn1).
    (* every cell of b' with key u carries th *)
    assert (Hth : cth = th).
    { assert (H : In (u, cth) (livec b')).
      { apply in_livec. split; auto. rewrite E1. apply in_or_app. right. left. reflexivity. }
      apply (Permutation_in _ P1) in H. destruct H as [H|H]; [congruence|].
      apply in_livec in H. destruct H as [_ H]. destruct Hrep as [Hnd _].
      pose proof (bucket_get_in _ _ _ Hu Hnd H) as G1.
      pose proof (bucket_get_in _ _ _ Hu Hnd Hin) as G2. congruence. }
    subst cth. split.
    + rewrite E1. apply bucket_get_first. exact Hn1.
    + eexists. split; [exact E2|].
      apply (bucket_rep_perm i b); [|exact Hrep].
      apply (Permutation_cons_inv (a := (u, th))).
      apply Permutation_sym. eapply Permutation_trans; [|exact P1].
      rewrite E1, !livec_app, livec_cons_null, livec_cons_nz by auto.
      apply Permutation_middle.
  - right. unfold bucket_map in E. destruct (bucket_reuse b u th); [inversion E|].
    destruct ok; inversion E; auto.
Qed.

(* table level *)
Lemma rep_remap_same t R u th ok t' r :
  rep t R -> u <> UNIT_NULL -> R u th -> tbl_map t u th ok = (t', r) ->
  (r = true /\ tbl_get t' u = Some th /\
   exists t'', tbl_unmap t' u = Some t'' /\ rep t'' R) \/
  (r = false /\ ok = false /\ t' = t).
Proof.
  intros [Hlen H] Hu HR. unfold tbl_map.
  destruct (bucket_map (nth_bucket t (slot u)) u th ok) as [b' r0] eqn:Eb.
  intros E; inversion E; subst; clear E.
  pose proof (H (slot u) (slot_lt u)) as Hbr.
  assert (Hin : In (u, th) (nth_bucket t (slot u))) by (apply (proj2 Hbr); auto).
  assert (Hsl : (slot u < length t)%nat) by (rewrite Hlen; apply slot_lt).
  destruct (bucket_remap_same _ _ _ _ _ _ _ _ Hbr Hu Hin Eb) as [(-> & Hg & b'' & Eu & Hrep'')|(-> & -> & ->)].
  - left. split; [reflexivity|].
    assert (Enth : nth_bucket (upd_nth t (slot u) b') (slot u) = b')
      by (unfold nth_bucket; apply nth_upd_nth_eq; auto).
    split; [unfold tbl_get; rewrite Enth; exact Hg|].
    unfold tbl_unmap. rewrite Enth, Eu. eexists. split; [reflexivity|].
    split; [rewrite !upd_nth_length; auto|].
    intros i Hi. unfold nth_bucket. destruct (Nat.eq_dec (slot u) i) as [<-|Hne].
    + rewrite nth_upd_nth_eq by (rewrite upd_nth_length; auto). exact Hrep''.
    + rewrite !nth_upd_nth_ne by auto. apply (H i Hi).
  - right. repeat split; auto. apply upd_nth_same.
Qed.

(* number of cells of a bucket whose unit field is u *)
Definition key_count (b : bucket) (u : Z) : nat := length (filter (fun c : cell => fst c =? u) b).

Lemma key_count_0 b u : (forall th, ~ In (u, th) b) -> key_count b u = 0%nat.
Proof.
  unfold key_count. induction b as [|[cu0 cth0] b IH]; cbn; auto. intros H.
  destruct (Z.eqb_spec cu0 u) as [->|_].
  - exfalso. apply (H cth0). auto.
  - apply IH. intros th Hin. apply (H th). auto.
Qed.

(* in a bucket that represents a relation a mapped handle sits in exactly one
   cell (tombstones and other handles aside) *)
Lemma bucket_rep_key_count i b R u th :
  bucket_rep i b R -> u <> UNIT_NULL -> In (u, th) b -> key_count b u = 1%nat.
Proof.
  intros [Hnd _] Hu. unfold key_count. induction b as [|[cu0 cth0] b IH]; cbn; [intros []|].
  intros Hin. destruct (Z.eqb_spec cu0 u) as [->|Hne].
  - cbn. f_equal. apply key_count_0. intros th0 Hin0.
    unfold nzunits in Hnd. cbn in Hnd. unfold nz at 1 in Hnd.
    destruct (Z.eqb_spec u UNIT_NULL); [contradiction|]. cbn in Hnd.
    apply NoDup_cons_iff in Hnd. apply (proj1 Hnd). apply in_nzunits. eauto.
  - destruct Hin as [E|Hin]; [congruence|]. apply IH; auto.
    unfold nzunits in *. cbn in Hnd. destruct (nz cu0); auto.
    apply NoDup_cons_iff in Hnd. tauto.
Qed.

(* a failed map leaves the table as it was (whatever the state) *)
Lemma tbl_map_fail t u th ok t' : tbl_map t u th ok = (t', false) -> t' = t.
Proof.
  unfold tbl_map, bucket_map.
  destruct (bucket_reuse (nth_bucket t (slot u)) u th); [intros E; inversion E|].
  destruct ok; intros E; inversion E. apply upd_nth_same.
Qed.

(* ------------------------------------------------------------------ *)
(* C14_lookup                                                           *)
(* ------------------------------------------------------------------ *)

Definition smapR (m : smap) : Z -> Z -> Prop := fun u th => sget m u = Some th.

Lemma tpre_map m u th ok : tpre m (TMap u th ok) = true -> u <> UNIT_NULL /\ sget m u = None.
Proof.
  cbn. destruct (Z.eqb_spec u UNIT_NULL); cbn; [discriminate|].
  destruct (Z.even u); cbn; [|discriminate]. destruct (sget m u); [discriminate|auto].
Qed.

(* no unit handle in a specification map is NULL *)
Definition keys_nz (m : smap) : Prop := forall u th, sget m u = Some th -> u <> UNIT_NULL.

Lemma keys_nz_sset m u th : keys_nz m -> u <> UNIT_NULL -> keys_nz (sset m u th).
Proof.
  intros H Hu u' th'. rewrite sget_sset. destruct (Z.eqb_spec u' u); [congruence|apply H].
Qed.
Lemma keys_nz_sdel m u : keys_nz m -> keys_nz (sdel m u).
Proof.
  intros H u' th'. rewrite sget_sdel. destruct (Z.eqb_spec u' u); [discriminate|apply H].
Qed.

Theorem trun_sound : forall ops t m, rep t (smapR m) -> keys_nz m ->
  match trun t m ops with
  | Ok (t', m', rs) => rep t' (smapR m') /\ keys_nz m' /\ length rs = length ops
  | Misuse => True
  | Abort => False
  | Wrong => False
  end.
Proof.
  induction ops as [|o ops IH]; intros t m Hrep Hk; cbn [trun]; auto.
  destruct (tpre m o) eqn:Hpre; cbn [negb]; auto.
  destruct o as [u th ok|u|u]; cbn [tstep].
  - destruct (tpre_map _ _ _ _ Hpre) as [Hu Hm].
    destruct (tbl_map t u th ok) as [t' r] eqn:Emap.
    assert (HR' : forall u' th', smapR (sset m u th) u' th' <-> (u' = u /\ th' = th) \/ smapR m u' th').
    { intros u' th'. unfold smapR. rewrite sget_sset. destruct (Z.eqb_spec u' u) as [->|Hne].
      - split; [intros E; inversion E; auto|intros [[_ ->]|E]; congruence].
      - split; [auto|intros [[? _]|?]; [contradiction|auto]]. }
    assert (Hno : forall th', ~ smapR m u th') by (unfold smapR; congruence).
    destruct (rep_map _ _ _ _ _ _ _ _ Hrep Hu Hno HR' Emap) as [[-> Hrep']|(-> & -> & ->)]; cbn [tpost].
    + specialize (IH t' (sset m u th) Hrep' (keys_nz_sset _ _ _ Hk Hu)).
      destruct (trun t' (sset m u th) ops) as [[[t'' m''] rs]| | |]; auto.
      cbn. intuition.
    + specialize (IH t m Hrep Hk).
      destruct (trun t m ops) as [[[t'' m''] rs]| | |]; auto. cbn. intuition.
  - cbn in Hpre. destruct (sget m u) as [th|] eqn:Em; [|discriminate].
    pose proof (Hk _ _ Em) as Hu.
    assert (HR' : forall u' th', smapR (sdel m u) u' th' <-> smapR m u' th' /\ u' <> u).
    { intros u' th'. unfold smapR. rewrite sget_sdel. destruct (Z.eqb_spec u' u); [|tauto].
      split; [discriminate|tauto]. }
    destruct (rep_unmap _ _ _ _ _ Hrep Hu Em HR') as (t' & -> & Hrep'). cbn [tpost].
    specialize (IH t' (sdel m u) Hrep' (keys_nz_sdel _ _ Hk)).
    destruct (trun t' (sdel m u) ops) as [[[t'' m''] rs]| | |]; auto. cbn. intuition.
  - cbn in Hpre. destruct (sget m u) as [th|] eqn:Em; [|discriminate].
    pose proof (Hk _ _ Em) as Hu.
    rewrite (rep_get _ _ _ _ Hrep Hu Em). cbn [tpost]. rewrite Em, Z.eqb_refl.
    specialize (IH t m Hrep Hk).
    destruct (trun t m ops) as [[[t'' m''] rs]| | |]; auto. cbn. intuition.
Qed.

Lemma rep_init_smap : rep tbl_init (smapR []).
Proof. apply (rep_ext _ _ _ rep_init). intros u th. unfold smapR. cbn. split; [tauto|discriminate]. Qed.

(* every get of a run returned the thread the specification map held *)
Theorem tbl_refines_map : forall ops,
  match trun tbl_init [] ops with
  | Ok (t', m', rs) => rep t' (smapR m') /\ length rs = length ops
  | Misuse => True
  | Abort => False
  | Wrong => False
  end.
Proof.
  intros ops. pose proof (trun_sound ops tbl_init [] rep_init_smap) as H.
  assert (Hk : keys_nz []) by (intros u th; discriminate). specialize (H Hk).
  destruct (trun tbl_init [] ops) as [[[t' m'] rs]| | |]; tauto.
Qed.
