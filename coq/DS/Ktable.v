(* Model of the work-unit-local storage of Argobots (C16), field level.
     src/include/abti_key.h : ABTI_ktable_create, ABTI_ktable_alloc_elem, ABTI_ktable_get_idx,
                              ABTI_ktable_set_impl, ABTI_ktable_set, ABTI_ktable_set_unsafe,
                              ABTI_ktable_get
     src/key.c              : ABT_key_create/free/set/get, ABTI_ktable_free, g_key_id
     src/thread.c, self.c   : ABT_thread_set/get_specific, ABT_self_set/get_specific,
                              ythread_create (migration key), ABTI_thread_get_mig_data, thread_free
     src/arch/abtd_env.c    : ABTD_env_key_table_size, load_env_uint32, roundup_pow2_uint32
   A table is an array of [size] slots, each the head of a NULL-terminated, append-only,
   unshared singly linked chain of ABTI_ktelem (exactly a list); every element remembers
   where in which memory block it was carved ([e_loc]); the table owns the chain of
   memory blocks [p_used_mem] (a NULL-terminated unshared list of headers, head first).
   Memory blocks come from a global ledger that records every acquisition and release.
   This file is the *sequential* model (one caller at a time; the CAS of ABTI_ktable_set
   always succeeds, the lock of set_impl is free).  The interleaved behaviour of the same
   code is Conc/KtableConc.v.  Only model code here: no proofs. *)
From Coq Require Import List ZArith Bool.
From ABT Require Import Common.ListAux.
Import ListNotations.
Local Open Scope Z_scope.

(* ------------------------------------------------------------------ sizes *)
(* Byte sizes that enter the block accounting; the harness prints the values of
   the tree it was compiled from and compares them with [cfg64]. *)
Record kcfg := mkCfg {
  c_desc  : Z;   (* ABTI_KTABLE_DESC_SIZE = ABTI_MEM_POOL_DESC_SIZE - sizeof(mem_header) *)
  c_hdr   : Z;   (* sizeof(ABTI_ktable_mem_header) *)
  c_off   : Z;   (* offsetof(ABTI_ktable, p_elems) *)
  c_ptr   : Z;   (* sizeof(ABTD_atomic_ptr) *)
  c_align : Z;   (* ABTU_MAX_ALIGNMENT *)
  c_elem  : Z    (* sizeof(ABTI_ktelem) *)
}.
Definition cfg64 : kcfg := mkCfg 108 16 32 8 16 32.

(* ABTU_roundup_size (both of its branches compute this for a power-of-two multiple) *)
Definition roundup (v m : Z) : Z := ((v + m - 1) / m) * m.
Definition ktable_bytes (cfg : kcfg) (size : Z) : Z :=
  roundup (c_off cfg + c_ptr cfg * size) (c_align cfg).
Definition ktelem_bytes (cfg : kcfg) : Z := roundup (c_elem cfg) (c_align cfg).

(* ------------------------------------------------------------------ env *)
Definition U32MAX : Z := 4294967295.
(* load_env_uint32: [env] = None when the variable is unset or does not parse *)
Definition load_env_uint32 (env : option Z) (def mn mx : Z) : Z :=
  Z.max mn (Z.min mx (match env with Some v => v | None => def end)).
(* for (i = 0; i < 31; i++) if ((val - 1) >> i == 0) break; *)
Fixpoint pow2_loop (v i : Z) (fuel : nat) : Z :=
  match fuel with
  | O => i
  | S f => if Z.shiftr (v - 1) i =? 0 then i else pow2_loop v (i + 1) f
  end.
Definition roundup_pow2_uint32 (v : Z) : Z :=
  if v =? 0 then 0 else Z.shiftl 1 (pow2_loop v 0 31).
(* ABTD_env_key_table_size *)
Definition env_key_table_size (env : option Z) : Z :=
  roundup_pow2_uint32 (load_env_uint32 env 4 1 U32MAX).

(* ------------------------------------------------------------------ block ledger *)
(* BDesc ext: obtained with ABTI_mem_alloc_desc ([ext] = caller is an external thread:
   the descriptor is malloc'ed and its trailing word is 1, otherwise it is a memory-pool
   block with trailing word 0); BMalloc: obtained with ABTU_malloc. *)
Inductive bkind := BDesc (ext : bool) | BMalloc.
(* RDesc: released with ABTI_mem_free_desc; RFree: released with ABTU_free. *)
Inductive relr := RDesc | RFree.
Record ledger := mkL {
  l_next : Z;                    (* next block id (= number of acquisitions so far) *)
  l_all  : list (Z * bkind);     (* every acquisition, in order *)
  l_live : list (Z * bkind);     (* acquired and not yet released *)
  l_rel  : list (Z * relr);      (* accepted releases, in order *)
  l_bad  : list (Z * relr)       (* rejected releases: not live (double release / never
                                    acquired) or wrong releaser for the block's kind *)
}.
Definition ledger0 : ledger := mkL 0 [] [] [] [].
Definition l_alloc (L : ledger) (k : bkind) : ledger * Z :=
  (mkL (l_next L + 1) (l_all L ++ [(l_next L, k)]) (l_live L ++ [(l_next L, k)]) (l_rel L) (l_bad L),
   l_next L).
Definition kind_ok (k : bkind) (r : relr) : bool :=
  match k, r with BDesc _, RDesc => true | BMalloc, RFree => true | _, _ => false end.
Fixpoint live_find (l : list (Z * bkind)) (b : Z) : option bkind :=
  match l with
  | [] => None
  | (b', k) :: l' => if b' =? b then Some k else live_find l' b
  end.
Fixpoint live_remove (l : list (Z * bkind)) (b : Z) : list (Z * bkind) :=
  match l with
  | [] => []
  | (b', k) :: l' => if b' =? b then l' else (b', k) :: live_remove l' b
  end.
Definition l_release (L : ledger) (b : Z) (r : relr) : ledger :=
  match live_find (l_live L) b with
  | Some k =>
      if kind_ok k r
      then mkL (l_next L) (l_all L) (live_remove (l_live L) b) (l_rel L ++ [(b, r)]) (l_bad L)
      else mkL (l_next L) (l_all L) (l_live L) (l_rel L) (l_bad L ++ [(b, r)])
  | None => mkL (l_next L) (l_all L) (l_live L) (l_rel L) (l_bad L ++ [(b, r)])
  end.

(* ------------------------------------------------------------------ table *)
(* a location = (block id, byte offset from the start of the block); NULL = (-1, 0) *)
Definition loc := (Z * Z)%type.
Definition NULLLOC : loc := (-1, 0).
Definition loc_add (p : loc) (n : Z) : loc := (fst p, snd p + n).

Record key := mkK { k_dtor : Z;  (* f_destructor: 0 = NULL, else the function's number *)
                    k_id : Z }.
Record ktelem := mkE {
  e_dtor : Z;     (* f_destructor copied from the key when the element was appended *)
  e_key  : Z;     (* key_id *)
  e_val  : Z;     (* value (0 = NULL) *)
  e_loc  : loc    (* where the element lives *)
}.
Record ktable := mkT {
  t_size  : Z;                   (* size *)
  t_elems : list (list ktelem);  (* p_elems[0..size-1], each a chain *)
  t_used  : list (Z * bool);     (* p_used_mem chain, head first: (block, is_from_mempool) *)
  t_extra : loc;                 (* p_extra_mem *)
  t_extra_size : Z               (* extra_mem_size *)
}.

Definition ERR_MEM : Z := 2.
Definition ERR_INV_XSTREAM : Z := 4.
Definition ERR_INV_KEY : Z := 19.

(* ABTI_ktable_create.  [ext]: the caller has no local execution stream (external
   thread); [fail]: the allocation fails. *)
Definition ktable_create (cfg : kcfg) (gsize : Z) (ext fail : bool) (L : ledger)
  : ledger * option ktable :=
  let ksz := ktable_bytes cfg gsize in
  if ksz <=? c_desc cfg then
    (* memory pool block; the table lives right after the header *)
    if fail then (L, None) else
    let (L', b) := l_alloc L (BDesc ext) in
    (L', Some (mkT gsize (repeat [] (Z.to_nat gsize)) [(b, true)]
                   (b, c_hdr cfg + ksz) (c_desc cfg - ksz)))
  else
    (* malloc(ktable_size + header) *)
    if fail then (L, None) else
    let (L', b) := l_alloc L BMalloc in
    (L', Some (mkT gsize (repeat [] (Z.to_nat gsize)) [(b, false)] NULLLOC 0)).

(* ABTI_ktable_alloc_elem: returns the location of [size] fresh bytes *)
Definition ktable_alloc_elem (cfg : kcfg) (t : ktable) (size : Z) (ext fail : bool) (L : ledger)
  : ledger * ktable * option loc :=
  if size <=? t_extra_size t then
    (* use the extra memory *)
    (L, mkT (t_size t) (t_elems t) (t_used t) (loc_add (t_extra t) size) (t_extra_size t - size),
     Some (t_extra t))
  else if size <=? c_desc cfg then
    (* a new memory-pool block, pushed at the head of p_used_mem *)
    if fail then (L, t, None) else
    let (L', b) := l_alloc L (BDesc ext) in
    (L', mkT (t_size t) (t_elems t) ((b, true) :: t_used t)
             (b, c_hdr cfg + size) (c_desc cfg - size),
     Some (b, c_hdr cfg))
  else
    (* malloc(size + header); p_extra_mem / extra_mem_size untouched *)
    if fail then (L, t, None) else
    let (L', b) := l_alloc L BMalloc in
    (L', mkT (t_size t) (t_elems t) ((b, false) :: t_used t) (t_extra t) (t_extra_size t),
     Some (b, c_hdr cfg)).

(* ABTI_ktable_get_idx: p_key->id & (size - 1) *)
Definition get_idx (id size : Z) : nat := Z.to_nat (Z.land id (size - 1)).

(* the chain walk "while (p_elem) { if (p_elem->key_id == key_id) ...; pp_elem = &p_elem->p_next }"
   started at link number [pos]: inl i = element number i matches; inr n = reached the
   NULL link, which is link number n (pp_elem) *)
Fixpoint chain_walk (c : list ktelem) (id : Z) (pos : nat) : nat + nat :=
  match c with
  | [] => inr pos
  | e :: c' => if e_key e =? id then inl pos else chain_walk c' id (S pos)
  end.
Definition set_val (e : ktelem) (v : Z) : ktelem := mkE (e_dtor e) (e_key e) v (e_loc e).
Definition dummy_elem : ktelem := mkE 0 (-1) 0 NULLLOC.
(* p_elem->value = value on element number i *)
Definition chain_store (c : list ktelem) (i : nat) (v : Z) : list ktelem :=
  upd_nth c i (set_val (nth i c dummy_elem) v).
Definition with_chain (t : ktable) (idx : nat) (c : list ktelem) : ktable :=
  mkT (t_size t) (upd_nth (t_elems t) idx c) (t_used t) (t_extra t) (t_extra_size t).
Definition nth_chain (t : ktable) (idx : nat) : list ktelem := nth idx (t_elems t) [].

(* ABTI_ktable_set_impl (is_safe only decides whether the spinlock is taken; in the
   sequential model both variants are this function) *)
Definition ktable_set_impl (cfg : kcfg) (t : ktable) (k : key) (value : Z) (ext fail : bool)
           (L : ledger) : ledger * ktable * Z :=
  let idx := get_idx (k_id k) (t_size t) in
  let c := nth_chain t idx in
  (* Look for the same key (lock free) *)
  match chain_walk c (k_id k) 0 with
  | inl i => (L, with_chain t idx (chain_store c i value), 0)
  | inr n =>
    (* lock; "the linked list might have been extended": continue from pp_elem *)
    match chain_walk (skipn n c) (k_id k) n with
    | inl i => (L, with_chain t idx (chain_store c i value), 0)
    | inr n' =>
      match ktable_alloc_elem cfg t (ktelem_bytes cfg) ext fail L with
      | (L', t', None) => (L', t', ERR_MEM)
      | (L', t', Some p) =>
        (* fill the element, then release-store it into link number n' *)
        (L', with_chain t' idx (firstn n' c ++ [mkE (k_dtor k) (k_id k) value p]), 0)
      end
    end
  end.

(* ABTI_ktable_set on the unit's p_keytable word ([None] = NULL).  Sequentially the
   CAS NULL -> LOCKED succeeds at once.  [failc]/[faile]: failure of the table / element
   allocation if one is attempted. *)
Definition ktable_set (cfg : kcfg) (gsize : Z) (ot : option ktable) (k : key) (value : Z)
           (ext failc faile : bool) (L : ledger) : ledger * option ktable * Z :=
  match ot with
  | Some t =>
      match ktable_set_impl cfg t k value ext faile L with
      | (L', t', rc) => (L', Some t', rc)
      end
  | None =>
      match ktable_create cfg gsize ext failc L with
      | (L', None) => (L', None, ERR_MEM)         (* store NULL back, return the error *)
      | (L', Some t) =>                            (* publish the table, then set *)
          match ktable_set_impl cfg t k value ext faile L' with
          | (L'', t', rc) => (L'', Some t', rc)
          end
      end
  end.

(* ABTI_ktable_set_unsafe (used by ythread_create before the unit is visible) *)
Definition ktable_set_unsafe (cfg : kcfg) (gsize : Z) (ot : option ktable) (k : key) (value : Z)
           (ext failc faile : bool) (L : ledger) : ledger * option ktable * Z :=
  match ot with
  | Some t =>
      match ktable_set_impl cfg t k value ext faile L with
      | (L', t', rc) => (L', Some t', rc)
      end
  | None =>
      match ktable_create cfg gsize ext failc L with
      | (L', None) => (L', None, ERR_MEM)
      | (L', Some t) =>
          match ktable_set_impl cfg t k value ext faile L' with
          | (L'', t', rc) => (L'', Some t', rc)
          end
      end
  end.

Fixpoint chain_get (c : list ktelem) (id : Z) : Z :=
  match c with
  | [] => 0
  | e :: c' => if e_key e =? id then e_val e else chain_get c' id
  end.
(* ABTI_ktable_get *)
Definition ktable_get (ot : option ktable) (k : key) : Z :=
  match ot with
  | Some t => chain_get (nth_chain t (get_idx (k_id k) (t_size t))) (k_id k)
  | None => 0
  end.

(* ABTI_ktable_free: destructor calls slot by slot, chain order; then the walk over
   p_used_mem releasing each header with the releaser its flag selects. *)
Definition elem_dtor_call (e : ktelem) : list (Z * Z) :=
  if negb (e_dtor e =? 0) && negb (e_val e =? 0) then [(e_dtor e, e_val e)] else [].
Definition table_dtor_calls (t : ktable) : list (Z * Z) :=
  flat_map (fun c => flat_map elem_dtor_call c) (t_elems t).
Definition release_chain (used : list (Z * bool)) (L : ledger) : ledger :=
  fold_left (fun L (h : Z * bool) => l_release L (fst h) (if snd h then RDesc else RFree)) used L.
Definition ktable_free (t : ktable) (L : ledger) : list (Z * Z) * ledger :=
  (table_dtor_calls t, release_chain (t_used t) L).

(* ------------------------------------------------------------------ the API level *)
(* keys by handle (creation order); a freed key keeps its entry (its id and destructor
   live on in the elements) with the flag cleared *)
Record world := mkW {
  w_gsize  : Z;                           (* p_global->key_table_size *)
  w_keyctr : Z;                           (* g_key_id *)
  w_keys   : list (key * bool);
  w_units  : list (Z * option ktable);    (* live work units: uid -> p_keytable *)
  w_led    : ledger;
  w_dlog   : list (Z * Z)                 (* all destructor calls so far (dtor, value) *)
}.
Definition KEY_ID_END : Z := 2.
Definition mig_key : key := mkK 99 1.     (* g_thread_mig_data_key: destructor number 99 stands for
                                             thread_key_destructor_migration, id ABTI_KEY_ID_MIGRATION *)
Definition MIGVAL : Z := -1.              (* the calloc'ed ABTI_thread_mig_data (opaque, non-NULL) *)
Definition world0 (env : option Z) : world :=
  mkW (env_key_table_size env) KEY_ID_END [] [] ledger0 [].

Inductive op :=
| OKeyCreate (dtor : Z)                     (* ABT_key_create *)
| OKeyFree (h : nat)                        (* ABT_key_free *)
| OKeyJump (n : Z)                          (* white box: g_key_id := n *)
| OUnitCreate (u : Z) (ext mig : bool)      (* ABT_thread_create / ABT_task_create; mig: attribute with
                                               a migration callback -> ABTI_ktable_set_unsafe(mig key) *)
| OSet (ext : bool) (u : Z) (h : nat) (v : Z) (failc faile : bool)
                                            (* ABT_key_set / ABT_self_set_specific (u = caller) /
                                               ABT_thread_set_specific (any u) *)
| OGet (u : Z) (h : nat)                    (* ABT_key_get / ABT_self_get_specific / ABT_thread_get_specific *)
| OSelfExt (h : nat)                        (* ABT_key_set/get, ABT_self_set/get_specific called by an external thread *)
| OMigData (ext : bool) (u : Z)             (* ABTI_thread_get_mig_data (via ABT_thread_set_callback) *)
| ORevive (u : Z)                           (* ABT_thread_revive / ABT_task_revive: p_keytable untouched *)
| OFree (u : Z).                            (* thread_free *)

Inductive res :=
| RKey (id : Z)               (* new key's id *)
| RRc (rc : Z)
| RVal (v : Z)
| RFreed (calls : list (Z * Z))
| RInvalid.                    (* the op is not legal here (unknown unit/key): C would be UB; nothing happens *)

Fixpoint find_unit (us : list (Z * option ktable)) (u : Z) : option (option ktable) :=
  match us with
  | [] => None
  | (u', t) :: us' => if u' =? u then Some t else find_unit us' u
  end.
Fixpoint set_unit (us : list (Z * option ktable)) (u : Z) (t : option ktable) : list (Z * option ktable) :=
  match us with
  | [] => []
  | (u', t') :: us' => if u' =? u then (u', t) :: us' else (u', t') :: set_unit us' u t
  end.
Fixpoint del_unit (us : list (Z * option ktable)) (u : Z) : list (Z * option ktable) :=
  match us with
  | [] => []
  | (u', t') :: us' => if u' =? u then us' else (u', t') :: del_unit us' u
  end.
Definition W2 := 4294967296.

Definition wstep (cfg : kcfg) (w : world) (o : op) : world * res :=
  match o with
  | OKeyCreate d =>
      (* p_newkey->id = fetch_add(&g_key_id, 1)  (uint32) *)
      (mkW (w_gsize w) ((w_keyctr w + 1) mod W2) (w_keys w ++ [(mkK d (w_keyctr w), true)])
           (w_units w) (w_led w) (w_dlog w), RKey (w_keyctr w))
  | OKeyFree h =>
      match nth_error (w_keys w) h with
      | Some (k, true) =>
          (mkW (w_gsize w) (w_keyctr w) (upd_nth (w_keys w) h (k, false)) (w_units w) (w_led w) (w_dlog w),
           RRc 0)
      | Some (k, false) => (w, RRc ERR_INV_KEY)      (* the handle is ABT_KEY_NULL by now *)
      | None => (w, RInvalid)
      end
  | OKeyJump n =>
      (mkW (w_gsize w) (n mod W2) (w_keys w) (w_units w) (w_led w) (w_dlog w), RRc 0)
  | OUnitCreate u ext mig =>
      match find_unit (w_units w) u with
      | Some _ => (w, RInvalid)
      | None =>
          if mig then
            match ktable_set_unsafe cfg (w_gsize w) None mig_key MIGVAL ext false false (w_led w) with
            | (L', ot, rc) =>
                (mkW (w_gsize w) (w_keyctr w) (w_keys w) (w_units w ++ [(u, ot)]) L' (w_dlog w), RRc rc)
            end
          else
            (mkW (w_gsize w) (w_keyctr w) (w_keys w) (w_units w ++ [(u, None)]) (w_led w) (w_dlog w), RRc 0)
      end
  | OSet ext u h v failc faile =>
      match nth_error (w_keys w) h, find_unit (w_units w) u with
      | Some (k, true), Some ot =>
          match ktable_set cfg (w_gsize w) ot k v ext failc faile (w_led w) with
          | (L', ot', rc) =>
              (mkW (w_gsize w) (w_keyctr w) (w_keys w) (set_unit (w_units w) u ot') L' (w_dlog w), RRc rc)
          end
      | Some (k, false), Some _ => (w, RRc ERR_INV_KEY)
      | _, _ => (w, RInvalid)
      end
  | OGet u h =>
      match nth_error (w_keys w) h, find_unit (w_units w) u with
      | Some (k, true), Some ot => (w, RVal (ktable_get ot k))
      | Some (k, false), Some _ => (w, RRc ERR_INV_KEY)
      | _, _ => (w, RInvalid)
      end
  | OSelfExt h =>
      match nth_error (w_keys w) h with
      | Some (k, true) => (w, RRc ERR_INV_XSTREAM)
      | Some (k, false) => (w, RRc ERR_INV_KEY)
      | None => (w, RInvalid)
      end
  | OMigData ext u =>
      match find_unit (w_units w) u with
      | Some ot =>
          if ktable_get ot mig_key =? 0 then
            match ktable_set cfg (w_gsize w) ot mig_key MIGVAL ext false false (w_led w) with
            | (L', ot', rc) =>
                (mkW (w_gsize w) (w_keyctr w) (w_keys w) (set_unit (w_units w) u ot') L' (w_dlog w), RRc rc)
            end
          else (w, RRc 0)
      | None => (w, RInvalid)
      end
  | ORevive u =>
      match find_unit (w_units w) u with
      | Some _ => (w, RRc 0)
      | None => (w, RInvalid)
      end
  | OFree u =>
      match find_unit (w_units w) u with
      | Some (Some t) =>
          let (calls, L') := ktable_free t (w_led w) in
          (mkW (w_gsize w) (w_keyctr w) (w_keys w) (del_unit (w_units w) u) L' (w_dlog w ++ calls),
           RFreed calls)
      | Some None =>
          (mkW (w_gsize w) (w_keyctr w) (w_keys w) (del_unit (w_units w) u) (w_led w) (w_dlog w), RFreed [])
      | None => (w, RInvalid)
      end
  end.

Fixpoint wrun (cfg : kcfg) (w : world) (ops : list op) : world * list res :=
  match ops with
  | [] => (w, [])
  | o :: ops' => let (w', r) := wstep cfg w o in
                 let (w'', rs) := wrun cfg w' ops' in (w'', r :: rs)
  end.
