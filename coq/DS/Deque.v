(* C07 — the abstract double-ended queue the pools are compared with: a plain
   [list id], head = first element.  Definitions only. *)
From Coq Require Import List Arith Bool.
From ABT Require Import DS.ThreadQueue.
Import ListNotations.

Definition dq_push_head (l : list id) (u : id) : list id := u :: l.
Definition dq_push_tail (l : list id) (u : id) : list id := l ++ [u].
Definition dq_pop_head (l : list id) : list id * ptr :=
  match l with [] => ([], None) | x :: l' => (l', Some x) end.
Definition dq_pop_tail (l : list id) : list id * ptr :=
  match l with [] => ([], None) | x :: _ => (removelast l, Some (last l x)) end.
(* delete the (first) occurrence of u *)
Fixpoint dq_del (l : list id) (u : id) : list id :=
  match l with
  | [] => []
  | x :: l' => if Nat.eqb x u then l' else x :: dq_del l' u
  end.
Definition memb (u : id) (l : list id) : bool := existsb (Nat.eqb u) l.
(* remove: succeeds iff the unit is in the queue *)
Definition dq_remove (l : list id) (u : id) : list id * bool :=
  if memb u l then (dq_del l u, true) else (l, false).
