(* Proofs about DS/MemPool.v.  Part 4: the executable observation [all_blocks]
   computes the abstract footprint; the theorems. *)
From Coq Require Import List ZArith Bool Lia Permutation.
From ABT Require Import Common.ListAux DS.SyncLifo DS.SyncLifoProofs DS.MemPool
     DS.MemPoolProofs DS.MemPoolProofs2 DS.MemPoolProofs3.
Import ListNotations.
Local Open Scope Z_scope.

(* ---------- uncarved remainders *)
Lemma NoDup_map_inj_in {A B} (f : A -> B) (l : list A) :
  (forall x y, In x l -> In y l -> f x = f y -> x = y) -> NoDup l -> NoDup (map f l).
Proof.
  induction l as [|a l IH]; cbn; intros Hi Hn; [constructor|].
  apply NoDup_cons_iff in Hn. destruct Hn as (Ha & Hn). constructor.
  - intros Hc. apply in_map_iff in Hc. destruct Hc as (y & He & Hy).
    assert (y = a) by (apply Hi; auto). subst. auto.
  - apply IH; auto.
Qed.

Lemma uncarved_in g x :
  In x (uncarved g) <->
  exists p slot, 1 <= p <= g_npages g /\ pg_carved (g_pages g p) <= slot < g_S g /\
                 x = blk_id (g_S g) p slot.
Proof.
  unfold uncarved. rewrite in_concat. split.
  - intros (l & Hl & Hx). apply in_map_iff in Hl. destruct Hl as (p & <- & Hp).
    apply in_map_iff in Hx. destruct Hx as (slot & <- & Hs).
    apply zrange_in in Hp, Hs. exists p, slot. repeat split; auto; lia.
  - intros (p & slot & Hp & Hs & ->). eexists. split.
    + apply in_map_iff. exists p. split; [reflexivity|]. apply zrange_in. lia.
    + apply in_map_iff. exists slot. split; auto. apply zrange_in. lia.
Qed.

Lemma uncarved_nodup g :
  1 <= g_S g -> (forall p, 0 <= pg_carved (g_pages g p)) -> NoDup (uncarved g).
Proof.
  intros HS Hc. unfold uncarved. apply NoDup_concat_map.
  - apply zrange_nodup.
  - intros p _. apply NoDup_map_inj_in; [|apply zrange_nodup].
    intros s1 s2 H1 H2 He. apply zrange_in in H1, H2. specialize (Hc p).
    apply blk_id_inj in He; try lia.
  - intros p q x Hp Hq Hne Hx Hy.
    apply in_map_iff in Hx, Hy. destruct Hx as (s1 & <- & H1). destruct Hy as (s2 & He & H2).
    apply zrange_in in H1, H2. pose proof (Hc p). pose proof (Hc q).
    apply blk_id_inj in He; try lia.
Qed.

Lemma uncarved_not_carved g x :
  1 <= g_S g -> 0 <= g_npages g -> (forall p, 0 <= pg_carved (g_pages g p)) ->
  In x (uncarved g) -> carvedb g x = false.
Proof.
  intros HS Hn Hc Hx. apply uncarved_in in Hx. destruct Hx as (p & slot & Hp & Hs & ->).
  apply uncarved_ids; auto. specialize (Hc p). lia. lia.
Qed.

Lemma carved_or_uncarved g b :
  1 <= g_S g -> 0 <= g_npages g -> (forall p, 0 <= pg_carved (g_pages g p)) ->
  1 <= b <= total_blocks g -> carvedb g b = true \/ In b (uncarved g).
Proof.
  intros HS Hn Hc Hb. unfold total_blocks in Hb.
  set (p := (b - 1) / g_S g + 1). set (slot := (b - 1) mod g_S g).
  assert (Hslot : 0 <= slot < g_S g) by (apply Z.mod_pos_bound; lia).
  assert (Hp : 1 <= p <= g_npages g).
  { unfold p. pose proof (Z.div_pos (b - 1) (g_S g) ltac:(lia) ltac:(lia)).
    assert ((b - 1) / g_S g < g_npages g) by (apply Z.div_lt_upper_bound; nia). lia. }
  assert (He : b = blk_id (g_S g) p slot) by (apply blk_id_decomp; lia).
  destruct (Z.ltb_spec slot (pg_carved (g_pages g p))).
  - left. apply carvedb_true; auto. exists p, slot. repeat split; auto; lia.
  - right. apply uncarved_in. exists p, slot. repeat split; auto; lia.
Qed.

(* ---------- the observation functions compute the abstract lists *)
Lemma take_chain_len hp p l : chainN hp p l -> take_chain hp p (Z.to_nat (Z.of_nat (length l))) = l.
Proof. intros. rewrite Nat2Z.id. now apply take_chain_chain. Qed.

Lemma lp_buckets_abs g l f0 cur :
  lrep g (Some l) (Some (f0, cur)) -> concat (lp_buckets g l) = f0 ++ cur.
Proof.
  intros (Hf & Hc & Hne & Hi & Hle). unfold lp_buckets. rewrite Hi.
  rewrite (take_chain_len _ _ _ Hc).
  destruct Hf as [(Hb & ->)|(Hb & Hcf & Hlf & Hif)]; rewrite Hb.
  - cbn. now rewrite app_nil_r.
  - change (Z.to_nat 1) with 1%nat. cbn [seq map]. change (lget l (Z.of_nat 0)) with (l_b0 l).
    rewrite <- Hlf, (take_chain_len _ _ _ Hcf). cbn. now rewrite app_nil_r.
Qed.

Lemma locals_abs g ls la :
  Forall2 (lrep g) ls la ->
  concat (map (fun ol => match ol with Some l => concat (lp_buckets g l) | None => [] end) ls) = lfoot la.
Proof.
  induction 1; [reflexivity|]. rewrite lfoot_cons. cbn [map concat]. rewrite IHForall2. f_equal.
  destruct x as [lp|], y as [[f0 cur]|]; cbn [lrep] in H; try tauto.
  now apply lp_buckets_abs.
Qed.

Lemma length_le_concat (ls : list (list Z)) :
  (forall l, In l ls -> l <> []) -> (length ls <= length (concat ls))%nat.
Proof.
  induction ls as [|l ls IH]; cbn; intros H; [lia|]. rewrite app_length.
  assert (l <> []) by (apply H; left; auto). destruct l; [congruence|]. cbn.
  specialize (IH (fun l' Hl' => H l' (or_intror Hl'))). lia.
Qed.

Lemma buckets_take g (ls : list (list Z)) :
  (forall l, In l ls -> bucket_ok g l) ->
  map (fun x => take_chain (g_hp g) (hd 0 x) (Z.to_nat (g_N g))) ls = ls.
Proof.
  induction ls as [|l ls IH]; intros HB; cbn [map]; auto. rewrite IH.
  - f_equal. destruct (HB l (or_introl eq_refl)) as (Hc & Hl). rewrite <- Hl. now apply take_chain_len.
  - intros l' Hl'. apply HB. right; auto.
Qed.

Lemma lifo_abs g a fuel :
  GH g a -> (length (a_lifo a) < fuel)%nat -> lifo_buckets g fuel = a_lifo a.
Proof.
  intros (HN & [HL HB] & _) Hf. unfold lifo_buckets, lifo_heads.
  change (fun b : Z => h_info (g_hp g b)) with (hinfo g).
  rewrite (lchain_walk _ _ _ HL) by (rewrite map_length; auto).
  rewrite map_map. rewrite Forall_forall in HB. now apply buckets_take.
Qed.

Lemma partial_abs g a :
  GH g a -> partial_blocks g = firstn (Z.to_nat (h_info (g_hp g (g_partial g)))) (a_pl a).
Proof.
  intros (_ & _ & [(Hp & Hpl)|(Hp & Hc & Hne & Hle)]); unfold partial_blocks.
  - rewrite Hp, Hpl, firstn_nil. destruct (Z.to_nat _); reflexivity.
  - apply take_chain_firstn; auto. lia.
Qed.

Lemma all_blocks_abs s a la :
  Inv s a la ->
  all_blocks s = st_alloc s ++ lfoot la ++ concat (a_lifo a) ++
                 firstn (Z.to_nat (h_info (g_hp (st_g s) (g_partial (st_g s))))) (a_pl a) ++
                 uncarved (st_g s).
Proof.
  intros [HG HL Hnd Hcv]. unfold all_blocks. destruct HG as (HGH & HGP).
  rewrite (locals_abs _ _ _ HL), (partial_abs _ _ HGH). rewrite (lifo_abs _ a); auto.
  (* the LIFO holds at most total_blocks buckets *)
  pose proof HGH as (HN & [_ HB] & _). rewrite Forall_forall in HB.
  assert (Hne : forall l, In l (a_lifo a) -> l <> []).
  { intros l Hl ->. destruct (HB _ Hl) as (_ & H). cbn in H. lia. }
  pose proof (length_le_concat _ Hne) as Hlen.
  assert (Hb : (length (concat (a_lifo a)) <= Z.to_nat (total_blocks (st_g s) + 1 - 1))%nat).
  { apply nodup_bounded_length.
    - unfold foot, FG in Hnd. nd_split Hnd. auto.
    - intros x Hx. assert (Hc : carvedb (st_g s) x = true).
      { apply Hcv. unfold foot, FG. rewrite !in_app_iff. tauto. }
      unfold carvedb in Hc. rewrite !andb_true_iff, !Z.leb_le in Hc. lia. }
  replace (total_blocks (st_g s) + 1 - 1) with (total_blocks (st_g s)) in Hb by lia. lia.
Qed.

(* ---------- the theorems *)
Section Thm.
Variable remf : Z -> Z -> Z -> Z.
Hypothesis remf_le : forall N P B, N <= P + B -> remf N P B <= P + B - N.

Lemma all_blocks_nodup s a la : Inv s a la -> NoDup (all_blocks s).
Proof.
  intros HI. rewrite (all_blocks_abs s a la HI). destruct HI as [HG HL Hnd Hcv].
  destruct HG as (HGH & [P1 P2 P3 P4 P5 P6 P7 P8]).
  set (k := Z.to_nat _). unfold foot, FG in *.
  set (U := uncarved (st_g s)).
  assert (HU : NoDup U) by (apply uncarved_nodup; auto; intros p; apply P8).
  assert (HUd : forall x, In x U -> ~ In x (st_alloc s ++ lfoot la ++ concat (a_lifo a) ++ a_pl a ++ a_lost a)).
  { intros x Hx Hy. apply Hcv in Hy. rewrite (uncarved_not_carved (st_g s) x) in Hy; auto; try discriminate.
    intros p; apply P8. }
  assert (Hsub : forall x, In x (firstn k (a_pl a)) -> In x (a_pl a)).
  { intros x Hx. rewrite <- (firstn_skipn k (a_pl a)). apply in_or_app; auto. }
  assert (Hnd1 : NoDup (st_alloc s ++ lfoot la ++ concat (a_lifo a) ++ firstn k (a_pl a))).
  { rewrite <- (firstn_skipn k (a_pl a)) in Hnd.
    assert (Hp : Permutation (st_alloc s ++ lfoot la ++ concat (a_lifo a) ++
                              (firstn k (a_pl a) ++ skipn k (a_pl a)) ++ a_lost a)
                             ((st_alloc s ++ lfoot la ++ concat (a_lifo a) ++ firstn k (a_pl a)) ++
                              (skipn k (a_pl a) ++ a_lost a))) by perm.
    eapply Permutation_NoDup in Hnd; [|exact Hp]. apply NoDup_app_iff in Hnd. tauto. }
  replace (st_alloc s ++ lfoot la ++ concat (a_lifo a) ++ firstn k (a_pl a) ++ U)
    with ((st_alloc s ++ lfoot la ++ concat (a_lifo a) ++ firstn k (a_pl a)) ++ U)
    by (rewrite <- !app_assoc; reflexivity).
  apply NoDup_app_iff. split; auto. split; auto.
  intros x Hx Hy. apply (HUd x Hy). rewrite !in_app_iff in *. intuition.
Qed.

(* C15_exclusive, for any remaining-count expression that does not exceed the
   true remainder (both the patched and the unpatched code) *)
Theorem exclusive_gen N S budget np ops s rs :
  1 <= N -> 1 <= S ->
  run_gen remf (init_state N S budget np) ops = Some (s, rs) -> NoDup (all_blocks s).
Proof.
  intros HN HS Hr. destruct (inv_init N S budget np HN HS) as (HI & _).
  destruct (run_inv remf remf_le ops _ _ _ _ _ HI Hr) as (a' & la' & HI' & _).
  eapply all_blocks_nodup; eauto.
Qed.

(* every block in a free chain, in the partial bucket or in client hands was
   carved from a page and is not part of any uncarved remainder; its id is valid *)
Theorem all_blocks_valid N S budget np ops s rs b :
  1 <= N -> 1 <= S ->
  run_gen remf (init_state N S budget np) ops = Some (s, rs) ->
  In b (all_blocks s) -> 1 <= b <= total_blocks (st_g s).
Proof.
  intros HN HS Hr Hb. destruct (inv_init N S budget np HN HS) as (HI & _).
  destruct (run_inv remf remf_le ops _ _ _ _ _ HI Hr) as (a' & la' & HI' & _).
  rewrite (all_blocks_abs s a' la' HI') in Hb. destruct HI' as [HG HL Hnd Hcv].
  set (k := Z.to_nat _) in *.
  assert (Hcase : In b (foot s a' la') \/ In b (uncarved (st_g s))).
  { unfold foot, FG. rewrite !in_app_iff in *.
    assert (In b (firstn k (a_pl a')) -> In b (a_pl a')).
    { intros Hx. rewrite <- (firstn_skipn k (a_pl a')). apply in_or_app; auto. }
    intuition. }
  destruct Hcase as [Hc|Hc].
  - apply Hcv in Hc. unfold carvedb in Hc. rewrite !andb_true_iff, !Z.leb_le in Hc. lia.
  - apply uncarved_in in Hc. destruct Hc as (p & slot & Hp & Hs & ->).
    destruct HG as (_ & [P1 P2 P3 P4 P5 P6 P7 P8]). specialize (P8 p).
    pose proof (blk_id_range (g_S (st_g s)) p slot ltac:(lia) ltac:(lia) ltac:(lia)).
    unfold total_blocks. nia.
Qed.

(* the pages handed to ABTU_free_largepage by destroy_global_pool are exactly
   the pages allocated, each once *)
Theorem destroy_global_exact N S budget np ops s rs :
  1 <= N -> 1 <= S ->
  run_gen remf (init_state N S budget np) ops = Some (s, rs) ->
  NoDup (destroy_global (st_g s)) /\
  (forall p, In p (destroy_global (st_g s)) <-> 1 <= p <= g_npages (st_g s)).
Proof.
  intros HN HS Hr. destruct (inv_init N S budget np HN HS) as (HI & _).
  destruct (run_inv remf remf_le ops _ _ _ _ _ HI Hr) as (a' & la' & [HG _ _ _] & _).
  destruct HG as (_ & [P1 P2 P3 P4 P5 P6 P7 P8]). cbn [app] in *.
  assert (Hlen : (length (a_plifo a' ++ a_pempty a') <= Z.to_nat (g_npages (st_g s) + 1 - 1))%nat).
  { apply nodup_bounded_length; auto. intros x Hx. apply P6 in Hx. lia. }
  rewrite app_length in Hlen.
  unfold destroy_global.
  rewrite (lchain_walk_pages _ _ _ P3) by lia. rewrite (lchain_walk_pages _ _ _ P4) by lia.
  split; auto.
Qed.

(* the client is never refused and the model never runs out of fuel *)
Theorem no_stuck N S budget np ops s rs o :
  1 <= N -> 1 <= S ->
  run_gen remf (init_state N S budget np) ops = Some (s, rs) ->
  client_ok s o -> step_gen remf s o <> None.
Proof.
  intros HN HS Hr Hc. destruct (inv_init N S budget np HN HS) as (HI & _).
  destruct (run_inv remf remf_le ops _ _ _ _ _ HI Hr) as (a' & la' & HI' & _).
  eapply step_progress; eauto.
Qed.

(* C15_conserved, for an exact remaining-count expression *)
Hypothesis remf_eq : forall N P B, remf N P B = P + B - N.

Theorem conserved_gen N S budget np ops s rs b :
  1 <= N -> 1 <= S ->
  run_gen remf (init_state N S budget np) ops = Some (s, rs) ->
  1 <= b <= total_blocks (st_g s) -> In b (all_blocks s).
Proof.
  intros HN HS Hr Hb. destruct (inv_init N S budget np HN HS) as (HI & Ht).
  destruct (run_inv remf remf_le ops _ _ _ _ _ HI Hr) as (a' & la' & HI' & Ht').
  specialize (Ht' remf_eq Ht). destruct Ht' as (T1 & T2).
  rewrite (all_blocks_abs s a' la' HI'). pose proof HI' as [HG HL Hnd Hcv].
  destruct HG as (HGH & [P1 P2 P3 P4 P5 P6 P7 P8]).
  assert (Hfull : firstn (Z.to_nat (h_info (g_hp (st_g s) (g_partial (st_g s))))) (a_pl a') = a_pl a').
  { destruct HGH as (_ & _ & [(Hp & Hpl)|(Hp & _)]).
    - rewrite Hpl. apply firstn_nil.
    - rewrite T2 by auto. rewrite Nat2Z.id. apply firstn_all. }
  rewrite Hfull.
  destruct (carved_or_uncarved (st_g s) b) as [Hc|Hu]; auto.
  - intros p; apply P8.
  - apply Hcv in Hc. unfold foot, FG in Hc. rewrite T1, app_nil_r in Hc.
    rewrite !in_app_iff in *. tauto.
  - rewrite !in_app_iff. tauto.
Qed.
End Thm.

Lemma rem_fixed_le N P B : N <= P + B -> rem_fixed N P B <= P + B - N.
Proof. unfold rem_fixed. lia. Qed.
Lemma rem_buggy_le N P B : N <= P + B -> rem_buggy N P B <= P + B - N.
Proof. unfold rem_buggy. lia. Qed.
