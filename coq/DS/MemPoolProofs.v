(* Proofs about DS/MemPool.v.  Part 1: chains, frames, block-id arithmetic. *)
From Coq Require Import List ZArith Bool Lia Permutation.
From ABT Require Import Common.ListAux DS.SyncLifo DS.SyncLifoProofs DS.MemPool.
Import ListNotations.
Local Open Scope Z_scope.

(* ---------- p_next chains of headers: [chainN hp p l] = following p_next from
   p visits exactly the blocks of l, in order (nothing is said about what comes
   after the last one) *)
Inductive chainN (hp : Z -> hdr) : Z -> list Z -> Prop :=
| cn_nil p : chainN hp p []
| cn_cons p l : p <> 0 -> chainN hp (h_next (hp p)) l -> chainN hp p (p :: l).

Lemma chainN_ext hp hp' p l :
  chainN hp p l -> (forall x, In x l -> h_next (hp' x) = h_next (hp x)) -> chainN hp' p l.
Proof.
  induction 1; intros He; constructor; auto.
  rewrite He by (left; auto). apply IHchainN. intros; apply He; right; auto.
Qed.

Lemma chainN_nonzero hp p l x : chainN hp p l -> In x l -> x <> 0.
Proof. induction 1; intros Hi; [destruct Hi|destruct Hi as [->|Hi]; auto]. Qed.

Lemma chainN_hd hp p l : chainN hp p l -> l <> [] -> hd 0 l = p.
Proof. destruct 1; cbn; congruence. Qed.

Definition lastz (p : Z) (l : list Z) : Z := last l p.

(* splitting / joining *)
Lemma chainN_app hp p l1 l2 :
  chainN hp p (l1 ++ l2) <->
  chainN hp p l1 /\ chainN hp (match l1 with [] => p | _ => h_next (hp (last l1 0)) end) l2.
Proof.
  revert p; induction l1 as [|a l1 IH]; intros p; cbn [app].
  - split; [intros H; split; [constructor|auto]|tauto].
  - split.
    + intros H. inversion H; subst. apply IH in H4. destruct H4 as (H4 & H5). split.
      * constructor; auto.
      * destruct l1; auto.
    + intros (H1 & H2). inversion H1; subst. constructor; auto. apply IH. split; auto.
      destruct l1; auto.
Qed.

Lemma chainN_firstn hp p l k : chainN hp p l -> chainN hp p (firstn k l).
Proof.
  intros H. rewrite <- (firstn_skipn k l) in H. apply chainN_app in H. tauto.
Qed.

Lemma walk_next_chain hp p l k :
  chainN hp p l -> (k < length l)%nat -> walk_next hp p k = nth k l 0.
Proof.
  intros H; revert k; induction H; intros k Hk; cbn in Hk; [lia|].
  destruct k; cbn; auto. apply IHchainN. lia.
Qed.

Lemma chainN_skipn hp p l k :
  chainN hp p l -> (k < length l)%nat -> chainN hp (nth k l 0) (skipn k l).
Proof.
  intros H; revert k; induction H; intros k Hk; cbn in Hk; [lia|].
  destruct k; cbn.
  - constructor; auto.
  - apply IHchainN. lia.
Qed.

Lemma take_chain_chain hp p l : chainN hp p l -> take_chain hp p (length l) = l.
Proof.
  induction 1; cbn; auto. destruct (Z.eqb_spec p 0); [congruence|]. now rewrite IHchainN.
Qed.

Lemma take_chain_firstn hp p l k : chainN hp p l -> (k <= length l)%nat -> take_chain hp p k = firstn k l.
Proof.
  intros H Hk. rewrite <- (take_chain_chain hp p (firstn k l)).
  - now rewrite firstn_length_le.
  - now apply chainN_firstn.
Qed.

Lemma last_in {A} (l : list A) d : l <> [] -> In (last l d) l.
Proof.
  induction l as [|a l IH]; [congruence|]. intros _. destruct l; [left; auto|].
  right. apply IH. discriminate.
Qed.

Lemma nth_length_cons {A} (a : A) l d : nth (length l) (a :: l) d = last (a :: l) d.
Proof.
  revert a; induction l as [|b l IH]; intros a; auto.
  transitivity (nth (length l) (b :: l) d); [reflexivity|]. rewrite IH. reflexivity.
Qed.

(* set_next / set_info *)
Lemma set_next_next hp b v x : h_next (set_next hp b v x) = if x =? b then v else h_next (hp x).
Proof. unfold set_next, upd. destruct (x =? b); auto. Qed.
Lemma set_next_info hp b v x : h_info (set_next hp b v x) = h_info (hp x).
Proof. unfold set_next, upd. destruct (Z.eqb_spec x b); subst; auto. Qed.
Lemma set_info_next hp b v x : h_next (set_info hp b v x) = h_next (hp x).
Proof. unfold set_info, upd. destruct (Z.eqb_spec x b); subst; auto. Qed.
Lemma set_info_info hp b v x : h_info (set_info hp b v x) = if x =? b then v else h_info (hp x).
Proof. unfold set_info, upd. destruct (x =? b); auto. Qed.
Lemma set_info_other hp b v x : x <> b -> set_info hp b v x = hp x.
Proof. intros. unfold set_info. now apply upd_other. Qed.
Lemma set_next_other hp b v x : x <> b -> set_next hp b v x = hp x.
Proof. intros. unfold set_next. now apply upd_other. Qed.

Lemma chainN_set_info hp b v p l : chainN hp p l -> chainN (set_info hp b v) p l.
Proof. intros H. eapply chainN_ext; eauto. intros. apply set_info_next. Qed.

Lemma chainN_set_info_iff hp b v p l : chainN (set_info hp b v) p l <-> chainN hp p l.
Proof.
  split; [|apply chainN_set_info]. intros H. eapply chainN_ext; eauto.
  intros. now rewrite set_info_next.
Qed.

(* lchain (from SyncLifoProofs) under a change of the link function *)
Lemma lchain_ext nx nx' p l :
  lchain nx p l -> (forall x, In x l -> nx' x = nx x) -> lchain nx' p l.
Proof.
  induction 1; intros He; constructor; auto.
  rewrite He by (left; auto). apply IHlchain. intros; apply He; right; auto.
Qed.

Lemma lchain_walk_pages nx p l : lchain nx p l -> forall f, (length l < f)%nat -> walk_pages nx p f = l.
Proof.
  induction 1; intros f Hf; destruct f; cbn in *; try lia; auto.
  destruct (Z.eqb_spec e 0); [congruence|]. f_equal. apply IHlchain. lia.
Qed.

(* ---------- block ids *)
Lemma blk_id_page S p slot : 0 < S -> 0 <= slot < S -> (blk_id S p slot - 1) / S + 1 = p.
Proof.
  intros HS Hs. unfold blk_id. replace ((p - 1) * S + slot + 1 - 1) with (slot + (p - 1) * S) by ring.
  rewrite Z.div_add by lia. rewrite Z.div_small by lia. ring.
Qed.
Lemma blk_id_slot S p slot : 0 < S -> 0 <= slot < S -> (blk_id S p slot - 1) mod S = slot.
Proof.
  intros HS Hs. unfold blk_id. replace ((p - 1) * S + slot + 1 - 1) with (slot + (p - 1) * S) by ring.
  rewrite Z.mod_add by lia. apply Z.mod_small; lia.
Qed.
Lemma blk_id_decomp S b : 0 < S -> b = blk_id S ((b - 1) / S + 1) ((b - 1) mod S).
Proof.
  intros HS. unfold blk_id. pose proof (Z.div_mod (b - 1) S ltac:(lia)). lia.
Qed.
Lemma blk_id_range S p slot : 0 < S -> 1 <= p -> 0 <= slot < S ->
  (p - 1) * S + 1 <= blk_id S p slot <= p * S.
Proof. intros. unfold blk_id. nia. Qed.
Lemma blk_id_inj S p1 s1 p2 s2 : 0 < S -> 0 <= s1 < S -> 0 <= s2 < S ->
  blk_id S p1 s1 = blk_id S p2 s2 -> p1 = p2 /\ s1 = s2.
Proof.
  intros HS H1 H2 He. split.
  - rewrite <- (blk_id_page S p1 s1), <- (blk_id_page S p2 s2) by auto. now rewrite He.
  - rewrite <- (blk_id_slot S p1 s1), <- (blk_id_slot S p2 s2) by auto. now rewrite He.
Qed.
Lemma blk_id_succ S p slot : blk_id S p slot + 1 = blk_id S p (slot + 1).
Proof. unfold blk_id. ring. Qed.

Lemma zrange_in a b x : In x (zrange a b) <-> a <= x < b.
Proof.
  unfold zrange. rewrite in_map_iff. split.
  - intros (i & <- & Hi). apply in_seq in Hi. lia.
  - intros H. exists (Z.to_nat (x - a)). split; [lia|]. apply in_seq. lia.
Qed.
Lemma zrange_nodup a b : NoDup (zrange a b).
Proof.
  unfold zrange. apply FinFun.Injective_map_NoDup; [|apply seq_NoDup].
  intros i j H. lia.
Qed.
Lemma zrange_length a b : length (zrange a b) = Z.to_nat (b - a).
Proof. unfold zrange. now rewrite map_length, seq_length. Qed.

Lemma nodup_bounded_length (l : list Z) a b :
  NoDup l -> (forall x, In x l -> a <= x < b) -> (length l <= Z.to_nat (b - a))%nat.
Proof.
  intros Hn Hb. rewrite <- zrange_length. apply NoDup_incl_length; auto.
  intros x Hx. apply zrange_in. auto.
Qed.

Lemma NoDup_concat_map {A} (f : A -> list Z) (ps : list A) :
  NoDup ps -> (forall p, In p ps -> NoDup (f p)) ->
  (forall p q x, In p ps -> In q ps -> p <> q -> In x (f p) -> ~ In x (f q)) ->
  NoDup (concat (map f ps)).
Proof.
  induction ps as [|p ps IH]; cbn; intros Hn Hf Hd; [constructor|].
  apply NoDup_cons_iff in Hn. destruct Hn as (Hp & Hn).
  apply NoDup_app_iff. split; [apply Hf; left; auto|]. split.
  - apply IH; auto.
    intros q r x Hq Hr Hne Hx. apply (Hd q r x (or_intror Hq) (or_intror Hr) Hne Hx).
  - intros x Hx Hc. apply in_concat in Hc. destruct Hc as (l & Hl & Hxl).
    apply in_map_iff in Hl. destruct Hl as (q & <- & Hq).
    assert (Hpq : p <> q) by (intros ->; auto).
    exact (Hd p q x (or_introl eq_refl) (or_intror Hq) Hpq Hx Hxl).
Qed.

Lemma remove1_perm b l : In b l -> Permutation l (b :: remove1 b l).
Proof.
  induction l as [|x l IH]; [intros []|]. intros Hi. cbn.
  destruct (Z.eqb_spec x b) as [->|Hne]; auto.
  destruct Hi as [->|Hi]; [congruence|]. rewrite perm_swap. constructor. auto.
Qed.

Lemma existsb_eqb_in b l : existsb (Z.eqb b) l = true -> In b l.
Proof.
  intros H. apply existsb_exists in H. destruct H as (y & Hy & He). apply Z.eqb_eq in He. now subst.
Qed.
