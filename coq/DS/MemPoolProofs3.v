(* Proofs about DS/MemPool.v.  Part 3: local pools, the client, the state
   invariant, and the theorems C15_exclusive / C15_conserved (and its
   refutation for the unpatched remaining-count expression). *)
From Coq Require Import List ZArith Bool Lia Permutation.
From ABT Require Import Common.ListAux DS.SyncLifo DS.SyncLifoProofs DS.MemPool DS.MemPoolProofs DS.MemPoolProofs2.
Import ListNotations.
Local Open Scope Z_scope.

(* abstract content of a local pool: (the full bucket buckets[0] when
   bucket_index = 1, else []; the current bucket) *)
Definition labs := option (list Z * list Z).
Definition lblocks (o : labs) : list Z :=
  match o with Some (f0, cur) => f0 ++ cur | None => [] end.

Definition lrep (g : gpool) (ol : option lpool) (oa : labs) : Prop :=
  match ol, oa with
  | None, None => True
  | Some l, Some (f0, cur) =>
      ((l_idx l = 0 /\ f0 = []) \/
       (l_idx l = 1 /\ chainN (g_hp g) (l_b0 l) f0 /\ Z.of_nat (length f0) = g_N g /\
        h_info (g_hp g (l_b0 l)) = g_N g)) /\
      chainN (g_hp g) (lget l (l_idx l)) cur /\ cur <> [] /\
      h_info (g_hp g (lget l (l_idx l))) = Z.of_nat (length cur) /\
      Z.of_nat (length cur) <= g_N g
  | _, _ => False
  end.

Definition lfoot (la : list labs) : list Z := concat (map lblocks la).
Definition foot (s : state) (a : absg) (la : list labs) : list Z :=
  st_alloc s ++ lfoot la ++ FG a.

Record Inv (s : state) (a : absg) (la : list labs) : Prop := mkInv {
  I_G : G (st_g s) a;
  I_L : Forall2 (lrep (st_g s)) (st_l s) la;
  I_nd : NoDup (foot s a la);
  I_cv : forall b, In b (foot s a la) <-> carvedb (st_g s) b = true
}.

Lemma lrep_frame g g' ol oa :
  1 <= g_N g -> lrep g ol oa -> g_N g' = g_N g -> (forall x, In x (lblocks oa) -> g_hp g' x = g_hp g x) ->
  lrep g' ol oa.
Proof.
  intros HN1. destruct ol as [l|], oa as [[f0 cur]|]; cbn; auto.
  intros (Hf & Hc & Hne & Hi & Hle) HN Hfr.
  assert (Hcin : In (lget l (l_idx l)) cur).
  { destruct cur as [|y r]; [congruence|]. inversion Hc; subst. left; auto. }
  split; [|split; [|split; [auto|split]]].
  - destruct Hf as [Hf|(H1 & H2 & H3 & H4)]; [left; auto|right].
    assert (Hbin : In (l_b0 l) f0).
    { destruct f0 as [|y r]; [cbn in H3; lia|]. inversion H2; subst. left; auto. }
    repeat split; auto; try congruence.
    + eapply chainN_ext; eauto. intros x Hx. rewrite Hfr; auto. apply in_or_app; auto.
    + rewrite Hfr, HN; auto. apply in_or_app; auto.
  - eapply chainN_ext; eauto. intros x Hx. rewrite Hfr; auto. apply in_or_app; auto.
  - rewrite Hfr; auto. apply in_or_app; auto.
  - rewrite HN; auto.
Qed.

Lemma lreps_frame g g' ls la :
  1 <= g_N g -> Forall2 (lrep g) ls la -> g_N g' = g_N g -> (forall x, In x (lfoot la) -> g_hp g' x = g_hp g x) ->
  Forall2 (lrep g') ls la.
Proof.
  intros HN1. induction 1; intros HN Hfr; constructor.
  - eapply lrep_frame; eauto. intros z Hz. apply Hfr. unfold lfoot; cbn. apply in_or_app; auto.
  - apply IHForall2; auto. intros z Hz. apply Hfr. unfold lfoot; cbn. apply in_or_app; auto.
Qed.

Lemma lfoot_app l1 l2 : lfoot (l1 ++ l2) = lfoot l1 ++ lfoot l2.
Proof. unfold lfoot. now rewrite map_app, concat_app. Qed.
Lemma lfoot_cons o l : lfoot (o :: l) = lblocks o ++ lfoot l.
Proof. reflexivity. Qed.

Lemma upd_nth_app {A} (l1 l2 : list A) x y : upd_nth (l1 ++ x :: l2) (length l1) y = l1 ++ y :: l2.
Proof. induction l1; cbn; auto. now rewrite IHl1. Qed.

(* the local pool i and its abstract counterpart, with the rest of both lists *)
Lemma pick_pool g ls la i ol :
  Forall2 (lrep g) ls la -> nth_error ls i = Some ol ->
  exists L1 L2 A1 oa A2, ls = L1 ++ ol :: L2 /\ la = A1 ++ oa :: A2 /\ length L1 = i /\
    Forall2 (lrep g) L1 A1 /\ lrep g ol oa /\ Forall2 (lrep g) L2 A2 /\
    (forall ol', upd_nth ls i ol' = L1 ++ ol' :: L2).
Proof.
  intros HF Hn. apply nth_error_split in Hn. destruct Hn as (L1 & L2 & -> & Hlen).
  apply Forall2_app_inv_l in HF. destruct HF as (A1 & A2' & H1 & H2 & ->).
  inversion H2 as [|x oa l A2 Hr H3]; subst.
  exists L1, L2, A1, oa, A2. repeat split; auto. intros. apply upd_nth_app.
Qed.

(* how the two facts about the footprint move along an operation *)
Lemma foot_step g g' (f f' new : list Z) :
  NoDup f -> (forall b, In b f <-> carvedb g b = true) -> carved_step g g' new ->
  Permutation f' (f ++ new) ->
  NoDup f' /\ (forall b, In b f' <-> carvedb g' b = true).
Proof.
  intros Hn Hc (S1 & S2 & S3) Hp. split.
  - eapply Permutation_NoDup; [symmetry; exact Hp|]. apply NoDup_app_iff. split; auto. split; auto.
    intros x Hx Hy. apply Hc in Hx. rewrite (S2 x Hy) in Hx. discriminate.
  - intros b. rewrite S3, <- Hc. split.
    + intros Hb. eapply Permutation_in in Hb; [|exact Hp]. apply in_app_or in Hb. tauto.
    + intros Hb. eapply Permutation_in; [symmetry; exact Hp|]. apply in_or_app. tauto.
Qed.

Lemma carved_pos g b : carvedb g b = true -> 1 <= b.
Proof. unfold carvedb. rewrite !andb_true_iff, Z.leb_le. tauto. Qed.

Lemma G_set_hp g a hp' :
  G g a -> (forall x, In x (concat (a_lifo a) ++ a_pl a) -> hp' x = g_hp g x) -> G (set_hp g hp') a.
Proof.
  intros (H1 & H2) Hf. split; [apply GH_frame; auto|]. eapply GP_same; [|exact H2]. repeat split.
Qed.

Lemma in_FG_live a x : In x (concat (a_lifo a) ++ a_pl a) -> In x (FG a).
Proof. unfold FG. rewrite app_assoc. intros; apply in_or_app; auto. Qed.

(* pairwise disjointness out of NoDup (A ++ B ++ C ...) *)
Ltac nd_split H :=
  match type of H with
  | NoDup (_ ++ _) =>
    apply NoDup_app_iff in H;
    let h1 := fresh "Nd" in let h2 := fresh "Nd" in let h3 := fresh "Dj" in
    destruct H as (h1 & h2 & h3); nd_split h1; nd_split h2
  | _ => idtac
  end.
Ltac in_norm :=
  repeat match goal with H : In _ (_ ++ _) |- _ => rewrite in_app_iff in H end.
Ltac disj0 :=
  match goal with
  | Hd : forall x, In x _ -> ~ In x _ |- _ =>
    first [ eapply Hd; [eassumption | rewrite ?in_app_iff; tauto]
          | eapply Hd; [|eassumption]; rewrite ?in_app_iff; tauto ]
  end.
Ltac disj :=
  exfalso; in_norm;
  repeat match goal with H : In _ _ \/ _ |- _ => destruct H as [H|H] end;
  disj0.

Lemma chainN_head_in hp p l : chainN hp p l -> l <> [] -> In p l /\ p <> 0.
Proof. intros H Hne. destruct l as [|y r]; [congruence|]. inversion H; subst. split; [left|]; auto. Qed.

Section Steps.
Variable remf : Z -> Z -> Z -> Z.
Hypothesis remf_le : forall N P B, N <= P + B -> remf N P B <= P + B - N.
Definition remf_exact := forall N P B, remf N P B = P + B - N.

(* ---------- ABTI_mem_pool_alloc *)
Lemma alloc_inv s a la i l :
  Inv s a la -> nth_error (st_l s) i = Some (Some l) ->
  match lp_alloc remf (st_g s) l with
  | AOk g' l' b =>
      exists a' la', Inv (mkSt g' (upd_nth (st_l s) i (Some l')) (b :: st_alloc s)) a' la' /\
                     (remf_exact -> tight (st_g s) a -> tight g' a')
  | ANoMem g' =>
      exists a' la', Inv (mkSt g' (st_l s) (st_alloc s)) a' la' /\
                     (remf_exact -> tight (st_g s) a -> tight g' a')
  | AFuel => False
  end.
Proof.
  intros [HG HL Hnd Hcv] Hn. destruct s as [g ls alloc]; cbn [st_g st_l st_alloc] in *.
  destruct (pick_pool g ls la i (Some l) HL Hn) as (L1 & L2 & A1 & oa & A2 & -> & -> & Hlen & HL1 & Hl & HL2 & Hupd).
  destruct oa as [[f0 cur]|]; [|destruct Hl].
  pose proof HG as ((HN & HGL & HGPa) & HGP).
  destruct Hl as (Hf0 & Hc & Hne & Hi & Hle).
  destruct (chainN_head_in _ _ _ Hc Hne) as (Hcin & Hc0).
  unfold foot in *; cbn [st_alloc] in *. rewrite lfoot_app, lfoot_cons in *. cbn [lblocks] in *.
  set (R1 := lfoot A1) in *. set (R2 := lfoot A2) in *.
  unfold lp_alloc. set (bi := l_idx l) in *. set (curhd := lget l bi) in *.
  rewrite Hi.
  assert (Hidx : bi = 0 \/ bi = 1) by (destruct Hf0 as [(H & _)|(H & _)]; [left|right]; exact H).
  assert (Hlen1 : 1 <= Z.of_nat (length cur)) by (destruct cur; cbn [length]; [congruence|lia]).
  destruct (Z.eqb_spec (Z.of_nat (length cur)) 1) as [Hone|Hmore].
  - (* the current bucket becomes empty *)
    assert (Hcur : cur = [curhd]).
    { destruct cur as [|y [|z r]]; cbn in Hone; try lia. inversion Hc; subst. reflexivity. }
    destruct (Z.eqb_spec bi 0) as [Hb0|Hb1].
    + (* take a bucket from the global pool *)
      assert (Hf0' : f0 = []) by (destruct Hf0 as [(_ & H)|(H & _)]; [auto|lia]).
      subst f0. cbn [app] in *.
      pose proof (take_bucket_spec remf remf_le g a HG) as Htb.
      assert (HndFG : NoDup (FG a)) by (pose proof Hnd as H; nd_split H; auto).
      assert (HcvFG : forall x, In x (FG a) -> carvedb g x = true).
      { intros x Hx. apply Hcv. rewrite !in_app_iff. tauto. }
      specialize (Htb HndFG HcvFG).
      destruct (take_bucket remf g) as [g' b|g'|]; auto.
      * destruct Htb as (a' & new & bl & T1 & T2 & T3 & T4 & T5 & T6 & T7 & T8 & T9 & T10).
        exists a', (A1 ++ Some ([], bl) :: A2).
        assert (Hfr : forall x, In x (alloc ++ (R1 ++ cur ++ R2)) -> g_hp g' x = g_hp g x).
        { intros x Hx. apply T7; [apply Hcv; rewrite !in_app_iff in *; tauto|].
          intros Hy. pose proof Hnd as H. rewrite !app_assoc in H. apply NoDup_app_iff in H.
          destruct H as (_ & _ & H). apply (H x); auto. rewrite <- !app_assoc. auto. }
        split; [|intros; apply T10; auto].
        assert (Hperm : Permutation ((curhd :: alloc) ++ (R1 ++ ([] ++ bl) ++ R2) ++ FG a')
                                    ((alloc ++ (R1 ++ cur ++ R2) ++ FG a) ++ new)).
        { change (curhd :: alloc) with ([curhd] ++ alloc). rewrite Hcur. cbn [app].
          transitivity (alloc ++ R1 ++ R2 ++ [curhd] ++ (FG a' ++ bl)); [perm|]. rewrite T5. perm. }
        destruct (foot_step g g' _ _ new Hnd Hcv T6 Hperm) as (Hnd' & Hcv').
        constructor; cbn [st_g st_l st_alloc]; auto.
        -- rewrite Hupd. apply Forall2_app; [|constructor].
           ++ eapply lreps_frame; eauto. intros x Hx. apply Hfr. fold R1 in Hx. rewrite !in_app_iff; tauto.
           ++ cbn. split; [left; auto|]. unfold lset_idx, lset; cbn.
              assert (bl <> []) by (intros ->; cbn in T3; lia).
              repeat split; auto; lia.
           ++ eapply lreps_frame; eauto. intros x Hx. apply Hfr. fold R2 in Hx. rewrite !in_app_iff; tauto.
        -- unfold foot; cbn [st_alloc]. rewrite lfoot_app, lfoot_cons. exact Hnd'.
        -- unfold foot; cbn [st_alloc st_g]. rewrite lfoot_app, lfoot_cons. exact Hcv'.
      * destruct Htb as (a' & new & T1 & T2 & T3 & T4 & T5 & T6 & T7).
        exists a', (A1 ++ Some ([], cur) :: A2).
        assert (Hfr : forall x, In x (alloc ++ (R1 ++ cur ++ R2)) -> g_hp g' x = g_hp g x).
        { intros x Hx. apply T4; [apply Hcv; rewrite !in_app_iff in *; tauto|].
          intros Hy. pose proof Hnd as H. rewrite !app_assoc in H. apply NoDup_app_iff in H.
          destruct H as (_ & _ & H). apply (H x); auto. rewrite <- !app_assoc. auto. }
        split; [|intros; apply T7; auto].
        assert (Hperm : Permutation (alloc ++ (R1 ++ ([] ++ cur) ++ R2) ++ FG a')
                                    ((alloc ++ (R1 ++ cur ++ R2) ++ FG a) ++ new)).
        { cbn [app]. rewrite T2. perm. }
        destruct (foot_step g g' _ _ new Hnd Hcv T3 Hperm) as (Hnd' & Hcv').
        constructor; cbn [st_g st_l st_alloc]; auto.
        -- apply Forall2_app; [|constructor].
           ++ eapply lreps_frame; eauto. intros x Hx. apply Hfr. fold R1 in Hx. rewrite !in_app_iff; tauto.
           ++ apply (lrep_frame g); auto.
              ** cbn. split; [left; auto|]. repeat split; auto.
              ** intros x Hx. apply Hfr. cbn in Hx. rewrite !in_app_iff; tauto.
           ++ eapply lreps_frame; eauto. intros x Hx. apply Hfr. fold R2 in Hx. rewrite !in_app_iff; tauto.
        -- unfold foot; cbn [st_alloc]. rewrite lfoot_app, lfoot_cons. exact Hnd'.
        -- unfold foot; cbn [st_alloc st_g]. rewrite lfoot_app, lfoot_cons. exact Hcv'.
    + (* fall back to the full bucket buckets[0] *)
      assert (Hb : bi = 1) by lia.
      destruct Hf0 as [(H & _)|(_ & Hcf & Hlf & Hif)]; [fold bi in H; lia|].
      exists a, (A1 ++ Some ([], f0) :: A2). split; [|auto].
      assert (Hperm : Permutation ((curhd :: alloc) ++ (R1 ++ ([] ++ f0) ++ R2) ++ FG a)
                                  ((alloc ++ (R1 ++ (f0 ++ cur) ++ R2) ++ FG a) ++ [])).
      { change (curhd :: alloc) with ([curhd] ++ alloc). rewrite Hcur. perm. }
      destruct (foot_step g g _ _ [] Hnd Hcv (carved_step_nil g g (fun _ => eq_refl)) Hperm) as (Hnd' & Hcv').
      constructor; cbn [st_g st_l st_alloc]; auto.
      * rewrite Hupd. apply Forall2_app; [auto|constructor; auto].
        cbn. split; [left; split; [lia|reflexivity]|]. unfold lset_idx; cbn. rewrite Hb. cbn.
        assert (f0 <> []) by (intros ->; cbn in Hlf; lia).
        repeat split; auto; try lia.
      * unfold foot; cbn [st_alloc]. rewrite lfoot_app, lfoot_cons. exact Hnd'.
      * unfold foot; cbn [st_alloc st_g]. rewrite lfoot_app, lfoot_cons. exact Hcv'.
  - (* pop one block of the current bucket *)
    destruct cur as [|c0 [|nx rest]]; [congruence|cbn in Hmore; lia|].
    inversion Hc as [|p0 l0 Hp0 Hc' E1]; subst p0 l0.
    set (n := Z.of_nat (length (c0 :: nx :: rest))) in *.
    assert (Hnx : h_next (g_hp g curhd) = nx) by (inversion Hc'; auto).
    rewrite Hnx in *.
    assert (Hc0' : c0 = curhd) by (inversion Hc; auto).
    set (hp' := set_info (g_hp g) nx (n - 1)).
    assert (Hnxin : In nx (c0 :: nx :: rest)) by (right; left; auto).
    exists a, (A1 ++ Some (f0, nx :: rest) :: A2). split; [|].
    2:{ intros _ (T1 & T2). split; auto. cbn. intros Hp. unfold hp'. rewrite set_info_other; auto.
        intros He. assert (In nx (FG a)) by (rewrite <- He; apply GH_FG_carved_partial; auto; apply HG).
        pose proof Hnd as Hq. nd_split Hq. disj. }
    assert (Hfr : forall x, x <> nx -> hp' x = g_hp g x) by (intros; apply set_info_other; auto).
    assert (Hperm : Permutation ((curhd :: alloc) ++ (R1 ++ (f0 ++ nx :: rest) ++ R2) ++ FG a)
                                ((alloc ++ (R1 ++ (f0 ++ c0 :: nx :: rest) ++ R2) ++ FG a) ++ [])).
    { change (curhd :: alloc) with ([curhd] ++ alloc). rewrite Hc0'.
      change (curhd :: nx :: rest) with ([curhd] ++ nx :: rest). perm. }
    assert (Hstep0 : carved_step g (set_hp g hp') []) by (apply carved_step_nil; intros; apply carvedb_ext; auto).
    destruct (foot_step g (set_hp g hp') _ _ [] Hnd Hcv Hstep0 Hperm) as (Hnd' & Hcv').
    pose proof Hnd as Hdj. nd_split Hdj.
    constructor; cbn [st_g st_l st_alloc]; auto.
    * apply G_set_hp; auto. intros x Hx. apply Hfr. intros ->. apply in_FG_live in Hx. disj.
    * rewrite Hupd. apply Forall2_app; [|constructor].
      -- eapply lreps_frame; eauto. intros x Hx. cbn. apply Hfr. intros ->. fold R1 in Hx. disj.
      -- unfold lrep. cbn [g_hp set_hp g_N]. fold bi. replace (l_idx (lset l bi nx)) with bi by (unfold lset; destruct (bi =? 0); auto).
         replace (lget (lset l bi nx) bi) with nx
           by (unfold lget, lset; destruct (Z.eqb_spec bi 0); cbn; auto; destruct (Z.eqb_spec bi 0); auto; lia).
         split; [|split; [|split; [discriminate|split]]].
         ++ destruct Hf0 as [Hf0|(H1 & H2 & H3 & H4)]; [left; auto|right].
            replace (l_b0 (lset l bi nx)) with (l_b0 l)
              by (unfold lset; destruct (Z.eqb_spec bi 0); cbn; auto; fold bi in H1; lia).
            destruct (chainN_head_in _ _ _ H2 ltac:(intros ->; cbn in H3; lia)) as (Hbin & _).
            repeat split; auto.
            ** unfold hp'. now apply chainN_set_info.
            ** rewrite Hfr; auto. intros He. rewrite He in Hbin. disj.
         ++ unfold hp'. now apply chainN_set_info.
         ++ unfold hp'. rewrite set_info_info, Z.eqb_refl. unfold n. cbn [length]. lia.
         ++ unfold n in *. cbn [length] in *. lia.
      -- eapply lreps_frame; eauto. intros x Hx. cbn. apply Hfr. intros ->. fold R2 in Hx. disj.
    * unfold foot; cbn [st_alloc]. rewrite lfoot_app, lfoot_cons. exact Hnd'.
    * unfold foot; cbn [st_alloc st_g]. rewrite lfoot_app, lfoot_cons. exact Hcv'.
Qed.

(* ---------- ABTI_mem_pool_free *)
Lemma upd_hdr_other (hp : Z -> hdr) b v x : x <> b -> upd hp b v x = hp x.
Proof. apply upd_other. Qed.

Lemma free_inv s a la i l b :
  Inv s a la -> nth_error (st_l s) i = Some (Some l) -> In b (st_alloc s) ->
  exists a' la', Inv (mkSt (fst (lp_free (st_g s) l b)) (upd_nth (st_l s) i (Some (snd (lp_free (st_g s) l b))))
                           (remove1 b (st_alloc s))) a' la' /\
                 (tight (st_g s) a -> tight (fst (lp_free (st_g s) l b)) a').
Proof.
  intros [HG HL Hnd Hcv] Hn Hb. destruct s as [g ls alloc]; cbn [st_g st_l st_alloc] in *.
  destruct (pick_pool g ls la i (Some l) HL Hn) as (L1 & L2 & A1 & oa & A2 & -> & -> & Hlen & HL1 & Hl & HL2 & Hupd).
  destruct oa as [[f0 cur]|]; [|destruct Hl].
  pose proof HG as ((HN & HGL & HGPa) & HGP).
  destruct Hl as (Hf0 & Hc & Hne & Hi & Hle).
  destruct (chainN_head_in _ _ _ Hc Hne) as (Hcin & Hc0).
  unfold foot in *; cbn [st_alloc] in *. rewrite lfoot_app, lfoot_cons in *. cbn [lblocks] in *.
  set (R1 := lfoot A1) in *. set (R2 := lfoot A2) in *.
  set (al' := remove1 b alloc).
  assert (Hal : Permutation alloc ([b] ++ al')) by (apply remove1_perm; auto).
  assert (Hb1 : 1 <= b) by (apply (carved_pos g); apply Hcv; apply in_or_app; auto).
  assert (Hnd2 : NoDup ([b] ++ al' ++ (R1 ++ (f0 ++ cur) ++ R2) ++ FG a)).
  { eapply Permutation_NoDup; [|exact Hnd]. rewrite Hal. perm. }
  assert (Hbb : In b [b]) by (left; auto).
  unfold lp_free. set (bi := l_idx l) in *. set (curhd := lget l bi) in *.
  assert (Hidx : bi = 0 \/ bi = 1) by (destruct Hf0 as [(H & _)|(H & _)]; [left|right]; exact H).
  rewrite Hi.
  destruct (Z.eqb_spec (Z.of_nat (length cur)) (g_N g)) as [Hfull|Hnf].
  - (* the current bucket is full *)
    destruct (Z.eqb_spec (bi + 1) 2) as [Hb2|Hb2].
    + (* both buckets full: return buckets[0] *)
      assert (Hbi : bi = 1) by lia.
      destruct Hf0 as [(H & _)|(_ & Hcf & Hlf & Hif)]; [fold bi in H; lia|].
      assert (Hf0ne : f0 <> []) by (intros ->; cbn in Hlf; lia).
      destruct (chainN_head_in _ _ _ Hcf Hf0ne) as (Hb0in & _).
      assert (Hg0 : lget l 0 = l_b0 l) by reflexivity.
      assert (Hg1 : lget l 1 = curhd) by (unfold curhd; rewrite Hbi; reflexivity).
      cbn [fst snd]. rewrite Hg0, Hg1.
      pose proof Hnd2 as Hdj. nd_split Hdj.
      set (a1 := mkAG (f0 :: a_lifo a) (a_pl a) (a_lost a) (a_plifo a) (a_pempty a)).
      assert (HG1 : G (return_bucket g (l_b0 l)) a1).
      { split; [|apply return_bucket_GP; auto].
        apply return_bucket_GH; auto. split; auto.
        intros x Hx Hy. apply in_FG_live in Hy. disj. }
      set (g1 := return_bucket g (l_b0 l)) in *.
      set (hp2 := upd (g_hp g1) b (mkH 0 1)).
      assert (Hfr : forall x, x <> b -> x <> l_b0 l -> hp2 x = g_hp g x).
      { intros x H1 H2. unfold hp2. rewrite upd_other by auto. unfold g1. rewrite return_bucket_hp.
        now apply set_info_other. }
      exists a1, (A1 ++ Some (cur, [b]) :: A2). split.
      2:{ intros (T1 & T2). split; auto. cbn. intros Hp. rewrite Hfr; auto.
          - intros He. assert (In b (FG a)) by (rewrite <- He; apply GH_FG_carved_partial; auto; apply HG). disj.
          - intros He. assert (In (l_b0 l) (FG a)) by (rewrite <- He; apply GH_FG_carved_partial; auto; apply HG). disj. }
      assert (Hperm : Permutation (al' ++ (R1 ++ (cur ++ [b]) ++ R2) ++ FG a1)
                                  ((alloc ++ (R1 ++ (f0 ++ cur) ++ R2) ++ FG a) ++ [])).
      { rewrite Hal. unfold a1, FG; cbn [a_lifo a_pl a_lost concat]. perm. }
      assert (Hstep0 : carved_step g (set_hp g1 hp2) []) by (apply carved_step_nil; intros; apply carvedb_ext; auto).
      destruct (foot_step g (set_hp g1 hp2) _ _ [] Hnd Hcv Hstep0 Hperm) as (Hnd' & Hcv').
      constructor; cbn [st_g st_l st_alloc]; auto.
      * apply G_set_hp; auto. intros x Hx. apply upd_other. intros ->.
        unfold a1 in Hx; cbn [a_lifo a_pl concat] in Hx. rewrite <- app_assoc in Hx.
        apply in_app_or in Hx. destruct Hx as [Hx|Hx]; [disj|]. apply in_FG_live in Hx. disj.
      * rewrite Hupd. apply Forall2_app; [|constructor].
        -- eapply (lreps_frame g); eauto. intros x Hx. cbn. apply Hfr; intros ->; fold R1 in Hx; disj.
        -- unfold lrep. cbn [g_hp set_hp g_N l_idx l_b0 l_b1 lset lset_idx lget Z.eqb].
           change (g_N g1) with (g_N g).
           split; [right|].
           ++ repeat split; auto.
              ** apply (chainN_ext (g_hp g)); auto. intros x Hx. rewrite Hfr; auto; intros ->; disj.
              ** rewrite Hfr; auto; try (intros He; rewrite He in Hcin; disj). lia.
           ++ split; [constructor; [lia|constructor]|]. split; [discriminate|].
              unfold hp2. rewrite upd_same. cbn. lia.
        -- eapply (lreps_frame g); eauto. intros x Hx. cbn. apply Hfr; intros ->; fold R2 in Hx; disj.
      * unfold foot; cbn [st_alloc]. rewrite lfoot_app, lfoot_cons. exact Hnd'.
      * unfold foot; cbn [st_alloc st_g]. rewrite lfoot_app, lfoot_cons. exact Hcv'.
    + (* start the second bucket *)
      assert (Hbi : bi = 0) by lia.
      assert (Hf0' : f0 = []) by (destruct Hf0 as [(_ & H)|(H & _)]; [auto|fold bi in H; lia]).
      subst f0. cbn [fst snd].
      pose proof Hnd2 as Hdj. nd_split Hdj.
      set (hp2 := upd (g_hp g) b (mkH 0 1)).
      assert (Hfr : forall x, x <> b -> hp2 x = g_hp g x) by (intros; apply upd_other; auto).
      exists a, (A1 ++ Some (cur, [b]) :: A2). split.
      2:{ intros (T1 & T2). split; auto. cbn. intros Hp. rewrite Hfr; auto.
          intros He. assert (In b (FG a)) by (rewrite <- He; apply GH_FG_carved_partial; auto; apply HG). disj. }
      assert (Hperm : Permutation (al' ++ (R1 ++ (cur ++ [b]) ++ R2) ++ FG a)
                                  ((alloc ++ (R1 ++ cur ++ R2) ++ FG a) ++ [])).
      { rewrite Hal. perm. }
      assert (Hstep0 : carved_step g (set_hp g hp2) []) by (apply carved_step_nil; intros; apply carvedb_ext; auto).
      destruct (foot_step g (set_hp g hp2) _ _ [] Hnd Hcv Hstep0 Hperm) as (Hnd' & Hcv').
      constructor; cbn [st_g st_l st_alloc]; auto.
      * apply G_set_hp; auto. intros x Hx. apply upd_other. intros ->. apply in_FG_live in Hx. disj.
      * rewrite Hupd. apply Forall2_app; [|constructor].
        -- eapply (lreps_frame g); eauto. intros x Hx. cbn. apply Hfr; intros ->; fold R1 in Hx; disj.
        -- unfold lrep. rewrite Hbi. cbn [g_hp set_hp g_N l_idx l_b0 l_b1 lset lset_idx lget Z.eqb Z.add Pos.add].
           assert (Hch : curhd = l_b0 l) by (unfold curhd; rewrite Hbi; reflexivity).
           rewrite <- Hch.
           split; [right|].
           ++ repeat split; auto.
              ** apply (chainN_ext (g_hp g)); auto. intros x Hx. rewrite Hfr; auto; intros ->; disj.
              ** rewrite Hfr; auto; try (intros He; rewrite He in Hcin; disj). lia.
           ++ split; [constructor; [lia|constructor]|]. split; [discriminate|].
              unfold hp2. rewrite upd_same. cbn. lia.
        -- eapply (lreps_frame g); eauto. intros x Hx. cbn. apply Hfr; intros ->; fold R2 in Hx; disj.
      * unfold foot; cbn [st_alloc]. rewrite lfoot_app, lfoot_cons. exact Hnd'.
      * unfold foot; cbn [st_alloc st_g]. rewrite lfoot_app, lfoot_cons. exact Hcv'.
  - (* put the block in front of the current bucket *)
    cbn [fst snd].
    pose proof Hnd2 as Hdj. nd_split Hdj.
    set (hp2 := upd (g_hp g) b (mkH curhd (Z.of_nat (length cur) + 1))).
    assert (Hfr : forall x, x <> b -> hp2 x = g_hp g x) by (intros; apply upd_other; auto).
    exists a, (A1 ++ Some (f0, b :: cur) :: A2). split.
    2:{ intros (T1 & T2). split; auto. cbn. intros Hp. rewrite Hfr; auto.
        intros He. assert (In b (FG a)) by (rewrite <- He; apply GH_FG_carved_partial; auto; apply HG). disj. }
    assert (Hperm : Permutation (al' ++ (R1 ++ (f0 ++ b :: cur) ++ R2) ++ FG a)
                                ((alloc ++ (R1 ++ (f0 ++ cur) ++ R2) ++ FG a) ++ [])).
    { rewrite Hal. perm. }
    assert (Hstep0 : carved_step g (set_hp g hp2) []) by (apply carved_step_nil; intros; apply carvedb_ext; auto).
    destruct (foot_step g (set_hp g hp2) _ _ [] Hnd Hcv Hstep0 Hperm) as (Hnd' & Hcv').
    constructor; cbn [st_g st_l st_alloc]; auto.
    * apply G_set_hp; auto. intros x Hx. apply upd_other. intros ->. apply in_FG_live in Hx. disj.
    * rewrite Hupd. apply Forall2_app; [|constructor].
      -- eapply (lreps_frame g); eauto. intros x Hx. cbn. apply Hfr; intros ->; fold R1 in Hx; disj.
      -- unfold lrep. cbn [g_hp set_hp g_N]. fold bi.
         replace (l_idx (lset l bi b)) with bi by (unfold lset; destruct (bi =? 0); auto).
         replace (lget (lset l bi b) bi) with b
           by (unfold lget, lset; destruct (Z.eqb_spec bi 0); cbn; auto; destruct (Z.eqb_spec bi 0); auto; lia).
         split; [|split; [|split; [discriminate|split]]].
         ++ destruct Hf0 as [Hf0|(H1 & H2 & H3 & H4)]; [left; auto|right].
            replace (l_b0 (lset l bi b)) with (l_b0 l)
              by (unfold lset; destruct (Z.eqb_spec bi 0); cbn; auto; fold bi in H1; lia).
            destruct (chainN_head_in _ _ _ H2 ltac:(intros ->; cbn in H3; lia)) as (Hbin & _).
            repeat split; auto.
            ** apply (chainN_ext (g_hp g)); auto. intros x Hx. rewrite Hfr; auto; intros ->; disj.
            ** rewrite Hfr; auto. intros He. rewrite He in Hbin. disj.
         ++ constructor; [lia|]. replace (h_next (hp2 b)) with curhd by (unfold hp2; rewrite upd_same; reflexivity).
            apply (chainN_ext (g_hp g)); auto. intros x Hx. rewrite Hfr; auto; intros ->; disj.
         ++ unfold hp2. rewrite upd_same. cbn [h_info length]. lia.
         ++ cbn [length]. lia.
      -- eapply (lreps_frame g); eauto. intros x Hx. cbn. apply Hfr; intros ->; fold R2 in Hx; disj.
    * unfold foot; cbn [st_alloc]. rewrite lfoot_app, lfoot_cons. exact Hnd'.
    * unfold foot; cbn [st_alloc st_g]. rewrite lfoot_app, lfoot_cons. exact Hcv'.
Qed.

(* ---------- ABTI_mem_pool_destroy_local_pool *)
Lemma give_cur g1 a1 curhd cur :
  G g1 a1 -> chainN (g_hp g1) curhd cur -> cur <> [] ->
  h_info (g_hp g1 curhd) = Z.of_nat (length cur) -> Z.of_nat (length cur) <= g_N g1 ->
  NoDup (FG a1 ++ cur) ->
  exists a', G (if h_info (g_hp g1 curhd) =? g_N g1 then return_bucket g1 curhd
                else return_partial_gen remf g1 curhd) a' /\
    Permutation (FG a') (FG a1 ++ cur) /\
    (forall x, ~ In x (a_pl a1) -> x <> curhd ->
       g_hp (if h_info (g_hp g1 curhd) =? g_N g1 then return_bucket g1 curhd
             else return_partial_gen remf g1 curhd) x = g_hp g1 x) /\
    g_N (if h_info (g_hp g1 curhd) =? g_N g1 then return_bucket g1 curhd
         else return_partial_gen remf g1 curhd) = g_N g1 /\
    same_pages g1 (if h_info (g_hp g1 curhd) =? g_N g1 then return_bucket g1 curhd
                   else return_partial_gen remf g1 curhd) /\
    (remf_exact -> tight g1 a1 ->
       tight (if h_info (g_hp g1 curhd) =? g_N g1 then return_bucket g1 curhd
              else return_partial_gen remf g1 curhd) a').
Proof.
  intros HG Hc Hne Hi Hle Hnd. pose proof HG as ((HN & HGL & HGPa) & HGP).
  destruct (chainN_head_in _ _ _ Hc Hne) as (Hcin & Hc0).
  pose proof Hnd as Hdj. unfold FG in Hdj. nd_split Hdj.
  rewrite Hi. destruct (Z.eqb_spec (Z.of_nat (length cur)) (g_N g1)) as [Hfull|Hnf].
  - exists (mkAG (cur :: a_lifo a1) (a_pl a1) (a_lost a1) (a_plifo a1) (a_pempty a1)).
    split; [split; [|apply return_bucket_GP; auto]|].
    { apply return_bucket_GH; auto. split; auto. intros x Hx Hy. disj. }
    split. { unfold FG; cbn [a_lifo a_pl a_lost concat]. perm. }
    split. { intros x _ Hx. rewrite return_bucket_hp. now apply set_info_other. }
    split; [reflexivity|]. split; [repeat split|].
    intros _ (T1 & T2). split; auto. cbn. intros Hp. rewrite set_info_other; auto.
    intros He. assert (In curhd (a_pl a1)) by (rewrite <- He; eapply partial_in_pl; eauto). disj.
  - destruct (return_partial_spec remf remf_le g1 a1 curhd cur) as (a' & R1 & R2 & R3 & R4 & R5 & R6 & R7 & R8); auto.
    { split; auto. }
    { lia. }
    { unfold FG in Hnd. rewrite <- !app_assoc in Hnd. rewrite app_assoc in Hnd.
      apply NoDup_app_drop_mid in Hnd. now rewrite <- app_assoc in Hnd. }
    exists a'. split; [split; auto|].
    { rewrite R4, R5. apply (GP_same g1); [exact R7|exact HGP]. }
    split; [exact R2|]. split; [intros x Hx _; auto|]. split; [exact R6|]. split; [exact R7|exact R8].
Qed.

Lemma destroy_inv s a la i l :
  Inv s a la -> nth_error (st_l s) i = Some (Some l) ->
  exists a' la', Inv (mkSt (lp_destroy remf (st_g s) l) (upd_nth (st_l s) i None) (st_alloc s)) a' la' /\
     (remf_exact -> tight (st_g s) a -> tight (lp_destroy remf (st_g s) l) a').
Proof.
  intros [HG HL Hnd Hcv] Hn. destruct s as [g ls alloc]; cbn [st_g st_l st_alloc] in *.
  destruct (pick_pool g ls la i (Some l) HL Hn) as (L1 & L2 & A1 & oa & A2 & -> & -> & Hlen & HL1 & Hl & HL2 & Hupd).
  destruct oa as [[f0 cur]|]; [|destruct Hl].
  pose proof HG as ((HN & HGL & HGPa) & HGP).
  destruct Hl as (Hf0 & Hc & Hne & Hi & Hle).
  destruct (chainN_head_in _ _ _ Hc Hne) as (Hcin & Hc0).
  unfold foot in *; cbn [st_alloc] in *. rewrite lfoot_app, lfoot_cons in *. cbn [lblocks] in *.
  set (R1 := lfoot A1) in *. set (R2 := lfoot A2) in *.
  unfold lp_destroy. set (bi := l_idx l) in *. set (curhd := lget l bi) in *.
  pose proof Hnd as Hdj. nd_split Hdj.
  (* state after the loop over the full buckets *)
  assert (Hloop : exists a1,
             let g1 := fold_left (fun g i => return_bucket g (lget l (Z.of_nat i))) (seq 0 (Z.to_nat bi)) g in
             G g1 a1 /\ Permutation (FG a1) (FG a ++ f0) /\
             (forall x, ~ In x f0 -> g_hp g1 x = g_hp g x) /\ (forall x, h_next (g_hp g1 x) = h_next (g_hp g x)) /\
             g_N g1 = g_N g /\ same_pages g g1 /\ a_pl a1 = a_pl a /\
             (tight g a -> tight g1 a1)).
  { destruct Hf0 as [(Hb & ->)|(Hb & Hcf & Hlf & Hif)]; fold bi in Hb; rewrite Hb;
      [change (Z.to_nat 0) with 0%nat|change (Z.to_nat 1) with 1%nat]; cbn [seq fold_left].
    - exists a. cbn zeta. split; auto. split; [perm|].
      split; [auto|]. split; [auto|]. split; [auto|]. split; [repeat split|]. split; auto.
    - assert (Hf0ne : f0 <> []) by (intros ->; cbn in Hlf; lia).
      destruct (chainN_head_in _ _ _ Hcf Hf0ne) as (Hb0in & _).
      change (lget l (Z.of_nat 0)) with (l_b0 l).
      exists (mkAG (f0 :: a_lifo a) (a_pl a) (a_lost a) (a_plifo a) (a_pempty a)). cbn zeta.
      split; [split; [|apply return_bucket_GP; auto]|].
      { apply return_bucket_GH; auto. split; auto. intros x Hx Hy. apply in_FG_live in Hy. disj. }
      split. { unfold FG; cbn [a_lifo a_pl a_lost concat]. perm. }
      split. { intros x Hx. rewrite return_bucket_hp. apply set_info_other. intros ->; auto. }
      split. { intros x. rewrite return_bucket_hp. apply set_info_next. }
      split; [reflexivity|]. split; [repeat split|]. split; [reflexivity|].
      intros (T1 & T2). split; auto. cbn. intros Hp. rewrite set_info_other; auto.
      intros He. assert (In (l_b0 l) (FG a)) by (rewrite <- He; apply GH_FG_carved_partial; auto; apply HG). disj. }
  destruct Hloop as (a1 & Hloop). cbn zeta in Hloop.
  set (g1 := fold_left _ _ g) in *.
  destruct Hloop as (HG1 & HP1 & Hfr1 & Hnx1 & HN1 & Hsp1 & Hpl1 & Ht1).
  assert (Hcur_nf0 : forall x, In x cur -> ~ In x f0) by (intros x Hx Hy; disj).
  destruct (give_cur g1 a1 curhd cur) as (a' & Q1 & Q2 & Q3 & Q4 & Q5 & Q6); auto.
  { apply (chainN_ext (g_hp g)); auto. }
  { rewrite Hfr1; auto. }
  { lia. }
  { eapply Permutation_NoDup; [symmetry; apply Permutation_app_tail; exact HP1|].
    rewrite <- app_assoc. apply NoDup_app_iff. split; auto. split.
    - apply NoDup_app_iff. split; auto.
    - intros x Hx Hy. apply in_app_or in Hy. destruct Hy; disj. }
  set (g' := if h_info (g_hp g1 curhd) =? g_N g1 then _ else _) in *.
  exists a', (A1 ++ None :: A2). split; [|intros; apply Q6; auto].
  assert (Hperm : Permutation (alloc ++ (R1 ++ [] ++ R2) ++ FG a')
                              ((alloc ++ (R1 ++ (f0 ++ cur) ++ R2) ++ FG a) ++ [])).
  { rewrite Q2, HP1. perm. }
  assert (Hstep0 : carved_step g g' []).
  { apply carved_step_nil. intros x. rewrite (carvedb_same g1 g'); auto. apply carvedb_same; auto. }
  destruct (foot_step g g' _ _ [] Hnd Hcv Hstep0 Hperm) as (Hnd' & Hcv').
  assert (Hfr : forall x, In x (R1 ++ R2) -> g_hp g' x = g_hp g x).
  { intros x Hx. rewrite Q3, Hfr1.
    - reflexivity.
    - intros Hy. disj.
    - rewrite Hpl1. intros Hy. assert (In x (FG a)) by (apply in_FG_live; apply in_or_app; auto). disj.
    - intros ->. disj. }
  constructor; cbn [st_g st_l st_alloc]; auto.
  - rewrite Hupd. apply Forall2_app; [|constructor].
    + eapply (lreps_frame g); eauto; [lia|]. intros x Hx. apply Hfr. fold R1 in Hx. apply in_or_app; auto.
    + exact I.
    + eapply (lreps_frame g); eauto; [lia|]. intros x Hx. apply Hfr. fold R2 in Hx. apply in_or_app; auto.
  - unfold foot; cbn [st_alloc]. rewrite lfoot_app, lfoot_cons. exact Hnd'.
  - unfold foot; cbn [st_alloc st_g]. rewrite lfoot_app, lfoot_cons. exact Hcv'.
Qed.

(* ---------- ABTI_mem_pool_init_local_pool *)
Lemma init_inv s a la i :
  Inv s a la -> nth_error (st_l s) i = Some None ->
  match lp_init remf (st_g s) with
  | (TBOk g' _, l) =>
      exists a' la', Inv (mkSt g' (upd_nth (st_l s) i (Some l)) (st_alloc s)) a' la' /\
                     (remf_exact -> tight (st_g s) a -> tight g' a')
  | (TBNoMem g', _) =>
      exists a' la', Inv (mkSt g' (st_l s) (st_alloc s)) a' la' /\
                     (remf_exact -> tight (st_g s) a -> tight g' a')
  | (TBFuel, _) => False
  end.
Proof.
  intros [HG HL Hnd Hcv] Hn. destruct s as [g ls alloc]; cbn [st_g st_l st_alloc] in *.
  destruct (pick_pool g ls la i None HL Hn) as (L1 & L2 & A1 & oa & A2 & -> & -> & Hlen & HL1 & Hl & HL2 & Hupd).
  destruct oa as [[f0 cur]|]; [destruct Hl|].
  pose proof HG as ((HN & HGL & HGPa) & HGP).
  unfold foot in *; cbn [st_alloc] in *. rewrite lfoot_app, lfoot_cons in *. cbn [lblocks] in *.
  set (R1 := lfoot A1) in *. set (R2 := lfoot A2) in *.
  unfold lp_init.
  pose proof (take_bucket_spec remf remf_le g a HG) as Htb.
  assert (HndFG : NoDup (FG a)) by (pose proof Hnd as H; nd_split H; auto).
  assert (HcvFG : forall x, In x (FG a) -> carvedb g x = true).
  { intros x Hx. apply Hcv. rewrite !in_app_iff. tauto. }
  specialize (Htb HndFG HcvFG).
  assert (Hout : forall x, In x (alloc ++ (R1 ++ [] ++ R2)) -> carvedb g x = true /\ ~ In x (FG a)).
  { intros x Hx. split; [apply Hcv; rewrite !in_app_iff in *; tauto|].
    intros Hy. pose proof Hnd as H. rewrite !app_assoc in H. apply NoDup_app_iff in H.
    destruct H as (_ & _ & H). apply (H x); auto. rewrite <- !app_assoc. auto. }
  destruct (take_bucket remf g) as [g' b|g'|]; auto.
  - destruct Htb as (a' & new & bl & T1 & T2 & T3 & T4 & T5 & T6 & T7 & T8 & T9 & T10).
    exists a', (A1 ++ Some ([], bl) :: A2).
    assert (Hfr : forall x, In x (alloc ++ (R1 ++ [] ++ R2)) -> g_hp g' x = g_hp g x).
    { intros x Hx. destruct (Hout x Hx). apply T7; auto. }
    split; [|intros; apply T10; auto].
    assert (Hperm : Permutation (alloc ++ (R1 ++ ([] ++ bl) ++ R2) ++ FG a')
                                ((alloc ++ (R1 ++ [] ++ R2) ++ FG a) ++ new)).
    { transitivity (alloc ++ R1 ++ R2 ++ (FG a' ++ bl)); [perm|]. rewrite T5. perm. }
    destruct (foot_step g g' _ _ new Hnd Hcv T6 Hperm) as (Hnd' & Hcv').
    constructor; cbn [st_g st_l st_alloc]; auto.
    + rewrite Hupd. apply Forall2_app; [|constructor].
      * eapply lreps_frame; eauto. intros x Hx. apply Hfr. fold R1 in Hx. rewrite !in_app_iff; tauto.
      * cbn. split; [left; auto|].
        assert (bl <> []) by (intros ->; cbn in T3; lia).
        repeat split; auto; lia.
      * eapply lreps_frame; eauto. intros x Hx. apply Hfr. fold R2 in Hx. rewrite !in_app_iff; tauto.
    + unfold foot; cbn [st_alloc]. rewrite lfoot_app, lfoot_cons. exact Hnd'.
    + unfold foot; cbn [st_alloc st_g]. rewrite lfoot_app, lfoot_cons. exact Hcv'.
  - destruct Htb as (a' & new & T1 & T2 & T3 & T4 & T5 & T6 & T7).
    exists a', (A1 ++ None :: A2).
    assert (Hfr : forall x, In x (alloc ++ (R1 ++ [] ++ R2)) -> g_hp g' x = g_hp g x).
    { intros x Hx. destruct (Hout x Hx). apply T4; auto. }
    split; [|intros; apply T7; auto].
    assert (Hperm : Permutation (alloc ++ (R1 ++ [] ++ R2) ++ FG a')
                                ((alloc ++ (R1 ++ [] ++ R2) ++ FG a) ++ new)).
    { rewrite T2. perm. }
    destruct (foot_step g g' _ _ new Hnd Hcv T3 Hperm) as (Hnd' & Hcv').
    constructor; cbn [st_g st_l st_alloc]; auto.
    + apply Forall2_app; [|constructor].
      * eapply lreps_frame; eauto. intros x Hx. apply Hfr. fold R1 in Hx. rewrite !in_app_iff; tauto.
      * exact I.
      * eapply lreps_frame; eauto. intros x Hx. apply Hfr. fold R2 in Hx. rewrite !in_app_iff; tauto.
    + unfold foot; cbn [st_alloc]. rewrite lfoot_app, lfoot_cons. exact Hnd'.
    + unfold foot; cbn [st_alloc st_g]. rewrite lfoot_app, lfoot_cons. exact Hcv'.
Qed.
End Steps.

(* ---------- one step, any run *)
Section Main.
Variable remf : Z -> Z -> Z -> Z.
Hypothesis remf_le : forall N P B, N <= P + B -> remf N P B <= P + B - N.

Lemma budget_inv s a la k :
  Inv s a la -> Inv (mkSt (set_budget (st_g s) k) (st_l s) (st_alloc s)) a la.
Proof.
  intros [((HN & [L1 L2] & HP) & [P1 P2 P3 P4 P5 P6 P7 P8]) HL Hnd Hcv].
  constructor; cbn [st_g st_l st_alloc]; auto.
  split; [split; [auto|split; [constructor; auto|auto]]|constructor; auto].
Qed.

Theorem step_inv s a la o s' r :
  Inv s a la -> step_gen remf s o = Some (s', r) ->
  exists a' la', Inv s' a' la' /\ (remf_exact remf -> tight (st_g s) a -> tight (st_g s') a').
Proof.
  intros HI Hs. destruct o as [i|i|i b|i|k]; cbn [step_gen] in Hs.
  - destruct (nth_error (st_l s) i) as [[l|]|] eqn:En; try discriminate.
    pose proof (init_inv remf remf_le s a la i HI En) as H.
    destruct (lp_init remf (st_g s)) as [[g' b|g'|] l]; try discriminate; inversion Hs; subst; exact H.
  - destruct (nth_error (st_l s) i) as [[l|]|] eqn:En; try discriminate.
    pose proof (alloc_inv remf remf_le s a la i l HI En) as H.
    destruct (lp_alloc remf (st_g s) l) as [g' l' b|g'|]; try discriminate; inversion Hs; subst; exact H.
  - destruct (nth_error (st_l s) i) as [[l|]|] eqn:En; try discriminate.
    destruct (existsb (Z.eqb b) (st_alloc s)) eqn:Eb; [|discriminate].
    apply existsb_eqb_in in Eb.
    destruct (free_inv s a la i l b HI En Eb) as (a' & la' & H1 & H2).
    destruct (lp_free (st_g s) l b) as [g' l'] eqn:Ef. inversion Hs; subst. cbn [fst snd] in *.
    exists a', la'. split; auto.
  - destruct (nth_error (st_l s) i) as [[l|]|] eqn:En; try discriminate.
    inversion Hs; subst. apply (destroy_inv remf remf_le s a la i l); auto.
  - inversion Hs; subst. exists a, la. split; [apply budget_inv; auto|].
    intros _ (T1 & T2). split; auto.
Qed.

Theorem run_inv ops : forall s a la s' rs,
  Inv s a la -> run_gen remf s ops = Some (s', rs) ->
  exists a' la', Inv s' a' la' /\ (remf_exact remf -> tight (st_g s) a -> tight (st_g s') a').
Proof.
  induction ops as [|o ops IH]; intros s a la s' rs HI Hr; cbn [run_gen] in Hr.
  - inversion Hr; subst. exists a, la. auto.
  - destruct (step_gen remf s o) as [[s1 x]|] eqn:Es; [|discriminate].
    destruct (run_gen remf s1 ops) as [[s2 xs]|] eqn:Er; [|discriminate]. inversion Hr; subst.
    destruct (step_inv _ _ _ _ _ _ HI Es) as (a1 & la1 & HI1 & Ht1).
    destruct (IH _ _ _ _ _ HI1 Er) as (a2 & la2 & HI2 & Ht2).
    exists a2, la2. split; auto.
Qed.

(* a client that respects the calling convention is never refused (in
   particular the loop bound of take_bucket is never exhausted) *)
Definition client_ok (s : state) (o : op) : Prop :=
  match o with
  | OInit i => nth_error (st_l s) i = Some None
  | OAlloc i | ODestroy i => exists l, nth_error (st_l s) i = Some (Some l)
  | OFree i b => (exists l, nth_error (st_l s) i = Some (Some l)) /\ In b (st_alloc s)
  | OBudget _ => True
  end.

Theorem step_progress s a la o : Inv s a la -> client_ok s o -> step_gen remf s o <> None.
Proof.
  intros HI Hc. destruct o as [i|i|i b|i|k]; cbn [step_gen client_ok] in *.
  - rewrite Hc. pose proof (init_inv remf remf_le s a la i HI Hc) as H.
    destruct (lp_init remf (st_g s)) as [[g' b|g'|] l]; try discriminate. destruct H.
  - destruct Hc as (l & Hc). rewrite Hc. pose proof (alloc_inv remf remf_le s a la i l HI Hc) as H.
    destruct (lp_alloc remf (st_g s) l) as [g' l' b|g'|]; try discriminate. destruct H.
  - destruct Hc as ((l & Hc) & Hb). rewrite Hc.
    replace (existsb (Z.eqb b) (st_alloc s)) with true.
    + destruct (lp_free (st_g s) l b). discriminate.
    + symmetry. apply existsb_exists. exists b. split; auto. apply Z.eqb_refl.
  - destruct Hc as (l & Hc). rewrite Hc. discriminate.
  - discriminate.
Qed.

Lemma inv_init N S budget np :
  1 <= N -> 1 <= S ->
  Inv (init_state N S budget np) (mkAG [] [] [] [] []) (repeat None np) /\
  tight (st_g (init_state N S budget np)) (mkAG [] [] [] [] []).
Proof.
  intros HN HS. split.
  - constructor; cbn.
    + split; [split; [auto|split; [constructor; cbn; constructor|left; auto]]|].
      constructor; cbn; auto; try lia; try constructor; try (intros p; cbn; lia).
    + induction np; cbn; constructor; auto. exact I.
    + unfold foot, lfoot, FG; cbn. replace (concat (map lblocks (repeat None np))) with (@nil Z).
      * constructor.
      * induction np; cbn; auto.
    + intros b. unfold foot, lfoot, FG; cbn.
      replace (concat (map lblocks (repeat None np))) with (@nil Z) by (induction np; cbn; auto).
      cbn. unfold carvedb, total_blocks; cbn. split; [tauto|]. intros H.
      apply andb_true_iff in H. destruct H as (H & _). apply andb_true_iff in H. destruct H as (H1 & H2).
      apply Z.leb_le in H1, H2. lia.
  - split; cbn; auto; congruence.
Qed.
End Main.
