(* C17 — model of the global execution-stream list of src/stream.c, field level.

   The C structure: ABTI_global.{p_xstream_head, num_xstreams, max_xstreams}
   and, per stream descriptor, ABTI_xstream.{p_prev, p_next, rank, type, state}.
   Descriptors live in a store indexed by allocation order (index = "address");
   a freed descriptor is [None]; dereferencing a pointer to a freed or never
   allocated descriptor is the error [EUAF].  Loops that follow p_next take
   fuel (number of descriptors + 1); running out of fuel ([EFuel]) stands for a
   walk that never ends (cyclic list).  A failing ABTI_ASSERT is [EAssert].
   ([EOverflow] was the signed overflow of "newrank + 1" in
   xstream_update_max_xstreams for rank INT_MAX; fixed in /repo, commit a3733c8,
   the model follows the fixed code.)
   Everything under xstream_list_lock is one function here (one locked step).
   Only model code in this file; proofs are in DS/RankListProofs.v. *)
From Coq Require Import List ZArith Bool.
From ABT Require Import Common.ListAux.
Import ListNotations.
Local Open Scope Z_scope.

Inductive err := EUAF | EAssert | EFuel | EOverflow.
Inductive res (A : Type) := Ok (a : A) | Bad (e : err).
Arguments Ok {A}. Arguments Bad {A}.
Definition bind {A B} (r : res A) (f : A -> res B) : res B :=
  match r with Ok a => f a | Bad e => Bad e end.
Notation "x <- e ;; k" := (bind e (fun x => k))
  (at level 61, e at next level, right associativity).

Definition INT_MAX : Z := 2147483647.

Record node := mkN {
  n_rank : Z;               (* ABTI_xstream.rank *)
  n_prev : option nat;      (* p_prev *)
  n_next : option nat;      (* p_next *)
  n_primary : bool;         (* type == ABTI_XSTREAM_TYPE_PRIMARY *)
  n_running : bool          (* state == ABT_XSTREAM_STATE_RUNNING *)
}.

Record rl := mkRL {
  head : option nat;            (* p_global->p_xstream_head *)
  store : list (option node);   (* the heap of descriptors *)
  num : Z;                      (* p_global->num_xstreams *)
  maxx : Z                      (* p_global->max_xstreams *)
}.

Definition rl_empty (mx : Z) : rl := mkRL None [] 0 mx.

Definition get (s : rl) (i : nat) : res node :=
  match nth_error (store s) i with Some (Some n) => Ok n | _ => Bad EUAF end.
Definition put (s : rl) (i : nat) (n : node) : rl :=
  mkRL (head s) (upd_nth (store s) i (Some n)) (num s) (maxx s).
Definition set_head (s : rl) (h : option nat) : rl := mkRL h (store s) (num s) (maxx s).
Definition set_num (s : rl) (v : Z) : rl := mkRL (head s) (store s) v (maxx s).
Definition set_maxx (s : rl) (v : Z) : rl := mkRL (head s) (store s) (num s) v.

Definition set_next (s : rl) (i : nat) (v : option nat) : res rl :=
  n <- get s i ;; Ok (put s i (mkN (n_rank n) (n_prev n) v (n_primary n) (n_running n))).
Definition set_prev (s : rl) (i : nat) (v : option nat) : res rl :=
  n <- get s i ;; Ok (put s i (mkN (n_rank n) v (n_next n) (n_primary n) (n_running n))).
Definition set_rank (s : rl) (i : nat) (v : Z) : res rl :=
  n <- get s i ;; Ok (put s i (mkN v (n_prev n) (n_next n) (n_primary n) (n_running n))).
Definition set_running (s : rl) (i : nat) (v : bool) : res rl :=
  n <- get s i ;; Ok (put s i (mkN (n_rank n) (n_prev n) (n_next n) (n_primary n) v)).

Definition fuel_of (s : rl) : nat := S (length (store s)).

Definition opt_eqb (a b : option nat) : bool :=
  match a, b with
  | None, None => true
  | Some x, Some y => Nat.eqb x y
  | _, _ => false
  end.

(* ------------------------------------------------------------------------ *)
(* stream.c: xstream_add_xstream_list — the while loop.
   Returns (p_prev_xstream, p_xstream) at loop exit. *)
Fixpoint add_scan (fuel : nat) (s : rl) (rank : Z) (pprev p : option nat)
  : res (option nat * option nat) :=
  match p with
  | None => Ok (pprev, None)
  | Some x =>
    match fuel with
    | O => Bad EFuel
    | S fuel' =>
      n <- get s x ;;
      if n_rank n =? rank then Bad EAssert            (* ABTI_ASSERT(p_xstream->rank != rank) *)
      else if n_rank n >? rank then Ok (pprev, Some x) (* break *)
      else add_scan fuel' s rank (Some x) (n_next n)
    end
  end.

(* stream.c: xstream_add_xstream_list.  Note: in the "insert before p_xstream"
   branch with p_xstream->p_prev == NULL the new node's own p_prev is NOT
   written. *)
Definition add_xstream_list (s : rl) (nw : nat) : res rl :=
  nn <- get s nw ;;
  let rank := n_rank nn in
  pr <- add_scan (fuel_of s) s rank (head s) (head s) ;;
  match snd pr with
  | None =>
    match fst pr with
    | Some pp =>
      s1 <- set_next s pp (Some nw) ;;
      s2 <- set_prev s1 nw (Some pp) ;;
      set_next s2 nw None
    | None =>
      match head s with
      | None =>
        s1 <- set_prev s nw None ;;
        s2 <- set_next s1 nw None ;;
        Ok (set_head s2 (Some nw))
      | Some _ => Bad EAssert     (* ABTI_ASSERT(p_global->p_xstream_head == NULL) *)
      end
    end
  | Some x =>
    nx <- get s x ;;
    s1 <- match n_prev nx with
          | Some xp =>
            s' <- set_next s xp (Some nw) ;;
            set_prev s' nw (Some xp)
          | None =>
            if opt_eqb (head s) (Some x) then Ok (set_head s (Some nw))
            else Bad EAssert      (* ABTI_ASSERT(p_global->p_xstream_head == p_xstream) *)
          end ;;
    s2 <- set_prev s1 x (Some nw) ;;
    set_next s2 nw (Some x)
  end.

(* stream.c: xstream_remove_xstream_list.  The removed node keeps its own
   p_prev / p_next. *)
Definition remove_xstream_list (s : rl) (x : nat) : res rl :=
  n <- get s x ;;
  s1 <- match n_prev n with
        | None =>
          if opt_eqb (head s) (Some x) then Ok (set_head s (n_next n))
          else Bad EAssert        (* ABTI_ASSERT(p_global->p_xstream_head == p_xstream) *)
        | Some p => set_next s p (n_next n)
        end ;;
  n' <- get s1 x ;;
  match n_next n' with
  | Some q => set_prev s1 q (n_prev n')
  | None => Ok s1
  end.

(* stream.c: xstream_update_max_xstreams (the warning text is not modelled);
   max_xstreams = (newrank == INT_MAX) ? INT_MAX : newrank + 1 *)
Definition update_max (s : rl) (newrank : Z) : res rl :=
  if newrank >=? maxx s then
    Ok (set_maxx s (if newrank =? INT_MAX then INT_MAX else newrank + 1))
  else Ok s.

(* the code before commit a3733c8, kept for the record (C17_rank_int_max_refuted_old) *)
Definition update_max_buggy (s : rl) (newrank : Z) : res rl :=
  if newrank >=? maxx s then
    if newrank + 1 >? INT_MAX then Bad EOverflow else Ok (set_maxx s (newrank + 1))
  else Ok s.

(* stream.c: xstream_set_new_rank, rank == -1: "Find an unused rank from 0" *)
Fixpoint auto_scan (fuel : nat) (s : rl) (rank : Z) (p : option nat) : res Z :=
  match p with
  | None => Ok rank
  | Some x =>
    match fuel with
    | O => Bad EFuel
    | S fuel' =>
      n <- get s x ;;
      if n_rank n =? rank then auto_scan fuel' s (rank + 1) (n_next n)
      else Ok rank
    end
  end.

(* the "Check if a certain rank is available" loop shared (textually duplicated
   in C) by xstream_set_new_rank and xstream_change_rank *)
Fixpoint avail_scan (fuel : nat) (s : rl) (rank : Z) (p : option nat) : res bool :=
  match p with
  | None => Ok true
  | Some x =>
    match fuel with
    | O => Bad EFuel
    | S fuel' =>
      n <- get s x ;;
      if n_rank n =? rank then Ok false
      else if n_rank n >? rank then Ok true
      else avail_scan fuel' s rank (n_next n)
    end
  end.

(* stream.c: xstream_set_new_rank; result (state, ABT_TRUE/ABT_FALSE) *)
Definition set_new_rank (s : rl) (nw : nat) (rank : Z) : res (rl * bool) :=
  r <- (if rank =? -1 then
          rk <- auto_scan (fuel_of s) s 0 (head s) ;; Ok (Some rk)
        else
          av <- avail_scan (fuel_of s) s rank (head s) ;;
          Ok (if av : bool then Some rank else None)) ;;
  match r with
  | None => Ok (s, false)
  | Some rk =>
    s1 <- set_rank s nw rk ;;
    s2 <- add_xstream_list s1 nw ;;
    s3 <- update_max s2 rk ;;
    Ok (set_num s3 (num s3 + 1), true)
  end.

(* stream.c: xstream_change_rank *)
Definition change_rank (s : rl) (x : nat) (rank : Z) : res (rl * bool) :=
  n <- get s x ;;
  if n_rank n =? rank then Ok (s, true)
  else
    av <- avail_scan (fuel_of s) s rank (head s) ;;
    if av : bool then
      s1 <- remove_xstream_list s x ;;
      s2 <- set_rank s1 x rank ;;
      s3 <- add_xstream_list s2 x ;;
      s4 <- update_max s3 rank ;;
      Ok (s4, true)
    else Ok (s, false).

(* stream.c: xstream_return_rank *)
Definition return_rank (s : rl) (x : nat) : res rl :=
  s1 <- remove_xstream_list s x ;;
  Ok (set_num s1 (num s1 - 1)).

(* ABTU_malloc of a descriptor in xstream_create: p_prev = p_next = NULL; the
   rank is written by xstream_set_new_rank before it is read (calloc'ed to 0
   in the white-box harness). *)
Definition alloc (s : rl) (primary : bool) : rl * nat :=
  (mkRL (head s) (store s ++ [Some (mkN 0 None None primary true)]) (num s) (maxx s),
   length (store s)).
(* ABTU_free(p_xstream) *)
Definition dealloc (s : rl) (i : nat) : rl :=
  mkRL (head s) (upd_nth (store s) i None) (num s) (maxx s).

(* ------------------------------------------------------------------------ *)
(* canonical dump: the chain from the head *)
Inductive wstatus := WEnd | WCycle | WDangling.

Fixpoint walk_from (fuel : nat) (s : rl) (pp p : option nat)
  : list (nat * Z * bool) * wstatus :=
  match p with
  | None => ([], WEnd)
  | Some x =>
    match fuel with
    | O => ([], WCycle)
    | S fuel' =>
      match get s x with
      | Bad _ => ([], WDangling)
      | Ok n =>
        let r := walk_from fuel' s (Some x) (n_next n) in
        ((x, n_rank n, opt_eqb (n_prev n) pp) :: fst r, snd r)
      end
    end
  end.
Definition dump (s : rl) : list (nat * Z * bool) * wstatus :=
  walk_from (fuel_of s) s None (head s).
Definition dump_sane (d : list (nat * Z * bool) * wstatus) : bool :=
  match snd d with WEnd => forallb (fun e => snd e) (fst d) | _ => false end.

(* ------------------------------------------------------------------------ *)
(* white-box operations on a private ABTI_global (harness mode X): the static
   functions are called directly, descriptors are never freed, so stale
   pointers stay readable.  An operation on a descriptor that is not currently
   linked is skipped by the harness (its own bookkeeping) and by the model
   (membership in the walked chain). *)
Inductive xop :=
| XNew (rank : Z)                 (* malloc + xstream_set_new_rank *)
| XChange (i : nat) (rank : Z)    (* xstream_change_rank *)
| XReturn (i : nat).              (* xstream_return_rank *)

Inductive xres :=
| XR (vals : list Z)              (* printed integers *)
| XSkip
| XBad (e : err).

Definition linked (s : rl) (i : nat) : bool :=
  existsb (fun e => Nat.eqb (fst (fst e)) i) (fst (dump s)).

Definition b2z (b : bool) : Z := if b then 1 else 0.

Definition x_step (s : rl) (o : xop) : rl * xres :=
  match o with
  | XNew rank =>
    let (s1, nw) := alloc s false in
    match set_new_rank s1 nw rank with
    | Ok (s2, ok) =>
      (s2, XR [b2z ok; match get s2 nw with Ok n => n_rank n | Bad _ => -99 end])
    | Bad e => (s1, XBad e)
    end
  | XChange i rank =>
    if linked s i then
      match change_rank s i rank with
      | Ok (s2, ok) => (s2, XR [b2z ok; match get s2 i with Ok n => n_rank n | Bad _ => -99 end])
      | Bad e => (s, XBad e)
      end
    else (s, XSkip)
  | XReturn i =>
    if linked s i then
      match return_rank s i with
      | Ok s2 => (s2, XR [])
      | Bad e => (s, XBad e)
      end
    else (s, XSkip)
  end.

(* run; stops after the first state whose dump is not a sane doubly linked
   chain (the harness stops at the same place) *)
Fixpoint x_run (s : rl) (ops : list xop)
  : list (xres * (list (nat * Z * bool) * wstatus) * Z * Z) :=
  match ops with
  | [] => []
  | o :: ops' =>
    let (s', r) := x_step s o in
    let d := dump s' in
    (r, d, num s', maxx s') ::
    (match r with
     | XBad _ => []
     | _ => if dump_sane d then x_run s' ops' else []
     end)
  end.

(* ------------------------------------------------------------------------ *)
(* the public API as used by the primary ULT (stream.c: the ABT_xstream_ functions).
   Stream handles are descriptor indices; the handle of a freed stream or of a
   failed creation is ABT_XSTREAM_NULL (descriptor [None]). *)
Definition ABT_SUCCESS : Z := 0.
Definition ERR_INV_XSTREAM : Z := 4.
Definition ERR_INV_XSTREAM_RANK : Z := 5.
Definition ERR_XSTREAM_STATE : Z := 30.

Inductive aop :=
| ACreate                         (* ABT_xstream_create(ABT_SCHED_NULL, &x) *)
| ACreateRank (r : Z)             (* ABT_xstream_create_with_rank(ABT_SCHED_NULL, r, &x) *)
| ASetRank (i : nat) (r : Z)      (* ABT_xstream_set_rank(x_i, r) *)
| ASelfSetRank (i : nat) (r : Z)  (* a ULT on x_i: self_rank; set_rank(self, r); self_rank *)
| AFree (i : nat)                 (* ABT_xstream_free(&x_i) *)
| AJoin (i : nat)
| ARevive (i : nat)
| AGetRank (i : nat)
| AGetNum
| AGetState (i : nat)
| AWork (i : nat)                 (* a ULT pushed to x_i's main pool reports ABT_xstream_self_rank *)
| ASetMainSched (i : nat).        (* ABT_xstream_set_main_sched(x_i, ABT_SCHED_NULL) from the primary ULT *)

(* xstream_create(..., rank, ...) + the checks of the two public creators;
   every attempt consumes one descriptor index (malloc, then free on failure) *)
Definition api_create (s : rl) (primary : bool) (rank : Z) : res (rl * list Z) :=
  let (s1, nw) := alloc s primary in
  pr <- set_new_rank s1 nw rank ;;
  if snd pr : bool then
    n <- get (fst pr) nw ;; Ok (fst pr, [ABT_SUCCESS; n_rank n])
  else Ok (dealloc (fst pr) nw, [ERR_INV_XSTREAM_RANK]).

Definition live (s : rl) (i : nat) : option node :=
  match nth_error (store s) i with Some (Some n) => Some n | _ => None end.

(* ABT_xstream_set_rank *)
Definition api_set_rank (s : rl) (i : nat) (r : Z) : res (rl * Z) :=
  match live s i with
  | None => Ok (s, ERR_INV_XSTREAM)
  | Some n =>
    if n_primary n then Ok (s, ERR_INV_XSTREAM)
    else if r <? 0 then Ok (s, ERR_INV_XSTREAM_RANK)
    else
      pr <- change_rank s i r ;;
      Ok (fst pr, if snd pr : bool then ABT_SUCCESS else ERR_INV_XSTREAM_RANK)
  end.

Definition api_step (s : rl) (o : aop) : res (rl * list Z) :=
  match o with
  | ACreate => api_create s false (-1)
  | ACreateRank r =>
    if r <? 0 then
      (* rejected before the descriptor is allocated; the handle stays NULL *)
      Ok (mkRL (head s) (store s ++ [None]) (num s) (maxx s), [ERR_INV_XSTREAM_RANK])
    else api_create s false r
  | ASetRank i r => pr <- api_set_rank s i r ;; Ok (fst pr, [snd pr])
  | ASelfSetRank i r =>
    match live s i with
    | None => Ok (s, [-1])
    | Some n =>
      if n_running n then
        pr <- api_set_rank s i r ;;
        n' <- get (fst pr) i ;;
        Ok (fst pr, [n_rank n; snd pr; n_rank n'])
      else Ok (s, [-2])
    end
  | AFree i =>
    match live s i with
    | None => Ok (s, [ERR_INV_XSTREAM])
    | Some n =>
      if n_primary n then Ok (s, [ERR_INV_XSTREAM])   (* caller runs on it / primary *)
      else
        (* xstream_join, then ABTI_xstream_free: xstream_return_rank, ..., ABTU_free *)
        s1 <- set_running s i false ;;
        s2 <- return_rank s1 i ;;
        Ok (dealloc s2 i, [ABT_SUCCESS])
    end
  | AJoin i =>
    match live s i with
    | None => Ok (s, [ERR_INV_XSTREAM])
    | Some n =>
      if n_primary n then Ok (s, [ERR_INV_XSTREAM])
      else s1 <- set_running s i false ;; Ok (s1, [ABT_SUCCESS])
    end
  | ARevive i =>
    match live s i with
    | None => Ok (s, [ERR_INV_XSTREAM])
    | Some n =>
      if n_running n then Ok (s, [ERR_INV_XSTREAM])   (* main scheduler not TERMINATED *)
      else s1 <- set_running s i true ;; Ok (s1, [ABT_SUCCESS])
    end
  | AGetRank i =>
    match live s i with
    | None => Ok (s, [ERR_INV_XSTREAM])
    | Some n => Ok (s, [ABT_SUCCESS; n_rank n])
    end
  | AGetNum => Ok (s, [ABT_SUCCESS; num s])
  | AGetState i =>
    match live s i with
    | None => Ok (s, [ERR_INV_XSTREAM])
    | Some n => Ok (s, [ABT_SUCCESS; if n_running n then 0 else 1])
    end
  | AWork i =>
    match live s i with
    | None => Ok (s, [-1])
    | Some n => if n_running n then Ok (s, [n_rank n]) else Ok (s, [-2])
    end
  | ASetMainSched i =>
    (* allowed on a terminated stream and on the caller's own stream (here: the
       primary); ranks, list and stream states are not touched *)
    match live s i with
    | None => Ok (s, [ERR_INV_XSTREAM])
    | Some n =>
      if n_running n && negb (n_primary n) then Ok (s, [ERR_XSTREAM_STATE])
      else Ok (s, [ABT_SUCCESS])
    end
  end.

(* ABT_init: ABTI_xstream_create_primary = xstream_create(PRIMARY, rank -1) on
   the empty list *)
Definition api_init (mx : Z) : res rl :=
  pr <- api_create (rl_empty mx) true (-1) ;; Ok (fst pr).

Fixpoint api_run (s : rl) (ops : list aop) : res (rl * list (list Z)) :=
  match ops with
  | [] => Ok (s, [])
  | o :: ops' =>
    p1 <- api_step s o ;;
    p2 <- api_run (fst p1) ops' ;;
    Ok (fst p2, snd p1 :: snd p2)
  end.

(* the same, keeping every intermediate state (for the driver's per-op dump) *)
Fixpoint api_trace (s : rl) (ops : list aop)
  : list (res (list Z * (list (nat * Z * bool) * wstatus) * Z * Z)) :=
  match ops with
  | [] => []
  | o :: ops' =>
    match api_step s o with
    | Bad e => [Bad e]
    | Ok (s', r) => Ok (r, dump s', num s', maxx s') :: api_trace s' ops'
    end
  end.
