(* Proofs about DS/RankList.v (the rank list of src/stream.c).

   [seg s pp p l q]: following p_next from pointer [p] visits exactly the
   descriptors [l] and ends with pointer [q]; every visited descriptor is live
   and its p_prev is its predecessor ([pp] for the first one).
   [WF s l]: the invariant of API-reachable states; [l] is the chain from the
   head.  It contains "the head is the primary stream with rank 0", without
   which the insertion code leaves a stale p_prev (see [corruption_example]
   at the end). *)
From Coq Require Import List ZArith Bool Lia Arith Sorting.Sorted.
From ABT Require Import Common.ListAux DS.RankList.
Import ListNotations.
Local Open Scope Z_scope.

(* ------------------------------------------------------------------ store *)
Lemma nth_error_upd_eq {A} (l : list A) i x :
  (i < length l)%nat -> nth_error (upd_nth l i x) i = Some x.
Proof. revert i; induction l; destruct i; cbn; intros; auto; try lia. apply IHl; lia. Qed.
Lemma nth_error_upd_ne {A} (l : list A) i j x :
  i <> j -> nth_error (upd_nth l i x) j = nth_error l j.
Proof. revert i j; induction l; destruct i, j; cbn; intros; auto; try lia. Qed.

Definition w_next (v : option nat) (n : node) := mkN (n_rank n) (n_prev n) v (n_primary n) (n_running n).
Definition w_prev (v : option nat) (n : node) := mkN (n_rank n) v (n_next n) (n_primary n) (n_running n).
Definition w_rank (v : Z) (n : node) := mkN v (n_prev n) (n_next n) (n_primary n) (n_running n).
Definition w_run (v : bool) (n : node) := mkN (n_rank n) (n_prev n) (n_next n) (n_primary n) v.

Definition upd (s : rl) (i : nat) (f : node -> node) : rl :=
  match live s i with Some n => put s i (f n) | None => s end.

Lemma get_live s i : get s i = match live s i with Some n => Ok n | None => Bad EUAF end.
Proof. unfold get, live. destruct (nth_error (store s) i) as [[n|]|]; reflexivity. Qed.

Lemma live_lt s i n : live s i = Some n -> (i < length (store s))%nat.
Proof.
  unfold live. destruct (nth_error (store s) i) eqn:E; [|discriminate].
  intros _. apply nth_error_Some. congruence.
Qed.

Lemma live_upd s i f j :
  live (upd s i f) j = if Nat.eqb i j then option_map f (live s i) else live s j.
Proof.
  unfold upd. destruct (live s i) as [n|] eqn:E.
  - pose proof (live_lt _ _ _ E) as Hlt. unfold live, put; cbn [store].
    destruct (Nat.eqb_spec i j) as [<-|Hne].
    + rewrite nth_error_upd_eq by auto. reflexivity.
    + rewrite nth_error_upd_ne by auto. reflexivity.
  - destruct (Nat.eqb_spec i j) as [<-|Hne]; [rewrite E|]; reflexivity.
Qed.

Lemma head_upd s i f : head (upd s i f) = head s.
Proof. unfold upd. destruct (live s i); reflexivity. Qed.
Lemma num_upd s i f : num (upd s i f) = num s.
Proof. unfold upd. destruct (live s i); reflexivity. Qed.
Lemma maxx_upd s i f : maxx (upd s i f) = maxx s.
Proof. unfold upd. destruct (live s i); reflexivity. Qed.
Lemma len_upd s i f : length (store (upd s i f)) = length (store s).
Proof. unfold upd. destruct (live s i); cbn; auto. apply upd_nth_length. Qed.
Lemma fuel_upd s i f : fuel_of (upd s i f) = fuel_of s.
Proof. unfold fuel_of. rewrite len_upd. reflexivity. Qed.

Lemma set_next_upd s i v n : live s i = Some n -> set_next s i v = Ok (upd s i (w_next v)).
Proof. intros H. unfold set_next, upd. rewrite get_live, H. reflexivity. Qed.
Lemma set_prev_upd s i v n : live s i = Some n -> set_prev s i v = Ok (upd s i (w_prev v)).
Proof. intros H. unfold set_prev, upd. rewrite get_live, H. reflexivity. Qed.
Lemma set_rank_upd s i v n : live s i = Some n -> set_rank s i v = Ok (upd s i (w_rank v)).
Proof. intros H. unfold set_rank, upd. rewrite get_live, H. reflexivity. Qed.
Lemma set_running_upd s i v n : live s i = Some n -> set_running s i v = Ok (upd s i (w_run v)).
Proof. intros H. unfold set_running, upd. rewrite get_live, H. reflexivity. Qed.

Definition rank_of (s : rl) (i : nat) : Z := match live s i with Some n => n_rank n | None => 0 end.
Definition ranks (s : rl) (l : list nat) : list Z := map (rank_of s) l.

(* the part of a descriptor the list functions do not touch *)
Definition data (n : node) := (n_rank n, n_primary n, n_running n).
Definition links (n : node) := (n_prev n, n_next n).
(* s' differs from s only in link fields *)
Definition same_data (s s' : rl) : Prop :=
  forall i, option_map data (live s' i) = option_map data (live s i).

Lemma same_data_refl s : same_data s s. Proof. intros i; reflexivity. Qed.
Lemma same_data_trans s1 s2 s3 : same_data s1 s2 -> same_data s2 s3 -> same_data s1 s3.
Proof. intros H1 H2 i. rewrite H2, H1. reflexivity. Qed.
Lemma same_data_upd_link s i f :
  (forall n, data (f n) = data n) -> same_data s (upd s i f).
Proof.
  intros Hf j. rewrite live_upd. destruct (Nat.eqb_spec i j) as [<-|]; auto.
  destruct (live s i); cbn; auto. rewrite Hf. reflexivity.
Qed.
Lemma same_data_rank s s' i : same_data s s' -> rank_of s' i = rank_of s i.
Proof.
  intros H. specialize (H i). unfold rank_of.
  destruct (live s' i), (live s i); cbn in H; try discriminate; auto.
  unfold data in H. inversion H; auto.
Qed.
Lemma same_data_ranks s s' l : same_data s s' -> ranks s' l = ranks s l.
Proof. intros H. apply map_ext. intros; apply same_data_rank; auto. Qed.
Lemma same_data_live_iff s s' i : same_data s s' -> (live s' i <> None <-> live s i <> None).
Proof.
  intros H. specialize (H i). destruct (live s' i), (live s i); cbn in H; try discriminate;
  split; congruence.
Qed.

(* ------------------------------------------------------------------ seg *)
Inductive seg (s : rl) : option nat -> option nat -> list nat -> option nat -> Prop :=
| seg_nil pp p : seg s pp p [] p
| seg_cons pp x n l q :
    live s x = Some n -> n_prev n = pp -> seg s (Some x) (n_next n) l q ->
    seg s pp (Some x) (x :: l) q.

Lemma seg_ext s s' pp p l q :
  (forall i, In i l -> option_map links (live s' i) = option_map links (live s i)) ->
  seg s pp p l q -> seg s' pp p l q.
Proof.
  intros H Hs. induction Hs as [|pp x n l q Hl Hp Hs IH]; [constructor|].
  pose proof (H x (or_introl eq_refl)) as Hx. rewrite Hl in Hx.
  destruct (live s' x) as [n'|] eqn:E; [|discriminate]. cbn in Hx. inversion Hx.
  econstructor; eauto; try congruence.
  replace (n_next n') with (n_next n) by congruence. apply IH. intros; apply H; right; auto.
Qed.

Lemma seg_frame s s' pp p l q :
  (forall i, In i l -> live s' i = live s i) -> seg s pp p l q -> seg s' pp p l q.
Proof. intros H. apply seg_ext. intros i Hi. rewrite H; auto. Qed.

Definition lastptr (pp : option nat) (l : list nat) : option nat :=
  match l with [] => pp | _ => Some (last l 0%nat) end.
Lemma lastptr_cons pp x l : lastptr pp (x :: l) = lastptr (Some x) l.
Proof. destruct l; reflexivity. Qed.
Lemma lastptr_snoc pp l x : lastptr pp (l ++ [x]) = Some x.
Proof. unfold lastptr. destruct (l ++ [x]) eqn:E; [destruct l; discriminate|]. rewrite <- E, last_snoc. auto. Qed.

Lemma seg_app s l1 : forall pp p l2 q,
  seg s pp p (l1 ++ l2) q <-> exists m, seg s pp p l1 m /\ seg s (lastptr pp l1) m l2 q.
Proof.
  induction l1 as [|x l1 IH]; intros pp p l2 q; cbn [app].
  - split.
    + intros H. exists p. split; [constructor|exact H].
    + intros (m & H1 & H2). inversion H1; subst. exact H2.
  - split.
    + intros H. inversion H as [|? ? n ? ? Hl Hp Hs]; subst. apply IH in Hs. destruct Hs as (m & Ha & Hb).
      exists m. split; [econstructor; eauto|]. rewrite lastptr_cons. exact Hb.
    + intros (m & H1 & H2). inversion H1 as [|? ? n ? ? Hl Hp Hs]; subst. econstructor; eauto.
      apply IH. exists m. split; auto. rewrite lastptr_cons in H2. exact H2.
Qed.

Lemma seg_single s pp x q :
  seg s pp (Some x) [x] q <-> exists n, live s x = Some n /\ n_prev n = pp /\ n_next n = q.
Proof.
  split.
  - intros H. inversion H as [|? ? n ? ? Hl Hp Hs]; subst. inversion Hs; subst. eauto.
  - intros (n & H1 & H2 & H3). econstructor; eauto. rewrite H3. constructor.
Qed.

Lemma seg_live s pp p l q i : seg s pp p l q -> In i l -> live s i <> None.
Proof. induction 1; cbn; [tauto|]. intros [<-|Hi]; [congruence|auto]. Qed.

Lemma seg_start s pp p l q : seg s pp p l q -> p = match l with [] => q | x :: _ => Some x end.
Proof. destruct 1; reflexivity. Qed.

Lemma seg_length_bound s pp p l q :
  seg s pp p l q -> NoDup l -> (length l <= length (store s))%nat.
Proof.
  intros Hs Hn.
  assert (Hi : incl l (seq 0 (length (store s)))).
  { intros i Hi. apply in_seq. pose proof (seg_live _ _ _ _ _ _ Hs Hi) as Hl.
    destruct (live s i) eqn:E; [|congruence]. apply live_lt in E. lia. }
  pose proof (NoDup_incl_length Hn Hi) as H. rewrite seq_length in H. exact H.
Qed.

(* ------------------------------------------------------------------ sortedness of Z lists *)
Lemma ss_app_inv (l1 l2 : list Z) :
  StronglySorted Z.lt (l1 ++ l2) ->
  StronglySorted Z.lt l1 /\ StronglySorted Z.lt l2 /\ forall a b, In a l1 -> In b l2 -> a < b.
Proof.
  induction l1 as [|x l1 IH]; cbn; intros H.
  - repeat split; auto. constructor. intros ? ? [].
  - inversion H; subst. destruct (IH H2) as (A & B & C). rewrite Forall_app in H3. destruct H3 as [F1 F2].
    repeat split; auto. constructor; auto.
    intros a b [<-|Ha] Hb; [rewrite Forall_forall in F2; auto|auto].
Qed.

Lemma ss_app (l1 l2 : list Z) :
  StronglySorted Z.lt l1 -> StronglySorted Z.lt l2 -> (forall a b, In a l1 -> In b l2 -> a < b) ->
  StronglySorted Z.lt (l1 ++ l2).
Proof.
  induction l1 as [|x l1 IH]; cbn; intros H1 H2 H; auto.
  inversion H1; subst. constructor.
  - apply IH; auto.
  - rewrite Forall_app. split; auto. rewrite Forall_forall. intros b Hb. apply H; auto.
Qed.

Lemma ss_insert (l1 l2 : list Z) r :
  StronglySorted Z.lt (l1 ++ l2) -> Forall (fun a => a < r) l1 -> Forall (fun b => r < b) l2 ->
  StronglySorted Z.lt (l1 ++ r :: l2).
Proof.
  intros H F1 F2. destruct (ss_app_inv _ _ H) as (A & B & C).
  rewrite Forall_forall in F1, F2.
  apply ss_app; auto.
  - constructor; auto. rewrite Forall_forall. auto.
  - intros a b Ha [<-|Hb]; auto.
Qed.

Lemma ss_remove (l1 l2 : list Z) r :
  StronglySorted Z.lt (l1 ++ r :: l2) -> StronglySorted Z.lt (l1 ++ l2) /\ ~ In r (l1 ++ l2).
Proof.
  intros H. destruct (ss_app_inv _ _ H) as (A & B & C). inversion B; subst.
  rewrite Forall_forall in H3. split.
  - apply ss_app; auto. intros a b Ha Hb. apply C; cbn; auto.
  - rewrite in_app_iff. intros [Hi|Hi].
    + specialize (C r r Hi (or_introl eq_refl)). lia.
    + specialize (H3 _ Hi). lia.
Qed.

Lemma ss_nodup (l : list Z) : StronglySorted Z.lt l -> NoDup l.
Proof.
  induction 1; constructor; auto. rewrite Forall_forall in H0. intros Hi. specialize (H0 _ Hi). lia.
Qed.

(* ------------------------------------------------------------------ the three scans *)
Section Scans.
Variable s : rl.

Lemma avail_scan_spec rank : forall l fuel pp p,
  seg s pp p l None -> StronglySorted Z.lt (ranks s l) -> (length l < fuel)%nat ->
  avail_scan fuel s rank p = Ok (negb (existsb (Z.eqb rank) (ranks s l))).
Proof.
  induction l as [|x l IH]; intros fuel pp p Hs Hso Hf; inversion Hs as [|? ? n ? ? H1 Hp Hs']; subst.
  - destruct fuel; reflexivity.
  - destruct fuel as [|fuel]; [cbn in Hf; lia|]. cbn [avail_scan].
    rewrite get_live, H1. cbn [bind]. cbn [ranks map existsb]. fold (ranks s l).
    unfold rank_of at 1. rewrite H1.
    inversion Hso as [|? ? Hso' H3]; subst. fold (ranks s l) in *.
    destruct (Z.eqb_spec (n_rank n) rank) as [->|Hne].
    + rewrite Z.eqb_refl. reflexivity.
    + destruct (Z.eqb_spec rank (n_rank n)); [congruence|]. cbn [orb].
      destruct (Z.gtb_spec (n_rank n) rank) as [Hgt|Hle].
      * replace (existsb (Z.eqb rank) (ranks s l)) with false; auto.
        symmetry. apply not_true_is_false. intros He. apply existsb_exists in He.
        destruct He as (b & Hb & Hbe). apply Z.eqb_eq in Hbe. subst b.
        unfold rank_of in H3 at 1. rewrite H1 in H3. rewrite Forall_forall in H3.
        specialize (H3 _ Hb). lia.
      * eapply IH; eauto. cbn in Hf. lia.
Qed.

Lemma existsb_eqb_In r (l : list Z) : existsb (Z.eqb r) l = true <-> In r l.
Proof.
  rewrite existsb_exists. split.
  - intros (x & Hx & He). apply Z.eqb_eq in He. congruence.
  - intros H. exists r. split; auto. apply Z.eqb_refl.
Qed.

Lemma auto_scan_spec : forall l fuel pp p r0,
  seg s pp p l None -> StronglySorted Z.lt (ranks s l) -> Forall (fun a => r0 <= a) (ranks s l) ->
  (length l < fuel)%nat ->
  exists r, auto_scan fuel s r0 p = Ok r /\ r0 <= r <= r0 + Z.of_nat (length l) /\
            ~ In r (ranks s l) /\ forall k, r0 <= k < r -> In k (ranks s l).
Proof.
  induction l as [|x l IH]; intros fuel pp p r0 Hs Hso Hge Hf; inversion Hs as [|? ? n ? ? H1 Hp Hs']; subst.
  - exists r0. destruct fuel; cbn; repeat split; auto; try lia; intros; lia.
  - destruct fuel as [|fuel]; [cbn in Hf; lia|]. cbn [auto_scan].
    rewrite get_live, H1. cbn [bind].
    cbn [ranks map] in *. fold (ranks s l) in *. unfold rank_of in Hso at 1, Hge at 1. rewrite H1 in Hso, Hge.
    inversion Hso as [|? ? Hso' H3]; subst. inversion Hge as [|? ? Hge1 Hge']; subst.
    unfold rank_of at 1 2. rewrite H1.
    destruct (Z.eqb_spec (n_rank n) r0) as [He|Hne].
    + destruct (IH fuel (Some x) (n_next n) (r0 + 1)) as (r & Hr & Hb & Hn & Hall); auto.
      { rewrite Forall_forall in *. intros a Ha. specialize (H3 _ Ha). lia. }
      { cbn in Hf; lia. }
      exists r. split; [exact Hr|]. split; [cbn [length]; lia|]. split.
      * intros [Hx|Hx]; [lia|auto].
      * intros k Hk. destruct (Z.eq_dec k r0); [left; lia|right; apply Hall; lia].
    + exists r0. split; [reflexivity|]. split; [cbn [length]; lia|]. split.
      * intros [Hx|Hx]; [lia|]. rewrite Forall_forall in H3. specialize (H3 _ Hx). lia.
      * intros; lia.
Qed.

Lemma add_scan_spec rank : forall l fuel pp pprev p,
  seg s pp p l None -> StronglySorted Z.lt (ranks s l) -> ~ In rank (ranks s l) ->
  (length l < fuel)%nat ->
  exists l1 l2, l = l1 ++ l2 /\ Forall (fun a => a < rank) (ranks s l1) /\
                Forall (fun b => rank < b) (ranks s l2) /\
                add_scan fuel s rank pprev p = Ok (lastptr pprev l1, hd_error l2).
Proof.
  induction l as [|x l IH]; intros fuel pp pprev p Hs Hso Hni Hf; inversion Hs as [|? ? n ? ? H1 Hp Hs']; subst.
  - exists [], []. destruct fuel; cbn; repeat split; auto.
  - destruct fuel as [|fuel]; [cbn in Hf; lia|]. cbn [add_scan].
    rewrite get_live, H1. cbn [bind].
    cbn [ranks map] in *. fold (ranks s l) in *. unfold rank_of in Hso at 1, Hni at 1. rewrite H1 in Hso, Hni.
    inversion Hso as [|? ? Hso' H3]; subst.
    destruct (Z.eqb_spec (n_rank n) rank) as [He|Hne]; [exfalso; apply Hni; left; auto|].
    destruct (Z.gtb_spec (n_rank n) rank) as [Hgt|Hle].
    + exists [], (x :: l). cbn [app ranks map hd_error lastptr]. repeat split; auto.
      constructor; [unfold rank_of; rewrite H1; lia|].
      fold (ranks s l). rewrite Forall_forall in *. intros b Hb. specialize (H3 _ Hb). lia.
    + destruct (IH fuel (Some x) (Some x) (n_next n)) as (l1 & l2 & -> & F1 & F2 & Hr); auto.
      { intros Hi. apply Hni. right; auto. }
      { cbn in Hf; lia. }
      exists (x :: l1), l2. cbn [app ranks map]. repeat split; auto.
      * constructor; auto. unfold rank_of; rewrite H1; lia.
      * rewrite lastptr_cons. exact Hr.
Qed.
End Scans.

(* ------------------------------------------------------------------ insertion (not at the head) *)
Lemma ranks_app s l1 l2 : ranks s (l1 ++ l2) = ranks s l1 ++ ranks s l2.
Proof. apply map_app. Qed.

Lemma neq_eqb (a b : nat) : a <> b -> Nat.eqb a b = false.
Proof. intros; apply Nat.eqb_neq; auto. Qed.

Ltac eqb_decide :=
  repeat match goal with
  | |- context [Nat.eqb ?a ?a] => rewrite (Nat.eqb_refl a)
  | H : ?a <> ?b |- context [Nat.eqb ?a ?b] => rewrite (neq_eqb a b H)
  | H : ?b <> ?a |- context [Nat.eqb ?a ?b] => rewrite (neq_eqb a b (not_eq_sym H))
  end.
(* normalise [live] of a stack of field updates *)
Ltac lv := repeat rewrite live_upd; eqb_decide.
Ltac misc := repeat rewrite ?head_upd, ?num_upd, ?maxx_upd, ?len_upd, ?fuel_upd.
Ltac sd_chain :=
  repeat (first [apply same_data_upd_link; reflexivity
                | eapply same_data_trans; [|apply same_data_upd_link; reflexivity]]).

Lemma add_spec s l nw nn :
  seg s None (head s) l None -> NoDup l -> StronglySorted Z.lt (ranks s l) ->
  live s nw = Some nn -> ~ In nw l -> ~ In (n_rank nn) (ranks s l) ->
  (exists h t, l = h :: t /\ rank_of s h < n_rank nn) ->
  exists s' l1 l2,
    add_xstream_list s nw = Ok s' /\ l = l1 ++ l2 /\
    Forall (fun a => a < n_rank nn) (ranks s l1) /\ Forall (fun b => n_rank nn < b) (ranks s l2) /\
    seg s' None (head s') (l1 ++ nw :: l2) None /\
    head s' = head s /\ num s' = num s /\ maxx s' = maxx s /\
    length (store s') = length (store s) /\ same_data s s'.
Proof.
  intros Hseg Hnd Hso Hnw Hnin Hrk (h & t & Hl & Hh).
  pose proof (seg_length_bound _ _ _ _ _ Hseg Hnd) as Hlen.
  destruct (add_scan_spec s (n_rank nn) l (fuel_of s) None (head s) (head s) Hseg Hso Hrk)
    as (l1 & l2 & -> & F1 & F2 & Hscan); [unfold fuel_of; lia|].
  (* l1 is not empty: the head's rank is smaller *)
  assert (Hl1 : l1 <> []).
  { intros ->. cbn in Hl. subst l2. cbn in F2. inversion F2; subst. lia. }
  destruct (list_snoc_cases l1) as [?|(l1a & xp & ->)]; [congruence|].
  unfold add_xstream_list. rewrite get_live, Hnw. cbn [bind]. rewrite Hscan. cbn [bind fst snd].
  rewrite lastptr_snoc.
  apply seg_app in Hseg. destruct Hseg as (m & Hs1 & Hs2). rewrite lastptr_snoc in Hs2.
  apply seg_app in Hs1. destruct Hs1 as (m1 & Hs1a & Hs1b).
  pose proof (seg_start _ _ _ _ _ Hs1b) as Hm1. subst m1.
  apply seg_single in Hs1b. destruct Hs1b as (np & Hlp & Hpp & Hpn).
  (* facts about distinctness *)
  rewrite <- app_assoc in Hnd. cbn [app] in Hnd.
  apply NoDup_app_iff in Hnd. destruct Hnd as (Nd1 & Nd2 & Nd3).
  inversion Nd2 as [|? ? Nxp Nd2']; subst.
  assert (Hnw1 : ~ In nw l1a) by (intros Hi; apply Hnin; rewrite !in_app_iff; auto).
  assert (Hnwp : nw <> xp) by (intros ->; apply Hnin; rewrite !in_app_iff; cbn; auto).
  assert (Hnw2 : ~ In nw l2) by (intros Hi; apply Hnin; rewrite !in_app_iff; auto).
  assert (Hxp1 : ~ In xp l1a) by (intros Hi; apply (Nd3 _ Hi); left; auto).
  assert (Fr1 : forall i, In i l1a -> i <> xp /\ i <> nw) by (intros i Hi; split; intros ->; auto).
  destruct l2 as [|y l2]; cbn [hd_error].
  - (* append after xp *)
    erewrite set_next_upd by eauto. cbn [bind].
    erewrite set_prev_upd by (lv; eauto). cbn [bind].
    erewrite set_next_upd by (lv; rewrite Hnw; reflexivity).
    eexists _, (l1a ++ [xp]), []. split; [reflexivity|].
    rewrite app_nil_r. repeat split; auto; misc; auto.
    + rewrite <- app_assoc. apply seg_app. exists (Some xp). split.
      * eapply seg_frame; [|exact Hs1a]. intros i Hi. destruct (Fr1 i Hi). lv. reflexivity.
      * cbn [app]. econstructor.
        { lv. rewrite Hlp. reflexivity. }
        { cbn. exact Hpp. }
        cbn [w_next n_next]. apply seg_single. eexists. split.
        { lv. rewrite Hnw. reflexivity. }
        cbn. auto.
    + sd_chain.
  - (* insert between xp and y *)
    inversion Hs2 as [|? ? ny ? ? Hly Hyp Hs2']; subst.
    assert (Hnwy : nw <> y) by (intros ->; apply Hnw2; left; auto).
    assert (Hxpy : xp <> y) by (intros ->; apply Nxp; left; auto).
    inversion Nd2' as [|? ? Ny Nd2'']; subst.
    assert (Fr1' : forall i, In i l1a -> i <> y) by (intros i Hi ->; apply (Nd3 _ Hi); right; left; auto).
    assert (Fr2 : forall i, In i l2 -> i <> y /\ i <> xp /\ i <> nw).
    { intros i Hi. repeat split; intros ->; auto. - apply Nxp; right; auto. - apply Hnw2; right; auto. }
    rewrite get_live, Hly. cbn [bind]. rewrite Hyp.
    erewrite set_next_upd by eauto. cbn [bind].
    erewrite set_prev_upd by (lv; eauto). cbn [bind].
    erewrite set_prev_upd by (lv; eauto). cbn [bind].
    erewrite set_next_upd by (lv; rewrite Hnw; reflexivity).
    eexists _, (l1a ++ [xp]), (y :: l2). split; [reflexivity|].
    repeat split; auto; misc; auto.
    + rewrite <- app_assoc. apply seg_app. exists (Some xp). split.
      * eapply seg_frame; [|exact Hs1a]. intros i Hi. destruct (Fr1 i Hi). pose proof (Fr1' i Hi).
        lv. reflexivity.
      * cbn [app]. econstructor.
        { lv. rewrite Hlp. reflexivity. }
        { cbn. exact Hpp. }
        cbn [w_next n_next]. econstructor.
        { lv. rewrite Hnw. reflexivity. }
        { reflexivity. }
        cbn [w_next n_next]. econstructor.
        { lv. rewrite Hly. reflexivity. }
        { reflexivity. }
        cbn [w_prev n_next].
        eapply seg_frame; [|exact Hs2']. intros i Hi. destruct (Fr2 i Hi) as (? & ? & ?).
        lv. reflexivity.
    + sd_chain.
Qed.

(* ------------------------------------------------------------------ removal (not the head) *)
Lemma remove_spec s l1 x l2 :
  seg s None (head s) (l1 ++ x :: l2) None -> NoDup (l1 ++ x :: l2) -> l1 <> [] ->
  exists s',
    remove_xstream_list s x = Ok s' /\
    seg s' None (head s') (l1 ++ l2) None /\
    head s' = head s /\ num s' = num s /\ maxx s' = maxx s /\
    length (store s') = length (store s) /\ same_data s s' /\
    live s' x <> None.
Proof.
  intros Hseg Hnd Hl1.
  destruct (list_snoc_cases l1) as [?|(l1a & xp & ->)]; [congruence|].
  apply seg_app in Hseg. destruct Hseg as (m & Hs1 & Hs2). rewrite lastptr_snoc in Hs2.
  apply seg_app in Hs1. destruct Hs1 as (m1 & Hs1a & Hs1b).
  pose proof (seg_start _ _ _ _ _ Hs1b) as Hm1. subst m1.
  apply seg_single in Hs1b. destruct Hs1b as (np & Hlp & Hpp & Hpn).
  inversion Hs2 as [|? ? nx ? ? Hlx Hxp Hs2']; subst.
  rewrite <- app_assoc in Hnd. cbn [app] in Hnd.
  apply NoDup_app_iff in Hnd. destruct Hnd as (Nd1 & Nd2 & Nd3).
  inversion Nd2 as [|? ? Nxp Nd2']; subst. inversion Nd2' as [|? ? Nx Nd2'']; subst.
  assert (Hxpx : xp <> x) by (intros ->; apply Nxp; left; auto).
  assert (Fr1 : forall i, In i l1a -> i <> xp) by (intros i Hi ->; apply (Nd3 _ Hi); left; auto).
  unfold remove_xstream_list. rewrite get_live, Hlx. cbn [bind]. rewrite Hxp.
  erewrite set_next_upd by eauto. cbn [bind].
  rewrite get_live. lv. rewrite Hlx. cbn [bind]. rewrite Hxp.
  pose proof (seg_start _ _ _ _ _ Hs2') as Hnx.
  destruct l2 as [|y l2].
  - rewrite Hnx.
    eexists. split; [reflexivity|]. rewrite app_nil_r. repeat split; misc; auto.
    + apply seg_app. exists (Some xp). split.
      * eapply seg_frame; [|exact Hs1a]. intros i Hi. pose proof (Fr1 i Hi). lv. reflexivity.
      * apply seg_single. eexists. split.
        { lv. rewrite Hlp. reflexivity. }
        cbn. auto.
    + sd_chain.
    + lv. congruence.
  - rewrite Hnx in Hs2' |- *.
    inversion Hs2' as [|? ? ny ? ? Hly Hyp Hs2'']; subst.
    assert (Hxy : x <> y) by (intros ->; apply Nx; left; auto).
    assert (Hxpy : xp <> y) by (intros ->; apply Nxp; right; left; auto).
    inversion Nd2'' as [|? ? Ny Nd3']; subst.
    assert (Fr1' : forall i, In i l1a -> i <> y) by (intros i Hi ->; apply (Nd3 _ Hi); right; right; left; auto).
    assert (Fr2 : forall i, In i l2 -> i <> y /\ i <> xp).
    { intros i Hi. split; intros ->; auto. apply Nxp; right; right; auto. }
    erewrite set_prev_upd by (lv; eauto).
    eexists. split; [reflexivity|]. repeat split; misc; auto.
    + rewrite <- app_assoc. apply seg_app. exists (Some xp). split.
      * eapply seg_frame; [|exact Hs1a]. intros i Hi. pose proof (Fr1 i Hi). pose proof (Fr1' i Hi).
        lv. reflexivity.
      * cbn [app]. econstructor.
        { lv. rewrite Hlp. reflexivity. }
        { exact Hpp. }
        cbn [w_next n_next]. econstructor.
        { lv. rewrite Hly. reflexivity. }
        { reflexivity. }
        cbn [w_prev n_next].
        eapply seg_frame; [|exact Hs2'']. intros i Hi. destruct (Fr2 i Hi). lv. reflexivity.
    + sd_chain.
    + lv. congruence.
Qed.

(* ------------------------------------------------------------------ the invariant of API-reachable states *)
Definition prim (s : rl) (i : nat) : bool :=
  match live s i with Some n => n_primary n | None => false end.

Record WF (s : rl) (l : list nat) : Prop := mkWF {
  wf_seg : seg s None (head s) l None;
  wf_nodup : NoDup l;
  wf_sorted : StronglySorted Z.lt (ranks s l);
  wf_num : num s = Z.of_nat (length l);
  wf_live : forall i, In i l <-> live s i <> None;
  wf_head : exists t, l = 0%nat :: t;          (* the head is descriptor 0 ... *)
  wf_rank0 : rank_of s 0 = 0;                  (* ... which has rank 0 ... *)
  wf_prim : forall i, In i l -> (prim s i = true <-> i = 0%nat)  (* ... and is the primary stream *)
}.

Definition rp (n : node) := (n_rank n, n_primary n).

Lemma WF_transport s s' l :
  WF s l -> head s' = head s -> num s' = num s ->
  (forall i, option_map links (live s' i) = option_map links (live s i)) ->
  (forall i, option_map rp (live s' i) = option_map rp (live s i)) ->
  WF s' l.
Proof.
  intros [A B C D E F G H] Hh Hn Hl Hr.
  assert (Hrk : forall i, rank_of s' i = rank_of s i).
  { intros i. specialize (Hr i). unfold rank_of. destruct (live s' i), (live s i); cbn in Hr; try discriminate; auto.
    unfold rp in Hr. inversion Hr; auto. }
  assert (Hpr : forall i, prim s' i = prim s i).
  { intros i. specialize (Hr i). unfold prim. destruct (live s' i), (live s i); cbn in Hr; try discriminate; auto.
    unfold rp in Hr. inversion Hr; auto. }
  constructor; auto.
  - rewrite Hh. eapply seg_ext; [|exact A]. intros; apply Hl.
  - unfold ranks. rewrite (map_ext _ _ Hrk). exact C.
  - congruence.
  - intros i. rewrite E. specialize (Hl i). destruct (live s' i), (live s i); cbn in Hl; try discriminate; split; congruence.
  - rewrite Hrk. exact G.
  - intros i Hi. rewrite Hpr. auto.
Qed.

Lemma WF_pos s l i : WF s l -> In i l -> i <> 0%nat -> 0 < rank_of s i.
Proof.
  intros W Hi Hne. destruct (wf_head _ _ W) as (t & ->).
  pose proof (wf_sorted _ _ W) as Hs. cbn in Hs. inversion Hs as [|? ? _ Hf]; subst.
  destruct Hi as [Hi|Hi]; [congruence|].
  rewrite Forall_forall in Hf. specialize (Hf (rank_of s i) (in_map _ _ _ Hi)).
  rewrite (wf_rank0 _ _ W) in Hf. exact Hf.
Qed.

Lemma WF_ranks_nonneg s l : WF s l -> Forall (fun a => 0 <= a) (ranks s l).
Proof.
  intros W. rewrite Forall_forall. intros a Ha. apply in_map_iff in Ha. destruct Ha as (i & <- & Hi).
  destruct (Nat.eq_dec i 0) as [->|Hne]; [rewrite (wf_rank0 _ _ W); lia|].
  pose proof (WF_pos _ _ _ W Hi Hne). lia.
Qed.

Lemma WF_zero_in s l : WF s l -> In 0 (ranks s l).
Proof. intros W. destruct (wf_head _ _ W) as (t & ->). left. apply (wf_rank0 _ _ W). Qed.

Lemma WF_len s l : WF s l -> (length l <= length (store s))%nat.
Proof. intros W. eapply seg_length_bound; [apply (wf_seg _ _ W)|apply (wf_nodup _ _ W)]. Qed.

Lemma in_ranks_iff s l r : In r (ranks s l) <-> exists i, In i l /\ rank_of s i = r.
Proof. unfold ranks. rewrite in_map_iff. split; intros (i & A & B); eauto. Qed.

(* ---- allocation ---- *)
Lemma live_alloc s p i :
  live (fst (alloc s p)) i =
  if Nat.eqb i (length (store s)) then Some (mkN 0 None None p true) else live s i.
Proof.
  unfold alloc, live; cbn [fst store].
  destruct (Nat.eqb_spec i (length (store s))) as [->|Hne].
  - rewrite nth_error_app2 by lia. rewrite Nat.sub_diag. reflexivity.
  - destruct (Nat.lt_ge_cases i (length (store s))).
    + rewrite nth_error_app1 by auto. reflexivity.
    + assert (nth_error (store s ++ [Some (mkN 0 None None p true)]) i = None) as ->
        by (apply nth_error_None; rewrite app_length; cbn; lia).
      assert (nth_error (store s) i = None) as -> by (apply nth_error_None; lia). reflexivity.
Qed.

Lemma live_fresh s : live s (length (store s)) = None.
Proof. unfold live. assert (nth_error (store s) (length (store s)) = None) as -> by (apply nth_error_None; lia). auto. Qed.

Lemma live_dealloc s i j : (i < length (store s))%nat ->
  live (dealloc s i) j = if Nat.eqb i j then None else live s j.
Proof.
  intros Hlt. unfold dealloc, live; cbn [store].
  destruct (Nat.eqb_spec i j) as [<-|Hne].
  - rewrite nth_error_upd_eq by auto. reflexivity.
  - rewrite nth_error_upd_ne by auto. reflexivity.
Qed.

(* ---- small facts ---- *)
Lemma update_max_ok s r :
  exists s', update_max s r = Ok s' /\ (forall i, live s' i = live s i) /\ head s' = head s /\
             num s' = num s /\ length (store s') = length (store s).
Proof.
  unfold update_max. destruct (r >=? maxx s); eexists; (split; [reflexivity|]); repeat split.
Qed.

Lemma NoDup_insert (l1 l2 : list nat) x : NoDup (l1 ++ l2) -> ~ In x (l1 ++ l2) -> NoDup (l1 ++ x :: l2).
Proof.
  intros H Hx. apply NoDup_app_iff in H. destruct H as (A & B & C).
  rewrite in_app_iff in Hx. apply NoDup_app_iff. repeat split; auto.
  - constructor; auto.
  - intros y Hy [<-|Hy2]; [tauto|]. apply (C y); auto.
Qed.

Lemma NoDup_remove_mid (l1 l2 : list nat) x : NoDup (l1 ++ x :: l2) -> NoDup (l1 ++ l2) /\ ~ In x (l1 ++ l2).
Proof. apply NoDup_remove. Qed.

Lemma rank_of_live_eq s s' i : live s' i = live s i -> rank_of s' i = rank_of s i.
Proof. unfold rank_of. intros ->. reflexivity. Qed.
Lemma prim_live_eq s s' i : live s' i = live s i -> prim s' i = prim s i.
Proof. unfold prim. intros ->. reflexivity. Qed.

Lemma ranks_eq_on s s' l : (forall i, In i l -> rank_of s' i = rank_of s i) -> ranks s' l = ranks s l.
Proof. intros H. apply map_ext_in. exact H. Qed.

Definition agree_old (s s' : rl) (nw : nat) : Prop :=
  forall i, i <> nw -> option_map data (live s' i) = option_map data (live s i).

Lemma agree_old_rank s s' nw i : agree_old s s' nw -> i <> nw -> rank_of s' i = rank_of s i.
Proof.
  intros H Hi. specialize (H i Hi). unfold rank_of.
  destruct (live s' i), (live s i); cbn in H; try discriminate; auto. unfold data in H. inversion H; auto.
Qed.
Lemma agree_old_prim s s' nw i : agree_old s s' nw -> i <> nw -> prim s' i = prim s i.
Proof.
  intros H Hi. specialize (H i Hi). unfold prim.
  destruct (live s' i), (live s i); cbn in H; try discriminate; auto. unfold data in H. inversion H; auto.
Qed.
Lemma agree_old_live s s' nw i : agree_old s s' nw -> i <> nw -> (live s' i <> None <-> live s i <> None).
Proof.
  intros H Hi. specialize (H i Hi).
  destruct (live s' i), (live s i); cbn in H; try discriminate; split; congruence.
Qed.

Definition running (s : rl) (i : nat) : bool :=
  match live s i with Some n => n_running n | None => false end.

(* ------------------------------------------------------------------ creation *)
Lemma create_spec s l rank :
  WF s l -> (rank = -1 \/ 0 <= rank) -> rank <= INT_MAX -> Z.of_nat (length (store s)) < INT_MAX ->
  let nw := length (store s) in
  (0 <= rank /\ In rank (ranks s l) /\
   exists s', api_create s false rank = Ok (s', [ERR_INV_XSTREAM_RANK]) /\ WF s' l /\
              (forall i, live s' i = live s i) /\ length (store s') = S nw /\
              num s' = num s /\ maxx s' = maxx s)
  \/
  (exists s' r l1 l2,
     api_create s false rank = Ok (s', [ABT_SUCCESS; r]) /\
     (rank = -1 -> 0 <= r /\ ~ In r (ranks s l) /\ forall k, 0 <= k < r -> In k (ranks s l)) /\
     (rank <> -1 -> r = rank /\ ~ In rank (ranks s l)) /\
     l = l1 ++ l2 /\ WF s' (l1 ++ nw :: l2) /\
     rank_of s' nw = r /\ running s' nw = true /\
     agree_old s s' nw /\ length (store s') = S nw /\ num s' = num s + 1).
Proof.
  intros W Hrange Hmax Hlen nw.
  pose proof (WF_len _ _ W) as Hll.
  set (s1 := fst (alloc s false)).
  assert (Hs1 : alloc s false = (s1, nw)) by reflexivity.
  assert (Hl1 : forall i, live s1 i = if Nat.eqb i nw then Some (mkN 0 None None false true) else live s i)
    by (intros; apply live_alloc).
  assert (Hnwl : ~ In nw l).
  { intros Hi. apply (wf_live _ _ W) in Hi. apply Hi. apply live_fresh. }
  assert (Hold : forall i, In i l -> live s1 i = live s i).
  { intros i Hi. rewrite Hl1. destruct (Nat.eqb_spec i nw); [subst; tauto|auto]. }
  assert (Hseg1 : seg s1 None (head s1) l None).
  { eapply seg_frame; [|apply (wf_seg _ _ W)]. exact Hold. }
  assert (Hrk1 : ranks s1 l = ranks s l).
  { apply ranks_eq_on. intros i Hi. apply rank_of_live_eq. auto. }
  assert (Hfuel : (length l < fuel_of s1)%nat).
  { unfold fuel_of, s1, alloc; cbn. rewrite app_length; cbn. lia. }
  assert (Hso1 : StronglySorted Z.lt (ranks s1 l)) by (rewrite Hrk1; apply (wf_sorted _ _ W)).
  unfold api_create. rewrite Hs1. unfold set_new_rank.
  (* which rank? *)
  assert (Hchoose :
    (0 <= rank /\ In rank (ranks s l) /\
     (if rank =? -1 then rk <- auto_scan (fuel_of s1) s1 0 (head s1);; Ok (Some rk)
      else av <- avail_scan (fuel_of s1) s1 rank (head s1);; Ok (if av : bool then Some rank else None))
     = Ok None) \/
    (exists r, 0 < r <= INT_MAX /\ ~ In r (ranks s l) /\
       (rank = -1 -> forall k, 0 <= k < r -> In k (ranks s l)) /\ (rank <> -1 -> r = rank) /\
     (if rank =? -1 then rk <- auto_scan (fuel_of s1) s1 0 (head s1);; Ok (Some rk)
      else av <- avail_scan (fuel_of s1) s1 rank (head s1);; Ok (if av : bool then Some rank else None))
     = Ok (Some r))).
  { destruct (Z.eqb_spec rank (-1)) as [->|Hne].
    - right.
      destruct (auto_scan_spec s1 l (fuel_of s1) None (head s1) 0 Hseg1 Hso1) as (r & Hr & Hb & Hn & Hall); auto.
      { rewrite Hrk1. apply WF_ranks_nonneg; auto. }
      rewrite Hrk1 in Hn, Hall. exists r. rewrite Hr. cbn [bind].
      assert (r <> 0) by (intros ->; apply Hn; apply WF_zero_in; auto).
      repeat split; auto; try lia; try (intros; lia).
    - assert (0 <= rank) by lia.
      rewrite (avail_scan_spec s1 rank l (fuel_of s1) None (head s1) Hseg1 Hso1 Hfuel). cbn [bind].
      rewrite Hrk1. destruct (existsb (Z.eqb rank) (ranks s l)) eqn:E; cbn [negb].
      + left. apply existsb_eqb_In in E. auto.
      + right. exists rank.
        assert (Hni : ~ In rank (ranks s l)) by (rewrite <- existsb_eqb_In; congruence).
        assert (rank <> 0) by (intros ->; apply Hni; apply WF_zero_in; auto).
        repeat split; auto; try lia; try (intros; congruence). }
  destruct Hchoose as [(H0 & Hin & ->)|(r & Hr & Hnin & Hmex & Hexp & ->)]; cbn [bind fst snd].
  - (* rank taken: the descriptor is freed again *)
    left. split; [exact H0|]. split; [exact Hin|]. eexists. split; [reflexivity|].
    assert (Hlv : forall i, live (dealloc s1 nw) i = live s i).
    { intros i. rewrite live_dealloc by (unfold s1, alloc; cbn; rewrite app_length; cbn; lia).
      rewrite Hl1. destruct (Nat.eqb_spec nw i) as [<-|Hne].
      - symmetry. apply live_fresh.
      - rewrite (Nat.eqb_sym i nw), neq_eqb by auto. reflexivity. }
    split; [|split; [exact Hlv|split; [|split; reflexivity]]].
    + eapply WF_transport; eauto; try reflexivity; intros i; rewrite Hlv; reflexivity.
    + unfold dealloc, s1, alloc; cbn [store fst]. rewrite upd_nth_length, app_length; cbn. lia.
  - (* granted *)
    right.
    erewrite set_rank_upd by (rewrite Hl1, Nat.eqb_refl; reflexivity). cbn [bind].
    set (s2 := upd s1 nw (w_rank r)).
    set (nn := w_rank r (mkN 0 None None false true)).
    assert (Hl2 : forall i, live s2 i = if Nat.eqb i nw then Some nn else live s i).
    { intros i. unfold s2. rewrite live_upd, !Hl1, Nat.eqb_refl. rewrite (Nat.eqb_sym nw i).
      destruct (Nat.eqb i nw); reflexivity. }
    assert (Hold2 : forall i, In i l -> live s2 i = live s i).
    { intros i Hi. rewrite Hl2. destruct (Nat.eqb_spec i nw); [subst; tauto|auto]. }
    assert (Hrk2 : ranks s2 l = ranks s l).
    { apply ranks_eq_on. intros i Hi. apply rank_of_live_eq. auto. }
    destruct (wf_head _ _ W) as (t & Hlt).
    destruct (add_spec s2 l nw nn) as (s3 & l1 & l2 & Hadd & Hl & F1 & F2 & Hseg3 & Hh3 & Hn3 & Hm3 & Hlen3 & Hsd);
      auto.
    { unfold s2. rewrite head_upd. eapply seg_frame; [|apply (wf_seg _ _ W)]. exact Hold2. }
    { apply (wf_nodup _ _ W). }
    { rewrite Hrk2. apply (wf_sorted _ _ W). }
    { rewrite Hl2, Nat.eqb_refl. reflexivity. }
    { rewrite Hrk2. exact Hnin. }
    { exists 0%nat, t. split; auto. rewrite rank_of_live_eq with (s := s) by (apply Hold2; rewrite Hlt; left; auto).
      rewrite (wf_rank0 _ _ W). cbn. lia. }
    rewrite Hadd. cbn [bind].
    destruct (update_max_ok s3 r) as (s4 & Hum & Hlv4 & Hh4 & Hn4 & Hlen4).
    rewrite Hum. cbn [bind fst snd].
    set (s5 := set_num s4 (num s4 + 1)).
    assert (Hlv5 : forall i, live s5 i = live s3 i) by (intros; unfold s5; apply Hlv4).
    rewrite get_live, Hlv5.
    assert (Hl3nw : exists n3, live s3 nw = Some n3 /\ data n3 = data nn).
    { specialize (Hsd nw). rewrite Hl2, Nat.eqb_refl in Hsd. destruct (live s3 nw); cbn in Hsd; [|discriminate].
      eexists; split; eauto. congruence. }
    destruct Hl3nw as (n3 & Hn3l & Hd3). rewrite Hn3l. cbn [bind].
    assert (Hr3 : n_rank n3 = r) by (unfold data in Hd3; inversion Hd3; reflexivity).
    assert (Hp3 : n_primary n3 = false) by (unfold data in Hd3; cbn in Hd3; congruence).
    assert (Hru3 : n_running n3 = true) by (unfold data in Hd3; cbn in Hd3; congruence).
    rewrite Hr3.
    exists s5, r, l1, l2. split; [reflexivity|].
    assert (Hag : agree_old s s5 nw).
    { intros i Hi. rewrite Hlv5, Hsd, Hl2, neq_eqb by auto. reflexivity. }
    assert (Hrk5 : forall i, i <> nw -> rank_of s5 i = rank_of s i) by (intros; eapply agree_old_rank; eauto).
    assert (Hrnw : rank_of s5 nw = r) by (unfold rank_of; rewrite Hlv5, Hn3l; auto).
    assert (Hl1ne : exists t1, l1 = 0%nat :: t1).
    { destruct l1 as [|a t1].
      - cbn in Hl. rewrite <- Hl, Hlt in F2. cbn in F2. inversion F2 as [|? ? Hlt0 Hrest].
        rewrite rank_of_live_eq with (s := s) in Hlt0 by (apply Hold2; rewrite Hlt; left; auto).
        rewrite (wf_rank0 _ _ W) in Hlt0. cbn in Hlt0. lia.
      - rewrite Hlt in Hl. cbn in Hl. inversion Hl; subst. eauto. }
    split; [intros; repeat split; auto; lia|]. split; [intros Hne; split; auto; rewrite <- (Hexp Hne); auto|].
    split; [exact Hl|].
    assert (Hnd' : NoDup (l1 ++ nw :: l2)).
    { apply NoDup_insert; rewrite <- Hl; auto. apply (wf_nodup _ _ W). }
    split; [|split; [exact Hrnw|split; [|split; [exact Hag|split]]]].
    + constructor; auto.
      * unfold s5; cbn [head set_num]. rewrite Hh4. eapply seg_frame; [|exact Hseg3].
        intros i _. unfold s5. apply Hlv4.
      * unfold ranks. rewrite map_app. cbn [map]. rewrite Hrnw.
        assert (E1 : map (rank_of s5) l1 = ranks s l1).
        { apply map_ext_in. intros i Hi. apply Hrk5. intros ->. apply Hnwl. rewrite Hl, in_app_iff; auto. }
        assert (E2 : map (rank_of s5) l2 = ranks s l2).
        { apply map_ext_in. intros i Hi. apply Hrk5. intros ->. apply Hnwl. rewrite Hl, in_app_iff; auto. }
        rewrite E1, E2. apply ss_insert.
        -- rewrite <- ranks_app, <- Hl. apply (wf_sorted _ _ W).
        -- replace (ranks s l1) with (ranks s2 l1); auto. apply ranks_eq_on. intros i Hi.
           apply rank_of_live_eq, Hold2. rewrite Hl, in_app_iff; auto.
        -- replace (ranks s l2) with (ranks s2 l2); auto. apply ranks_eq_on. intros i Hi.
           apply rank_of_live_eq, Hold2. rewrite Hl, in_app_iff; auto.
      * unfold s5; cbn [num set_num]. rewrite Hn4, Hn3. unfold s2. rewrite num_upd.
        unfold s1, alloc; cbn [fst num]. rewrite (wf_num _ _ W), Hl, !app_length. cbn [length]. lia.
      * intros i. rewrite in_app_iff. cbn [In]. destruct (Nat.eq_dec i nw) as [->|Hne].
        -- split; [intros _; rewrite Hlv5, Hn3l; discriminate|auto].
        -- rewrite (agree_old_live _ _ _ _ Hag Hne), <- (wf_live _ _ W), Hl, in_app_iff.
           split; [intros [?|[?|?]]; auto; congruence|intros [?|?]; auto].
      * destruct Hl1ne as (t1 & ->). eexists; reflexivity.
      * rewrite Hrk5; [apply (wf_rank0 _ _ W)|]. intros E. apply Hnwl. rewrite <- E, Hlt. left; auto.
      * intros i Hi. destruct (Nat.eq_dec i nw) as [->|Hne].
        -- unfold prim. rewrite Hlv5, Hn3l, Hp3.
           split; [discriminate|]. intros E. exfalso. apply Hnwl. rewrite E, Hlt. left; auto.
        -- rewrite (agree_old_prim _ _ _ _ Hag Hne). apply (wf_prim _ _ W).
           rewrite Hl, in_app_iff. rewrite in_app_iff in Hi. cbn in Hi. destruct Hi as [?|[?|?]]; auto; congruence.
    + unfold running. rewrite Hlv5, Hn3l. exact Hru3.
    + unfold s5; cbn [store set_num]. rewrite Hlen4, Hlen3. unfold s2. rewrite len_upd.
      unfold s1, alloc; cbn. rewrite app_length; cbn. lia.
    + unfold s5; cbn [num set_num]. rewrite Hn4, Hn3. unfold s2. rewrite num_upd. reflexivity.
Qed.

(* ------------------------------------------------------------------ set_rank *)
Lemma NoDup_map_inj {A B} (f : A -> B) (l : list A) a b :
  NoDup (map f l) -> In a l -> In b l -> f a = f b -> a = b.
Proof.
  induction l as [|x l IH]; cbn; [tauto|]. intros Hn Ha Hb E. inversion Hn as [|? ? Hx Hn']; subst.
  destruct Ha as [->|Ha], Hb as [->|Hb]; auto.
  - exfalso. apply Hx. rewrite E. apply in_map; auto.
  - exfalso. apply Hx. rewrite <- E. apply in_map; auto.
Qed.

Lemma WF_rank_inj s l a b : WF s l -> In a l -> In b l -> rank_of s a = rank_of s b -> a = b.
Proof. intros W. apply NoDup_map_inj. apply ss_nodup. apply (wf_sorted _ _ W). Qed.

Lemma WF_live_some s l i : WF s l -> In i l -> exists n, live s i = Some n.
Proof. intros W Hi. apply (wf_live _ _ W) in Hi. destruct (live s i); [eauto|congruence]. Qed.

Lemma set_rank_spec s l i r :
  WF s l -> In i l -> i <> 0%nat -> 0 <= r <= INT_MAX ->
  ((exists j, In j l /\ j <> i /\ rank_of s j = r) /\
   api_set_rank s i r = Ok (s, ERR_INV_XSTREAM_RANK))
  \/
  ((forall j, In j l -> j <> i -> rank_of s j <> r) /\
   exists s' l', api_set_rank s i r = Ok (s', ABT_SUCCESS) /\ WF s' l' /\
     (forall j, In j l' <-> In j l) /\ rank_of s' i = r /\ agree_old s s' i /\
     running s' i = running s i /\ length (store s') = length (store s) /\ num s' = num s).
Proof.
  intros W Hi Hne Hr.
  destruct (WF_live_some _ _ _ W Hi) as (n & Hn).
  assert (Hnp : n_primary n = false).
  { pose proof (wf_prim _ _ W i Hi) as Hp. unfold prim in Hp. rewrite Hn in Hp.
    destruct (n_primary n); auto. exfalso. apply Hne. apply Hp. reflexivity. }
  unfold api_set_rank. rewrite Hn, Hnp.
  destruct (Z.ltb_spec r 0); [lia|].
  unfold change_rank. rewrite get_live, Hn. cbn [bind].
  assert (Hri : rank_of s i = n_rank n) by (unfold rank_of; rewrite Hn; auto).
  destruct (Z.eqb_spec (n_rank n) r) as [He|Hner].
  - (* same rank: nothing to do *)
    right. split.
    + intros j Hj Hji E. apply Hji. eapply WF_rank_inj; eauto. congruence.
    + exists s, l. cbn [bind fst snd]. split; [reflexivity|]. split; [exact W|].
      split; [tauto|]. split; [congruence|]. split; [intros j _; reflexivity|]. repeat split.
  - pose proof (WF_len _ _ W) as Hll.
    rewrite (avail_scan_spec s r l (fuel_of s) None (head s) (wf_seg _ _ W) (wf_sorted _ _ W))
      by (unfold fuel_of; lia).
    cbn [bind].
    destruct (existsb (Z.eqb r) (ranks s l)) eqn:E; cbn [negb].
    + left. apply existsb_eqb_In in E. apply in_ranks_iff in E. destruct E as (j & Hj & Hrj).
      split; [|reflexivity]. exists j. repeat split; auto. intros ->. congruence.
    + right.
      assert (Hnin : ~ In r (ranks s l)) by (rewrite <- existsb_eqb_In; congruence).
      split. { intros j Hj _ Hrj. apply Hnin. apply in_ranks_iff. eauto. }
      assert (Hr0 : 0 < r).
      { assert (r <> 0) by (intros ->; apply Hnin; apply (WF_zero_in _ _ W)). lia. }
      destruct (in_split _ _ Hi) as (l1 & l2 & Hl).
      destruct (wf_head _ _ W) as (t & Hlt).
      assert (Hl1 : exists t1, l1 = 0%nat :: t1).
      { destruct l1 as [|a t1]; rewrite Hlt in Hl; cbn in Hl; inversion Hl; subst; [congruence|eauto]. }
      destruct Hl1 as (t1 & Hl1).
      pose proof (wf_nodup _ _ W) as Hnd. rewrite Hl in Hnd.
      pose proof (wf_seg _ _ W) as Hseg. rewrite Hl in Hseg.
      destruct (remove_spec s l1 i l2 Hseg Hnd) as (s1 & Hrem & Hseg1 & Hh1 & Hn1 & Hm1 & Hlen1 & Hsd1 & Hlive1);
        [rewrite Hl1; discriminate|].
      rewrite Hrem. cbn [bind].
      destruct (live s1 i) as [n1|] eqn:Hn1l; [|congruence].
      erewrite set_rank_upd by eauto. cbn [bind].
      set (s2 := upd s1 i (w_rank r)). set (nn := w_rank r n1).
      destruct (NoDup_remove_mid _ _ _ Hnd) as (Hnd' & Hni).
      assert (Hl2 : forall j, j <> i -> live s2 j = live s1 j).
      { intros j Hj. unfold s2. rewrite live_upd, neq_eqb by auto. reflexivity. }
      assert (Hl2i : live s2 i = Some nn).
      { unfold s2. rewrite live_upd, Nat.eqb_refl, Hn1l. reflexivity. }
      assert (Hrk2 : forall j, j <> i -> rank_of s2 j = rank_of s j).
      { intros j Hj. rewrite (rank_of_live_eq s1 s2) by auto. apply same_data_rank; auto. }
      assert (Hrks2 : forall l0, ~ In i l0 -> ranks s2 l0 = ranks s l0).
      { intros l0 Hl0. apply ranks_eq_on. intros j Hj. apply Hrk2. intros ->; auto. }
      pose proof (wf_sorted _ _ W) as Hso. rewrite Hl, ranks_app in Hso. cbn [ranks map] in Hso.
      fold (ranks s l2) in Hso. destruct (ss_remove _ _ _ Hso) as (Hso' & _).
      rewrite <- ranks_app in Hso'.
      destruct (add_spec s2 (l1 ++ l2) i nn) as (s3 & l1' & l2' & Hadd & Hl' & F1 & F2 & Hseg3 & Hh3 & Hn3 & Hm3 & Hlen3 & Hsd3);
        auto.
      { unfold s2. rewrite head_upd. eapply seg_frame; [|exact Hseg1].
        intros j Hj. apply Hl2. intros ->; auto. }
      { rewrite Hrks2; auto. }
      { rewrite Hrks2 by auto. cbn. intros Hin. apply Hnin. rewrite Hl, ranks_app. cbn [ranks map].
        rewrite ranks_app in Hin. rewrite in_app_iff in *. cbn. tauto. }
      { exists 0%nat, (t1 ++ l2). split; [rewrite Hl1; reflexivity|].
        rewrite Hrk2 by auto. rewrite (wf_rank0 _ _ W). cbn. lia. }
      rewrite Hadd. cbn [bind].
      destruct (update_max_ok s3 r) as (s4 & Hum & Hlv4 & Hh4 & Hn4 & Hlen4).
      rewrite Hum. cbn [bind fst snd].
      assert (Hni' : ~ In i (l1' ++ l2')) by (rewrite <- Hl'; auto).
      assert (Hag : agree_old s s4 i).
      { intros j Hj. rewrite Hlv4, Hsd3, Hl2, Hsd1 by auto. reflexivity. }
      destruct (live s3 i) as [n3|] eqn:Hn3l;
        [|specialize (Hsd3 i); rewrite Hl2i, Hn3l in Hsd3; discriminate].
      assert (Hd3 : data n3 = data nn).
      { specialize (Hsd3 i). rewrite Hl2i, Hn3l in Hsd3. cbn in Hsd3. congruence. }
      assert (Hd1 : data n1 = data n).
      { specialize (Hsd1 i). rewrite Hn1l, Hn in Hsd1. cbn in Hsd1. congruence. }
      assert (Hr3 : n_rank n3 = r) by (unfold data in Hd3; cbn in Hd3; congruence).
      assert (Hp3 : n_primary n3 = n_primary n)
        by (unfold data in Hd3, Hd1; cbn in Hd3; congruence).
      assert (Hru3 : n_running n3 = n_running n)
        by (unfold data in Hd3, Hd1; cbn in Hd3; congruence).
      assert (Hrnw : rank_of s4 i = r) by (unfold rank_of; rewrite Hlv4, Hn3l; auto).
      assert (Hrk4 : forall j, j <> i -> rank_of s4 j = rank_of s j) by (intros; eapply agree_old_rank; eauto).
      assert (Hl1ne : exists t1', l1' = 0%nat :: t1').
      { destruct l1' as [|a t1'].
        - cbn in Hl'. rewrite Hl1 in Hl'. cbn in Hl'. rewrite <- Hl' in F2. cbn in F2.
          inversion F2 as [|? ? Hlt0 Hrest]. rewrite Hrk2 in Hlt0 by auto.
          rewrite (wf_rank0 _ _ W) in Hlt0. cbn in Hlt0. lia.
        - rewrite Hl1 in Hl'. cbn in Hl'. inversion Hl'; subst. eauto. }
      assert (Hin' : forall j, In j (l1' ++ i :: l2') <-> In j l).
      { intros j. rewrite Hl, !in_app_iff. cbn [In]. 
        assert (In j (l1 ++ l2) <-> In j (l1' ++ l2')) by (rewrite Hl'; tauto).
        rewrite !in_app_iff in H0. tauto. }
      exists s4, (l1' ++ i :: l2'). split; [reflexivity|].
      split; [|split; [exact Hin'|split; [exact Hrnw|split; [exact Hag|split; [|split]]]]].
      * constructor.
        -- rewrite Hh4. eapply seg_frame; [|exact Hseg3]. intros j _. apply Hlv4.
        -- apply NoDup_insert; rewrite <- Hl'; auto.
        -- unfold ranks. rewrite map_app. cbn [map]. rewrite Hrnw.
           assert (E1 : map (rank_of s4) l1' = ranks s l1').
           { apply map_ext_in. intros j Hj. apply Hrk4. intros ->. apply Hni'. rewrite in_app_iff; auto. }
           assert (E2 : map (rank_of s4) l2' = ranks s l2').
           { apply map_ext_in. intros j Hj. apply Hrk4. intros ->. apply Hni'. rewrite in_app_iff; auto. }
           rewrite E1, E2. apply ss_insert.
           ++ rewrite <- ranks_app, <- Hl'. exact Hso'.
           ++ rewrite <- (Hrks2 l1'); auto. intros Hx. apply Hni'. rewrite in_app_iff; auto.
           ++ rewrite <- (Hrks2 l2'); auto. intros Hx. apply Hni'. rewrite in_app_iff; auto.
        -- assert (Hlen' : length (l1' ++ i :: l2') = length l).
           { rewrite Hl, !app_length. cbn [length].
             assert (Hq : length (l1 ++ l2) = length (l1' ++ l2')) by (rewrite Hl'; auto).
             rewrite !app_length in Hq. lia. }
           rewrite Hn4, Hn3. unfold s2. rewrite num_upd, Hn1, (wf_num _ _ W), Hlen'. reflexivity.
        -- intros j. rewrite Hin', (wf_live _ _ W). destruct (Nat.eq_dec j i) as [->|Hj].
           ++ rewrite Hlv4, Hn3l, Hn. split; discriminate.
           ++ symmetry. apply (agree_old_live _ _ _ _ Hag Hj).
        -- destruct Hl1ne as (t1' & ->). eexists; reflexivity.
        -- rewrite Hrk4 by auto. apply (wf_rank0 _ _ W).
        -- intros j Hj. apply Hin' in Hj. rewrite <- (wf_prim _ _ W j Hj).
           destruct (Nat.eq_dec j i) as [->|Hji].
           ++ unfold prim. rewrite Hlv4, Hn3l, Hn, Hp3. tauto.
           ++ rewrite (agree_old_prim _ _ _ _ Hag Hji). tauto.
      * unfold running. rewrite Hlv4, Hn3l, Hn. exact Hru3.
      * rewrite Hlen4, Hlen3. unfold s2. rewrite len_upd. exact Hlen1.
      * rewrite Hn4, Hn3. unfold s2. rewrite num_upd. exact Hn1.
Qed.

(* ------------------------------------------------------------------ free *)
Lemma WF_set_running s l i v n :
  WF s l -> live s i = Some n -> WF (upd s i (w_run v)) l.
Proof.
  intros W Hn. eapply WF_transport; eauto; misc; auto.
  - intros j. rewrite live_upd. destruct (Nat.eqb_spec i j) as [<-|]; auto. rewrite Hn. reflexivity.
  - intros j. rewrite live_upd. destruct (Nat.eqb_spec i j) as [<-|]; auto. rewrite Hn. reflexivity.
Qed.

Lemma free_spec s l i :
  WF s l -> In i l -> i <> 0%nat ->
  exists s' l1 l2,
    api_step s (AFree i) = Ok (s', [ABT_SUCCESS]) /\ l = l1 ++ i :: l2 /\ WF s' (l1 ++ l2) /\
    live s' i = None /\ agree_old s s' i /\ num s' = num s - 1 /\
    length (store s') = length (store s).
Proof.
  intros W Hi Hne.
  destruct (WF_live_some _ _ _ W Hi) as (n & Hn).
  assert (Hnp : n_primary n = false).
  { pose proof (wf_prim _ _ W i Hi) as Hp. unfold prim in Hp. rewrite Hn in Hp.
    destruct (n_primary n); auto. exfalso. apply Hne. apply Hp. reflexivity. }
  cbn [api_step]. rewrite Hn, Hnp.
  erewrite set_running_upd by eauto. cbn [bind].
  set (sa := upd s i (w_run false)).
  pose proof (WF_set_running s l i false n W Hn) as Wa. fold sa in Wa.
  destruct (in_split _ _ Hi) as (l1 & l2 & Hl).
  destruct (wf_head _ _ W) as (t & Hlt).
  assert (Hl1 : exists t1, l1 = 0%nat :: t1).
  { destruct l1 as [|a t1]; rewrite Hlt in Hl; cbn in Hl; inversion Hl; subst; [congruence|eauto]. }
  destruct Hl1 as (t1 & Hl1).
  pose proof (wf_nodup _ _ Wa) as Hnd. rewrite Hl in Hnd.
  pose proof (wf_seg _ _ Wa) as Hseg. rewrite Hl in Hseg.
  destruct (remove_spec sa l1 i l2 Hseg Hnd) as (sb & Hrem & Hsegb & Hhb & Hnb & Hmb & Hlenb & Hsdb & Hliveb);
    [rewrite Hl1; discriminate|].
  unfold return_rank. rewrite Hrem. cbn [bind].
  destruct (NoDup_remove_mid _ _ _ Hnd) as (Hnd' & Hni).
  set (sc := set_num sb (num sb - 1)).
  assert (Hilt : (i < length (store sc))%nat).
  { unfold sc; cbn [store set_num]. rewrite Hlenb. unfold sa. rewrite len_upd. eapply live_lt; eauto. }
  assert (Hlv : forall j, live (dealloc sc i) j = if Nat.eqb i j then None else live sb j).
  { intros j. rewrite live_dealloc by auto. reflexivity. }
  assert (Hag : agree_old s (dealloc sc i) i).
  { intros j Hj. rewrite Hlv, neq_eqb by auto. rewrite Hsdb. unfold sa. rewrite live_upd, neq_eqb by auto. reflexivity. }
  exists (dealloc sc i), l1, l2. split; [reflexivity|]. split; [exact Hl|].
  split; [|split; [|split; [exact Hag|split]]].
  - pose proof (wf_sorted _ _ W) as Hso. rewrite Hl, ranks_app in Hso. cbn [ranks map] in Hso.
    fold (ranks s l2) in Hso. destruct (ss_remove _ _ _ Hso) as (Hso' & _). rewrite <- ranks_app in Hso'.
    assert (Hji : forall j, In j (l1 ++ l2) -> j <> i) by (intros j Hj ->; auto).
    constructor.
    + cbn [head dealloc]. unfold sc; cbn [head set_num]. eapply seg_frame; [|exact Hsegb].
      intros j Hj. rewrite Hlv, neq_eqb; auto. intros E. apply (Hji j Hj). auto.
    + exact Hnd'.
    + replace (ranks (dealloc sc i) (l1 ++ l2)) with (ranks s (l1 ++ l2)); auto.
      symmetry. apply ranks_eq_on. intros j Hj. eapply agree_old_rank; eauto.
    + cbn [num dealloc]. unfold sc; cbn [num set_num]. rewrite Hnb. unfold sa. rewrite num_upd, (wf_num _ _ W), Hl.
      rewrite !app_length. cbn [length]. lia.
    + intros j. destruct (Nat.eq_dec j i) as [->|Hj].
      * rewrite Hlv, Nat.eqb_refl. split; [intros; exfalso; auto|congruence].
      * rewrite (agree_old_live _ _ _ _ Hag Hj), <- (wf_live _ _ W), Hl, !in_app_iff. cbn [In].
        split; [tauto|intros [?|[?|?]]; auto; congruence].
    + rewrite Hl1. eexists; reflexivity.
    + rewrite (agree_old_rank _ _ _ _ Hag) by auto. apply (wf_rank0 _ _ W).
    + intros j Hj. rewrite (agree_old_prim _ _ _ _ Hag (Hji j Hj)). apply (wf_prim _ _ W).
      rewrite Hl, in_app_iff. cbn [In]. rewrite in_app_iff in Hj. tauto.
  - rewrite Hlv, Nat.eqb_refl. reflexivity.
  - cbn [num dealloc]. unfold sc; cbn [num set_num]. rewrite Hnb. unfold sa. rewrite num_upd. reflexivity.
  - unfold dealloc; cbn [store]. rewrite upd_nth_length. unfold sc; cbn [store set_num].
    rewrite Hlenb. unfold sa. apply len_upd.
Qed.

(* ------------------------------------------------------------------ every API call preserves the invariant *)
Definition op_ok (o : aop) : Prop :=
  match o with
  | ACreateRank r | ASetRank _ r | ASelfSetRank _ r => r <= INT_MAX
  | _ => True
  end.

Lemma live_in s l i n : WF s l -> live s i = Some n -> In i l.
Proof. intros W H. apply (wf_live _ _ W). congruence. Qed.

Lemma nonprimary_nonzero s l i n : WF s l -> live s i = Some n -> n_primary n = false -> i <> 0%nat.
Proof.
  intros W H Hp ->. pose proof (wf_prim _ _ W 0%nat (live_in _ _ _ _ W H)) as Hq.
  unfold prim in Hq. rewrite H, Hp in Hq. destruct Hq as [_ Hq]. specialize (Hq eq_refl). discriminate.
Qed.

Lemma api_set_rank_total s l i r :
  WF s l -> r <= INT_MAX ->
  exists s' rc l', api_set_rank s i r = Ok (s', rc) /\ WF s' l' /\
                   length (store s') = length (store s) /\
                   (live s i <> None -> live s' i <> None).
Proof.
  intros W Hr. unfold api_set_rank.
  destruct (live s i) as [n|] eqn:Hn;
    [|exists s, ERR_INV_XSTREAM, l; split; [reflexivity|split; [exact W|split; [reflexivity|intros; congruence]]]].
  destruct (n_primary n) eqn:Hp;
    [exists s, ERR_INV_XSTREAM, l; split; [reflexivity|split; [exact W|split; [reflexivity|intros; congruence]]]|].
  destruct (Z.ltb_spec r 0);
    [exists s, ERR_INV_XSTREAM_RANK, l; split; [reflexivity|split; [exact W|split; [reflexivity|intros; congruence]]]|].
  pose proof (live_in _ _ _ _ W Hn) as Hi. pose proof (nonprimary_nonzero _ _ _ _ W Hn Hp) as Hne.
  destruct (set_rank_spec s l i r W Hi Hne) as [(_ & E)|(_ & s' & l' & E & W' & Hin & _ & _ & _ & Hlen & _)]; [lia| |].
  - unfold api_set_rank in E. rewrite Hn, Hp in E. destruct (Z.ltb_spec r 0); [lia|].
    rewrite E. exists s, ERR_INV_XSTREAM_RANK, l. split; [reflexivity|split; [exact W|split; [reflexivity|intros; congruence]]].
  - unfold api_set_rank in E. rewrite Hn, Hp in E. destruct (Z.ltb_spec r 0); [lia|].
    rewrite E. exists s', ABT_SUCCESS, l'. split; [reflexivity|split; [exact W'|split; [exact Hlen|]]].
    intros _. apply (wf_live _ _ W'). apply Hin. exact Hi.
Qed.

Lemma live_app_none s i :
  live (mkRL (head s) (store s ++ [None]) (num s) (maxx s)) i = live s i.
Proof.
  unfold live; cbn [store].
  destruct (Nat.lt_ge_cases i (length (store s))).
  - rewrite nth_error_app1 by auto. reflexivity.
  - assert (nth_error (store s) i = None) as -> by (apply nth_error_None; lia).
    destruct (Nat.eq_dec i (length (store s))) as [->|].
    + rewrite nth_error_app2 by lia. rewrite Nat.sub_diag. reflexivity.
    + assert (nth_error (store s ++ [None]) i = None) as ->
        by (apply nth_error_None; rewrite app_length; cbn; lia). reflexivity.
Qed.

Lemma step_WF s l o :
  WF s l -> op_ok o -> Z.of_nat (length (store s)) < INT_MAX ->
  exists s' r l', api_step s o = Ok (s', r) /\ WF s' l' /\
                  (length (store s') <= S (length (store s)))%nat.
Proof.
  intros W Hok Hlen. destruct o as [|r|i r|i r|i|i|i|i| |i|i|i]; cbn [api_step op_ok] in *.
  - destruct (create_spec s l (-1) W (or_introl eq_refl) ltac:(unfold INT_MAX; lia) Hlen)
      as [(H0 & _)|(s' & r & l1 & l2 & E & _ & _ & _ & W' & _ & _ & _ & Hl & _)]; [lia|].
    rewrite E. eexists _, _, _. split; [reflexivity|]. split; [exact W'|]. lia.
  - destruct (Z.ltb_spec r 0).
    + eexists _, _, l. split; [reflexivity|]. split.
      * eapply WF_transport; eauto; try reflexivity; intros j; rewrite live_app_none; reflexivity.
      * cbn [store]. rewrite app_length. cbn. lia.
    + destruct (create_spec s l r W (or_intror H) Hok Hlen)
        as [(_ & _ & s' & E & W' & _ & Hl & _)|(s' & r' & l1 & l2 & E & _ & _ & _ & W' & _ & _ & _ & Hl & _)];
        rewrite E; eexists _, _, _; (split; [reflexivity|]); (split; [exact W'|]); lia.
  - destruct (api_set_rank_total s l i r W Hok) as (s' & rc & l' & E & W' & Hl & _).
    rewrite E. cbn [bind fst snd]. eexists _, _, _. split; [reflexivity|]. split; [exact W'|]. lia.
  - destruct (live s i) as [n|] eqn:Hn; [|eexists _, _, _; split; [reflexivity|]; split; [exact W|lia]].
    destruct (n_running n); [|eexists _, _, _; split; [reflexivity|]; split; [exact W|lia]].
    destruct (api_set_rank_total s l i r W Hok) as (s' & rc & l' & E & W' & Hl & Hlive).
    rewrite E. cbn [bind fst snd]. rewrite get_live.
    destruct (live s' i) as [n'|] eqn:Hn'; [|exfalso; apply Hlive; congruence].
    cbn [bind]. eexists _, _, _. split; [reflexivity|]. split; [exact W'|]. lia.
  - destruct (live s i) as [n|] eqn:Hn; [|eexists _, _, _; split; [reflexivity|]; split; [exact W|lia]].
    destruct (n_primary n) eqn:Hp; [eexists _, _, _; split; [reflexivity|]; split; [exact W|lia]|].
    destruct (free_spec s l i W (live_in _ _ _ _ W Hn) (nonprimary_nonzero _ _ _ _ W Hn Hp))
      as (s' & l1 & l2 & E & _ & W' & _ & _ & _ & Hl).
    cbn [api_step] in E. rewrite Hn, Hp in E. rewrite E.
    eexists _, _, _. split; [reflexivity|]. split; [exact W'|]. lia.
  - destruct (live s i) as [n|] eqn:Hn; [|eexists _, _, _; split; [reflexivity|]; split; [exact W|lia]].
    destruct (n_primary n); [eexists _, _, _; split; [reflexivity|]; split; [exact W|lia]|].
    erewrite set_running_upd by eauto. cbn [bind].
    eexists _, _, _. split; [reflexivity|]. split; [eapply WF_set_running; eauto|]. rewrite len_upd. lia.
  - destruct (live s i) as [n|] eqn:Hn; [|eexists _, _, _; split; [reflexivity|]; split; [exact W|lia]].
    destruct (n_running n); [eexists _, _, _; split; [reflexivity|]; split; [exact W|lia]|].
    erewrite set_running_upd by eauto. cbn [bind].
    eexists _, _, _. split; [reflexivity|]. split; [eapply WF_set_running; eauto|]. rewrite len_upd. lia.
  - destruct (live s i); eexists _, _, _; (split; [reflexivity|]); (split; [exact W|lia]).
  - eexists _, _, _; (split; [reflexivity|]); (split; [exact W|lia]).
  - destruct (live s i); eexists _, _, _; (split; [reflexivity|]); (split; [exact W|lia]).
  - destruct (live s i) as [n|]; [destruct (n_running n)|]; eexists _, _, _; (split; [reflexivity|]); (split; [exact W|lia]).
  - destruct (live s i) as [n|]; [destruct (n_running n && negb (n_primary n))|];
      eexists _, _, _; (split; [reflexivity|]); (split; [exact W|lia]).
Qed.

(* ------------------------------------------------------------------ initial state, runs *)
Lemma init_WF mx : exists s0, api_init mx = Ok s0 /\ WF s0 [0%nat] /\ length (store s0) = 1%nat.
Proof.
  unfold api_init, api_create, set_new_rank, alloc, rl_empty. cbn.
  unfold update_max; cbn. destruct (0 >=? mx); cbn; eexists; (split; [reflexivity|]); (split; [|reflexivity]).
  all: constructor; cbn;
    [ econstructor; [reflexivity|reflexivity|constructor]
    | repeat constructor; intros []
    | repeat constructor
    | reflexivity
    | intros i; destruct i as [|[|i]]; cbn; split; try congruence; try tauto; intros [H|[]]; discriminate
    | eexists; reflexivity
    | reflexivity
    | intros i [<-|[]]; cbn; tauto ].
Qed.

Definition reach (mx : Z) (ops : list aop) (s : rl) (rs : list (list Z)) : Prop :=
  exists s0, api_init mx = Ok s0 /\ api_run s0 ops = Ok (s, rs).

Definition ops_ok (ops : list aop) : Prop :=
  Forall op_ok ops /\ Z.of_nat (length ops) + 1 < INT_MAX.

Lemma run_WF : forall ops s l,
  WF s l -> Forall op_ok ops -> Z.of_nat (length (store s) + length ops) < INT_MAX ->
  exists s' rs l', api_run s ops = Ok (s', rs) /\ WF s' l' /\
                   (length (store s') <= length (store s) + length ops)%nat /\
                   length rs = length ops.
Proof.
  induction ops as [|o ops IH]; intros s l W Hok Hlen.
  - exists s, [], l. cbn. split; [reflexivity|]. split; [exact W|]. split; [lia|reflexivity].
  - inversion Hok as [|? ? Ho Hok']; subst. cbn [length] in Hlen.
    destruct (step_WF s l o W Ho) as (s1 & r & l1 & E & W1 & Hl1); [lia|].
    destruct (IH s1 l1 W1 Hok') as (s2 & rs & l2 & E2 & W2 & Hl2 & Hrs); [lia|].
    cbn [api_run]. rewrite E. cbn [bind fst snd]. rewrite E2. cbn [bind fst snd].
    exists s2, (r :: rs), l2. split; [reflexivity|]. split; [exact W2|]. cbn [length]. split; lia.
Qed.

Lemma reach_total mx ops : ops_ok ops ->
  exists s rs l, reach mx ops s rs /\ WF s l /\ Z.of_nat (length (store s)) <= 1 + Z.of_nat (length ops).
Proof.
  intros [Hok Hlen]. destruct (init_WF mx) as (s0 & E0 & W0 & L0).
  destruct (run_WF ops s0 [0%nat] W0 Hok) as (s & rs & l & E & W & Hl & _); [rewrite L0; lia|].
  exists s, rs, l. split; [exists s0; auto|]. split; auto. rewrite L0 in Hl. lia.
Qed.

Lemma reach_WF mx ops s rs : ops_ok ops -> reach mx ops s rs ->
  exists l, WF s l /\ Z.of_nat (length (store s)) <= 1 + Z.of_nat (length ops).
Proof.
  intros Hok (s0 & E0 & E). destruct (reach_total mx ops Hok) as (s' & rs' & l & (s0' & E0' & E') & W & Hl).
  rewrite E0 in E0'. inversion E0'; subst. rewrite E in E'. inversion E'; subst. eauto.
Qed.

(* ------------------------------------------------------------------ the executable walk sees exactly the chain *)
Lemma opt_eqb_refl a : opt_eqb a a = true.
Proof. destruct a; cbn; auto. apply Nat.eqb_refl. Qed.

Lemma walk_spec s : forall l fuel pp p,
  seg s pp p l None -> (length l < fuel)%nat ->
  walk_from fuel s pp p = (map (fun i => (i, rank_of s i, true)) l, WEnd).
Proof.
  induction l as [|x l IH]; intros fuel pp p Hs Hf; inversion Hs as [|? ? n ? ? Hl Hp Hs']; subst.
  - destruct fuel; reflexivity.
  - destruct fuel as [|fuel]; [cbn in Hf; lia|]. cbn [walk_from]. rewrite get_live, Hl.
    rewrite (IH fuel (Some x) (n_next n) Hs') by (cbn in Hf; lia).
    cbn [fst snd map]. rewrite opt_eqb_refl. unfold rank_of at 2. rewrite Hl. reflexivity.
Qed.

Lemma dump_WF s l : WF s l -> dump s = (map (fun i => (i, rank_of s i, true)) l, WEnd).
Proof.
  intros W. unfold dump. apply walk_spec; [apply (wf_seg _ _ W)|].
  pose proof (WF_len _ _ W). unfold fuel_of. lia.
Qed.

(* ------------------------------------------------------------------ the C17 theorems about ranks *)
Definition live_ids (s : rl) (l : list nat) : Prop := forall i, In i l <-> live s i <> None.

(* for every sequence of API calls: no fault, and the list is what it should be *)
Theorem ranks_distinct_sorted mx ops : ops_ok ops ->
  exists s rs l,
    reach mx ops s rs /\
    dump s = (map (fun i => (i, rank_of s i, true)) l, WEnd) /\
    StronglySorted Z.lt (ranks s l) /\ NoDup (ranks s l) /\ NoDup l /\
    live_ids s l /\ num s = Z.of_nat (length l) /\
    (exists t, l = 0%nat :: t) /\ rank_of s 0 = 0 /\ prim s 0 = true.
Proof.
  intros Hok. destruct (reach_total mx ops Hok) as (s & rs & l & Hr & W & _).
  exists s, rs, l. split; [exact Hr|]. split; [apply dump_WF; auto|].
  split; [apply (wf_sorted _ _ W)|]. split; [apply ss_nodup, (wf_sorted _ _ W)|].
  split; [apply (wf_nodup _ _ W)|]. split; [exact (wf_live _ _ W)|]. split; [apply (wf_num _ _ W)|].
  split; [apply (wf_head _ _ W)|]. split; [apply (wf_rank0 _ _ W)|].
  destruct (wf_head _ _ W) as (t & Hl). apply (wf_prim _ _ W). rewrite Hl; left; auto. reflexivity.
Qed.

Definition rank_used (s : rl) (r : Z) : Prop := exists i, live s i <> None /\ rank_of s i = r.

Lemma rank_used_iff s l r : WF s l -> (rank_used s r <-> In r (ranks s l)).
Proof.
  intros W. rewrite in_ranks_iff. split; intros (i & A & B); exists i; split; auto; apply (wf_live _ _ W); auto.
Qed.

Theorem auto_rank_is_mex mx ops s rs :
  ops_ok (ops ++ [ACreate]) -> reach mx ops s rs ->
  exists s' r,
    api_step s ACreate = Ok (s', [ABT_SUCCESS; r]) /\
    0 <= r /\ ~ rank_used s r /\ (forall k, 0 <= k < r -> rank_used s k) /\
    live s' (length (store s)) <> None /\ rank_of s' (length (store s)) = r /\
    (forall i, live s i <> None -> live s' i <> None /\ rank_of s' i = rank_of s i) /\
    num s' = num s + 1.
Proof.
  intros [Hok Hlen] Hr. rewrite app_length in Hlen. cbn in Hlen.
  apply Forall_app in Hok. destruct Hok as [Hok _].
  destruct (reach_WF mx ops s rs) as (l & W & Hl); auto. { split; auto. lia. }
  destruct (create_spec s l (-1) W (or_introl eq_refl) ltac:(unfold INT_MAX; lia) ltac:(lia))
    as [(H0 & _)|(s' & r & l1 & l2 & E & Hmex & _ & Hll & W' & Hrk & _ & Hag & _ & Hnum)]; [lia|].
  cbn [api_step]. exists s', r. split; [exact E|].
  destruct (Hmex eq_refl) as (Hr0 & Hnin & Hall).
  split; [exact Hr0|]. split; [rewrite (rank_used_iff _ _ _ W); exact Hnin|].
  split; [intros k Hk; rewrite (rank_used_iff _ _ _ W); auto|].
  split; [apply (wf_live _ _ W'); rewrite in_app_iff; cbn; auto|].
  split; [exact Hrk|]. split; [|exact Hnum].
  intros i Hi. assert (i <> length (store s)).
  { intros ->. apply Hi. apply live_fresh. }
  split; [apply (agree_old_live _ _ _ _ Hag); auto|apply (agree_old_rank _ _ _ _ Hag); auto].
Qed.

(* create_with_rank: granted iff the rank is not in use; on failure nothing changes *)
Theorem explicit_create_iff_free mx ops s rs r :
  ops_ok (ops ++ [ACreateRank r]) -> 0 <= r -> reach mx ops s rs ->
  exists s' res,
    api_step s (ACreateRank r) = Ok (s', res) /\
    (rank_used s r ->
       res = [ERR_INV_XSTREAM_RANK] /\ (forall i, live s' i = live s i) /\ dump s' = dump s /\ num s' = num s) /\
    (~ rank_used s r ->
       res = [ABT_SUCCESS; r] /\ live s' (length (store s)) <> None /\ rank_of s' (length (store s)) = r /\
       (forall i, live s i <> None -> live s' i <> None /\ rank_of s' i = rank_of s i) /\ num s' = num s + 1).
Proof.
  intros [Hok Hlen] Hr0 Hr. rewrite app_length in Hlen. cbn in Hlen.
  apply Forall_app in Hok. destruct Hok as [Hok Hor]. inversion Hor as [|? ? Hrm _]; subst. cbn in Hrm.
  destruct (reach_WF mx ops s rs) as (l & W & Hl); auto. { split; auto. lia. }
  cbn [api_step]. destruct (Z.ltb_spec r 0); [lia|].
  destruct (create_spec s l r W (or_intror Hr0) Hrm ltac:(lia))
    as [(_ & Hin & s' & E & W' & Hlv & _ & Hn & _)|(s' & r' & l1 & l2 & E & _ & Hex & Hll & W' & Hrk & _ & Hag & _ & Hnum)].
  - exists s', [ERR_INV_XSTREAM_RANK]. split; [exact E|]. split.
    + intros _. split; [reflexivity|]. split; [exact Hlv|]. split; [|exact Hn].
      rewrite (dump_WF _ _ W), (dump_WF _ _ W'). f_equal. apply map_ext. intros i.
      rewrite (rank_of_live_eq s s') by auto. reflexivity.
    + intros Hnu. exfalso. apply Hnu. apply (rank_used_iff _ _ _ W). exact Hin.
  - assert (r <> -1) by lia. destruct (Hex H0) as (-> & Hnin).
    exists s', [ABT_SUCCESS; r]. split; [exact E|]. split.
    + intros Hu. exfalso. apply Hnin. apply (rank_used_iff _ _ _ W). exact Hu.
    + intros _. split; [reflexivity|].
      split; [apply (wf_live _ _ W'); rewrite in_app_iff; cbn; auto|]. split; [exact Hrk|].
      split; [|exact Hnum]. intros i Hi. assert (i <> length (store s)).
      { intros ->. apply Hi. apply live_fresh. }
      split; [apply (agree_old_live _ _ _ _ Hag); auto|apply (agree_old_rank _ _ _ _ Hag); auto].
Qed.

(* set_rank on a live secondary stream: granted iff no OTHER live stream has the
   rank; then only that stream's rank changes; on failure nothing changes *)
Definition rank_used_by_other (s : rl) (i : nat) (r : Z) : Prop :=
  exists j, j <> i /\ live s j <> None /\ rank_of s j = r.

Theorem set_rank_iff_free mx ops s rs i r :
  ops_ok (ops ++ [ASetRank i r]) -> 0 <= r -> reach mx ops s rs ->
  live s i <> None -> i <> 0%nat ->
  exists s' rc,
    api_step s (ASetRank i r) = Ok (s', [rc]) /\
    (rank_used_by_other s i r -> rc = ERR_INV_XSTREAM_RANK /\ s' = s) /\
    (~ rank_used_by_other s i r ->
       rc = ABT_SUCCESS /\ rank_of s' i = r /\
       (forall j, j <> i -> (live s' j <> None <-> live s j <> None) /\ rank_of s' j = rank_of s j) /\
       live s' i <> None /\ num s' = num s).
Proof.
  intros [Hok Hlen] Hr0 Hr Hlive Hne. rewrite app_length in Hlen. cbn in Hlen.
  apply Forall_app in Hok. destruct Hok as [Hok Hor]. inversion Hor as [|? ? Hrm _]; subst. cbn in Hrm.
  destruct (reach_WF mx ops s rs) as (l & W & Hl); auto. { split; auto. lia. }
  assert (Hi : In i l) by (apply (wf_live _ _ W); auto).
  cbn [api_step].
  destruct (set_rank_spec s l i r W Hi Hne ltac:(lia))
    as [((j & Hj & Hji & Hrj) & E)|(Hfree & s' & l' & E & W' & Hin & Hrk & Hag & _ & _ & Hnum)].
  - rewrite E. cbn [bind fst snd]. exists s, ERR_INV_XSTREAM_RANK. split; [reflexivity|]. split; [auto|].
    intros Hn. exfalso. apply Hn. exists j. repeat split; auto. apply (wf_live _ _ W); auto.
  - rewrite E. cbn [bind fst snd]. exists s', ABT_SUCCESS. split; [reflexivity|]. split.
    + intros (j & Hji & Hjl & Hrj). exfalso. apply (Hfree j); auto. apply (wf_live _ _ W); auto.
    + intros _. split; [reflexivity|]. split; [exact Hrk|]. split; [|split; [|exact Hnum]].
      * intros j Hj. split; [apply (agree_old_live _ _ _ _ Hag); auto|apply (agree_old_rank _ _ _ _ Hag); auto].
      * apply (wf_live _ _ W'). apply Hin. exact Hi.
Qed.

(* a freed stream's rank becomes reusable *)
Theorem rank_reusable mx ops s rs i :
  ops_ok (ops ++ [AFree i; ACreateRank (rank_of s i)]) -> reach mx ops s rs ->
  live s i <> None -> i <> 0%nat ->
  exists s1 s2,
    api_step s (AFree i) = Ok (s1, [ABT_SUCCESS]) /\
    live s1 i = None /\ ~ rank_used s1 (rank_of s i) /\ num s1 = num s - 1 /\
    (forall j, j <> i -> (live s1 j <> None <-> live s j <> None) /\ rank_of s1 j = rank_of s j) /\
    api_step s1 (ACreateRank (rank_of s i)) = Ok (s2, [ABT_SUCCESS; rank_of s i]) /\
    num s2 = num s.
Proof.
  intros [Hok Hlen] Hr Hlive Hne. rewrite app_length in Hlen. cbn in Hlen.
  apply Forall_app in Hok. destruct Hok as [Hok Hor].
  inversion Hor as [|? ? _ Hor']; subst. inversion Hor' as [|? ? Hrm _]; subst. cbn in Hrm.
  destruct (reach_WF mx ops s rs) as (l & W & Hl); auto. { split; auto. lia. }
  assert (Hi : In i l) by (apply (wf_live _ _ W); auto).
  destruct (free_spec s l i W Hi Hne) as (s1 & l1 & l2 & E & Hll & W1 & Hl1 & Hag & Hnum & Hlen1).
  assert (Hnu : ~ rank_used s1 (rank_of s i)).
  { rewrite (rank_used_iff _ _ _ W1). pose proof (wf_sorted _ _ W) as Hso.
    rewrite Hll, ranks_app in Hso. cbn [ranks map] in Hso. fold (ranks s l2) in Hso.
    destruct (ss_remove _ _ _ Hso) as (_ & Hnin). rewrite <- ranks_app in Hnin.
    replace (ranks s1 (l1 ++ l2)) with (ranks s (l1 ++ l2)); auto.
    symmetry. apply ranks_eq_on. intros j Hj. eapply agree_old_rank; eauto.
    intros ->. pose proof (wf_nodup _ _ W) as Hnd. rewrite Hll in Hnd.
    destruct (NoDup_remove_mid _ _ _ Hnd) as (_ & Hx). auto. }
  pose proof (WF_pos _ _ _ W Hi Hne) as Hpos.
  assert (Hb1 : 0 <= rank_of s i) by lia.
  assert (Hb2 : Z.of_nat (length (store s1)) < INT_MAX) by (rewrite Hlen1; lia).
  destruct (create_spec s1 (l1 ++ l2) (rank_of s i) W1 (or_intror Hb1) Hrm Hb2)
    as [(_ & Hin & _)|(s2 & r' & l1' & l2' & E2 & _ & Hex & _ & _ & _ & _ & _ & _ & Hnum2)].
  { exfalso. apply Hnu. apply (rank_used_iff _ _ _ W1). exact Hin. }
  assert (rank_of s i <> -1) by lia. destruct (Hex H) as (-> & _).
  exists s1, s2. split; [exact E|]. split; [exact Hl1|]. split; [exact Hnu|]. split; [exact Hnum|].
  split.
  { intros j Hj. split; [apply (agree_old_live _ _ _ _ Hag); auto|apply (agree_old_rank _ _ _ _ Hag); auto]. }
  split; [|lia].
  cbn [api_step]. destruct (Z.ltb_spec (rank_of s i) 0); [lia|]. exact E2.
Qed.

(* ------------------------------------------------------------------ why the head invariant is needed *)
(* Without a rank-0 primary at the head the static functions can re-insert a
   re-ranked descriptor AT the head; xstream_add_xstream_list then leaves the
   descriptor's own p_prev pointing to its old predecessor (first dump: the
   head's p_prev is not NULL), and removing that descriptor afterwards unlinks
   through the stale pointer: the head pointer keeps pointing to the removed
   descriptor and the remaining descriptor's p_next points to itself. *)
Definition corrupt_ops : list xop := [XNew 5; XNew 7; XChange 1 3].

Example corruption_example :
  (* after set_new_rank 5, set_new_rank 7, change_rank(second, 3): head = descriptor 1
     with stale p_prev *)
  map (fun e => snd (fst (fst e))) (x_run (rl_empty 4) corrupt_ops)
  = [ ([(0%nat, 5, true)], WEnd);
      ([(0%nat, 5, true); (1%nat, 7, true)], WEnd);
      ([(1%nat, 3, false); (0%nat, 5, true)], WEnd) ]
  /\
  (* returning that descriptor's rank now corrupts the list: walking it never ends *)
  (let s3 := fold_left (fun s o => fst (x_step s o)) corrupt_ops (rl_empty 4) in
   match return_rank s3 1 with
   | Ok s4 => head s4 = Some 1%nat /\ snd (dump s4) = WCycle /\
              (match get s4 0 with Ok n => n_next n = Some 0%nat | Bad _ => False end)
   | Bad _ => False
   end).
Proof. vm_compute. repeat split; reflexivity. Qed.
