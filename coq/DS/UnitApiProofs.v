(* Proofs about DS/UnitApi.v: every sequence of public operations that
   respects the documented usage keeps table, thread fields, pool contents and
   the user pools' call log (create_unit / free_unit / push / pop) consistent,
   and never trips an assertion of unit.c. *)
From Coq Require Import List ZArith Bool Lia.
From ABT Require Import Common.ListAux DS.UnitMap DS.UnitMapProofs DS.UnitAssocProofs DS.UnitApi.
Import ListNotations.
Local Open Scope Z_scope.

(* ---- what the association functions do to the thread list ---- *)
Section Thr.
Variable bi : Z -> bool.

Lemma create_and_map_thr s p th o s1 nu code :
  create_and_map s p th o = (s1, nu, code) -> a_thr s1 = a_thr s.
Proof.
  unfold create_and_map. destruct o as [cu ok]. destruct (cu =? UNIT_NULL).
  - intros E; inversion E; reflexivity.
  - destruct (tbl_map (a_tbl (add_log s (CCreate p th cu))) cu th ok) as [t' [|]];
      intros E; inversion E; reflexivity.
Qed.

Lemma unmap_and_free_thr s op u s1 : unmap_and_free s op u = Some s1 -> a_thr s1 = a_thr s.
Proof.
  unfold unmap_and_free. destruct (tbl_unmap (a_tbl s) u); [|discriminate].
  intros E; inversion E; reflexivity.
Qed.

Lemma set_assoc_thr s th p o s' c f :
  thread_set_associated_pool bi s th p o = Some (s', c) -> zfind (a_thr s) th = Some f ->
  (forall t, t <> th -> zfind (a_thr s') t = zfind (a_thr s) t) /\
  exists f', zfind (a_thr s') th = Some f' /\ (c = ABT_SUCCESS -> t_pool f' = p) /\
             (c <> ABT_SUCCESS -> f' = f).
Proof.
  unfold thread_set_associated_pool. intros H Ef. rewrite Ef in H.
  assert (Hset : forall s0 x', a_thr s0 = a_thr s -> t_pool x' = p ->
            Some (set_thr s0 th x', ABT_SUCCESS) = Some (s', c) ->
            (forall t, t <> th -> zfind (a_thr s') t = zfind (a_thr s) t) /\
            exists f', zfind (a_thr s') th = Some f' /\ (c = ABT_SUCCESS -> t_pool f' = p) /\
                       (c <> ABT_SUCCESS -> f' = f)).
  { intros s0 x' E0 Ep E; inversion E; subst. cbn. rewrite E0. split.
    - intros t Hne. rewrite zfind_zset. destruct (Z.eqb_spec t th); [contradiction|reflexivity].
    - exists x'. rewrite zfind_zset, Z.eqb_refl. split; auto. split; auto.
      intros C; exfalso; apply C; reflexivity. }
  assert (Hfail : forall s0 code, a_thr s0 = a_thr s -> code <> ABT_SUCCESS ->
            Some (s0, code) = Some (s', c) ->
            (forall t, t <> th -> zfind (a_thr s') t = zfind (a_thr s) t) /\
            exists f', zfind (a_thr s') th = Some f' /\ (c = ABT_SUCCESS -> t_pool f' = p) /\
                       (c <> ABT_SUCCESS -> f' = f)).
  { intros s0 code E0 Hc E; inversion E; subst. rewrite E0. split; auto.
    exists f. split; auto. split; [intros; contradiction|auto]. }
  destruct (is_builtin_unit (t_unit f) && bi p).
  - eapply Hset; eauto.
  - destruct (is_builtin_unit (t_unit f)).
    + destruct (create_and_map s p th o) as [[s1 [nu|]] code] eqn:E1;
        pose proof (create_and_map_thr _ _ _ _ _ _ _ E1) as Et.
      * eapply Hset; eauto.
      * pose proof (create_and_map_cases bi _ _ _ _ _ _ _ E1) as Hc. cbn in Hc.
        eapply Hfail; eauto. destruct Hc as (_ & _ & [[-> _]|[-> _]]); discriminate.
    + destruct (bi p).
      * destruct (unmap_and_free s (t_pool f) (t_unit f)) as [s1|] eqn:E1; [|discriminate].
        pose proof (unmap_and_free_thr _ _ _ _ E1). eapply Hset; eauto.
      * destruct (Z.eqb_spec (t_pool f) p) as [Ep|Np].
        -- inversion H; subst. split; auto. exists f. split; auto. split; auto.
           intros C; exfalso; apply C; reflexivity.
        -- destruct (create_and_map s p th o) as [[s1 [nu|]] code] eqn:E1;
             pose proof (create_and_map_thr _ _ _ _ _ _ _ E1) as Et.
           ++ destruct (unmap_and_free s1 (t_pool f) (t_unit f)) as [s2|] eqn:E2; [|discriminate].
              pose proof (unmap_and_free_thr _ _ _ _ E2). eapply Hset; eauto. congruence.
           ++ pose proof (create_and_map_cases bi _ _ _ _ _ _ _ E1) as Hc. cbn in Hc.
              eapply Hfail; eauto. destruct Hc as (_ & _ & [[-> _]|[-> _]]); discriminate.
Qed.

Lemma init_pool_thr s th p o s' c :
  thread_init_pool bi s th p o = Some (s', c) ->
  (c = ABT_SUCCESS -> exists u, a_thr s' = zset (a_thr s) th (mkT u p)) /\
  (c <> ABT_SUCCESS -> a_thr s' = a_thr s).
Proof.
  unfold thread_init_pool. destruct (bi p).
  - intros E; inversion E; subst. split; [eauto|intros C; exfalso; apply C; reflexivity].
  - destruct (create_and_map s p th o) as [[s1 [nu|]] code] eqn:E1;
      pose proof (create_and_map_thr _ _ _ _ _ _ _ E1) as Et; intros E; inversion E; subst.
    + split; [|intros C; exfalso; apply C; reflexivity]. intros _. exists nu. cbn. rewrite Et. reflexivity.
    + pose proof (create_and_map_cases bi _ _ _ _ _ _ _ E1) as Hc. cbn in Hc.
      split; auto. intros ->. destruct Hc as (_ & _ & [[C _]|[C _]]); discriminate.
Qed.

Lemma unset_thr s th s' :
  thread_unset_associated_pool s th = Some s' -> a_thr s' = zdel (a_thr s) th.
Proof.
  unfold thread_unset_associated_pool. destruct (zfind (a_thr s) th) as [f|]; [|discriminate].
  destruct (negb (is_builtin_unit (t_unit f))).
  - destruct (unmap_and_free s (t_pool f) (t_unit f)) as [s1|] eqn:E1; [|discriminate].
    pose proof (unmap_and_free_thr _ _ _ _ E1) as Et. intros E; inversion E; subst. cbn. rewrite Et. reflexivity.
  - intros E; inversion E; reflexivity.
Qed.

End Thr.

(* ------------------------------------------------------------------ *)
Section ApiProofs.
Variable bi : Z -> bool.

Definition thr_of (s : xstate) := a_thr (x_a s).

Record XInv (s : xstate) : Prop := {
  xi_a : Inv bi (x_a s);
  xi_dom : forall th, zfind (x_thr s) th = None <-> zfind (thr_of s) th = None;
  xi_content : forall p c, zfind (x_pools s) p = Some c ->
      NoDup c /\
      forall u, In u c -> exists th f x,
        zfind (thr_of s) th = Some f /\ t_unit f = u /\ t_pool f = p /\
        zfind (x_thr s) th = Some x /\ x_loc x = LPool;
  xi_declared : forall th f, zfind (thr_of s) th = Some f -> pool_declared s (t_pool f) = true;
  xi_mig : forall th x q, zfind (x_thr s) th = Some x -> x_mig x = Some q -> pool_declared s q = true
}.

Lemma zfind_map_init (pools : list Z) p :
  zfind (map (fun p => (p, @nil Z)) pools) p = if existsb (Z.eqb p) pools then Some [] else None.
Proof.
  induction pools as [|q pools IH]; cbn; auto. rewrite (Z.eqb_sym p q).
  destruct (q =? p); cbn; auto.
Qed.

Lemma XInv_init pools : XInv (xinit pools).
Proof.
  split; cbn.
  - apply Inv_init.
  - intros th. tauto.
  - intros p c. rewrite zfind_map_init. destruct (existsb (Z.eqb p) pools); [|discriminate].
    intros E; inversion E; subst. split; [constructor|intros u []].
  - discriminate.
  - discriminate.
Qed.

Lemma dom_some_x s th x : XInv s -> zfind (x_thr s) th = Some x -> exists f, zfind (thr_of s) th = Some f.
Proof.
  intros HI E. destruct (zfind (thr_of s) th) as [f|] eqn:Ef; eauto.
  apply (xi_dom _ HI) in Ef. congruence.
Qed.
Lemma dom_some_a s th f : XInv s -> zfind (thr_of s) th = Some f -> exists x, zfind (x_thr s) th = Some x.
Proof.
  intros HI E. destruct (zfind (x_thr s) th) as [x|] eqn:Ex; eauto.
  apply (xi_dom _ HI) in Ex. congruence.
Qed.

Lemma declared_zset s p c q :
  pool_declared s p = true ->
  (match zfind (zset (x_pools s) p c) q with Some _ => true | None => false end) = pool_declared s q.
Proof.
  unfold pool_declared. intros Hp. rewrite zfind_zset. destruct (Z.eqb_spec q p) as [->|]; auto.
Qed.

(* the unit of a thread that is not in a pool is in no pool's content *)
Lemma out_not_in_content s th x f p c :
  XInv s -> zfind (x_thr s) th = Some x -> x_loc x <> LPool -> zfind (thr_of s) th = Some f ->
  zfind (x_pools s) p = Some c -> ~ In (t_unit f) c.
Proof.
  intros HI Ex Hl Ef Ec Hin. destruct (xi_content _ HI _ _ Ec) as [_ H].
  destruct (H _ Hin) as (t' & f' & x' & Ef' & Eu & _ & Ex' & Hl').
  assert (t' = th) by (eapply (ti_inj _ _ (inv_thr _ _ (xi_a _ HI))); eauto). subst t'.
  rewrite Ex in Ex'. inversion Ex'; subst. contradiction.
Qed.

(* a user pool's unit of a live thread is in the association relation *)
Lemma live_UA s th f :
  XInv s -> zfind (thr_of s) th = Some f -> bi (t_pool f) = false ->
  UA (thr_of s) (t_unit f) (t_pool f) th.
Proof.
  intros HI Ef Hb. exists f. repeat split; auto.
  destruct (ti_ok _ _ (inv_thr _ _ (xi_a _ HI)) _ _ Ef) as [_ H].
  destruct (is_builtin_unit (t_unit f)); auto. destruct H; congruence.
Qed.

Lemma Inv_add_log a c :
  Inv bi a -> LogRel (c :: a_log a) (UA (a_thr a)) -> Inv bi (add_log a c).
Proof. intros [H1 H2 H3] HL. split; cbn; auto. Qed.

(* ---- changing the non-association part of one thread ---- *)
Lemma XInv_set_x s th x x' :
  XInv s -> zfind (x_thr s) th = Some x ->
  (x_loc x' = x_loc x \/ (x_loc x <> LPool /\ x_loc x' <> LPool)) ->
  (forall q, x_mig x' = Some q -> pool_declared s q = true) ->
  XInv (set_x s th x').
Proof.
  intros HI Ex Hl Hm. split; cbn.
  - apply (xi_a _ HI).
  - intros t. rewrite zfind_zset. destruct (Z.eqb_spec t th) as [->|].
    + split; [discriminate|]. intros E. apply (xi_dom _ HI) in E. congruence.
    + apply (xi_dom _ HI).
  - intros p c Ec. destruct (xi_content _ HI _ _ Ec) as [Hnd H]. split; auto.
    intros u Hu. destruct (H _ Hu) as (t' & f' & x0 & Ef' & Eu & Ep & Ex0 & Hl0).
    exists t', f'. rewrite zfind_zset. destruct (Z.eqb_spec t' th) as [->|].
    + exists x'. repeat split; auto. rewrite Ex in Ex0. inversion Ex0; subst.
      destruct Hl as [E|[N _]]; congruence.
    + exists x0. repeat split; auto.
  - intros t f Ef. apply (xi_declared _ HI _ _ Ef).
  - intros t x0 q. rewrite zfind_zset. destruct (Z.eqb_spec t th) as [->|].
    + intros E; inversion E; subst. apply Hm.
    + apply (xi_mig _ HI).
Qed.

(* ---- replacing the association state after ABTI_thread_set_associated_pool ---- *)
Lemma XInv_with_a s a' th x :
  XInv s -> Inv bi a' -> zfind (x_thr s) th = Some x -> x_loc x <> LPool ->
  (forall t, t <> th -> zfind (a_thr a') t = zfind (thr_of s) t) ->
  (exists f', zfind (a_thr a') th = Some f' /\ pool_declared s (t_pool f') = true) ->
  XInv (with_a s a').
Proof.
  intros HI Ha Ex Hl Hoth (f' & Ef' & Hd). split; cbn; auto.
  - intros t. destruct (Z.eq_dec t th) as [->|Hne].
    + rewrite Ex, Ef'. split; discriminate.
    + unfold thr_of. cbn. rewrite Hoth by auto. apply (xi_dom _ HI).
  - intros p c Ec. destruct (xi_content _ HI _ _ Ec) as [Hnd H]. split; auto.
    intros u Hu. destruct (H _ Hu) as (t' & f0 & x0 & Ef0 & Eu & Ep & Ex0 & Hl0).
    assert (t' <> th) by (intros ->; rewrite Ex in Ex0; inversion Ex0; subst; contradiction).
    exists t', f0, x0. unfold thr_of. cbn. rewrite Hoth by auto. auto.
  - intros t f. unfold thr_of. cbn. destruct (Z.eq_dec t th) as [->|Hne].
    + rewrite Ef'. intros E; inversion E; subst. exact Hd.
    + rewrite Hoth by auto. apply (xi_declared _ HI).
  - apply (xi_mig _ HI).
Qed.

Lemma take_oracle_cases a th p os :
  take_oracle bi a th p os = next_oracle os \/ take_oracle bi a th p os = ((UNIT_NULL, true), os).
Proof. unfold take_oracle. destruct (set_calls_create bi a th p); auto. Qed.

(* ABTI_thread_set_associated_pool on a thread that is not in a pool *)
Lemma x_set_assoc_XInv s th x p os :
  XInv s -> zfind (x_thr s) th = Some x -> x_loc x <> LPool -> pool_declared s p = true ->
  match x_set_assoc bi s th p os with
  | Ok (s1, c, os') =>
      XInv s1 /\ x_thr s1 = x_thr s /\ x_pools s1 = x_pools s /\ x_runs s1 = x_runs s /\
      (c = ABT_SUCCESS -> exists f', zfind (thr_of s1) th = Some f' /\ t_pool f' = p)
  | Misuse => True
  | Abort => False
  | Wrong => False
  end.
Proof.
  intros HI Ex Hl Hd. unfold x_set_assoc.
  destruct (take_oracle bi (x_a s) th p os) as [o os'].
  destruct (oracle_ok (x_a s) o) eqn:Hor; cbn [negb]; auto.
  destruct (dom_some_x _ _ _ HI Ex) as [f Ef].
  destruct (set_associated_pool_Inv bi (x_a s) th p o (xi_a _ HI)) as (a' & c & E & Ha & Hf).
  { cbn. rewrite Hor. unfold thr_of in Ef. rewrite Ef. reflexivity. }
  rewrite E. destruct (set_assoc_thr bi _ _ _ _ _ _ _ E Ef) as [Hoth (f' & Ef' & Hs & Hn)].
  split; [|repeat split; auto].
  - eapply XInv_with_a; eauto. exists f'. split; auto.
    destruct (Z.eq_dec c ABT_SUCCESS) as [->|Hc].
    + rewrite Hs by auto. auto.
    + rewrite Hn by auto. apply (xi_declared _ HI _ _ Ef).
  - intros ->. exists f'. split; auto.
Qed.

(* ---- push ---- *)
Lemma XInv_push s th x0 x' :
  XInv s -> zfind (x_thr s) th = Some x0 -> x_loc x0 <> LPool -> x_loc x' = LPool ->
  (forall q, x_mig x' = Some q -> pool_declared s q = true) ->
  XInv (push_thread_unit bi s th (mkX LPool (x_mig x') (x_named x') (x_script x'))) /\
  (exists f, zfind (thr_of s) th = Some f).
Proof.
  intros HI Ex Hl Hl' Hm. destruct (dom_some_x _ _ _ HI Ex) as [f Ef]. split; [|eauto].
  unfold push_thread_unit. unfold thr_of in Ef. rewrite Ef.
  pose proof (xi_declared _ HI _ _ Ef) as Hd.
  set (p := t_pool f) in *. set (u := t_unit f) in *.
  set (xn := mkX LPool (x_mig x') (x_named x') (x_script x')).
  assert (Hc : exists c, zfind (x_pools s) p = Some c).
  { unfold pool_declared in Hd. destruct (zfind (x_pools s) p); [eauto|discriminate]. }
  destruct Hc as [c Ec].
  assert (Hnotin : forall q cq, zfind (x_pools s) q = Some cq -> ~ In u cq).
  { intros q cq Eq. eapply out_not_in_content; eauto. }
  (* the association state after the push *)
  assert (Ha : Inv bi (if bi p then x_a s else add_log (x_a s) (CPush p u))).
  { destruct (bi p) eqn:Hb; [apply (xi_a _ HI)|].
    apply Inv_add_log; [apply (xi_a _ HI)|].
    eapply LogRel_push; [apply (inv_log _ _ (xi_a _ HI))|]. apply live_UA; auto. }
  assert (Ethr : a_thr (if bi p then x_a s else add_log (x_a s) (CPush p u)) = a_thr (x_a s))
    by (destruct (bi p); reflexivity).
  unfold pool_push. rewrite Ec. fold p u.
  split; cbn; auto.
  - intros t. unfold thr_of. cbn. rewrite Ethr. rewrite zfind_zset.
    destruct (Z.eqb_spec t th) as [->|].
    + rewrite Ef. split; discriminate.
    + apply (xi_dom _ HI).
  - intros q cq. unfold thr_of. cbn. rewrite Ethr. rewrite zfind_zset.
    destruct (Z.eqb_spec q p) as [->|Nq].
    + intros E; inversion E; subst cq. destruct (xi_content _ HI _ _ Ec) as [Hnd H]. split.
      * apply NoDup_snoc; auto. apply (Hnotin _ _ Ec).
      * intros v Hv. apply in_app_iff in Hv. destruct Hv as [Hv|[<-|[]]].
        -- destruct (H _ Hv) as (t' & f' & x1 & Ef' & Eu & Ep & Ex1 & Hl1).
           assert (t' <> th) by (intros ->; rewrite Ex in Ex1; inversion Ex1; subst; contradiction).
           exists t', f', x1. rewrite zfind_zset. destruct (Z.eqb_spec t' th); [contradiction|]. auto.
        -- exists th, f, xn. rewrite zfind_zset, Z.eqb_refl. repeat split; auto.
    + intros Eq. destruct (xi_content _ HI _ _ Eq) as [Hnd H]. split; auto.
      intros v Hv. destruct (H _ Hv) as (t' & f' & x1 & Ef' & Eu & Ep & Ex1 & Hl1).
      assert (t' <> th) by (intros ->; rewrite Ex in Ex1; inversion Ex1; subst; contradiction).
      exists t', f', x1. rewrite zfind_zset. destruct (Z.eqb_spec t' th); [contradiction|]. auto.
  - intros t f0. unfold thr_of. cbn. rewrite Ethr. intros E0. unfold pool_declared. cbn.
    rewrite (declared_zset s p (c ++ [u]) (t_pool f0) Hd). apply (xi_declared _ HI _ _ E0).
  - intros t x1 q. rewrite zfind_zset. unfold pool_declared. cbn.
    rewrite (declared_zset s p (c ++ [u]) q Hd).
    destruct (Z.eqb_spec t th) as [->|].
    + intros E; inversion E; subst. cbn. apply Hm.
    + apply (xi_mig _ HI).
Qed.

End ApiProofs.
