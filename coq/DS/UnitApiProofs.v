(* Proofs about DS/UnitApi.v: every sequence of public operations that
   respects the documented usage keeps table, thread fields, pool contents and
   the user pools' call log (create_unit / free_unit / push / pop) consistent,
   and never trips an assertion of unit.c. *)
From Coq Require Import List ZArith Bool Lia.
From ABT Require Import Common.ListAux DS.UnitMap DS.UnitMapProofs DS.UnitAssocProofs DS.UnitApi.
Import ListNotations.
Local Open Scope Z_scope.

(* ---- what the association functions do to the thread list ---- *)
Section Thr.
Variable bi : Z -> bool.

Lemma create_and_map_thr s p th o s1 nu code :
  create_and_map s p th o = (s1, nu, code) -> a_thr s1 = a_thr s.
Proof.
  unfold create_and_map. destruct o as [cu ok]. destruct (cu =? UNIT_NULL).
  - intros E; inversion E; reflexivity.
  - destruct (tbl_map (a_tbl (add_log s (CCreate p th cu))) cu th ok) as [t' [|]];
      intros E; inversion E; reflexivity.
Qed.

Lemma unmap_and_free_thr s op u s1 : unmap_and_free s op u = Some s1 -> a_thr s1 = a_thr s.
Proof.
  unfold unmap_and_free. destruct (tbl_unmap (a_tbl s) u); [|discriminate].
  intros E; inversion E; reflexivity.
Qed.

Lemma set_assoc_thr s th p o s' c f :
  thread_set_associated_pool bi s th p o = Some (s', c) -> zfind (a_thr s) th = Some f ->
  (forall t, t <> th -> zfind (a_thr s') t = zfind (a_thr s) t) /\
  exists f', zfind (a_thr s') th = Some f' /\ (c = ABT_SUCCESS -> t_pool f' = p) /\
             (c <> ABT_SUCCESS -> f' = f).
Proof.
  unfold thread_set_associated_pool. intros H Ef. rewrite Ef in H.
  assert (Hset : forall s0 x', a_thr s0 = a_thr s -> t_pool x' = p ->
            Some (set_thr s0 th x', ABT_SUCCESS) = Some (s', c) ->
            (forall t, t <> th -> zfind (a_thr s') t = zfind (a_thr s) t) /\
            exists f', zfind (a_thr s') th = Some f' /\ (c = ABT_SUCCESS -> t_pool f' = p) /\
                       (c <> ABT_SUCCESS -> f' = f)).
  { intros s0 x' E0 Ep E; inversion E; subst. cbn. rewrite E0. split.
    - intros t Hne. rewrite zfind_zset. destruct (Z.eqb_spec t th); [contradiction|reflexivity].
    - exists x'. rewrite zfind_zset, Z.eqb_refl. split; auto. split; auto.
      intros C; exfalso; apply C; reflexivity. }
  assert (Hfail : forall s0 code, a_thr s0 = a_thr s -> code <> ABT_SUCCESS ->
            Some (s0, code) = Some (s', c) ->
            (forall t, t <> th -> zfind (a_thr s') t = zfind (a_thr s) t) /\
            exists f', zfind (a_thr s') th = Some f' /\ (c = ABT_SUCCESS -> t_pool f' = p) /\
                       (c <> ABT_SUCCESS -> f' = f)).
  { intros s0 code E0 Hc E; inversion E; subst. rewrite E0. split; auto.
    exists f. split; auto. split; [intros; contradiction|auto]. }
  destruct (is_builtin_unit (t_unit f) && bi p).
  - apply (Hset s (mkT (t_unit f) p)); auto.
  - destruct (is_builtin_unit (t_unit f)).
    + destruct (create_and_map s p th o) as [[s1 [nu|]] code] eqn:E1;
        pose proof (create_and_map_thr _ _ _ _ _ _ _ E1) as Et.
      * apply (Hset s1 (mkT nu p)); auto.
      * pose proof (create_and_map_cases _ _ _ _ _ _ _ E1) as Hc. cbn in Hc.
        apply (Hfail s1 code); auto. destruct Hc as (_ & _ & [[-> _]|[-> _]]); discriminate.
    + destruct (bi p).
      * destruct (unmap_and_free s (t_pool f) (t_unit f)) as [s1|] eqn:E1; [|discriminate].
        pose proof (unmap_and_free_thr _ _ _ _ E1). apply (Hset s1 (mkT (builtin_unit th) p)); auto.
      * destruct (Z.eqb_spec (t_pool f) p) as [Ep|Np].
        -- inversion H; subst. split; [auto|]. exists f. split; [auto|]. split; [auto|].
           intros C; exfalso; apply C; reflexivity.
        -- destruct (create_and_map s p th o) as [[s1 [nu|]] code] eqn:E1;
             pose proof (create_and_map_thr _ _ _ _ _ _ _ E1) as Et.
           ++ destruct (unmap_and_free s1 (t_pool f) (t_unit f)) as [s2|] eqn:E2; [|discriminate].
              pose proof (unmap_and_free_thr _ _ _ _ E2). apply (Hset s2 (mkT nu p)); auto. congruence.
           ++ pose proof (create_and_map_cases _ _ _ _ _ _ _ E1) as Hc. cbn in Hc.
              apply (Hfail s1 code); auto. destruct Hc as (_ & _ & [[-> _]|[-> _]]); discriminate.
Qed.

Lemma init_pool_thr s th p o s' c :
  thread_init_pool bi s th p o = Some (s', c) ->
  (c = ABT_SUCCESS -> exists u, a_thr s' = zset (a_thr s) th (mkT u p)) /\
  (c <> ABT_SUCCESS -> a_thr s' = a_thr s).
Proof.
  unfold thread_init_pool. destruct (bi p).
  - intros E; inversion E; subst. split; [intros _; eexists; reflexivity|intros C; exfalso; apply C; reflexivity].
  - destruct (create_and_map s p th o) as [[s1 [nu|]] code] eqn:E1;
      pose proof (create_and_map_thr _ _ _ _ _ _ _ E1) as Et; intros E; inversion E; subst.
    + split; [|intros C; exfalso; apply C; reflexivity]. intros _. exists nu. cbn. rewrite Et. reflexivity.
    + pose proof (create_and_map_cases _ _ _ _ _ _ _ E1) as Hc. cbn in Hc.
      split; auto. intros ->. destruct Hc as (_ & _ & [[C _]|[C _]]); discriminate.
Qed.

Lemma unset_thr s th s' :
  thread_unset_associated_pool s th = Some s' -> a_thr s' = zdel (a_thr s) th.
Proof.
  unfold thread_unset_associated_pool. destruct (zfind (a_thr s) th) as [f|]; [|discriminate].
  destruct (negb (is_builtin_unit (t_unit f))).
  - destruct (unmap_and_free s (t_pool f) (t_unit f)) as [s1|] eqn:E1; [|discriminate].
    pose proof (unmap_and_free_thr _ _ _ _ E1) as Et. intros E; inversion E; subst. cbn. rewrite Et. reflexivity.
  - intros E; inversion E; reflexivity.
Qed.

End Thr.

(* ------------------------------------------------------------------ *)
Section ApiProofs.
Variable bi : Z -> bool.

Definition thr_of (s : xstate) := a_thr (x_a s).

Record XInv (s : xstate) : Prop := {
  xi_a : Inv bi (x_a s);
  xi_dom : forall th, zfind (x_thr s) th = None <-> zfind (thr_of s) th = None;
  xi_content : forall p c, zfind (x_pools s) p = Some c ->
      NoDup c /\
      forall u, In u c -> exists th f x,
        zfind (thr_of s) th = Some f /\ t_unit f = u /\ t_pool f = p /\
        zfind (x_thr s) th = Some x /\ x_loc x = LPool;
  xi_declared : forall th f, zfind (thr_of s) th = Some f -> pool_declared s (t_pool f) = true;
  xi_mig : forall th x q, zfind (x_thr s) th = Some x -> x_mig x = Some q -> pool_declared s q = true
}.

Lemma zfind_map_init (pools : list Z) p :
  zfind (map (fun p => (p, @nil Z)) pools) p = if existsb (Z.eqb p) pools then Some [] else None.
Proof.
  induction pools as [|q pools IH]; cbn; auto. rewrite (Z.eqb_sym p q).
  destruct (q =? p); cbn; auto.
Qed.

Lemma XInv_init pools : XInv (xinit pools).
Proof.
  split; cbn.
  - apply Inv_init.
  - intros th. tauto.
  - intros p c. rewrite zfind_map_init. destruct (existsb (Z.eqb p) pools); [|discriminate].
    intros E; inversion E; subst. split; [constructor|intros u []].
  - discriminate.
  - discriminate.
Qed.

Lemma dom_some_x s th x : XInv s -> zfind (x_thr s) th = Some x -> exists f, zfind (thr_of s) th = Some f.
Proof.
  intros HI E. destruct (zfind (thr_of s) th) as [f|] eqn:Ef; eauto.
  apply (xi_dom _ HI) in Ef. congruence.
Qed.
Lemma dom_some_a s th f : XInv s -> zfind (thr_of s) th = Some f -> exists x, zfind (x_thr s) th = Some x.
Proof.
  intros HI E. destruct (zfind (x_thr s) th) as [x|] eqn:Ex; eauto.
  apply (xi_dom _ HI) in Ex. congruence.
Qed.

Lemma declared_zset s p c q :
  pool_declared s p = true ->
  (match zfind (zset (x_pools s) p c) q with Some _ => true | None => false end) = pool_declared s q.
Proof.
  unfold pool_declared. intros Hp. rewrite zfind_zset. destruct (Z.eqb_spec q p) as [->|]; auto.
Qed.

(* the unit of a thread that is not in a pool is in no pool's content *)
Lemma out_not_in_content s th x f p c :
  XInv s -> zfind (x_thr s) th = Some x -> x_loc x <> LPool -> zfind (thr_of s) th = Some f ->
  zfind (x_pools s) p = Some c -> ~ In (t_unit f) c.
Proof.
  intros HI Ex Hl Ef Ec Hin. destruct (xi_content _ HI _ _ Ec) as [_ H].
  destruct (H _ Hin) as (t' & f' & x' & Ef' & Eu & _ & Ex' & Hl').
  assert (t' = th) by (eapply (ti_inj _ _ (inv_thr _ _ (xi_a _ HI))); eauto). subst t'.
  rewrite Ex in Ex'. inversion Ex'; subst. contradiction.
Qed.

(* a user pool's unit of a live thread is in the association relation *)
Lemma live_UA s th f :
  XInv s -> zfind (thr_of s) th = Some f -> bi (t_pool f) = false ->
  UA (thr_of s) (t_unit f) (t_pool f) th.
Proof.
  intros HI Ef Hb. exists f. repeat split; auto.
  destruct (ti_ok _ _ (inv_thr _ _ (xi_a _ HI)) _ _ Ef) as [_ H].
  destruct (is_builtin_unit (t_unit f)); auto. destruct H; congruence.
Qed.

Lemma Inv_add_log a c :
  Inv bi a -> LogRel (c :: a_log a) (UA (a_thr a)) -> Inv bi (add_log a c).
Proof. intros [H1 H2 H3] HL. split; cbn; auto. Qed.

(* ---- changing the non-association part of one thread ---- *)
Lemma XInv_set_x s th x x' :
  XInv s -> zfind (x_thr s) th = Some x ->
  (x_loc x' = x_loc x \/ (x_loc x <> LPool /\ x_loc x' <> LPool)) ->
  (forall q, x_mig x' = Some q -> pool_declared s q = true) ->
  XInv (set_x s th x').
Proof.
  intros HI Ex Hl Hm. split; cbn.
  - apply (xi_a _ HI).
  - intros t. rewrite zfind_zset. destruct (Z.eqb_spec t th) as [->|].
    + split; [discriminate|]. intros E. apply (xi_dom _ HI) in E. congruence.
    + apply (xi_dom _ HI).
  - intros p c Ec. destruct (xi_content _ HI _ _ Ec) as [Hnd H]. split; auto.
    intros u Hu. destruct (H _ Hu) as (t' & f' & x0 & Ef' & Eu & Ep & Ex0 & Hl0).
    exists t', f'. rewrite zfind_zset. destruct (Z.eqb_spec t' th) as [->|].
    + exists x'. repeat split; auto. rewrite Ex in Ex0. inversion Ex0; subst.
      destruct Hl as [E|[N _]]; congruence.
    + exists x0. repeat split; auto.
  - intros t f Ef. apply (xi_declared _ HI _ _ Ef).
  - intros t x0 q. rewrite zfind_zset. destruct (Z.eqb_spec t th) as [->|].
    + intros E; inversion E; subst. apply Hm.
    + apply (xi_mig _ HI).
Qed.

(* ---- replacing the association state after ABTI_thread_set_associated_pool ---- *)
Lemma XInv_with_a s a' th x :
  XInv s -> Inv bi a' -> zfind (x_thr s) th = Some x -> x_loc x <> LPool ->
  (forall t, t <> th -> zfind (a_thr a') t = zfind (thr_of s) t) ->
  (exists f', zfind (a_thr a') th = Some f' /\ pool_declared s (t_pool f') = true) ->
  XInv (with_a s a').
Proof.
  intros HI Ha Ex Hl Hoth (f' & Ef' & Hd).
  pose proof (xi_dom _ HI) as Xdom. pose proof (xi_content _ HI) as Xcont.
  pose proof (xi_declared _ HI) as Xdecl. unfold thr_of in *. split; unfold thr_of; cbn; auto.
  - intros t. destruct (Z.eq_dec t th) as [->|Hne].
    + rewrite Ex, Ef'. split; discriminate.
    + rewrite Hoth by auto. apply Xdom.
  - intros p c Ec. destruct (Xcont _ _ Ec) as [Hnd H]. split; auto.
    intros u Hu. destruct (H _ Hu) as (t' & f0 & x0 & Ef0 & Eu & Ep & Ex0 & Hl0).
    assert (t' <> th) by (intros ->; rewrite Ex in Ex0; inversion Ex0; subst; contradiction).
    exists t', f0, x0. rewrite Hoth by auto. auto.
  - intros t f. destruct (Z.eq_dec t th) as [->|Hne].
    + rewrite Ef'. intros E; inversion E; subst. exact Hd.
    + rewrite Hoth by auto. apply Xdecl.
  - apply (xi_mig _ HI).
Qed.

Lemma take_oracle_cases a th p os :
  take_oracle bi a th p os = next_oracle os \/ take_oracle bi a th p os = ((UNIT_NULL, true), os).
Proof. unfold take_oracle. destruct (set_calls_create bi a th p); auto. Qed.

(* ABTI_thread_set_associated_pool on a thread that is not in a pool *)
Lemma x_set_assoc_XInv s th x p os :
  XInv s -> zfind (x_thr s) th = Some x -> x_loc x <> LPool -> pool_declared s p = true ->
  match x_set_assoc bi s th p os with
  | Ok (s1, c, os') =>
      XInv s1 /\ x_thr s1 = x_thr s /\ x_pools s1 = x_pools s /\ x_runs s1 = x_runs s /\
      (c = ABT_SUCCESS -> exists f', zfind (thr_of s1) th = Some f' /\ t_pool f' = p)
  | Misuse => True
  | Abort => False
  | Wrong => False
  end.
Proof.
  intros HI Ex Hl Hd. unfold x_set_assoc.
  destruct (take_oracle bi (x_a s) th p os) as [o os'].
  destruct (oracle_ok (x_a s) th o) eqn:Hor; cbn [negb]; auto.
  destruct (dom_some_x _ _ _ HI Ex) as [f Ef].
  destruct (set_associated_pool_Inv bi (x_a s) th p o (xi_a _ HI)) as (a' & c & E & Ha & Hf).
  { cbn. rewrite Hor. unfold thr_of in Ef. rewrite Ef. reflexivity. }
  rewrite E. destruct (set_assoc_thr bi _ _ _ _ _ _ _ E Ef) as [Hoth (f' & Ef' & Hs & Hn)].
  split; [|repeat split; auto].
  - eapply XInv_with_a; eauto. exists f'. split; auto.
    destruct (Z.eq_dec c ABT_SUCCESS) as [->|Hc].
    + rewrite Hs by auto. auto.
    + rewrite Hn by auto. apply (xi_declared _ HI _ _ Ef).
  - intros ->. exists f'. split; auto.
Qed.

(* ---- push ---- *)
Lemma XInv_push s th x0 x' :
  XInv s -> zfind (x_thr s) th = Some x0 -> x_loc x0 <> LPool -> x_loc x' = LPool ->
  (forall q, x_mig x' = Some q -> pool_declared s q = true) ->
  XInv (push_thread_unit bi s th (mkX LPool (x_mig x') (x_named x') (x_script x'))) /\
  (exists f, zfind (thr_of s) th = Some f).
Proof.
  intros HI Ex Hl Hl' Hm. destruct (dom_some_x _ _ _ HI Ex) as [f Ef]. split; [|eauto].
  unfold push_thread_unit. unfold thr_of in Ef. rewrite Ef.
  pose proof (xi_declared _ HI _ _ Ef) as Hd.
  set (p := t_pool f) in *. set (u := t_unit f) in *.
  set (xn := mkX LPool (x_mig x') (x_named x') (x_script x')).
  assert (Hc : exists c, zfind (x_pools s) p = Some c).
  { unfold pool_declared in Hd. destruct (zfind (x_pools s) p); [eauto|discriminate]. }
  destruct Hc as [c Ec].
  assert (Hnotin : forall q cq, zfind (x_pools s) q = Some cq -> ~ In u cq).
  { intros q cq Eq. eapply out_not_in_content; eauto. }
  (* the association state after the push *)
  assert (Ha : Inv bi (if bi p then x_a s else add_log (x_a s) (CPush p u))).
  { destruct (bi p) eqn:Hb; [apply (xi_a _ HI)|].
    apply Inv_add_log; [apply (xi_a _ HI)|].
    eapply LogRel_push; [apply (inv_log _ _ (xi_a _ HI))|]. apply (live_UA s th f); auto. }
  assert (Ethr : a_thr (if bi p then x_a s else add_log (x_a s) (CPush p u)) = a_thr (x_a s))
    by (destruct (bi p); reflexivity).
  unfold pool_push. rewrite Ec. fold p u.
  split; cbn; auto.
  - intros t. unfold thr_of. cbn. rewrite Ethr. rewrite zfind_zset.
    destruct (Z.eqb_spec t th) as [->|].
    + rewrite Ef. split; discriminate.
    + apply (xi_dom _ HI).
  - intros q cq. unfold thr_of. cbn. rewrite Ethr. rewrite zfind_zset.
    destruct (Z.eqb_spec q p) as [->|Nq].
    + intros E; inversion E; subst cq. destruct (xi_content _ HI _ _ Ec) as [Hnd H]. split.
      * apply NoDup_snoc; auto. apply (Hnotin _ _ Ec).
      * intros v Hv. apply in_app_iff in Hv. destruct Hv as [Hv|[<-|[]]].
        -- destruct (H _ Hv) as (t' & f' & x1 & Ef' & Eu & Ep & Ex1 & Hl1).
           assert (t' <> th) by (intros ->; rewrite Ex in Ex1; inversion Ex1; subst; contradiction).
           exists t', f', x1. rewrite zfind_zset. destruct (Z.eqb_spec t' th); [contradiction|]. auto.
        -- exists th, f, xn. rewrite zfind_zset, Z.eqb_refl. repeat split; auto.
    + intros Eq. destruct (xi_content _ HI _ _ Eq) as [Hnd H]. split; auto.
      intros v Hv. destruct (H _ Hv) as (t' & f' & x1 & Ef' & Eu & Ep & Ex1 & Hl1).
      assert (t' <> th) by (intros ->; rewrite Ex in Ex1; inversion Ex1; subst; contradiction).
      exists t', f', x1. rewrite zfind_zset. destruct (Z.eqb_spec t' th); [contradiction|]. auto.
  - intros t f0. unfold thr_of. cbn. rewrite Ethr. intros E0. unfold pool_declared. cbn.
    rewrite (declared_zset s p (c ++ [u]) (t_pool f0) Hd). apply (xi_declared _ HI _ _ E0).
  - intros t x1 q. rewrite zfind_zset. unfold pool_declared. cbn.
    rewrite (declared_zset s p (c ++ [u]) q Hd).
    destruct (Z.eqb_spec t th) as [->|].
    + intros E; inversion E; subst. cbn. apply Hm.
    + apply (xi_mig _ HI).
Qed.


Lemma XInv_push' s th x0 x' :
  XInv s -> zfind (x_thr s) th = Some x0 -> x_loc x0 <> LPool ->
  (forall q, x_mig x' = Some q -> pool_declared s q = true) ->
  XInv (push_thread_unit bi s th x').
Proof.
  intros HI Ex Hl Hm.
  destruct (XInv_push s th x0 (mkX LPool (x_mig x') (x_named x') (x_script x')) HI Ex Hl eq_refl Hm) as [H _].
  exact H.
Qed.

(* ---- core of every "set the associated pool" site ---- *)
Lemma set_assoc_core s th x p o :
  XInv s -> zfind (x_thr s) th = Some x -> x_loc x <> LPool -> pool_declared s p = true ->
  oracle_ok (x_a s) th o = true ->
  exists a' c, thread_set_associated_pool bi (x_a s) th p o = Some (a', c) /\
    XInv (with_a s a') /\
    (c = ABT_SUCCESS -> exists f', zfind (a_thr a') th = Some f' /\ t_pool f' = p).
Proof.
  intros HI Ex Hl Hd Hor. destruct (dom_some_x _ _ _ HI Ex) as [f Ef].
  destruct (set_associated_pool_Inv bi (x_a s) th p o (xi_a _ HI)) as (a' & c & E & Ha & Hf).
  { cbn. rewrite Hor. unfold thr_of in Ef. rewrite Ef. reflexivity. }
  exists a', c. split; auto.
  destruct (set_assoc_thr bi _ _ _ _ _ _ _ E Ef) as [Hoth (f' & Ef' & Hs & Hn)].
  split.
  - eapply XInv_with_a; eauto. exists f'. split; auto.
    destruct (Z.eq_dec c ABT_SUCCESS) as [->|Hc].
    + rewrite Hs by auto. auto.
    + rewrite Hn by auto. apply (xi_declared _ HI _ _ Ef).
  - intros ->. exists f'. split; auto.
Qed.

(* states that differ only in the completion counters *)
Lemma XInv_runs s r : XInv s -> XInv (mkXS (x_a s) (x_thr s) (x_pools s) r).
Proof. intros [H1 H2 H3 H4 H5]. split; auto. Qed.

(* states whose association part changed without touching the thread list *)
Lemma XInv_with_a_same s a' :
  XInv s -> Inv bi a' -> a_thr a' = thr_of s -> XInv (with_a s a').
Proof.
  intros [H1 H2 H3 H4 H5] Ha Et. unfold thr_of in *. split; unfold thr_of; cbn; auto; rewrite Et; auto.
Qed.

(* ---- removing a descriptor that is not in a pool ---- *)
Lemma XInv_remove s th x :
  XInv s -> zfind (x_thr s) th = Some x -> x_loc x <> LPool ->
  exists a', thread_unset_associated_pool (x_a s) th = Some a' /\
             XInv (mkXS a' (zdel (x_thr s) th) (x_pools s) (x_runs s)).
Proof.
  intros HI Ex Hl. destruct (dom_some_x _ _ _ HI Ex) as [f Ef].
  destruct (unset_associated_pool_Inv bi (x_a s) th (xi_a _ HI)) as (a' & E & Ha).
  { cbn. unfold thr_of in Ef. rewrite Ef. reflexivity. }
  exists a'. split; auto. pose proof (unset_thr _ _ _ E) as Et.
  pose proof (xi_dom _ HI) as Xdom. pose proof (xi_content _ HI) as Xcont.
  pose proof (xi_declared _ HI) as Xdecl. pose proof (xi_mig _ HI) as Xmig.
  unfold thr_of in *. split; unfold thr_of; cbn; auto; rewrite ?Et.
  - intros t. rewrite !zfind_zdel. destruct (Z.eqb_spec t th); [tauto|apply Xdom].
  - intros p c Ec. destruct (Xcont _ _ Ec) as [Hnd H]. split; auto.
    intros u Hu. destruct (H _ Hu) as (t' & f0 & x0 & Ef0 & Eu & Ep & Ex0 & Hl0).
    assert (t' <> th) by (intros ->; rewrite Ex in Ex0; inversion Ex0; subst; contradiction).
    exists t', f0, x0. rewrite !zfind_zdel. destruct (Z.eqb_spec t' th); [contradiction|]. auto.
  - intros t f0. rewrite zfind_zdel. destruct (Z.eqb_spec t th); [discriminate|apply Xdecl].
  - intros t x0 q. rewrite zfind_zdel. destruct (Z.eqb_spec t th); [discriminate|apply Xmig].
Qed.

Definition mig_ok (s : xstate) (x : xthr) : Prop :=
  forall q, x_mig x = Some q -> pool_declared s q = true.

Lemma terminate_XInv s th x0 x :
  XInv s -> zfind (x_thr s) th = Some x0 -> x_loc x0 <> LPool -> mig_ok s x ->
  match terminate s th x with
  | Ok s' => XInv s'
  | Misuse => True
  | Abort => False
  | Wrong => False
  end.
Proof.
  intros HI Ex Hl Hm. unfold terminate.
  assert (HI1 : XInv (bump_runs s th)) by (apply XInv_runs; auto).
  destruct (x_named x).
  - apply (XInv_set_x (bump_runs s th) th x0 _ HI1 Ex);
      [right; split; [auto|discriminate]|intros q Hq; apply (Hm q Hq)].
  - destruct (XInv_remove (bump_runs s th) th x0 HI1 Ex Hl) as (a' & E & H).
    unfold bump_runs in *. cbn [x_a x_thr x_pools x_runs] in *. rewrite E. exact H.
Qed.

(* ---- pop ---- *)
Lemma remove_nth_in {A} (l : list A) i v : In v (remove_nth l i) -> In v l.
Proof.
  revert i. induction l as [|a l IH]; destruct i; cbn; auto. intros [E|H]; auto. right. eapply IH; eauto.
Qed.
Lemma remove_nth_nodup {A} (l : list A) i : NoDup l -> NoDup (remove_nth l i).
Proof.
  revert i. induction l as [|a l IH]; destruct i; cbn; intros H; auto.
  - inversion H; auto.
  - inversion H; subst. constructor; auto. intros Hin. apply H2. eapply remove_nth_in; eauto.
Qed.
Lemma remove_nth_notin {A} (l : list A) i d :
  NoDup l -> (i < length l)%nat -> ~ In (nth i l d) (remove_nth l i).
Proof.
  revert i. induction l as [|a l IH]; destruct i; cbn; intros H Hi; try lia.
  - inversion H; auto.
  - inversion H; subst. intros [E|Hin].
    + apply H2. rewrite E. apply nth_In. lia.
    + apply (IH i); auto. lia.
Qed.

Lemma unit_get_thread_log a c u : unit_get_thread (add_log a c) u = unit_get_thread a u.
Proof. reflexivity. Qed.

Lemma XInv_pop s p c i :
  XInv s -> zfind (x_pools s) p = Some c -> (i < length c)%nat ->
  let u := nth i c 0 in
  let a := if bi p then x_a s else add_log (x_a s) (CPop p u) in
  exists th f x,
    unit_get_thread a u = Some th /\ zfind (x_thr s) th = Some x /\ zfind (a_thr a) th = Some f /\
    (t_unit f = u /\ t_pool f = p /\ x_loc x = LPool /\ In u c) /\
    XInv (mkXS a (zset (x_thr s) th (mkX LOut (x_mig x) (x_named x) (x_script x)))
               (zset (x_pools s) p (remove_nth c i)) (x_runs s)).
Proof.
  intros HI Ec Hi u a.
  destruct (xi_content _ HI _ _ Ec) as [Hnd H].
  assert (Hu : In u c) by (apply nth_In; auto).
  destruct (H _ Hu) as (th & f & x & Ef & Eu & Ep & Ex & Hl).
  assert (Hd : pool_declared s p = true) by (unfold pool_declared; rewrite Ec; reflexivity).
  assert (Ha : Inv bi a).
  { unfold a. destruct (bi p) eqn:Hb; [apply (xi_a _ HI)|].
    apply Inv_add_log; [apply (xi_a _ HI)|].
    eapply LogRel_pop; [apply (inv_log _ _ (xi_a _ HI))|].
    rewrite <- Eu, <- Ep. apply (live_UA s th f); auto. rewrite Ep. auto. }
  assert (Ethr : a_thr a = a_thr (x_a s)) by (unfold a; destruct (bi p); reflexivity).
  assert (Eget : unit_get_thread a u = Some th).
  { assert (unit_get_thread a u = unit_get_thread (x_a s) u) by (unfold a; destruct (bi p); reflexivity).
    rewrite H0, <- Eu. apply (get_thread_correct bi); auto. apply (xi_a _ HI). }
  exists th, f, x. rewrite Ethr. split; [auto|]. split; [auto|]. split; [auto|]. split; [auto|].
  pose proof (xi_dom _ HI) as Xdom. pose proof (xi_content _ HI) as Xcont.
  pose proof (xi_declared _ HI) as Xdecl. pose proof (xi_mig _ HI) as Xmig.
  unfold thr_of in *. split; unfold thr_of; cbn; auto; rewrite ?Ethr.
  - intros t. rewrite zfind_zset. destruct (Z.eqb_spec t th) as [->|]; [|apply Xdom].
    rewrite Ef. split; discriminate.
  - intros q cq. rewrite zfind_zset. destruct (Z.eqb_spec q p) as [->|Nq].
    + intros E; inversion E; subst cq. split; [apply remove_nth_nodup; auto|].
      intros v Hv. pose proof (remove_nth_in _ _ _ Hv) as Hv'.
      destruct (H _ Hv') as (t' & f' & x1 & Ef' & Eu' & Ep' & Ex1 & Hl1).
      assert (t' <> th).
      { intros ->. rewrite Ef in Ef'. inversion Ef'; subst f'.
        apply (remove_nth_notin c i 0 Hnd Hi). fold u. rewrite <- Eu, Eu'. exact Hv. }
      exists t', f', x1. rewrite zfind_zset. destruct (Z.eqb_spec t' th); [contradiction|]. auto.
    + intros Eq. destruct (Xcont _ _ Eq) as [Hndq Hq]. split; auto.
      intros v Hv. destruct (Hq _ Hv) as (t' & f' & x1 & Ef' & Eu' & Ep' & Ex1 & Hl1).
      assert (t' <> th) by (intros ->; rewrite Ef in Ef'; inversion Ef'; subst; congruence).
      exists t', f', x1. rewrite zfind_zset. destruct (Z.eqb_spec t' th); [contradiction|]. auto.
  - intros t f0 E0. unfold pool_declared. cbn.
    rewrite (declared_zset s p (remove_nth c i) (t_pool f0) Hd). eapply Xdecl; eauto.
  - intros t x1 q. rewrite zfind_zset. unfold pool_declared. cbn.
    rewrite (declared_zset s p (remove_nth c i) q Hd).
    destruct (Z.eqb_spec t th) as [->|]; [|apply Xmig].
    intros E; inversion E; subst. cbn. apply (Xmig _ _ _ Ex).
Qed.

(* ---- the body of a work unit ---- *)
Lemma x_set_assoc_ok s th x p os :
  XInv s -> zfind (x_thr s) th = Some x -> x_loc x <> LPool -> pool_declared s p = true ->
  match x_set_assoc bi s th p os with
  | Ok (s1, c, os') =>
      XInv s1 /\ x_thr s1 = x_thr s /\ x_pools s1 = x_pools s /\
      (c = ABT_SUCCESS -> exists f', zfind (thr_of s1) th = Some f' /\ t_pool f' = p)
  | Misuse => True
  | Abort => False
  | Wrong => False
  end.
Proof.
  intros HI Ex Hl Hd. unfold x_set_assoc.
  destruct (take_oracle bi (x_a s) th p os) as [o os'].
  destruct (oracle_ok (x_a s) th o) eqn:Hor; cbn [negb]; auto.
  destruct (set_assoc_core s th x p o HI Ex Hl Hd Hor) as (a' & c & E & HI' & Hp).
  rewrite E. split; [exact HI'|]. split; [reflexivity|]. split; [reflexivity|]. exact Hp.
Qed.

Lemma run_script_XInv th : forall script s x0 x os,
  XInv s -> zfind (x_thr s) th = Some x0 -> x_loc x0 <> LPool -> mig_ok s x ->
  match run_script bi s th x script os with
  | Ok (s', w) => XInv s'
  | Misuse => True
  | Abort => False
  | Wrong => False
  end.
Proof.
  induction script as [|a script IH]; intros s x0 x os HI Ex Hl Hm; cbn [run_script].
  - pose proof (terminate_XInv s th x0 x HI Ex Hl Hm) as H.
    destruct (terminate s th x); auto.
  - destruct a as [|q].
    + (* yield *)
      cbn [x_mig]. destruct (x_mig x) as [q|] eqn:Emig.
      * pose proof (x_set_assoc_ok s th x0 q os HI Ex Hl (Hm q Emig)) as H.
        destruct (x_set_assoc bi s th q os) as [[[s1 c] os']| | |]; auto.
        destruct H as (HI1 & Et & Ep & _).
        apply (XInv_push' s1 th x0); auto; [rewrite Et; auto|].
        intros q' Hq'. unfold pool_declared. rewrite Ep. fold (pool_declared s q').
        destruct (c =? ABT_SUCCESS); cbn in Hq'; [discriminate|]. apply Hm. congruence.
      * apply (XInv_push' s th x0); auto. cbn. intros q' Hq'. congruence.
    + (* migrate self *)
      destruct (dom_some_x _ _ _ HI Ex) as [f Ef]. unfold thr_of in Ef. rewrite Ef.
      destruct (pool_declared s q) eqn:Hd; cbn [negb]; auto.
      apply (IH s x0); auto.
      destruct (t_pool f =? q); auto. intros q' Hq'. cbn in Hq'. inversion Hq'; subst. auto.
Qed.

Lemma schedule_XInv s th x0 x os :
  XInv s -> zfind (x_thr s) th = Some x0 -> x_loc x0 <> LPool -> mig_ok s x ->
  match schedule bi s th x os with
  | Ok (s', w) => XInv s'
  | Misuse => True
  | Abort => False
  | Wrong => False
  end.
Proof.
  intros HI Ex Hl Hm. unfold schedule. destruct (x_mig x) as [q|] eqn:Emig.
  - pose proof (x_set_assoc_ok s th x0 q os HI Ex Hl (Hm q Emig)) as H.
    destruct (x_set_assoc bi s th q os) as [[[s1 c] os']| | |]; auto.
    destruct H as (HI1 & Et & Ep & _).
    destruct (c =? ABT_SUCCESS).
    + apply (XInv_push' s1 th x0); auto; [rewrite Et; auto|]. cbn. discriminate.
    + apply (run_script_XInv th (x_script x) s1 x0 x os'); auto; [rewrite Et; auto|].
      intros q' Hq'. unfold pool_declared. rewrite Ep. apply (Hm q' Hq').
  - apply (run_script_XInv th (x_script x) s x0 x os); auto.
Qed.

(* ---- every public operation ---- *)
Theorem xstep_XInv s op :
  XInv s ->
  match xstep bi s op with
  | Ok (s', r) => XInv s'
  | Misuse => True
  | Abort => False
  | Wrong => False
  end.
Proof.
  intros HI. destruct op as [th p named script os|p th os|p th os|p k|th p os|th p|th os|th p os|th|th p script os|th];
    cbn [xstep].
  - (* create *)
    destruct (pool_declared s p) eqn:Hd; cbn [negb orb]; auto.
    destruct (thread_ptr_ok th) eqn:Hth; cbn [negb]; auto.
    destruct (zfind (a_thr (x_a s)) th) eqn:Ef; auto.
    destruct (zfind (x_thr s) th) eqn:Ex; auto.
    destruct (next_oracle os) as [o os'].
    destruct (oracle_ok (x_a s) th o) eqn:Hor; cbn [negb]; auto.
    destruct (init_pool_Inv bi (x_a s) th p o (xi_a _ HI)) as (a' & c & E & Ha & Hf).
    { cbn. rewrite Hth, Hor, Ef. reflexivity. }
    rewrite E. destruct (init_pool_thr bi _ _ _ _ _ _ E) as [Hs Hn].
    destruct (Z.eqb_spec c ABT_SUCCESS) as [->|Hc].
    + destruct (Hs eq_refl) as [u Et].
      set (x := mkX LOut None named script).
      assert (HI1 : XInv (set_x (with_a s a') th x)).
      { pose proof (xi_dom _ HI) as Xdom. pose proof (xi_content _ HI) as Xcont.
        pose proof (xi_declared _ HI) as Xdecl. pose proof (xi_mig _ HI) as Xmig.
        unfold thr_of in *. split; unfold thr_of; cbn; auto; rewrite ?Et.
        - intros t. rewrite !zfind_zset. destruct (Z.eqb_spec t th); [split; discriminate|apply Xdom].
        - intros q cq Eq. destruct (Xcont _ _ Eq) as [Hnd H]. split; auto.
          intros v Hv. destruct (H _ Hv) as (t' & f' & x1 & Ef' & Eu' & Ep' & Ex1 & Hl1).
          assert (t' <> th) by (intros ->; congruence).
          exists t', f', x1. rewrite !zfind_zset. destruct (Z.eqb_spec t' th); [contradiction|]. auto.
        - intros t f0. rewrite zfind_zset. destruct (Z.eqb_spec t th).
          + intros E0; inversion E0; subst. cbn. exact Hd.
          + apply Xdecl.
        - intros t x1 q. rewrite zfind_zset. destruct (Z.eqb_spec t th).
          + intros E0; inversion E0; subst. discriminate.
          + apply Xmig. }
      apply (XInv_push' _ th x); auto.
      * cbn. rewrite zfind_zset, Z.eqb_refl. reflexivity.
      * discriminate.
      * discriminate.
    + apply XInv_with_a_same; auto.
  - (* push_thread *)
    destruct (pool_declared s p) eqn:Hd; cbn [negb]; auto.
    destruct (zfind (x_thr s) th) as [x|] eqn:Ex; auto.
    destruct (x_loc x) eqn:El; auto.
    assert (Hl : x_loc x <> LPool) by congruence.
    pose proof (x_set_assoc_ok s th x p os HI Ex Hl Hd) as H.
    destruct (x_set_assoc bi s th p os) as [[[s1 c] os']| | |]; auto.
    destruct H as (HI1 & Et & Ep & _).
    destruct (c =? ABT_SUCCESS); auto.
    apply (XInv_push' s1 th x); auto; [rewrite Et; auto|].
    intros q Hq. unfold pool_declared. rewrite Ep. apply (xi_mig _ HI _ _ _ Ex Hq).
  - (* push (unit) *)
    destruct (pool_declared s p) eqn:Hd; cbn [negb]; auto.
    destruct (zfind (x_thr s) th) as [x|] eqn:Ex; auto.
    destruct (zfind (a_thr (x_a s)) th) as [f|] eqn:Ef; auto.
    destruct (x_loc x) eqn:El; auto.
    assert (Hl : x_loc x <> LPool) by congruence.
    destruct (take_oracle bi (x_a s) th p os) as [o os'].
    destruct (oracle_ok (x_a s) th o) eqn:Hor; cbn [negb]; auto.
    rewrite (unit_set_eq_thread_set bi _ _ _ p o (xi_a _ HI) Ef).
    destruct (set_assoc_core s th x p o HI Ex Hl Hd Hor) as (a' & c & E & HI' & Hp).
    rewrite E. destruct (Z.eqb_spec c ABT_SUCCESS) as [->|Hc]; auto.
    cbn. rewrite Ex. apply (XInv_push' (with_a s a') th x); auto.
    intros q Hq. apply (xi_mig _ HI _ _ _ Ex Hq).
  - (* pop *)
    destruct (zfind (x_pools s) p) as [c|] eqn:Ec; auto.
    destruct c as [|u0 c']; [exact HI|].
    set (c := u0 :: c') in *.
    set (i := if bi p then O else Z.to_nat (k mod Z.of_nat (length c))).
    assert (Hi : (i < length c)%nat).
    { unfold i. destruct (bi p); [cbn; lia|].
      assert (0 < Z.of_nat (length c)) by (cbn [length c]; lia).
      pose proof (Z.mod_pos_bound k (Z.of_nat (length c)) H). lia. }
    destruct (XInv_pop s p c i HI Ec Hi) as (th & f & x & Eg & Ex & Ef & Eu & HI').
    cbv zeta in Eg, Ef, HI'. rewrite Eg, Ex, Ef. exact HI'.
  - (* set_associated_pool *)
    destruct (pool_declared s p) eqn:Hd; cbn [negb]; auto.
    destruct (zfind (x_thr s) th) as [x|] eqn:Ex; auto.
    destruct (x_loc x) eqn:El; auto.
    + assert (Hl : x_loc x <> LPool) by congruence.
      pose proof (x_set_assoc_ok s th x p os HI Ex Hl Hd) as H.
      destruct (x_set_assoc bi s th p os) as [[[s1 c] os']| | |]; tauto.
    + assert (Hl : x_loc x <> LPool) by congruence.
      pose proof (x_set_assoc_ok s th x p os HI Ex Hl Hd) as H.
      destruct (x_set_assoc bi s th p os) as [[[s1 c] os']| | |]; tauto.
  - (* migrate_to_pool *)
    destruct (pool_declared s p) eqn:Hd; cbn [negb]; auto.
    destruct (zfind (x_thr s) th) as [x|] eqn:Ex; auto.
    destruct (zfind (a_thr (x_a s)) th) as [f|] eqn:Ef; auto.
    assert (Hgo : match (if t_pool f =? p then Ok (s, XRcode ABT_ERR_MIGRATION_TARGET)
                         else Ok (set_x s th (mkX (x_loc x) (Some p) (x_named x) (x_script x)), XRcode ABT_SUCCESS))
                  with Ok (s', _) => XInv s' | Misuse => True | Abort => False | Wrong => False end).
    { destruct (t_pool f =? p); auto. apply (XInv_set_x s th x); auto.
      intros q Hq. cbn in Hq. inversion Hq; subst. auto. }
    destruct (x_loc x); auto.
  - (* self_schedule *)
    destruct (zfind (x_thr s) th) as [x|] eqn:Ex; auto.
    destruct (x_loc x) eqn:El; auto.
    assert (Hl : x_loc x <> LPool) by congruence.
    pose proof (schedule_XInv s th x x os HI Ex Hl (fun q Hq => xi_mig _ HI _ _ q Ex Hq)) as H.
    unfold lift_run. destruct (schedule bi s th x os) as [[s' w]| | |]; auto.
  - (* run_unit *)
    destruct (pool_declared s p) eqn:Hd; cbn [negb]; auto.
    destruct (zfind (x_thr s) th) as [x|] eqn:Ex; auto.
    destruct (zfind (a_thr (x_a s)) th) as [f|] eqn:Ef; auto.
    destruct (x_loc x) eqn:El; auto.
    assert (Hl : x_loc x <> LPool) by congruence.
    destruct (take_oracle bi (x_a s) th p os) as [o os'].
    destruct (oracle_ok (x_a s) th o) eqn:Hor; cbn [negb]; auto.
    rewrite (unit_set_eq_thread_set bi _ _ _ p o (xi_a _ HI) Ef).
    destruct (set_assoc_core s th x p o HI Ex Hl Hd Hor) as (a' & c & E & HI' & Hp).
    rewrite E. destruct (Z.eqb_spec c ABT_SUCCESS) as [->|Hc]; auto.
    cbn. rewrite Ex.
    pose proof (schedule_XInv (with_a s a') th x x os' HI' Ex Hl) as H.
    unfold lift_run. destruct (schedule bi (with_a s a') th x os') as [[s' w]| | |]; auto; apply H;
      intros q Hq; apply (xi_mig _ HI _ _ _ Ex Hq).
  - (* free *)
    destruct (zfind (x_thr s) th) as [x|] eqn:Ex; auto.
    destruct (x_loc x) eqn:El; auto.
    assert (Hl : x_loc x <> LPool) by congruence.
    destruct (XInv_remove s th x HI Ex Hl) as (a' & E & H). rewrite E. exact H.
  - (* revive *)
    destruct (pool_declared s p) eqn:Hd; cbn [negb]; auto.
    destruct (zfind (x_thr s) th) as [x|] eqn:Ex; auto.
    destruct (x_loc x) eqn:El; auto.
    assert (Hl : x_loc x <> LPool) by congruence.
    pose proof (x_set_assoc_ok s th x p os HI Ex Hl Hd) as H.
    destruct (x_set_assoc bi s th p os) as [[[s1 c] os']| | |]; auto.
    destruct H as (HI1 & Et & Ep & _).
    destruct (c =? ABT_SUCCESS); auto.
    set (x' := mkX LOut None (x_named x) script).
    assert (HI2 : XInv (set_x s1 th x')).
    { apply (XInv_set_x s1 th x); auto; [rewrite Et; auto| |discriminate].
      right. split; auto. discriminate. }
    apply (XInv_push' _ th x'); auto.
    + cbn. rewrite zfind_zset, Z.eqb_refl. reflexivity.
    + discriminate.
    + discriminate.
  - (* get_unit / unit_get_thread *)
    destruct (zfind (x_thr s) th) as [x|] eqn:Ex; auto.
    destruct (zfind (a_thr (x_a s)) th) as [f|] eqn:Ef; auto.
    rewrite (get_thread_correct bi _ _ _ (xi_a _ HI) Ef). exact HI.
Qed.

(* what ABT_pool_pop / ABT_pool_pop_thread hands out: the work unit whose live
   unit the pool chose; it was in that pool, and is associated with it *)
Theorem pop_result s p k s' th u :
  XInv s -> xstep bi s (XPop p k) = Ok (s', XRpop th u) ->
  (th = 0 /\ u = 0 /\ zfind (x_pools s) p = Some []) \/
  (exists c f x, zfind (x_pools s) p = Some c /\ In u c /\
                 zfind (thr_of s) th = Some f /\ t_unit f = u /\ t_pool f = p /\
                 zfind (x_thr s) th = Some x /\ x_loc x = LPool).
Proof.
  intros HI. cbn [xstep]. destruct (zfind (x_pools s) p) as [c|] eqn:Ec; [|discriminate].
  destruct c as [|u0 c'].
  - intros E; inversion E; subst. left. auto.
  - set (c := u0 :: c') in *.
    set (i := if bi p then O else Z.to_nat (k mod Z.of_nat (length c))).
    assert (Hi : (i < length c)%nat).
    { unfold i. destruct (bi p); [cbn; lia|].
      assert (0 < Z.of_nat (length c)) by (cbn [length c]; lia).
      pose proof (Z.mod_pos_bound k (Z.of_nat (length c)) H). lia. }
    destruct (XInv_pop s p c i HI Ec Hi) as (th' & f & x & Eg & Ex & Ef & (Eu & Ep & El & Hin) & HI').
    cbv zeta in Eg, Ef, HI'.
    assert (Ef' : zfind (a_thr (x_a s)) th' = Some f) by (destruct (bi p); exact Ef).
    assert (Hin' : In (t_unit f) c) by (rewrite Eu; exact Hin).
    rewrite Eg, Ex, Ef. intros E; inversion E; subst.
    right. exists c, f, x. unfold thr_of. repeat split; auto.
Qed.

Theorem xrun_XInv : forall ops s,
  XInv s ->
  let '(s', rs, e) := xrun bi s ops in
  XInv s' /\ e <> Some 2 /\ e <> Some 3.
Proof.
  induction ops as [|op ops IH]; intros s HI; cbn [xrun].
  - split; [auto|split; intros E; discriminate].
  - pose proof (xstep_XInv s op HI) as H. destruct (xstep bi s op) as [[s1 r]| | |]; try contradiction.
    + specialize (IH s1 H). destruct (xrun bi s1 ops) as [[s' rs] e]. auto.
    + split; [auto|split; intros E; discriminate].
Qed.

End ApiProofs.
