(* Placement of key-table elements inside the table's memory blocks (C16, block accounting of
   ABTI_ktable_create / ABTI_ktable_alloc_elem): every element lies inside a block of the
   table's p_used_mem chain, behind the block header (and behind the table itself in the first
   block), within the block's usable bytes, and no two elements overlap. *)
From Coq Require Import List ZArith Bool Lia.
From ABT Require Import Common.ListAux DS.Ktable DS.KtableProofs.
Import ListNotations.
Local Open Scope Z_scope.

Section Place.
Variable cfg : kcfg.
Definition esz : Z := ktelem_bytes cfg.
Definition blk_end : Z := c_hdr cfg + c_desc cfg.      (* usable bytes of a descriptor block *)
(* what the proofs need from the byte sizes (true of [cfg64]) *)
Record cfg_ok : Prop := {
  ck_pos  : 0 < esz;
  ck_fits : esz <= c_desc cfg;
  ck_hdr  : 0 <= c_hdr cfg;
  ck_ksz  : forall n, 0 < n -> 0 <= ktable_bytes cfg n
}.
Hypothesis CK : cfg_ok.

Definition first_blk (t : ktable) : Z := last (map fst (t_used t)) (-1).
Definition eblk (e : ktelem) : Z := fst (e_loc e).
Definition eoff (e : ktelem) : Z := snd (e_loc e).

Record PI (t : ktable) : Prop := {
  p_used  : t_used t <> [];
  p_in    : forall e, In e (telems t) ->
            In (eblk e) (map fst (t_used t)) /\ c_hdr cfg <= eoff e /\ eoff e + esz <= blk_end;
  p_disj  : forall e1 e2, In e1 (telems t) -> In e2 (telems t) -> e_key e1 <> e_key e2 ->
            eblk e1 = eblk e2 -> eoff e1 + esz <= eoff e2 \/ eoff e2 + esz <= eoff e1;
  p_esize : 0 <= t_extra_size t;
  p_eend  : snd (t_extra t) + t_extra_size t <= blk_end;
  p_eblk  : esz <= t_extra_size t -> In (fst (t_extra t)) (map fst (t_used t)) /\ c_hdr cfg <= snd (t_extra t);
  p_bump  : forall e, In e (telems t) -> eblk e = fst (t_extra t) -> eoff e + esz <= snd (t_extra t);
  p_tab   : forall e, In e (telems t) -> eblk e = first_blk t ->
            c_hdr cfg + ktable_bytes cfg (t_size t) <= eoff e;
  p_tabx  : fst (t_extra t) = first_blk t -> c_hdr cfg + ktable_bytes cfg (t_size t) <= snd (t_extra t)
}.

Lemma in_telems t e : In e (telems t) <-> exists j, In e (nth_chain t j).
Proof.
  unfold telems, nth_chain. split.
  - intros H. destruct (in_concat_nth _ _ H) as (j & _ & Hj). eauto.
  - intros (j & Hj). eapply in_nth_concat; eauto.
Qed.

Lemma in_telems_with t idx c e : (idx < length (t_elems t))%nat ->
  (In e (telems (with_chain t idx c)) <-> In e c \/ exists j, j <> idx /\ In e (nth_chain t j)).
Proof.
  intros Hi. rewrite in_telems. split.
  - intros (j & Hj). destruct (Nat.eq_dec j idx) as [->|Hne].
    + rewrite nth_chain_with_eq in Hj by auto. auto.
    + rewrite nth_chain_with_ne in Hj by auto. right. eauto.
  - intros [H|(j & Hne & Hj)].
    + exists idx. rewrite nth_chain_with_eq by auto. auto.
    + exists j. rewrite nth_chain_with_ne by auto. auto.
Qed.

(* storing a value keeps every element's key and place *)
Lemma in_chain_store c i v e' : In e' (chain_store c i v) ->
  exists e, In e c /\ e_key e' = e_key e /\ e_loc e' = e_loc e.
Proof.
  unfold chain_store. revert i. induction c as [|a c IH]; intros [|i]; cbn; try tauto.
  - intros [<-|H]; [exists a; cbn; auto|exists e'; auto].
  - intros [<-|H]; [exists a; auto|]. destruct (IH i H) as (e & He & Hk). exists e. auto.
Qed.

Definition same_place (t t' : ktable) : Prop :=
  t_used t' = t_used t /\ t_extra t' = t_extra t /\ t_extra_size t' = t_extra_size t /\ t_size t' = t_size t /\
  forall e', In e' (telems t') -> exists e, In e (telems t) /\ e_key e' = e_key e /\ e_loc e' = e_loc e.

Lemma PI_same t t' : same_place t t' -> PI t -> PI t'.
Proof.
  intros (Hu & He & Hs & Hz & Hin) [P1 P2 P3 P4 P5 P6 P7 P8 P9].
  assert (Hf : first_blk t' = first_blk t) by (unfold first_blk; congruence).
  split; rewrite ?Hu, ?He, ?Hs, ?Hz, ?Hf; auto.
  all: try solve [intros e' H; destruct (Hin e' H) as (e & Hi & Hk & Hl); unfold eblk, eoff; rewrite Hl;
                  first [apply P2|apply P7|apply P8]; auto; unfold eblk; congruence].
  intros e1 e2 H1 H2 Hne Hb. destruct (Hin e1 H1) as (a1 & A1 & K1 & L1), (Hin e2 H2) as (a2 & A2 & K2 & L2).
  unfold eblk, eoff in *. rewrite L1, L2 in *. apply P3; auto. congruence.
Qed.

(* one allocation of an element followed by its append *)
Lemma alloc_place t ext fail L L1 t1 p :
  PI t -> (forall b, In b (map fst (t_used t)) -> b < l_next L) ->
  ktable_alloc_elem cfg t esz ext fail L = (L1, t1, Some p) ->
  t_size t1 = t_size t /\ t_elems t1 = t_elems t /\ t_used t1 <> [] /\
  first_blk t1 = first_blk t /\
  (forall b, In b (map fst (t_used t1)) -> b < l_next L1) /\ l_next L <= l_next L1 /\
  (* the new place *)
  In (fst p) (map fst (t_used t1)) /\ c_hdr cfg <= snd p /\ snd p + esz <= blk_end /\
  (forall e, In e (telems t) -> In (eblk e) (map fst (t_used t1))) /\
  (forall e, In e (telems t) -> eblk e = fst p -> eoff e + esz <= snd p) /\
  (fst p = first_blk t -> c_hdr cfg + ktable_bytes cfg (t_size t) <= snd p) /\
  (* the new extra region *)
  0 <= t_extra_size t1 /\ snd (t_extra t1) + t_extra_size t1 <= blk_end /\
  (esz <= t_extra_size t1 -> In (fst (t_extra t1)) (map fst (t_used t1)) /\ c_hdr cfg <= snd (t_extra t1)) /\
  (fst (t_extra t1) = fst p /\ snd (t_extra t1) = snd p + esz).
Proof.
  intros [P1 P2 P3 P4 P5 P6 P7 P8 P9] Hb H. destruct CK as [C1 C2 C3 C4].
  unfold ktable_alloc_elem in H.
  destruct (Z.leb_spec esz (t_extra_size t)) as [Hle|Hgt].
  - (* the extra memory *)
    inversion H; subst; clear H. cbn [t_size t_elems t_used t_extra t_extra_size loc_add fst snd].
    destruct (P6 Hle) as [Q1 Q2].
    repeat split; auto; try lia.
    all: try solve [intros e He; apply P2; auto].
  - destruct (Z.leb_spec esz (c_desc cfg)) as [Hd|Hd]; [|lia].
    destruct fail; [discriminate|].
    unfold l_alloc in H. cbn in H. inversion H; subst; clear H.
    cbn [t_size t_elems t_used t_extra t_extra_size fst snd l_next map].
    assert (Hfresh : ~ In (l_next L) (map fst (t_used t))) by (intros Hi; apply Hb in Hi; lia).
    assert (Hfb : first_blk (mkT (t_size t) (t_elems t) ((l_next L, true) :: t_used t)
                                 (l_next L, c_hdr cfg + esz) (c_desc cfg - esz)) = first_blk t).
    { unfold first_blk. cbn [t_used map fst]. destruct (t_used t) as [|x l] eqn:E; [congruence|]. reflexivity. }
    assert (Hlast : In (first_blk t) (map fst (t_used t))).
    { unfold first_blk. destruct (t_used t) as [|x l] eqn:E; [congruence|]. cbn [map].
      generalize (fst x). clear. induction (map fst l) as [|y l' IH]; intros z; [cbn; auto|].
      right. apply IH. }
    unfold blk_end. repeat split; auto; try lia; try discriminate.
    all: try solve [cbn; auto].
    all: try solve [intros b [<-|Hi]; [lia|]; apply Hb in Hi; lia].
    all: try solve [intros e He; right; apply P2; auto].
    all: try solve [intros e He Eb; exfalso; apply Hfresh; rewrite <- Eb; apply P2; auto].
    all: try solve [intros Ef; exfalso; apply Hfresh; rewrite Ef; exact Hlast].
Qed.

Definition bounded (t : ktable) (L : ledger) : Prop :=
  forall b, In b (map fst (t_used t)) -> 0 <= b < l_next L.

Lemma set_impl_place t k v ext fail L L' t' rc :
  tgood t -> PI t -> bounded t L -> 0 <= l_next L ->
  ktable_set_impl cfg t k v ext fail L = (L', t', rc) ->
  PI t' /\ bounded t' L' /\ l_next L <= l_next L'.
Proof.
  intros G P B HL H. pose proof (g_wf _ G) as W. unfold ktable_set_impl in H.
  set (idx := get_idx (k_id k) (t_size t)) in *.
  assert (Hidx : (idx < length (t_elems t))%nat).
  { rewrite (wf_len _ W). apply get_idx_range. apply (wf_pow2 _ W). }
  set (c := nth_chain t idx) in *.
  assert (STORE : forall j, same_place t (with_chain t idx (chain_store c j v))).
  { intros j. repeat split; auto. intros e' He'. apply in_telems_with in He'; auto.
    destruct He' as [He'|(j' & Hne & Hj)].
    - destruct (in_chain_store _ _ _ _ He') as (e & He & Hk & Hl). exists e. split; auto.
      apply in_telems. exists idx. exact He.
    - exists e'. split; auto. apply in_telems. eauto. }
  destruct (chain_walk c (k_id k) 0) as [i|n] eqn:E1.
  - inversion H; subst. split; [eapply PI_same; eauto|]. split; [exact B|lia].
  - destruct (walk_tail _ _ _ _ E1) as [-> Hnone]. cbn [Nat.add] in H.
    rewrite skipn_all in H. cbn [chain_walk] in H.
    destruct (ktable_alloc_elem cfg t (ktelem_bytes cfg) ext fail L) as [[L1 t1] [p|]] eqn:EA.
    + inversion H; subst L' t' rc; clear H. rewrite firstn_all.
      assert (Bl : forall b, In b (map fst (t_used t)) -> b < l_next L) by (intros b Hb; apply B in Hb; lia).
      destruct (alloc_place t ext fail L L1 t1 p P Bl EA)
        as (Hs & He & Hu & Hf & Hb1 & Hmono & Q1 & Q2 & Q3 & Q4 & Q5 & Q6 & X1 & X2 & X3 & X4 & X5).
      destruct P as [P1 P2 P3 P4 P5 P6 P7 P8 P9]. destruct CK as [C1 C2 C3 C4].
      assert (Hidx1 : (idx < length (t_elems t1))%nat) by congruence.
      set (new := mkE (k_dtor k) (k_id k) v p) in *.
      assert (IN : forall e', In e' (telems (with_chain t1 idx (c ++ [new]))) -> In e' (telems t) \/ e' = new).
      { intros e' H'. apply in_telems_with in H'; auto. destruct H' as [H'|(j & Hne & Hj)].
        - apply in_app_or in H'. destruct H' as [H'|[<-|[]]]; auto. left. apply in_telems. exists idx. exact H'.
        - left. apply in_telems. exists j. unfold nth_chain in *. rewrite <- He. exact Hj. }
      assert (Hfb : first_blk (with_chain t1 idx (c ++ [new])) = first_blk t) by (unfold first_blk; cbn; exact Hf).
      split; [|split; [|exact Hmono]].
      * split; cbn [with_chain t_used t_extra t_extra_size t_size]; rewrite ?Hfb, ?Hs; auto.
        -- intros e' H'. destruct (IN e' H') as [Ho| ->].
           ++ split; [apply Q4; auto|apply P2; auto].
           ++ unfold eblk, eoff; cbn. auto.
        -- intros e1 e2 H1 H2 Hne Hb.
           destruct (IN e1 H1) as [O1| ->], (IN e2 H2) as [O2| ->].
           ++ apply P3; auto.
           ++ left. apply Q5; auto.
           ++ right. apply Q5; auto.
           ++ congruence.
        -- intros e' H' Eb. rewrite X4 in Eb. rewrite X5. destruct (IN e' H') as [Ho| ->].
           ++ pose proof (Q5 e' Ho Eb). lia.
           ++ unfold eoff; cbn. lia.
        -- intros e' H' Eb. destruct (IN e' H') as [Ho| ->].
           ++ apply P8; auto.
           ++ unfold eoff; cbn. apply Q6. exact Eb.
        -- intros Eb. rewrite X4 in Eb. rewrite X5. pose proof (Q6 Eb). lia.
      * intros b Hb. cbn in Hb. specialize (Hb1 b Hb). split; [|lia].
        (* ids of a table's blocks are non-negative *)
        clear - Hb EA B HL. unfold ktable_alloc_elem in EA.
        destruct (_ <=? t_extra_size t); [inversion EA; subst; apply B; auto|].
        destruct (_ <=? c_desc cfg); destruct fail; try discriminate;
          unfold l_alloc in EA; cbn in EA; inversion EA; subst; cbn in Hb;
          (destruct Hb as [<-|Hb]; [lia|apply B; auto]).
    + inversion H; subst L' t' rc; clear H.
      destruct (alloc_elem_same _ _ _ _ _ _ _ _ _ EA) as (_ & _ & Hsame).
      destruct (Hsame eq_refl) as [-> ->]. split; auto. split; [exact B|lia].
Qed.

Lemma create_place gsize ext fail L L' t :
  0 < gsize -> 0 <= l_next L ->
  ktable_create cfg gsize ext fail L = (L', Some t) ->
  PI t /\ bounded t L' /\ l_next L <= l_next L'.
Proof.
  intros Hg HL H. destruct CK as [C1 C2 C3 C4]. pose proof (C4 gsize Hg) as Hk.
  unfold ktable_create in H.
  assert (E : concat (repeat (@nil ktelem) (Z.to_nat gsize)) = []).
  { generalize (Z.to_nat gsize). intros n0. induction n0 as [|n0 IH]; [reflexivity|]. cbn [repeat concat app]. exact IH. }
  destruct (Z.leb_spec (ktable_bytes cfg gsize) (c_desc cfg)) as [Hle|Hgt]; destruct fail; try discriminate;
    unfold l_alloc in H; cbn in H; inversion H; subst; clear H.
  - split; [|split; [|cbn; lia]].
    + split; unfold telems, first_blk, blk_end; cbn [t_elems t_used t_extra t_extra_size t_size map fst snd last];
        rewrite ?E; try (intros; contradiction); try discriminate; try lia; auto.
      intros _. split; [cbn; auto|lia].
    + intros b [<-|[]]. cbn. lia.
  - split; [|split; [|cbn; lia]].
    + split; unfold telems, first_blk, blk_end, NULLLOC; cbn [t_elems t_used t_extra t_extra_size t_size map fst snd last];
        rewrite ?E; try (intros; contradiction); try discriminate; try lia; auto.
    + intros b [<-|[]]. cbn. lia.
Qed.

Lemma ktable_set_place gsize ot k v ext fc fe L L' ot' rc :
  pow2 gsize -> ogood gsize ot -> 0 <= l_next L ->
  (forall t, ot = Some t -> PI t /\ bounded t L) ->
  ktable_set cfg gsize ot k v ext fc fe L = (L', ot', rc) ->
  (forall t', ot' = Some t' -> PI t' /\ bounded t' L') /\ l_next L <= l_next L'.
Proof.
  intros P G HL HP H. unfold ktable_set in H. destruct ot as [t|].
  - destruct G as [G _]. destruct (HP t eq_refl) as [PI0 B0].
    destruct (ktable_set_impl cfg t k v ext fe L) as [[L1 t1] rc1] eqn:E. inversion H; subst; clear H.
    destruct (set_impl_place _ _ _ _ _ _ _ _ _ G PI0 B0 HL E) as (A & B & C).
    split; auto. intros t' Et; inversion Et; subst; auto.
  - destruct (ktable_create cfg gsize ext fc L) as [L1 [t|]] eqn:EC.
    + destruct (create_place _ _ _ _ _ _ (pow2_pos _ P) HL EC) as (A & B & C).
      pose proof (create_good _ _ _ _ _ _ _ P EC) as G1.
      destruct (ktable_set_impl cfg t k v ext fe L1) as [[L2 t2] rc2] eqn:E. inversion H; subst; clear H.
      destruct (set_impl_place _ _ _ _ _ _ _ _ _ G1 A B ltac:(lia) E) as (A' & B' & C').
      split; [|lia]. intros t' Et; inversion Et; subst; auto.
    + inversion H; subst; clear H.
      pose proof (create_spec _ _ _ _ _ _ _ P EC) as (_ & ->). split; [discriminate|lia].
Qed.

(* ---- along every run *)
Record NInv (w : world) : Prop := {
  n_next : 0 <= l_next (w_led w);
  n_tabs : forall u t, find_unit (w_units w) u = Some (Some t) -> PI t /\ bounded t (w_led w)
}.

Lemma bounded_mono t L L' : l_next L <= l_next L' -> bounded t L -> bounded t L'.
Proof. intros H B b Hb. specialize (B b Hb). lia. Qed.

Lemma release_chain_next used : forall L, l_next (release_chain used L) = l_next L.
Proof.
  unfold release_chain. induction used as [|h used IH]; intros L; cbn; auto. rewrite IH.
  unfold l_release. destruct (live_find _ _); [destruct (kind_ok _ _)|]; reflexivity.
Qed.

Lemma wstep_ninv w o : WInv w -> NInv w -> NInv (fst (wstep cfg w o)).
Proof.
  intros I [N1 N2]. pose proof (wi_pow2 _ I) as P.
  assert (SET : forall u ot k v ext fc fe L' ot' rc c ks dl,
            find_unit (w_units w) u = Some ot ->
            ktable_set cfg (w_gsize w) ot k v ext fc fe (w_led w) = (L', ot', rc) ->
            NInv (mkW (w_gsize w) c ks (set_unit (w_units w) u ot') L' dl)).
  { intros u ot k v ext fc fe L' ot' rc c ks dl E ES.
    destruct (ktable_set_place _ _ _ _ _ _ _ _ _ _ _ P (wi_good _ I _ _ E) N1
                (fun t Et => N2 u t (eq_trans E (f_equal Some Et))) ES) as [A B].
    split; cbn [w_led w_units]; [lia|].
    intros u' t'. rewrite find_set, E. destruct (u' =? u).
    - intros Et. inversion Et; subst. apply A; auto.
    - intros Et. destruct (N2 _ _ Et). split; auto. eapply bounded_mono; eauto. }
  destruct o as [d|h|n|u ext mig|ext u h v fc fe|u h|h|ext u|u|u]; cbn [wstep].
  - cbn [fst]. split; auto.
  - destruct (nth_error (w_keys w) h) as [[k [|]]|]; cbn [fst]; split; auto.
  - cbn [fst]. split; auto.
  - destruct (find_unit (w_units w) u) eqn:E; cbn [fst]; [split; auto|].
    destruct mig.
    + rewrite ktable_set_unsafe_eq.
      destruct (ktable_set cfg (w_gsize w) None mig_key MIGVAL ext false false (w_led w)) as [[L' ot'] rc] eqn:ES.
      cbn [fst].
      assert (HP0 : forall t, @None ktable = Some t -> PI t /\ bounded t (w_led w)) by (intros; discriminate).
      destruct (ktable_set_place (w_gsize w) None mig_key MIGVAL ext false false (w_led w) L' ot' rc P Logic.I N1 HP0 ES) as [A B].
      split; cbn [w_led w_units]; [lia|].
      intros u' t'. rewrite find_app. destruct (find_unit (w_units w) u') eqn:Eu'.
      * intros Et. inversion Et; subst. destruct (N2 _ _ Eu'). split; auto. eapply bounded_mono; eauto.
      * destruct (u =? u'); [|discriminate]. intros Et. inversion Et; subst. apply A; auto.
    + cbn [fst]. split; cbn [w_led w_units]; auto.
      intros u' t'. rewrite find_app. destruct (find_unit (w_units w) u') eqn:Eu'.
      * intros Et. inversion Et; subst. apply (N2 u'); auto.
      * destruct (u =? u'); discriminate.
  - destruct (nth_error (w_keys w) h) as [[k [|]]|]; destruct (find_unit (w_units w) u) as [ot|] eqn:E;
      cbn [fst]; try (split; auto; fail).
    destruct (ktable_set cfg (w_gsize w) ot k v ext fc fe (w_led w)) as [[L' ot'] rc] eqn:ES. cbn [fst].
    eapply SET; eauto.
  - destruct (nth_error (w_keys w) h) as [[k [|]]|]; destruct (find_unit (w_units w) u); cbn [fst]; split; auto.
  - destruct (nth_error (w_keys w) h) as [[k [|]]|]; cbn [fst]; split; auto.
  - destruct (find_unit (w_units w) u) as [ot|] eqn:E; cbn [fst]; [|split; auto].
    destruct (ktable_get ot mig_key =? 0); cbn [fst]; [|split; auto].
    destruct (ktable_set cfg (w_gsize w) ot mig_key MIGVAL ext false false (w_led w)) as [[L' ot'] rc] eqn:ES. cbn [fst].
    eapply SET; eauto.
  - destruct (find_unit (w_units w) u); cbn [fst]; split; auto.
  - destruct (find_unit (w_units w) u) as [[t|]|] eqn:E; cbn [fst]; [| |split; auto].
    + unfold ktable_free. cbn [fst]. split; cbn [w_led w_units].
      * rewrite release_chain_next. auto.
      * intros u' t'. rewrite find_del by apply (wi_nodup _ I). destruct (u' =? u); [discriminate|].
        intros Et. destruct (N2 _ _ Et). split; auto. intros b Hb. rewrite release_chain_next. auto.
    + split; cbn [w_led w_units]; auto.
      intros u' t'. rewrite find_del by apply (wi_nodup _ I). destruct (u' =? u); [discriminate|]. apply N2.
Qed.

Lemma ninv0 env : NInv (world0 env).
Proof. split; cbn; [lia|discriminate]. Qed.

Lemma wrun_ninv ops : forall w, WInv w -> NInv w -> NInv (fst (wrun cfg w ops)).
Proof.
  induction ops as [|o ops IH]; intros w I N; cbn; auto.
  pose proof (wstep_inv cfg w o I) as I'. pose proof (wstep_ninv w o I N) as N'.
  destruct (wstep cfg w o) as [w' r]. cbn in *.
  specialize (IH w' I' N'). destruct (wrun cfg w' ops). cbn in *. auto.
Qed.
End Place.

Lemma cfg64_ok : cfg_ok cfg64.
Proof.
  split; try (vm_compute; congruence); try (unfold esz; vm_compute; congruence).
  intros n Hn. unfold ktable_bytes, roundup. cbn [cfg64 c_off c_ptr c_align].
  assert (0 <= (32 + 8 * n + 16 - 1) / 16) by (apply Z.div_pos; lia). lia.
Qed.
