(* Proofs about DS/SyncLifo.v: the tagged-pointer LIFO is a linearisable stack
   in every interleaving, for any number of threads and elements; no element
   is handed out twice, none is lost.  The tag is what makes it work: with a
   tag increment of 0 there is a short run that hands an element out twice. *)
From Coq Require Import List ZArith Bool Lia.
From ABT Require Import Common.ListAux DS.SyncLifo.
Import ListNotations.
Local Open Scope Z_scope.

Lemma upd_same {B} (f : Z -> B) k v : upd f k v k = v.
Proof. unfold upd. now rewrite Z.eqb_refl. Qed.
Lemma upd_other {B} (f : Z -> B) k v x : x <> k -> upd f k v x = f x.
Proof. unfold upd. intros H. destruct (Z.eqb_spec x k); congruence. Qed.

(* the p_next chain starting at [p] is exactly the list [l] (NULL-terminated) *)
Inductive lchain (nx : Z -> Z) : Z -> list Z -> Prop :=
| lc_nil : lchain nx 0 []
| lc_cons e l : e <> 0 -> lchain nx (nx e) l -> lchain nx e (e :: l).

Lemma lchain_frame nx p l e v : lchain nx p l -> ~ In e l -> lchain (upd nx e v) p l.
Proof.
  induction 1; intros Hn; constructor; auto.
  rewrite upd_other by (intros ->; apply Hn; left; auto).
  apply IHlchain. intros Hi; apply Hn; right; auto.
Qed.

Lemma lchain_top_in nx p l : lchain nx p l -> p <> 0 -> In p l.
Proof. destruct 1; intros; [congruence|left; auto]. Qed.

Lemma lchain_zero nx l : lchain nx 0 l -> l = [].
Proof. inversion 1; subst; auto; congruence. Qed.

Lemma lchain_nonzero nx p l e : lchain nx p l -> In e l -> e <> 0.
Proof. induction 1; intros Hi; [destruct Hi|destruct Hi as [->|Hi]; auto]. Qed.

Lemma lchain_det nx p l1 l2 : lchain nx p l1 -> lchain nx p l2 -> l1 = l2.
Proof.
  intros H; revert l2; induction H; intros l2 H2; inversion H2; subst; auto; try congruence.
  f_equal; auto.
Qed.

Lemma lchain_walk nx p l : lchain nx p l -> forall f, (length l < f)%nat -> walk nx p f = l.
Proof.
  induction 1; intros f Hf; destruct f; cbn in *; try lia; auto.
  destruct (Z.eqb_spec e 0); [congruence|]. f_equal. apply IHlchain. lia.
Qed.

Lemma replay_app st l1 l2 :
  replay st (l1 ++ l2) = match replay st l1 with Some st' => replay st' l2 | None => None end.
Proof. revert st; induction l1 as [|ev l1 IH]; intros st; cbn; auto. destruct (replay_ev st ev); auto. Qed.

Lemma existsb_eqb_false e l : ~ In e l -> existsb (Z.eqb e) l = false.
Proof.
  intros H. destruct (existsb (Z.eqb e) l) eqn:E; auto.
  apply existsb_exists in E. destruct E as (y & Hy & Heq). apply Z.eqb_eq in Heq. subst. tauto.
Qed.

(* ---------- the invariant *)
Definition tinv (s : state) (x : Z) : Prop :=
  match pcs s x with
  | Idle | PopLP | PopLT _ => True
  | PushLP e | PushLT e _ | PushW e _ _ => owner s e = Some x /\ e <> 0
  | PushC e p t => owner s e = Some x /\ e <> 0 /\ nxt s e = p
  | PopR p t => t <= tag s /\ p <> 0
  | PopC p t n => t <= tag s /\ p <> 0 /\ (tag s = t -> top s = p -> n = nxt s p)
  end.

Record Inv (s : state) : Prop := mkInv {
  i_chain : lchain (nxt s) (top s) (abs s);           (* the pointer structure IS the abstract stack *)
  i_nodup : NoDup (abs s);
  i_owner : forall e, In e (abs s) <-> owner s e = None; (* in the LIFO xor held by exactly one thread *)
  i_thr : forall x, tinv s x;
  i_hist : replay [] (rev (hist s)) = Some (abs s)     (* linearisable: events replay on a stack *)
}.

Lemma inv_init nxt0 own0 : Inv (init nxt0 own0).
Proof.
  constructor; cbn; try constructor; try tauto; try discriminate; auto.
Qed.

Lemma tinv_other s s' y :
  tinv s y -> pcs s' y = pcs s y ->
  (forall e, owner s e = Some y -> owner s' e = Some y /\ nxt s' e = nxt s e) ->
  tag s <= tag s' ->
  (tag s' = tag s -> top s' = top s /\ (top s <> 0 -> nxt s' (top s) = nxt s (top s))) ->
  tinv s' y.
Proof.
  unfold tinv. intros Ht Hpc Ho Hle Heq. rewrite Hpc.
  destruct (pcs s y); auto.
  - destruct Ht as (H1 & H2). split; auto. apply Ho; auto.
  - destruct Ht as (H1 & H2). split; auto. apply Ho; auto.
  - destruct Ht as (H1 & H2). split; auto. apply Ho; auto.
  - destruct Ht as (H1 & H2 & H3). destruct (Ho _ H1) as (H4 & H5). repeat split; auto. congruence.
  - destruct Ht. split; auto; lia.
  - destruct Ht as (H1 & H2 & H3). repeat split; auto; try lia.
    intros Ha Hb. assert (tag s' = tag s) by lia. destruct (Heq H) as (H4 & H5).
    rewrite H4 in Hb. subst p. rewrite H5 by auto. apply H3; auto; lia.
Qed.

Lemma oeqb_true o x : oeqb o x = true -> o = Some x.
Proof. destruct o; cbn; [intros H; apply Z.eqb_eq in H; congruence|discriminate]. Qed.

Section Pres.
Variable tinc : Z.
Hypothesis tinc_pos : 0 < tinc.

(* steps that only change the pc of x *)
Lemma inv_set_pc s x c : Inv s -> tinv (set_pc s x c) x -> Inv (set_pc s x c).
Proof.
  intros [H1 H2 H3 H4 H5] Hx. constructor; cbn; auto.
  intros y. destruct (Z.eq_dec y x) as [->|Hne]; auto.
  apply (tinv_other s); cbn; auto; try lia. now rewrite upd_other.
Qed.

Theorem step_preserves s x a s' : Inv s -> step_gen tinc s x a = Some s' -> Inv s'.
Proof.
  intros HI Hs. pose proof HI as [H1 H2 H3 H4 H5]. pose proof (H4 x) as Hx.
  unfold step_gen in Hs. unfold tinv in Hx.
  destruct a; destruct (pcs s x) eqn:Epc; try discriminate.
  - (* ACallPush *)
    destruct (negb (e =? 0) && oeqb (owner s e) x) eqn:E; inversion Hs; subst; clear Hs.
    apply andb_true_iff in E. destruct E as (E1 & E2). apply oeqb_true in E2.
    apply negb_true_iff, Z.eqb_neq in E1.
    apply inv_set_pc; auto. unfold tinv; cbn. rewrite upd_same. auto.
  - (* ACallPop *)
    inversion Hs; subst. apply inv_set_pc; auto. unfold tinv; cbn. now rewrite upd_same.
  - (* AStep PushLP *)
    inversion Hs; subst. apply inv_set_pc; auto. unfold tinv; cbn. now rewrite upd_same.
  - (* AStep PushLT *)
    inversion Hs; subst. apply inv_set_pc; auto. unfold tinv; cbn. now rewrite upd_same.
  - (* AStep PushW: e->p_next = p *)
    inversion Hs; subst; clear Hs. destruct Hx as (Ho & Hne).
    assert (Hnin : ~ In e (abs s)) by (intros Hi; apply H3 in Hi; congruence).
    constructor; cbn; auto.
    + apply lchain_frame; auto.
    + intros y. destruct (Z.eq_dec y x) as [->|Hyx].
      * unfold tinv; cbn. rewrite !upd_same. auto.
      * apply (tinv_other s); cbn; auto; try lia.
        -- now rewrite upd_other.
        -- intros e' He'. split; auto. apply upd_other. congruence.
        -- intros _. split; auto. intros Ht. apply upd_other. intros Heq.
           apply Hnin. rewrite <- Heq. eapply lchain_top_in; eauto.
  - (* AStep PushC *)
    destruct Hx as (Ho & Hne & Hn).
    destruct ((top s =? p) && (tag s =? t)) eqn:E; inversion Hs; subst; clear Hs.
    + apply andb_true_iff in E. destruct E as (E1 & E2).
      apply Z.eqb_eq in E1, E2.
      assert (Hnin : ~ In e (abs s)) by (intros Hi; apply H3 in Hi; congruence).
      constructor; cbn; auto.
      * constructor; auto. assert (nxt s e = top s) as -> by congruence; auto.
      * constructor; auto.
      * intros e'. destruct (Z.eq_dec e' e) as [->|Hee].
        -- rewrite upd_same. split; auto.
        -- rewrite upd_other by auto. rewrite <- H3. split; [intros [Hc|Hc]; [congruence|auto]|auto].
      * intros y. destruct (Z.eq_dec y x) as [->|Hyx].
        -- unfold tinv; cbn. now rewrite upd_same.
        -- apply (tinv_other s); cbn; auto; try lia.
           ++ now rewrite upd_other.
           ++ intros e' He'. split; auto. rewrite upd_other; auto. congruence.
      * rewrite replay_app, H5. cbn. rewrite existsb_eqb_false; auto.
    + apply inv_set_pc; auto. unfold tinv; cbn. now rewrite upd_same.
  - (* AStep PopLP *)
    inversion Hs; subst; clear Hs. constructor; cbn; auto.
    + intros y. destruct (Z.eq_dec y x) as [->|Hyx].
      * unfold tinv; cbn. now rewrite upd_same.
      * apply (tinv_other s); cbn; auto; try lia. now rewrite upd_other.
    + destruct (Z.eqb_spec (top s) 0); auto.
      cbn. rewrite replay_app, H5. cbn.
      rewrite e in H1. apply lchain_zero in H1. now rewrite H1.
  - (* AStep PopLT *)
    destruct (Z.eqb_spec p 0); inversion Hs; subst; clear Hs;
      apply inv_set_pc; auto; unfold tinv; cbn; rewrite upd_same; auto. split; auto; lia.
  - (* AStep PopR *)
    inversion Hs; subst; clear Hs. destruct Hx as (Hle & Hne).
    apply inv_set_pc; auto. unfold tinv; cbn. rewrite upd_same. auto.
  - (* AStep PopC *)
    destruct Hx as (Hle & Hne & Hn).
    destruct ((top s =? p) && (tag s =? t)) eqn:E; inversion Hs; subst; clear Hs.
    + apply andb_true_iff in E. destruct E as (E1 & E2).
      apply Z.eqb_eq in E1, E2. specialize (Hn E2 E1). subst n.
      inversion H1 as [Hz|e l Hez Hl Hte]; subst; [congruence|].
      rewrite <- H in *. cbn [tl]. apply NoDup_cons_iff in H2. destruct H2 as (Hnin & Hnd).
      constructor; cbn; auto.
      * intros e'. destruct (Z.eq_dec e' (top s)) as [->|Hee].
        -- rewrite upd_same. split; [tauto|discriminate].
        -- rewrite upd_other by auto. rewrite <- H3. cbn. split; [auto|intros [Hc|Hc]; [congruence|auto]].
      * intros y. destruct (Z.eq_dec y x) as [->|Hyx].
        -- unfold tinv; cbn. now rewrite upd_same.
        -- apply (tinv_other s); cbn; auto; try lia.
           ++ now rewrite upd_other.
           ++ intros e' He'. split; auto. rewrite upd_other; auto. intros ->.
              assert (owner s (top s) = None) by (apply H3; left; auto). congruence.
      * rewrite replay_app, H5. cbn. now rewrite Z.eqb_refl.
    + apply inv_set_pc; auto. unfold tinv; cbn. now rewrite upd_same.
  - (* ASpurious PushC *)
    inversion Hs; subst. destruct Hx as (Ho & Hne & Hn).
    apply inv_set_pc; auto. unfold tinv; cbn. now rewrite upd_same.
  - (* ASpurious PopC *)
    inversion Hs; subst. apply inv_set_pc; auto. unfold tinv; cbn. now rewrite upd_same.
  - (* AScribble *)
    destruct (negb (e =? 0) && oeqb (owner s e) x) eqn:E; inversion Hs; subst; clear Hs.
    apply andb_true_iff in E. destruct E as (E1 & E2). apply oeqb_true in E2.
    assert (Hnin : ~ In e (abs s)) by (intros Hi; apply H3 in Hi; congruence).
    constructor; cbn; auto.
    + apply lchain_frame; auto.
    + intros y. destruct (Z.eq_dec y x) as [->|Hyx].
      * unfold tinv; cbn. now rewrite Epc.
      * apply (tinv_other s); cbn; auto; try lia.
        -- intros e' He'. split; auto. apply upd_other. congruence.
        -- intros _. split; auto. intros Ht. apply upd_other. intros Heq.
           apply Hnin. rewrite <- Heq. eapply lchain_top_in; eauto.
  - (* AGive *)
    destruct (negb (e =? 0) && oeqb (owner s e) x) eqn:E; inversion Hs; subst; clear Hs.
    apply andb_true_iff in E. destruct E as (E1 & E2). apply oeqb_true in E2.
    constructor; cbn; auto.
    + intros e'. destruct (Z.eq_dec e' e) as [->|Hee].
      * rewrite upd_same. rewrite H3. split; [congruence|discriminate].
      * rewrite upd_other; auto.
    + intros z. destruct (Z.eq_dec z x) as [->|Hzx].
      * unfold tinv; cbn. now rewrite Epc.
      * apply (tinv_other s); cbn; auto; try lia.
        intros e' He'. split; auto. rewrite upd_other; auto. congruence.
Qed.

Theorem run_preserves acts : forall s s', Inv s -> run_gen tinc s acts = Some s' -> Inv s'.
Proof.
  induction acts as [|(x, a) r IH]; cbn; intros s s' HI Hr.
  - inversion Hr; subst; auto.
  - destruct (step_gen tinc s x a) eqn:E; [|discriminate].
    eapply IH; [|eauto]. eapply step_preserves; eauto.
Qed.
End Pres.

(* ---------- the property *)
Theorem lifo_no_aba nxt0 own0 acts s :
  run (init nxt0 own0) acts = Some s ->
  lchain (nxt s) (top s) (abs s) /\ NoDup (abs s) /\
  (forall e, In e (abs s) <-> owner s e = None) /\
  replay [] (rev (hist s)) = Some (abs s).
Proof.
  intros H. apply (run_preserves 1 ltac:(lia)) in H; [|apply inv_init].
  destruct H; auto.
Qed.

(* a successful pop returns the element on top of the abstract stack, whose
   successor is the new top: what the thread read earlier cannot be stale *)
Theorem pop_cas_not_stale nxt0 own0 acts s x p t n :
  run (init nxt0 own0) acts = Some s -> pcs s x = PopC p t n ->
  top s = p -> tag s = t ->
  exists l, abs s = p :: l /\ lchain (nxt s) n l.
Proof.
  intros H Hpc Ht Hg. apply (run_preserves 1 ltac:(lia)) in H; [|apply inv_init].
  destruct H as [H1 _ _ H4 _]. specialize (H4 x). unfold tinv in H4. rewrite Hpc in H4.
  destruct H4 as (_ & Hne & Hn). specialize (Hn Hg Ht). subst n.
  inversion H1 as [Hz|e l Hez Hl Hte]; [congruence|]. subst e. exists l. rewrite <- Ht. split; auto.
Qed.

(* one thread alone: push / pop behave as SyncLifo.seq_push / seq_pop *)
Lemma solo_push s x e : pcs s x = Idle -> e <> 0 -> owner s e = Some x ->
  exists s', run s [(x, ACallPush e); (x, AStep); (x, AStep); (x, AStep); (x, AStep)] = Some s' /\
    (nxt s' e, top s', tag s') = seq_push (top s) (tag s) e /\ pcs s' x = Idle /\
    (forall e', e' <> e -> nxt s' e' = nxt s e').
Proof.
  intros Hpc Hne Ho. unfold run, run_gen, step, step_gen. rewrite Hpc.
  destruct (Z.eqb_spec e 0); [congruence|]. rewrite Ho. cbn [negb andb oeqb]. rewrite Z.eqb_refl.
  cbn. rewrite !upd_same. cbn. rewrite !upd_same. cbn. rewrite !upd_same. cbn. rewrite !upd_same. cbn.
  rewrite !Z.eqb_refl. cbn. eexists; split; [reflexivity|]. cbn. rewrite !upd_same.
  repeat split; auto. intros e' He'. now rewrite upd_other.
Qed.

Lemma solo_pop_nonempty s x : pcs s x = Idle -> top s <> 0 ->
  exists s', run s [(x, ACallPop); (x, AStep); (x, AStep); (x, AStep); (x, AStep)] = Some s' /\
    seq_pop (top s) (tag s) (nxt s (top s)) = Some (top s, top s', tag s') /\
    owner s' (top s) = Some x /\ pcs s' x = Idle.
Proof.
  intros Hpc Hne. unfold run, run_gen, step, step_gen. rewrite Hpc.
  cbn. rewrite !upd_same. cbn. rewrite !upd_same.
  destruct (Z.eqb_spec (top s) 0); [congruence|]. cbn. rewrite !upd_same. cbn. rewrite !upd_same. cbn.
  rewrite !Z.eqb_refl. cbn. eexists; split; [reflexivity|]. cbn. rewrite !upd_same.
  unfold seq_pop. destruct (Z.eqb_spec (top s) 0); [congruence|]. auto.
Qed.

Lemma solo_pop_empty s x : pcs s x = Idle -> top s = 0 ->
  exists s', run s [(x, ACallPop); (x, AStep); (x, AStep)] = Some s' /\
    seq_pop (top s) (tag s) (nxt s (top s)) = None /\ top s' = 0 /\ tag s' = tag s /\ pcs s' x = Idle.
Proof.
  intros Hpc Hz. unfold run, run_gen, step, step_gen. rewrite Hpc.
  cbn. rewrite !upd_same. cbn. rewrite !upd_same. rewrite Hz. cbn.
  eexists; split; [reflexivity|]. cbn. rewrite upd_same. auto.
Qed.

(* ---------- non-vacuity: an interleaving with the classic ABA shape.
   T1 starts a pop and reads (top = 1, tag, next = 2); T2 pops 1, pops 2,
   pushes 1 again; now top = 1 as T1 saw it, but the tag moved on, so T1's CAS
   fails and it retries. *)
Definition aba_prefix : list (Z * action) :=
  [ (2, ACallPush 2); (2, AStep); (2, AStep); (2, AStep); (2, AStep);     (* stack: 2 *)
    (2, ACallPush 1); (2, AStep); (2, AStep); (2, AStep); (2, AStep);     (* stack: 1 2 *)
    (1, ACallPop); (1, AStep); (1, AStep); (1, AStep);                    (* T1 at PopC 1 t 2 *)
    (2, ACallPop); (2, AStep); (2, AStep); (2, AStep); (2, AStep);        (* T2 pops 1 *)
    (2, ACallPop); (2, AStep); (2, AStep); (2, AStep); (2, AStep);        (* T2 pops 2 *)
    (2, ACallPush 1); (2, AStep); (2, AStep); (2, AStep); (2, AStep);     (* T2 pushes 1: top = 1 again *)
    (1, AStep) ].                                                          (* T1's CAS *)

Definition aba_init := init (fun _ => 0) (fun _ => 2).

Example aba_with_tag :
  match run aba_init aba_prefix with
  | Some s => top s = 1 /\ abs s = [1] /\ pcs s 1 = PopLP /\ owner s 2 = Some 2
  | None => False
  end.
Proof. vm_compute. repeat split; reflexivity. Qed.

(* the same run on the variant whose CAS does not advance the tag: T1's stale
   CAS succeeds, top becomes 2 although thread 2 holds element 2, and element 1
   is held by T1 as well as lost from the stack: exclusive ownership is gone *)
Theorem aba_without_tag :
  exists acts s, run_gen 0 aba_init acts = Some s /\
    top s = 2 /\ owner s 2 = Some 2 /\ ~ lchain (nxt s) (top s) (abs s).
Proof.
  exists aba_prefix. eexists. split; [vm_compute; reflexivity|].
  cbn. repeat split; auto. intros H. inversion H.
Qed.
