(* Proofs about the association layer of DS/UnitMap.v (abti_unit.h):
   invariant linking table, thread fields and call log; preservation by
   ABTI_thread_init_pool / ABTI_thread_set_associated_pool /
   ABTI_unit_set_associated_pool / ABTI_thread_unset_associated_pool;
   failure atomicity. *)
From Coq Require Import List ZArith Bool Lia.
From ABT Require Import Common.ListAux DS.UnitMap DS.UnitMapProofs.
Import ListNotations.
Local Open Scope Z_scope.

(* ------------------------------------------------------------------ *)
(* the built-in unit bit trick                                          *)
(* ------------------------------------------------------------------ *)

Lemma is_builtin_odd u : is_builtin_unit u = Z.odd u.
Proof.
  unfold is_builtin_unit. change 1 with (Z.ones 1). rewrite Z.land_ones by lia.
  change (2 ^ 1) with 2. rewrite Zmod_odd. destruct (Z.odd u); reflexivity.
Qed.

Lemma is_builtin_even u : Z.even u = true -> is_builtin_unit u = false.
Proof. intros H. rewrite is_builtin_odd, <- Z.negb_even, H. reflexivity. Qed.

Lemma not_builtin_even u : is_builtin_unit u = false -> Z.even u = true.
Proof. rewrite is_builtin_odd, <- Z.negb_even. destruct (Z.even u); auto. Qed.

Lemma builtin_unit_succ th : Z.even th = true -> builtin_unit th = th + 1.
Proof.
  intros H. unfold builtin_unit. apply Z.even_spec in H. destruct H as [k ->].
  apply Z.bits_inj'. intros n Hn. rewrite Z.lor_spec.
  destruct (Z.eq_dec n 0) as [->|Hne].
  - rewrite Z.testbit_even_0, Z.testbit_odd_0. reflexivity.
  - replace n with (Z.succ (n - 1)) by lia.
    rewrite Z.testbit_odd_succ, Z.testbit_even_succ by lia.
    change 1 with (2 * 0 + 1). rewrite Z.testbit_odd_succ by lia.
    rewrite Z.bits_0. apply orb_false_r.
Qed.

Lemma is_builtin_builtin_unit th : Z.even th = true -> is_builtin_unit (builtin_unit th) = true.
Proof.
  intros H. rewrite builtin_unit_succ by auto. rewrite is_builtin_odd.
  rewrite Z.odd_add. rewrite <- Z.negb_even, H. reflexivity.
Qed.

Lemma thread_of_builtin_unit th : Z.even th = true -> thread_of_builtin (builtin_unit th) = th.
Proof.
  intros H. rewrite builtin_unit_succ by auto. unfold thread_of_builtin.
  apply Z.even_spec in H. destruct H as [k ->].
  apply Z.bits_inj'. intros n Hn. rewrite Z.land_spec.
  destruct (Z.eq_dec n 0) as [->|Hne].
  - rewrite Z.testbit_even_0. change (-2) with (2 * (-1)). rewrite Z.testbit_even_0.
    apply andb_false_r.
  - replace n with (Z.succ (n - 1)) by lia.
    rewrite Z.testbit_odd_succ, Z.testbit_even_succ by lia.
    change (-2) with (2 * (-1)). rewrite Z.testbit_even_succ by lia.
    rewrite Z.bits_m1 by lia. apply andb_true_r.
Qed.

Lemma builtin_unit_inj t1 t2 :
  Z.even t1 = true -> Z.even t2 = true -> builtin_unit t1 = builtin_unit t2 -> t1 = t2.
Proof. intros H1 H2. rewrite !builtin_unit_succ by auto. lia. Qed.

(* ------------------------------------------------------------------ *)
(* association lists                                                    *)
(* ------------------------------------------------------------------ *)
Section ZL.
Context {A : Type}.
Implicit Types (l : list (Z * A)).

Lemma zfind_zset l k v k' : zfind (zset l k v) k' = if k' =? k then Some v else zfind l k'.
Proof.
  induction l as [|[k0 v0] l IH]; cbn.
  - rewrite (Z.eqb_sym k k'). destruct (k' =? k); reflexivity.
  - destruct (Z.eqb_spec k0 k) as [E|Hne]; cbn.
    + rewrite (Z.eqb_sym k k'). destruct (Z.eqb_spec k' k) as [E'|Hne']; auto.
      destruct (Z.eqb_spec k0 k'); [congruence|reflexivity].
    + rewrite IH. destruct (Z.eqb_spec k0 k') as [E'|]; auto.
      destruct (Z.eqb_spec k' k); [congruence|reflexivity].
Qed.

Lemma zfind_zdel l k k' : zfind (zdel l k) k' = if k' =? k then None else zfind l k'.
Proof.
  induction l as [|[k0 v0] l IH]; cbn.
  - destruct (k' =? k); reflexivity.
  - destruct (Z.eqb_spec k0 k) as [E|Hne]; cbn.
    + rewrite IH. destruct (Z.eqb_spec k' k) as [E'|Hne']; auto.
      destruct (Z.eqb_spec k0 k'); [congruence|reflexivity].
    + rewrite IH. destruct (Z.eqb_spec k0 k') as [E'|]; auto.
      destruct (Z.eqb_spec k' k); [congruence|reflexivity].
Qed.

Lemma zfind_some_in l k v : zfind l k = Some v -> In (k, v) l.
Proof.
  induction l as [|[k0 v0] l IH]; cbn; [discriminate|].
  destruct (Z.eqb_spec k0 k) as [->|]; [intros E; inversion E; auto|auto].
Qed.

Lemma zfind_none_notin l k : zfind l k = None -> ~ In k (map fst l).
Proof.
  induction l as [|[k0 v0] l IH]; cbn; [tauto|].
  destruct (Z.eqb_spec k0 k); [discriminate|]. intros H [E|Hin]; [congruence|]. apply IH; auto.
Qed.

Lemma in_zfind l k v : NoDup (map fst l) -> In (k, v) l -> zfind l k = Some v.
Proof.
  induction l as [|[k0 v0] l IH]; cbn; [intros _ []|].
  intros Hnd [E|Hin].
  - inversion E; subst. rewrite Z.eqb_refl. reflexivity.
  - apply NoDup_cons_iff in Hnd. destruct Hnd as [Hn Hnd].
    destruct (Z.eqb_spec k0 k) as [->|]; [|auto].
    exfalso. apply Hn. apply in_map_iff. exists (k, v). auto.
Qed.

Lemma zset_keys_in l k v x : In x (map fst (zset l k v)) <-> x = k \/ In x (map fst l).
Proof.
  induction l as [|[k0 v0] l IH]; cbn.
  - intuition.
  - destruct (Z.eqb_spec k0 k) as [->|Hne]; cbn; [intuition|]. rewrite IH. intuition.
Qed.

Lemma zset_keys_nodup l k v : NoDup (map fst l) -> NoDup (map fst (zset l k v)).
Proof.
  induction l as [|[k0 v0] l IH]; cbn; intros Hnd.
  - constructor; [intros []|constructor].
  - apply NoDup_cons_iff in Hnd. destruct Hnd as [Hn Hnd].
    destruct (Z.eqb_spec k0 k) as [->|Hne]; cbn.
    + constructor; auto.
    + constructor; auto. rewrite zset_keys_in. intros [E|Hin]; auto.
Qed.

Lemma zdel_keys_in l k x : In x (map fst (zdel l k)) -> In x (map fst l).
Proof.
  induction l as [|[k0 v0] l IH]; cbn; auto.
  destruct (Z.eqb_spec k0 k); cbn; [auto|]. intros [E|H]; auto.
Qed.

Lemma zdel_keys_nodup l k : NoDup (map fst l) -> NoDup (map fst (zdel l k)).
Proof.
  induction l as [|[k0 v0] l IH]; cbn; intros Hnd; auto.
  apply NoDup_cons_iff in Hnd. destruct Hnd as [Hn Hnd].
  destruct (Z.eqb_spec k0 k); cbn; auto.
  constructor; auto. intros H. apply Hn. eapply zdel_keys_in; eauto.
Qed.
End ZL.

(* ------------------------------------------------------------------ *)
(* call log against an association relation                             *)
(* ------------------------------------------------------------------ *)

(* [Q u p th] : handle u is the live unit of work unit th in user pool p *)
Definition arel := Z -> Z -> Z -> Prop.

(* the log replays, and afterwards every live handle is live for exactly one
   pool (no same-handle move is pending) and the live handles are those of Q *)
Definition LogRel (log : list call) (Q : arel) : Prop :=
  exists f, replay log = Some f /\
            forall u p th o, f u = Some (p, th, o) <-> (o = None /\ Q u p th).

Lemma LogRel_ext log Q Q' : LogRel log Q -> (forall u p th, Q u p th <-> Q' u p th) -> LogRel log Q'.
Proof. intros (f & E & H) HQ. exists f. split; auto. intros. rewrite H, HQ. tauto. Qed.

Lemma LogRel_nil : LogRel [] (fun _ _ _ => False).
Proof. eexists. split; [reflexivity|]. cbn. intros. split; [discriminate|tauto]. Qed.

Lemma LogRel_create_null log Q p th : LogRel log Q -> LogRel (CCreate p th UNIT_NULL :: log) Q.
Proof. intros (f & E & H). exists f. split; auto. cbn. rewrite E. reflexivity. Qed.

Lemma LogRel_none log Q f u : replay log = Some f ->
  (forall u p th o, f u = Some (p, th, o) <-> (o = None /\ Q u p th)) -> (forall p th, ~ Q u p th) -> f u = None.
Proof.
  intros E H Hn. destruct (f u) as [[[p th] o]|] eqn:Ef; auto. exfalso. apply (Hn p th). apply H in Ef. tauto.
Qed.

Lemma LogRel_live log Q f u p th : replay log = Some f ->
  (forall u p th o, f u = Some (p, th, o) <-> (o = None /\ Q u p th)) -> Q u p th -> f u = Some (p, th, None).
Proof. intros E H HQ. apply H. auto. Qed.

Lemma LogRel_create log Q Q' p th cu :
  LogRel log Q -> cu <> UNIT_NULL -> (forall q t, ~ Q cu q t) ->
  (forall u q t, Q' u q t <-> (u = cu /\ q = p /\ t = th) \/ Q u q t) ->
  LogRel (CCreate p th cu :: log) Q'.
Proof.
  intros (f & E & H) Hcu Hfresh HQ'.
  exists (lupd f cu (Some (p, th, None))). split.
  - cbn. rewrite E. cbn. destruct (Z.eqb_spec cu UNIT_NULL); [contradiction|].
    rewrite (LogRel_none _ _ _ _ E H Hfresh). reflexivity.
  - intros u q t o. rewrite HQ'. unfold lupd. destruct (Z.eqb_spec u cu) as [->|Hne].
    + split.
      * intros E'; inversion E'; auto.
      * intros [-> [(_ & -> & ->)|HQ]]; auto. exfalso. apply (Hfresh _ _ HQ).
    + rewrite H. split; [tauto|]. intros [? [[? _]|?]]; [contradiction|auto].
Qed.

Lemma LogRel_free log Q Q' p th u :
  LogRel log Q -> Q u p th ->
  (forall u' q t, Q' u' q t <-> Q u' q t /\ u' <> u) ->
  LogRel (CFree p u :: log) Q'.
Proof.
  intros (f & E & H) HQ HQ'.
  exists (lupd f u None). split.
  - cbn. rewrite E. cbn. rewrite (LogRel_live _ _ _ _ _ _ E H HQ), Z.eqb_refl. reflexivity.
  - intros u' q t o. rewrite HQ'. unfold lupd. destruct (Z.eqb_spec u' u) as [->|Hne].
    + split; [discriminate|tauto].
    + rewrite H. tauto.
Qed.

Lemma LogRel_push log Q p th u : LogRel log Q -> Q u p th -> LogRel (CPush p u :: log) Q.
Proof.
  intros (f & E & H) HQ. exists f. split; auto. cbn. rewrite E. cbn.
  rewrite (LogRel_live _ _ _ _ _ _ E H HQ), Z.eqb_refl. reflexivity.
Qed.

Lemma LogRel_pop log Q p th u : LogRel log Q -> Q u p th -> LogRel (CPop p u :: log) Q.
Proof.
  intros (f & E & H) HQ. exists f. split; auto. cbn. rewrite E. cbn.
  rewrite (LogRel_live _ _ _ _ _ _ E H HQ), Z.eqb_refl. reflexivity.
Qed.

(* a rejected unit (created, map failed, freed at once) leaves the relation *)
Lemma LogRel_create_free log Q p th cu :
  LogRel log Q -> cu <> UNIT_NULL -> (forall q t, ~ Q cu q t) ->
  LogRel (CFree p cu :: CCreate p th cu :: log) Q.
Proof.
  intros HL Hcu Hfresh.
  apply (LogRel_free _ (fun u q t => (u = cu /\ q = p /\ t = th) \/ Q u q t) _ p th cu).
  - eapply LogRel_create; eauto. intros; tauto.
  - auto.
  - intros u' q t. split.
    + intros HQ. split; auto. intros ->. apply (Hfresh _ _ HQ).
    + intros [[[? _]|?] ?]; [contradiction|auto].
Qed.

(* the same-handle move: work unit th, live with handle u in pool p, is given
   the same handle by pool q <> p (create_unit of q), then p frees it: u is
   live in both pools in between, and for q alone afterwards *)
Lemma LogRel_move_same log Q Q' p q th u :
  LogRel log Q -> u <> UNIT_NULL -> Q u p th -> p <> q ->
  (forall u' q' t, Q' u' q' t <-> (u' = u /\ q' = q /\ t = th) \/ (Q u' q' t /\ u' <> u)) ->
  LogRel (CFree p u :: CCreate q th u :: log) Q'.
Proof.
  intros (f & E & H) Hu HQ Hpq HQ'.
  pose proof (LogRel_live _ _ _ _ _ _ E H HQ) as Ef.
  exists (lupd (lupd f u (Some (p, th, Some q))) u (Some (q, th, None))). split.
  - cbn. rewrite E. cbn. destruct (Z.eqb_spec u UNIT_NULL); [contradiction|].
    rewrite Ef, Z.eqb_refl. destruct (Z.eqb_spec p q); [contradiction|]. cbn.
    unfold lupd at 1. rewrite !Z.eqb_refl. reflexivity.
  - intros u' q' t o. rewrite HQ'. unfold lupd. destruct (Z.eqb_spec u' u) as [->|Hne].
    + split.
      * intros E'; inversion E'; auto.
      * intros [-> [(_ & -> & ->)|[_ C]]]; [reflexivity|contradiction].
    + rewrite H. split; [tauto|]. intros [? [[? _]|[? _]]]; [contradiction|auto].
Qed.

(* ... and when the map of the new association fails, the new pool frees the
   handle at once: the old association is all that is left *)
Lemma LogRel_create_free_same log Q p q th u :
  LogRel log Q -> u <> UNIT_NULL -> Q u p th -> p <> q ->
  LogRel (CFree q u :: CCreate q th u :: log) Q.
Proof.
  intros (f & E & H) Hu HQ Hpq.
  pose proof (LogRel_live _ _ _ _ _ _ E H HQ) as Ef.
  exists (lupd (lupd f u (Some (p, th, Some q))) u (Some (p, th, None))). split.
  - cbn. rewrite E. cbn. destruct (Z.eqb_spec u UNIT_NULL); [contradiction|].
    rewrite Ef, Z.eqb_refl. destruct (Z.eqb_spec p q); [contradiction|]. cbn.
    unfold lupd at 1. rewrite !Z.eqb_refl. destruct (Z.eqb_spec p q); [contradiction|]. reflexivity.
  - intros u' q' t o. unfold lupd. destruct (Z.eqb_spec u' u) as [->|Hne].
    + rewrite <- Ef. apply H.
    + apply H.
Qed.

(* ------------------------------------------------------------------ *)
(* the invariant                                                        *)
(* ------------------------------------------------------------------ *)
Section AssocProofs.
Variable bi : Z -> bool.

Definition UA (l : list (Z * thr)) : arel := fun u p th =>
  exists x, zfind l th = Some x /\ t_unit x = u /\ t_pool x = p /\ is_builtin_unit u = false.

(* per-thread consistency of (unit, p_pool) *)
Definition thr_ok (th : Z) (x : thr) : Prop :=
  thread_ptr_ok th = true /\
  (if is_builtin_unit (t_unit x)
   then t_unit x = builtin_unit th /\ bi (t_pool x) = true
   else t_unit x <> UNIT_NULL /\ bi (t_pool x) = false).

Record ThrInv (l : list (Z * thr)) : Prop := {
  ti_keys : NoDup (map fst l);
  ti_ok : forall th x, zfind l th = Some x -> thr_ok th x;
  ti_inj : forall th1 x1 th2 x2, zfind l th1 = Some x1 -> zfind l th2 = Some x2 ->
           t_unit x1 = t_unit x2 -> th1 = th2
}.

Record Inv (s : astate) : Prop := {
  inv_thr : ThrInv (a_thr s);
  inv_tbl : rep (a_tbl s) (fun u th => exists p, UA (a_thr s) u p th);
  inv_log : LogRel (a_log s) (UA (a_thr s))
}.

Lemma Inv_init : Inv init_state.
Proof.
  split; cbn.
  - split; cbn; [constructor|discriminate|discriminate].
  - apply (rep_ext _ _ _ rep_init). intros u th. split; [tauto|].
    intros (p & x & E & _). discriminate.
  - apply (LogRel_ext _ _ _ LogRel_nil). intros u p th. split; [tauto|].
    intros (x & E & _). discriminate.
Qed.

Lemma thread_ptr_ok_even th : thread_ptr_ok th = true -> Z.even th = true /\ th <> 0.
Proof.
  unfold thread_ptr_ok. destruct (Z.eqb_spec th 0); cbn; [discriminate|]. auto.
Qed.

Lemma UA_zset l th x' u q t :
  UA (zset l th x') u q t <->
  (t = th /\ t_unit x' = u /\ t_pool x' = q /\ is_builtin_unit u = false) \/ (t <> th /\ UA l u q t).
Proof.
  unfold UA. rewrite zfind_zset. destruct (Z.eqb_spec t th) as [->|Hne].
  - split.
    + intros (x & E & ?). inversion E; subst. left; tauto.
    + intros [(_ & ?)|[? _]]; [|contradiction]. exists x'. tauto.
  - split; [intros H; right; auto|intros [[? _]|[_ H]]; [contradiction|auto]].
Qed.

Lemma UA_zdel l th u q t : UA (zdel l th) u q t <-> t <> th /\ UA l u q t.
Proof.
  unfold UA. rewrite zfind_zdel. destruct (Z.eqb_spec t th) as [->|Hne].
  - split; [intros (x & E & _); discriminate|intros [? _]; contradiction].
  - tauto.
Qed.

Lemma ThrInv_zset l th x' :
  ThrInv l -> thr_ok th x' ->
  (forall t x, t <> th -> zfind l t = Some x -> t_unit x <> t_unit x') ->
  ThrInv (zset l th x').
Proof.
  intros [K O I] Hok Hfresh. split.
  - apply zset_keys_nodup; auto.
  - intros t x. rewrite zfind_zset. destruct (Z.eqb_spec t th) as [->|]; [|apply O].
    intros E; inversion E; subst; auto.
  - intros t1 x1 t2 x2. rewrite !zfind_zset.
    destruct (Z.eqb_spec t1 th) as [->|N1], (Z.eqb_spec t2 th) as [->|N2]; auto.
    + intros E1 E2 Eu. inversion E1; subst. exfalso. apply (Hfresh _ _ N2 E2). auto.
    + intros E1 E2 Eu. inversion E2; subst. exfalso. apply (Hfresh _ _ N1 E1). auto.
    + apply I.
Qed.

Lemma ThrInv_zdel l th : ThrInv l -> ThrInv (zdel l th).
Proof.
  intros [K O I]. split.
  - apply zdel_keys_nodup; auto.
  - intros t x. rewrite zfind_zdel. destruct (Z.eqb_spec t th); [discriminate|apply O].
  - intros t1 x1 t2 x2. rewrite !zfind_zdel.
    destruct (Z.eqb_spec t1 th), (Z.eqb_spec t2 th); try discriminate. apply I.
Qed.

(* a built-in unit never collides with the unit of another thread *)
Lemma builtin_fresh l th t x :
  ThrInv l -> thread_ptr_ok th = true -> t <> th -> zfind l t = Some x ->
  t_unit x <> builtin_unit th.
Proof.
  intros [K O I] Hth Hne E Eu. destruct (O _ _ E) as [Ht Hx].
  destruct (thread_ptr_ok_even _ Hth) as [Eth _]. destruct (thread_ptr_ok_even _ Ht) as [Et _].
  rewrite Eu, (is_builtin_builtin_unit _ Eth) in Hx. destruct Hx as [Hx _].
  apply builtin_unit_inj in Hx; auto.
Qed.

Lemma unit_live_other_false s th u :
  unit_live_other s th u = false ->
  forall t x, t <> th -> zfind (a_thr s) t = Some x -> t_unit x <> u.
Proof.
  unfold unit_live_other. intros H t x Hne E Eu. apply zfind_some_in in E.
  assert (existsb (fun e : Z * thr => negb (fst e =? th) && (t_unit (snd e) =? u)) (a_thr s) = true).
  { apply existsb_exists. exists (t, x). split; auto. cbn.
    destruct (Z.eqb_spec t th); [contradiction|]. cbn. apply Z.eqb_eq. auto. }
  congruence.
Qed.

(* what the requirement on create_unit gives: NULL, or a non-NULL even handle
   that no OTHER work unit has *)
Lemma oracle_fresh s th o :
  oracle_ok s th o = true ->
  fst o = UNIT_NULL \/ (fst o <> UNIT_NULL /\ Z.even (fst o) = true /\
                forall t x, t <> th -> zfind (a_thr s) t = Some x -> t_unit x <> fst o).
Proof.
  unfold oracle_ok. destruct (Z.eqb_spec (fst o) UNIT_NULL) as [E|Hne]; cbn; auto.
  intros H. apply andb_true_iff in H. destruct H as [He Hl]. right. repeat split; auto.
  apply unit_live_other_false. destruct (unit_live_other s th (fst o)); [discriminate|reflexivity].
Qed.

(* ... hence a handle that nobody has when th itself has none (or a built-in one) *)
Lemma oracle_fresh_all s th cu :
  Z.even cu = true ->
  (forall t x, t <> th -> zfind (a_thr s) t = Some x -> t_unit x <> cu) ->
  (forall x, zfind (a_thr s) th = Some x -> t_unit x <> cu) ->
  forall t x, zfind (a_thr s) t = Some x -> t_unit x <> cu.
Proof.
  intros He Hoth Hown t x E. destruct (Z.eq_dec t th) as [->|Hne]; eauto.
Qed.

(* ---- the two helper sequences ---- *)

Lemma create_and_map_spec s p th cu ok R :
  rep (a_tbl s) R -> (cu = UNIT_NULL \/ (cu <> UNIT_NULL /\ forall t, ~ R cu t)) ->
  exists s1 nu code, create_and_map s p th (cu, ok) = (s1, nu, code) /\ a_thr s1 = a_thr s /\
   ((nu = Some cu /\ code = ABT_SUCCESS /\ cu <> UNIT_NULL /\ a_log s1 = CCreate p th cu :: a_log s /\
     rep (a_tbl s1) (fun u t => (u = cu /\ t = th) \/ R u t))
    \/ (nu = None /\ code = ABT_ERR_OTHER /\ cu = UNIT_NULL /\ a_tbl s1 = a_tbl s /\
        a_log s1 = CCreate p th UNIT_NULL :: a_log s)
    \/ (nu = None /\ code = ABT_ERR_MEM /\ cu <> UNIT_NULL /\ ok = false /\ a_tbl s1 = a_tbl s /\
        a_log s1 = CFree p cu :: CCreate p th cu :: a_log s)).
Proof.
  intros Hrep Hcu. unfold create_and_map.
  destruct (Z.eqb_spec cu UNIT_NULL) as [->|Hne].
  - do 3 eexists. split; [reflexivity|]. split; [reflexivity|]. right; left. repeat split; auto.
  - destruct Hcu as [?|[_ Hfresh]]; [contradiction|]. cbn [add_log a_tbl].
    destruct (tbl_map (a_tbl s) cu th ok) as [t' r] eqn:Em.
    assert (HR' : forall u' th', ((u' = cu /\ th' = th) \/ R u' th') <-> (u' = cu /\ th' = th) \/ R u' th') by tauto.
    destruct (rep_map _ _ _ _ _ _ _ _ Hrep Hne Hfresh HR' Em) as [[-> Hrep']|(-> & -> & ->)].
    + do 3 eexists. split; [reflexivity|]. split; [reflexivity|]. left.
      split; [reflexivity|]. split; [reflexivity|]. split; [auto|]. split; [reflexivity|]. exact Hrep'.
    + do 3 eexists. split; [reflexivity|]. split; [reflexivity|]. right; right. repeat split; auto.
Qed.

Lemma unmap_and_free_spec s oldpool u th R :
  rep (a_tbl s) R -> u <> UNIT_NULL -> R u th ->
  exists s1, unmap_and_free s oldpool u = Some s1 /\ a_thr s1 = a_thr s /\
             a_log s1 = CFree oldpool u :: a_log s /\
             rep (a_tbl s1) (fun u' t => R u' t /\ u' <> u).
Proof.
  intros Hrep Hu HR. unfold unmap_and_free.
  destruct (rep_unmap _ _ (fun u' t => R u' t /\ u' <> u) _ _ Hrep Hu HR) as (t' & -> & Hrep'); [tauto|].
  eexists. split; [reflexivity|]. cbn. auto.
Qed.

(* create_unit hands out the handle cu that th already has (R cu th): map, then
   unmap of the same key and free by the old pool; or the map fails *)
Lemma create_and_map_same_spec s p oldpool th cu ok R :
  rep (a_tbl s) R -> cu <> UNIT_NULL -> R cu th ->
  exists s1 nu code, create_and_map s p th (cu, ok) = (s1, nu, code) /\ a_thr s1 = a_thr s /\
   ((nu = Some cu /\ code = ABT_SUCCESS /\ tbl_get (a_tbl s1) cu = Some th /\
     exists s2, unmap_and_free s1 oldpool cu = Some s2 /\ a_thr s2 = a_thr s /\
                a_log s2 = CFree oldpool cu :: CCreate p th cu :: a_log s /\
                rep (a_tbl s2) R)
    \/ (nu = None /\ code = ABT_ERR_MEM /\ ok = false /\ a_tbl s1 = a_tbl s /\
        a_log s1 = CFree p cu :: CCreate p th cu :: a_log s)).
Proof.
  intros Hrep Hne HR. unfold create_and_map.
  destruct (Z.eqb_spec cu UNIT_NULL) as [|_]; [contradiction|]. cbn [add_log a_tbl].
  destruct (tbl_map (a_tbl s) cu th ok) as [t' r] eqn:Em.
  destruct (rep_remap_same _ _ _ _ _ _ _ Hrep Hne HR Em) as [(-> & Hg & t'' & Eu & Hrep'')|(-> & -> & ->)].
  - do 3 eexists. split; [reflexivity|]. split; [reflexivity|]. left.
    split; [reflexivity|]. split; [reflexivity|]. split; [exact Hg|].
    unfold unmap_and_free. cbn [set_tbl a_tbl]. rewrite Eu.
    eexists. split; [reflexivity|]. cbn. auto.
  - do 3 eexists. split; [reflexivity|]. split; [reflexivity|]. right. repeat split; auto.
Qed.

(* ---- facts about the current unit of a thread ---- *)

Lemma user_unit_facts l th x :
  ThrInv l -> zfind l th = Some x -> is_builtin_unit (t_unit x) = false ->
  t_unit x <> UNIT_NULL /\ bi (t_pool x) = false /\ UA l (t_unit x) (t_pool x) th /\
  (forall q t, UA l (t_unit x) q t -> t = th /\ q = t_pool x).
Proof.
  intros [K O I] E Hb. destruct (O _ _ E) as [_ Hx]. rewrite Hb in Hx. destruct Hx as [Hnz Hbi].
  repeat split; auto.
  - exists x. auto.
  - destruct H as (x' & E' & Eu & _ & _). eapply I; eauto.
  - destruct H as (x' & E' & Eu & Ep & _). assert (t = th) by (eapply I; eauto). subst.
    rewrite E in E'. inversion E'; subst; auto.
Qed.

(* the new state after a successful switch to unit [nu] in pool [p] *)
Lemma thr_ok_user th nu p :
  thread_ptr_ok th = true -> nu <> UNIT_NULL -> Z.even nu = true -> bi p = false -> thr_ok th (mkT nu p).
Proof.
  intros Hth Hnz He Hbi. split; auto. cbn. rewrite (is_builtin_even _ He). auto.
Qed.

Lemma thr_ok_builtin th p :
  thread_ptr_ok th = true -> bi p = true -> thr_ok th (mkT (builtin_unit th) p).
Proof.
  intros Hth Hbi. split; auto. cbn. destruct (thread_ptr_ok_even _ Hth) as [He _].
  rewrite (is_builtin_builtin_unit _ He). auto.
Qed.

(* ------------------------------------------------------------------ *)
(* generic rebuilding steps                                             *)
(* ------------------------------------------------------------------ *)

(* gain: thread th (absent, or with a built-in unit) gets the fresh user unit nu *)
Lemma Inv_gain s s1 th p nu :
  Inv s -> thread_ptr_ok th = true -> bi p = false ->
  nu <> UNIT_NULL -> Z.even nu = true ->
  (forall t x, zfind (a_thr s) t = Some x -> t_unit x <> nu) ->
  (forall x, zfind (a_thr s) th = Some x -> is_builtin_unit (t_unit x) = true) ->
  a_thr s1 = a_thr s -> a_log s1 = CCreate p th nu :: a_log s ->
  rep (a_tbl s1) (fun u t => (u = nu /\ t = th) \/ exists q, UA (a_thr s) u q t) ->
  Inv (set_thr s1 th (mkT nu p)).
Proof.
  intros [HT Htb Hlg] Hth Hbi Hnz He Hfresh Hold Ethr Elog Hrep.
  assert (HUA : forall u q t, UA (zset (a_thr s) th (mkT nu p)) u q t <->
                              (u = nu /\ q = p /\ t = th) \/ UA (a_thr s) u q t).
  { intros u q t. rewrite UA_zset. cbn. split.
    - intros [(-> & <- & <- & _)|[_ H]]; auto.
    - intros [(-> & -> & ->)|H].
      + left. repeat split; auto. apply is_builtin_even; auto.
      + destruct (Z.eq_dec t th) as [->|Hne]; [|right; auto].
        exfalso. destruct H as (x & E & Eu & _ & Hb). rewrite <- Eu in Hb.
        rewrite (Hold _ E) in Hb. discriminate. }
  split; cbn; rewrite Ethr.
  - apply ThrInv_zset; auto.
    + apply thr_ok_user; auto.
    + intros t x _ E. cbn. eapply Hfresh; eauto.
  - apply (rep_ext _ _ _ Hrep). intros u t. split.
    + intros [[-> ->]|[q H]]; [exists p|exists q]; apply HUA; auto.
    + intros [q H]. apply HUA in H. destruct H as [(-> & _ & ->)|H]; eauto.
  - rewrite Elog. eapply LogRel_create; eauto.
    intros q t (x & E & Eu & _). eapply Hfresh; eauto.
Qed.


(* lose: thread th gives up its user unit (freed) and takes its built-in unit *)
Lemma Inv_lose s s1 th x p :
  Inv s -> zfind (a_thr s) th = Some x -> is_builtin_unit (t_unit x) = false -> bi p = true ->
  a_thr s1 = a_thr s -> a_log s1 = CFree (t_pool x) (t_unit x) :: a_log s ->
  rep (a_tbl s1) (fun u t => (exists q, UA (a_thr s) u q t) /\ u <> t_unit x) ->
  Inv (set_thr s1 th (mkT (builtin_unit th) p)).
Proof.
  intros [HT Htb Hlg] E Hb Hbi Ethr Elog Hrep.
  destruct (user_unit_facts _ _ _ HT E Hb) as (Hnz & Hbo & Hua & Huniq).
  destruct (ti_ok _ HT _ _ E) as [Hth _].
  destruct (thread_ptr_ok_even _ Hth) as [Heven _].
  assert (HUA : forall u q t, UA (zset (a_thr s) th (mkT (builtin_unit th) p)) u q t <->
                              UA (a_thr s) u q t /\ u <> t_unit x).
  { intros u q t. rewrite UA_zset. cbn. split.
    - intros [(_ & <- & _ & Hb')|[Hne H]].
      + rewrite is_builtin_builtin_unit in Hb' by auto. discriminate.
      + split; auto. intros ->. apply Huniq in H. tauto.
    - intros [H Hne]. right. split; auto. intros ->.
      destruct H as (x' & E' & Eu & _). rewrite E in E'. inversion E'; subst. auto. }
  split; cbn; rewrite Ethr.
  - apply ThrInv_zset; auto.
    + apply thr_ok_builtin; auto.
    + intros t x' Hne E'. cbn. eapply builtin_fresh; eauto.
  - apply (rep_ext _ _ _ Hrep). intros u t. split.
    + intros [[q H] Hne]. exists q. apply HUA. auto.
    + intros [q H]. apply HUA in H. destruct H; eauto.
  - rewrite Elog. eapply LogRel_free; eauto.
Qed.

(* drop: the descriptor goes away (its user unit, if any, was freed) *)
Lemma Inv_drop_user s s1 th x :
  Inv s -> zfind (a_thr s) th = Some x -> is_builtin_unit (t_unit x) = false ->
  a_thr s1 = a_thr s -> a_log s1 = CFree (t_pool x) (t_unit x) :: a_log s ->
  rep (a_tbl s1) (fun u t => (exists q, UA (a_thr s) u q t) /\ u <> t_unit x) ->
  Inv (mkA (a_tbl s1) (zdel (a_thr s1) th) (a_log s1)).
Proof.
  intros [HT Htb Hlg] E Hb Ethr Elog Hrep.
  destruct (user_unit_facts _ _ _ HT E Hb) as (Hnz & Hbo & Hua & Huniq).
  assert (HUA : forall u q t, UA (zdel (a_thr s) th) u q t <-> UA (a_thr s) u q t /\ u <> t_unit x).
  { intros u q t. rewrite UA_zdel. split.
    - intros [Hne H]. split; auto. intros ->. apply Huniq in H. tauto.
    - intros [H Hne]. split; auto. intros ->.
      destruct H as (x' & E' & Eu & _). rewrite E in E'. inversion E'; subst. auto. }
  split; cbn; rewrite Ethr.
  - apply ThrInv_zdel; auto.
  - apply (rep_ext _ _ _ Hrep). intros u t. split.
    + intros [[q H] Hne]. exists q. apply HUA. auto.
    + intros [q H]. apply HUA in H. destruct H; eauto.
  - rewrite Elog. eapply LogRel_free; eauto.
Qed.

Lemma Inv_drop_builtin s th x :
  Inv s -> zfind (a_thr s) th = Some x -> is_builtin_unit (t_unit x) = true ->
  Inv (mkA (a_tbl s) (zdel (a_thr s) th) (a_log s)).
Proof.
  intros [HT Htb Hlg] E Hb.
  assert (HUA : forall u q t, UA (zdel (a_thr s) th) u q t <-> UA (a_thr s) u q t).
  { intros u q t. rewrite UA_zdel. split; [tauto|]. intros H. split; auto. intros ->.
    destruct H as (x' & E' & Eu & _ & Hb'). rewrite E in E'. inversion E'; subst. congruence. }
  split; cbn.
  - apply ThrInv_zdel; auto.
  - apply (rep_ext _ _ _ Htb). intros u t. split; intros [q H]; exists q; apply HUA; auto.
  - apply (LogRel_ext _ _ _ Hlg). intros. symmetry. apply HUA.
Qed.

(* retarget: a thread that is absent or has a built-in unit gets (built-in unit, pool p) *)
Lemma Inv_retarget s th p :
  Inv s -> thread_ptr_ok th = true -> bi p = true ->
  (forall x, zfind (a_thr s) th = Some x -> is_builtin_unit (t_unit x) = true) ->
  Inv (set_thr s th (mkT (builtin_unit th) p)).
Proof.
  intros [HT Htb Hlg] Hth Hbi Hold.
  destruct (thread_ptr_ok_even _ Hth) as [Heven _].
  assert (HUA : forall u q t, UA (zset (a_thr s) th (mkT (builtin_unit th) p)) u q t <-> UA (a_thr s) u q t).
  { intros u q t. rewrite UA_zset. cbn. split.
    - intros [(_ & <- & _ & Hb')|[Hne H]]; auto.
      rewrite is_builtin_builtin_unit in Hb' by auto. discriminate.
    - intros H. right. split; auto. intros ->.
      destruct H as (x' & E' & Eu & _ & Hb'). rewrite <- Eu, (Hold _ E') in Hb'. discriminate. }
  split; cbn.
  - apply ThrInv_zset; auto.
    + apply thr_ok_builtin; auto.
    + intros t x' Hne E'. cbn. eapply builtin_fresh; eauto.
  - apply (rep_ext _ _ _ Htb). intros u t. split; intros [q H]; exists q; apply HUA; auto.
  - apply (LogRel_ext _ _ _ Hlg). intros. symmetry. apply HUA.
Qed.

(* swap: user unit of th in pool (t_pool x) replaced by the fresh unit nu of pool p *)
Lemma Inv_swap s s2 th x p nu :
  Inv s -> zfind (a_thr s) th = Some x -> is_builtin_unit (t_unit x) = false -> bi p = false ->
  nu <> UNIT_NULL -> Z.even nu = true ->
  (forall t x', zfind (a_thr s) t = Some x' -> t_unit x' <> nu) ->
  a_thr s2 = a_thr s ->
  a_log s2 = CFree (t_pool x) (t_unit x) :: CCreate p th nu :: a_log s ->
  rep (a_tbl s2) (fun u t => ((u = nu /\ t = th) \/ exists q, UA (a_thr s) u q t) /\ u <> t_unit x) ->
  Inv (set_thr s2 th (mkT nu p)).
Proof.
  intros [HT Htb Hlg] E Hb Hbi Hnz He Hfresh Ethr Elog Hrep.
  destruct (user_unit_facts _ _ _ HT E Hb) as (Hnzo & Hbo & Hua & Huniq).
  destruct (ti_ok _ HT _ _ E) as [Hth _].
  assert (Hneq : nu <> t_unit x) by (intros ->; eapply Hfresh; eauto).
  assert (HUA : forall u q t, UA (zset (a_thr s) th (mkT nu p)) u q t <->
                 ((u = nu /\ q = p /\ t = th) \/ UA (a_thr s) u q t) /\ u <> t_unit x).
  { intros u q t. rewrite UA_zset. cbn. split.
    - intros [(-> & <- & <- & _)|[Hne H]].
      + split; auto.
      + split; auto. intros ->. apply Huniq in H. tauto.
    - intros [[(-> & -> & ->)|H] Hne].
      + left. repeat split; auto. apply is_builtin_even; auto.
      + right. split; auto. intros ->.
        destruct H as (x' & E' & Eu & _). rewrite E in E'. inversion E'; subst. auto. }
  split; cbn; rewrite Ethr.
  - apply ThrInv_zset; auto.
    + apply thr_ok_user; auto.
    + intros t x' _ E'. cbn. eapply Hfresh; eauto.
  - apply (rep_ext _ _ _ Hrep). intros u t. split.
    + intros [[[-> ->]|[q H]] Hne]; [exists p|exists q]; apply HUA; auto.
    + intros [q H]. apply HUA in H. destruct H as [[(-> & _ & ->)|H] Hne]; eauto.
  - rewrite Elog.
    apply (LogRel_free _ (fun u q t => (u = nu /\ q = p /\ t = th) \/ UA (a_thr s) u q t) _
                       (t_pool x) th (t_unit x)).
    + eapply LogRel_create; eauto; [|intros; tauto].
      intros q t (x' & E' & Eu & _). eapply Hfresh; eauto.
    + auto.
    + intros u q t. apply HUA.
Qed.

(* move with the same handle: th keeps its unit, now for pool p; the old pool
   has freed it (table back to what it represented) *)
Lemma Inv_move_same s s2 th x p :
  Inv s -> zfind (a_thr s) th = Some x -> is_builtin_unit (t_unit x) = false -> bi p = false ->
  t_pool x <> p ->
  a_thr s2 = a_thr s ->
  a_log s2 = CFree (t_pool x) (t_unit x) :: CCreate p th (t_unit x) :: a_log s ->
  rep (a_tbl s2) (fun u t => exists q, UA (a_thr s) u q t) ->
  Inv (set_thr s2 th (mkT (t_unit x) p)).
Proof.
  intros [HT Htb Hlg] E Hb Hbi Hnp Ethr Elog Hrep.
  destruct (user_unit_facts _ _ _ HT E Hb) as (Hnzo & Hbo & Hua & Huniq).
  destruct (ti_ok _ HT _ _ E) as [Hth _].
  assert (HUA : forall u q t, UA (zset (a_thr s) th (mkT (t_unit x) p)) u q t <->
                 (u = t_unit x /\ q = p /\ t = th) \/ (UA (a_thr s) u q t /\ u <> t_unit x)).
  { intros u q t. rewrite UA_zset. cbn. split.
    - intros [(-> & <- & <- & _)|[Hne H]]; auto.
      right. split; auto. intros ->. apply Huniq in H. tauto.
    - intros [(-> & -> & ->)|[H Hne]].
      + left. repeat split; auto.
      + right. split; auto. intros ->.
        destruct H as (x' & E' & Eu & _). rewrite E in E'. inversion E'; subst. auto. }
  split; cbn; rewrite Ethr.
  - apply ThrInv_zset; auto.
    + split; auto. cbn. rewrite Hb. auto.
    + intros t x' Hne E' Eu. cbn in Eu. apply Hne. eapply (ti_inj _ HT); eauto.
  - apply (rep_ext _ _ _ Hrep). intros u t. split.
    + intros [q H]. destruct (Z.eq_dec u (t_unit x)) as [->|Hne].
      * apply Huniq in H. destruct H as [-> _]. exists p. apply HUA. auto.
      * exists q. apply HUA. auto.
    + intros [q H]. apply HUA in H. destruct H as [(-> & _ & ->)|[H _]]; eauto.
  - rewrite Elog. eapply LogRel_move_same; eauto.
Qed.

(* noise: a failed attempt only adds balanced entries to the log *)
Lemma Inv_noise s s1 :
  Inv s -> a_thr s1 = a_thr s -> a_tbl s1 = a_tbl s -> LogRel (a_log s1) (UA (a_thr s)) -> Inv s1.
Proof.
  intros [HT Htb Hlg] Ethr Etbl HL. split; rewrite ?Ethr, ?Etbl; auto.
Qed.

(* ------------------------------------------------------------------ *)
(* the four functions                                                   *)
(* ------------------------------------------------------------------ *)

Lemma tbl_fresh s cu :
  Inv s -> (forall t x, zfind (a_thr s) t = Some x -> t_unit x <> cu) ->
  forall t, ~ (exists p, UA (a_thr s) cu p t).
Proof. intros _ H t (p & x & E & Eu & _). eapply H; eauto. Qed.

(* shared part of the three "create a unit for th in user pool p" sites when
   th has no user unit *)
Lemma gain_step s th p o :
  Inv s -> thread_ptr_ok th = true -> bi p = false -> oracle_ok s th o = true ->
  (forall x, zfind (a_thr s) th = Some x -> is_builtin_unit (t_unit x) = true) ->
  exists s1 nu code, create_and_map s p th o = (s1, nu, code) /\
    match nu with
    | Some u => code = ABT_SUCCESS /\ Inv (set_thr s1 th (mkT u p))
    | None => code <> ABT_SUCCESS /\ Inv s1 /\ a_thr s1 = a_thr s /\ a_tbl s1 = a_tbl s
    end.
Proof.
  intros HI Hth Hbi Hor Hold. destruct o as [cu ok].
  destruct (oracle_fresh _ _ _ Hor) as [E0|(Hnz & He & Hoth)]; cbn [fst] in *.
  - subst cu.
    destruct (create_and_map_spec s p th UNIT_NULL ok _ (inv_tbl _ HI) (or_introl eq_refl))
      as (s1 & nu & code & E & Ethr & [H|[H|H]]).
    + destruct H as (_ & _ & ? & _); congruence.
    + destruct H as (-> & -> & _ & Etbl & Elog). do 3 eexists. split; [exact E|].
      split; [discriminate|]. split; auto. eapply Inv_noise; eauto.
      rewrite Elog. apply LogRel_create_null. apply (inv_log _ HI).
    + destruct H as (_ & _ & ? & _); congruence.
  - (* th has no user unit: the handle is nobody's *)
    assert (Hfresh : forall t x, zfind (a_thr s) t = Some x -> t_unit x <> cu).
    { apply (oracle_fresh_all s th cu He Hoth). intros x Ex Eu.
      pose proof (Hold _ Ex) as Hb. rewrite Eu, (is_builtin_even _ He) in Hb. discriminate. }
    assert (HfR : forall t, ~ (exists q, UA (a_thr s) cu q t)) by (apply tbl_fresh; auto).
    destruct (create_and_map_spec s p th cu ok _ (inv_tbl _ HI) (or_intror (conj Hnz HfR)))
      as (s1 & nu & code & E & Ethr & [H|[H|H]]).
    + destruct H as (-> & -> & _ & Elog & Hrep). do 3 eexists. split; [exact E|].
      split; auto. eapply Inv_gain; eauto.
    + destruct H as (_ & _ & ? & _); congruence.
    + destruct H as (-> & -> & _ & _ & Etbl & Elog). do 3 eexists. split; [exact E|].
      split; [discriminate|]. split; auto. eapply Inv_noise; eauto.
      rewrite Elog. apply LogRel_create_free; auto. apply (inv_log _ HI).
      intros q t (x & E' & Eu & _). eapply Hfresh; eauto.
Qed.

(* shared part of the two user -> user sites *)
Lemma swap_step s th x p o :
  Inv s -> zfind (a_thr s) th = Some x -> is_builtin_unit (t_unit x) = false ->
  bi p = false -> t_pool x <> p -> oracle_ok s th o = true ->
  exists s1 nu code, create_and_map s p th o = (s1, nu, code) /\
    match nu with
    | Some u => code = ABT_SUCCESS /\
                exists s2, unmap_and_free s1 (t_pool x) (t_unit x) = Some s2 /\
                           Inv (set_thr s2 th (mkT u p))
    | None => code <> ABT_SUCCESS /\ Inv s1 /\ a_thr s1 = a_thr s /\ a_tbl s1 = a_tbl s
    end.
Proof.
  intros HI E Hb Hbi Hnp Hor. destruct o as [cu ok].
  destruct (user_unit_facts _ _ _ (inv_thr _ HI) E Hb) as (Hnzo & Hbo & Hua & Huniq).
  destruct (oracle_fresh _ _ _ Hor) as [E0|(Hnz & He & Hoth)]; cbn [fst] in *.
  - subst cu.
    destruct (create_and_map_spec s p th UNIT_NULL ok _ (inv_tbl _ HI) (or_introl eq_refl))
      as (s1 & nu & code & E1 & Ethr & [H|[H|H]]).
    + destruct H as (_ & _ & ? & _); congruence.
    + destruct H as (-> & -> & _ & Etbl & Elog). do 3 eexists. split; [exact E1|].
      split; [discriminate|]. split; auto. eapply Inv_noise; eauto.
      rewrite Elog. apply LogRel_create_null. apply (inv_log _ HI).
    + destruct H as (_ & _ & ? & _); congruence.
  - destruct (Z.eq_dec cu (t_unit x)) as [->|Hdiff].
    + (* same-handle move: the new pool hands out the handle th already has *)
      destruct (create_and_map_same_spec s p (t_pool x) th (t_unit x) ok _ (inv_tbl _ HI) Hnzo
                  (ex_intro _ (t_pool x) Hua))
        as (s1 & nu & code & E1 & Ethr & [H|H]).
      * destruct H as (-> & -> & _ & s2 & E2 & Ethr2 & Elog2 & Hrep2).
        do 3 eexists. split; [exact E1|]. split; auto.
        exists s2. split; auto. eapply Inv_move_same; eauto.
      * destruct H as (-> & -> & _ & Etbl & Elog). do 3 eexists. split; [exact E1|].
        split; [discriminate|]. split; auto. eapply Inv_noise; eauto.
        rewrite Elog. eapply LogRel_create_free_same; eauto. apply (inv_log _ HI).
    + (* a handle that nobody has *)
      assert (Hfresh : forall t x', zfind (a_thr s) t = Some x' -> t_unit x' <> cu).
      { apply (oracle_fresh_all s th cu He Hoth). intros x' Ex'. rewrite E in Ex'. inversion Ex'; subst. auto. }
      assert (HfR : forall t, ~ (exists q, UA (a_thr s) cu q t)) by (apply tbl_fresh; auto).
      destruct (create_and_map_spec s p th cu ok _ (inv_tbl _ HI) (or_intror (conj Hnz HfR)))
        as (s1 & nu & code & E1 & Ethr & [H|[H|H]]).
      * destruct H as (-> & -> & _ & Elog & Hrep). do 3 eexists. split; [exact E1|].
        split; auto.
        destruct (unmap_and_free_spec s1 (t_pool x) (t_unit x) th _ Hrep Hnzo) as (s2 & E2 & Ethr2 & Elog2 & Hrep2).
        { right. eauto. }
        exists s2. split; auto. eapply Inv_swap; eauto.
        -- congruence.
        -- rewrite Elog2, Elog. reflexivity.
      * destruct H as (_ & _ & ? & _); congruence.
      * destruct H as (-> & -> & _ & _ & Etbl & Elog). do 3 eexists. split; [exact E1|].
        split; [discriminate|]. split; auto. eapply Inv_noise; eauto.
        rewrite Elog. apply LogRel_create_free; auto. apply (inv_log _ HI).
        intros q t (x' & E' & Eu & _). eapply Hfresh; eauto.
Qed.

Lemma lose_step s th x oldunused :
  Inv s -> zfind (a_thr s) th = Some x -> is_builtin_unit (t_unit x) = false ->
  oldunused = tt ->
  exists s1, unmap_and_free s (t_pool x) (t_unit x) = Some s1 /\ a_thr s1 = a_thr s /\
             a_log s1 = CFree (t_pool x) (t_unit x) :: a_log s /\
             rep (a_tbl s1) (fun u t => (exists q, UA (a_thr s) u q t) /\ u <> t_unit x).
Proof.
  intros HI E Hb _.
  destruct (user_unit_facts _ _ _ (inv_thr _ HI) E Hb) as (Hnzo & Hbo & Hua & Huniq).
  apply (unmap_and_free_spec s (t_pool x) (t_unit x) th _ (inv_tbl _ HI) Hnzo). eauto.
Qed.

Theorem init_pool_Inv s th p o :
  Inv s -> apre s (AInit th p o) = true ->
  exists s' c, thread_init_pool bi s th p o = Some (s', c) /\ Inv s' /\
               (c <> ABT_SUCCESS -> a_thr s' = a_thr s /\ a_tbl s' = a_tbl s).
Proof.
  intros HI Hpre. cbn in Hpre.
  destruct (zfind (a_thr s) th) eqn:Ef; [rewrite andb_false_r in Hpre; discriminate|].
  rewrite andb_true_r in Hpre. apply andb_true_iff in Hpre. destruct Hpre as [Hth Hor].
  unfold thread_init_pool. destruct (bi p) eqn:Hbi.
  - do 2 eexists. split; [reflexivity|]. split; [|intros C; exfalso; apply C; reflexivity].
    apply Inv_retarget; auto. intros x E. congruence.
  - destruct (gain_step s th p o HI Hth Hbi Hor) as (s1 & nu & code & E & H).
    { intros x Ex. congruence. }
    rewrite E. destruct nu as [u|].
    + destruct H as [-> HI']. do 2 eexists. split; [reflexivity|]. split; auto;
      try (intros C; exfalso; apply C; reflexivity).
    + destruct H as (Hc & HI' & Et & Eb). do 2 eexists. split; [reflexivity|]. auto.
Qed.

Theorem set_associated_pool_Inv s th p o :
  Inv s -> apre s (ASet th p o) = true ->
  exists s' c, thread_set_associated_pool bi s th p o = Some (s', c) /\ Inv s' /\
               (c <> ABT_SUCCESS -> a_thr s' = a_thr s /\ a_tbl s' = a_tbl s).
Proof.
  intros HI Hpre. cbn in Hpre. apply andb_true_iff in Hpre. destruct Hpre as [Hor Hf].
  unfold thread_set_associated_pool.
  destruct (zfind (a_thr s) th) as [x|] eqn:Ef; [|discriminate].
  destruct (ti_ok _ (inv_thr _ HI) _ _ Ef) as [Hth Hx].
  destruct (is_builtin_unit (t_unit x)) eqn:Hb; cbn [andb].
  - destruct Hx as [Eu Hbo]. destruct (bi p) eqn:Hbi.
    + do 2 eexists. split; [reflexivity|]. split; [|intros C; exfalso; apply C; reflexivity].
      rewrite Eu. apply Inv_retarget; auto. intros x' E'. congruence.
    + destruct (gain_step s th p o HI Hth Hbi Hor) as (s1 & nu & code & E & H).
      { intros x' Ex. congruence. }
      rewrite E. destruct nu as [u|].
      * destruct H as [-> HI']. do 2 eexists. split; [reflexivity|]. split; auto;
        try (intros C; exfalso; apply C; reflexivity).
      * destruct H as (Hc & HI' & Et & Eb). do 2 eexists. split; [reflexivity|]. auto.
  - destruct (bi p) eqn:Hbi.
    + destruct (lose_step s th x tt HI Ef Hb eq_refl) as (s1 & -> & Ethr & Elog & Hrep).
      do 2 eexists. split; [reflexivity|]. split; [|intros C; exfalso; apply C; reflexivity].
      eapply Inv_lose; eauto.
    + destruct (Z.eqb_spec (t_pool x) p) as [Ep|Hnp].
      * do 2 eexists. split; [reflexivity|]. split; auto; try (intros C; exfalso; apply C; reflexivity).
      * destruct (swap_step s th x p o HI Ef Hb Hbi Hnp Hor) as (s1 & nu & code & E & H).
        rewrite E. destruct nu as [u|].
        -- destruct H as (-> & s2 & -> & HI'). do 2 eexists. split; [reflexivity|]. split; auto;
           try (intros C; exfalso; apply C; reflexivity).
        -- destruct H as (Hc & HI' & Et & Eb). do 2 eexists. split; [reflexivity|]. auto.
Qed.

(* ABTI_unit_set_associated_pool finds the same work unit and then does what
   ABTI_thread_set_associated_pool does *)
Theorem unit_set_eq_thread_set s th x p o :
  Inv s -> zfind (a_thr s) th = Some x ->
  unit_set_associated_pool bi s (t_unit x) p o =
  match thread_set_associated_pool bi s th p o with
  | Some (s', c) => Some (s', c, if c =? ABT_SUCCESS then th else 0)
  | None => None
  end.
Proof.
  intros HI Ef. unfold unit_set_associated_pool, thread_set_associated_pool. rewrite Ef.
  destruct (ti_ok _ (inv_thr _ HI) _ _ Ef) as [Hth Hx].
  destruct (thread_ptr_ok_even _ Hth) as [Heven _].
  destruct (is_builtin_unit (t_unit x)) eqn:Hb; cbn [andb].
  - destruct Hx as [Eu Hbo]. rewrite Eu, thread_of_builtin_unit by auto. rewrite Ef, <- Eu.
    destruct (bi p); [reflexivity|].
    destruct (create_and_map s p th o) as [[s1 [nu|]] code] eqn:E; [reflexivity|].
    unfold create_and_map in E. destruct o as [cu ok].
    destruct (cu =? UNIT_NULL); [inversion E; reflexivity|].
    destruct (tbl_map (a_tbl (add_log s (CCreate p th cu))) cu th ok) as [t' [|]]; inversion E; reflexivity.
  - destruct (user_unit_facts _ _ _ (inv_thr _ HI) Ef Hb) as (Hnzo & Hbo & Hua & Huniq).
    rewrite (rep_get _ _ _ th (inv_tbl _ HI) Hnzo) by eauto. rewrite Ef.
    destruct (bi p).
    + destruct (unmap_and_free s (t_pool x) (t_unit x)); reflexivity.
    + destruct (t_pool x =? p); [reflexivity|].
      destruct (create_and_map s p th o) as [[s1 [nu|]] code] eqn:E.
      * destruct (unmap_and_free s1 (t_pool x) (t_unit x)); reflexivity.
      * unfold create_and_map in E. destruct o as [cu ok].
        destruct (cu =? UNIT_NULL); [inversion E; reflexivity|].
        destruct (tbl_map (a_tbl (add_log s (CCreate p th cu))) cu th ok) as [t' [|]]; inversion E; reflexivity.
Qed.

Theorem unset_associated_pool_Inv s th :
  Inv s -> apre s (AUnset th) = true ->
  exists s', thread_unset_associated_pool s th = Some s' /\ Inv s'.
Proof.
  intros HI Hpre. cbn in Hpre. unfold thread_unset_associated_pool.
  destruct (zfind (a_thr s) th) as [x|] eqn:Ef; [|discriminate].
  destruct (is_builtin_unit (t_unit x)) eqn:Hb; cbn [negb].
  - eexists. split; [reflexivity|]. eapply Inv_drop_builtin; eauto.
  - destruct (lose_step s th x tt HI Ef Hb eq_refl) as (s1 & -> & Ethr & Elog & Hrep).
    eexists. split; [reflexivity|]. eapply Inv_drop_user; eauto.
Qed.

Theorem get_thread_correct s th x :
  Inv s -> zfind (a_thr s) th = Some x -> unit_get_thread s (t_unit x) = Some th.
Proof.
  intros HI Ef. unfold unit_get_thread.
  destruct (ti_ok _ (inv_thr _ HI) _ _ Ef) as [Hth Hx].
  destruct (thread_ptr_ok_even _ Hth) as [Heven _].
  destruct (is_builtin_unit (t_unit x)) eqn:Hb.
  - destruct Hx as [-> _]. rewrite thread_of_builtin_unit; auto.
  - destruct (user_unit_facts _ _ _ (inv_thr _ HI) Ef Hb) as (Hnzo & Hbo & Hua & Huniq).
    apply (rep_get _ _ _ th (inv_tbl _ HI) Hnzo). eauto.
Qed.

(* ------------------------------------------------------------------ *)
(* the same-handle move                                                 *)
(* ------------------------------------------------------------------ *)
(* the handle a work unit has is the handle of no other work unit *)
Lemma own_unit_not_live_other s th x :
  Inv s -> zfind (a_thr s) th = Some x -> unit_live_other s th (t_unit x) = false.
Proof.
  intros HI Ef. unfold unit_live_other.
  destruct (existsb _ (a_thr s)) eqn:Ee; auto. exfalso.
  apply existsb_exists in Ee. destruct Ee as ([t x'] & Hin & Hc). cbn in Hc.
  apply andb_true_iff in Hc. destruct Hc as [Hne Heq].
  apply Z.eqb_eq in Heq. apply (in_zfind _ _ _ (ti_keys _ (inv_thr _ HI))) in Hin.
  assert (t = th) by (eapply (ti_inj _ (inv_thr _ HI)); eauto). subst.
  rewrite Z.eqb_refl in Hne. discriminate.
Qed.

(* Work unit th of user pool (t_pool x) is moved to another user pool p whose
   create_unit hands out the handle th already has.  The call respects the
   contract ([apre]), no assertion fires, and
   - on success: th keeps its handle, now for pool p; the log gained exactly
     create_unit by p and free_unit by the old pool; the handle still
     translates to th; its bucket holds it in exactly one cell;
   - a failing malloc (possible only when the bucket has no tombstone) leaves
     table and fields as they were, p having freed the handle at once. *)
Theorem same_handle_move s th x p ok :
  Inv s -> zfind (a_thr s) th = Some x -> is_builtin_unit (t_unit x) = false ->
  bi p = false -> t_pool x <> p ->
  apre s (ASet th p (t_unit x, ok)) = true /\
  exists s' c, thread_set_associated_pool bi s th p (t_unit x, ok) = Some (s', c) /\ Inv s' /\
    ((c = ABT_SUCCESS /\ a_thr s' = zset (a_thr s) th (mkT (t_unit x) p) /\
      a_log s' = CFree (t_pool x) (t_unit x) :: CCreate p th (t_unit x) :: a_log s /\
      unit_get_thread s' (t_unit x) = Some th /\
      key_count (nth_bucket (a_tbl s') (slot (t_unit x))) (t_unit x) = 1%nat)
     \/ (c = ABT_ERR_MEM /\ ok = false /\ a_thr s' = a_thr s /\ a_tbl s' = a_tbl s /\
         a_log s' = CFree p (t_unit x) :: CCreate p th (t_unit x) :: a_log s)).
Proof.
  intros HI Ef Hb Hbi Hnp.
  destruct (user_unit_facts _ _ _ (inv_thr _ HI) Ef Hb) as (Hnzo & Hbo & Hua & Huniq).
  split.
  - cbn. rewrite Ef. unfold oracle_ok. cbn [fst].
    rewrite (not_builtin_even _ Hb), (own_unit_not_live_other _ _ _ HI Ef).
    cbn. rewrite orb_true_r. reflexivity.
  - unfold thread_set_associated_pool. rewrite Ef, Hb, Hbi. cbn [andb].
    destruct (Z.eqb_spec (t_pool x) p) as [|_]; [contradiction|].
    destruct (create_and_map_same_spec s p (t_pool x) th (t_unit x) ok _ (inv_tbl _ HI) Hnzo
                (ex_intro _ (t_pool x) Hua))
      as (s1 & nu & code & E1 & Ethr & [H|H]).
    + destruct H as (-> & -> & _ & s2 & E2 & Ethr2 & Elog2 & Hrep2).
      rewrite E1, E2.
      assert (HI' : Inv (set_thr s2 th (mkT (t_unit x) p))) by (eapply Inv_move_same; eauto).
      do 2 eexists. split; [reflexivity|]. split; [exact HI'|]. left.
      assert (Ef' : zfind (a_thr (set_thr s2 th (mkT (t_unit x) p))) th = Some (mkT (t_unit x) p))
        by (cbn; rewrite zfind_zset, Z.eqb_refl; reflexivity).
      split; [reflexivity|]. split; [cbn; rewrite Ethr2; reflexivity|].
      split; [exact Elog2|]. split.
      * apply (get_thread_correct _ _ _ HI' Ef').
      * destruct (inv_tbl _ HI') as [_ Hbk].
        pose proof (Hbk (slot (t_unit x)) (slot_lt (t_unit x))) as Hbr.
        eapply (bucket_rep_key_count _ _ _ _ th Hbr Hnzo).
        apply (proj2 Hbr); auto. split; auto.
        exists p, (mkT (t_unit x) p). cbn [t_unit t_pool]. repeat split; auto.
    + destruct H as (-> & -> & -> & Etbl & Elog). rewrite E1.
      do 2 eexists. split; [reflexivity|]. split.
      * eapply Inv_noise; eauto. rewrite Elog.
        eapply LogRel_create_free_same; eauto. apply (inv_log _ HI).
      * right. repeat split; auto.
Qed.

(* one operation: never aborts, keeps the invariant, get returns the thread *)
Theorem astep_Inv s o :
  Inv s -> apre s o = true ->
  exists s' r, astep bi s o = Some (s', r) /\ Inv s' /\
    match o, r with
    | AGet th, ARthread th' => th' = th
    | AGet _, _ => False
    | (AInit _ _ _ | ASet _ _ _), ARcode c => c <> ABT_SUCCESS -> a_thr s' = a_thr s /\ a_tbl s' = a_tbl s
    | AUSet th _ _, ARcode_thread c r => (c <> ABT_SUCCESS -> a_thr s' = a_thr s /\ a_tbl s' = a_tbl s) /\
                                        (c = ABT_SUCCESS -> r = th)
    | AUnset _, ARnone => True
    | _, _ => False
    end.
Proof.
  intros HI Hpre. destruct o as [th p o|th p o|th p o|th|th]; cbn [astep].
  - destruct (init_pool_Inv _ _ _ _ HI Hpre) as (s' & c & -> & HI' & Hf). eauto.
  - destruct (set_associated_pool_Inv _ _ _ _ HI Hpre) as (s' & c & -> & HI' & Hf). eauto.
  - assert (Hpre' := Hpre). cbn in Hpre. apply andb_true_iff in Hpre. destruct Hpre as [Hor Hf].
    destruct (zfind (a_thr s) th) as [x|] eqn:Ef; [|discriminate].
    rewrite (unit_set_eq_thread_set _ _ _ _ _ HI Ef).
    destruct (set_associated_pool_Inv s th p o HI) as (s' & c & -> & HI' & Hfa).
    { cbn. rewrite Hor, Ef. reflexivity. }
    do 2 eexists. split; [reflexivity|]. split; auto. split; auto.
    intros ->. reflexivity.
  - destruct (unset_associated_pool_Inv _ _ HI Hpre) as (s' & -> & HI'). eauto.
  - cbn in Hpre. destruct (zfind (a_thr s) th) as [x|] eqn:Ef; [|discriminate].
    rewrite (get_thread_correct _ _ _ HI Ef). eauto.
Qed.

Theorem arun_Inv : forall ops s, Inv s ->
  match arun bi s ops with
  | Ok (s', rs) => Inv s' /\ length rs = length ops
  | Misuse => True
  | Abort => False
  | Wrong => False
  end.
Proof.
  induction ops as [|o ops IH]; intros s HI; cbn [arun]; auto.
  destruct (apre s o) eqn:Hpre; cbn [negb]; auto.
  destruct (astep_Inv _ _ HI Hpre) as (s' & r & -> & HI' & _).
  specialize (IH s' HI'). destruct (arun bi s' ops) as [[s'' rs]| | |]; auto.
  cbn. intuition.
Qed.


(* ------------------------------------------------------------------ *)
(* failure atomicity, for every state (no invariant needed)             *)
(* ------------------------------------------------------------------ *)

(* what a failed attempt leaves behind: the same table and thread fields,
   and one of the two balanced log suffixes *)
Definition failed_attempt (s s' : astate) (p th : Z) (o : Z * bool) (c : Z) : Prop :=
  a_thr s' = a_thr s /\ a_tbl s' = a_tbl s /\
  ((c = ABT_ERR_OTHER /\ fst o = UNIT_NULL /\ a_log s' = CCreate p th UNIT_NULL :: a_log s) \/
   (c = ABT_ERR_MEM /\ fst o <> UNIT_NULL /\ snd o = false /\
    a_log s' = CFree p (fst o) :: CCreate p th (fst o) :: a_log s)).

Lemma create_and_map_cases s p th o s1 nu code :
  create_and_map s p th o = (s1, nu, code) ->
  match nu with
  | Some u => code = ABT_SUCCESS
  | None => failed_attempt s s1 p th o code
  end.
Proof.
  unfold create_and_map, failed_attempt. destruct o as [cu ok]. cbn [fst snd].
  destruct (Z.eqb_spec cu UNIT_NULL) as [->|Hne].
  - intros E; inversion E; subst. cbn. auto 6.
  - destruct (tbl_map (a_tbl (add_log s (CCreate p th cu))) cu th ok) as [t' r] eqn:Em.
    destruct r; intros E; inversion E; subst; auto. cbn in *.
    pose proof (tbl_map_fail _ _ _ _ _ Em) as ->.
    repeat split; auto. right. repeat split; auto.
    unfold tbl_map, bucket_map in Em.
    destruct (bucket_reuse (nth_bucket (a_tbl s) (slot cu)) cu th); [inversion Em|].
    destruct ok; [inversion Em|reflexivity].
Qed.

Theorem init_pool_failure_atomic s th p o s' c :
  thread_init_pool bi s th p o = Some (s', c) -> c <> ABT_SUCCESS -> failed_attempt s s' p th o c.
Proof.
  unfold thread_init_pool. destruct (bi p).
  - intros E; inversion E; subst. intros C; exfalso; apply C; reflexivity.
  - destruct (create_and_map s p th o) as [[s1 [nu|]] code] eqn:E1;
      pose proof (create_and_map_cases _ _ _ _ _ _ _ E1) as H; cbn in H;
      intros E; inversion E; subst; auto.
    intros C; exfalso; apply C; reflexivity.
Qed.

Theorem set_associated_pool_failure_atomic s th p o s' c :
  thread_set_associated_pool bi s th p o = Some (s', c) -> c <> ABT_SUCCESS ->
  failed_attempt s s' p th o c.
Proof.
  unfold thread_set_associated_pool. destruct (zfind (a_thr s) th) as [x|]; [|discriminate].
  assert (Hs : forall s0, Some (s0, ABT_SUCCESS) = Some (s', c) -> c <> ABT_SUCCESS -> failed_attempt s s' p th o c).
  { intros s0 E; inversion E; subst. intros C; exfalso; apply C; reflexivity. }
  destruct (is_builtin_unit (t_unit x) && bi p); [apply Hs|].
  destruct (is_builtin_unit (t_unit x)).
  - destruct (create_and_map s p th o) as [[s1 [nu|]] code] eqn:E1;
      pose proof (create_and_map_cases _ _ _ _ _ _ _ E1) as H; cbn in H; [apply Hs|].
    intros E; inversion E; subst; auto.
  - destruct (bi p).
    + destruct (unmap_and_free s (t_pool x) (t_unit x)); [apply Hs|discriminate].
    + destruct (t_pool x =? p); [apply Hs|].
      destruct (create_and_map s p th o) as [[s1 [nu|]] code] eqn:E1;
        pose proof (create_and_map_cases _ _ _ _ _ _ _ E1) as H; cbn in H.
      * destruct (unmap_and_free s1 (t_pool x) (t_unit x)); [apply Hs|discriminate].
      * intros E; inversion E; subst; auto.
Qed.

Theorem unit_set_associated_pool_failure_atomic s u p o s' c r :
  unit_set_associated_pool bi s u p o = Some (s', c, r) -> c <> ABT_SUCCESS ->
  exists th, failed_attempt s s' p th o c /\ r = 0.
Proof.
  unfold unit_set_associated_pool.
  assert (Hs : forall s0 r0, Some (s0, ABT_SUCCESS, r0) = Some (s', c, r) -> c <> ABT_SUCCESS ->
                 exists th0, failed_attempt s s' p th0 o c /\ r = 0).
  { intros s0 r0 E; inversion E; subst. intros C; exfalso; apply C; reflexivity. }
  destruct (is_builtin_unit u).
  - destruct (zfind (a_thr s) (thread_of_builtin u)) as [x|]; [|discriminate].
    destruct (bi p); [apply Hs|].
    destruct (create_and_map s p (thread_of_builtin u) o) as [[s1 [nu|]] code] eqn:E1;
      pose proof (create_and_map_cases _ _ _ _ _ _ _ E1) as H; cbn in H; [apply Hs|].
    intros E; inversion E; subst; eauto.
  - destruct (tbl_get (a_tbl s) u) as [th|]; [|discriminate].
    destruct (zfind (a_thr s) th) as [x|]; [|discriminate].
    destruct (bi p).
    + destruct (unmap_and_free s (t_pool x) u); [apply Hs|discriminate].
    + destruct (t_pool x =? p); [apply Hs|].
      destruct (create_and_map s p th o) as [[s1 [nu|]] code] eqn:E1;
        pose proof (create_and_map_cases _ _ _ _ _ _ _ E1) as H; cbn in H.
      * destruct (unmap_and_free s1 (t_pool x) u); [apply Hs|discriminate].
      * intros E; inversion E; subst; eauto.
Qed.

(* ------------------------------------------------------------------ *)
(* the association relation as a function of the state                  *)
(* ------------------------------------------------------------------ *)

Lemma user_assoc_UA l u p th o :
  ThrInv l -> (user_assoc l u = Some (p, th, o) <-> (o = None /\ UA l u p th)).
Proof.
  intros [K O I]. unfold user_assoc.
  destruct (find (fun e : Z * thr => (t_unit (snd e) =? u) && negb (is_builtin_unit u)) l)
    as [[th' x']|] eqn:Ef.
  - apply find_some in Ef. destruct Ef as [Hin Hf]. cbn in Hf.
    apply andb_true_iff in Hf. destruct Hf as [Hu Hb]. apply Z.eqb_eq in Hu.
    apply negb_true_iff in Hb. apply (in_zfind _ _ _ K) in Hin.
    split.
    + intros E; inversion E; subst. split; auto. exists x'. auto.
    + intros [-> (x & E & Eu & Ep & _)]. assert (th = th') by (eapply I; eauto; congruence). subst.
      rewrite Hin in E. inversion E; subst. reflexivity.
  - split; [discriminate|]. intros [_ (x & E & Eu & Ep & Hb)]. exfalso.
    apply zfind_some_in in E. pose proof (find_none _ _ Ef _ E) as Hf. cbn in Hf.
    rewrite Eu, Z.eqb_refl, Hb in Hf. discriminate.
Qed.

Theorem Inv_log_function s :
  Inv s -> exists f, replay (a_log s) = Some f /\ forall u, f u = user_assoc (a_thr s) u.
Proof.
  intros [HT _ (f & E & H)]. exists f. split; auto. intros u.
  destruct (f u) as [[[p th] o]|] eqn:Ef.
  - symmetry. apply user_assoc_UA; auto. apply H. auto.
  - destruct (user_assoc (a_thr s) u) as [[[p th] o]|] eqn:Eu; auto.
    apply user_assoc_UA in Eu; auto. apply H in Eu. congruence.
Qed.

(* with no descriptor left nothing is live: every created unit was freed *)
Corollary Inv_all_freed s :
  Inv s -> a_thr s = [] -> exists f, replay (a_log s) = Some f /\ forall u, f u = None.
Proof.
  intros HI E. destruct (Inv_log_function s HI) as (f & Ef & H). exists f. split; auto.
  intros u. rewrite H, E. reflexivity.
Qed.

Corollary Inv_finalize_ok s : Inv s -> a_thr s = [] -> tbl_all_tombstones (a_tbl s) = true.
Proof.
  intros HI E. destruct (inv_tbl _ HI) as [Hlen H]. unfold tbl_all_tombstones.
  apply forallb_forall. intros b Hb. apply forallb_forall. intros [cu cth] Hc. cbn.
  apply Z.eqb_eq. destruct (Z.eq_dec cu UNIT_NULL) as [|Hne]; auto. exfalso.
  apply In_nth with (d := []) in Hb. destruct Hb as (i & Hi & <-).
  assert (Hi' : (i < 256)%nat) by (rewrite <- Hlen; exact Hi).
  destruct (H i Hi') as [_ Hbk]. apply (Hbk cu cth Hne) in Hc.
  destruct Hc as [(p & x & Ef & _) _]. rewrite E in Ef. discriminate.
Qed.

End AssocProofs.
