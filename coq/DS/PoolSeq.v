(* C07 — sequential model of the built-in pools: src/pool/fifo.c,
   src/pool/fifo_wait.c, src/pool/randws.c and the public entry points of
   src/pool/pool.c that reach them.  Model only (executable, extracted).

   "Sequential" = one caller at a time (what a private pool sees always, and
   what a shared pool sees when calls do not overlap).  The interleaved
   semantics of the same functions is Conc/PoolConc.v.

   Outcomes: [Ret x] normal return, [Fault] = NULL dereference in the queue
   code, [Hang] = the call never returns (a spin/lock loop whose exit condition
   can only be established by another thread). *)
From Coq Require Import List Arith Bool NArith.
From ABT Require Import DS.ThreadQueue.
Import ListNotations.

Inductive kind := FIFO | FIFO_WAIT | RANDWS.
(* ABT_pool_access; SPSC..MPMC all select the *_shared functions *)
Inductive access := PRIV | SPSC | MPSC | SPMC | MPMC.
Definition is_priv (a : access) : bool := match a with PRIV => true | _ => false end.

(* struct data (fifo.c:45, randws.c:51: ABTD_spinlock mutex + queue;
   fifo_wait.c:34: pthread mutex + cond + queue).  [p_lock] = the lock word
   (spinlock value / pthread mutex held). *)
Record pool := mkPool { p_kind : kind; p_access : access; p_lock : bool; p_queue : tq }.
Definition set_lock (p : pool) (l : bool) := mkPool (p_kind p) (p_access p) l (p_queue p).
Definition set_queue (p : pool) (q : tq) := mkPool (p_kind p) (p_access p) (p_lock p) q.

(* pool_init (fifo.c:106, randws.c:112, fifo_wait.c:73).  data_t comes from
   ABTU_malloc (uninitialised); FIFO and RANDWS clear the spinlock only
   "if (access != ABT_POOL_ACCESS_PRIV)", so for a private pool the lock word
   keeps whatever malloc returned: [garbage]. *)
Definition pool_init (k : kind) (a : access) (garbage : bool) : pool :=
  mkPool k a
    (match k with
     | FIFO_WAIT => false                          (* pthread_mutex_init *)
     | _ => if is_priv a then garbage else false   (* ABTD_spinlock_clear unless PRIV *)
     end)
    tq_init.

Inductive res (A : Type) := Ret (a : A) | Fault | Hang.
Arguments Ret {A} a. Arguments Fault {A}. Arguments Hang {A}.
Definition rbind {A B} (a : res A) (f : A -> res B) : res B :=
  match a with Ret x => f x | Fault => Fault | Hang => Hang end.
Notation "x <~ a ;; b" := (rbind a (fun x => b)) (at level 61, a at next level, right associativity).
Definition of_opt {A} (o : option A) : res A := match o with Some x => Ret x | None => Fault end.

(* ABT_pool_context decoding (randws.c:45-49) *)
Definition POOL_CONTEXT_PUSH_HEAD : N := 61440.   (* 0x1000|0x2000|0x4000|0x8000: CREATE, CREATE_TO, REVIVE, REVIVE_TO *)
Definition POOL_CONTEXT_POP_TAIL : N := 512.      (* 0x200: ABT_POOL_CONTEXT_OWNER_SECONDARY *)
Definition ctx_push_head (ctx : N) : bool := negb (N.eqb (N.land ctx POOL_CONTEXT_PUSH_HEAD) 0).
Definition ctx_pop_tail (ctx : N) : bool := negb (N.eqb (N.land ctx POOL_CONTEXT_POP_TAIL) 0).

(* which end a push / pop of this kind uses; FIFO and FIFO_WAIT ignore the
   context ("(void)context") *)
Definition push_at_head (k : kind) (ctx : N) : bool :=
  match k with RANDWS => ctx_push_head ctx | _ => false end.
Definition pop_at_tail (k : kind) (ctx : N) : bool :=
  match k with RANDWS => ctx_pop_tail ctx | _ => false end.

(* ABTD_spinlock_acquire / pthread_mutex_lock by the only running thread *)
Definition lock_acquire (p : pool) : res pool :=
  if p_lock p then Hang else Ret (set_lock p true).
Definition lock_release (p : pool) : pool := set_lock p false.

Definition q_push (k : kind) (ctx : N) (q : tq) (h : heap) (t : id) : res (tq * heap) :=
  of_opt (if push_at_head k ctx then tq_push_head q h t else tq_push_tail q h t).
Definition q_pop (k : kind) (ctx : N) (q : tq) (h : heap) : res (tq * heap * ptr) :=
  of_opt (if pop_at_tail k ctx then tq_pop_tail q h else tq_pop_head q h).

(* ---- p_push: fifo.c pool_push_shared/private, randws.c idem, fifo_wait.c pool_push *)
Definition pool_push (p : pool) (h : heap) (t : id) (ctx : N) : res (pool * heap) :=
  match p_kind p, is_priv (p_access p) with
  | FIFO_WAIT, _ | _, false =>
      p <~ lock_acquire p ;;
      r <~ q_push (p_kind p) ctx (p_queue p) h t ;;     (* + pthread_cond_signal for FIFO_WAIT *)
      Ret (lock_release (set_queue p (fst r)), snd r)
  | _, true =>
      r <~ q_push (p_kind p) ctx (p_queue p) h t ;;
      Ret (set_queue p (fst r), snd r)
  end.

Fixpoint q_push_list (k : kind) (ctx : N) (q : tq) (h : heap) (ts : list id) : res (tq * heap) :=
  match ts with
  | [] => Ret (q, h)
  | t :: ts' => r <~ q_push k ctx q h t ;; q_push_list k ctx (fst r) (snd r) ts'
  end.

(* ---- p_push_many *)
Definition pool_push_many (p : pool) (h : heap) (ts : list id) (ctx : N) : res (pool * heap) :=
  match p_kind p, is_priv (p_access p) with
  | FIFO_WAIT, _ | _, false =>
      match ts with
      | [] => Ret (p, h)                                   (* if (num_units > 0) *)
      | _ =>
        p <~ lock_acquire p ;;
        r <~ q_push_list (p_kind p) ctx (p_queue p) h ts ;; (* + cond signal/broadcast *)
        Ret (lock_release (set_queue p (fst r)), snd r)
      end
  | _, true =>
      r <~ q_push_list (p_kind p) ctx (p_queue p) h ts ;;
      Ret (set_queue p (fst r), snd r)
  end.

(* ---- p_pop *)
Definition pool_pop (p : pool) (h : heap) (ctx : N) : res (pool * heap * ptr) :=
  match p_kind p, is_priv (p_access p) with
  | FIFO_WAIT, _ =>
      (* fifo_wait.c pool_pop: unlocked emptiness test, then mutex section *)
      if negb (tq_is_empty (p_queue p)) then
        p <~ lock_acquire p ;;
        r <~ q_pop FIFO_WAIT ctx (p_queue p) h ;;
        let '(q, h, t) := r in Ret (lock_release (set_queue p q), h, t)
      else Ret (p, h, None)
  | k, false =>
      (* pool_pop_shared *)
      match tq_acquire_spinlock_if_not_empty (p_queue p) (p_lock p) with
      | None => Hang
      | Some (l, 0) =>
          let p := set_lock p l in
          r <~ q_pop k ctx (p_queue p) h ;;
          let '(q, h, t) := r in Ret (lock_release (set_queue p q), h, t)
      | Some (l, _) => Ret (set_lock p l, h, None)
      end
  | k, true =>
      (* pool_pop_private *)
      r <~ q_pop k ctx (p_queue p) h ;;
      let '(q, h, t) := r in Ret (set_queue p q, h, t)
  end.

(* the pop_many loop body: "for (i < max) { p = pop; if (!p) break; threads[i] = p }" *)
Fixpoint q_pop_list (k : kind) (ctx : N) (q : tq) (h : heap) (max : nat) : res (tq * heap * list id) :=
  match max with
  | 0 => Ret (q, h, [])
  | S max' =>
    r <~ q_pop k ctx q h ;;
    let '(q, h, t) := r in
    match t with
    | None => Ret (q, h, [])
    | Some x =>
      r' <~ q_pop_list k ctx q h max' ;;
      let '(q, h, l) := r' in Ret (q, h, x :: l)
    end
  end.

(* ---- p_pop_many; the list is threads[0..*num_popped) *)
Definition pool_pop_many (p : pool) (h : heap) (max : nat) (ctx : N) : res (pool * heap * list id) :=
  match p_kind p, is_priv (p_access p) with
  | FIFO_WAIT, _ =>
      if negb (Nat.eqb max 0) && negb (tq_is_empty (p_queue p)) then
        p <~ lock_acquire p ;;
        r <~ q_pop_list FIFO_WAIT ctx (p_queue p) h max ;;
        let '(q, h, l) := r in Ret (lock_release (set_queue p q), h, l)
      else Ret (p, h, [])
  | k, false =>
      if negb (Nat.eqb max 0) then
        match tq_acquire_spinlock_if_not_empty (p_queue p) (p_lock p) with
        | None => Hang
        | Some (l, 0) =>
            let p := set_lock p l in
            r <~ q_pop_list k ctx (p_queue p) h max ;;
            let '(q, h, l) := r in Ret (lock_release (set_queue p q), h, l)
        | Some (l, _) => Ret (set_lock p l, h, [])
        end
      else Ret (p, h, [])
  | k, true =>
      r <~ q_pop_list k ctx (p_queue p) h max ;;
      let '(q, h, l) := r in Ret (set_queue p q, h, l)
  end.

(* one iteration of the FIFO / RANDWS pop_wait and pop_timedwait loops:
     if (acquire_spinlock_if_not_empty == 0) { p = pop; release; if (p) return p }
   (used for every access mode, PRIV included: these two functions are not
   specialised by access) *)
Definition spin_attempt (p : pool) (h : heap) (k : kind) (ctx : N) : res (pool * heap * ptr) :=
  match tq_acquire_spinlock_if_not_empty (p_queue p) (p_lock p) with
  | None => Hang
  | Some (l, 0) =>
      let p := set_lock p l in
      r <~ q_pop k ctx (p_queue p) h ;;
      let '(q, h, t) := r in Ret (lock_release (set_queue p q), h, t)
  | Some (l, _) => Ret (set_lock p l, h, None)
  end.

(* iterations after the first one; [n] = how many more times the clock test
   says "not yet" *)
Fixpoint spin_wait_loop (n : nat) (p : pool) (h : heap) (k : kind) (ctx : N) : res (pool * heap * ptr) :=
  r <~ spin_attempt p h k ctx ;;
  let '(p, h, t) := r in
  match t with
  | Some _ => Ret (p, h, t)
  | None => match n with
            | 0 => Ret (p, h, None)                   (* elapsed > time_secs / wtime > abstime *)
            | S n' => spin_wait_loop n' p h k ctx     (* nanosleep; again *)
            end
  end.

(* ---- p_pop_wait.  [n] = number of extra polling rounds before the timeout
   is observed (the result does not depend on it when nobody else runs). *)
Definition pool_pop_wait (p : pool) (h : heap) (ctx : N) (n : nat) : res (pool * heap * ptr) :=
  match p_kind p with
  | FIFO_WAIT =>
      (* fifo_wait.c pool_pop_wait: lock; if (is_empty) cond_timedwait; pop_head; unlock *)
      p <~ lock_acquire p ;;
      (* pthread_cond_timedwait: releases and re-acquires the mutex, no one signals *)
      r <~ q_pop FIFO_WAIT ctx (p_queue p) h ;;
      let '(q, h, t) := r in Ret (lock_release (set_queue p q), h, t)
  | k =>
      (* fifo.c / randws.c pool_pop_wait: the first failed round only records
         time_start (time_start == 0.0), later rounds test the clock *)
      r <~ spin_attempt p h k ctx ;;
      let '(p, h, t) := r in
      match t with
      | Some _ => Ret (p, h, t)
      | None => spin_wait_loop n p h k ctx
      end
  end.

(* ---- deprecated p_pop_timedwait: always pops the head, RANDWS included
   (randws.c:262 has no context) *)
Definition pool_pop_timedwait (p : pool) (h : heap) (n : nat) : res (pool * heap * ptr) :=
  match p_kind p with
  | FIFO_WAIT =>
      p <~ lock_acquire p ;;
      r <~ q_pop FIFO_WAIT 0%N (p_queue p) h ;;
      let '(q, h, t) := r in Ret (lock_release (set_queue p q), h, t)
  | _ => spin_wait_loop n p h FIFO 0%N
  end.

(* ---- deprecated p_remove; result true = ABT_SUCCESS, false = ABT_ERR_POOL *)
Definition pool_remove (p : pool) (h : heap) (t : id) : res (pool * heap * bool) :=
  match p_kind p, is_priv (p_access p) with
  | FIFO_WAIT, _ =>
      (* fifo_wait.c pool_remove: two unlocked checks first *)
      if tq_is_empty (p_queue p) then Ret (p, h, false)
      else if negb (h_inpool h t) then Ret (p, h, false)
      else
        p <~ lock_acquire p ;;
        r <~ of_opt (tq_remove (p_queue p) h t) ;;
        let '(q, h, ok) := r in Ret (lock_release (set_queue p q), h, ok)
  | _, false =>
      p <~ lock_acquire p ;;
      r <~ of_opt (tq_remove (p_queue p) h t) ;;
      let '(q, h, ok) := r in Ret (lock_release (set_queue p q), h, ok)
  | _, true =>
      r <~ of_opt (tq_remove (p_queue p) h t) ;;
      let '(q, h, ok) := r in Ret (set_queue p q, h, ok)
  end.

(* ------------------------------------------------------------------ pool.c *)
(* public calls; a thread/unit handle argument is a [ptr] (None =
   ABT_THREAD_NULL / ABT_UNIT_NULL) *)
Inductive op :=
| OPushThread (t : ptr) (ctx : N)            (* ABT_pool_push_thread[_ex] *)
| OPushThreads (ts : list ptr) (ctx : N)     (* ABT_pool_push_threads[_ex] *)
| OPopThread (ctx : N)                       (* ABT_pool_pop_thread[_ex] *)
| OPopThreads (len : nat) (ctx : N)          (* ABT_pool_pop_threads[_ex] *)
| OPopWaitThread (ctx : N)                   (* ABT_pool_pop_wait_thread[_ex] *)
| OLPush (u : ptr)                           (* ABT_pool_push (unit) *)
| OLPop                                      (* ABT_pool_pop *)
| OLPopWait                                  (* ABT_pool_pop_wait *)
| OLPopTimedwait                             (* ABT_pool_pop_timedwait *)
| OLRemove (u : id)                          (* ABT_pool_remove *)
| OGetSize | OGetTotalSize | OIsEmpty.

Definition ABT_SUCCESS := 0.
Definition ABT_ERR_INV_UNIT := 15.
Definition ABT_ERR_POOL := 34.

Inductive result :=
| RCode (c : nat)
| RUnit (c : nat) (t : ptr)                  (* *thread / *p_unit *)
| RUnits (num : option nat) (l : list id)    (* *num (None = not written) and threads[0..num) *)
| RSize (n : nat)
| RBool (b : bool).

Fixpoint filter_some (l : list ptr) : list id :=
  match l with
  | [] => []
  | None :: l' => filter_some l'
  | Some x :: l' => x :: filter_some l'
  end.

(* [wn] = extra polling rounds of the timed calls *)
Definition pool_step (wn : nat) (p : pool) (h : heap) (o : op) : res (pool * heap * result) :=
  match o with
  | OPushThread None _ => Ret (p, h, RCode ABT_SUCCESS)       (* pool_push_thread_ex: if (p_thread) *)
  | OPushThread (Some t) ctx =>
      r <~ pool_push p h t ctx ;; Ret (fst r, snd r, RCode ABT_SUCCESS)
  | OPushThreads ts ctx =>
      (* pool_push_threads_ex: NULL handles skipped; push_many only if num_units > 0 *)
      match filter_some ts with
      | [] => Ret (p, h, RCode ABT_SUCCESS)
      | us => r <~ pool_push_many p h us ctx ;; Ret (fst r, snd r, RCode ABT_SUCCESS)
      end
  | OPopThread ctx =>
      r <~ pool_pop p h ctx ;; let '(p, h, t) := r in Ret (p, h, RUnit ABT_SUCCESS t)
  | OPopThreads len ctx =>
      (* pool_pop_threads_ex: "if (len > 0)" — *num untouched for len = 0 *)
      if Nat.eqb len 0 then Ret (p, h, RUnits None [])
      else r <~ pool_pop_many p h len ctx ;;
           let '(p, h, l) := r in Ret (p, h, RUnits (Some (length l)) l)
  | OPopWaitThread ctx =>
      r <~ pool_pop_wait p h ctx wn ;; let '(p, h, t) := r in Ret (p, h, RUnit ABT_SUCCESS t)
  | OLPush None => Ret (p, h, RCode ABT_ERR_INV_UNIT)
  | OLPush (Some t) =>
      r <~ pool_push p h t 0%N ;; Ret (fst r, snd r, RCode ABT_SUCCESS)
  | OLPop =>
      r <~ pool_pop p h 0%N ;; let '(p, h, t) := r in Ret (p, h, RUnit ABT_SUCCESS t)
  | OLPopWait =>
      r <~ pool_pop_wait p h 0%N wn ;; let '(p, h, t) := r in Ret (p, h, RUnit ABT_SUCCESS t)
  | OLPopTimedwait =>
      r <~ pool_pop_timedwait p h wn ;; let '(p, h, t) := r in Ret (p, h, RUnit ABT_SUCCESS t)
  | OLRemove u =>
      r <~ pool_remove p h u ;;
      let '(p, h, ok) := r in Ret (p, h, RCode (if ok then ABT_SUCCESS else ABT_ERR_POOL))
  | OGetSize => Ret (p, h, RSize (tq_get_size (p_queue p)))
  | OGetTotalSize => Ret (p, h, RSize (tq_get_size (p_queue p) + 0))   (* + num_blocked, never changed by pool calls *)
  | OIsEmpty => Ret (p, h, RBool (tq_is_empty (p_queue p)))
  end.

(* run a call sequence; stops at the first Fault / Hang and reports which.
   The trace keeps the state after every call (for the white-box comparison). *)
Inductive stop := Finished | Faulted | Hung.
Fixpoint pool_run (wn : nat) (p : pool) (h : heap) (ops : list op)
  : list (result * pool * heap) * stop :=
  match ops with
  | [] => ([], Finished)
  | o :: ops' =>
    match pool_step wn p h o with
    | Ret (p', h', r) =>
        let (tr, st) := pool_run wn p' h' ops' in ((r, p', h') :: tr, st)
    | Fault => ([], Faulted)
    | Hang => ([], Hung)
    end
  end.
