(* C14 — model of the unit -> work-unit table of src/unit.c and of the
   association functions of src/include/abti_unit.h.  Model code only (no
   proofs); everything here is executable and extracted (Extract_C14.v).

   Representation choices (the places where a model could be "tidier than the
   code" are spelled out):
   * ABT_unit handles and ABTI_thread pointers are integers (Z addresses).
     ABT_UNIT_NULL is the integer 7: in the active configuration abt.h has
     ABT_NULL == 0 and the null handles are the small constants 0x01..0x15
     (ABT_UNIT_NULL = (ABT_unit)0x07), NOT the null pointer.  A cell whose unit
     field is 7 is a tombstone.  (An [option] would make "map of the NULL
     handle" unrepresentable; here it is representable and is excluded by an
     explicit precondition.)  Note that bit 0 of ABT_UNIT_NULL is set, so a
     handle with bit 0 clear is never ABT_UNIT_NULL, and that a user
     create_unit returning the null POINTER 0 hands out a valid handle.
     The harness prints the constant, the driver prints this one (case "N").
   * A bucket (ABTI_unit_to_thread_entry.list) is a NULL-terminated singly
     linked chain of unit_to_thread cells; p_next is written once, before the
     cell is published, and no cell is ever unlinked or freed before
     finalize.  Such a chain is exactly a list: head of the list = the cell
     the entry's list pointer designates.  (The pointer-level version with an
     explicit heap and next fields is Conc/UnitMapConc.v.)
   * a cell keeps its stale p_thread when it is tombstoned (unmap only
     overwrites the unit field); the model keeps it too, and the harness
     dumps it.
   * malloc may fail: [ok : bool] is the outcome of ABTU_malloc, consulted
     only on the path that really allocates.
   * the user pool's create_unit is an oracle: the value it returns is an
     input of the operation. *)
From Coq Require Import List ZArith Bool.
From ABT Require Import Common.ListAux.
Import ListNotations.
Local Open Scope Z_scope.

(* ------------------------------------------------------------------ *)
(* unit.c : unit_get_hash_index                                         *)
(* ------------------------------------------------------------------ *)

Definition UNIT_NULL : Z := 7.                   (* ABT_UNIT_NULL, see above *)
Arguments UNIT_NULL : simpl never.
Definition TABLE_SIZE_EXP : Z := 8.              (* ABTI_UNIT_HASH_TABLE_SIZE_EXP *)
Definition TABLE_SIZE : Z := 256.                (* 1 << 8 *)
Definition WORD : Z := 18446744073709551616.     (* 2^64: size_t arithmetic *)

(* size_t val = (uintptr_t)unit;
   size_t base_val = val >> 3;
   base_val += val >> (EXP + 3);          (EXP <= 14)
   base_val += val >> (EXP * 2 + 3);      (EXP <= 9)
   return base_val & (SIZE - 1);
   every += is a size_t addition: modelled with an explicit wrap. *)
Definition hash_index (u : Z) : Z :=
  let val := u in
  let b0 := Z.shiftr val 3 in
  let b1 := (b0 + Z.shiftr val (TABLE_SIZE_EXP + 3)) mod WORD in
  let b2 := (b1 + Z.shiftr val (TABLE_SIZE_EXP * 2 + 3)) mod WORD in
  Z.land b2 (TABLE_SIZE - 1).

(* ------------------------------------------------------------------ *)
(* unit.c : the table                                                   *)
(* ------------------------------------------------------------------ *)

(* struct unit_to_thread { atomic_unit unit; ABTI_thread *p_thread; p_next } *)
Definition cell := (Z * Z)%type.
Definition bucket := list cell.
Definition table := list bucket.

Definition tbl_init : table := repeat [] (Z.to_nat TABLE_SIZE).  (* unit_init_hash_table *)

(* unit_map_thread, first loop: walk from the head; the first cell whose unit
   is ABT_UNIT_NULL gets unit := u, p_thread := th.  None = loop fell through. *)
Fixpoint bucket_reuse (b : bucket) (u th : Z) : option bucket :=
  match b with
  | [] => None
  | (cu, cth) :: b' =>
      if cu =? UNIT_NULL then Some ((u, th) :: b')
      else match bucket_reuse b' u th with
           | Some b'' => Some ((cu, cth) :: b'')
           | None => None
           end
  end.

(* unit_map_thread: reuse, else ABTU_malloc; on failure nothing changes and
   the error is returned; otherwise the new cell becomes the head. *)
Definition bucket_map (b : bucket) (u th : Z) (ok : bool) : bucket * bool :=
  match bucket_reuse b u th with
  | Some b' => (b', true)
  | None => if ok then ((u, th) :: b, true) else (b, false)
  end.

(* unit_unmap_thread: walk from the head; the first cell whose unit == u gets
   unit := ABT_UNIT_NULL (p_thread is left as it is).  None = the walk reached
   NULL: ABTI_ASSERT(p_cur) fails (or NULL is dereferenced for an empty
   bucket). *)
Fixpoint bucket_unmap (b : bucket) (u : Z) : option bucket :=
  match b with
  | [] => None
  | (cu, cth) :: b' =>
      if cu =? u then Some ((UNIT_NULL, cth) :: b')
      else match bucket_unmap b' u with
           | Some b'' => Some ((cu, cth) :: b'')
           | None => None
           end
  end.

(* unit_get_thread_from_user_defined_unit: first cell whose unit == u; None =
   ABTI_ASSERT(p_cur) fails. *)
Fixpoint bucket_get (b : bucket) (u : Z) : option Z :=
  match b with
  | [] => None
  | (cu, cth) :: b' => if cu =? u then Some cth else bucket_get b' u
  end.

Definition slot (u : Z) : nat := Z.to_nat (hash_index u).
Definition nth_bucket (t : table) (i : nat) : bucket := nth i t [].

Definition tbl_map (t : table) (u th : Z) (ok : bool) : table * bool :=
  let i := slot u in
  let (b, r) := bucket_map (nth_bucket t i) u th ok in (upd_nth t i b, r).

Definition tbl_unmap (t : table) (u : Z) : option table :=
  let i := slot u in
  match bucket_unmap (nth_bucket t i) u with
  | Some b => Some (upd_nth t i b)
  | None => None
  end.

Definition tbl_get (t : table) (u : Z) : option Z :=
  bucket_get (nth_bucket t (slot u)) u.

(* unit_finalize_hash_table asserts that every cell is a tombstone *)
Definition tbl_all_tombstones (t : table) : bool :=
  forallb (fun b => forallb (fun c : cell => fst c =? UNIT_NULL) b) t.

(* ---- table-level operations, run in lock step with the specification map
   (association list, newest binding first) ---- *)

Inductive outcome (A : Type) :=
| Ok (a : A)
| Misuse      (* the caller broke a documented precondition *)
| Abort       (* an ABTI_ASSERT of the C code fires / NULL is dereferenced *)
| Wrong.      (* a result differs from the specification *)
Arguments Ok {A}. Arguments Misuse {A}. Arguments Abort {A}. Arguments Wrong {A}.

Definition smap := list (Z * Z).
Fixpoint sget (m : smap) (u : Z) : option Z :=
  match m with
  | [] => None
  | (k, v) :: m' => if k =? u then Some v else sget m' u
  end.
Fixpoint sdel (m : smap) (u : Z) : smap :=
  match m with
  | [] => []
  | (k, v) :: m' => if k =? u then sdel m' u else (k, v) :: sdel m' u
  end.
Definition sset (m : smap) (u v : Z) : smap := (u, v) :: sdel m u.

Inductive top :=
| TMap (u th : Z) (ok : bool)
| TUnmap (u : Z)
| TGet (u : Z).

Inductive tres :=
| TRmap (success : bool)
| TRunmap
| TRget (th : Z).

(* documented preconditions of the three functions *)
Definition tpre (m : smap) (o : top) : bool :=
  match o with
  | TMap u th ok =>
      negb (u =? UNIT_NULL) && Z.even u &&
      match sget m u with None => true | Some _ => false end
  | TUnmap u | TGet u =>
      match sget m u with Some _ => true | None => false end
  end.

Definition tstep (t : table) (o : top) : option (table * tres) :=
  match o with
  | TMap u th ok => let (t', r) := tbl_map t u th ok in Some (t', TRmap r)
  | TUnmap u => match tbl_unmap t u with Some t' => Some (t', TRunmap) | None => None end
  | TGet u => match tbl_get t u with Some th => Some (t, TRget th) | None => None end
  end.

(* what the specification map allows / becomes *)
Definition tpost (m : smap) (o : top) (r : tres) : option smap :=
  match o, r with
  | TMap u th ok, TRmap true => Some (sset m u th)
  | TMap u th ok, TRmap false => if ok then None else Some m
  | TUnmap u, TRunmap => Some (sdel m u)
  | TGet u, TRget th => match sget m u with
                        | Some th' => if th' =? th then Some m else None
                        | None => None
                        end
  | _, _ => None
  end.

Fixpoint trun (t : table) (m : smap) (ops : list top) : outcome (table * smap * list tres) :=
  match ops with
  | [] => Ok (t, m, [])
  | o :: ops' =>
      if negb (tpre m o) then Misuse else
      match tstep t o with
      | None => Abort
      | Some (t', r) =>
          match tpost m o r with
          | None => Wrong
          | Some m' =>
              match trun t' m' ops' with
              | Ok (t'', m'', rs) => Ok (t'', m'', r :: rs)
              | Misuse => Misuse | Abort => Abort | Wrong => Wrong
              end
          end
      end
  end.

(* the same run without the specification (used by the driver: the
   implementation model alone, whatever the inputs) *)
Fixpoint trun_raw (t : table) (ops : list top) : table * list (option tres) :=
  match ops with
  | [] => (t, [])
  | o :: ops' =>
      match tstep t o with
      | None => (t, [None])
      | Some (t', r) => let (t'', rs) := trun_raw t' ops' in (t'', Some r :: rs)
      end
  end.

(* ------------------------------------------------------------------ *)
(* abti_unit.h : built-in units and the association functions           *)
(* ------------------------------------------------------------------ *)

Definition ABT_SUCCESS : Z := 0.
Definition ABT_ERR_MEM : Z := 2.
Definition ABT_ERR_OTHER : Z := 3.

(* ABTI_unit_is_builtin: ((uintptr_t)unit) & 0x1 *)
Definition is_builtin_unit (u : Z) : bool := negb (Z.land u 1 =? 0).
(* ABTI_unit_get_builtin_unit: ((uintptr_t)p_thread) | 0x1 *)
Definition builtin_unit (th : Z) : Z := Z.lor th 1.
(* ABTI_unit_get_thread_from_builtin_unit: unit & ~0x1 *)
Definition thread_of_builtin (u : Z) : Z := Z.land u (-2).

(* calls made to the user's pool functions, newest first.  CPush / CPop are
   emitted by the API-level model (DS/UnitApi.v) only. *)
Inductive call :=
| CCreate (p th ret : Z)    (* ret = p_create_unit(pool p, thread th) *)
| CFree (p u : Z)           (* p_free_unit(pool p, u) *)
| CPush (p u : Z)           (* p_push(pool p, u) *)
| CPop (p u : Z).           (* p_pop(pool p) handed out u *)

(* the two ABTI_thread fields the functions read and write *)
Record thr := mkT { t_unit : Z; t_pool : Z }.

Record astate := mkA {
  a_tbl : table;
  a_thr : list (Z * thr);     (* thread pointer -> fields; no duplicate keys *)
  a_log : list call           (* newest first *)
}.

Fixpoint zfind {A} (l : list (Z * A)) (k : Z) : option A :=
  match l with
  | [] => None
  | (k', v) :: l' => if k' =? k then Some v else zfind l' k
  end.
Fixpoint zdel {A} (l : list (Z * A)) (k : Z) : list (Z * A) :=
  match l with
  | [] => []
  | (k', v) :: l' => if k' =? k then zdel l' k else (k', v) :: zdel l' k
  end.
(* overwrite in place if present, else append (keeps a canonical order) *)
Fixpoint zset {A} (l : list (Z * A)) (k : Z) (v : A) : list (Z * A) :=
  match l with
  | [] => [(k, v)]
  | (k', v') :: l' => if k' =? k then (k, v) :: l' else (k', v') :: zset l' k v
  end.

Definition init_state : astate := mkA tbl_init [] [].

Definition set_thr (s : astate) (th : Z) (x : thr) : astate :=
  mkA (a_tbl s) (zset (a_thr s) th x) (a_log s).
Definition add_log (s : astate) (c : call) : astate :=
  mkA (a_tbl s) (a_thr s) (c :: a_log s).
Definition set_tbl (s : astate) (t : table) : astate :=
  mkA t (a_thr s) (a_log s).

Section Assoc.
(* p_pool->is_builtin *)
Variable bi : Z -> bool.

(* The five-line sequence that occurs at five places of abti_unit.h
   (ABTI_thread_init_pool; builtin->user and user->user branches of
   ABTI_thread_set_associated_pool and of ABTI_unit_set_associated_pool):
     new_unit = p_pool->required_def.p_create_unit(pool, thread);
     if (new_unit == ABT_UNIT_NULL) return ABT_ERR_OTHER;
     ret = ABTI_unit_map_thread(p_global, new_unit, p_thread);
     if (ret != ABT_SUCCESS) { p_free_unit(pool, new_unit); return ret; }
   [cu] is the value create_unit returns, [ok] the outcome of malloc.
   Result: state, Some new_unit on success / None on error, error code. *)
Definition create_and_map (s : astate) (p th : Z) (o : Z * bool) : astate * option Z * Z :=
  let (cu, ok) := o in
  let s1 := add_log s (CCreate p th cu) in
  if cu =? UNIT_NULL then (s1, None, ABT_ERR_OTHER)
  else
    let (t', r) := tbl_map (a_tbl s1) cu th ok in
    if r then (set_tbl s1 t', Some cu, ABT_SUCCESS)
    else (add_log s1 (CFree p cu), None, ABT_ERR_MEM).

(* ABTI_unit_unmap_thread(unit); p_thread->p_pool->p_free_unit(old_pool, unit) *)
Definition unmap_and_free (s : astate) (oldpool u : Z) : option astate :=
  match tbl_unmap (a_tbl s) u with
  | None => None
  | Some t' => Some (add_log (set_tbl s t') (CFree oldpool u))
  end.

(* ABTI_thread_init_pool(p_global, p_thread, p_pool) on a fresh descriptor *)
Definition thread_init_pool (s : astate) (th p : Z) (o : Z * bool) : option (astate * Z) :=
  if bi p then Some (set_thr s th (mkT (builtin_unit th) p), ABT_SUCCESS)
  else
    match create_and_map s p th o with
    | (s1, Some nu, _) => Some (set_thr s1 th (mkT nu p), ABT_SUCCESS)
    | (s1, None, code) => Some (s1, code)
    end.

(* ABTI_thread_set_associated_pool(p_global, p_thread, p_pool).
   None = an assertion of unit.c fires (or p_thread is not a descriptor the
   model knows: outside every run considered). *)
Definition thread_set_associated_pool (s : astate) (th p : Z) (o : Z * bool)
  : option (astate * Z) :=
  match zfind (a_thr s) th with
  | None => None
  | Some x =>
    let unit := t_unit x in
    if is_builtin_unit unit && bi p then
      (* built-in -> built-in *)
      Some (set_thr s th (mkT unit p), ABT_SUCCESS)
    else if is_builtin_unit unit then
      (* built-in -> user-defined: add a new mapping *)
      match create_and_map s p th o with
      | (s1, Some nu, _) => Some (set_thr s1 th (mkT nu p), ABT_SUCCESS)
      | (s1, None, code) => Some (s1, code)
      end
    else if bi p then
      (* user-defined -> built-in: remove the mapping, free the unit *)
      match unmap_and_free s (t_pool x) unit with
      | None => None
      | Some s1 => Some (set_thr s1 th (mkT (builtin_unit th) p), ABT_SUCCESS)
      end
    else if t_pool x =? p then
      (* same user-defined pool *)
      Some (s, ABT_SUCCESS)
    else
      (* user-defined -> another user-defined pool *)
      match create_and_map s p th o with
      | (s1, Some nu, _) =>
          match unmap_and_free s1 (t_pool x) unit with
          | None => None
          | Some s2 => Some (set_thr s2 th (mkT nu p), ABT_SUCCESS)
          end
      | (s1, None, code) => Some (s1, code)
      end
  end.

(* ABTI_unit_set_associated_pool(p_global, unit, p_pool, &p_thread): the
   work unit is found from the handle.  Result: state, code, *pp_thread
   (0 when the function returns an error before assigning it). *)
Definition unit_set_associated_pool (s : astate) (unit p : Z) (o : Z * bool)
  : option (astate * Z * Z) :=
  if is_builtin_unit unit then
    let th := thread_of_builtin unit in
    match zfind (a_thr s) th with
    | None => None
    | Some x =>
      if bi p then
        Some (set_thr s th (mkT (t_unit x) p), ABT_SUCCESS, th)
      else
        match create_and_map s p th o with
        | (s1, Some nu, _) => Some (set_thr s1 th (mkT nu p), ABT_SUCCESS, th)
        | (s1, None, code) => Some (s1, code, 0)
        end
    end
  else
    match tbl_get (a_tbl s) unit with
    | None => None                      (* get() must succeed *)
    | Some th =>
      match zfind (a_thr s) th with
      | None => None
      | Some x =>
        if bi p then
          match unmap_and_free s (t_pool x) unit with
          | None => None
          | Some s1 => Some (set_thr s1 th (mkT (builtin_unit th) p), ABT_SUCCESS, th)
          end
        else if t_pool x =? p then
          Some (s, ABT_SUCCESS, th)
        else
          match create_and_map s p th o with
          | (s1, Some nu, _) =>
              match unmap_and_free s1 (t_pool x) unit with
              | None => None
              | Some s2 => Some (set_thr s2 th (mkT nu p), ABT_SUCCESS, th)
              end
          | (s1, None, code) => Some (s1, code, 0)
          end
      end
    end.

(* ABTI_thread_unset_associated_pool: the descriptor is freed by every caller
   right afterwards (unit/p_pool are overwritten with NULL when error checks
   are on), so the model drops it. *)
Definition thread_unset_associated_pool (s : astate) (th : Z) : option astate :=
  match zfind (a_thr s) th with
  | None => None
  | Some x =>
    let unit := t_unit x in
    if negb (is_builtin_unit unit) then
      match unmap_and_free s (t_pool x) unit with
      | None => None
      | Some s1 => Some (mkA (a_tbl s1) (zdel (a_thr s1) th) (a_log s1))
      end
    else Some (mkA (a_tbl s) (zdel (a_thr s) th) (a_log s))
  end.

(* ABTI_unit_get_thread *)
Definition unit_get_thread (s : astate) (u : Z) : option Z :=
  if is_builtin_unit u then Some (thread_of_builtin u) else tbl_get (a_tbl s) u.

(* ---- association-level operations (the white-box correspondence runs
   exactly these) ---- *)
Inductive aop :=
| AInit (th p : Z) (o : Z * bool)        (* ABTI_thread_init_pool on a new descriptor *)
| ASet (th p : Z) (o : Z * bool)         (* ABTI_thread_set_associated_pool *)
| AUSet (th p : Z) (o : Z * bool)        (* ABTI_unit_set_associated_pool(th's unit) *)
| AUnset (th : Z)                        (* ABTI_thread_unset_associated_pool *)
| AGet (th : Z).                         (* ABTI_unit_get_thread(th's unit) *)

Inductive ares :=
| ARcode (code : Z)
| ARcode_thread (code th : Z)
| ARnone
| ARthread (th : Z).

(* documented requirement on u_create_from_thread / p_create_unit(pool, th):
   the handle is NULL (failure) or a non-NULL pointer with bit 0 clear that is
   not the handle of ANOTHER live work unit.  It may be the handle th itself
   currently has: pools whose unit handle is the work-unit handle itself
   ("unit = (ABT_unit)thread", test/basic/pool_user_def.c) or a field embedded
   in per-thread data return the same value from every pool.  create_unit is
   called while th holds a live user unit only in the "user-defined -> another
   user-defined pool" branch of the two set_associated_pool functions, so this
   is the one place where the new handle can equal a live one (a same-handle
   move): the table then holds the key twice between map(new) and unmap(old). *)
Definition unit_live_other (s : astate) (th u : Z) : bool :=
  existsb (fun e : Z * thr => negb (fst e =? th) && (t_unit (snd e) =? u)) (a_thr s).

Definition oracle_ok (s : astate) (th : Z) (o : Z * bool) : bool :=
  let cu := fst o in
  (cu =? UNIT_NULL) || (Z.even cu && negb (unit_live_other s th cu)).

Definition thread_ptr_ok (th : Z) : bool := negb (th =? 0) && Z.even th.

Definition apre (s : astate) (o : aop) : bool :=
  match o with
  | AInit th p o' =>
      thread_ptr_ok th && oracle_ok s th o' &&
      match zfind (a_thr s) th with None => true | Some _ => false end
  | ASet th p o' | AUSet th p o' =>
      oracle_ok s th o' && match zfind (a_thr s) th with Some _ => true | None => false end
  | AUnset th | AGet th =>
      match zfind (a_thr s) th with Some _ => true | None => false end
  end.

Definition astep (s : astate) (o : aop) : option (astate * ares) :=
  match o with
  | AInit th p o' =>
      match thread_init_pool s th p o' with
      | Some (s', c) => Some (s', ARcode c) | None => None end
  | ASet th p o' =>
      match thread_set_associated_pool s th p o' with
      | Some (s', c) => Some (s', ARcode c) | None => None end
  | AUSet th p o' =>
      match zfind (a_thr s) th with
      | None => None
      | Some x =>
        match unit_set_associated_pool s (t_unit x) p o' with
        | Some (s', c, r) => Some (s', ARcode_thread c r) | None => None end
      end
  | AUnset th =>
      match thread_unset_associated_pool s th with
      | Some s' => Some (s', ARnone) | None => None end
  | AGet th =>
      match zfind (a_thr s) th with
      | None => None
      | Some x =>
        match unit_get_thread s (t_unit x) with
        | Some r => Some (s, ARthread r) | None => None end
      end
  end.

(* lock-step run: Misuse when a precondition is broken, Abort when an
   assertion of the C code would fire *)
Fixpoint arun (s : astate) (ops : list aop) : outcome (astate * list ares) :=
  match ops with
  | [] => Ok (s, [])
  | o :: ops' =>
      if negb (apre s o) then Misuse else
      match astep s o with
      | None => Abort
      | Some (s', r) =>
          match arun s' ops' with
          | Ok (s'', rs) => Ok (s'', r :: rs)
          | Misuse => Misuse | Abort => Abort | Wrong => Wrong
          end
      end
  end.

End Assoc.

(* ------------------------------------------------------------------ *)
(* replaying the call log                                               *)
(* ------------------------------------------------------------------ *)
(* [replay log] = the function  handle -> Some (pool, thread, second pool)  of
   the handles that are live after the calls of [log] (newest first), or None
   when the log is ill-formed.  A handle is normally live for one pool
   (third component None).  Well-formed:
     - create_unit returns NULL, a handle that is not live, or - the
       same-handle move - the handle that is live for the SAME work unit in
       ANOTHER pool and not in the middle of such a move already: it is then
       live in two pools (old pool, thread, Some new pool) until one of the two
       frees it;
     - free_unit names a handle that is live for that very pool (so: freed at
       most once per creation, never after its free, by the pool that created
       it); of a handle live in two pools it ends the association with the
       pool that frees (old pool: the move completes; new pool: the move is
       abandoned, which is what a failed map does);
     - push / pop mention a handle that is live for that pool and for no other
       (never in the middle of a move). *)
Definition lval := (Z * Z * option Z)%type.
Definition lmap := Z -> option lval.
Definition lupd (f : lmap) (u : Z) (v : option lval) : lmap :=
  fun u' => if u' =? u then v else f u'.

Definition replay_call (f : lmap) (c : call) : option lmap :=
  match c with
  | CCreate p th u =>
      if u =? UNIT_NULL then Some f
      else match f u with
           | None => Some (lupd f u (Some (p, th, None)))
           | Some (p0, th0, None) =>
               if (th0 =? th) && negb (p0 =? p)
               then Some (lupd f u (Some (p0, th0, Some p))) else None
           | Some (_, _, Some _) => None
           end
  | CFree p u =>
      match f u with
      | Some (p0, th0, None) => if p0 =? p then Some (lupd f u None) else None
      | Some (p0, th0, Some p1) =>
          if p0 =? p then Some (lupd f u (Some (p1, th0, None)))
          else if p1 =? p then Some (lupd f u (Some (p0, th0, None)))
          else None
      | None => None
      end
  | CPush p u | CPop p u =>
      match f u with
      | Some (p0, _, None) => if p0 =? p then Some f else None
      | _ => None
      end
  end.

Fixpoint replay (log : list call) : option lmap :=
  match log with
  | [] => Some (fun _ => None)
  | c :: older =>
      match replay older with
      | None => None
      | Some f => replay_call f c
      end
  end.

(* the live user-unit association of a state: handle -> (pool, thread) *)
Definition user_assoc (l : list (Z * thr)) (u : Z) : option lval :=
  match find (fun e : Z * thr => (t_unit (snd e) =? u) && negb (is_builtin_unit u)) l with
  | Some (th, x) => Some (t_pool x, th, None)
  | None => None
  end.
