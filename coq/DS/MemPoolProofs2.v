(* Proofs about DS/MemPool.v.  Part 2: the global pool (bucket LIFO, pages,
   partial bucket): representation invariant and the specification of
   return_bucket, take_bucket, return_partial_bucket w.r.t. it. *)
From Coq Require Import List ZArith Bool Lia Permutation.
From ABT Require Import Common.ListAux DS.SyncLifo DS.SyncLifoProofs DS.MemPool DS.MemPoolProofs.
Import ListNotations.
Local Open Scope Z_scope.

(* abstract content of the global pool *)
Record absg := mkAG {
  a_lifo : list (list Z);   (* buckets on bucket_lifo, top first; each: its blocks, head first *)
  a_pl : list Z;            (* the real p_next chain hanging off partial_bucket *)
  a_lost : list Z;          (* blocks no pointer leads to any more (always [] for the patched code) *)
  a_plifo : list Z;         (* pages on mem_page_lifo *)
  a_pempty : list Z         (* pages on the empty-page list *)
}.
Definition FG (a : absg) : list Z := concat (a_lifo a) ++ a_pl a ++ a_lost a.

Definition hinfo (g : gpool) : Z -> Z := fun b => h_info (g_hp g b).
Definition plnext (g : gpool) : Z -> Z := fun p => pg_lnext (g_pages g p).
Definition penext (g : gpool) : Z -> Z := fun p => pg_enext (g_pages g p).

Definition bucket_ok (g : gpool) (l : list Z) : Prop :=
  chainN (g_hp g) (hd 0 l) l /\ Z.of_nat (length l) = g_N g.

(* header part: the bucket LIFO ... *)
Record GHL (g : gpool) (lifo : list (list Z)) : Prop := mkGHL {
  G_lifo : lchain (hinfo g) (g_btop g) (map (hd 0) lifo);
  G_bkts : Forall (bucket_ok g) lifo
}.
(* ... and the partial bucket *)
Definition GHP (g : gpool) (pl : list Z) : Prop :=
  (g_partial g = 0 /\ pl = []) \/
  (g_partial g <> 0 /\ chainN (g_hp g) (g_partial g) pl /\ pl <> [] /\
   h_info (g_hp g (g_partial g)) <= Z.of_nat (length pl)).
Definition GH (g : gpool) (a : absg) : Prop :=
  1 <= g_N g /\ GHL g (a_lifo a) /\ GHP g (a_pl a).

(* page part; [hand] = pages currently popped / freshly allocated and not yet given back *)
Record GP (g : gpool) (pl pe hand : list Z) : Prop := mkGP {
  G_S : 1 <= g_S g;
  G_np : 0 <= g_npages g;
  G_plifo : lchain (plnext g) (g_ptop g) pl;
  G_pempty : lchain (penext g) (g_empty g) pe;
  G_pnodup : NoDup (hand ++ pl ++ pe);
  G_pall : forall p, In p (hand ++ pl ++ pe) <-> 1 <= p <= g_npages g;
  G_pfree : forall p, In p (hand ++ pl) -> pg_carved (g_pages g p) < g_S g;
  G_carved : forall p, 0 <= pg_carved (g_pages g p) <= g_S g
}.
Definition G (g : gpool) (a : absg) : Prop := GH g a /\ GP g (a_plifo a) (a_pempty a) [].

(* tightness: nothing lost and the stored count of the partial bucket is exact *)
Definition tight (g : gpool) (a : absg) : Prop :=
  a_lost a = [] /\ (g_partial g <> 0 -> h_info (g_hp g (g_partial g)) = Z.of_nat (length (a_pl a))).

Lemma bucket_hd_in g l : 1 <= g_N g -> bucket_ok g l -> In (hd 0 l) l /\ hd 0 l <> 0.
Proof.
  intros HN (Hc & Hl). destruct l as [|x l]; cbn in *; [lia|]. split; auto.
  inversion Hc; auto.
Qed.

Lemma heads_in_concat g ls x :
  1 <= g_N g -> Forall (bucket_ok g) ls -> In x (map (hd 0) ls) -> In x (concat ls).
Proof.
  intros HN Hf Hx. apply in_map_iff in Hx. destruct Hx as (l & <- & Hl).
  rewrite Forall_forall in Hf. apply in_concat. exists l. split; auto.
  apply (bucket_hd_in g); auto.
Qed.

Lemma partial_in_pl g pl : GHP g pl -> g_partial g <> 0 -> In (g_partial g) pl.
Proof.
  intros [(H & _)|(_ & Hc & Hne & _)] Hp; [congruence|].
  destruct pl as [|x l]; [congruence|]. inversion Hc; subst. left; auto.
Qed.

(* each part only depends on the headers of its own blocks *)
Lemma GHL_frame g g' lifo :
  1 <= g_N g -> GHL g lifo -> g_N g' = g_N g -> g_btop g' = g_btop g ->
  (forall x, In x (concat lifo) -> g_hp g' x = g_hp g x) -> GHL g' lifo.
Proof.
  intros HN [H2 H3] HN' Ht Hf. constructor.
  - rewrite Ht. eapply lchain_ext; eauto. intros x Hx. unfold hinfo. rewrite Hf; auto.
    eapply heads_in_concat; eauto.
  - rewrite Forall_forall in *. intros l Hl. destruct (H3 l Hl) as (Hc & Hlen). split; [|congruence].
    eapply chainN_ext; eauto. intros x Hx. rewrite Hf; auto. apply in_concat. eauto.
Qed.

Lemma GHP_frame g g' pl :
  GHP g pl -> g_partial g' = g_partial g ->
  (forall x, In x pl -> g_hp g' x = g_hp g x) -> GHP g' pl.
Proof.
  intros H Hp Hf. pose proof (partial_in_pl g pl H) as Hin.
  destruct H as [H4|(Hp' & Hc & Hne & Hle)]; [left; rewrite Hp; auto|right].
  rewrite Hp. repeat split; auto.
  - eapply chainN_ext; eauto. intros x Hx. rewrite Hf; auto.
  - rewrite Hf; auto.
Qed.

Lemma GH_frame g a hp' :
  GH g a -> (forall x, In x (concat (a_lifo a) ++ a_pl a) -> hp' x = g_hp g x) ->
  GH (set_hp g hp') a.
Proof.
  intros (H1 & H2 & H3) Hf. split; [auto|split].
  - eapply GHL_frame; eauto. intros; cbn. apply Hf. apply in_or_app; auto.
  - eapply GHP_frame; eauto. intros; cbn. apply Hf. apply in_or_app; auto.
Qed.

(* ---------- ABTI_mem_pool_return_bucket *)
Lemma return_bucket_hp g b : g_hp (return_bucket g b) = set_info (g_hp g) b (g_btop g).
Proof. reflexivity. Qed.

Lemma return_bucket_GHL g lifo b bl :
  1 <= g_N g -> GHL g lifo -> chainN (g_hp g) b bl -> Z.of_nat (length bl) = g_N g ->
  (forall x, In x bl -> ~ In x (concat lifo)) ->
  GHL (return_bucket g b) (bl :: lifo).
Proof.
  intros H1 [H2 H3] Hc Hl Hd.
  assert (Hbl : bl <> []) by (destruct bl; cbn in *; [lia|discriminate]).
  assert (Hb : In b bl /\ b <> 0).
  { destruct bl as [|x l]; [congruence|]. inversion Hc; subst. split; [left|]; auto. }
  destruct Hb as (Hb & Hb0).
  assert (Hhd : hd 0 bl = b) by (eapply chainN_hd; eauto).
  assert (Hfr : forall x, In x (concat lifo) ->
                          set_info (g_hp g) b (g_btop g) x = g_hp g x).
  { intros x Hx. apply set_info_other. intros ->. eapply Hd; eauto. }
  constructor; cbn.
  - rewrite Hhd. constructor; auto.
    unfold hinfo at 2; cbn. rewrite set_info_info, Z.eqb_refl.
    eapply lchain_ext; eauto. intros x Hx. unfold hinfo; cbn. rewrite Hfr; auto.
    eapply heads_in_concat; eauto.
  - constructor.
    + split; cbn; auto. rewrite Hhd. now apply chainN_set_info.
    + rewrite Forall_forall in *. intros l Hl'. destruct (H3 l Hl') as (Hc' & Hlen). split; auto.
      cbn. now apply chainN_set_info.
Qed.

Lemma return_bucket_GH g a b bl :
  GH g a -> chainN (g_hp g) b bl -> Z.of_nat (length bl) = g_N g ->
  (forall x, In x bl -> ~ In x (concat (a_lifo a) ++ a_pl a)) ->
  GH (return_bucket g b) (mkAG (bl :: a_lifo a) (a_pl a) (a_lost a) (a_plifo a) (a_pempty a)).
Proof.
  intros (H1 & H2 & H3) Hc Hl Hd. split; [auto|split]; cbn.
  - apply return_bucket_GHL; auto. intros x Hx Hi. apply (Hd x Hx). apply in_or_app; auto.
  - eapply GHP_frame; eauto. intros x Hx. change (set_info (g_hp g) b (g_btop g) x = g_hp g x). apply set_info_other.
    intros ->. destruct bl as [|y l]; [cbn in Hl; lia|]. inversion Hc; subst.
    apply (Hd y); [left; auto|apply in_or_app; auto].
Qed.

Lemma return_bucket_GP g pl pe hand b : GP g pl pe hand -> GP (return_bucket g b) pl pe hand.
Proof. intros [H1 H2 H3 H4 H5 H6 H7 H8]. constructor; auto. Qed.

(* ---------- carvedb only depends on the page bookkeeping *)
Lemma carvedb_ext g g' b :
  g_S g' = g_S g -> g_npages g' = g_npages g -> (forall p, pg_carved (g_pages g' p) = pg_carved (g_pages g p)) ->
  carvedb g' b = carvedb g b.
Proof. intros H1 H2 H3. unfold carvedb, total_blocks. now rewrite H1, H2, H3. Qed.

Lemma carvedb_true g b : 1 <= g_S g -> 0 <= g_npages g ->
  (carvedb g b = true <->
   exists p slot, b = blk_id (g_S g) p slot /\ 1 <= p <= g_npages g /\
                  0 <= slot < pg_carved (g_pages g p) /\ slot < g_S g).
Proof.
  intros HS Hnp. unfold carvedb, total_blocks. rewrite !andb_true_iff, !Z.leb_le, Z.ltb_lt. split.
  - intros ((Hb1 & Hb2) & Hc).
    exists ((b - 1) / g_S g + 1), ((b - 1) mod g_S g).
    pose proof (Z.mod_pos_bound (b - 1) (g_S g) ltac:(lia)).
    split; [apply blk_id_decomp; lia|]. repeat split; try lia.
    + pose proof (Z.div_pos (b - 1) (g_S g) ltac:(lia) ltac:(lia)). lia.
    + assert ((b - 1) / g_S g < g_npages g); [|lia].
      apply Z.div_lt_upper_bound; nia.
  - intros (p & slot & -> & Hp & Hs & Hs2).
    rewrite blk_id_page, blk_id_slot by lia.
    pose proof (blk_id_range (g_S g) p slot ltac:(lia) ltac:(lia) ltac:(lia)).
    repeat split; try lia; nia.
Qed.

(* the p_next of the last block of a chain is irrelevant *)
Lemma chainN_ext' hp hp' p l :
  chainN hp p l -> (forall x, In x (removelast l) -> h_next (hp' x) = h_next (hp x)) -> chainN hp' p l.
Proof.
  induction 1; intros He; constructor; auto.
  destruct l as [|y l]; [constructor|].
  rewrite He by (left; auto). apply IHchainN. intros x Hx. apply He. right; auto.
Qed.

Lemma firstn_S_snoc {A} (l : list A) k d :
  (k < length l)%nat -> firstn (S k) l = firstn k l ++ [nth k l d].
Proof.
  revert k; induction l as [|a l IH]; intros k Hk; cbn in Hk; [lia|].
  destruct k; cbn; auto. f_equal. apply IH. lia.
Qed.

Lemma nth_notin_firstn (l : list Z) k :
  NoDup l -> (k < length l)%nat -> ~ In (nth k l 0) (firstn k l).
Proof.
  revert k; induction l as [|a l IH]; intros k Hn Hk; cbn in Hk; [lia|].
  apply NoDup_cons_iff in Hn. destruct Hn as (Ha & Hn).
  destruct k; cbn; [tauto|]. intros [He|Hi].
  - apply Ha. rewrite He. apply nth_In. lia.
  - apply (IH k); auto. lia.
Qed.

Lemma removelast_firstn_nodup (l : list Z) k x :
  NoDup l -> (k < length l)%nat -> In x (removelast (firstn (S k) l)) -> x <> nth k l 0.
Proof.
  intros Hn Hk Hx. rewrite (firstn_S_snoc l k 0), removelast_snoc in Hx by auto.
  intros ->. eapply nth_notin_firstn; eauto.
Qed.

(* ---------- take_bucket, fast path: a bucket is popped *)
Lemma take_pop g a b t tg :
  GH g a -> NoDup (concat (a_lifo a) ++ a_pl a) ->
  seq_pop (g_btop g) (g_btag g) (h_info (g_hp g (g_btop g))) = Some (b, t, tg) ->
  exists bl rest, a_lifo a = bl :: rest /\
    let g' := set_hp (set_blifo g t tg) (set_info (g_hp g) b (g_N g)) in
    GH g' (mkAG rest (a_pl a) (a_lost a) (a_plifo a) (a_pempty a)) /\
    chainN (g_hp g') b bl /\ Z.of_nat (length bl) = g_N g /\ h_info (g_hp g' b) = g_N g /\
    (forall x, x <> b -> g_hp g' x = g_hp g x).
Proof.
  intros (H1 & [H2 H3] & H4) Hnd Hp. unfold seq_pop in Hp.
  destruct (Z.eqb_spec (g_btop g) 0); [discriminate|]. inversion Hp; subst; clear Hp.
  destruct (a_lifo a) as [|bl rest] eqn:El; cbn in H2; [inversion H2; congruence|].
  inversion H2 as [|e l He Hl Hhd]; subst.
  exists bl, rest. split; auto. cbn zeta.
  apply Forall_cons_iff in H3. destruct H3 as ((Hc & Hlen) & H3).
  rewrite <- H in *.
  assert (Hbin : In (g_btop g) bl).
  { rewrite H. apply (bucket_hd_in g); auto. split; auto. rewrite <- H; auto. }
  cbn [concat] in Hnd. rewrite <- app_assoc in Hnd. apply NoDup_app_iff in Hnd.
  destruct Hnd as (Hnbl & Hnrest & Hdis).
  assert (Hfr : forall x, In x (concat rest ++ a_pl a) ->
                 set_info (g_hp g) (g_btop g) (g_N g) x = g_hp g x).
  { intros x Hx. apply set_info_other. intros ->. eapply Hdis; eauto. }
  split; [|split; [|split; [|split]]]; cbn.
  - split; [auto|split]; cbn.
    + eapply (GHL_frame (set_blifo g (hinfo g (g_btop g)) (g_btag g + 1))); cbn; auto.
      * constructor; auto.
      * intros x Hx. apply Hfr. apply in_or_app; auto.
    + eapply GHP_frame; eauto. cbn. intros x Hx. apply Hfr. apply in_or_app; auto.
  - now apply chainN_set_info.
  - auto.
  - now rewrite set_info_info, Z.eqb_refl.
  - intros x Hx. now apply set_info_other.
Qed.

(* ---------- pages *)
Lemma get_page_spec g pl pe g1 p :
  GP g pl pe [] -> get_page g = Some (g1, p) ->
  exists pl1, GP g1 pl1 pe [p] /\ g_hp g1 = g_hp g /\ g_N g1 = g_N g /\ g_S g1 = g_S g /\
    g_btop g1 = g_btop g /\ g_partial g1 = g_partial g /\
    (forall b, carvedb g1 b = carvedb g b) /\ 1 <= p.
Proof.
  intros [H1 H2 H3 H4 H5 H6 H7 H8] Hg. unfold get_page, seq_pop in Hg. cbn [app] in *.
  destruct (Z.eqb_spec (g_ptop g) 0) as [Hz|Hnz].
  - (* allocate a page *)
    destruct (Z.eqb_spec (g_budget g) 0); [discriminate|]. inversion Hg; subst; clear Hg.
    exists pl.
    assert (Hnew : ~ In (g_npages g + 1) (pl ++ pe)) by (intros Hi; apply H6 in Hi; lia).
    split; [|repeat split; cbn; auto; try lia].
    + constructor; cbn; auto; try lia.
      * eapply lchain_ext; eauto. intros x _. unfold plnext; cbn. unfold upd.
        destruct (Z.eqb_spec x (g_npages g + 1)); subst; auto.
      * eapply lchain_ext; eauto. intros x _. unfold penext; cbn. unfold upd.
        destruct (Z.eqb_spec x (g_npages g + 1)); subst; auto.
      * constructor; auto.
      * intros q. rewrite H6. lia.
      * intros q Hq. unfold upd. destruct (Z.eqb_spec q (g_npages g + 1)); cbn; [lia|].
        apply H7. destruct Hq as [Hq|Hq]; [congruence|auto].
      * intros q. unfold upd. destruct (Z.eqb_spec q (g_npages g + 1)); cbn; [lia|auto].
    + (* carvedb unchanged: the new page has nothing carved *)
      intros b.
      set (g1 := set_npages _ _ _).
      assert (HS1 : g_S g1 = g_S g) by reflexivity.
      assert (Hnp1 : g_npages g1 = g_npages g + 1) by reflexivity.
      destruct (carvedb g1 b) eqn:E1, (carvedb g b) eqn:E2; auto.
      * apply carvedb_true in E1; [|rewrite HS1; auto|rewrite Hnp1; lia].
        destruct E1 as (q & slot & -> & Hq & Hs & Hs2).
        rewrite HS1, Hnp1 in *. unfold g1 in Hs; cbn in Hs. unfold upd in Hs.
        destruct (Z.eqb_spec q (g_npages g + 1)); cbn in Hs; [lia|].
        assert (carvedb g (blk_id (g_S g) q slot) = true); [|congruence].
        apply carvedb_true; auto. exists q, slot. repeat split; auto; lia.
      * apply carvedb_true in E2; auto.
        destruct E2 as (q & slot & -> & Hq & Hs & Hs2).
        assert (carvedb g1 (blk_id (g_S g) q slot) = true); [|congruence].
        apply carvedb_true; [rewrite HS1; auto|rewrite Hnp1; lia|].
        exists q, slot. rewrite HS1, Hnp1. unfold g1; cbn. unfold upd.
        destruct (Z.eqb_spec q (g_npages g + 1)); [lia|]. repeat split; auto; lia.
  - (* pop a page *)
    inversion Hg; subst; clear Hg.
    inversion H3 as [|e l He Hl Hhd]; subst; [congruence|].
    exists l.
    split; [|repeat split; auto].
    + constructor; cbn; auto.
    + assert (Hi : In (g_ptop g) ((g_ptop g :: l) ++ pe)) by (left; auto). apply H6 in Hi. lia.
Qed.

(* [hi; hi-1; ...] (k elements) *)
Fixpoint down (hi : Z) (k : nat) : list Z :=
  match k with O => [] | S k' => hi :: down (hi - 1) k' end.
Lemma down_in hi k x : In x (down hi k) <-> hi - Z.of_nat k < x <= hi.
Proof.
  revert hi; induction k as [|k IH]; intros hi; cbn [down In].
  - lia.
  - rewrite IH. lia.
Qed.
Lemma down_nodup hi k : NoDup (down hi k).
Proof.
  revert hi; induction k as [|k IH]; intros hi; cbn; constructor; auto.
  rewrite down_in. lia.
Qed.
Lemma down_length hi k : length (down hi k) = k.
Proof. revert hi; induction k; intros; cbn; auto. Qed.
Lemma down_snoc hi k : down hi (S k) = down hi k ++ [hi - Z.of_nat k].
Proof.
  revert hi; induction k as [|k IH]; intros hi.
  - cbn. f_equal. lia.
  - change (down hi (S (S k))) with (hi :: down (hi - 1) (S k)). rewrite IH. cbn. do 2 f_equal.
    f_equal. lia.
Qed.

Lemma link_more_spec k : forall hp prev rest,
  1 <= prev -> chainN hp prev rest ->
  (forall x, prev < x <= prev + Z.of_nat k -> ~ In x rest) ->
  exists hp', link_more hp prev k = (hp', prev + Z.of_nat k) /\
    chainN hp' (prev + Z.of_nat k) (down (prev + Z.of_nat k) k ++ rest) /\
    (forall x, ~ (prev < x <= prev + Z.of_nat k) -> hp' x = hp x) /\
    (forall x, h_info (hp' x) = h_info (hp x)).
Proof.
  induction k as [|k IH]; intros hp prev rest Hp Hc Hd.
  - exists hp. cbn. rewrite Z.add_0_r. auto.
  - cbn [link_more].
    assert (Hc1 : chainN (set_next hp (prev + 1) prev) (prev + 1) ((prev + 1) :: rest)).
    { constructor; [lia|]. rewrite set_next_next, Z.eqb_refl.
      eapply chainN_ext; eauto. intros x Hx. rewrite set_next_next.
      destruct (Z.eqb_spec x (prev + 1)); auto. subst. exfalso. apply (Hd (prev + 1)); auto. lia. }
    destruct (IH (set_next hp (prev + 1) prev) (prev + 1) ((prev + 1) :: rest)) as (hp' & E & Hc' & Hf & Hi);
      auto; try lia.
    { intros x Hx [He|Hi]; [lia|]. apply (Hd x); auto. lia. }
    replace (prev + 1 + Z.of_nat k) with (prev + Z.of_nat (S k)) in * by lia.
    exists hp'. split; auto. split; [|split].
    + rewrite down_snoc, <- app_assoc. cbn [app].
      replace (prev + Z.of_nat (S k) - Z.of_nat k) with (prev + 1) by lia. auto.
    + intros x Hx. rewrite Hf by lia. apply set_next_other. lia.
    + intros x. rewrite Hi. apply set_next_info.
Qed.

Lemma uncarved_ids g p s :
  1 <= g_S g -> 0 <= g_npages g -> 0 <= pg_carved (g_pages g p) <= s -> s < g_S g ->
  carvedb g (blk_id (g_S g) p s) = false.
Proof.
  intros HS Hnp Hs Hs'. destruct (carvedb g (blk_id (g_S g) p s)) eqn:E; auto.
  apply carvedb_true in E; auto. destruct E as (q & slot & He & Hq & Hsl & Hsl2).
  apply blk_id_inj in He; try lia. destruct He as (-> & ->). lia.
Qed.

(* a page in hand whose bookkeeping is final goes back to one of the two lists *)
Record GPhand (g : gpool) (pl pe : list Z) (p : Z) : Prop := mkGPh {
  Gh_S : 1 <= g_S g;
  Gh_np : 0 <= g_npages g;
  Gh_plifo : lchain (plnext g) (g_ptop g) pl;
  Gh_pempty : lchain (penext g) (g_empty g) pe;
  Gh_pnodup : NoDup (p :: pl ++ pe);
  Gh_pall : forall q, In q (p :: pl ++ pe) <-> 1 <= q <= g_npages g;
  Gh_pfree : forall q, In q pl -> pg_carved (g_pages g q) < g_S g;
  Gh_carved : forall q, 0 <= pg_carved (g_pages g q) <= g_S g
}.

Lemma give_back_spec g2 pl1 pe p :
  GPhand g2 pl1 pe p ->
  exists pl' pe', GP (page_give_back g2 p) pl' pe' [] /\
    g_hp (page_give_back g2 p) = g_hp g2 /\ g_N (page_give_back g2 p) = g_N g2 /\
    g_S (page_give_back g2 p) = g_S g2 /\ g_btop (page_give_back g2 p) = g_btop g2 /\
    g_partial (page_give_back g2 p) = g_partial g2 /\ g_npages (page_give_back g2 p) = g_npages g2 /\
    (forall q, pg_carved (g_pages (page_give_back g2 p) q) = pg_carved (g_pages g2 q)).
Proof.
  intros [H1 H2 H3 H4 H5 H6 H7 H8].
  assert (Hpn : ~ In p (pl1 ++ pe)) by (apply NoDup_cons_iff in H5; tauto).
  assert (Hp0 : p <> 0) by (assert (In p (p :: pl1 ++ pe)) by (left; auto); apply H6 in H; lia).
  assert (Hcv : forall (f : page) q, pg_carved f = pg_carved (g_pages g2 p) ->
                  pg_carved (upd (g_pages g2) p f q) = pg_carved (g_pages g2 q)).
  { intros f q Hf. unfold upd. destruct (Z.eqb_spec q p); subst; auto. }
  unfold page_give_back. destruct (Z.leb_spec 1 (g_S g2 - pg_carved (g_pages g2 p))) as [Hge|Hlt].
  - exists (p :: pl1), pe. cbn. split; [|repeat split; auto].
    constructor; cbn; auto.
    + constructor; auto. unfold plnext at 2; cbn. rewrite upd_same; cbn.
      apply (lchain_ext (plnext g2)); [exact H3|]. intros x Hx. unfold plnext; cbn.
      rewrite upd_other; auto. intros ->. apply Hpn. apply in_or_app; auto.
    + apply (lchain_ext (penext g2)); [exact H4|]. intros x Hx. unfold penext; cbn.
      rewrite upd_other; auto. intros ->. apply Hpn. apply in_or_app; auto.
    + intros q Hq. rewrite Hcv by reflexivity. destruct Hq as [<-|Hq]; [lia|auto].
    + intros q. rewrite Hcv by reflexivity. auto.
  - exists pl1, (p :: pe). cbn. split; [|repeat split; auto].
    constructor; cbn; auto.
    + apply (lchain_ext (plnext g2)); [exact H3|]. intros x Hx. unfold plnext; cbn.
      rewrite upd_other; auto. intros ->. apply Hpn. apply in_or_app; auto.
    + constructor; auto. unfold penext at 2; cbn. rewrite upd_same; cbn.
      apply (lchain_ext (penext g2)); [exact H4|]. intros x Hx. unfold penext; cbn.
      rewrite upd_other; auto. intros ->. apply Hpn. apply in_or_app; auto.
    + eapply Permutation_NoDup; [|exact H5]. apply Permutation_middle.
    + intros q. rewrite <- H6. cbn. rewrite !in_app_iff. cbn. tauto.
    + intros q Hq. rewrite Hcv by reflexivity. auto.
    + intros q. rewrite Hcv by reflexivity. auto.
Qed.

Lemma carve_page_spec g1 pl1 pe p nh p_head acc g4 nh' head' :
  GP g1 pl1 pe [p] -> 1 <= g_N g1 -> 0 <= nh < g_N g1 ->
  chainN (g_hp g1) p_head acc -> (forall x, In x acc -> carvedb g1 x = true) ->
  carve_page g1 p nh p_head = (g4, nh', head') ->
  exists pl' pe' new,
    GP g4 pl' pe' [] /\ new <> [] /\ nh' = nh + Z.of_nat (length new) /\ nh' <= g_N g1 /\
    chainN (g_hp g4) head' (new ++ acc) /\
    NoDup new /\ (forall x, In x new -> carvedb g1 x = false) /\
    (forall x, carvedb g4 x = true <-> carvedb g1 x = true \/ In x new) /\
    (forall x, ~ In x new -> g_hp g4 x = g_hp g1 x) /\
    (forall x, h_info (g_hp g4 x) = h_info (g_hp g1 x)) /\
    g_N g4 = g_N g1 /\ g_S g4 = g_S g1 /\ g_btop g4 = g_btop g1 /\ g_partial g4 = g_partial g1.
Proof.
  intros HGP HN Hnh Hc Hacc Hcp.
  pose proof HGP as [H1 H2 H3 H4 H5 H6 H7 H8].
  unfold carve_page in Hcp.
  set (c := pg_carved (g_pages g1 p)) in *.
  set (k := if g_N g1 - nh <? g_S g1 - c then g_N g1 - nh else g_S g1 - c) in *.
  assert (Hc0 : 0 <= c < g_S g1) by (split; [apply H8|apply H7; left; auto]).
  assert (Hk : 1 <= k /\ k <= g_S g1 - c /\ k <= g_N g1 - nh).
  { unfold k. destruct (Z.ltb_spec (g_N g1 - nh) (g_S g1 - c)); lia. }
  assert (Hp : 1 <= p <= g_npages g1) by (apply H6; left; auto).
  set (first := blk_id (g_S g1) p c) in *.
  assert (Hfirst : 1 <= first).
  { pose proof (blk_id_range (g_S g1) p c ltac:(lia) ltac:(lia) ltac:(lia)). unfold first. nia. }
  assert (Hunc : forall x, first <= x <= first + k - 1 ->
                   carvedb g1 x = false /\ x = blk_id (g_S g1) p (c + (x - first))).
  { intros x Hx. assert (He : x = blk_id (g_S g1) p (c + (x - first))) by (unfold first, blk_id; lia).
    split; auto. rewrite He. apply uncarved_ids; auto; fold c; lia. }
  set (g2 := set_pages g1 _) in *.
  assert (Hcv2 : forall q, pg_carved (g_pages g2 q) = if q =? p then c + k else pg_carved (g_pages g1 q)).
  { intros q. unfold g2; cbn. unfold upd. destruct (q =? p); auto. }
  assert (HGh : GPhand g2 pl1 pe p).
  { constructor; auto.
    - apply (lchain_ext (plnext g1)); [exact H3|]. intros x Hx. unfold plnext, g2; cbn. unfold upd.
      destruct (Z.eqb_spec x p); subst; auto.
    - apply (lchain_ext (penext g1)); [exact H4|]. intros x Hx. unfold penext, g2; cbn. unfold upd.
      destruct (Z.eqb_spec x p); subst; auto.
    - intros q Hq. rewrite Hcv2. destruct (Z.eqb_spec q p).
      + subst. exfalso. cbn in H5. apply NoDup_cons_iff in H5. apply (proj1 H5). apply in_or_app; auto.
      + change (g_S g2) with (g_S g1). apply H7. right; auto.
    - intros q. rewrite Hcv2. change (g_S g2) with (g_S g1). destruct (Z.eqb_spec q p); [lia|apply H8]. }
  destruct (give_back_spec g2 pl1 pe p HGh) as (pl' & pe' & HGP3 & Hhp3 & HN3 & HS3 & Hbt3 & Hpa3 & Hnp3 & Hcv3).
  set (g3 := page_give_back g2 p) in *.
  change (g_hp g2) with (g_hp g1) in Hhp3. change (g_N g2) with (g_N g1) in HN3.
  change (g_S g2) with (g_S g1) in HS3. change (g_btop g2) with (g_btop g1) in Hbt3.
  change (g_partial g2) with (g_partial g1) in Hpa3. change (g_npages g2) with (g_npages g1) in Hnp3.
  destruct (link_more_spec (Z.to_nat (k - 1)) (set_next (g_hp g3) first p_head) first (first :: acc))
    as (hp2 & E & Hch & Hfr & Hinfo); auto.
  { constructor; [lia|]. rewrite set_next_next, Z.eqb_refl. rewrite Hhp3.
    eapply chainN_ext; eauto. intros x Hx. rewrite set_next_next.
    destruct (Z.eqb_spec x first); auto. subst x.
    destruct (Hunc first ltac:(lia)) as (Hf & _). rewrite (Hacc _ Hx) in Hf. discriminate. }
  { intros x Hx [He|Hi]; [lia|]. destruct (Hunc x ltac:(lia)) as (Hf & _).
    rewrite (Hacc _ Hi) in Hf. discriminate. }
  rewrite E in Hcp. inversion Hcp; subst g4 nh' head'; clear Hcp.
  replace (first + Z.of_nat (Z.to_nat (k - 1))) with (first + k - 1) in * by lia.
  set (new := down (first + k - 1) (Z.to_nat k)).
  assert (Hnew_in : forall x, In x new <-> first <= x <= first + k - 1).
  { intros x. unfold new. rewrite down_in. lia. }
  assert (Hchain : down (first + k - 1) (Z.to_nat (k - 1)) ++ first :: acc = new ++ acc).
  { unfold new. replace (Z.to_nat k) with (S (Z.to_nat (k - 1))) by lia.
    rewrite down_snoc, <- app_assoc. cbn [app]. do 3 f_equal. lia. }
  rewrite Hchain in Hch.
  assert (Hcarved4 : forall x, carvedb (set_hp g3 hp2) x = true <-> carvedb g1 x = true \/ In x new).
  { intros x. rewrite (carvedb_ext g3 (set_hp g3 hp2)) by reflexivity.
    rewrite carvedb_true by (rewrite ?HS3, ?Hnp3; auto).
    rewrite carvedb_true by auto. rewrite HS3, Hnp3. split.
    - intros (q & slot & -> & Hq & Hs & Hs2). rewrite Hcv3, Hcv2 in Hs.
      destruct (Z.eqb_spec q p).
      + subst q. destruct (Z.ltb_spec slot c).
        * left. exists p, slot. fold c. repeat split; auto; lia.
        * right. apply Hnew_in. unfold first, blk_id. lia.
      + left. exists q, slot. repeat split; auto; lia.
    - intros [(q & slot & -> & Hq & Hs & Hs2)|Hin].
      + exists q, slot. rewrite Hcv3, Hcv2. destruct (Z.eqb_spec q p); repeat split; auto; try lia.
        subst q. fold c in Hs. lia.
      + apply Hnew_in in Hin. destruct (Hunc x Hin) as (_ & He).
        exists p, (c + (x - first)). rewrite Hcv3, Hcv2, Z.eqb_refl. repeat split; auto; lia. }
  exists pl', pe', new.
  split. { destruct HGP3. constructor; auto. }
  assert (Hlen : Z.of_nat (length new) = k) by (unfold new; rewrite down_length; lia).
  split; [intros Hn; rewrite Hn in Hlen; cbn in Hlen; lia|].
  split; [lia|]. split; [lia|]. split; [exact Hch|].
  split; [apply down_nodup|].
  split; [intros x Hx; apply Hnew_in in Hx; apply Hunc; auto|].
  split; [exact Hcarved4|].
  split.
  { intros x Hx. cbn. rewrite Hfr.
    - rewrite <- Hhp3. apply set_next_other. intros ->. apply Hx, Hnew_in. lia.
    - intros Hr. apply Hx, Hnew_in. lia. }
  split.
  { intros x. cbn. rewrite Hinfo, set_next_info, Hhp3. auto. }
  cbn. auto.
Qed.

(* ---------- mem_pool_return_partial_bucket *)
Lemma chainN_next_nth hp p l k :
  chainN hp p l -> (S k < length l)%nat -> h_next (hp (nth k l 0)) = nth (S k) l 0.
Proof.
  intros H; revert k; induction H; intros k Hk; cbn in Hk; [lia|].
  destruct k.
  - cbn. destruct l as [|y l]; [cbn in Hk; lia|]. inversion H0; subst. reflexivity.
  - cbn [nth]. apply IHchainN. lia.
Qed.

Lemma last_firstn_S (l : list Z) k : (k < length l)%nat -> last (firstn (S k) l) 0 = nth k l 0.
Proof. intros Hk. rewrite (firstn_S_snoc l k 0) by auto. apply last_snoc. Qed.

(* cut the chain pl after its m-th block and continue with the chain bl *)
Lemma chain_splice hp hp' p pl m b bl :
  NoDup pl -> chainN hp p pl -> (m < length pl)%nat ->
  chainN hp b bl -> (forall x, In x bl -> ~ In x pl) ->
  h_next (hp' (nth m pl 0)) = b ->
  (forall x, x <> nth m pl 0 -> h_next (hp' x) = h_next (hp x)) ->
  chainN hp' p (firstn (S m) pl ++ bl).
Proof.
  intros Hn Hc Hm Hb Hd Hnx Hfr. apply chainN_app. split.
  - apply (chainN_ext' hp); [now apply chainN_firstn|].
    intros x Hx. apply Hfr. eapply removelast_firstn_nodup; eauto.
  - destruct (firstn (S m) pl) eqn:E.
    + destruct pl; cbn in *; [lia|discriminate].
    + rewrite <- E, last_firstn_S, Hnx by auto.
      apply (chainN_ext hp); auto. intros x Hx. apply Hfr. intros ->.
      apply (Hd _ Hx). apply nth_In; auto.
Qed.

Definition same_pages (g g' : gpool) : Prop :=
  g_S g' = g_S g /\ g_pages g' = g_pages g /\ g_npages g' = g_npages g /\
  g_ptop g' = g_ptop g /\ g_empty g' = g_empty g.

Lemma GP_same g g' pl pe h : same_pages g g' -> GP g pl pe h -> GP g' pl pe h.
Proof.
  intros (E1 & E2 & E3 & E4 & E5) [H1 H2 H3 H4 H5 H6 H7 H8].
  constructor; unfold plnext, penext in *; rewrite ?E1, ?E2, ?E3, ?E4, ?E5; auto.
Qed.
Lemma carvedb_same g g' b : same_pages g g' -> carvedb g' b = carvedb g b.
Proof. intros (E1 & E2 & E3 & _). apply carvedb_ext; auto. now rewrite E2. Qed.

(* Permutation of two ++-lists built from the same atoms *)
Ltac perm_rot n :=
  match n with
  | O => fail
  | S ?n' =>
    first [ apply Permutation_app_head
          | etransitivity; [|apply Permutation_app_comm]; rewrite <- ?app_assoc; perm_rot n' ]
  end.
Ltac cons_to_app :=
  repeat match goal with
         | |- context [?x :: ?l] =>
           lazymatch l with [] => fail | _ => change (x :: l) with ([x] ++ l) end
         end.
Ltac perm :=
  cons_to_app; rewrite <- ?app_assoc; rewrite ?app_nil_r; rewrite ?app_nil_l;
  match goal with
  | |- Permutation ?x ?x => reflexivity
  | |- Permutation (_ ++ _) _ => perm_rot 12%nat; perm
  end.

Goal forall (a b c d : list Z), Permutation ((a ++ b) ++ c ++ d) (d ++ (c ++ a) ++ b).
Proof. intros. perm. Qed.

Lemma nth_in_skipn (l : list Z) k : (k < length l)%nat -> In (nth k l 0) (skipn k l).
Proof.
  revert k; induction l as [|a l IH]; intros k Hk; cbn in Hk; [lia|].
  destruct k; cbn; auto. apply IH. lia.
Qed.

Section RP.
Variable remf : Z -> Z -> Z -> Z.
Hypothesis remf_le : forall N P B, N <= P + B -> remf N P B <= P + B - N.

Lemma return_partial_spec g a b bl :
  GH g a -> chainN (g_hp g) b bl -> bl <> [] -> h_info (g_hp g b) = Z.of_nat (length bl) ->
  Z.of_nat (length bl) < g_N g ->
  NoDup (concat (a_lifo a) ++ a_pl a ++ bl) ->
  exists a', GH (return_partial_gen remf g b) a' /\ Permutation (FG a') (FG a ++ bl) /\
    (forall x, ~ In x (a_pl a) -> g_hp (return_partial_gen remf g b) x = g_hp g x) /\
    a_plifo a' = a_plifo a /\ a_pempty a' = a_pempty a /\
    g_N (return_partial_gen remf g b) = g_N g /\ same_pages g (return_partial_gen remf g b) /\
    ((forall N P B, remf N P B = P + B - N) -> tight g a -> tight (return_partial_gen remf g b) a').
Proof.
  intros (HN & HL & HP) Hb Hbl HB HBN Hnd.
  assert (Hb0 : b <> 0 /\ In b bl).
  { destruct bl as [|y l]; [congruence|]. inversion Hb; subst. split; [|left]; auto. }
  destruct Hb0 as (Hb0 & Hbin).
  apply NoDup_app_iff in Hnd. destruct Hnd as (Hnl & Hnd & Hd1).
  apply NoDup_app_iff in Hnd. destruct Hnd as (Hnpl & Hnbl & Hd2).
  assert (Hd3 : forall x, In x bl -> ~ In x (a_pl a)) by (intros x Hx Hi; apply (Hd2 x); auto).
  assert (Hd4 : forall x, In x (concat (a_lifo a)) -> ~ In x (a_pl a) /\ ~ In x bl).
  { intros x Hx. split; intros Hi; apply (Hd1 x Hx); apply in_or_app; auto. }
  unfold return_partial_gen.
  destruct (Z.eqb_spec (g_partial g) 0) as [Hp0|Hp0].
  - (* no partial bucket yet *)
    destruct HP as [(_ & Hpl)|(Hc & _)]; [|congruence].
    exists (mkAG (a_lifo a) bl (a_lost a) (a_plifo a) (a_pempty a)).
    split; [|split; [|split; [|split; [reflexivity|split; [reflexivity|split; [reflexivity|split; [repeat split|]]]]]]].
    + split; [auto|split]; cbn.
      * eapply GHL_frame; eauto.
      * right. cbn. repeat split; auto. lia.
    + unfold FG; cbn. rewrite Hpl. perm.
    + auto.
    + intros _ (Hlost & _). split; cbn; auto.
  - destruct HP as [(Hc & _)|(_ & Hc & Hne & HPle)]; [congruence|].
    set (pl := a_pl a) in *. set (P := h_info (g_hp g (g_partial g))) in *.
    rewrite HB. set (B := Z.of_nat (length bl)) in *.
    assert (HB1 : 1 <= B) by (destruct bl; cbn in *; [congruence|lia]).
    assert (Hlen1 : (1 <= length pl)%nat) by (destruct pl; cbn; [congruence|lia]).
    assert (Hpin : In (g_partial g) pl) by (destruct pl as [|y l]; [congruence|]; inversion Hc; subst; left; auto).
    assert (Hp_hd : nth 0 pl 0 = g_partial g) by (destruct pl as [|y l]; [congruence|]; inversion Hc; subst; auto).
    destruct (Z.ltb_spec (P + B) (g_N g)) as [Hlt|Hge].
    + (* still not a complete bucket: append *)
      set (m := Z.to_nat (P - 1)).
      assert (Hm : (m < length pl)%nat) by lia.
      assert (Htail : walk_next (g_hp g) (g_partial g) m = nth m pl 0) by (apply walk_next_chain; auto).
      rewrite Htail. set (tail := nth m pl 0) in *.
      assert (Htin : In tail pl) by (apply nth_In; auto).
      set (hp2 := set_info (set_next (g_hp g) tail b) (g_partial g) (P + B)).
      exists (mkAG (a_lifo a) (firstn (S m) pl ++ bl) (a_lost a ++ skipn (S m) pl) (a_plifo a) (a_pempty a)).
      assert (Hfr : forall x, ~ In x pl -> hp2 x = g_hp g x).
      { intros x Hx. unfold hp2. rewrite set_info_other, set_next_other; auto; intros ->; auto. }
      split; [|split; [|split; [|split; [reflexivity|split; [reflexivity|split; [reflexivity|split; [repeat split|]]]]]]].
      * split; [auto|split].
        -- cbn. eapply GHL_frame; eauto. cbn. intros x Hx. apply Hfr. apply Hd4; auto.
        -- right. unfold set_hp; cbn [a_pl g_partial g_hp]. repeat split; auto.
           ++ apply (chain_splice (g_hp g) hp2 (g_partial g) pl m b bl); auto.
              ** unfold hp2. rewrite set_info_next, set_next_next, Z.eqb_refl. auto.
              ** intros x Hx. unfold hp2. rewrite set_info_next, set_next_next.
                 destruct (Z.eqb_spec x tail) as [->|]; [exfalso; apply Hx; reflexivity|reflexivity].
           ++ intros E. apply app_eq_nil in E. destruct E as (_ & E). congruence.
           ++ unfold hp2. rewrite set_info_info, Z.eqb_refl. rewrite app_length, firstn_length_le by lia.
              fold B. lia.
      * unfold FG; cbn [a_lifo a_pl a_lost]. fold pl.
        pose proof (firstn_skipn (S m) pl) as Hfs.
        set (F := firstn (S m) pl) in *. set (K := skipn (S m) pl) in *. rewrite <- Hfs. perm.
      * intros x Hx. cbn. auto.
      * intros Hrem (Hlost & Hcnt). specialize (Hcnt Hp0). fold P pl in Hcnt.
        assert (Hm' : S m = length pl) by lia.
        unfold tight. cbn [a_lost a_pl g_partial g_hp set_hp].
        rewrite Hm', skipn_all, firstn_all, Hlost. split; [reflexivity|].
        intros _. unfold hp2. rewrite set_info_info, Z.eqb_refl, app_length. fold B. lia.
    + (* complete a bucket *)
      set (j := Z.to_nat (g_N g - B - 1)).
      assert (Hj : (j < length pl)%nat) by lia.
      assert (Hph : walk_next (g_hp g) (g_partial g) j = nth j pl 0) by (apply walk_next_chain; auto).
      rewrite Hph. set (ph := nth j pl 0) in *.
      assert (Hphin : In ph pl) by (apply nth_In; auto).
      pose proof (firstn_skipn (S j) pl) as Hfs.
      assert (HlenF : length (firstn (S j) pl) = S j) by (apply firstn_length_le; lia).
      assert (Hsplit : NoDup (firstn (S j) pl ++ skipn (S j) pl)) by (rewrite Hfs; auto).
      apply NoDup_app_iff in Hsplit. destruct Hsplit as (HnF & HnK & HdFK).
      assert (HphF : In ph (firstn (S j) pl)).
      { rewrite (firstn_S_snoc pl j 0) by auto. apply in_or_app; right; left; auto. }
      assert (HpF : In (g_partial g) (firstn (S j) pl)).
      { destruct pl as [|y l]; [congruence|]. inversion Hc; subst. left; auto. }
      set (F := firstn (S j) pl) in *. set (K := skipn (S j) pl) in *.
      assert (HinF : forall x, In x F -> In x pl) by (intros x Hx; rewrite <- Hfs; apply in_or_app; auto).
      assert (HinK : forall x, In x K -> In x pl) by (intros x Hx; rewrite <- Hfs; apply in_or_app; auto).
      (* the completed bucket, for any header memory that links ph to b and keeps the other links *)
      assert (Hbucket : forall hp2 : Z -> hdr,
                 h_next (hp2 ph) = b -> (forall x, x <> ph -> h_next (hp2 x) = h_next (g_hp g x)) ->
                 (forall x, ~ In x pl -> hp2 x = g_hp g x) ->
                 GHL (return_bucket (set_hp g hp2) (g_partial g)) ((F ++ bl) :: a_lifo a)).
      { intros hp2 Hn1 Hn2 Hn3. apply return_bucket_GHL; auto.
        - eapply GHL_frame; eauto. cbn. intros x Hx. apply Hn3. apply Hd4; auto.
        - change (g_hp (set_hp g hp2)) with hp2. unfold F. apply (chain_splice (g_hp g) hp2 (g_partial g) pl j b bl); auto.
        - change (g_N (set_hp g hp2)) with (g_N g). rewrite app_length, HlenF. fold B. lia.
        - intros x Hx Hi. apply in_app_or in Hx. destruct (Hd4 x Hi) as (Ha & Hb').
          destruct Hx as [Hx|Hx]; auto. }
      destruct (Z.eqb_spec (P + B) (g_N g)) as [Heq|Hneq]; cbn [negb].
      * (* exactly one bucket *)
        set (hp2 := set_next (g_hp g) ph b).
        exists (mkAG ((F ++ bl) :: a_lifo a) [] (a_lost a ++ K) (a_plifo a) (a_pempty a)).
        split; [|split; [|split; [|split; [reflexivity|split; [reflexivity|split; [reflexivity|split; [repeat split|]]]]]]].
        -- split; [auto|split].
           ++ cbn [a_lifo]. eapply (GHL_frame (return_bucket (set_hp g hp2) (g_partial g))); auto.
              apply Hbucket.
              ** unfold hp2. now rewrite set_next_next, Z.eqb_refl.
              ** intros x Hx. unfold hp2. rewrite set_next_next. destruct (Z.eqb_spec x ph); congruence.
              ** intros x Hx. unfold hp2. apply set_next_other. intros ->. auto.
           ++ left. split; reflexivity.
        -- unfold FG; cbn [a_lifo a_pl a_lost concat]. fold pl. rewrite <- Hfs. perm.
        -- intros x Hx. cbn. rewrite set_info_other by (intros ->; auto).
           apply set_next_other. intros ->. auto.
        -- intros Hrem (Hlost & Hcnt). specialize (Hcnt Hp0). fold P pl in Hcnt.
           assert (HK : K = []).
           { apply length_zero_iff_nil. unfold K. rewrite skipn_length. lia. }
           unfold tight. cbn [a_lost a_pl]. rewrite HK, Hlost. split; [reflexivity|].
           intros Hc'. exfalso. apply Hc'. reflexivity.
      * (* more than one bucket: the rest stays partial *)
        assert (HSj : (S j < length pl)%nat) by lia.
        assert (Hnp : h_next (g_hp g ph) = nth (S j) pl 0) by (apply (chainN_next_nth (g_hp g) (g_partial g)); auto).
        rewrite Hnp. set (np := nth (S j) pl 0) in *.
        assert (HnpK : In np K).
        { unfold K, np. apply nth_in_skipn; auto. }
        assert (HcK : chainN (g_hp g) np K) by (apply (chainN_skipn (g_hp g) (g_partial g)); auto).
        set (r := remf (g_N g) P B).
        set (hp2 := set_next (set_info (g_hp g) np r) ph b).
        exists (mkAG ((F ++ bl) :: a_lifo a) K (a_lost a) (a_plifo a) (a_pempty a)).
        assert (HnpF : ~ In np F) by (intros Hi; apply (HdFK np); auto).
        assert (Hnpp : np <> g_partial g) by (intros He; apply HnpF; rewrite He; auto).
        assert (HphK : ~ In ph K) by (apply HdFK; auto).
        split; [|split; [|split; [|split; [reflexivity|split; [reflexivity|split; [reflexivity|split; [repeat split|]]]]]]].
        -- split; [auto|split].
           ++ cbn [a_lifo]. eapply (GHL_frame (return_bucket (set_hp g hp2) (g_partial g))); auto.
              apply Hbucket.
              ** unfold hp2. now rewrite set_next_next, Z.eqb_refl.
              ** intros x Hx. unfold hp2. rewrite set_next_next, set_info_next.
                 destruct (Z.eqb_spec x ph); congruence.
              ** intros x Hx. unfold hp2. rewrite set_next_other, set_info_other; auto; intros ->; auto.
           ++ right. cbn [a_pl set_partial g_partial g_hp return_bucket seq_push set_blifo set_hp].
              repeat split.
              ** eapply chainN_nonzero; eauto.
              ** apply chainN_set_info. unfold hp2. apply (chainN_ext (g_hp g)); auto.
                 intros x Hx. rewrite set_next_next, set_info_next.
                 destruct (Z.eqb_spec x ph); [subst; tauto|auto].
              ** intros E. rewrite E in HnpK. destruct HnpK.
              ** rewrite set_info_other by auto. unfold hp2. rewrite set_next_info, set_info_info, Z.eqb_refl.
                 unfold K. rewrite skipn_length. pose proof (remf_le (g_N g) P B Hge) as Hr. fold r in Hr. lia.
        -- unfold FG; cbn [a_lifo a_pl a_lost concat]. fold pl. rewrite <- Hfs. perm.
        -- intros x Hx. cbn. rewrite set_info_other by (intros ->; auto).
           unfold hp2. rewrite set_next_other, set_info_other; auto; intros ->; auto.
        -- intros Hrem (Hlost & Hcnt). specialize (Hcnt Hp0). fold P pl in Hcnt.
           unfold tight. cbn [a_lost a_pl set_partial g_partial g_hp return_bucket seq_push set_blifo set_hp].
           split; auto. intros _.
           rewrite set_info_other by auto. unfold hp2. rewrite set_next_info, set_info_info, Z.eqb_refl.
           unfold K, r. rewrite skipn_length, Hrem. lia.
Qed.
End RP.

(* ---------- take_bucket, slow path: carve headers out of pages *)
Definition carved_step (g g' : gpool) (new : list Z) : Prop :=
  NoDup new /\ (forall x, In x new -> carvedb g x = false) /\
  (forall x, carvedb g' x = true <-> carvedb g x = true \/ In x new).

Lemma carved_step_nil g g' : (forall x, carvedb g' x = carvedb g x) -> carved_step g g' [].
Proof.
  intros H. split; [constructor|split; [intros x []|]]. intros x. rewrite H. cbn. tauto.
Qed.

Lemma carved_step_trans g g1 g2 n1 n2 :
  carved_step g g1 n1 -> carved_step g1 g2 n2 -> carved_step g g2 (n1 ++ n2).
Proof.
  intros (A1 & A2 & A3) (B1 & B2 & B3). split; [|split].
  - apply NoDup_app_iff. split; auto. split; auto. intros x Hx Hy.
    specialize (B2 x Hy). assert (carvedb g1 x = true) by (apply A3; auto). congruence.
  - intros x Hx. apply in_app_or in Hx. destruct Hx as [Hx|Hx]; auto.
    specialize (B2 x Hx). destruct (carvedb g x) eqn:E; auto.
    assert (carvedb g1 x = true) by (apply A3; auto). congruence.
  - intros x. rewrite B3, A3, in_app_iff. tauto.
Qed.

Lemma NoDup_app_drop_mid {A} (x y z : list A) : NoDup (x ++ y ++ z) -> NoDup (x ++ z).
Proof.
  rewrite !NoDup_app_iff. intros (H1 & (H2 & H3 & H4) & H5). split; auto. split; auto.
  intros a Ha Hz. apply (H5 a Ha). apply in_or_app; auto.
Qed.

Lemma GH_FG_carved_partial g a :
  GH g a -> g_partial g <> 0 -> In (g_partial g) (FG a).
Proof.
  intros (_ & _ & HP) Hp. unfold FG. apply in_or_app; right. apply in_or_app; left.
  eapply partial_in_pl; eauto.
Qed.

Section TL.
Variable remf : Z -> Z -> Z -> Z.
Hypothesis remf_le : forall N P B, N <= P + B -> remf N P B <= P + B - N.

Definition with_pages (a : absg) (pl pe : list Z) : absg :=
  mkAG (a_lifo a) (a_pl a) (a_lost a) pl pe.

Lemma take_loop_spec f : forall g a nh p_head acc,
  G g a -> chainN (g_hp g) p_head acc -> Z.of_nat (length acc) = nh -> 0 <= nh < g_N g ->
  NoDup (FG a ++ acc) -> (forall x, In x (FG a ++ acc) -> carvedb g x = true) ->
  (Z.to_nat (g_N g - nh) <= f)%nat ->
  match take_loop remf f g nh p_head with
  | TBOk g' b => exists a' new bl,
      G g' a' /\ chainN (g_hp g') b bl /\ Z.of_nat (length bl) = g_N g /\ h_info (g_hp g' b) = g_N g /\
      Permutation (FG a' ++ bl) (FG a ++ acc ++ new) /\ carved_step g g' new /\
      (forall x, carvedb g x = true -> g_hp g' x = g_hp g x) /\
      g_N g' = g_N g /\ g_S g' = g_S g /\ g_partial g' = g_partial g /\
      a_lost a' = a_lost a /\ a_pl a' = a_pl a
  | TBNoMem g' => exists a' new,
      G g' a' /\ Permutation (FG a') (FG a ++ acc ++ new) /\ carved_step g g' new /\
      (forall x, carvedb g x = true -> ~ In x (a_pl a ++ acc) -> g_hp g' x = g_hp g x) /\
      g_N g' = g_N g /\ g_S g' = g_S g /\
      ((forall N P B, remf N P B = P + B - N) -> tight g a -> tight g' a')
  | TBFuel => False
  end.
Proof.
  induction f as [|f IH]; intros g a nh p_head acc HG Hc Hlen Hnh Hnd Hcv Hf.
  - lia.
  - cbn [take_loop]. destruct HG as (HGH & HGP). pose proof HGH as (HN & HL & HP).
    destruct (get_page g) as [[g1 p]|] eqn:Egp.
    + (* a page is available *)
      destruct (get_page_spec g _ _ g1 p HGP Egp) as (pl1 & HGP1 & Ehp1 & EN1 & ES1 & Ebt1 & Epa1 & Ecv1 & Hp1).
      destruct (carve_page g1 p nh p_head) as [[g4 nh'] head'] eqn:Ecp.
      assert (Hacc1 : forall x, In x acc -> carvedb g1 x = true).
      { intros x Hx. rewrite Ecv1. apply Hcv. apply in_or_app; auto. }
      pose proof (carve_page_spec g1 pl1 (a_pempty a) p nh p_head acc g4 nh' head' HGP1) as Hcps.
      rewrite EN1, Ehp1 in Hcps. specialize (Hcps HN Hnh Hc Hacc1 Ecp).
      destruct Hcps as (pl' & pe' & new & HGP4 & Hnew & Hnh' & Hle & Hch & Hnn & Hunc & Hcv4 & Hfr4 & Hinfo4 &
           EN4 & ES4 & Ebt4 & Epa4).
      try rewrite EN1 in *. try rewrite Ehp1 in *.
      assert (Hnewunc : forall x, In x new -> carvedb g x = false) by (intros x Hx; rewrite <- Ecv1; auto).
      assert (Hfr : forall x, carvedb g x = true -> g_hp g4 x = g_hp g x).
      { intros x Hx. apply Hfr4. intros Hi. rewrite (Hnewunc x Hi) in Hx. discriminate. }
      assert (HGH4 : GH g4 (with_pages a pl' pe')).
      { split; [lia|split]; cbn.
        - eapply GHL_frame; eauto; try lia. intros x Hx. apply Hfr. apply Hcv.
          apply in_or_app; left. unfold FG. apply in_or_app; auto.
        - eapply GHP_frame; eauto; try lia. intros x Hx. apply Hfr. apply Hcv.
          apply in_or_app; left. unfold FG. apply in_or_app; right. apply in_or_app; auto. }
      assert (Hlen_new : 1 <= Z.of_nat (length new)) by (destruct new; cbn [length]; [congruence|lia]).
      assert (Hstep : carved_step g g4 new).
      { split; auto. split; auto. intros x. rewrite Hcv4, Ecv1. tauto. }
      assert (Hhead : In head' new).
      { destruct new as [|y l]; [congruence|]. cbn in Hch. inversion Hch; subst. left; auto. }
      destruct (Z.eqb_spec nh' (g_N g4)) as [Efull|Enf].
      * (* the bucket is complete *)
        exists (with_pages a pl' pe'), new, (new ++ acc).
        split; [|split; [|split; [|split; [|split; [|split; [|split; [|repeat split; cbn; congruence]]]]]]].
        -- split.
           ++ apply GH_frame; auto. intros x Hx. apply set_info_other. intros ->.
              assert (carvedb g head' = true).
              { apply Hcv. apply in_or_app; left. unfold FG. rewrite app_assoc. apply in_or_app; auto. }
              rewrite (Hnewunc _ Hhead) in H. discriminate.
           ++ eapply GP_same; [|exact HGP4]. repeat split.
        -- cbn. now apply chainN_set_info.
        -- rewrite app_length, Nat2Z.inj_add. lia.
        -- cbn. rewrite set_info_info, Z.eqb_refl. lia.
        -- unfold FG; cbn. perm.
        -- destruct Hstep as (S1 & S2 & S3). split; auto.
        -- intros x Hx. cbn. rewrite set_info_other; auto. intros ->.
           rewrite (Hnewunc _ Hhead) in Hx. discriminate.
      * (* go on with the next page *)
        specialize (IH g4 (with_pages a pl' pe') nh' head' (new ++ acc)).
        assert (HFG : FG (with_pages a pl' pe') = FG a) by reflexivity.
        rewrite HFG in IH.
        assert (Hnd' : NoDup (FG a ++ new ++ acc)).
        { apply NoDup_app_iff in Hnd. destruct Hnd as (N1 & N2 & N3).
          apply NoDup_app_iff. split; auto. split.
          - apply NoDup_app_iff. split; auto. split; auto. intros x Hx Hy.
            assert (carvedb g x = true) by (apply Hcv; apply in_or_app; auto).
            rewrite (Hnewunc _ Hx) in H. discriminate.
          - intros x Hx Hy. apply in_app_or in Hy. destruct Hy as [Hy|Hy]; [|eapply N3; eauto].
            assert (carvedb g x = true) by (apply Hcv; apply in_or_app; auto).
            rewrite (Hnewunc _ Hy) in H. discriminate. }
        assert (Hcv' : forall x, In x (FG a ++ new ++ acc) -> carvedb g4 x = true).
        { intros x Hx. apply Hcv4. rewrite Ecv1. rewrite !in_app_iff in Hx.
          destruct Hx as [Hx|[Hx|Hx]]; auto; left; apply Hcv; apply in_or_app; auto. }
        lapply IH; [clear IH; intros IH|split; auto].
        lapply IH; [clear IH; intros IH|auto].
        lapply IH; [clear IH; intros IH|rewrite app_length, Nat2Z.inj_add; lia].
        lapply IH; [clear IH; intros IH|lia].
        lapply IH; [clear IH; intros IH|auto].
        lapply IH; [clear IH; intros IH|auto].
        lapply IH; [clear IH; intros IH|lia].
        destruct (take_loop remf f g4 nh' head') as [g' b|g'|]; auto.
        -- destruct IH as (a' & new2 & bl & I1 & I2 & I3 & I4 & I5 & I6 & I7 & I8 & I9 & I10 & I11 & I12).
           exists a', (new ++ new2), bl.
           split; auto. split; auto. split; [lia|]. split; [lia|].
           split. { etransitivity; [exact I5|]. perm. }
           split. { eapply carved_step_trans; eauto. }
           split. { intros x Hx. rewrite I7; auto. apply Hcv4. rewrite Ecv1. auto. }
           repeat split; auto; try lia; congruence.
        -- destruct IH as (a' & new2 & I1 & I2 & I3 & I4 & I5 & I6 & I7).
           exists a', (new ++ new2).
           split; auto.
           split. { etransitivity; [exact I2|]. perm. }
           split. { eapply carved_step_trans; eauto. }
           split.
           { intros x Hx Hni. rewrite I4; auto.
             - apply Hcv4. rewrite Ecv1. auto.
             - cbn. intros Hi. apply Hni. rewrite !in_app_iff in *.
               destruct Hi as [Hi|[Hi|Hi]]; auto. rewrite (Hnewunc _ Hi) in Hx. discriminate. }
           split; [lia|]. split; [lia|].
           intros Hrem Ht. apply I7; auto. destruct Ht as (T1 & T2). split; auto.
           cbn. rewrite Epa4, Epa1. intros Hp. rewrite Hfr; auto.
           apply Hcv. apply in_or_app; left. apply GH_FG_carved_partial; auto.
    + (* no page: give back what was carved so far *)
      destruct (Z.eqb_spec nh 0) as [Hz|Hnz]; cbn [negb].
      * exists a, []. assert (acc = []) by (destruct acc; cbn in *; [auto|lia]). subst acc.
        split; [split; auto|]. split; [perm|]. split; [apply carved_step_nil; auto|].
        split; [auto|]. split; [auto|]. split; [auto|]. auto.
      * set (g0 := set_hp g (set_info (g_hp g) p_head nh)).
        assert (Hacc : acc <> []) by (intros ->; cbn in *; lia).
        assert (Hph : In p_head acc /\ hd 0 acc = p_head).
        { destruct acc as [|y l]; [congruence|]. inversion Hc; subst. split; [left|]; auto. }
        destruct Hph as (Hph & _).
        assert (Hndis : forall x, In x (FG a) -> x <> p_head).
        { intros x Hx ->. apply NoDup_app_iff in Hnd. destruct Hnd as (_ & _ & N3). eapply N3; eauto. }
        assert (HGH0 : GH g0 a).
        { apply GH_frame; auto. intros x Hx. apply set_info_other. apply Hndis.
          unfold FG. rewrite app_assoc. apply in_or_app; auto. }
        destruct (return_partial_spec remf remf_le g0 a p_head acc) as
            (a' & R1 & R2 & R3 & R4 & R5 & R6 & R7 & R8); auto.
        { cbn. now apply chainN_set_info. }
        { cbn. rewrite set_info_info, Z.eqb_refl. lia. }
        { cbn. lia. }
        { unfold FG in Hnd. rewrite <- !app_assoc in Hnd. rewrite app_assoc in Hnd.
          apply NoDup_app_drop_mid in Hnd. now rewrite <- app_assoc in Hnd. }
        exists a', [].
        split.
        { split; auto. rewrite R4, R5. eapply GP_same; [exact R7|]. eapply GP_same; [|exact HGP]. repeat split. }
        split; [rewrite app_nil_r; exact R2|].
        split. { apply carved_step_nil. intros x. rewrite (carvedb_same g0); auto. }
        split.
        { intros x Hx Hni. rewrite R3 by (intros Hi; apply Hni; apply in_or_app; auto).
          cbn. apply set_info_other. intros ->. apply Hni. apply in_or_app; auto. }
        split; [exact R6|]. split; [destruct R7 as (R7 & _); exact R7|].
        intros Hrem Ht. apply R8; auto. destruct Ht as (T1 & T2). split; auto.
        cbn. intros Hp. rewrite set_info_other; auto. apply Hndis. apply GH_FG_carved_partial; auto.
Qed.
End TL.

Section TB.
Variable remf : Z -> Z -> Z -> Z.
Hypothesis remf_le : forall N P B, N <= P + B -> remf N P B <= P + B - N.

Lemma take_bucket_spec g a :
  G g a -> NoDup (FG a) -> (forall x, In x (FG a) -> carvedb g x = true) ->
  match take_bucket remf g with
  | TBOk g' b => exists a' new bl,
      G g' a' /\ chainN (g_hp g') b bl /\ Z.of_nat (length bl) = g_N g /\ h_info (g_hp g' b) = g_N g /\
      Permutation (FG a' ++ bl) (FG a ++ new) /\ carved_step g g' new /\
      (forall x, carvedb g x = true -> ~ In x (FG a) -> g_hp g' x = g_hp g x) /\
      g_N g' = g_N g /\ g_S g' = g_S g /\ (tight g a -> tight g' a')
  | TBNoMem g' => exists a' new,
      G g' a' /\ Permutation (FG a') (FG a ++ new) /\ carved_step g g' new /\
      (forall x, carvedb g x = true -> ~ In x (FG a) -> g_hp g' x = g_hp g x) /\
      g_N g' = g_N g /\ g_S g' = g_S g /\
      ((forall N P B, remf N P B = P + B - N) -> tight g a -> tight g' a')
  | TBFuel => False
  end.
Proof.
  intros HG Hnd Hcv. unfold take_bucket.
  destruct (seq_pop (g_btop g) (g_btag g) (h_info (g_hp g (g_btop g)))) as [[[b t] tg]|] eqn:Ep.
  - (* fast path *)
    destruct HG as (HGH & HGP).
    assert (Hnd' : NoDup (concat (a_lifo a) ++ a_pl a)).
    { unfold FG in Hnd. rewrite app_assoc in Hnd. apply NoDup_app_iff in Hnd. tauto. }
    destruct (take_pop g a b t tg HGH Hnd' Ep) as (bl & rest & El & HGH' & Hc & Hlen & Hinfo & Hfr).
    cbn zeta in *.
    exists (mkAG rest (a_pl a) (a_lost a) (a_plifo a) (a_pempty a)), [], bl.
    assert (Hbin : In b bl).
    { destruct bl as [|y l]; [cbn in Hlen; destruct HGH; lia|]. inversion Hc; subst. left; auto. }
    split; [split; auto|]. { eapply GP_same; [|exact HGP]. repeat split. }
    split; auto. split; auto. split; auto.
    split. { unfold FG; cbn. rewrite El. cbn. perm. }
    split. { apply carved_step_nil. intros x. apply carvedb_ext; auto. }
    split. { intros x _ Hx. apply Hfr. intros ->. apply Hx. unfold FG. rewrite El. cbn.
             apply in_or_app; left. apply in_or_app; auto. }
    split; auto. split; auto.
    intros (T1 & T2). split; auto. cbn. intros Hp.
    assert (Hpb : g_partial g <> b).
    { intros He. assert (Hpin : In (g_partial g) (a_pl a)).
      { destruct HGH as (_ & _ & HP). eapply partial_in_pl; eauto. }
      rewrite El in Hnd'. cbn in Hnd'. rewrite <- app_assoc in Hnd'. apply NoDup_app_iff in Hnd'.
      destruct Hnd' as (_ & _ & N3). apply (N3 b Hbin). apply in_or_app; right. now rewrite <- He. }
    rewrite set_info_other by auto. auto.
  - (* slow path *)
    pose proof HG as ((HN & _) & _).
    pose proof (take_loop_spec remf remf_le (Z.to_nat (g_N g)) g a 0 0 [] HG (cn_nil _ _) eq_refl) as H.
    rewrite !app_nil_r in H. specialize (H ltac:(lia) Hnd Hcv ltac:(lia)).
    destruct (take_loop remf (Z.to_nat (g_N g)) g 0 0) as [g' b|g'|]; auto.
    + destruct H as (a' & new & bl & I1 & I2 & I3 & I4 & I5 & I6 & I7 & I8 & I9 & I10 & I11 & I12).
      exists a', new, bl. split; auto. split; auto. split; auto. split; auto.
      split; [exact I5|]. split; auto. split; [intros x Hx _; auto|]. split; auto. split; auto.
      intros (T1 & T2). split; [congruence|]. rewrite I10, I12. intros Hp. rewrite I7; auto.
      apply Hcv. apply GH_FG_carved_partial; auto. apply HG.
    + destruct H as (a' & new & I1 & I2 & I3 & I4 & I5 & I6 & I7).
      exists a', new. split; auto. split; auto. split; auto.
      split. { intros x Hx Hni. apply I4; auto. intros Hi. apply Hni.
               unfold FG. apply in_or_app; right. apply in_or_app; auto. }
      auto.
Qed.
End TB.
