(* Proofs about DS/StackGeom.v: every provenance of ythread_create gives the
   ULT at least the requested stack, inside memory the runtime (or the user)
   owns, next to a descriptor that does not overlap it, and ABTI_mem_free_thread
   hands back exactly the pointer that was obtained -- for every size. *)
From Coq Require Import List ZArith Bool Lia.
From ABT Require Import DS.StackGeom.
Import ListNotations.
Local Open Scope Z_scope.

(* ---------- roundup *)
Lemma roundup_ge v m : 0 < m -> v <= roundup v m.
Proof.
  intros Hm. unfold roundup. pose proof (Z.div_mod (v + m - 1) m ltac:(lia)).
  pose proof (Z.mod_pos_bound (v + m - 1) m Hm). nia.
Qed.
Lemma roundup_lt v m : 0 < m -> roundup v m < v + m.
Proof.
  intros Hm. unfold roundup. pose proof (Z.div_mod (v + m - 1) m ltac:(lia)).
  pose proof (Z.mod_pos_bound (v + m - 1) m Hm). nia.
Qed.
Lemma roundup_mod v m : 0 < m -> roundup v m mod m = 0.
Proof. intros Hm. unfold roundup. apply Z.mod_mul. lia. Qed.
Lemma roundup_id v m : 0 < m -> v mod m = 0 -> roundup v m = v.
Proof.
  intros Hm Hv. unfold roundup. apply Z.mod_divide in Hv; [|lia]. destruct Hv as (k & ->).
  replace (k * m + m - 1) with ((m - 1) + k * m) by ring.
  rewrite Z.div_add by lia. rewrite Z.div_small by lia. ring.
Qed.
Lemma roundup_id_iff v m : 0 < m -> (roundup v m = v <-> v mod m = 0).
Proof.
  intros Hm. split; [|apply roundup_id; auto]. intros H. rewrite <- H. now apply roundup_mod.
Qed.
(* the power-of-two branch of ABTU_roundup_size: (val + m - 1) & ~(m - 1) *)
Lemma roundup_pow2_bitwise v k :
  0 <= k -> roundup v (2 ^ k) = Z.land (v + 2 ^ k - 1) (Z.lnot (2 ^ k - 1)).
Proof.
  intros Hk. unfold roundup. replace (2 ^ k - 1) with (Z.ones k) by (rewrite Z.ones_equiv; lia).
  rewrite <- Z.ldiff_land. rewrite Z.ldiff_ones_r by lia.
  now rewrite Z.shiftl_mul_pow2, Z.shiftr_div_pow2 by lia.
Qed.

(* ---------- what the runtime owns after the request [r] was answered with [ptr] *)
Definition owned (sz_y default : Z) (r : alloc_req) (ptr : Z) : Z * Z :=
  match r with
  | ReqMalloc size => abtu_malloc_extent size ptr
  | ReqPoolStack => (slot_lo default ptr, slot_hi sz_y default ptr)
  | ReqPoolDesc => (ptr, ptr + desc_elem sz_y)
  end.

(* the release that undoes request [r] answered with [ptr] *)
Definition undo (r : alloc_req) (ptr : Z) : release :=
  match r with
  | ReqMalloc _ => RelFree ptr
  | ReqPoolStack => RelPoolStack ptr
  | ReqPoolDesc => RelPoolDesc ptr
  end.

Definition requested (default : Z) (a : attr) : Z :=
  match a with AttrNull => default | Attr _ s => s end.
Definition user_stack (a : attr) : option (Z * Z) :=
  match a with Attr p s => if p =? 0 then None else Some (p, p + s) | AttrNull => None end.

Lemma stack_header_size_ge sz_y default :
  0 <= sz_y -> 0 <= default -> default + sz_y <= stack_header_size sz_y default.
Proof.
  intros. unfold stack_header_size. pose proof (roundup_ge (default + sz_y) CL ltac:(unfold CL; lia)).
  destruct (_ =? 0); unfold CL in *; lia.
Qed.
Lemma stack_header_size_mod sz_y default : stack_header_size sz_y default mod CL = 0.
Proof.
  unfold stack_header_size. pose proof (roundup_mod (default + sz_y) CL ltac:(unfold CL; lia)) as H.
  destruct (_ =? 0); auto. rewrite <- Z.add_mod_idemp_l by (unfold CL; lia). rewrite H. reflexivity.
Qed.

Ltac geom_red :=
  cbn [fst snd ym_type ym_desc ym_stacktop ym_stacksize owned undo usable get_attr abtu_malloc_extent
       alloc_malloc_desc_stack alloc_mempool_desc_stack alloc_mempool_desc free_thread_gen negb] in *;
  unfold malloc_desc_stack_request, slot_lo, slot_hi, usable, get_attr, abtu_malloc_extent,
         alloc_malloc_desc_stack, alloc_mempool_desc_stack, alloc_mempool_desc, free_thread_gen in *;
  cbn [fst snd ym_type ym_desc ym_stacktop ym_stacksize] in *.
Ltac geom_crunch :=
  geom_red;
  repeat (match goal with
          | |- context [?x =? ?y] => destruct (Z.eqb_spec x y)
          end; geom_red);
  repeat split; try lia; try (f_equal; lia).

Section Thm.
Variable sz_y default : Z.
Hypothesis sz_y_pos : 0 < sz_y.
Hypothesis default_pos : 0 < default.

Definition attr_ok (a : attr) : Prop :=
  match a with AttrNull => True | Attr p s => 0 <= p /\ 0 <= s end.

(* [fsz] such that fsz s = roundup s 64: the patched free path *)
Theorem stack_size_gen (fsz : Z -> Z) (on_es : bool) (a : attr) (ptr : Z) :
  (forall s, fsz s = roundup s CL) ->
  attr_ok a -> 0 < ptr ->
  let r := ythread_create_req sz_y default on_es a in
  let y := ythread_create_mem default on_es a ptr in
  let lo := fst (owned sz_y default r ptr) in
  let hi := snd (owned sz_y default r ptr) in
  (* the descriptor lies in owned memory *)
  lo <= ym_desc y /\ ym_desc y + sz_y <= hi /\
  (* the recorded stack size is the requested one, also seen through get_attr *)
  ym_stacksize y = requested default a /\ snd (get_attr y) = requested default a /\
  (* the stack *)
  match user_stack a with
  | Some (ulo, uhi) => usable y = (ulo, uhi) /\ fst (get_attr y) = ulo
  | None =>
      if requested default a =? 0 then ym_stacktop y = 0 /\ fst (get_attr y) = 0
      else lo <= fst (usable y) /\ snd (usable y) <= ym_desc y /\
           snd (usable y) - fst (usable y) = requested default a /\
           fst (get_attr y) = fst (usable y)
  end /\
  (* ABTI_mem_free_thread gives back what was obtained *)
  free_thread_gen fsz y = undo r ptr.
Proof.
  intros Hf Ha Hptr r y lo hi. subst r y lo hi.
  assert (HCL : 0 < CL) by (unfold CL; lia).
  assert (Hru : forall s, s <= roundup s CL) by (intros; apply roundup_ge; auto).
  pose proof (Hru sz_y) as Hde. fold (desc_elem sz_y) in Hde.
  pose proof (stack_header_size_ge sz_y default ltac:(lia) ltac:(lia)) as Hhs.
  pose proof (Hru default) as R1. pose proof (Hru (roundup default CL + sz_y)) as R2.
  pose proof (Hru (desc_elem sz_y)) as R5.
  unfold ythread_create_req, ythread_create_mem, user_stack, requested, attr_ok in *.
  destruct a as [|p s].
  - destruct on_es; geom_crunch; rewrite ?Hf; try (f_equal; lia).
  - destruct Ha as (Hp & Hs).
    pose proof (Hru s) as R3. pose proof (Hru (roundup s CL + sz_y)) as R4.
    destruct on_es; geom_crunch; rewrite ?Hf; try (f_equal; lia).
Qed.
End Thm.

(* the patched code *)
Theorem stack_size_fixed sz_y default on_es a ptr :
  0 < sz_y -> 0 < default -> attr_ok a -> 0 < ptr ->
  let r := ythread_create_req sz_y default on_es a in
  let y := ythread_create_mem default on_es a ptr in
  free_thread y = undo r ptr.
Proof.
  intros H1 H2 H3 H4 r y.
  apply (stack_size_gen sz_y default H1 H2 free_size_fixed on_es a ptr (fun _ => eq_refl) H3 H4).
Qed.

(* the unpatched free path: correct exactly when the size is a multiple of 64 *)
Theorem free_buggy_malloc_iff stacksize ptr :
  0 <= stacksize ->
  (free_thread_buggy (alloc_malloc_desc_stack stacksize ptr) = RelFree ptr <-> stacksize mod CL = 0).
Proof.
  intros Hs. unfold free_thread_buggy, free_thread_gen, free_size_buggy; cbn.
  rewrite <- (roundup_id_iff stacksize CL) by (unfold CL; lia). split.
  - intros H. inversion H. lia.
  - intros ->. f_equal. lia.
Qed.

(* finding F1: ABT_thread_attr_set_stacksize(attr, 20008); create; free *)
Theorem stack_size_refuted :
  exists sz_y default on_es a ptr,
    0 < sz_y /\ 0 < default /\ attr_ok a /\ 0 < ptr /\
    free_thread_buggy (ythread_create_mem default on_es a ptr)
    <> undo (ythread_create_req sz_y default on_es a) ptr.
Proof.
  exists 320, 16384, true, (Attr 0 20008), 4096. repeat split; try lia. vm_compute. discriminate.
Qed.

(* ---------- alignment *)
Lemma aligned_add a b m : 0 < m -> a mod m = 0 -> b mod m = 0 -> (a + b) mod m = 0.
Proof. intros Hm Ha Hb. rewrite Z.add_mod, Ha, Hb by lia. reflexivity. Qed.

(* a block of a pool whose pages, header size and header offset are multiples
   of the cache line is cache-line aligned *)
Lemma pool_block_aligned mem hs ho slot :
  mem mod CL = 0 -> hs mod CL = 0 -> ho mod CL = 0 -> (mem + slot * hs + ho) mod CL = 0.
Proof.
  intros Hm Hh Ho. assert (0 < CL) by (unfold CL; lia).
  repeat apply aligned_add; auto. rewrite Z.mul_mod, Hh, Z.mul_0_r by lia. reflexivity.
Qed.

Theorem desc_aligned default on_es a ptr :
  ptr mod CL = 0 -> (ym_desc (ythread_create_mem default on_es a ptr)) mod CL = 0.
Proof.
  intros Hp. assert (HCL : 0 < CL) by (unfold CL; lia).
  unfold ythread_create_mem. destruct a as [|p s]; repeat (destruct (_ =? _)); destruct on_es; cbn; auto;
    apply aligned_add; auto; apply roundup_mod; auto.
Qed.

(* first frame of a fresh ULT: SysV ABI alignment at function entry, inside the
   stack, at most 23 bytes (16 for an 8-byte aligned top) below the top *)
Theorem entry_frame_aligned top :
  (entry_rsp top + 8) mod 16 = 0 /\ top - 24 < entry_rsp top <= top - 8 /\
  (top mod 8 = 0 -> top - 16 <= entry_rsp top).
Proof.
  unfold entry_rsp. pose proof (Z.div_mod top 16 ltac:(lia)). pose proof (Z.mod_pos_bound top 16 ltac:(lia)).
  split; [|split].
  - replace (top / 16 * 16 - 8 + 8) with (top / 16 * 16) by lia. apply Z.mod_mul. lia.
  - lia.
  - intros H8. apply Z.mod_divide in H8; [|lia]. destruct H8 as (k & Hk). lia.
Qed.

Theorem entry_frame_inside lo top : 24 <= top - lo -> lo <= entry_rsp top.
Proof. intros H. pose proof (entry_frame_aligned top). lia. Qed.

(* ---------- page carving in bytes = carving in slots (DS/MemPool.v) *)
Section Carve.
Variable page_size sz_page hs : Z.
Hypothesis hs_pos : 0 < hs.
Hypothesis room : 0 <= page_size - sz_page.
Let S := page_slots page_size sz_page hs.

Lemma page_slots_bound : 0 <= S /\ S * hs <= page_size - sz_page < (S + 1) * hs.
Proof.
  unfold S, page_slots. pose proof (Z.div_mod (page_size - sz_page) hs ltac:(lia)).
  pose proof (Z.mod_pos_bound (page_size - sz_page) hs hs_pos).
  pose proof (Z.div_pos (page_size - sz_page) hs room hs_pos). nia.
Qed.

(* "num_provided = p_page->mem_extra_size / header_size" after c headers were carved *)
Lemma carve_bytes_provided c : 0 <= c <= S -> extra_size page_size sz_page hs c / hs = S - c.
Proof.
  intros Hc. unfold extra_size. pose proof page_slots_bound as (H0 & H1 & H2).
  symmetry. apply (Z.div_unique_pos _ _ _ (page_size - sz_page - hs * c - (S - c) * hs)); nia.
Qed.

(* "if (p_page->mem_extra_size >= header_size)" <-> at least one slot is left *)
Lemma carve_bytes_more c : 0 <= c <= S -> (hs <= extra_size page_size sz_page hs c <-> 1 <= S - c).
Proof.
  intros Hc. unfold extra_size. pose proof page_slots_bound as (H0 & H1 & H2). split; intros; nia.
Qed.

(* the j-th header carved when c were carved before sits in slot c + j *)
Lemma carve_bytes_addr mem ho c j : mem + extra_off hs c + ho + j * hs = mem + (c + j) * hs + ho.
Proof. unfold extra_off. ring. Qed.

(* slots lie inside the page below the page descriptor and do not overlap *)
Lemma slot_inside k : 0 <= k < S -> 0 <= k * hs /\ (k + 1) * hs <= page_size - sz_page.
Proof. intros Hk. pose proof page_slots_bound as (H0 & H1 & H2). nia. Qed.
Lemma slots_disjoint k1 k2 : k1 < k2 -> (k1 + 1) * hs <= k2 * hs.
Proof. intros. nia. Qed.
End Carve.

(* ---------- mprotect guard of a pool stack: with the two extra pages that
   ABTD_env_get_thread_stacksize adds, the guard page lies inside the slot's own
   stack area, below the usable top *)
Lemma guard_inside sys_page lo size :
  0 < sys_page -> 2 * sys_page <= size ->
  lo <= guard_lo sys_page lo /\ guard_hi sys_page lo <= lo + size /\ guard_lo sys_page lo mod sys_page = 0.
Proof.
  intros Hp Hs. unfold guard_lo, guard_hi. pose proof (roundup_ge lo sys_page Hp).
  pose proof (roundup_lt lo sys_page Hp). split; [lia|split; [lia|]]. now apply roundup_mod.
Qed.
