(* Address arithmetic (over Z, bytes) of the memory that backs a ULT:
   src/thread.c ythread_create (the four provenances), src/include/abti_mem.h
   (ABTI_mem_alloc_ythread_* and their reversal in ABTI_mem_free_thread),
   src/thread.c ABT_thread_get_attr / ABT_thread_get_stacksize, src/mem/malloc.c
   ABTI_mem_init (slot geometry of the stack pool), src/mem/mem_pool.c (page
   carving in bytes, mprotect guard placement) and the entry point of a fresh
   context (init_and_switch_fcontext: "andq $-16, %rdx; leaq -0x8(%rdx), %rsp").
   Configuration of /repo: memory pool on, lazy stack allocation off, external
   threads on, ABT_CONFIG_USE_ALIGNED_ALLOC (ABTU_malloc = posix_memalign(64,
   roundup(size, 64))), cache line 64.
   What the allocator returns (malloc pointer, pool block address) is an input.
   Only model code here: no proofs. *)
From Coq Require Import List ZArith Bool.
Import ListNotations.
Local Open Scope Z_scope.

Definition CL : Z := 64.                       (* ABT_CONFIG_STATIC_CACHELINE_SIZE *)

(* ABTU_roundup_size / ABTU_roundup_ptr (both branches compute this for v >= 0) *)
Definition roundup (v m : Z) : Z := ((v + m - 1) / m) * m.

(* which ABTI_THREAD_TYPE_MEM_* bit the allocation routine sets *)
Inductive mtype := MempoolDescStack | MallocDescStack | MempoolDesc | MallocDesc.

Record ythread_mem := mkYM {
  ym_type : mtype;
  ym_desc : Z;          (* p_ythread *)
  ym_stacktop : Z;      (* ctx.p_stacktop, 0 = NULL *)
  ym_stacksize : Z      (* ctx.stacksize *)
}.

Inductive attr :=
| AttrNull                                (* ABT_THREAD_ATTR_NULL *)
| Attr (p_stack stacksize : Z).           (* p_attr->p_stack (0 = NULL), p_attr->stacksize *)

(* the single allocation request ythread_create issues *)
Inductive alloc_req :=
| ReqPoolStack                            (* ABTI_mem_pool_alloc(mem_pool_stack) *)
| ReqPoolDesc                             (* ABTI_mem_pool_alloc(mem_pool_desc) *)
| ReqMalloc (size : Z).                   (* ABTU_malloc(size) *)

Section Geom.
Variable sz_y : Z.          (* sizeof(ABTI_ythread) *)
Variable default : Z.       (* p_global->thread_stacksize *)
Definition desc_elem := roundup sz_y CL.      (* ABTI_MEM_POOL_DESC_ELEM_SIZE *)

(* ---- allocation routines of abti_mem.h; [ptr] is what the allocator returned *)
(* ABTI_mem_alloc_ythread_malloc_desc_stack_impl *)
Definition malloc_desc_stack_request (stacksize : Z) : Z := roundup stacksize CL + sz_y.
Definition alloc_malloc_desc_stack (stacksize ptr : Z) : ythread_mem :=
  let alloc_stacksize := roundup stacksize CL in
  mkYM MallocDescStack (ptr + alloc_stacksize) (ptr + alloc_stacksize) stacksize.
(* ABTI_mem_alloc_ythread_mempool_desc_stack_impl: stack top = descriptor = pool block *)
Definition alloc_mempool_desc_stack (stacksize ptr : Z) : ythread_mem :=
  mkYM MempoolDescStack ptr ptr stacksize.
(* ABTI_mem_alloc_ythread_mempool_desc (descriptor by ABTI_mem_alloc_nythread) *)
Definition alloc_mempool_desc (on_es : bool) (stacksize stacktop ptr : Z) : ythread_mem :=
  mkYM (if on_es then MempoolDesc else MallocDesc) ptr stacktop stacksize.

(* ---- ythread_create: which request, and what is made of the answer.
   [on_es] = the caller runs on an execution stream (false: external thread) *)
Definition ythread_create_req (on_es : bool) (a : attr) : alloc_req :=
  match a with
  | AttrNull => if on_es then ReqPoolStack else ReqMalloc (malloc_desc_stack_request default)
  | Attr p_stack stacksize =>
      if p_stack =? 0 then
        if stacksize =? default then
          if on_es then ReqPoolStack else ReqMalloc (malloc_desc_stack_request stacksize)
        else if negb (stacksize =? 0) then ReqMalloc (malloc_desc_stack_request stacksize)
        else if on_es then ReqPoolDesc else ReqMalloc desc_elem
      else if on_es then ReqPoolDesc else ReqMalloc desc_elem
  end.

Definition ythread_create_mem (on_es : bool) (a : attr) (ptr : Z) : ythread_mem :=
  match a with
  | AttrNull =>
      if on_es then alloc_mempool_desc_stack default ptr else alloc_malloc_desc_stack default ptr
  | Attr p_stack stacksize =>
      if p_stack =? 0 then
        if stacksize =? default then
          if on_es then alloc_mempool_desc_stack stacksize ptr
          else alloc_malloc_desc_stack stacksize ptr
        else if negb (stacksize =? 0) then alloc_malloc_desc_stack stacksize ptr
        else alloc_mempool_desc on_es 0 0 ptr
      else alloc_mempool_desc on_es stacksize (p_stack + stacksize) ptr
  end.

(* ---- ABTI_mem_free_thread: what is given back, and with which pointer *)
Inductive release :=
| RelPoolStack (p : Z)                    (* ABTI_mem_pool_free(mem_pool_stack[_ext], p) *)
| RelPoolDesc (p : Z)                     (* ABTI_mem_pool_free(mem_pool_desc[_ext], p) *)
| RelFree (p : Z).                        (* ABTU_free(p) *)

(* [fsz] = the size subtracted from p_stacktop in the MALLOC_DESC_STACK branch *)
Definition free_thread_gen (fsz : Z -> Z) (y : ythread_mem) : release :=
  match ym_type y with
  | MempoolDescStack => RelPoolStack (ym_desc y)
  | MempoolDesc => RelPoolDesc (ym_desc y)
  | MallocDescStack => RelFree (ym_stacktop y - fsz (ym_stacksize y))
  | MallocDesc => RelFree (ym_desc y)
  end.
End Geom.

(* abti_mem.h after fixes/F1-stack-roundup.patch ... *)
Definition free_size_fixed (stacksize : Z) : Z := roundup stacksize CL.
(* ... and the unpatched expression "p_stacktop - stacksize" *)
Definition free_size_buggy (stacksize : Z) : Z := stacksize.
Definition free_thread := free_thread_gen free_size_fixed.
Definition free_thread_buggy := free_thread_gen free_size_buggy.

(* ABT_thread_get_attr: (p_stack, stacksize) *)
Definition get_attr (y : ythread_mem) : Z * Z :=
  ((if ym_stacktop y =? 0 then 0 else ym_stacktop y - ym_stacksize y), ym_stacksize y).

(* the stack range a ULT may use: [lo, hi) *)
Definition usable (y : ythread_mem) : Z * Z := (ym_stacktop y - ym_stacksize y, ym_stacktop y).

(* the memory the runtime owns for request [r] answered with [ptr]:
   [lo, hi) ; for pool blocks see [slot_*] below *)
Definition abtu_malloc_extent (size ptr : Z) : Z * Z := (ptr, ptr + roundup size CL).

(* ---- stack pool geometry, ABTI_mem_init: header_size and header_offset *)
Definition stack_header_size (sz_y default : Z) : Z :=
  let s := roundup (default + sz_y) CL in
  if s mod (2 * CL) =? 0 then s + CL else s.
(* a block returned by the stack pool is  mem + slot*header_size + header_offset
   with header_offset = default; its slot is [slot_lo, slot_hi) *)
Definition slot_lo (default ptr : Z) : Z := ptr - default.
Definition slot_hi (sz_y default ptr : Z) : Z := ptr - default + stack_header_size sz_y default.

(* ---- page carving in bytes (mem_pool.c take_bucket) *)
(* number of headers a page can provide: mem_extra_size / header_size *)
Definition page_slots (page_size sz_page header_size : Z) : Z := (page_size - sz_page) / header_size.
(* state of a page after c headers were carved *)
Definition extra_off (header_size c : Z) : Z := header_size * c.                    (* p_mem_extra - mem *)
Definition extra_size (page_size sz_page header_size c : Z) : Z := page_size - sz_page - header_size * c.

(* mprotect guard of a slot: protect_memory(slot_lo + offset(=0), sys_page, alignment = sys_page) *)
Definition guard_lo (sys_page lo : Z) : Z := roundup lo sys_page.
Definition guard_hi (sys_page lo : Z) : Z := roundup lo sys_page + sys_page.

(* ---- first frame: init_and_switch_fcontext sets rsp = (p_stacktop & -16) - 8 and
   jumps to the entry function *)
Definition entry_rsp (stacktop : Z) : Z := (stacktop / 16) * 16 - 8.
