(* C07 — pointer-level model of src/pool/thread_queue.h (thread_queue_t).

   Model only (executable Gallina, no proofs).  One Gallina function per C
   function, statements in the order of the C text, every pointer dereference
   explicit.

   Work units (ABTI_thread) are identified by natural numbers; a pointer is
   [option id] with [None] = NULL.  The three per-unit fields the queue code
   touches (p_prev, p_next, is_in_pool) live in a heap of pointwise-updated
   functions id -> field, outside the queue header, exactly as in C where the
   nodes are the ABTI_thread descriptors themselves and not owned by the queue.

   A function returns [None] when the C code would dereference NULL
   (undefined behaviour / segfault); ThreadQueueProofs shows that this never
   happens on a well-formed queue. *)
From Coq Require Import List Arith Bool.
Import ListNotations.

Definition id := nat.
Definition ptr := option id.            (* None = NULL *)

Definition ptr_eqb (a b : ptr) : bool :=
  match a, b with
  | None, None => true
  | Some x, Some y => Nat.eqb x y
  | _, _ => false
  end.

(* pointwise update of a total map *)
Definition upd {A} (f : id -> A) (k : id) (v : A) : id -> A :=
  fun x => if Nat.eqb x k then v else f x.

(* the fields of ABTI_thread used by the built-in pools (abti.h:423) *)
Record heap := mkHeap {
  h_prev : id -> ptr;        (* ABTI_thread.p_prev *)
  h_next : id -> ptr;        (* ABTI_thread.p_next *)
  h_inpool : id -> bool      (* ABTI_thread.is_in_pool (ABTD_atomic_int, values 0/1) *)
}.

Definition set_prev (h : heap) (x : id) (v : ptr) : heap :=
  mkHeap (upd (h_prev h) x v) (h_next h) (h_inpool h).
Definition set_next (h : heap) (x : id) (v : ptr) : heap :=
  mkHeap (h_prev h) (upd (h_next h) x v) (h_inpool h).
Definition set_inpool (h : heap) (x : id) (v : bool) : heap :=
  mkHeap (h_prev h) (h_next h) (upd (h_inpool h) x v).

(* "p->p_prev = v" / "p->p_next = v" through a pointer that may be NULL *)
Definition store_prev (h : heap) (p : ptr) (v : ptr) : option heap :=
  match p with None => None | Some x => Some (set_prev h x v) end.
Definition store_next (h : heap) (p : ptr) (v : ptr) : option heap :=
  match p with None => None | Some x => Some (set_next h x v) end.

(* ABTI_unit_init_builtin (abti_unit.h:29): state of a unit that was never in
   a pool *)
Definition heap_init : heap := mkHeap (fun _ => None) (fun _ => None) (fun _ => false).

(* thread_queue_t (thread_queue.h:12) *)
Record tq := mkTq {
  q_num : nat;          (* size_t num_threads *)
  q_head : ptr;         (* ABTI_thread *p_head *)
  q_tail : ptr;         (* ABTI_thread *p_tail *)
  q_is_empty : bool     (* ABTD_atomic_int is_empty (0/1) *)
}.

(* thread_queue_init *)
Definition tq_init : tq := mkTq 0 None None true.

(* thread_queue_is_empty / thread_queue_get_size *)
Definition tq_is_empty (q : tq) : bool := q_is_empty q.
Definition tq_get_size (q : tq) : nat := q_num q.

Definition bind {A B} (a : option A) (f : A -> option B) : option B :=
  match a with None => None | Some x => f x end.
Notation "x <- a ;; b" := (bind a (fun x => b)) (at level 61, a at next level, right associativity).

(* thread_queue_push_head (thread_queue.h:69) *)
Definition tq_push_head (q : tq) (h : heap) (t : id) : option (tq * heap) :=
  r <- (if Nat.eqb (q_num q) 0 then
          let h := set_prev h t (Some t) in            (* p_thread->p_prev = p_thread *)
          let h := set_next h t (Some t) in            (* p_thread->p_next = p_thread *)
          (* p_head = p_tail = p_thread; num_threads = 1; is_empty := 0 *)
          Some (mkTq 1 (Some t) (Some t) false, h)
        else
          let p_head := q_head q in
          let p_tail := q_tail q in
          h <- store_next h p_tail (Some t) ;;         (* p_tail->p_next = p_thread *)
          h <- store_prev h p_head (Some t) ;;         (* p_head->p_prev = p_thread *)
          let h := set_prev h t p_tail in              (* p_thread->p_prev = p_tail *)
          let h := set_next h t p_head in              (* p_thread->p_next = p_head *)
          (* p_queue->p_head = p_thread; num_threads++ *)
          Some (mkTq (S (q_num q)) (Some t) (q_tail q) (q_is_empty q), h)) ;;
  let '(q, h) := r in
  Some (q, set_inpool h t true).                       (* is_in_pool := 1 *)

(* thread_queue_push_tail (thread_queue.h:92) *)
Definition tq_push_tail (q : tq) (h : heap) (t : id) : option (tq * heap) :=
  r <- (if Nat.eqb (q_num q) 0 then
          let h := set_prev h t (Some t) in
          let h := set_next h t (Some t) in
          Some (mkTq 1 (Some t) (Some t) false, h)
        else
          let p_head := q_head q in
          let p_tail := q_tail q in
          h <- store_next h p_tail (Some t) ;;         (* p_tail->p_next = p_thread *)
          h <- store_prev h p_head (Some t) ;;         (* p_head->p_prev = p_thread *)
          let h := set_prev h t p_tail in              (* p_thread->p_prev = p_tail *)
          let h := set_next h t p_head in              (* p_thread->p_next = p_head *)
          (* p_queue->p_tail = p_thread; num_threads++ *)
          Some (mkTq (S (q_num q)) (q_head q) (Some t) (q_is_empty q), h)) ;;
  let '(q, h) := r in
  Some (q, set_inpool h t true).

(* the common tail of pop_head / pop_tail:
     p_thread->p_prev = NULL; p_thread->p_next = NULL; is_in_pool := 0 *)
Definition detach (h : heap) (t : id) : heap :=
  set_inpool (set_next (set_prev h t None) t None) t false.

(* the two unlink stores shared by pop_head / pop_tail / remove for num > 1:
     p_thread->p_prev->p_next = p_thread->p_next;
     p_thread->p_next->p_prev = p_thread->p_prev;
   each right-hand side is re-read from memory after the previous store *)
Definition unlink (h : heap) (t : id) : option heap :=
  h <- store_next h (h_prev h t) (h_next h t) ;;
  store_prev h (h_next h t) (h_prev h t).

(* thread_queue_pop_head (thread_queue.h:115); result None = NULL returned *)
Definition tq_pop_head (q : tq) (h : heap) : option (tq * heap * ptr) :=
  if Nat.ltb 0 (q_num q) then
    t <- q_head q ;;                                   (* p_thread = p_head, dereferenced below *)
    r <- (if Nat.eqb (q_num q) 1 then
            Some (mkTq 0 None None true, h)            (* head = tail = NULL; num = 0; is_empty := 1 *)
          else
            h <- unlink h t ;;
            (* p_queue->p_head = p_thread->p_next; num_threads-- *)
            Some (mkTq (pred (q_num q)) (h_next h t) (q_tail q) (q_is_empty q), h)) ;;
    let '(q, h) := r in
    Some (q, detach h t, Some t)
  else Some (q, h, None).

(* thread_queue_pop_tail (thread_queue.h:140) *)
Definition tq_pop_tail (q : tq) (h : heap) : option (tq * heap * ptr) :=
  if Nat.ltb 0 (q_num q) then
    t <- q_tail q ;;
    r <- (if Nat.eqb (q_num q) 1 then
            Some (mkTq 0 None None true, h)
          else
            h <- unlink h t ;;
            (* p_queue->p_tail = p_thread->p_prev; num_threads-- *)
            Some (mkTq (pred (q_num q)) (q_head q) (h_prev h t) (q_is_empty q), h)) ;;
    let '(q, h) := r in
    Some (q, detach h t, Some t)
  else Some (q, h, None).

(* thread_queue_remove (thread_queue.h:165); result true = ABT_SUCCESS,
   false = ABT_ERR_POOL (one of the two ABTI_CHECK_TRUE failed, nothing
   written) *)
Definition tq_remove (q : tq) (h : heap) (t : id) : option (tq * heap * bool) :=
  if Nat.eqb (q_num q) 0 then Some (q, h, false)       (* CHECK num_threads != 0 *)
  else if negb (h_inpool h t) then Some (q, h, false)  (* CHECK is_in_pool == 1 *)
  else
    r <- (if Nat.eqb (q_num q) 1 then
            Some (mkTq 0 None None true, h)
          else
            h <- unlink h t ;;
            let q' :=
              if ptr_eqb (Some t) (q_head q) then      (* p_thread == p_head *)
                mkTq (pred (q_num q)) (h_next h t) (q_tail q) (q_is_empty q)
              else if ptr_eqb (Some t) (q_tail q) then (* p_thread == p_tail *)
                mkTq (pred (q_num q)) (q_head q) (h_prev h t) (q_is_empty q)
              else mkTq (pred (q_num q)) (q_head q) (q_tail q) (q_is_empty q) in
            Some (q', h)) ;;
    let '(q, h) := r in
    (* is_in_pool := 0; p_prev = NULL; p_next = NULL *)
    Some (q, set_next (set_prev (set_inpool h t false) t None) t None, true).

(* thread_queue_print_all: visits num_threads nodes following p_next from
   p_head (ABTI_ASSERT(p_thread) on each).  This is also the abstraction
   function used by the proofs.  A NULL link ends the walk early. *)
Fixpoint walk_next (h : heap) (p : ptr) (n : nat) : list id :=
  match n with
  | 0 => []
  | S n' => match p with
            | None => []
            | Some x => x :: walk_next h (h_next h x) n'
            end
  end.
Fixpoint walk_prev (h : heap) (p : ptr) (n : nat) : list id :=
  match n with
  | 0 => []
  | S n' => match p with
            | None => []
            | Some x => x :: walk_prev h (h_prev h x) n'
            end
  end.
Definition tq_abs (q : tq) (h : heap) : list id := walk_next h (q_head q) (q_num q).
Definition tq_abs_rev (q : tq) (h : heap) : list id := walk_prev h (q_tail q) (q_num q).

(* thread_queue_acquire_spinlock_if_not_empty (thread_queue.h:34), sequential
   reading: [locked] is the current value of the spinlock word.  Result
   Some (lock', 1) = "empty, lock not taken", Some (true, 0) = "lock taken";
   None = the call never returns (pool not empty and the lock word stays set:
   the inner while(1) spins for ever when nobody releases the lock).  The
   step-by-step version with other threads interleaved is in Conc/PoolConc.v. *)
Definition tq_acquire_spinlock_if_not_empty (q : tq) (locked : bool) : option (bool * nat) :=
  if q_is_empty q then Some (locked, 1)        (* first acquire-load of is_empty *)
  else if locked then None                      (* try_acquire fails; !is_empty && is_locked for ever *)
  else Some (true, 0).                          (* try_acquire succeeds *)
