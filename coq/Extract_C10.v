From Coq Require Import List ZArith Bool.
From Coq Require Import ExtrOcamlBasic.
From ABT Require Import Conc.Mutex Conc.CondMutex Conc.RWLock.
Extraction Language OCaml.
Extraction "../ocaml/extracted/c10.ml"
  Z.add Z.mul Z.opp Z.sub Z.div Z.modulo Z.eqb Z.of_nat
  RWLock.rstep RWLock.rinit RWLock.rreplay
  CondMutex.inclk CondMutex.cqueued CondMutex.credited CondMutex.waiting
  Mutex.holds Mutex.queued.
