(* C17 — Execution-stream ranks are unique and the stream lifecycle is
   repeatable.  Only statements here; proofs live in DS/RankListProofs.v and
   Conc/XstreamCtxProofs.v.

   Vocabulary (DS/RankList.v): [api_init mx] is ABT_init's creation of the
   primary stream; [api_step s op] is one public call made by the primary ULT
   (create / create_with_rank / set_rank / set_rank-on-self from a ULT /
   free / join / revive / get_rank / get_num / get_state / work), executed by
   the pointer-level model of stream.c; [Bad _] results are use-after-free,
   failed ABTI_ASSERT, a never-ending list walk, or signed overflow.
   [reach mx ops s rs]: running [ops] after [api_init mx] ends without fault in
   state [s] with per-call results [rs].  [ops_ok ops]: requested ranks fit a C
   int (<= INT_MAX) and fewer than INT_MAX-1 calls are made, so that no int of
   the C code (rank++, num_xstreams++) can overflow where the model uses Z. *)
From Coq Require Import List ZArith Bool Sorting.Sorted.
From ABT Require Import DS.RankList DS.RankListProofs Conc.XstreamCtx Conc.XstreamCtxProofs.
Import ListNotations.
Local Open Scope Z_scope.

(* Every sequence of API calls runs without fault, and afterwards the real
   list walk ([dump], the same walk the harness does on the C structure)
   visits a chain [l] with consistent p_prev pointers (all flags true, walk
   ends) that is strictly sorted by rank -- hence ranks pairwise distinct --,
   consists of exactly the live descriptors, has num_xstreams elements, and
   starts with the primary stream at rank 0. *)
Theorem C17_ranks_distinct_sorted : forall mx ops, ops_ok ops ->
  exists s rs l,
    reach mx ops s rs /\
    dump s = (map (fun i => (i, rank_of s i, true)) l, WEnd) /\
    StronglySorted Z.lt (ranks s l) /\ NoDup (ranks s l) /\ NoDup l /\
    live_ids s l /\ num s = Z.of_nat (length l) /\
    (exists t, l = 0%nat :: t) /\ rank_of s 0 = 0 /\ prim s 0 = true.
Proof. exact ranks_distinct_sorted. Qed.
Print Assumptions C17_ranks_distinct_sorted.

(* In any reachable state ABT_xstream_create succeeds with the least natural
   number that is not the rank of a live stream; the other streams keep their
   ranks; ABT_xstream_get_num grows by one. *)
Theorem C17_auto_rank_is_mex : forall mx ops s rs,
  ops_ok (ops ++ [ACreate]) -> reach mx ops s rs ->
  exists s' r,
    api_step s ACreate = Ok (s', [ABT_SUCCESS; r]) /\
    0 <= r /\ ~ rank_used s r /\ (forall k, 0 <= k < r -> rank_used s k) /\
    live s' (length (store s)) <> None /\ rank_of s' (length (store s)) = r /\
    (forall i, live s i <> None -> live s' i <> None /\ rank_of s' i = rank_of s i) /\
    num s' = num s + 1.
Proof. exact auto_rank_is_mex. Qed.
Print Assumptions C17_auto_rank_is_mex.

(* A requested (create_with_rank) or changed (set_rank) rank is granted iff no
   (other) live stream has it; when granted only that stream's rank changes;
   when refused nothing changes (ABT_ERR_INV_XSTREAM_RANK). *)
Theorem C17_explicit_iff_free :
  (forall mx ops s rs r,
     ops_ok (ops ++ [ACreateRank r]) -> 0 <= r -> reach mx ops s rs ->
     exists s' res,
       api_step s (ACreateRank r) = Ok (s', res) /\
       (rank_used s r ->
          res = [ERR_INV_XSTREAM_RANK] /\ (forall i, live s' i = live s i) /\
          dump s' = dump s /\ num s' = num s) /\
       (~ rank_used s r ->
          res = [ABT_SUCCESS; r] /\ live s' (length (store s)) <> None /\
          rank_of s' (length (store s)) = r /\
          (forall i, live s i <> None -> live s' i <> None /\ rank_of s' i = rank_of s i) /\
          num s' = num s + 1))
  /\
  (forall mx ops s rs i r,
     ops_ok (ops ++ [ASetRank i r]) -> 0 <= r -> reach mx ops s rs ->
     live s i <> None -> i <> 0%nat ->
     exists s' rc,
       api_step s (ASetRank i r) = Ok (s', [rc]) /\
       (rank_used_by_other s i r -> rc = ERR_INV_XSTREAM_RANK /\ s' = s) /\
       (~ rank_used_by_other s i r ->
          rc = ABT_SUCCESS /\ rank_of s' i = r /\
          (forall j, j <> i -> (live s' j <> None <-> live s j <> None) /\ rank_of s' j = rank_of s j) /\
          live s' i <> None /\ num s' = num s)).
Proof. split; [exact explicit_create_iff_free|exact set_rank_iff_free]. Qed.
Print Assumptions C17_explicit_iff_free.

(* Freeing a live secondary stream removes exactly it, decrements the count,
   leaves its rank unused, and a create_with_rank of that rank then succeeds. *)
Theorem C17_rank_reusable : forall mx ops s rs i,
  ops_ok (ops ++ [AFree i; ACreateRank (rank_of s i)]) -> reach mx ops s rs ->
  live s i <> None -> i <> 0%nat ->
  exists s1 s2,
    api_step s (AFree i) = Ok (s1, [ABT_SUCCESS]) /\
    live s1 i = None /\ ~ rank_used s1 (rank_of s i) /\ num s1 = num s - 1 /\
    (forall j, j <> i -> (live s1 j <> None <-> live s j <> None) /\ rank_of s1 j = rank_of s j) /\
    api_step s1 (ACreateRank (rank_of s i)) = Ok (s2, [ABT_SUCCESS; rank_of s i]) /\
    num s2 = num s.
Proof. exact rank_reusable. Qed.
Print Assumptions C17_rank_reusable.

(* non-vacuity: a concrete history through all list cases (append, insert in the
   middle, refused rank, re-rank towards the front / the end, free in the
   middle, reuse) *)
Example C17_ranks_example :
  match api_init 4 with
  | Ok s0 =>
    match api_run s0 [ACreate; ACreateRank 3; ACreate; ASetRank 2 1; ASetRank 1 7; ASetRank 3 1;
                      AFree 2; ACreate; ACreateRank 3; AGetNum; ASetRank 0 5; AFree 0] with
    | Ok (s, rs) =>
      rs = [[0; 1]; [0; 3]; [0; 2]; [5]; [0]; [0]; [0]; [0; 2]; [0; 3]; [0; 5]; [4]; [4]] /\
      fst (dump s) = [(0%nat, 0, true); (3%nat, 1, true); (4%nat, 2, true); (5%nat, 3, true); (1%nat, 7, true)]
    | Bad _ => False
    end
  | Bad _ => False
  end.
Proof. vm_compute. split; reflexivity. Qed.

(* The invariant "the head is the primary stream with rank 0" is needed: on a
   list without it the same C functions re-insert a re-ranked descriptor at
   the head with a stale p_prev, and returning its rank then leaves the head
   pointer on the removed descriptor and a self-loop behind it. *)
Theorem C17_head_invariant_needed :
  map (fun e => snd (fst (fst e))) (x_run (rl_empty 4) corrupt_ops)
  = [ ([(0%nat, 5, true)], WEnd);
      ([(0%nat, 5, true); (1%nat, 7, true)], WEnd);
      ([(1%nat, 3, false); (0%nat, 5, true)], WEnd) ]
  /\
  (let s3 := fold_left (fun s o => fst (x_step s o)) corrupt_ops (rl_empty 4) in
   match return_rank s3 1 with
   | Ok s4 => head s4 = Some 1%nat /\ snd (dump s4) = WCycle /\
              (match get s4 0 with Ok n => n_next n = Some 0%nat | Bad _ => False end)
   | Bad _ => False
   end).
Proof. exact corruption_example. Qed.
Print Assumptions C17_head_invariant_needed.

(* Former finding (fixed in /repo by commit a3733c8, model updated): rank
   INT_MAX passes the argument checks (rank >= 0) and
   xstream_update_max_xstreams computed newrank + 1 in int -- signed overflow.
   With the saturating fix the call is covered by the theorems above
   ([ops_ok] admits every rank <= INT_MAX). *)
Theorem C17_rank_int_max_refuted_old :
  forall s, maxx s <= INT_MAX -> update_max_buggy s INT_MAX = Bad EOverflow.
Proof.
  intros s H. unfold update_max_buggy.
  destruct (Z.geb_spec INT_MAX (maxx s)); [reflexivity|]. exfalso. apply (Z.lt_irrefl INT_MAX).
  eapply Z.lt_le_trans; eauto.
Qed.
Print Assumptions C17_rank_int_max_refuted_old.

Example C17_rank_int_max_ok :
  exists s0 s1, api_init 4 = Ok s0 /\
                api_step s0 (ACreateRank INT_MAX) = Ok (s1, [ABT_SUCCESS; INT_MAX]) /\
                maxx s1 = INT_MAX /\ fst (dump s1) = [(0%nat, 0, true); (1%nat, INT_MAX, true)].
Proof.
  exists (match api_init 4 with Ok s => s | Bad _ => rl_empty 0 end).
  eexists. split; [vm_compute; reflexivity|]. split; [vm_compute; reflexivity|].
  split; vm_compute; reflexivity.
Qed.

(* The native-thread protocol of abtd_stream.c: in every run of the LTS -- all
   interleavings of the stream thread and the controller, spurious wake-ups at
   any time, the stream function returning at any time, every controller
   program allowed by stream.c -- see the comments in the statement. *)
Theorem C17_ctx_protocol : forall acts s, run true init acts = Some s ->
  let f := fin s in
  err f = false /\
  (join_returned f = true ->
     rets s = runs s /\ runs s = (1 + revs s)%nat /\ cs f = WAITING /\ s_parked (ps f) = true) /\
  (runs s = (rets s + b2n (in_f (ps f)))%nat /\ (runs s + b2n (pending f) = 1 + revs s)%nat) /\
  inv_free f = true /\
  inv_mutex f = true /\ inv_running f = true /\
  inv_nolost f = true /\
  (exists acts' s', forallb (fun a => negb (is_spur a)) acts' = true /\
                    run true s acts' = Some s' /\ final (fin s') = true).
Proof. exact ctx_protocol. Qed.
Print Assumptions C17_ctx_protocol.

(* a history accepted by the replay used in the correspondence check is a run
   of the LTS, so the theorem above applies to every recorded history *)
Theorem C17_replay_sound : forall h s', replay 0 finit h = VOk s' ->
  exists acts, frun finit acts = Some s' /\ In s' R.
Proof.
  intros h s' H. destruct (replay_is_run _ _ _ _ H) as (acts & Ha).
  exists acts. split; auto. eapply frun_in_R; eauto. apply R_init.
Qed.
Print Assumptions C17_replay_sound.

(* non-vacuity of the protocol theorem: create, run, join, revive, run again,
   join, free *)
Example C17_ctx_example :
  match run true init life with
  | Some s => final (fin s) = true /\ runs s = 2%nat /\ rets s = 2%nat /\ revs s = 1%nat /\ err (fin s) = false
  | None => False
  end.
Proof. exact life_runs. Qed.
