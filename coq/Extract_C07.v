(* Extraction of the executable C07 models (no proofs are imported here, so the
   correspondence check still runs when a proof is broken). *)
From Coq Require Import List Arith Bool NArith ZArith.
From Coq Require Import ExtrOcamlBasic.
From ABT Require Import DS.ThreadQueue DS.PoolSeq DS.PoolSpec.
Extraction Language OCaml.
Extraction "../ocaml/extracted/c07.ml"
  Z.add Z.mul Z.opp Z.sub Z.div Z.modulo Z.eqb Z.of_nat   (* used by ocaml/zhelp.ml *)
  N.of_nat N.add N.mul
  heap_init tq_abs tq_abs_rev pool_init pool_step pool_run
  spec_step spec_run ops_legal.
