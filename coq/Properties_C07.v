(* C07 — Built-in pools (FIFO, FIFO_WAIT, RANDWS x every access mode) are
   linearizable queues: each pushed unit is popped exactly once.
   Only statements here; models: DS/ThreadQueue.v (thread_queue.h), DS/PoolSeq.v
   (fifo.c, fifo_wait.c, randws.c, pool.c entry points, one caller),
   Conc/PoolConc.v (the same functions under concurrent callers);
   specification: DS/Deque.v, DS/PoolSpec.v; proofs: DS/*Proofs.v,
   Conc/PoolConcProofs.v. *)
From Coq Require Import List Arith Bool NArith.
From ABT Require Import DS.ThreadQueue DS.Deque DS.ThreadQueueProofs DS.PoolSeq DS.PoolSpec DS.PoolSeqProofs
     Conc.PoolConc Conc.PoolConcProofs.
Import ListNotations.

(* ---------------------------------------------------------------- pointer level *)
(* [Rep l q h]: header q and node fields h represent the deque l — num = length,
   is_empty <-> [], head/tail = first/last, circular prev/next consistent along l,
   is_in_pool u <-> In u l, no duplicates, units outside have NULL links.
   Each thread_queue.h function maps represented deques as the list operation
   does and never dereferences NULL ([Some]). *)
Theorem C07_thread_queue_ops : forall l q h, Rep l q h ->
  (forall t, ~ In t l -> exists q' h', tq_push_tail q h t = Some (q', h') /\ Rep (l ++ [t]) q' h') /\
  (forall t, ~ In t l -> exists q' h', tq_push_head q h t = Some (q', h') /\ Rep (t :: l) q' h') /\
  (exists q' h', tq_pop_head q h = Some (q', h', hd_ptr l) /\ Rep (tl l) q' h') /\
  (exists q' h', tq_pop_tail q h = Some (q', h', last_ptr l) /\ Rep (removelast l) q' h') /\
  (forall t, exists q' h', tq_remove q h t = Some (q', h', snd (dq_remove l t)) /\ Rep (fst (dq_remove l t)) q' h').
Proof.
  intros l q h R. repeat split.
  - intros t Ht. apply push_tail_rep; auto.
  - intros t Ht. apply push_head_rep; auto.
  - apply pop_head_rep; auto.
  - apply pop_tail_rep; auto.
  - intros t. apply remove_rep; auto.
Qed.
Print Assumptions C07_thread_queue_ops.

(* the abstraction function (walk p_next from p_head for num_threads steps, as
   thread_queue_print_all does) recovers the list; walking p_prev from p_tail
   gives its reverse *)
Theorem C07_abs_is_walk : forall l q h, Rep l q h -> tq_abs q h = l /\ tq_abs_rev q h = rev l.
Proof. intros l q h R. split; [apply rep_abs|apply rep_abs_rev]; exact R. Qed.
Print Assumptions C07_abs_is_walk.

(* ---------------------------------------------------------------- public API, one caller *)
(* For every kind, access mode, polling budget and every call sequence that
   respects the push contract (a pushed unit is not in the pool), the run through
   the model of pool.c / fifo.c / fifo_wait.c / randws.c finishes (no NULL
   dereference, no endless loop), returns call by call what the deque
   specification returns, and after every call the structure represents the
   specification's list ([trace_ok], [PRep]).  Hypothesis on the lock word: see
   C07_priv_timed_pop_refuted. *)
Theorem C07_queue_refines_deque : forall k a g wn ops,
  (k = FIFO_WAIT \/ a <> PRIV \/ g = false) ->
  ops_legal k [] ops = true ->
  exists tr, pool_run wn (pool_init k a g) heap_init ops = (tr, Finished) /\
             map (fun x => fst (fst x)) tr = snd (spec_run k [] ops) /\
             trace_ok k a [] ops tr.
Proof.
  intros k a g wn ops Hg Hl.
  destruct (pool_run_refines wn k a ops [] _ _ (prep_init k a g Hg) Hl) as (tr & E & T).
  exists tr. repeat split; auto. apply (trace_ok_results k a ops [] tr T).
Qed.
Print Assumptions C07_queue_refines_deque.

(* what "represents" means, in the words of the property *)
Theorem C07_rep_meaning : forall k a l p h, PRep k a l p h ->
  tq_abs (p_queue p) h = l /\ tq_abs_rev (p_queue p) h = rev l /\
  tq_get_size (p_queue p) = length l /\
  (tq_is_empty (p_queue p) = true <-> l = []) /\
  (forall u, h_inpool h u = true <-> In u l) /\ NoDup l /\
  (forall u, ~ In u l -> h_prev h u = None /\ h_next h u = None) /\
  p_lock p = false.
Proof. exact prep_facts. Qed.
Print Assumptions C07_rep_meaning.

(* FIFO / FIFO_WAIT: every push appends, every pop takes the oldest, whatever
   the context flags; a batch comes back in the order it went in *)
Theorem C07_fifo_order : forall k, k <> RANDWS ->
  (forall ctx l u, sp_push k ctx l u = l ++ [u]) /\
  (forall ctx l, sp_pop k ctx l = (tl l, hd_ptr l)) /\
  (forall a c1 c2 wn us p h, PRep k a [] p h -> NoDup us -> us <> [] ->
     exists tr, pool_run wn p h [OPushThreads (map Some us) c1; OPopThreads (length us) c2] = (tr, Finished) /\
                map (fun x => fst (fst x)) tr = [RCode ABT_SUCCESS; RUnits (Some (length us)) us]).
Proof.
  intros k Hk. repeat split.
  - intros. apply fifo_push; auto.
  - intros. apply fifo_pop; auto.
  - intros. apply (fifo_order k a); auto.
Qed.
Print Assumptions C07_fifo_order.

(* RANDWS: a deque whose push end / pop end is chosen by the context flags:
   head for the create/revive contexts, tail for OWNER_SECONDARY; flags combine
   with bitwise or *)
Theorem C07_randws_ends :
  (forall ctx l u, sp_push RANDWS ctx l u = (if ctx_push_head ctx then u :: l else l ++ [u]) /\
                   sp_pop RANDWS ctx l = (if ctx_pop_tail ctx then (removelast l, last_ptr l) else (tl l, hd_ptr l))) /\
  (forall a b, ctx_push_head (N.lor a b) = ctx_push_head a || ctx_push_head b) /\
  (forall a b, ctx_pop_tail (N.lor a b) = ctx_pop_tail a || ctx_pop_tail b) /\
  map ctx_push_head [CTX_OP_THREAD_CREATE; CTX_OP_THREAD_CREATE_TO; CTX_OP_THREAD_REVIVE; CTX_OP_THREAD_REVIVE_TO]
    = [true; true; true; true] /\
  ctx_pop_tail CTX_OWNER_SECONDARY = true /\
  map ctx_push_head [0%N; CTX_PRIO_HIGH; CTX_PRIO_LOW; CTX_OWNER_PRIMARY; CTX_OWNER_SECONDARY; CTX_OP_THREAD_YIELD;
                     CTX_OP_THREAD_YIELD_TO; CTX_OP_THREAD_RESUME_YIELD_TO; CTX_OP_THREAD_YIELD_LOOP;
                     CTX_OP_THREAD_RESUME; CTX_OP_THREAD_MIGRATE] = repeat false 11 /\
  map ctx_pop_tail [0%N; CTX_PRIO_HIGH; CTX_PRIO_LOW; CTX_OWNER_PRIMARY; CTX_OP_THREAD_CREATE; CTX_OP_THREAD_CREATE_TO;
                    CTX_OP_THREAD_REVIVE; CTX_OP_THREAD_REVIVE_TO; CTX_OP_THREAD_YIELD; CTX_OP_THREAD_YIELD_TO;
                    CTX_OP_THREAD_RESUME_YIELD_TO; CTX_OP_THREAD_YIELD_LOOP; CTX_OP_THREAD_RESUME;
                    CTX_OP_THREAD_MIGRATE] = repeat false 14.
Proof.
  split; [exact randws_ends|]. split; [exact ctx_push_head_lor|]. split; [exact ctx_pop_tail_lor|].
  destruct randws_flag_table as (A & B & C & D). repeat split; auto.
Qed.
Print Assumptions C07_randws_ends.

(* non-vacuity: a RANDWS history using both ends, 3 units, on the pointer model *)
Example C07_seq_example :
  let ops := [OPushThread (Some 0) 0%N; OPushThread (Some 1) CTX_OP_THREAD_CREATE; OPushThread (Some 2) 0%N;
              OLRemove 0; OPopThread CTX_OWNER_SECONDARY; OPopThreads 5 0%N; OIsEmpty] in
  ops_legal RANDWS [] ops = true /\
  map (fun x => fst (fst x)) (fst (pool_run 0 (pool_init RANDWS MPMC false) heap_init ops))
  = [RCode 0; RCode 0; RCode 0; RCode 0; RUnit 0 (Some 2); RUnits (Some 1) [1]; RBool true].
Proof. vm_compute. split; reflexivity. Qed.

(* ---------------------------------------------------------------- finding *)
(* Without the hypothesis on the lock word the statement is false: pool_init of
   a PRIVATE FIFO / RANDWS pool leaves the spinlock as malloc returned it, and
   pool_pop_wait / pool_pop_timedwait take that spinlock.  With a non-zero
   word a timed pop on a non-empty private pool never returns, while the
   specification says it returns the head. *)
Theorem C07_priv_timed_pop_refuted : forall k, k <> FIFO_WAIT ->
  snd (pool_run 0 (pool_init k PRIV true) heap_init [OPushThread (Some 0) 0%N; OPopWaitThread 0%N]) = Hung /\
  snd (pool_run 0 (pool_init k PRIV true) heap_init [OPushThread (Some 0) 0%N; OLPopTimedwait]) = Hung /\
  snd (spec_run k [] [OPushThread (Some 0) 0%N; OPopWaitThread 0%N]) = [RCode 0; RUnit 0 (Some 0)].
Proof. exact priv_timed_pop_refuted. Qed.
Print Assumptions C07_priv_timed_pop_refuted.

(* ---------------------------------------------------------------- concurrent callers *)
(* In every run of the pool LTS (any kind, any number of threads, any
   interleaving of the atomic steps, any client program respecting the push
   contract):
   (1) the effect events, ordered by their steps, are a legal history of the
       deque specification ending in the deque the pointer structure represents
       ([replay] checks every recorded result against [eff_spec]);
   (2) per thread the trace is (Call; failed polling rounds*; effect; Return of
       that effect's value)*: every effect step lies inside its own operation
       and the operation returns the effect's value ([tproj] accepts exactly
       this shape, and agrees with where the thread's program counter is). *)
Theorem C07_linearizable : forall k s, reachable k s ->
  replay k (c_trace s) = Some (tq_abs (c_q s) (c_h s)) /\
  (forall t, tproj k t (c_trace s) = Some (pc_tphase k (c_pc s t))).
Proof. exact linearizable. Qed.
Print Assumptions C07_linearizable.

(* every unit has been pushed exactly as often as it has been handed out by a
   pop / pop_many / pop_wait / pop_timedwait / successful remove, plus one iff
   it is in the pool now; it is in the pool at most once *)
Theorem C07_exactly_once : forall k s, reachable k s ->
  forall u, pushes (c_trace s) u = takes (c_trace s) u + count u (tq_abs (c_q s) (c_h s)) /\
            count u (tq_abs (c_q s) (c_h s)) <= 1.
Proof. exact exactly_once. Qed.
Print Assumptions C07_exactly_once.

(* a pop (pop, pop_wait, pop_timedwait round, pop_many) that hands out nothing
   takes effect — at its unlocked is_empty load or at its locked pop — in a
   state where the pool is empty *)
Theorem C07_empty_honest : forall k s t a s' o r,
  reachable k s -> step k s t a = Some s' ->
  c_trace s' = EEff t o r :: c_trace s -> nothing o r = true ->
  tq_abs (c_q s) (c_h s) = [] /\ tq_is_empty (c_q s) = true /\ tq_get_size (c_q s) = 0.
Proof. exact empty_honest. Qed.
Print Assumptions C07_empty_honest.

(* size and emptiness as read without the lock are exact in every reachable
   state, in particular whenever the pool is quiescent *)
Theorem C07_size_exact : forall k s, reachable k s ->
  tq_get_size (c_q s) = length (tq_abs (c_q s) (c_h s)) /\
  (tq_is_empty (c_q s) = true <-> tq_abs (c_q s) (c_h s) = []).
Proof. exact size_exact. Qed.
Print Assumptions C07_size_exact.

Theorem C07_mutual_exclusion : forall k s t1 t2,
  reachable k s -> holds (c_pc s t1) = true -> holds (c_pc s t2) = true -> t1 = t2.
Proof. exact mutual_exclusion. Qed.
Print Assumptions C07_mutual_exclusion.

(* no critical section ever dereferences NULL *)
Theorem C07_no_fault : forall k s t o f ph c,
  reachable k s -> c_pc s t = InOp o f ph -> (ph = PhLocked \/ ph = PhLocked2) -> has_body o = true ->
  exists s', step k s t (AStep c) = Some s'.
Proof. exact no_fault. Qed.
Print Assumptions C07_no_fault.

(* non-vacuity: an interleaving in which thread 1's pop fast path sees "empty"
   while thread 0 is inside its push, a failed try-lock, and a FIFO_WAIT
   pop_wait that sleeps on the condition variable and is served by a push *)
Example C07_conc_example :
  (exists s, run FIFO c_init
      [(0, ACall (CPush 5 0%N)); (1, ACall (CPop 0%N)); (0, AStep false); (1, AStep false); (0, AStep false);
       (1, ARet); (2, ACall (CPop 0%N)); (2, AStep false); (2, AStep false); (2, AStep false); (0, AStep false);
       (2, AStep false); (2, AStep false); (2, AStep false); (2, AStep false); (2, ARet); (0, ARet)] = Some s /\
     c_trace s = [ERet 0 RetUnit; ERet 2 (RetPtr (Some 5)); EEff 2 (CPop 0%N) (RetPtr (Some 5)); ECall 2 (CPop 0%N);
                  ERet 1 (RetPtr None); EEff 0 (CPush 5 0%N) RetUnit; EEff 1 (CPop 0%N) (RetPtr None);
                  ECall 1 (CPop 0%N); ECall 0 (CPush 5 0%N)]) /\
  (exists s, run FIFO_WAIT c_init
      [(0, ACall (CPopWait 0%N)); (0, AStep false); (0, AStep false); (1, ACall (CPush 3 0%N)); (1, AStep false);
       (1, AStep false); (0, AStep false); (1, AStep false); (0, AStep false); (0, AStep false); (0, AStep false);
       (0, ARet)] = Some s /\
     c_trace s = [ERet 0 (RetPtr (Some 3)); EEff 0 (CPopWait 0%N) (RetPtr (Some 3)); EEff 1 (CPush 3 0%N) RetUnit;
                  ECall 1 (CPush 3 0%N); ECall 0 (CPopWait 0%N)]).
Proof. split; eexists; split; vm_compute; reflexivity. Qed.
