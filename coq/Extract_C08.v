From Coq Require Import List ZArith Bool.
From Coq Require Import ExtrOcamlBasic.
From ABT Require Import Conc.Barrier.
Extraction Language OCaml.
Extraction "../ocaml/extracted/c08.ml"
  Z.add Z.mul Z.opp Z.sub Z.div Z.modulo Z.eqb Z.of_nat
  Barrier.step Barrier.init Barrier.replay Barrier.inl Barrier.queued Barrier.blocked Barrier.released.
