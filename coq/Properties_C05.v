(* C05 — condition variables: atomic release-and-wait, exact wake-ups, no spurious
   wake-up, return holding the mutex, no lost signal.  Statements only; the LTS is
   Conc/CondMutex.v (labels = hook records of the real library; the mutex inside is
   a state of the C04 LTS Conc/Mutex.v and moves only by Mutex.step), proofs are in
   Conc/CondMutexProofs.v (invariant) and Conc/CondMutexThms.v.
   [crun (cinit rec m t0) tr] ranges over every interleaving of every number of
   callers (ULT, external thread, tasklet) running ABT_cond_wait / timedwait /
   signal / broadcast on one condition variable and lock / trylock / spinlock /
   unlock on the mutex it is bound to (plain or recursive), with any clock. *)
From Coq Require Import List ZArith Bool.
From ABT Require Import Conc.Mutex Conc.MutexProofs Conc.CondMutex Conc.CondMutexProofs Conc.CondMutexThms.
Import ListNotations.

(* ---- reuse of C04: the mutex inside every reachable cond state is a reachable
   state of the mutex LTS, so every C04 theorem holds for it (two instances below) ---- *)
Theorem C05_mutex_is_the_C04_mutex : forall rec m t0 tr s,
  crun (cinit rec m t0) tr = Some s -> exists mtr, Mutex.run (Mutex.init rec) mtr = Some (ms s).
Proof. exact mutex_reachable. Qed.
Print Assumptions C05_mutex_is_the_C04_mutex.

Theorem C05_mutex_mutual_exclusion : forall rec m t0 tr s t1 t2,
  crun (cinit rec m t0) tr = Some s ->
  holds (pc (ms s) t1) = true -> holds (pc (ms s) t2) = true -> t1 = t2.
Proof.
  intros rec m t0 tr s t1 t2 R. destruct (mutex_reachable _ _ _ _ _ R) as [mtr Hm].
  exact (mutual_exclusion _ _ _ _ _ Hm).
Qed.
Print Assumptions C05_mutex_mutual_exclusion.

Theorem C05_mutex_no_lost_wakeup : forall rec m t0 tr s x,
  crun (cinit rec m t0) tr = Some s -> queued (pc (ms s) x) = true ->
  In x (wl (ms s)) /\
  (is_some (holder (ms s)) = true \/ exists u, wlock (ms s) = Some u /\ pc (ms s) u = U3).
Proof.
  intros rec m t0 tr s x R. destruct (mutex_reachable _ _ _ _ _ R) as [mtr Hm].
  exact (no_lost_wakeup _ _ _ _ Hm).
Qed.
Print Assumptions C05_mutex_no_lost_wakeup.

(* ---- atomic release-and-wait ---- *)
(* A caller inside wait/timedwait (not yet woken, not yet timed out) that no longer
   owns the mutex still holds the cond lock or is already in the wait list ... *)
Theorem C05_atomic_release_wait : forall rec m t0 tr s t,
  crun (cinit rec m t0) tr = Some s ->
  waiting (cpc s t) = true -> holds (pc (ms s) t) = false ->
  clock s = Some t \/ In t (map fst (cwl s)).
Proof. exact release_wait_atomic. Qed.
Print Assumptions C05_atomic_release_wait.

(* ... between its release of the mutex (U2) and its enqueue no SIGNAL / WAKE /
   BCAST step of anybody is enabled ... *)
Theorem C05_no_signal_in_window : forall rec m t0 tr s t e,
  crun (cinit rec m t0) tr = Some s ->
  prewait (cpc s t) = true -> holds (pc (ms s) t) = false ->
  is_wake_ev e = true -> cstep s e = None.
Proof. exact no_signal_in_window. Qed.
Print Assumptions C05_no_signal_in_window.

(* ... so a signaller that owns the mutex and has the cond lock finds every waiting caller queued. *)
Theorem C05_signaller_finds_waiter : forall rec m t0 tr s u t,
  crun (cinit rec m t0) tr = Some s ->
  clock s = Some u -> holds (pc (ms s) u) = true -> u <> t ->
  waiting (cpc s t) = true -> In t (map fst (cwl s)).
Proof. exact signaller_finds_waiter. Qed.
Print Assumptions C05_signaller_finds_waiter.

(* ---- exact wake-ups ---- *)
(* SIGNAL dequeues exactly the head (nobody if the list is empty), credits it once,
   makes it runnable, and touches no other caller. *)
Theorem C05_signal_exact : forall s o s', cstep s (CSignal o) = Some s' ->
  o = hd_error (map fst (cwl s)) /\ cwl s' = tl (cwl s) /\
  (forall x, given s' x = given s x + (if oeq o x then 1 else 0)) /\
  (forall x, o <> Some x -> clock s <> Some x -> cpc s' x = cpc s x) /\
  (forall x, o = Some x -> credit s' x = true /\ woken_pc (cpc s x) = Some (cpc s' x)).
Proof. exact signal_exact. Qed.
Print Assumptions C05_signal_exact.

(* A broadcast that took the cond lock in state s wakes, up to its BCAST / release
   record, exactly the callers queued in s, in queue order, and leaves the list empty
   (nobody can enqueue, time out or be signalled meanwhile). *)
Theorem C05_broadcast_exact : forall tr s u s' e s'',
  clock s = Some u -> bcasting (cpc s u) = true ->
  crun s tr = Some s' -> forallb (fun e => negb (ends_bcast e)) tr = true ->
  ends_bcast e = true -> cstep s' e = Some s'' ->
  map fst (cwl s) = wakes tr /\ cwl s' = [] /\ clock s' = Some u.
Proof. exact broadcast_exact. Qed.
Print Assumptions C05_broadcast_exact.

Theorem C05_wake_exact : forall s x s', cstep s (CWake x) = Some s' ->
  hd_error (map fst (cwl s)) = Some x /\ cwl s' = tl (cwl s) /\
  (forall z, given s' z = given s z + (if Nat.eqb x z then 1 else 0)) /\
  credit s' x = true /\ woken_pc (cpc s x) = Some (cpc s' x) /\
  (forall z, z <> x -> clock s <> Some z -> cpc s' z = cpc s z).
Proof. exact wake_exact. Qed.
Print Assumptions C05_wake_exact.

(* ---- no spurious wake-up ---- *)
(* The END record of a wait / timedwait that went through the wait list carries
   ABT_SUCCESS only if the caller was dequeued by a signal / broadcast since it
   enqueued (credit), and that credit is consumed; it carries
   ABT_ERR_COND_TIMEDOUT only for a timedwait, without credit, and only after the
   test now >= deadline. *)
Theorem C05_no_spurious : forall rec m t0 tr s t r s',
  crun (cinit rec m t0) tr = Some s -> cpc s t <> CIdle -> cstep s (CEnd t r) = Some s' ->
  (r = 0%Z /\ credit s t = true /\ credit s' t = false /\
   given s t = S (taken s t) /\ taken s' t = S (taken s t) /\ given s' t = given s t)
  \/
  (r = ERR_COND_TIMEDOUT /\ credit s t = false /\ credit s' t = false /\ tmd s t = true /\
   (dl s t <= now s)%Z /\ given s t = taken s t /\ taken s' t = taken s t).
Proof. exact wait_return_exact. Qed.
Print Assumptions C05_no_spurious.

(* ---- returns holding the mutex ---- *)
Theorem C05_returns_holding : forall rec m t0 tr s t r s',
  crun (cinit rec m t0) tr = Some s -> cpc s t <> CIdle -> cstep s (CEnd t r) = Some s' ->
  pc (ms s) t = Holding /\ holder (ms s) = Some t /\ ms s' = ms s /\ cpc s' t = CIdle /\
  (cpc s t = CWLs \/ cpc s t = CWLt).
Proof. exact wait_returns_holding. Qed.
Print Assumptions C05_returns_holding.

(* ... and the re-lock phase before the return is one complete ABTI_mutex_lock
   program, started after the wake-up / timeout with the caller outside the mutex. *)
Theorem C05_relock_is_a_fresh_lock : forall s e s' t,
  cstep s e = Some s' -> relocking (cpc s t) = false -> relocking (cpc s' t) = true ->
  exists f, e = CM (ETry t f) /\ pc (ms s) t = Idle /\ lockable (cpc s t) = Some (cpc s' t).
Proof. exact relock_entered_from_idle. Qed.
Print Assumptions C05_relock_is_a_fresh_lock.

(* ---- no lost signal ---- *)
(* Every SIGNAL / WAKE record naming x in a history has been consumed by exactly one
   successful return of x, except at most one, and then x is past the wait list. *)
Theorem C05_no_lost_signal : forall rec m t0 tr s x,
  crun (cinit rec m t0) tr = Some s ->
  count_wakes tr x = taken s x + (if credited (cpc s x) then 1 else 0).
Proof. exact no_lost_signal. Qed.
Print Assumptions C05_no_lost_signal.

Theorem C05_credit_accounting : forall rec m t0 tr s x,
  crun (cinit rec m t0) tr = Some s ->
  given s x = taken s x + (if credit s x then 1 else 0) /\
  (credit s x = true <-> credited (cpc s x) = true) /\
  (credit s x = true -> cqueued (cpc s x) = false /\ ~ In x (map fst (cwl s))).
Proof. exact credit_accounting. Qed.
Print Assumptions C05_credit_accounting.

Theorem C05_credit_consumed_only_by_return : forall s e s' x,
  cstep s e = Some s' -> credit s x = true ->
  credit s' x = true \/ (e = CEnd x 0%Z /\ taken s' x = S (taken s x)).
Proof. exact credit_consumed_only_by_return. Qed.
Print Assumptions C05_credit_consumed_only_by_return.

(* ---- non-vacuity ---- *)
(* ULT 1 waits; external thread 2 timedwaits (deadline 1005); 3 signals inside the
   mutex: 1 is woken, blocks on the mutex, gets it at 3's unlock and returns
   ABT_SUCCESS; the clock passes 1005, 2 times out (locked test, unlink), re-locks
   and returns ABT_ERR_COND_TIMEDOUT; a final broadcast finds nobody. *)
Definition ex_prefix : list cev :=
  [CM (EBegin 1 OLock); CM (ETry 1 false); CM (EEnd 1 0%Z);
   CBegin 1 KUlt (OWait 0); CAcq 1; CBind 1 0; CM (EAcqW 1); CM ERelL; CM ERelW; CEnq 1 1; CRel;
   CM (EBegin 2 OLock); CM (ETry 2 false); CM (EEnd 2 0%Z);
   CBegin 2 KExt (OTimed 0 1005%Z); CAcq 2; CM (EAcqW 2); CM ERelL; CM ERelW; CEnq 2 2; CRel;
   CM (EBegin 3 OLock); CM (ETry 3 false); CM (EEnd 3 0%Z);
   CBegin 3 KUlt OSignal; CAcq 3].
Definition ex_rest : list cev :=
  [CSignal (Some 1); CRel; CEnd 3 0%Z;
   CM (ETry 1 true); CM (EAcqW 1); CM (ETry 1 true); CM (EEnq 1 true); CM ERelW;
   CM (EBegin 3 OUnlock); CM (EAcqW 3); CM ERelL; CM (EWake 1); CM EBcast; CM ERelW; CM (EEnd 3 0%Z);
   CM (ETry 1 false); CEnd 1 0%Z;
   CTick 1006%Z; CAcq 2; CTimeout 2 true; CRel;
   CM (EBegin 1 OUnlock); CM (EAcqW 1); CM ERelL; CM ERelW; CM (EEnd 1 0%Z);
   CM (ETry 2 false); CEnd 2 42%Z;
   CM (EBegin 2 OUnlock); CM (EAcqW 2); CM ERelL; CM ERelW; CM (EEnd 2 0%Z);
   CBegin 3 KUlt OBcast; CAcq 3; CRel; CEnd 3 0%Z].

Example C05_example :
  exists s, crun (cinit false 0 1000%Z) (ex_prefix ++ ex_rest) = Some s /\
    clock s = None /\ cwl s = [] /\ holder (ms s) = None /\
    given s 1 = 1 /\ taken s 1 = 1 /\ credit s 1 = false /\ given s 2 = 0 /\ cret s 2 = ERR_COND_TIMEDOUT /\
    count_wakes (ex_prefix ++ ex_rest) 1 = 1.
Proof. eexists. vm_compute. repeat split. Qed.

(* the hypotheses of the window theorems are met: after [ex_prefix], 3 owns the
   mutex and the cond lock, 1 (blocked ULT) and 2 (timed, asleep) are waiting and queued *)
Example C05_example_window :
  exists s, crun (cinit false 0 1000%Z) ex_prefix = Some s /\
    clock s = Some 3 /\ holds (pc (ms s) 3) = true /\
    waiting (cpc s 1) = true /\ waiting (cpc s 2) = true /\ map fst (cwl s) = [1; 2].
Proof. eexists. vm_compute. repeat split. Qed.

(* a caller in the release-and-wait window: 1 has released the mutex, holds the cond
   lock, is not yet queued; a SIGNAL step is not enabled there *)
Example C05_example_in_window :
  exists s, crun (cinit false 0 1000%Z)
    [CM (EBegin 1 OLock); CM (ETry 1 false); CM (EEnd 1 0%Z);
     CBegin 1 KUlt (OWait 0); CAcq 1; CBind 1 0; CM (EAcqW 1); CM ERelL;
     CBegin 3 KUlt OSignal] = Some s /\
    prewait (cpc s 1) = true /\ holds (pc (ms s) 1) = false /\ clock s = Some 1 /\ cwl s = [] /\
    cstep s (CSignal None) = None /\ cstep s (CAcq 3) = None.
Proof. eexists. vm_compute. repeat split. Qed.
